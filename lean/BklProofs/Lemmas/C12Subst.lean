/-
  BklProofs.Lemmas.C12Subst — helper definitions and lemmas for the second batch of C12
  (`$repeat`) theorems:
  * `substRepeat i` — "the document written out by hand with the index substituted":
    every string value `"$repeat"` becomes the integer `i`, and inside `$"…"` interpolation
    strings every `{$repeat}` reference becomes the decimal text of `i`;
  * the class `repeatBody` of bodies for which the substitution theorem is proved;
  * scanner lemmas: after the textual substitution the interpolation scanner finds no reference;
  * the nested map-entry form of `$repeat` (`repeatEntries`, `process2MapTail`);
  * `process1` on documents without `$merge`/`$replace`.
-/
import Bkl.Process2
import BklProofs.Lemmas.Fields
import BklProofs.Lemmas.Interp
import BklProofs.Lemmas.Repeat
import BklProofs.Lemmas.EscapeEval
import BklProofs.Lemmas.Merge
namespace Bkl

/-! ## the substitution -/

/-- the characters of `$repeat` -/
def repeatChars : List Char := ['$', 'r', 'e', 'p', 'e', 'a', 't']

theorem repeatChars_eq : "$repeat".toList = repeatChars := by decide

theorem ofList_repeatChars : String.ofList repeatChars = "$repeat" := by
  rw [← repeatChars_eq, String.ofList_toList]

/-- `{$repeat}` becomes the decimal text of the index; everything else is kept -/
def substSeg (i : Int) : Seg → Seg
  | .ref r => if r = repeatChars then .lit (toString i).toList else .ref r
  | .lit l => .lit l

/-- the body of a `$"…"` string with every `{$repeat}` replaced by the decimal text of `i` -/
def substChars (i : Int) (b : List Char) : List Char :=
  render ((interpSegs b).map (substSeg i))

/-- a string leaf: `"$repeat"` is the index itself; in `$"…"` the references are replaced -/
def substStr (i : Int) (s : String) : Val :=
  if s = "$repeat" then .int i
  else match interpBody s with
    | some b => .str (String.ofList ('$' :: '"' :: (substChars i b ++ ['"'])))
    | none => .str s

mutual
/-- the document written out by hand for index `i` (map keys are left alone) -/
def substRepeat (i : Int) : Val → Val
  | .str s => substStr i s
  | .list xs => .list (substRepeatList i xs)
  | .map kvs => .map (substRepeatFields i kvs)
  | v => v
def substRepeatList (i : Int) : List Val → List Val
  | [] => []
  | x :: xs => substRepeat i x :: substRepeatList i xs
def substRepeatFields (i : Int) : Fields → Fields
  | [] => []
  | (k, v) :: rest => (k, substRepeat i v) :: substRepeatFields i rest
end

theorem substRepeatList_eq (i : Int) (xs : List Val) :
    substRepeatList i xs = xs.map (substRepeat i) := by
  induction xs with
  | nil => rfl
  | cons x xs ih => simp [substRepeatList, ih]

theorem substRepeatFields_eq (i : Int) (kvs : Fields) :
    substRepeatFields i kvs = kvs.map fun kv => (kv.1, substRepeat i kv.2) := by
  induction kvs with
  | nil => rfl
  | cons kv rest ih => obtain ⟨k, v⟩ := kv; simp [substRepeatFields, ih]

/-! ## the class of bodies -/

def segOK : Seg → Bool
  | .lit _ => true
  | .ref r => decide (r = repeatChars)

/-- a string leaf: not an interpolation, or (if `interp`) one whose references are all
    `{$repeat}` -/
def strOK (interp : Bool) (s : String) : Bool :=
  match interpBody s with
  | none => true
  | some b => interp && (interpSegs b).all segOK

/-- a map key: not an interpolation, not `$repeat`, not one of the process2 directives -/
def keyOK (k : String) : Bool :=
  (interpBody k).isNone && k != "$repeat" && k != "$encode" && k != "$decode" && k != "$value"

mutual
def repeatBody (interp : Bool) : Val → Bool
  | .str s => strOK interp s
  | .list xs => repeatBodyList interp xs
  | .map kvs => repeatBodyFields interp kvs
  | _ => true
def repeatBodyList (interp : Bool) : List Val → Bool
  | [] => true
  | x :: xs => repeatBody interp x && repeatBodyList interp xs
def repeatBodyFields (interp : Bool) : Fields → Bool
  | [] => true
  | (k, v) :: rest => keyOK k && repeatBody interp v && repeatBodyFields interp rest
end

theorem repeatBodyList_mem {interp : Bool} {xs : List Val} (h : repeatBodyList interp xs = true) :
    ∀ x ∈ xs, repeatBody interp x = true := by
  induction xs with
  | nil => intro x hx; cases hx
  | cons a t ih =>
    simp only [repeatBodyList, Bool.and_eq_true] at h
    intro x hx
    rcases List.mem_cons.1 hx with rfl | hx
    · exact h.1
    · exact ih h.2 x hx

theorem repeatBodyFields_mem {interp : Bool} {kvs : Fields}
    (h : repeatBodyFields interp kvs = true) :
    ∀ q ∈ kvs, keyOK q.1 = true ∧ repeatBody interp q.2 = true := by
  induction kvs with
  | nil => intro x hx; cases hx
  | cons a t ih =>
    obtain ⟨k, v⟩ := a
    simp only [repeatBodyFields, Bool.and_eq_true] at h
    intro x hx
    rcases List.mem_cons.1 hx with rfl | hx
    · exact ⟨h.1.1, h.1.2⟩
    · exact ih h.2 x hx

theorem repeatBodyFields_of_mem {interp : Bool} {kvs : Fields}
    (h : ∀ q ∈ kvs, keyOK q.1 = true ∧ repeatBody interp q.2 = true) :
    repeatBodyFields interp kvs = true := by
  induction kvs with
  | nil => rfl
  | cons a t ih =>
    obtain ⟨k, v⟩ := a
    simp only [repeatBodyFields, Bool.and_eq_true]
    exact ⟨h (k, v) (by simp), ih fun q hq => h q (by simp [hq])⟩

theorem keyOK_iff {k : String} : keyOK k = true ↔
    interpBody k = none ∧ k ≠ "$repeat" ∧ k ≠ "$encode" ∧ k ≠ "$decode" ∧ k ≠ "$value" := by
  simp [keyOK, and_assoc]

/-! ## the scanner after substitution -/

/-- no `{` of `cs` has a matching `}` -/
def NoRef (cs : List Char) : Prop :=
  ∀ pre post, cs = pre ++ '{' :: post → scanClose post [] = none

theorem scanSegs_noRef : ∀ (cs lit : List Char) (f : Nat), cs.length ≤ f → NoRef cs →
    scanSegs cs lit f = flush (cs.reverse ++ lit) := by
  intro cs
  induction cs with
  | nil => intro lit f _ _; simp [scanSegs_nil]
  | cons c rest ih =>
    intro lit f hf hn
    obtain ⟨f', rfl⟩ : ∃ f', f = f' + 1 := ⟨f - 1, by simp at hf; omega⟩
    have hn' : NoRef rest := fun pre post e => hn (c :: pre) post (by simp [e])
    have hf' : rest.length ≤ f' := by simpa using hf
    by_cases hc : c = '{'
    · subst hc
      have h0 := hn [] rest rfl
      rw [scanSegs.eq_3]
      simp only [h0]
      rw [ih _ _ hf' hn']
      simp
    · rw [scanSegs.eq_4 _ _ _ _ (fun e => hc e), ih _ _ hf' hn']
      simp

theorem interpSegs_noRef (cs : List Char) (h : NoRef cs) : interpSegs cs = flush cs.reverse := by
  unfold interpSegs
  rw [scanSegs_noRef cs [] _ (Nat.le_succ _) h]
  simp

/-- if the close of a `{` is blocked although a `{R}` follows, it is blocked whatever follows -/
theorem scanClose_none_prefix (R after Z : List Char) (h1 : '}' ∉ R) (h2 : '\n' ∉ R) :
    ∀ (l2 acc acc' : List Char),
      scanClose (l2 ++ '{' :: (R ++ '}' :: after)) acc = none → scanClose (l2 ++ Z) acc' = none := by
  intro l2
  induction l2 with
  | nil =>
    intro acc acc' h
    have := scanClose_inner ('{' :: R) after acc (by simp [h1]) (by simp [h2])
    simp only [List.nil_append, List.cons_append] at h this
    rw [this] at h
    cases h
  | cons c l2 ih =>
    intro acc acc' h
    by_cases hc1 : c = '}'
    · subst hc1; simp [scanClose] at h
    · by_cases hc2 : c = '\n'
      · subst hc2; simp [scanClose]
      · rw [List.cons_append, scanClose.eq_4 _ _ _ (fun e => hc1 e) (fun e => hc2 e)] at h ⊢
        exact ih _ _ h

theorem noRef_append {A B : List Char}
    (hA : ∀ pre post, A = pre ++ '{' :: post → scanClose (post ++ B) [] = none)
    (hB : NoRef B) : NoRef (A ++ B) := by
  intro pre post e
  rcases List.append_eq_append_iff.1 e with ⟨a', rfl, e2⟩ | ⟨c', rfl, e2⟩
  · exact hB a' post e2
  · cases c' with
    | nil => exact hB [] post (by simpa using e2.symm)
    | cons x c'' =>
      simp only [List.cons_append, List.cons.injEq] at e2
      obtain ⟨rfl, rfl⟩ := e2
      exact hA pre c'' rfl

theorem lbrace_not_mem_toString (i : Int) : '{' ∉ (toString i).toList := by
  have hn : ∀ n : Nat, '{' ∉ n.repr.toList := by
    intro n h
    rw [Nat.toList_repr] at h
    have := Nat.isDigit_of_mem_toDigits (by decide) (by decide) h
    exact absurd this (by decide)
  rw [Int.toString_eq_repr, Int.repr_eq_if]
  split
  · exact hn _
  · rw [String.toList_append]
    simp only [List.mem_append, not_or]
    exact ⟨by decide, hn _⟩

/-- the pending literal never contains a `{` that could still be closed -/
def LitInv (lit cs : List Char) : Prop :=
  ∀ pre post, lit.reverse ++ cs = pre ++ '{' :: post → pre.length < lit.length →
    scanClose post [] = none

theorem litInv_nil (cs : List Char) : LitInv [] cs := by
  intro pre post _ h; simp at h

theorem litInv_push {c : Char} {lit rest : List Char} (h : LitInv lit (c :: rest))
    (hc : c = '{' → scanClose rest [] = none) : LitInv (c :: lit) rest := by
  intro pre post e hl
  have e' : lit.reverse ++ c :: rest = pre ++ '{' :: post := by simpa using e
  by_cases hlt : pre.length < lit.length
  · exact h pre post e' hlt
  · have hlen : pre.length = lit.reverse.length := by simp at hl ⊢; omega
    obtain ⟨rfl, e2⟩ := List.append_inj e'.symm hlen
    simp only [List.cons.injEq] at e2
    obtain ⟨rfl, rfl⟩ := e2
    exact hc rfl

theorem render_map_flush (i : Int) (lit : List Char) :
    render ((flush lit).map (substSeg i)) = lit.reverse := by
  unfold flush
  cases lit with
  | nil => rfl
  | cons c cs => simp [render, renderSeg, substSeg]

theorem noRef_subst (i : Int) : ∀ (f : Nat) (cs lit : List Char), cs.length ≤ f → LitInv lit cs →
    (scanSegs cs lit f).all segOK = true →
    NoRef (render ((scanSegs cs lit f).map (substSeg i))) := by
  intro f
  induction f with
  | zero =>
    intro cs lit hf hinv _
    have : cs = [] := List.eq_nil_of_length_eq_zero (by omega)
    subst this
    rw [scanSegs_nil, render_map_flush]
    intro pre post e
    refine hinv pre post (by simpa using e) ?_
    have := congrArg List.length e
    simp at this
    omega
  | succ f ih =>
    intro cs lit hf hinv hok
    cases cs with
    | nil =>
      rw [scanSegs_nil, render_map_flush]
      intro pre post e
      refine hinv pre post (by simpa using e) ?_
      have := congrArg List.length e
      simp at this
      omega
    | cons c rest =>
      have hf' : rest.length ≤ f := by simpa using hf
      by_cases hc : c = '{'
      · subst hc
        rw [scanSegs.eq_3] at hok ⊢
        cases hsc : scanClose rest [] with
        | none =>
          simp only [hsc] at hok ⊢
          exact ih rest _ hf' (litInv_push hinv (fun _ => hsc)) hok
        | some p =>
          obtain ⟨inner, after⟩ := p
          simp only [hsc] at hok ⊢
          obtain ⟨i', e1, e2, n1, n2⟩ := scanClose_some hsc
          simp only [List.reverse_nil, List.nil_append] at e1
          subst e1
          have hlen : after.length ≤ f := by
            have := congrArg List.length e2
            simp at this
            omega
          change (flush lit ++ Seg.ref inner :: scanSegs after [] f).all segOK = true at hok
          change NoRef (render ((flush lit ++ Seg.ref inner :: scanSegs after [] f).map (substSeg i)))
          simp only [List.all_append, List.all_cons, Bool.and_eq_true, segOK, decide_eq_true_eq] at hok
          obtain ⟨_, hin, hrest⟩ := hok
          subst hin
          have hB := ih after [] hlen (litInv_nil _) hrest
          simp only [List.map_append, List.map_cons, render_append, render_map_flush, render,
            substSeg, if_true, renderSeg]
          apply noRef_append
          · intro pre post e
            have h1 := hinv pre (post ++ '{' :: rest)
              (by rw [e]; simp) (by have := congrArg List.length e; simp at this; omega)
            rw [e2] at h1
            exact scanClose_none_prefix repeatChars after _ (by decide) (by decide) post [] [] h1
          · apply noRef_append
            · intro pre post e
              exact absurd (by rw [e]; simp) (lbrace_not_mem_toString i)
            · exact hB
      · rw [scanSegs.eq_4 _ _ _ _ (fun e => hc e)] at hok ⊢
        exact ih rest _ hf' (litInv_push hinv (fun e => absurd e hc)) hok

/-- after the substitution the scanner finds only literal text -/
theorem interpSegs_substChars (i : Int) (b : List Char) (h : (interpSegs b).all segOK = true) :
    interpSegs (substChars i b) = flush (substChars i b).reverse := by
  apply interpSegs_noRef
  exact noRef_subst i _ b [] (Nat.le_succ _) (litInv_nil _) h

/-! ## evaluating `{$repeat}` under the binding -/

theorem toLower_repeat : "$repeat".toLower = "$repeat" := by
  apply String.toList_inj.1
  simp [String.toLower, String.toList_map]

theorem isPlainRef_repeat : isPlainRef "$repeat" = true := by
  simp [isPlainRef, reservedWords, toLower_repeat]
  decide

theorem interpBody_repeat : interpBody "$repeat" = none := by decide

/-- a `{$repeat}` reference is not captured by the referencing document: the path lookup of
    `$repeat` in `root` fails (with a modelled error), so the variable is used -/
def rootOK (root : Val) (docs : List Val) : Prop :=
  ∃ e, get root docs (.str "$repeat") = .error e ∧ e ≠ .unmodelled

theorem get_repeat (root : Val) (docs : List Val) :
    get root docs (.str "$repeat") = getPath root ["$repeat"] :=
  get_simple_key root docs "$repeat" isPlainRef_repeat (by decide)

/-- syntactic sufficient condition: `root` is not a map with a top-level `$repeat` key -/
theorem rootOK_of_no_key (root : Val) (docs : List Val)
    (h : ∀ kvs, root = .map kvs → fget kvs "$repeat" = none) : rootOK root docs := by
  refine ⟨.refNotFound, ?_, by decide⟩
  rw [get_repeat]
  cases root with
  | map kvs => simp [getPath, h kvs rfl]; rfl
  | _ => rfl

theorem getWithVar_repeat (root : Val) (docs : List Val) (ec : Vars) (i : Int)
    (h : rootOK root docs) :
    getWithVar root docs (fset ec "$repeat" (.int i)) "$repeat" = .ok (.int i) := by
  obtain ⟨e, he, hu⟩ := h
  unfold getWithVar
  rw [he]
  have : getVar (fset ec "$repeat" (.int i)) "$repeat" = .ok (.int i) := by
    simp [getVar, fget_fset_same, pure, Except.pure]
  cases e <;> first | exact this | exact absurd rfl hu

/-- the text contributed by one segment under the binding `$repeat ↦ i` -/
def partOf (i : Int) : Seg → String
  | .lit cs => String.ofList cs
  | .ref _ => toString i

theorem mapM_interpSeg_bound (fuel : Nat) (docs : List Val) (root : Val) (ec : Vars) (i : Int)
    (hroot : rootOK root docs) (segs : List Seg) (hs : segs.all segOK = true) :
    segs.mapM (interpSeg fuel docs root (fset ec "$repeat" (.int i))) = .ok (segs.map (partOf i)) := by
  induction segs with
  | nil => rfl
  | cons s rest ih =>
    simp only [List.all_cons, Bool.and_eq_true] at hs
    have h1 : interpSeg fuel docs root (fset ec "$repeat" (.int i)) s = .ok (partOf i s) := by
      cases s with
      | lit cs => rfl
      | ref r =>
        have hr : r = repeatChars := by simpa [segOK] using hs.1
        subst hr
        simp only [interpSeg, ofList_repeatChars, getWithVar_repeat root docs ec i hroot, partOf, fmtV]
    simp only [List.mapM_cons, h1, ih hs.2, List.map_cons]
    rfl

theorem join_partOf (i : Int) (segs : List Seg) (hs : segs.all segOK = true) :
    String.join (segs.map (partOf i)) = String.ofList (render (segs.map (substSeg i))) := by
  induction segs with
  | nil => simp [render]
  | cons s rest ih =>
    simp only [List.all_cons, Bool.and_eq_true] at hs
    simp only [List.map_cons, String.join_cons, ih hs.2, render, String.ofList_append]
    congr 1
    cases s with
    | lit cs => rfl
    | ref r =>
      have hr : r = repeatChars := by simpa [segOK] using hs.1
      subst hr
      simp [partOf, substSeg, renderSeg]

theorem interpSpec_bound (fuel : Nat) (docs : List Val) (root : Val) (ec : Vars) (i : Int)
    (hroot : rootOK root docs) (segs : List Seg) (hs : segs.all segOK = true) :
    interpSpec fuel docs root (fset ec "$repeat" (.int i)) segs
      = .ok (.str (String.ofList (render (segs.map (substSeg i))))) := by
  simp only [interpSpec, mapM_interpSeg_bound fuel docs root ec i hroot segs hs, join_partOf i segs hs]

theorem interpSpec_flush (fuel : Nat) (docs : List Val) (root : Val) (ec : Vars) (T : List Char) :
    interpSpec fuel docs root ec (flush T.reverse) = .ok (.str (String.ofList T)) := by
  unfold flush
  cases h : T.reverse with
  | nil =>
    have : T = [] := by simpa using h
    subst this
    simp [interpSpec, pure, Except.pure]
  | cons c cs =>
    have : (c :: cs).reverse = T := by rw [← h]; simp
    simp only [List.isEmpty_cons, Bool.false_eq_true, if_false, interpSpec, List.mapM_cons,
      List.mapM_nil, interpSeg, this]
    simp [bind, Except.bind, pure, Except.pure, String.join_cons]

theorem interpBody_quoted (T : List Char) :
    interpBody (String.ofList ('$' :: '"' :: (T ++ ['"']))) = some T := by
  simp [interpBody, String.toList_ofList]

/-- `process2String` on `$"…"` is `interpSpec` on the scanned body (same statement and proof as
    `C13_interp_spec`, restated here so that this lemma file does not import a property file) -/
theorem process2String_interp_eq (fuel : Nat) (docs : List Val) (root : Val) (ec : Vars) (s : String)
    (body : List Char) (hb : interpBody s = some body) :
    process2String (fuel + 1) docs root ec s = interpSpec fuel docs root ec (interpSegs body) := by
  rw [process2String.eq_1]
  simp only [hb, interpSpec]
  have key : ∀ (f : Seg → R String), (∀ seg, f seg = interpSeg fuel docs root ec seg) →
      (do let parts ← List.mapM f (interpSegs body); pure (Val.str (String.join parts)))
        = (match List.mapM (interpSeg fuel docs root ec) (interpSegs body) with
          | .error e => .error e
          | .ok parts => .ok (.str (String.join parts)) : R Val) := by
    intro f hf
    have : f = interpSeg fuel docs root ec := funext hf
    subst this
    cases List.mapM (interpSeg fuel docs root ec) (interpSegs body) <;> rfl
  apply key
  intro seg
  cases seg with
  | lit cs => rfl
  | ref cs =>
    simp only [interpSeg]
    cases getWithVar root docs ec (String.ofList cs) with
    | error e => rfl
    | ok v =>
      cases v <;> try rfl
      simp only [ok_bind']
      cases process2String fuel docs root ec _ <;> rfl

/-- string leaves: evaluating under the binding = evaluating the substituted leaf without it -/
theorem process2_str_subst (interp : Bool) (fuel : Nat) (docs docs' : List Val) (root root' : Val)
    (ec : Vars) (i : Int) (hroot : interp = true → rootOK root docs) (s : String)
    (hs : strOK interp s = true) :
    process2 (fuel + 1) docs root (fset ec "$repeat" (.int i)) (.str s)
      = process2 (fuel + 1) docs' root' ec (substStr i s) := by
  unfold substStr
  by_cases hrep : s = "$repeat"
  · subst hrep
    simp only [if_true]
    have h2 : process2 (fuel + 1) docs' root' ec (.int i) = .ok (.int i) := rfl
    rw [h2, process2, process2String.eq_1]
    simp [interpBody_repeat, getVar, fget_fset_same, pure, Except.pure]
  · simp only [hrep, if_false]
    cases hb : interpBody s with
    | none =>
      simp only
      rw [process2, process2, process2String.eq_1, process2String.eq_1]
      simp only [hb]
      have : (s == "$repeat") = false := by simpa using hrep
      simp only [this, Bool.or_false]
      split
      · simp only [getVar, fget_fset_ne _ _ _ _ hrep]
      · rfl
    | some b =>
      simp only [strOK, hb, Bool.and_eq_true] at hs
      simp only
      rw [process2, process2,
        process2String_interp_eq fuel docs root _ s b hb,
        process2String_interp_eq fuel docs' root' ec _ _ (interpBody_quoted _),
        interpSpec_bound fuel docs root ec i (hroot hs.1) _ hs.2,
        interpSegs_substChars i b hs.2, interpSpec_flush]
      rfl

/-! ## `process2` on maps and lists, with named step functions -/

/-- the copies generated by a map entry `k: {$repeat: n, …body…}` (inner loop of step 1) -/
def repeatCopies (fuel : Nat) (docs : List Val) (root : Val) (ec : Vars) (k : String) (body : Val)
    (n : Int) (acc : Fields) : R Fields :=
  (List.range n.toNat).foldlM (init := acc) fun acc2 i => do
    let ec' := fset ec "$repeat" (.int (Int.ofNat i))
    let v2 ← process2 fuel docs root ec' body
    if v2.isNull then pure acc2
    else do
      match ← process2 fuel docs root ec' (.str k) with
      | .str k2 => pure (fset acc2 k2 v2)
      | _ => throw Err.invalidType

/-- step 1 of `process2` on a map: expand `{k: {$repeat: n, ...}}` entries -/
def mapStep1 (fuel : Nat) (docs : List Val) (root : Val) (ec : Vars) (acc : Fields)
    (kv : String × Val) : R Fields :=
  match kv.2 with
  | .map m =>
    match fget m "$repeat" with
    | some r =>
      match r with
      | .int n => repeatCopies fuel docs root ec kv.1 (.map (fdel m "$repeat")) n acc
      | _ => throw Err.invalidType
    | none => pure (fset acc kv.1 kv.2)
  | _ => pure (fset acc kv.1 kv.2)

/-- the final loop of `process2` on a map: value first, then key; nulls dropped -/
def mapStep2 (fuel : Nat) (docs : List Val) (root : Val) (ec : Vars) (acc : Fields)
    (kv : String × Val) : R Fields := do
  let v2 ← process2 fuel docs root ec kv.2
  if v2.isNull then pure acc
  else
    match ← process2 fuel docs root ec (.str kv.1) with
    | .str k2 => pure (fset acc k2 v2)
    | _ => throw Err.invalidType

/-- everything `process2` does on a map after step 1 (verbatim copy of the model text) -/
def process2MapTail (fuel : Nat) (docs : List Val) (root : Val) (ec : Vars) (kvs : Fields) : R Val :=
      match fget kvs "$encode" with
      | some spec => do
        let obj2 ← process2 fuel docs root ec (.map (fdel kvs "$encode"))
        validate obj2
        match encodeAny obj2 spec with
        | .ok v => pure v
        | .err e => throw e
        | .codec _ _ => throw Err.unmodelled
      | none =>
        match fget kvs "$decode" with
        | some spec =>
          match spec with
          | .str f =>
            let rest := fdel kvs "$decode"
            match fget rest "$value" with
            | none => throw Err.invalidType
            | some (.str _) =>
              if (fdel rest "$value").length != 0 then throw Err.extraKeys
              else if isCodecFormat f then throw Err.unmodelled else throw Err.unknownFormat
            | some _ => throw Err.invalidType
          | _ => throw Err.invalidType
        | none =>
          match fget kvs "$value" with
          | some v =>
            if (fdel kvs "$value").length != 0 then throw Err.extraKeys
            else process2 fuel docs root ec v
          | none => do
            let ret ← kvs.foldlM (init := ([] : Fields)) fun acc (k, v) => do
              let v2 ← process2 fuel docs root ec v
              if v2.isNull then pure acc
              else
                match ← process2 fuel docs root ec (.str k) with
                | .str k2 => pure (fset acc k2 v2)
                | _ => throw Err.invalidType
            pure (.map ret)

theorem process2_map_eq (fuel : Nat) (docs : List Val) (root : Val) (ec : Vars) (kvs0 : Fields) :
    process2 (fuel + 1) docs root ec (.map kvs0)
      = (kvs0.foldlM (mapStep1 fuel docs root ec) [] >>= process2MapTail fuel docs root ec) := by
  rw [process2]
  have h1 : ∀ (f : Fields → String × Val → R Fields) (g : Fields → R Val),
      (∀ acc x, f acc x = mapStep1 fuel docs root ec acc x) →
      (∀ kvs, g kvs = process2MapTail fuel docs root ec kvs) →
      (kvs0.foldlM f [] >>= g)
        = (kvs0.foldlM (mapStep1 fuel docs root ec) [] >>= process2MapTail fuel docs root ec) := by
    intro f g hf hg
    have e1 : f = mapStep1 fuel docs root ec := by funext acc x; exact hf acc x
    have e2 : g = process2MapTail fuel docs root ec := by funext kvs; exact hg kvs
    rw [e1, e2]
  apply h1
  · intro acc x
    obtain ⟨k, v⟩ := x
    rfl
  · intro kvs
    rfl

theorem process2MapTail_plain (fuel : Nat) (docs : List Val) (root : Val) (ec : Vars) (kvs : Fields)
    (h1 : fget kvs "$encode" = none) (h2 : fget kvs "$decode" = none)
    (h3 : fget kvs "$value" = none) :
    process2MapTail fuel docs root ec kvs
      = (kvs.foldlM (mapStep2 fuel docs root ec) [] >>= fun ret => pure (.map ret)) := by
  unfold process2MapTail
  simp only [h1, h2, h3]
  have key : ∀ (f : Fields → String × Val → R Fields),
      (∀ acc x, f acc x = mapStep2 fuel docs root ec acc x) →
      (kvs.foldlM f [] >>= fun ret => (pure (Val.map ret) : R Val))
        = (kvs.foldlM (mapStep2 fuel docs root ec) [] >>= fun ret => pure (.map ret)) := by
    intro f hf
    have e1 : f = mapStep2 fuel docs root ec := by funext acc x; exact hf acc x
    rw [e1]
  apply key
  intro acc x
  obtain ⟨k, v⟩ := x
  rfl

/-- one list entry -/
def listStep (fuel : Nat) (docs : List Val) (root : Val) (ec : Vars) (acc : List Val) (v : Val) :
    R (List Val) :=
          match v with
          | .map m =>
            match fget m "$repeat" with
            | some r =>
              match r with
              | .int n => do
                let body := Val.map (fdel m "$repeat")
                (List.range n.toNat).foldlM (init := acc) fun acc2 i => do
                  let v2 ← process2 fuel docs root (fset ec "$repeat" (.int (Int.ofNat i))) body
                  if v2.isNull then pure acc2 else pure (acc2 ++ [v2])
              | _ => throw Err.invalidType
            | none => do
              let v2 ← process2 fuel docs root ec v
              if v2.isNull then pure acc else pure (acc ++ [v2])
          | _ => do
            let v2 ← process2 fuel docs root ec v
            if v2.isNull then pure acc else pure (acc ++ [v2])

theorem process2_list_noencode (fuel : Nat) (docs : List Val) (root : Val) (ec : Vars) (xs : List Val)
    (h : popListMapValue xs "$encode" = .ok (.null, xs)) :
    process2 (fuel + 1) docs root ec (.list xs)
      = (xs.foldlM (listStep fuel docs root ec) [] >>= fun ret => pure (.list ret)) := by
  rw [process2, h]
  simp only [ok_bind, isNull_null, Bool.not_true, Bool.false_eq_true, if_false]
  rfl

theorem listStep_plain (fuel : Nat) (docs : List Val) (root : Val) (ec : Vars) (acc : List Val)
    (x : Val) (h : ∀ m, x = .map m → fget m "$repeat" = none) :
    listStep fuel docs root ec acc x
      = (process2 fuel docs root ec x >>= fun v2 =>
          if v2.isNull then pure acc else pure (acc ++ [v2])) := by
  cases x with
  | map m => simp only [listStep, h m rfl]
  | _ => rfl

theorem mapStep1_plain (fuel : Nat) (docs : List Val) (root : Val) (ec : Vars) (acc : Fields)
    (q : String × Val) (h : ∀ m, q.2 = .map m → fget m "$repeat" = none) :
    mapStep1 fuel docs root ec acc q = .ok (fset acc q.1 q.2) := by
  obtain ⟨k, v⟩ := q
  cases v with
  | map m => simp only [mapStep1, h m rfl]; rfl
  | _ => rfl

theorem foldlM_congr_mem {α β : Type} (f g : β → α → R β) (l : List α)
    (h : ∀ b, ∀ a ∈ l, f b a = g b a) (b : β) : l.foldlM f b = l.foldlM g b := by
  induction l generalizing b with
  | nil => rfl
  | cons a l ih =>
    simp only [List.foldlM_cons, h b a (by simp)]
    congr 1
    funext b'
    exact ih (fun b a ha => h b a (by simp [ha])) b'

/-! ## `substRepeat` and the association-list operations -/

theorem substRepeatFields_fset (i : Int) (m : Fields) (k : String) (v : Val) :
    substRepeatFields i (fset m k v) = fset (substRepeatFields i m) k (substRepeat i v) := by
  induction m with
  | nil => rfl
  | cons hd tl ih =>
    obtain ⟨k', v'⟩ := hd
    simp only [fset, substRepeatFields]
    split
    · rfl
    · split
      · rfl
      · simp only [substRepeatFields, ih]

theorem substRepeatFields_fsetAll (i : Int) (l acc : Fields) :
    substRepeatFields i (fsetAll acc l) = fsetAll (substRepeatFields i acc) (substRepeatFields i l) := by
  induction l generalizing acc with
  | nil => rfl
  | cons hd tl ih =>
    obtain ⟨k, v⟩ := hd
    simp only [fsetAll, List.foldl_cons, substRepeatFields] at ih ⊢
    rw [ih, substRepeatFields_fset]

theorem fget_substRepeatFields (i : Int) (m : Fields) (k : String) :
    fget (substRepeatFields i m) k = (fget m k).map (substRepeat i) := by
  induction m with
  | nil => rfl
  | cons hd tl ih =>
    obtain ⟨k', v'⟩ := hd
    simp only [fget, substRepeatFields]
    split
    · rfl
    · exact ih

theorem mem_fsetAll {acc l : Fields} {p : String × Val} (h : p ∈ fsetAll acc l) :
    p ∈ acc ∨ p ∈ l := by
  induction l generalizing acc with
  | nil => exact Or.inl h
  | cons hd tl ih =>
    simp only [fsetAll, List.foldl_cons] at h ih
    rcases ih h with h | h
    · rcases mem_fset h with h | h
      · exact Or.inr (by simp [h])
      · exact Or.inl h
    · exact Or.inr (List.mem_cons_of_mem _ h)

theorem substRepeat_map_inv {i : Int} {x : Val} {m' : Fields} (h : substRepeat i x = .map m') :
    ∃ m, x = .map m ∧ m' = substRepeatFields i m := by
  cases x with
  | map m => simp only [substRepeat, Val.map.injEq] at h; exact ⟨m, rfl, h.symm⟩
  | str s =>
    simp only [substRepeat, substStr] at h
    split at h
    · cases h
    · split at h <;> cases h
  | _ => simp [substRepeat] at h

theorem fget_none_of_keyOK {interp : Bool} {m : Fields} (h : repeatBodyFields interp m = true)
    {d : String} (hd : keyOK d = false) : fget m d = none := by
  apply fget_none_iff.2
  intro p hp e
  have := (repeatBodyFields_mem h p hp).1
  rw [e, hd] at this
  cases this

theorem substStr_key {i : Int} {k : String} (h : keyOK k = true) : substStr i k = .str k := by
  obtain ⟨h1, h2, _⟩ := keyOK_iff.1 h
  simp [substStr, h1, h2]

/-! ## the substitution theorem -/

theorem process2_subst_gen (interp : Bool) (docs docs' : List Val) (root root' : Val) (i : Int)
    (hroot : interp = true → rootOK root docs) :
    ∀ (fuel : Nat) (ec : Vars) (body : Val), repeatBody interp body = true →
      process2 fuel docs root (fset ec "$repeat" (.int i)) body
        = process2 fuel docs' root' ec (substRepeat i body) := by
  intro fuel
  induction fuel with
  | zero => intro ec body _; rfl
  | succ fuel ih =>
    intro ec body hb
    cases body with
    | null | bool | int | flt => rfl
    | str s =>
      simp only [repeatBody] at hb
      exact process2_str_subst interp fuel docs docs' root root' ec i hroot s hb
    | list xs =>
      simp only [repeatBody] at hb
      have hx := repeatBodyList_mem hb
      have hnr : ∀ x ∈ xs, ∀ m, x = .map m → fget m "$repeat" = none := by
        intro x hxm m e
        have := hx x hxm
        subst e
        simp only [repeatBody] at this
        exact fget_none_of_keyOK this (by decide)
      have hp1 : popListMapValue xs "$encode" = .ok (.null, xs) := by
        apply e_popListMapValue_none
        intro x hxm m e
        have := hx x hxm
        subst e
        simp only [repeatBody] at this
        exact fget_none_of_keyOK this (by decide)
      have hp2 : popListMapValue (substRepeatList i xs) "$encode" = .ok (.null, substRepeatList i xs) := by
        apply e_popListMapValue_none
        intro y hy m' e
        rw [substRepeatList_eq] at hy
        obtain ⟨x, hxm, rfl⟩ := List.mem_map.1 hy
        obtain ⟨m, rfl, rfl⟩ := substRepeat_map_inv e
        have := hx _ hxm
        simp only [repeatBody] at this
        rw [fget_substRepeatFields, fget_none_of_keyOK this (by decide)]
        rfl
      simp only [substRepeat]
      rw [process2_list_noencode _ _ _ _ _ hp1, process2_list_noencode _ _ _ _ _ hp2,
        substRepeatList_eq, List.foldlM_map]
      congr 1
      apply foldlM_congr_mem
      intro acc x hxm
      rw [listStep_plain _ _ _ _ _ _ (hnr x hxm), listStep_plain, ih ec x (hx x hxm)]
      intro m' e
      obtain ⟨m, rfl, rfl⟩ := substRepeat_map_inv e
      rw [fget_substRepeatFields, hnr _ hxm m rfl]
      rfl
    | map kvs0 =>
      simp only [repeatBody] at hb
      have hq := repeatBodyFields_mem hb
      simp only [substRepeat]
      rw [process2_map_eq, process2_map_eq]
      -- step 1 on both sides is the normalisation `fsetAll []`
      have hs1 : kvs0.foldlM (mapStep1 fuel docs root (fset ec "$repeat" (.int i))) []
          = .ok (fsetAll [] kvs0) := by
        apply e_foldlM_fields_id
        intro acc q hqm
        apply mapStep1_plain
        intro m e
        have := (hq q hqm).2
        rw [e] at this
        simp only [repeatBody] at this
        exact fget_none_of_keyOK this (by decide)
      have hs2 : (substRepeatFields i kvs0).foldlM (mapStep1 fuel docs' root' ec) []
          = .ok (fsetAll [] (substRepeatFields i kvs0)) := by
        apply e_foldlM_fields_id
        intro acc q' hqm'
        apply mapStep1_plain
        intro m' e
        rw [substRepeatFields_eq] at hqm'
        obtain ⟨q, hqm, rfl⟩ := List.mem_map.1 hqm'
        obtain ⟨m, e1, rfl⟩ := substRepeat_map_inv e
        have := (hq q hqm).2
        rw [e1] at this
        simp only [repeatBody] at this
        rw [fget_substRepeatFields, fget_none_of_keyOK this (by decide)]
        rfl
      rw [hs1, hs2, ok_bind, ok_bind]
      have hsub : fsetAll [] (substRepeatFields i kvs0) = substRepeatFields i (fsetAll [] kvs0) := by
        rw [substRepeatFields_fsetAll]; rfl
      rw [hsub]
      generalize hkvs : fsetAll [] kvs0 = kvs
      have hq' : ∀ q ∈ kvs, keyOK q.1 = true ∧ repeatBody interp q.2 = true := by
        intro q hqm
        rw [← hkvs] at hqm
        rcases mem_fsetAll hqm with h | h
        · cases h
        · exact hq q h
      have hb' : repeatBodyFields interp kvs = true := repeatBodyFields_of_mem hq'
      have hn : ∀ d, keyOK d = false → fget kvs d = none ∧ fget (substRepeatFields i kvs) d = none := by
        intro d hd
        have := fget_none_of_keyOK hb' hd
        exact ⟨this, by rw [fget_substRepeatFields, this]; rfl⟩
      rw [process2MapTail_plain _ _ _ _ _ (hn _ (by decide)).1 (hn _ (by decide)).1 (hn _ (by decide)).1,
        process2MapTail_plain _ _ _ _ _ (hn _ (by decide)).2 (hn _ (by decide)).2 (hn _ (by decide)).2,
        substRepeatFields_eq, List.foldlM_map]
      congr 1
      apply foldlM_congr_mem
      intro acc q hqm
      obtain ⟨hk, hv⟩ := hq' q hqm
      have hkey : process2 fuel docs root (fset ec "$repeat" (.int i)) (.str q.1)
          = process2 fuel docs' root' ec (.str q.1) := by
        have := ih ec (.str q.1) (by simp only [repeatBody, strOK, (keyOK_iff.1 hk).1])
        simpa only [substRepeat, substStr_key hk] using this
      simp only [mapStep2, ih ec q.2 hv, hkey]

/-! ## nested `$repeat` in a map entry -/

/-- the `i`-th copy of a map entry `k: {$repeat: n, …body…}`: the body is evaluated under
    `$repeat ↦ i`; a null result drops the copy; otherwise the key is evaluated under the same
    binding and must be a string -/
def repeatEntry (fuel : Nat) (docs : List Val) (root : Val) (ec : Vars) (k : String) (body : Val)
    (i : Nat) : R (Option (String × Val)) := do
  let ec' := fset ec "$repeat" (.int (Int.ofNat i))
  let v2 ← process2 fuel docs root ec' body
  if v2.isNull then pure none
  else
    match ← process2 fuel docs root ec' (.str k) with
    | .str k2 => pure (some (k2, v2))
    | _ => throw Err.invalidType

theorem foldlM_collect_opt {α : Type} (f : α → R (Option (String × Val))) (l : List α) (acc : Fields) :
    l.foldlM (fun acc2 i => f i >>= fun o =>
        match o with
        | none => (pure acc2 : R Fields)
        | some kv => pure (fset acc2 kv.1 kv.2)) acc
      = (l.mapM f >>= fun es => pure (fsetAll acc (es.filterMap id))) := by
  induction l generalizing acc with
  | nil => simp [fsetAll]
  | cons i l ih =>
    simp only [List.foldlM_cons, List.mapM_cons, bind_assoc, pure_bind]
    cases h : f i with
    | error e => rfl
    | ok o =>
      simp only [ok_bind]
      cases o with
      | none =>
        simp only [pure_bind, ih]
        cases List.mapM f l <;> simp [bind, Except.bind, pure, Except.pure]
      | some kv =>
        simp only [pure_bind, ih]
        cases List.mapM f l <;> simp [bind, Except.bind, pure, Except.pure, fsetAll]

theorem repeatCopies_eq (fuel : Nat) (docs : List Val) (root : Val) (ec : Vars) (k : String)
    (body : Val) (n : Int) (acc : Fields) :
    repeatCopies fuel docs root ec k body n acc
      = ((List.range n.toNat).mapM (repeatEntry fuel docs root ec k body) >>= fun es =>
          pure (fsetAll acc (es.filterMap id))) := by
  rw [← foldlM_collect_opt]
  unfold repeatCopies
  congr 1
  funext acc2 i
  simp only [repeatEntry]
  cases process2 fuel docs root (fset ec "$repeat" (.int (Int.ofNat i))) body with
  | error e => rfl
  | ok v2 =>
    simp only [ok_bind]
    cases hv : v2.isNull
    · simp only [Bool.false_eq_true, if_false]
      cases process2 fuel docs root (fset ec "$repeat" (.int (Int.ofNat i))) (.str k) with
      | error e => rfl
      | ok kv => cases kv <;> rfl
    · rfl

/-- the map-entry form of nested `$repeat`, general form -/
theorem process2_map_nested (fuel : Nat) (docs : List Val) (root : Val) (ec : Vars) (k : String)
    (m : Fields) (n : Int) (hr : fget m "$repeat" = some (.int n)) :
    process2 (fuel + 1) docs root ec (.map [(k, .map m)])
      = ((List.range n.toNat).mapM (repeatEntry fuel docs root ec k (.map (fdel m "$repeat")))
          >>= fun es => process2MapTail fuel docs root ec (fofList (es.filterMap id))) := by
  rw [process2_map_eq]
  simp only [List.foldlM_cons, List.foldlM_nil, mapStep1, hr, repeatCopies_eq, bind_assoc,
    pure_bind, bind_pure]
  rfl

theorem mapM_ok_of_forall' {α β : Type} (f : α → R β) (g : α → β) (l : List α)
    (h : ∀ i ∈ l, f i = .ok (g i)) : l.mapM f = .ok (l.map g) := by
  induction l with
  | nil => rfl
  | cons i l ih =>
    simp only [List.mapM_cons, h i (by simp), ih (fun j hj => h j (by simp [hj]))]
    rfl

/-! ### `fofList`: later entries win -/

theorem rp_fsetAll_append (acc a b : Fields) : fsetAll acc (a ++ b) = fsetAll (fsetAll acc a) b := by
  simp [fsetAll, List.foldl_append]

theorem fget_fsetAll_not_mem (l acc : Fields) (x : String) (h : ∀ p ∈ l, p.1 ≠ x) :
    fget (fsetAll acc l) x = fget acc x := by
  induction l generalizing acc with
  | nil => rfl
  | cons hd tl ih =>
    simp only [fsetAll, List.foldl_cons] at ih ⊢
    rw [ih _ (fun p hp => h p (by simp [hp])), fget_fset_ne _ _ _ _ (fun e => h hd (by simp) e.symm)]

/-- the value under `x` is the one of the last entry with key `x` -/
theorem fget_fsetAll_last (acc pre post : Fields) (x : String) (v : Val)
    (h : ∀ p ∈ post, p.1 ≠ x) :
    fget (fsetAll acc (pre ++ (x, v) :: post)) x = some v := by
  rw [rp_fsetAll_append]
  show fget (fsetAll (fset (fsetAll acc pre) x v) post) x = some v
  rw [fget_fsetAll_not_mem _ _ _ h, fget_fset_same]

theorem rp_sorted_fsetAll (l acc : Fields) (h : Fields.SortedKeys acc) :
    Fields.SortedKeys (fsetAll acc l) := by
  induction l generalizing acc with
  | nil => exact h
  | cons hd tl ih =>
    simp only [fsetAll, List.foldl_cons] at ih ⊢
    exact ih _ (sorted_fset h)

theorem rp_sorted_fofList (l : Fields) : Fields.SortedKeys (fofList l) :=
  rp_sorted_fsetAll l [] (by simp [Fields.SortedKeys])

theorem fofList_idem (l : Fields) : fofList (fofList l) = fofList l :=
  e_fofList_sorted _ (sortedKeysB_iff.2 (rp_sorted_fofList l))

theorem length_fset_new (m : Fields) (k : String) (v : Val) (h : fget m k = none) :
    (fset m k v).length = m.length + 1 := by
  induction m with
  | nil => rfl
  | cons hd tl ih =>
    obtain ⟨k', v'⟩ := hd
    simp only [fget] at h
    split at h
    · cases h
    · rename_i hne
      simp only [fset]
      split
      · rfl
      · rw [if_neg (fun e => hne e.symm)]
        simp [ih h]

theorem length_fsetAll_nodup (l acc : Fields) (hnd : (l.map (·.1)).Nodup)
    (hacc : ∀ p ∈ l, fget acc p.1 = none) : (fsetAll acc l).length = acc.length + l.length := by
  induction l generalizing acc with
  | nil => rfl
  | cons hd tl ih =>
    simp only [List.map_cons, List.nodup_cons] at hnd
    simp only [fsetAll, List.foldl_cons] at ih ⊢
    rw [ih _ hnd.2, length_fset_new _ _ _ (hacc hd (by simp))]
    · simp; omega
    · intro p hp
      rw [fget_fset_ne _ _ _ _ (fun e => hnd.1 (by rw [← e]; exact List.mem_map_of_mem hp))]
      exact hacc p (by simp [hp])

/-- the final loop of `process2` on entries that evaluate to themselves -/
theorem foldlM_mapStep2_fix (fuel : Nat) (docs : List Val) (root : Val) (ec : Vars) (E : Fields)
    (h : ∀ q ∈ E, process2 fuel docs root ec q.2 = .ok q.2 ∧ q.2.isNull = false ∧
      process2 fuel docs root ec (.str q.1) = .ok (.str q.1)) :
    E.foldlM (mapStep2 fuel docs root ec) [] = .ok (fofList E) := by
  apply e_foldlM_fields_id
  intro acc q hq
  obtain ⟨h1, h2, h3⟩ := h q hq
  simp only [mapStep2, h1, h2, h3, ok_bind, Bool.false_eq_true, if_false]
  rfl

/-! ## small evaluations used by the examples -/

theorem process2_plain_key (fuel : Nat) (docs : List Val) (root : Val) (ec : Vars) (s : String)
    (h1 : interpBody s = none) (h2 : s.startsWith "$env:" = false) (h3 : s ≠ "$repeat") :
    process2 (fuel + 1) docs root ec (.str s) = .ok (.str s) := by
  rw [process2, process2String.eq_1]
  simp [h1, h2, h3]
  rfl

/-- a key starting with a character other than `$` is an ordinary key -/
theorem process2_key_nodollar (fuel : Nat) (docs : List Val) (root : Val) (ec : Vars) (c : Char)
    (l : List Char) (hc : c ≠ '$') :
    process2 (fuel + 1) docs root ec (.str (String.ofList (c :: l)))
      = .ok (.str (String.ofList (c :: l))) := by
  apply process2_plain_key
  · simp only [interpBody, String.toList_ofList]
    split
    · rename_i h; simp only [List.cons.injEq] at h; exact absurd h.1 hc
    · rfl
  · apply e_startsWith_false
    have : "$env:".toList = ['$', 'e', 'n', 'v', ':'] := by decide
    simp only [String.toList_ofList, this, List.isPrefixOf]
    simp [Ne.symm hc]
  · intro e
    have := congrArg String.toList e
    rw [String.toList_ofList, repeatChars_eq] at this
    simp only [repeatChars, List.cons.injEq] at this
    exact hc this.1

theorem ofList_ne_of_head {c d : Char} {l : List Char} {s : String} (hs : s.toList.head? = some d)
    (hcd : c ≠ d) : String.ofList (c :: l) ≠ s := by
  intro e
  rw [← e, String.toList_ofList] at hs
  simp at hs
  exact hcd hs

/-- a one-entry map with an integer value -/
theorem process2_single_int (fuel : Nat) (docs : List Val) (root : Val) (ec : Vars) (k k2 : String)
    (j : Int) (hk : process2 (fuel + 1) docs root ec (.str k) = .ok (.str k2))
    (h1 : k ≠ "$encode") (h2 : k ≠ "$decode") (h3 : k ≠ "$value") :
    process2 (fuel + 2) docs root ec (.map [(k, .int j)]) = .ok (.map [(k2, .int j)]) := by
  have hval : process2 (fuel + 1) docs root ec (.int j) = .ok (.int j) := rfl
  rw [process2_map_eq]
  simp only [List.foldlM_cons, List.foldlM_nil, mapStep1, pure_bind, bind_pure, fset]
  rw [process2MapTail_plain _ _ _ _ _ (by simp [fget, h1]) (by simp [fget, h2]) (by simp [fget, h3])]
  simp only [List.foldlM_cons, List.foldlM_nil, mapStep2, hk, hval, ok_bind, Val.isNull,
    Bool.false_eq_true, if_false, fset]
  rfl

/-- the interpolated key `$"k{$repeat}"` under the binding -/
theorem process2_key_k_repeat (fuel : Nat) (docs : List Val) (root : Val) (ec : Vars) (i : Int)
    (hroot : rootOK root docs) :
    process2 (fuel + 2) docs root (fset ec "$repeat" (.int i)) (.str "$\"k{$repeat}\"")
      = .ok (.str (String.ofList ('k' :: (toString i).toList))) := by
  rw [process2, process2String_interp_eq _ _ _ _ _ "k{$repeat}".toList (by decide),
    interpSpec_bound _ docs root ec i hroot _ (by decide)]
  have : interpSegs "k{$repeat}".toList = [.lit ['k'], .ref repeatChars] := by decide
  rw [this]
  simp [substSeg, render, renderSeg]

/-- the body `{v: $repeat}` under the binding -/
theorem process2_body_v_repeat (fuel : Nat) (docs : List Val) (root : Val) (ec : Vars) (i : Int) :
    process2 (fuel + 2) docs root (fset ec "$repeat" (.int i)) (.map [("v", .str "$repeat")])
      = .ok (.map [("v", .int i)]) := by
  rw [process2_subst_gen false docs docs root root i (fun h => by cases h) _ ec _ (by decide)]
  have : substRepeat i (.map [("v", .str "$repeat")]) = .map [("v", .int i)] := by
    simp [substRepeat, substRepeatFields, substStr]
  rw [this]
  exact process2_single_int fuel docs root ec "v" "v" i
    (process2_key_nodollar fuel docs root ec 'v' [] (by decide)) (by decide) (by decide) (by decide)

/-! ## `process1` on documents without `$merge` / `$replace`

  (the proof of `e_process1_plain` in Lemmas/EscapeProc.lean, for the weaker predicate `p1OK`
  which — unlike "plain" — allows `$repeat`, interpolations, `$env:` … ) -/

/-- a key or string leaf that phase 3 (`process1`) leaves alone -/
def p1OK (s : String) : Bool :=
  !("$merge:".toList.isPrefixOf s.toList) && !("$replace:".toList.isPrefixOf s.toList) &&
  s != "$merge" && s != "$replace"

theorem p1OK_iff {s : String} : p1OK s = true ↔
    "$merge:".toList.isPrefixOf s.toList = false ∧ "$replace:".toList.isPrefixOf s.toList = false ∧
    s ≠ "$merge" ∧ s ≠ "$replace" := by
  simp [p1OK, and_assoc]

theorem p1_fget_merge {kvs : Fields} (h : allStrFields p1OK kvs = true) : fget kvs "$merge" = none := by
  apply e_fget_none
  intro p hp
  exact (p1OK_iff.1 (e_allStrFields_mem h p hp).1).2.2.1

theorem p1_fget_replace {kvs : Fields} (h : allStrFields p1OK kvs = true) : fget kvs "$replace" = none := by
  apply e_fget_none
  intro p hp
  exact (p1OK_iff.1 (e_allStrFields_mem h p hp).1).2.2.2

theorem process1_p1 : ∀ (fuel : Nat) (docs : List Val) (root : Val) (loc : Loc) (v : Val),
    allStr p1OK v = true → Val.wfB v = true → depth v < fuel →
    process1 fuel docs root loc v = .ok (dropNulls v, root) := by
  intro fuel
  induction fuel with
  | zero => intro _ _ _ v _ _ h; omega
  | succ fuel ih =>
    intro docs root loc v hp hw hd
    cases v with
    | null | bool | int | flt => simp [process1, dropNulls, e_pure_eq]
    | str s =>
      simp only [allStr] at hp
      have h := p1OK_iff.1 hp
      simp [process1, dropNulls, e_pure_eq, e_stripPrefix_none h.1, e_stripPrefix_none h.2.1]
    | map kvs =>
      simp only [allStr] at hp
      simp only [Val.wfB, Bool.and_eq_true] at hw
      simp only [depth] at hd
      rw [process1]
      simp only [p1_fget_merge hp, p1_fget_replace hp]
      rw [e_foldlM_fields_root _ kvs [] root]
      · simp only [e_ok_bind, dropNulls, e_pure_eq]
        rw [← fofList, e_fofList_sorted _ (e_dropNullsFields_sorted kvs hw.1)]
      · intro acc rt q hq
        obtain ⟨k, v⟩ := q
        have hq1 := e_allStrFields_mem hp _ hq
        have hq2 := e_wfFields_mem hw.2 _ hq
        have hq3 := e_depthFields_mem _ hq
        have hk1 := p1OK_iff.1 hq1.1
        have hfuel : 0 < fuel := by omega
        have hk : process1 fuel docs rt none (.str k) = .ok (.str k, rt) := by
          obtain ⟨n, rfl⟩ : ∃ n, fuel = n + 1 := ⟨fuel - 1, by omega⟩
          simp [process1, e_pure_eq, e_stripPrefix_none hk1.1, e_stripPrefix_none hk1.2.1]
        simp only [ih docs rt (childLoc loc k) v hq1.2 hq2 (by simp at hq3; omega), e_ok_bind,
          e_dropNulls_isNull]
        split
        · rfl
        · simp only [hk, e_ok_bind, e_pure_eq]
    | list xs =>
      simp only [allStr] at hp
      simp only [Val.wfB] at hw
      simp only [depth] at hd
      rw [process1]
      rw [List.filterMap_eq_nil_iff.2 ?hm, List.filter_eq_self.2 ?hf]
      case hm =>
        intro x hx
        have hx1 := e_allStrList_mem hp x hx
        split
        · rename_i k ref
          simp only [allStr, allStrFields, Bool.and_eq_true] at hx1
          have := (p1OK_iff.1 hx1.1.1).2.2.1
          simp [this]
        · rfl
      case hf =>
        intro q hq
        obtain ⟨x, i⟩ := q
        have hx : x ∈ xs := by
          have := List.mem_zipIdx hq
          rw [this.2.2]; exact List.getElem_mem _
        have hx1 := e_allStrList_mem hp x hx
        simp only
        split
        · rename_i k ref
          simp only [allStr, allStrFields, Bool.and_eq_true] at hx1
          have := (p1OK_iff.1 hx1.1.1).2.2.1
          simp [this]
        · rfl
      generalize hT : List.map _ xs.zipIdx = T
      have hT1 : T.map (·.1) = xs := by
        subst hT
        rw [List.map_map]
        conv => rhs; rw [← List.zipIdx_map_fst 0 xs]
        apply List.map_congr_left
        intro a _; obtain ⟨v, i⟩ := a; rfl
      have hT2 : ∀ q ∈ T, q.1 ∈ xs := by
        intro q hq
        rw [← hT1]; exact List.mem_map_of_mem hq
      simp only [List.foldlM_nil, e_pure_eq, e_ok_bind, hT1]
      rw [e_popListMapValue_none xs _ (fun x hx m e => by
        have := e_allStrList_mem hp x hx
        subst e
        simp only [allStr] at this
        exact p1_fget_replace this)]
      have hn : Val.null.isNull = true := rfl
      simp only [e_ok_bind, hn, Bool.not_true, Bool.false_eq_true, if_false]
      rw [List.filter_eq_self.2 ?hf2]
      case hf2 =>
        intro q hq
        have hx1 := e_allStrList_mem hp _ (hT2 q hq)
        split
        · rename_i k ref heq
          rw [heq] at hx1
          simp only [allStr, allStrFields, Bool.and_eq_true] at hx1
          have := (p1OK_iff.1 hx1.1.1).2.2.2
          simp [this]
        · rfl
      rw [e_foldlM_tagged _ T [] root]
      · simp only [e_ok_bind, hT1, dropNulls, List.nil_append]
      · intro acc rt q hq
        have hx := hT2 q hq
        have hq1 := e_allStrList_mem hp _ hx
        have hq2 := e_wfList_mem hw _ hx
        have hq3 := e_depthList_mem _ hx
        simp only [ih docs rt _ q.1 hq1 hq2 (by omega), e_ok_bind, e_dropNulls_isNull]
        split <;> rfl

theorem fget_dropNullsFields_int {kvs : Fields} {k : String} {n : Int}
    (h : fget kvs k = some (.int n)) : fget (dropNullsFields kvs) k = some (.int n) := by
  induction kvs with
  | nil => cases h
  | cons hd tl ih =>
    obtain ⟨k', v'⟩ := hd
    simp only [fget] at h
    simp only [dropNullsFields]
    by_cases hk : k' = k
    · simp only [hk, if_true, Option.some.injEq] at h
      subst h
      simp [Val.isNull, fget, hk, dropNulls]
    · simp only [hk, if_false] at h
      split
      · exact ih h
      · simp only [fget, hk, if_false]; exact ih h

/-- the example document `{$repeat: 3, idx: $repeat, name: $"item-{$repeat}"}` -/
def exRepeatDoc : Fields :=
  [("$repeat", .int 3), ("idx", .str "$repeat"), ("name", .str "$\"item-{$repeat}\"")]

/-- its body -/
def exRepeatBody : Fields := [("idx", .str "$repeat"), ("name", .str "$\"item-{$repeat}\"")]

theorem exRepeatBody_eq : fdel (dropNullsFields exRepeatDoc) "$repeat" = exRepeatBody := by decide

theorem process2_repeat_leaf (fuel : Nat) (docs : List Val) (root : Val) (ec : Vars) (i : Int) :
    process2 (fuel + 1) docs root (fset ec "$repeat" (.int i)) (.str "$repeat") = .ok (.int i) := by
  rw [process2, process2String.eq_1]
  simp [interpBody_repeat, getVar, fget_fset_same, pure, Except.pure]

theorem process2_item_repeat (fuel : Nat) (docs : List Val) (root : Val) (ec : Vars) (i : Int)
    (hroot : rootOK root docs) :
    process2 (fuel + 1) docs root (fset ec "$repeat" (.int i)) (.str "$\"item-{$repeat}\"")
      = .ok (.str (String.ofList ("item-".toList ++ (toString i).toList))) := by
  rw [process2, process2String_interp_eq _ _ _ _ _ "item-{$repeat}".toList (by decide),
    interpSpec_bound _ docs root ec i hroot _ (by decide)]
  have : interpSegs "item-{$repeat}".toList = [.lit "item-".toList, .ref repeatChars] := by decide
  rw [this]
  simp [substSeg, render, renderSeg]

/-- copy `i` of the example document -/
theorem process2_exRepeatBody_root (fuel : Nat) (docs : List Val) (root : Val) (env : Vars) (i : Int)
    (hroot : rootOK root docs) :
    process2 (fuel + 2) docs root (fset env "$repeat" (.int i)) (.map exRepeatBody)
      = .ok (.map [("idx", .int i),
          ("name", .str (String.ofList ("item-".toList ++ (toString i).toList)))]) := by
  rw [process2_map_eq]
  have hnorm : fset (fset [] "idx" (.str "$repeat")) "name" (.str "$\"item-{$repeat}\"") = exRepeatBody := by
    decide
  simp only [exRepeatBody, List.foldlM_cons, List.foldlM_nil, mapStep1, pure_bind, bind_pure]
  rw [hnorm, process2MapTail_plain _ _ _ _ _ (by decide) (by decide) (by decide)]
  have hk1 := process2_key_nodollar fuel docs root (fset env "$repeat" (.int i)) 'i' ['d', 'x'] (by decide)
  have hk2 := process2_key_nodollar fuel docs root (fset env "$repeat" (.int i)) 'n' ['a', 'm', 'e'] (by decide)
  have e1 : String.ofList ['i', 'd', 'x'] = "idx" := by decide
  have e2 : String.ofList ['n', 'a', 'm', 'e'] = "name" := by decide
  rw [e1] at hk1
  rw [e2] at hk2
  have hv1 := process2_repeat_leaf fuel docs root env i
  have hv2 := process2_item_repeat fuel docs root env i hroot
  simp only [exRepeatBody, List.foldlM_cons, List.foldlM_nil, mapStep2, hv1, hv2, hk1, hk2, ok_bind,
    Val.isNull, Bool.false_eq_true, if_false]
  simp only [fset]
  rfl

theorem process2_exRepeatBody (fuel : Nat) (docs : List Val) (env : Vars) (i : Int) :
    process2 (fuel + 2) docs (.map exRepeatBody) (fset env "$repeat" (.int i)) (.map exRepeatBody)
      = .ok (.map [("idx", .int i),
          ("name", .str (String.ofList ("item-".toList ++ (toString i).toList)))]) :=
  process2_exRepeatBody_root fuel docs _ env i (rootOK_of_no_key _ _ (fun _ e => by cases e; decide))

/-! ## an upper layer overriding the count -/

theorem fdel_fset_same' (m : Fields) (k : String) (v : Val) : fdel (fset m k v) k = fdel m k := by
  induction m with
  | nil => simp [fset, fdel]
  | cons hd tl ih =>
    obtain ⟨k', v'⟩ := hd
    simp only [fset]
    split
    · simp [fdel]
    · split
      · rename_i h; subst h; simp [fdel]
      · rename_i h1 h2
        simp only [fdel, ih]

/-- a successful merge of an integer (upper layer) into anything returns that integer -/
theorem merge_int_ok {e r : Val} {m : Int} (h : merge e (.int m) = .ok r) : r = .int m := by
  rcases merge_ok_cases h with h1 | h1 | ⟨_, _, _, h1⟩ | ⟨_, _, _, h1⟩
  · exact h1
  · subst h1
    -- `r = e`: only possible through `merge (.map d) .null` / `merge (.list d) .null`
    cases r with
    | map d =>
      rw [merge_map_other _ _ rfl rfl] at h
      split at h
      · cases h
      · cases h
    | list d => rw [merge_list_other _ _ rfl rfl] at h; cases h
    | null => rw [merge_null] at h; cases h
    | _ =>
      rw [merge_scalar _ _ rfl] at h
      split at h
      · cases h
      · cases h <;> rfl
  · cases h1
  · cases h1

/-- the merged map carries the upper layer's count -/
theorem merge_repeat_count {d s : Fields} {r : Val} {m : Int} (hs : Fields.SortedKeys s)
    (hrep : fhasBool s "$replace" true = false) (hm : fget s "$repeat" = some (.int m))
    (h : merge (.map d) (.map s) = .ok r) :
    ∃ rm, r = .map rm ∧ fget rm "$repeat" = some (.int m) := by
  rw [merge_map_map, mergeMapMap_noreplace hrep] at h
  cases hmf : mergeFields d s with
  | error e => rw [hmf] at h; cases h
  | ok rm =>
    rw [hmf] at h; cases h
    refine ⟨rm, rfl, ?_⟩
    have := mergeFields_spec hs hmf "$repeat"
    have hts : (Val.int m).toStr ≠ "$delete" := by show "" ≠ "$delete"; decide
    simp only [mapSpec, hm] at this
    rw [if_neg hts] at this
    cases hd : fget d "$repeat" with
    | none => rw [hd] at this; exact this
    | some e =>
      rw [hd] at this
      obtain ⟨r', h1, h2⟩ := this
      rw [h2, merge_int_ok h1]

theorem merge_repeat_single (d : Fields) (n0 m : Int) (hold : fget d "$repeat" = some (.int n0)) :
    merge (.map d) (.map [("$repeat", .int m)])
      = if m = n0 then .error .uselessOverride else .ok (.map (fset d "$repeat" (.int m))) := by
  rw [merge_map_map, mergeMapMap_noreplace (by simp [fhasBool, fget]), mergeFields_cons]
  have hts : (Val.int m).toStr ≠ "$delete" := by show "" ≠ "$delete"; decide
  simp only [hold]
  rw [if_neg hts, merge_scalar _ _ rfl]
  by_cases hmn : m = n0
  · subst hmn; simp; rfl
  · have : (Val.int m == Val.int n0) = false := by
      rw [beq_eq_false_iff_ne]; intro e; cases e; exact hmn rfl
    simp only [this, Bool.false_eq_true, if_false, hmn, mergeFields_nil]
    rfl

theorem mapM_length_ok {α β : Type} (f : α → R β) (l : List α) (outs : List β)
    (h : l.mapM f = .ok outs) : outs.length = l.length := by
  induction l generalizing outs with
  | nil => simp [pure, Except.pure] at h; subst h; rfl
  | cons a l ih =>
    rw [List.mapM_cons] at h
    cases ha : f a with
    | error e => rw [ha] at h; cases h
    | ok b =>
      rw [ha] at h
      cases hl : l.mapM f with
      | error e => rw [hl] at h; cases h
      | ok bs =>
        rw [hl] at h
        cases h
        simp [ih bs hl]

/-! ## evaluations for the counterexamples -/

theorem process2String_repeat (fuel : Nat) (docs : List Val) (root : Val) (ec : Vars) :
    process2String fuel docs root ec "$repeat" = getVar ec "$repeat" := by
  rw [process2String.eq_1]
  simp [interpBody_repeat]

/-- `$"{a}"` where the referencing document has `a: "$repeat"` (an unevaluated string): the
    referenced string is evaluated with the current variables -/
theorem process2_ref_a (docs : List Val) (ec : Vars) :
    process2 2 docs (.map [("a", .str "$repeat")]) ec (.str "$\"{a}\"")
      = (getVar ec "$repeat" >>= fun v => pure (.str (String.join [fmtV v]))) := by
  rw [process2, process2String_interp_eq 1 _ _ _ _ "{a}".toList (by decide)]
  have hs : interpSegs "{a}".toList = [.ref "a".toList] := by decide
  have hg : getWithVar (.map [("a", .str "$repeat")]) docs ec (String.ofList "a".toList)
      = .ok (.str "$repeat") :=
    getWithVar_simple_key _ _ _ _ _ (by simpa using isPlainRef_a) (by decide) (by decide)
  simp only [hs, interpSpec, List.mapM_cons, List.mapM_nil, interpSeg, hg, process2String_repeat]
  cases getVar ec "$repeat" <;> rfl

/-- `$"{$repeat}"` where the referencing document itself has a `$repeat` entry: the document
    wins over the variable -/
theorem process2_ref_repeat_captured (docs : List Val) (ec : Vars) (v : Int) :
    process2 2 docs (.map [("$repeat", .int v)]) ec (.str "$\"{$repeat}\"")
      = .ok (.str (String.join [toString v])) := by
  rw [process2, process2String_interp_eq 1 _ _ _ _ "{$repeat}".toList (by decide)]
  have hs : interpSegs "{$repeat}".toList = [.ref repeatChars] := by decide
  have hg : getWithVar (.map [("$repeat", .int v)]) docs ec (String.ofList repeatChars)
      = .ok (.int v) := by
    rw [ofList_repeatChars]
    exact getWithVar_simple_key _ _ _ _ _ isPlainRef_repeat (by decide) (by simp [fget])
  simp only [hs, interpSpec, List.mapM_cons, List.mapM_nil, interpSeg, hg, fmtV]
  rfl

end Bkl
