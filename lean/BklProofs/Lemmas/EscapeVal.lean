/-
  Lemmas for C06 (part 2: values).  `double`, `dropNulls`, `depth`, the predicates
  `plain` / `inert`, and the structural facts about them; sorted association lists.
-/
import BklProofs.Lemmas.Escape
namespace Bkl

/-! ## induction principle for the nested inductive `Val` -/

theorem e_Val_induct {P : Val → Prop} {PL : List Val → Prop} {PF : Fields → Prop}
    (null : P .null) (bool : ∀ b, P (.bool b)) (int : ∀ i, P (.int i)) (flt : ∀ r, P (.flt r))
    (str : ∀ s, P (.str s))
    (list : ∀ xs, PL xs → P (.list xs)) (map : ∀ kvs, PF kvs → P (.map kvs))
    (lnil : PL []) (lcons : ∀ x xs, P x → PL xs → PL (x :: xs))
    (fnil : PF []) (fcons : ∀ k v rest, P v → PF rest → PF ((k, v) :: rest)) :
    (∀ v, P v) ∧ (∀ xs, PL xs) ∧ (∀ kvs, PF kvs) := by
  have hv : ∀ v, P v := fun v =>
    Val.rec (motive_1 := P) (motive_2 := PL) (motive_3 := PF) (motive_4 := fun p => P p.2)
      null bool int flt str list map lnil lcons fnil
      (fun hd tl h1 h2 => fcons hd.1 hd.2 tl h1 h2) (fun _ _ h => h) v
  refine ⟨hv, ?_, ?_⟩
  · intro xs; induction xs with
    | nil => exact lnil
    | cons x xs ih => exact lcons x xs (hv x) ih
  · intro kvs; induction kvs with
    | nil => exact fnil
    | cons p rest ih => exact fcons p.1 p.2 rest (hv p.2) ih

/-! ## definitions -/

mutual
/-- double every `$` in every map key and every string leaf -/
def double : Val → Val
  | .null => .null
  | .bool b => .bool b
  | .int i => .int i
  | .flt r => .flt r
  | .str s => .str (doubleStr s)
  | .list xs => .list (doubleList xs)
  | .map kvs => .map (doubleFields kvs)
def doubleList : List Val → List Val
  | [] => []
  | x :: xs => double x :: doubleList xs
def doubleFields : Fields → Fields
  | [] => []
  | (k, v) :: rest => (doubleStr k, double v) :: doubleFields rest
end

mutual
/-- what evaluation does to nulls: null map values and null list entries disappear -/
def dropNulls : Val → Val
  | .null => .null
  | .bool b => .bool b
  | .int i => .int i
  | .flt r => .flt r
  | .str s => .str s
  | .list xs => .list (dropNullsList xs)
  | .map kvs => .map (dropNullsFields kvs)
def dropNullsList : List Val → List Val
  | [] => []
  | x :: xs => if x.isNull then dropNullsList xs else dropNulls x :: dropNullsList xs
def dropNullsFields : Fields → Fields
  | [] => []
  | (k, v) :: rest =>
    if v.isNull then dropNullsFields rest else (k, dropNulls v) :: dropNullsFields rest
end

mutual
/-- no null map value and no null list entry anywhere inside -/
def noNulls : Val → Bool
  | .list xs => noNullsList xs
  | .map kvs => noNullsFields kvs
  | _ => true
def noNullsList : List Val → Bool
  | [] => true
  | x :: xs => !x.isNull && noNulls x && noNullsList xs
def noNullsFields : Fields → Bool
  | [] => true
  | (_, v) :: rest => !v.isNull && noNulls v && noNullsFields rest
end

mutual
/-- nesting depth: scalars 0, a container one more than its deepest entry -/
def depth : Val → Nat
  | .list xs => depthList xs + 1
  | .map kvs => depthFields kvs + 1
  | _ => 0
def depthList : List Val → Nat
  | [] => 0
  | x :: xs => max (depth x) (depthList xs)
def depthFields : Fields → Nat
  | [] => 0
  | (_, v) :: rest => max (depth v) (depthFields rest)
end

mutual
/-- every map key and every string leaf satisfies `p` -/
def allStr (p : String → Bool) : Val → Bool
  | .str s => p s
  | .list xs => allStrList p xs
  | .map kvs => allStrFields p kvs
  | _ => true
def allStrList (p : String → Bool) : List Val → Bool
  | [] => true
  | x :: xs => allStr p x && allStrList p xs
def allStrFields (p : String → Bool) : Fields → Bool
  | [] => true
  | (k, v) :: rest => p k && allStr p v && allStrFields p rest
end

/-- no key and no string leaf is recognised by the evaluator (`$$` allowed) -/
def plain (v : Val) : Bool := allStr (fun s => !recognisedCore s) v
/-- no key and no string leaf is recognised by the evaluator or contains `$$` -/
def inert (v : Val) : Bool := allStr (fun s => !recognised s) v
/-- no key and no string leaf contains `$$` -/
def noDD (v : Val) : Bool := allStr (fun s => !hasDD s.toList) v

/-! ## sorted association lists -/

abbrev e_KeyLt (a b : String × Val) : Prop := a.1 < b.1

theorem e_sortedB_iff (l : Fields) : Fields.sortedKeysB l = true ↔ l.Pairwise e_KeyLt := by
  induction l with
  | nil => simp [Fields.sortedKeysB]
  | cons a t ih =>
    cases t with
    | nil => simp [Fields.sortedKeysB]
    | cons b t' =>
      obtain ⟨k1, v1⟩ := a
      obtain ⟨k2, v2⟩ := b
      simp only [Fields.sortedKeysB, Bool.and_eq_true, decide_eq_true_eq, ih]
      constructor
      · rintro ⟨h1, h2⟩
        refine List.pairwise_cons.2 ⟨?_, h2⟩
        intro c hc
        rcases List.mem_cons.1 hc with rfl | hc
        · exact h1
        · exact String.lt_trans h1 ((List.pairwise_cons.1 h2).1 c hc)
      · intro h
        have := List.pairwise_cons.1 h
        exact ⟨this.1 _ (List.mem_cons_self ..), this.2⟩

theorem e_fset_append (acc : Fields) (k : String) (v : Val)
    (h : ∀ p ∈ acc, p.1 < k) : fset acc k v = acc ++ [(k, v)] := by
  induction acc with
  | nil => rfl
  | cons a t ih =>
    obtain ⟨k1, v1⟩ := a
    have h1 : k1 < k := h (k1, v1) (List.mem_cons_self ..)
    have hn : ¬ k < k1 := String.lt_asymm h1
    have hne : ¬ k = k1 := fun e => String.lt_irrefl k1 (e ▸ h1)
    simp only [fset, hn, hne, if_false, List.cons_append]
    rw [ih (fun p hp => h p (List.mem_cons_of_mem _ hp))]

theorem e_fsetAll_append (l : Fields) : ∀ (acc : Fields), (acc ++ l).Pairwise e_KeyLt →
    fsetAll acc l = acc ++ l := by
  induction l with
  | nil => intro acc _; simp [fsetAll]
  | cons a t ih =>
    intro acc h
    obtain ⟨k, v⟩ := a
    have h1 : ∀ p ∈ acc, p.1 < k := by
      intro p hp
      exact (List.pairwise_append.1 h).2.2 p hp (k, v) (List.mem_cons_self ..)
    have : fsetAll acc ((k, v) :: t) = fsetAll (fset acc k v) t := by
      simp [fsetAll]
    rw [this, e_fset_append acc k v h1, ih _ (by simpa using h)]
    simp

theorem e_fofList_sorted (l : Fields) (h : Fields.sortedKeysB l = true) : fofList l = l := by
  have := e_fsetAll_append l [] (by simpa using (e_sortedB_iff l).1 h)
  simpa [fofList] using this

theorem e_fget_none (l : Fields) (k : String) (h : ∀ p ∈ l, p.1 ≠ k) : fget l k = none := by
  induction l with
  | nil => rfl
  | cons a t ih =>
    obtain ⟨k1, v1⟩ := a
    have h1 : ¬ k1 = k := h (k1, v1) (List.mem_cons_self ..)
    simp only [fget, h1, if_false]
    exact ih (fun p hp => h p (List.mem_cons_of_mem _ hp))

/-! ## membership forms of the recursive predicates -/

theorem e_allStrList_mem {p : String → Bool} {xs : List Val} (h : allStrList p xs = true) :
    ∀ x ∈ xs, allStr p x = true := by
  induction xs with
  | nil => intro x hx; cases hx
  | cons a t ih =>
    simp only [allStrList, Bool.and_eq_true] at h
    intro x hx
    rcases List.mem_cons.1 hx with rfl | hx
    · exact h.1
    · exact ih h.2 x hx

theorem e_allStrFields_mem {p : String → Bool} {kvs : Fields} (h : allStrFields p kvs = true) :
    ∀ q ∈ kvs, p q.1 = true ∧ allStr p q.2 = true := by
  induction kvs with
  | nil => intro x hx; cases hx
  | cons a t ih =>
    obtain ⟨k, v⟩ := a
    simp only [allStrFields, Bool.and_eq_true] at h
    intro x hx
    rcases List.mem_cons.1 hx with rfl | hx
    · exact ⟨h.1.1, h.1.2⟩
    · exact ih h.2 x hx

theorem e_wfList_mem {xs : List Val} (h : Val.wfListB xs = true) : ∀ x ∈ xs, x.WF := by
  induction xs with
  | nil => intro x hx; cases hx
  | cons a t ih =>
    simp only [Val.wfListB, Bool.and_eq_true] at h
    intro x hx
    rcases List.mem_cons.1 hx with rfl | hx
    · exact h.1
    · exact ih h.2 x hx

theorem e_wfFields_mem {kvs : Fields} (h : Val.wfFieldsB kvs = true) : ∀ q ∈ kvs, q.2.WF := by
  induction kvs with
  | nil => intro x hx; cases hx
  | cons a t ih =>
    obtain ⟨k, v⟩ := a
    simp only [Val.wfFieldsB, Bool.and_eq_true] at h
    intro x hx
    rcases List.mem_cons.1 hx with rfl | hx
    · exact h.1
    · exact ih h.2 x hx

theorem e_depthList_mem {xs : List Val} : ∀ x ∈ xs, depth x ≤ depthList xs := by
  induction xs with
  | nil => intro x hx; cases hx
  | cons a t ih =>
    intro x hx
    simp only [depthList]
    rcases List.mem_cons.1 hx with rfl | hx
    · exact Nat.le_max_left ..
    · exact Nat.le_trans (ih x hx) (Nat.le_max_right ..)

theorem e_depthFields_mem {kvs : Fields} : ∀ q ∈ kvs, depth q.2 ≤ depthFields kvs := by
  induction kvs with
  | nil => intro x hx; cases hx
  | cons a t ih =>
    obtain ⟨k, v⟩ := a
    intro x hx
    simp only [depthFields]
    rcases List.mem_cons.1 hx with rfl | hx
    · exact Nat.le_max_left ..
    · exact Nat.le_trans (ih x hx) (Nat.le_max_right ..)

theorem e_wf_map {kvs : Fields} (h : (Val.map kvs).WF) :
    Fields.sortedKeysB kvs = true ∧ Val.wfFieldsB kvs = true := by
  simpa [Val.WF, Val.wfB] using h

theorem e_wf_list {xs : List Val} (h : (Val.list xs).WF) : Val.wfListB xs = true := by
  simpa [Val.WF, Val.wfB] using h

/-! ## plain data has no directive keys -/

theorem e_plainFields_fget {kvs : Fields}
    (h : allStrFields (fun s => !recognisedCore s) kvs = true) {d : String}
    (hd : d ∈ directiveNames) : fget kvs d = none := by
  apply e_fget_none
  intro p hp
  have := (e_allStrFields_mem h p hp).1
  exact e_rc_names (by simpa using this) d hd

/-! ## dropNulls -/

theorem e_dropNulls_isNull (v : Val) : (dropNulls v).isNull = v.isNull := by
  cases v <;> simp [dropNulls, Val.isNull]

theorem e_allStr_dropNulls_all (p : String → Bool) :
    (∀ v, allStr p v = true → allStr p (dropNulls v) = true) ∧
    (∀ xs, allStrList p xs = true → allStrList p (dropNullsList xs) = true) ∧
    (∀ kvs, allStrFields p kvs = true → allStrFields p (dropNullsFields kvs) = true) := by
  apply e_Val_induct
  case null | bool | int | flt | str => intros; simpa [dropNulls] using ‹_›
  case list => intro xs ih h; simp only [dropNulls, allStr] at h ⊢; exact ih h
  case map => intro xs ih h; simp only [dropNulls, allStr] at h ⊢; exact ih h
  case lnil => intro _; rfl
  case lcons =>
    intro x xs ih1 ih2 h
    simp only [allStrList, Bool.and_eq_true] at h
    simp only [dropNullsList]
    split
    · exact ih2 h.2
    · simp only [allStrList, Bool.and_eq_true]; exact ⟨ih1 h.1, ih2 h.2⟩
  case fnil => intro _; rfl
  case fcons =>
    intro k v rest ih1 ih2 h
    simp only [allStrFields, Bool.and_eq_true] at h
    simp only [dropNullsFields]
    split
    · exact ih2 h.2
    · simp only [allStrFields, Bool.and_eq_true]; exact ⟨⟨h.1.1, ih1 h.1.2⟩, ih2 h.2⟩


/-! keys -/
theorem e_sortedB_iff_keys (l : Fields) :
    Fields.sortedKeysB l = true ↔ (fkeys l).Pairwise (· < ·) := by
  rw [e_sortedB_iff, fkeys, List.pairwise_map]

theorem e_dropNullsFields_keys (kvs : Fields) :
    (fkeys (dropNullsFields kvs)).Sublist (fkeys kvs) := by
  induction kvs with
  | nil => simp [dropNullsFields, fkeys]
  | cons a t ih =>
    obtain ⟨k, v⟩ := a
    simp only [dropNullsFields]
    split
    · exact List.Sublist.cons _ ih
    · exact List.Sublist.cons_cons _ ih

theorem e_dropNullsFields_sorted (kvs : Fields) (h : Fields.sortedKeysB kvs = true) :
    Fields.sortedKeysB (dropNullsFields kvs) = true := by
  rw [e_sortedB_iff_keys] at h ⊢
  exact List.Pairwise.sublist (e_dropNullsFields_keys kvs) h

theorem e_wf_dropNulls_all :
    (∀ v, Val.wfB v = true → Val.wfB (dropNulls v) = true) ∧
    (∀ xs, Val.wfListB xs = true → Val.wfListB (dropNullsList xs) = true) ∧
    (∀ kvs, Val.wfFieldsB kvs = true → Val.wfFieldsB (dropNullsFields kvs) = true) := by
  apply e_Val_induct
  case null | bool | int | flt | str => intros; simp [dropNulls, Val.wfB]
  case list => intro xs ih h; simp only [dropNulls, Val.wfB] at h ⊢; exact ih h
  case map =>
    intro kvs ih h
    simp only [dropNulls, Val.wfB, Bool.and_eq_true] at h ⊢
    exact ⟨e_dropNullsFields_sorted kvs h.1, ih h.2⟩
  case lnil => intro _; rfl
  case lcons =>
    intro x xs ih1 ih2 h
    simp only [Val.wfListB, Bool.and_eq_true] at h
    simp only [dropNullsList]
    split
    · exact ih2 h.2
    · simp only [Val.wfListB, Bool.and_eq_true]; exact ⟨ih1 h.1, ih2 h.2⟩
  case fnil => intro _; rfl
  case fcons =>
    intro k v rest ih1 ih2 h
    simp only [Val.wfFieldsB, Bool.and_eq_true] at h
    simp only [dropNullsFields]
    split
    · exact ih2 h.2
    · simp only [Val.wfFieldsB, Bool.and_eq_true]; exact ⟨ih1 h.1, ih2 h.2⟩

theorem e_depth_dropNulls_all :
    (∀ v, depth (dropNulls v) ≤ depth v) ∧
    (∀ xs, depthList (dropNullsList xs) ≤ depthList xs) ∧
    (∀ kvs, depthFields (dropNullsFields kvs) ≤ depthFields kvs) := by
  apply e_Val_induct
  case null | bool | int | flt | str => intros; simp [dropNulls, depth]
  case list => intro xs ih; simp only [dropNulls, depth]; omega
  case map => intro xs ih; simp only [dropNulls, depth]; omega
  case lnil => simp [dropNullsList]
  case lcons =>
    intro x xs ih1 ih2
    simp only [dropNullsList, depthList]
    split
    · omega
    · simp only [depthList]; omega
  case fnil => simp [dropNullsFields]
  case fcons =>
    intro k v rest ih1 ih2
    simp only [dropNullsFields, depthFields]
    split
    · omega
    · simp only [depthFields]; omega

theorem e_noNulls_dropNulls_all :
    (∀ v, noNulls (dropNulls v) = true) ∧
    (∀ xs, noNullsList (dropNullsList xs) = true) ∧
    (∀ kvs, noNullsFields (dropNullsFields kvs) = true) := by
  apply e_Val_induct
  case null | bool | int | flt | str => intros; simp [dropNulls, noNulls]
  case list => intro xs ih; simpa only [dropNulls, noNulls] using ih
  case map => intro xs ih; simpa only [dropNulls, noNulls] using ih
  case lnil => rfl
  case lcons =>
    intro x xs ih1 ih2
    simp only [dropNullsList]
    split
    · exact ih2
    · rename_i hx
      simp only [noNullsList, Bool.and_eq_true, e_dropNulls_isNull]
      exact ⟨⟨by simpa using hx, ih1⟩, ih2⟩
  case fnil => rfl
  case fcons =>
    intro k v rest ih1 ih2
    simp only [dropNullsFields]
    split
    · exact ih2
    · rename_i hx
      simp only [noNullsFields, Bool.and_eq_true, e_dropNulls_isNull]
      exact ⟨⟨by simpa using hx, ih1⟩, ih2⟩

theorem e_dropNulls_noNulls_all :
    (∀ v, noNulls v = true → dropNulls v = v) ∧
    (∀ xs, noNullsList xs = true → dropNullsList xs = xs) ∧
    (∀ kvs, noNullsFields kvs = true → dropNullsFields kvs = kvs) := by
  apply e_Val_induct
  case null | bool | int | flt | str => intros; simp [dropNulls]
  case list => intro xs ih h; simp only [noNulls] at h; simp only [dropNulls, ih h]
  case map => intro xs ih h; simp only [noNulls] at h; simp only [dropNulls, ih h]
  case lnil => intro _; rfl
  case lcons =>
    intro x xs ih1 ih2 h
    simp only [noNullsList, Bool.and_eq_true, Bool.not_eq_true'] at h
    simp only [dropNullsList, h.1.1, Bool.false_eq_true, if_false, ih1 h.1.2, ih2 h.2]
  case fnil => intro _; rfl
  case fcons =>
    intro k v rest ih1 ih2 h
    simp only [noNullsFields, Bool.and_eq_true, Bool.not_eq_true'] at h
    simp only [dropNullsFields, h.1.1, Bool.false_eq_true, if_false, ih1 h.1.2, ih2 h.2]

theorem e_dropNulls_idem (v : Val) : dropNulls (dropNulls v) = dropNulls v :=
  e_dropNulls_noNulls_all.1 _ (e_noNulls_dropNulls_all.1 v)


/-! ## double, inert, finalize -/

theorem e_double_isNull (v : Val) : (double v).isNull = v.isNull := by
  cases v <;> simp [double, Val.isNull]

theorem e_plain_double_all :
    (∀ v, plain (double v) = true) ∧
    (∀ xs, allStrList (fun s => !recognisedCore s) (doubleList xs) = true) ∧
    (∀ kvs, allStrFields (fun s => !recognisedCore s) (doubleFields kvs) = true) := by
  apply e_Val_induct
  case null | bool | int | flt => intros; simp [double, plain, allStr]
  case str => intro s; simp [double, plain, allStr, e_rc_doubleStr]
  case list => intro xs ih; simpa only [double, plain, allStr] using ih
  case map => intro xs ih; simpa only [double, plain, allStr] using ih
  case lnil => rfl
  case lcons =>
    intro x xs ih1 ih2
    simp only [doubleList, allStrList, Bool.and_eq_true]; exact ⟨ih1, ih2⟩
  case fnil => rfl
  case fcons =>
    intro k v rest ih1 ih2
    simp only [doubleFields, allStrFields, Bool.and_eq_true]
    exact ⟨⟨by simp [e_rc_doubleStr], ih1⟩, ih2⟩

theorem e_doubleFields_keys (kvs : Fields) : fkeys (doubleFields kvs) = (fkeys kvs).map doubleStr := by
  induction kvs with
  | nil => rfl
  | cons a t ih =>
    obtain ⟨k, v⟩ := a
    simp only [doubleFields, fkeys, List.map_cons] at ih ⊢
    rw [ih]

theorem e_doubleFields_sorted (kvs : Fields) (h : Fields.sortedKeysB kvs = true) :
    Fields.sortedKeysB (doubleFields kvs) = true := by
  rw [e_sortedB_iff_keys] at h ⊢
  rw [e_doubleFields_keys, List.pairwise_map]
  exact h.imp (fun hab => e_doubleStr_lt hab)

theorem e_wf_double_all :
    (∀ v, Val.wfB v = true → Val.wfB (double v) = true) ∧
    (∀ xs, Val.wfListB xs = true → Val.wfListB (doubleList xs) = true) ∧
    (∀ kvs, Val.wfFieldsB kvs = true → Val.wfFieldsB (doubleFields kvs) = true) := by
  apply e_Val_induct
  case null | bool | int | flt | str => intros; simp [double, Val.wfB]
  case list => intro xs ih h; simp only [double, Val.wfB] at h ⊢; exact ih h
  case map =>
    intro kvs ih h
    simp only [double, Val.wfB, Bool.and_eq_true] at h ⊢
    exact ⟨e_doubleFields_sorted kvs h.1, ih h.2⟩
  case lnil => intro _; rfl
  case lcons =>
    intro x xs ih1 ih2 h
    simp only [Val.wfListB, Bool.and_eq_true] at h
    simp only [doubleList, Val.wfListB, Bool.and_eq_true]; exact ⟨ih1 h.1, ih2 h.2⟩
  case fnil => intro _; rfl
  case fcons =>
    intro k v rest ih1 ih2 h
    simp only [Val.wfFieldsB, Bool.and_eq_true] at h
    simp only [doubleFields, Val.wfFieldsB, Bool.and_eq_true]; exact ⟨ih1 h.1, ih2 h.2⟩

theorem e_depth_double_all :
    (∀ v, depth (double v) = depth v) ∧
    (∀ xs, depthList (doubleList xs) = depthList xs) ∧
    (∀ kvs, depthFields (doubleFields kvs) = depthFields kvs) := by
  apply e_Val_induct
  case null | bool | int | flt | str => intros; simp [double, depth]
  case list => intro xs ih; simp only [double, depth, ih]
  case map => intro xs ih; simp only [double, depth, ih]
  case lnil => rfl
  case lcons => intro x xs ih1 ih2; simp only [doubleList, depthList, ih1, ih2]
  case fnil => rfl
  case fcons => intro k v rest ih1 ih2; simp only [doubleFields, depthFields, ih1, ih2]

theorem e_dropNulls_double_all :
    (∀ v, dropNulls (double v) = double (dropNulls v)) ∧
    (∀ xs, dropNullsList (doubleList xs) = doubleList (dropNullsList xs)) ∧
    (∀ kvs, dropNullsFields (doubleFields kvs) = doubleFields (dropNullsFields kvs)) := by
  apply e_Val_induct
  case null | bool | int | flt | str => intros; simp [double, dropNulls]
  case list => intro xs ih; simp only [double, dropNulls, ih]
  case map => intro xs ih; simp only [double, dropNulls, ih]
  case lnil => rfl
  case lcons =>
    intro x xs ih1 ih2
    simp only [doubleList, dropNullsList, e_double_isNull]
    split
    · exact ih2
    · simp only [doubleList, ih1, ih2]
  case fnil => rfl
  case fcons =>
    intro k v rest ih1 ih2
    simp only [doubleFields, dropNullsFields, e_double_isNull]
    split
    · exact ih2
    · simp only [doubleFields, ih1, ih2]

theorem e_finalize_double_all :
    (∀ v, Val.wfB v = true → finalize (double v) = v) ∧
    (∀ xs, Val.wfListB xs = true → finalizeList (doubleList xs) = xs) ∧
    (∀ kvs, Val.wfFieldsB kvs = true → finalizeFields (doubleFields kvs) = kvs) := by
  apply e_Val_induct
  case null | bool | int | flt => intros; simp [double, finalize]
  case str => intro s _; simp [double, finalize, e_finalize_doubleStr]
  case list => intro xs ih h; simp only [Val.wfB] at h; simp only [double, finalize, ih h]
  case map =>
    intro kvs ih h
    simp only [Val.wfB, Bool.and_eq_true] at h
    simp only [double, finalize, ih h.2, e_fofList_sorted kvs h.1]
  case lnil => intro _; rfl
  case lcons =>
    intro x xs ih1 ih2 h
    simp only [Val.wfListB, Bool.and_eq_true] at h
    simp only [doubleList, finalizeList, ih1 h.1, ih2 h.2]
  case fnil => intro _; rfl
  case fcons =>
    intro k v rest ih1 ih2 h
    simp only [Val.wfFieldsB, Bool.and_eq_true] at h
    simp only [doubleFields, finalizeFields, ih1 h.1, ih2 h.2, e_finalize_doubleStr]

/-! inert -/
theorem e_allStr_mono_all {p q : String → Bool} (hpq : ∀ s, p s = true → q s = true) :
    (∀ v, allStr p v = true → allStr q v = true) ∧
    (∀ xs, allStrList p xs = true → allStrList q xs = true) ∧
    (∀ kvs, allStrFields p kvs = true → allStrFields q kvs = true) := by
  apply e_Val_induct
  case null | bool | int | flt => intros; simp [allStr]
  case str => intro s h; simp only [allStr] at h ⊢; exact hpq s h
  case list => intro xs ih h; simp only [allStr] at h ⊢; exact ih h
  case map => intro xs ih h; simp only [allStr] at h ⊢; exact ih h
  case lnil => intro _; rfl
  case lcons =>
    intro x xs ih1 ih2 h
    simp only [allStrList, Bool.and_eq_true] at h ⊢; exact ⟨ih1 h.1, ih2 h.2⟩
  case fnil => intro _; rfl
  case fcons =>
    intro k v rest ih1 ih2 h
    simp only [allStrFields, Bool.and_eq_true] at h ⊢; exact ⟨⟨hpq k h.1.1, ih1 h.1.2⟩, ih2 h.2⟩

theorem e_inert_plain {v : Val} (h : inert v = true) : plain v = true :=
  (e_allStr_mono_all (by intro s hs; simp [recognised] at hs ⊢; exact hs.1)).1 v h

theorem e_inert_noDD {v : Val} (h : inert v = true) : noDD v = true :=
  (e_allStr_mono_all (by intro s hs; simp [recognised] at hs ⊢; exact hs.2)).1 v h

theorem e_finalize_noDD_all :
    (∀ v, noDD v = true → Val.wfB v = true → finalize v = v) ∧
    (∀ xs, allStrList (fun s => !hasDD s.toList) xs = true → Val.wfListB xs = true → finalizeList xs = xs) ∧
    (∀ kvs, allStrFields (fun s => !hasDD s.toList) kvs = true → Val.wfFieldsB kvs = true →
      finalizeFields kvs = kvs) := by
  apply e_Val_induct
  case null | bool | int | flt => intros; simp [finalize]
  case str =>
    intro s h _
    simp only [noDD, allStr, Bool.not_eq_true'] at h
    simp [finalize, e_finalize_noDD s h]
  case list =>
    intro xs ih h w
    simp only [Val.wfB] at w; simp only [noDD, allStr] at h
    simp only [finalize, ih h w]
  case map =>
    intro kvs ih h w
    simp only [Val.wfB, Bool.and_eq_true] at w; simp only [noDD, allStr] at h
    simp only [finalize, ih h w.2, e_fofList_sorted kvs w.1]
  case lnil => intros; rfl
  case lcons =>
    intro x xs ih1 ih2 h w
    simp only [Val.wfListB, Bool.and_eq_true] at w
    simp only [allStrList, Bool.and_eq_true] at h
    simp only [finalizeList, ih1 h.1 w.1, ih2 h.2 w.2]
  case fnil => intros; rfl
  case fcons =>
    intro k v rest ih1 ih2 h w
    simp only [Val.wfFieldsB, Bool.and_eq_true] at w
    simp only [allStrFields, Bool.and_eq_true, Bool.not_eq_true'] at h
    simp only [finalizeFields, ih1 h.1.2 w.1, ih2 h.2 w.2, e_finalize_noDD k h.1.1]


end Bkl
