/-
  BklProofs.Lemmas.C03Chain — filename chains of arbitrary depth, missing layers, `$parent`
  lists with a dangling entry, `$parent`-linked chains vs filename chains, symlinked layers.
-/
import BklProofs.Lemmas.Files
import BklProofs.Lemmas.FilesRename
import BklProofs.Lemmas.Fields
set_option linter.unusedVariables false
namespace Bkl

def PlainName (c : String) : Prop := c ≠ "" ∧ '.' ∉ c.toList

theorem splitOn_dot_plain (c : String) (h : '.' ∉ c.toList) : c.splitOn "." = [c] := by
  rw [splitOn_dot]
  have h2 : List.splitOnP (· == '.') c.toList = [c.toList] :=
    List.splitOnP_eq_singleton (fun x hx => by
      have : x ≠ '.' := fun e => h (e ▸ hx)
      simpa using this)
  rw [h2]
  simp

theorem splitOn_layer_aux : ∀ (k : Nat) (ns : List String), ns.length = k + 1 →
    (∀ n ∈ ns, '.' ∉ n.toList) → (".".intercalate ns).splitOn "." = ns := by
  intro k
  induction k with
  | zero =>
    intro ns hl h
    match ns, hl with
    | [x], _ =>
      rw [String.intercalate_singleton]
      exact splitOn_dot_plain x (h x (by simp))
  | succ k ih =>
    intro ns hl h
    have hne : ns ≠ [] := by intro e; subst e; simp at hl
    have hd := List.dropLast_concat_getLast hne
    have hl' : ns.dropLast.length = k + 1 := by simp [hl]
    have hne' : ns.dropLast ≠ [] := by intro e; rw [e] at hl'; simp at hl'
    rw [← hd, String.intercalate_append_of_ne_nil hne' (by simp), String.intercalate_singleton,
      splitOn_dot_snoc _ _ (h _ (List.getLast_mem hne)),
      ih ns.dropLast hl' (fun n hn => h n (List.dropLast_subset _ hn))]

theorem splitOn_layer (ns : List String) (hne : ns ≠ []) (h : ∀ n ∈ ns, '.' ∉ n.toList) :
    (".".intercalate ns).splitOn "." = ns :=
  splitOn_layer_aux (ns.length - 1) ns (by have := List.length_pos_iff.2 hne; omega) h

theorem layer_length_pos (ns : List String) (hne : ns ≠ []) (h : ∀ n ∈ ns, n ≠ "") :
    0 < (".".intercalate ns).length := by
  cases ns with
  | nil => exact absurd rfl hne
  | cons a t =>
    have ha : 0 < a.length := by
      have := h a List.mem_cons_self
      rcases Nat.eq_zero_or_pos a.length with h0 | h0
      · exact absurd (String.length_eq_zero_iff.1 h0) this
      · exact h0
    cases t with
    | nil => rw [String.intercalate_singleton]; exact ha
    | cons b t =>
      rw [String.intercalate_cons_cons, String.length_append, String.length_append]
      omega

/-! ## chains of arbitrary depth -/

/-- one layer of a filename chain: its own name component, the extension of the file that
    provides it and the documents of that file -/
structure CLayer where
  name : String
  ext : String
  docs : List Val

/-- the name components of the layer on top of `R` (`R` is listed top first, above `pre`) -/
def cnames (pre : List String) (R : List CLayer) : List String := pre ++ R.reverse.map (·.name)

theorem cnames_cons (pre : List String) (x : CLayer) (S : List CLayer) :
    cnames pre (x :: S) = cnames pre S ++ [x.name] := by
  simp [cnames]

theorem cnames_nil (pre : List String) : cnames pre [] = pre := by simp [cnames]

theorem cnames_length (pre : List String) (R : List CLayer) :
    (cnames pre R).length = pre.length + R.length := by simp [cnames]

def layerName (ns : List String) : String := ".".intercalate ns

/-- the file that provides the top layer of `R` -/
def clPath (d : Comps) (pre : List String) : List CLayer → Comps
  | [] => d
  | x :: S => d ++ [layerName (cnames pre (x :: S)) ++ "." ++ x.ext]

/-- every layer of `R` is provided by exactly one file, whose documents carry no `$parent` -/
def ChainOK (fs : FS) (d : Comps) (pre : List String) : List CLayer → Prop
  | [] => True
  | x :: S => LayerFile fs d (layerName (cnames pre (x :: S))) x.ext (.ok x.docs) ∧
      (∀ v ∈ x.docs, parentDirective v = .ok .absent) ∧ ChainOK fs d pre S

/-- the documents of a loaded file whose content carries no `$parent` -/
def plainDocs (fid : String) (parents : List String) (docs : List Val) : List Doc :=
  (docs.zip (docIdsOf fid docs.length)).map fun (v, i) => ({ id := i, parents := parents, data := v } : Doc)

/-- what loading the top of `R` returns: base first -/
def chainFiles (d : Comps) (pre : List String) : Option String → List CLayer → List LFile
  | _, [] => []
  | c, x :: S =>
    chainFiles d pre (some (fileIdOf c (clPath d pre (x :: S)))) S ++
      [{ id := fileIdOf c (clPath d pre (x :: S)), path := clPath d pre (x :: S),
         docs := plainDocs (fileIdOf c (clPath d pre (x :: S)))
           (match S with
            | [] => []
            | y :: _ => docIdsOf (fileIdOf c (clPath d pre (x :: S)) ++ "|" ++ pathStr (clPath d pre S))
                y.docs.length) x.docs }]

theorem chainFiles_cons (d : Comps) (pre : List String) (c : Option String) (x : CLayer)
    (S : List CLayer) :
    chainFiles d pre c (x :: S) =
      chainFiles d pre (some (fileIdOf c (clPath d pre (x :: S)))) S ++
      [{ id := fileIdOf c (clPath d pre (x :: S)), path := clPath d pre (x :: S),
         docs := plainDocs (fileIdOf c (clPath d pre (x :: S)))
           (match S with
            | [] => []
            | y :: _ => docIdsOf (fileIdOf c (clPath d pre (x :: S)) ++ "|" ++ pathStr (clPath d pre S))
                y.docs.length) x.docs }] := rfl

theorem docIdsOf_length (fid : String) (n : Nat) : (docIdsOf fid n).length = n := by
  simp [docIdsOf]

theorem plainDocs_ids (fid : String) (ps : List String) (docs : List Val) :
    (plainDocs fid ps docs).map (·.id) = docIdsOf fid docs.length := by
  unfold plainDocs
  rw [List.map_map]
  have : ((fun d : Doc => d.id) ∘ fun (x : Val × String) => ({ id := x.2, parents := ps, data := x.1 } : Doc)) =
      Prod.snd := by funext x; rfl
  rw [this, List.map_snd_zip]
  rw [docIdsOf_length]; exact Nat.le_refl _

theorem plainDocs_data (fid : String) (ps : List String) (docs : List Val) :
    (plainDocs fid ps docs).map (·.data) = docs := by
  unfold plainDocs
  rw [List.map_map]
  have : ((fun d : Doc => d.data) ∘ fun (x : Val × String) => ({ id := x.2, parents := ps, data := x.1 } : Doc)) =
      Prod.fst := by funext x; rfl
  rw [this, List.map_fst_zip]
  rw [docIdsOf_length]; exact Nat.le_refl _

theorem map_stripParent_absent (docs : List Val) (h : ∀ v ∈ docs, parentDirective v = .ok .absent) :
    docs.map stripParent = docs := by
  induction docs with
  | nil => rfl
  | cons v vs ih =>
    rw [List.map_cons, stripParent_of_absent v (h v List.mem_cons_self),
      ih (fun x hx => h x (List.mem_cons_of_mem _ hx))]

theorem string_length_lt_append (s t : String) : s.length < (s ++ "|" ++ t).length := by
  rw [String.length_append, String.length_append]
  have : "|".length = 1 := by decide
  omega

/-- every file below a child `c` has an id strictly longer than the child's -/
theorem chainFiles_id_length (d : Comps) (pre : List String) : ∀ (R : List CLayer) (c : String),
    ∀ f ∈ chainFiles d pre (some c) R, c.length < f.id.length
  | [], c, f, h => by cases h
  | x :: S, c, f, h => by
    unfold chainFiles at h
    rcases List.mem_append.1 h with h | h
    · have := chainFiles_id_length d pre S _ f h
      have h2 := string_length_lt_append c (pathStr (clPath d pre (x :: S)))
      simp only [fileIdOf] at this
      omega
    · have : f.id = c ++ "|" ++ pathStr (clPath d pre (x :: S)) := by
        have := List.mem_singleton.1 h
        rw [this]; rfl
      rw [this]
      exact string_length_lt_append _ _

theorem mineOf_plain (fid : String) (path : Comps) (raw : List Val) (parents : List Comps)
    (files : List LFile) (h : ∀ v ∈ raw, parentDirective v = .ok .absent) :
    mineOf fid path raw parents files =
      { id := fid, path := path,
        docs := plainDocs fid ((files.filter (fun f => parents.any fun p =>
          f.id == fid ++ "|" ++ pathStr p)).flatMap (fun f => f.docs.map (·.id))) raw } := by
  unfold mineOf plainDocs
  rw [map_stripParent_absent raw h]

/-- the parent links of the file on top of the chain `y :: S`: the documents of `y`'s file -/
theorem chainFiles_parentIds (d : Comps) (pre : List String) (fid : String) (y : CLayer)
    (S : List CLayer) :
    ((chainFiles d pre (some fid) (y :: S)).filter (fun f => [clPath d pre (y :: S)].any fun p =>
        f.id == fid ++ "|" ++ pathStr p)).flatMap (fun f => f.docs.map (·.id)) =
      docIdsOf (fid ++ "|" ++ pathStr (clPath d pre (y :: S))) y.docs.length := by
  have h1 : (chainFiles d pre (some (fid ++ "|" ++ pathStr (clPath d pre (y :: S)))) S).filter
      (fun f => [clPath d pre (y :: S)].any fun p => f.id == fid ++ "|" ++ pathStr p) = [] := by
    rw [List.filter_eq_nil_iff]
    intro f hf
    have := chainFiles_id_length d pre S _ f hf
    simp only [List.any_cons, List.any_nil, Bool.or_false, beq_iff_eq]
    intro e
    rw [e] at this
    exact Nat.lt_irrefl _ this
  rw [chainFiles_cons]
  simp only [fileIdOf]
  rw [List.filter_append, h1, List.nil_append]
  simp only [List.filter_cons, List.any_cons, List.any_nil, Bool.or_false, beq_self_eq_true,
    if_true, List.filter_nil, List.flatMap_cons, List.flatMap_nil, List.append_nil]
  exact plainDocs_ids _ _ _

section chainN
variable {fs : FS} {d cwd : Comps} {pre : List String}

theorem chainOK_tail {x : CLayer} {S : List CLayer} (h : ChainOK fs d pre (x :: S)) :
    ChainOK fs d pre S := h.2.2

/-- the parents of the file on top of a chain, by the filename rule -/
theorem fileParents_chain (hd : PlainDir fs d) (x : CLayer) (S : List CLayer)
    (hpl : ∀ n ∈ cnames pre (x :: S), PlainName n) (hok : ChainOK fs d pre (x :: S)) :
    fileParents fs ⟨[], cwd⟩ (clPath d pre (x :: S)) x.docs =
      if cnames pre S = [] then .ok []
      else
        match fs.findRooted [] d (layerName (cnames pre S)) with
        | some f => .ok [f]
        | none => .error .missingFile := by
  have hne : cnames pre (x :: S) ≠ [] := by rw [cnames_cons]; simp
  have hl : 0 < (layerName (cnames pre (x :: S))).length :=
    layer_length_pos _ hne (fun n hn => (hpl n hn).1)
  rw [clPath, fileParents_layer ⟨[], cwd⟩ hd hl hok.1 hok.2.1]
  unfold layerName
  rw [splitOn_layer _ hne (fun n hn => (hpl n hn).2), cnames_cons, List.dropLast_concat]
  by_cases h : cnames pre S = []
  · simp [h]
  · have : ¬ (cnames pre S ++ [x.name]).length = 1 := by
      have := List.length_pos_iff.2 h
      simp only [List.length_append, List.length_cons, List.length_nil]; omega
    rw [if_neg this, if_neg h]
    rfl

def partsOf (q : Comps) : Nat := ((baseOf q).splitOn ".").length

theorem partsOf_clPath (x : CLayer) (S : List CLayer) (hpl : ∀ n ∈ cnames pre (x :: S), PlainName n)
    (hext : x.ext ∈ supportedExts) :
    partsOf (clPath d pre (x :: S)) = pre.length + S.length + 2 := by
  have hne : cnames pre (x :: S) ≠ [] := by rw [cnames_cons]; simp
  unfold partsOf
  rw [clPath, baseOf_snoc, splitOn_dot_snoc _ _ (supportedExt_noDot _ hext)]
  unfold layerName
  rw [splitOn_layer _ hne (fun n hn => (hpl n hn).2), List.length_append, cnames_length]
  simp only [List.length_cons, List.length_nil]; omega

theorem loadFile_chain (hd : PlainDir fs d) (x : CLayer) (S : List CLayer)
    (hpl : ∀ n ∈ cnames pre (x :: S), PlainName n) (hok : ChainOK fs d pre (x :: S)) (fid : String) :
    loadFile fs ⟨[], cwd⟩ (clPath d pre (x :: S)) fid = .ok x.docs := by
  have hne : cnames pre (x :: S) ≠ [] := by rw [cnames_cons]; simp
  exact loadFile_layerFile hd (layer_length_pos _ hne (fun n hn => (hpl n hn).1)) hok.1 cwd fid

theorem not_contains_clPath (x : CLayer) (S : List CLayer) (chain : List Comps)
    (hpl : ∀ n ∈ cnames pre (x :: S), PlainName n) (hext : x.ext ∈ supportedExts)
    (hch : ∀ q ∈ chain, pre.length + S.length + 2 < partsOf q) :
    chain.contains (clPath d pre (x :: S)) = false := by
  cases h : chain.contains (clPath d pre (x :: S)) with
  | false => rfl
  | true =>
    have := hch _ (List.contains_iff_mem.1 h)
    rw [partsOf_clPath x S hpl hext] at this
    exact absurd this (Nat.lt_irrefl _)

theorem chain_cons_parts (x : CLayer) (S : List CLayer) (chain : List Comps)
    (hpl : ∀ n ∈ cnames pre (x :: S), PlainName n) (hext : x.ext ∈ supportedExts)
    (hch : ∀ q ∈ chain, pre.length + S.length + 2 < partsOf q) :
    ∀ q ∈ clPath d pre (x :: S) :: chain, pre.length + S.length + 1 < partsOf q := by
  intro q hq
  rcases List.mem_cons.1 hq with rfl | hq
  · rw [partsOf_clPath x S hpl hext]; omega
  · have := hch q hq; omega

theorem plain_tail {x : CLayer} {S : List CLayer} (hpl : ∀ n ∈ cnames pre (x :: S), PlainName n) :
    ∀ n ∈ cnames pre S, PlainName n := by
  intro n hn
  apply hpl
  rw [cnames_cons]
  exact List.mem_append_left _ hn

theorem fileParents_chain_cons (hd : PlainDir fs d) (x y : CLayer) (S : List CLayer)
    (hpl : ∀ n ∈ cnames pre (x :: y :: S), PlainName n) (hok : ChainOK fs d pre (x :: y :: S)) :
    fileParents fs ⟨[], cwd⟩ (clPath d pre (x :: y :: S)) x.docs = .ok [clPath d pre (y :: S)] := by
  have hne : cnames pre (y :: S) ≠ [] := by rw [cnames_cons]; simp
  have hl : 0 < (layerName (cnames pre (y :: S))).length :=
    layer_length_pos _ hne (fun n hn => (plain_tail hpl n hn).1)
  rw [fileParents_chain hd x (y :: S) hpl hok, if_neg hne, findRooted_layerFile hd hl hok.2.2.1]
  rfl

/-- **chains of any depth load base first** (with enough fuel) -/
theorem lfp_chain_ok (hd : PlainDir fs d) : ∀ (S : List CLayer) (x : CLayer) (fuel : Nat)
    (c : Option String) (ids : List String) (chain : List Comps),
    (∀ n ∈ cnames [] (x :: S), PlainName n) → ChainOK fs d [] (x :: S) →
    (∀ q ∈ chain, S.length + 2 < partsOf q) →
    loadFileAndParents fs ⟨[], cwd⟩ (fuel + S.length + 1) (clPath d [] (x :: S)) c ids chain =
      .ok (chainFiles d [] c (x :: S),
        docIdsOf (fileIdOf c (clPath d [] (x :: S))) x.docs.length) := by
  intro S
  induction S with
  | nil =>
    intro x fuel c ids chain hpl hok hch
    have hc := not_contains_clPath (d := d) x [] chain hpl hok.1.ext (by simpa using hch)
    have hp : fileParents fs ⟨[], cwd⟩ (clPath d [] [x]) x.docs = .ok [] := by
      rw [fileParents_chain hd x [] hpl hok, cnames_nil]; rfl
    rw [lfp_leaf hc (loadFile_chain hd x [] hpl hok _) hp, mineOf_plain _ _ _ _ _ hok.2.1,
      chainFiles_cons]
    rfl
  | cons y S ih =>
    intro x fuel c ids chain hpl hok hch
    have hc := not_contains_clPath (d := d) x (y :: S) chain hpl hok.1.ext (by simpa using hch)
    have hne : cnames [] (y :: S) ≠ [] := by rw [cnames_cons]; simp
    have hp := fileParents_chain_cons (cwd := cwd) (pre := []) hd x y S hpl hok
    have hq := ih y fuel (some (fileIdOf c (clPath d [] (x :: y :: S))))
      (docIdsOf (fileIdOf c (clPath d [] (x :: y :: S))) x.docs.length)
      (clPath d [] (x :: y :: S) :: chain) (plain_tail hpl) hok.2.2
      (by have := chain_cons_parts (d := d) x (y :: S) chain hpl hok.1.ext (by simpa using hch)
          simpa using this)
    have hf : fuel + (y :: S).length + 1 = (fuel + S.length + 1) + 1 := by
      simp only [List.length_cons]; omega
    rw [hf, lfp_single hc (loadFile_chain hd x (y :: S) hpl hok _) hp hq,
      mineOf_plain _ _ _ _ _ hok.2.1, chainFiles_parentIds, chainFiles_cons d [] c x (y :: S)]

/-- a layer below the chain that no file provides: `missingFile` (with enough fuel) -/
theorem lfp_chain_missing (hd : PlainDir fs d) (hpre : pre ≠ [])
    (hmiss : fs.findRooted [] d (layerName pre) = none) : ∀ (S : List CLayer) (x : CLayer) (fuel : Nat)
    (c : Option String) (ids : List String) (chain : List Comps),
    (∀ n ∈ cnames pre (x :: S), PlainName n) → ChainOK fs d pre (x :: S) →
    (∀ q ∈ chain, pre.length + S.length + 2 < partsOf q) →
    loadFileAndParents fs ⟨[], cwd⟩ (fuel + S.length + 1) (clPath d pre (x :: S)) c ids chain =
      .error .missingFile := by
  intro S
  induction S with
  | nil =>
    intro x fuel c ids chain hpl hok hch
    have hc := not_contains_clPath (d := d) x [] chain hpl hok.1.ext hch
    have hp : fileParents fs ⟨[], cwd⟩ (clPath d pre [x]) x.docs = .error .missingFile := by
      rw [fileParents_chain hd x [] hpl hok, cnames_nil, if_neg hpre, hmiss]
    rw [loadFileAndParents_succ, hc, loadFile_chain hd x [] hpl hok _]
    simp only [Bool.false_eq_true, if_false, hp]
  | cons y S ih =>
    intro x fuel c ids chain hpl hok hch
    have hc := not_contains_clPath (d := d) x (y :: S) chain hpl hok.1.ext hch
    have hne : cnames pre (y :: S) ≠ [] := by rw [cnames_cons]; simp
    have hp := fileParents_chain_cons (cwd := cwd) hd x y S hpl hok
    have hq := ih y fuel (some (fileIdOf c (clPath d pre (x :: y :: S))))
      (docIdsOf (fileIdOf c (clPath d pre (x :: y :: S))) x.docs.length)
      (clPath d pre (x :: y :: S) :: chain) (plain_tail hpl) hok.2.2
      (by have := chain_cons_parts (d := d) x (y :: S) chain hpl hok.1.ext hch
          simpa [Nat.add_assoc] using this)
    have hf : fuel + (y :: S).length + 1 = (fuel + S.length + 1) + 1 := by
      simp only [List.length_cons]; omega
    rw [hf, loadFileAndParents_succ, hc, loadFile_chain hd x (y :: S) hpl hok _]
    simp only [Bool.false_eq_true, if_false, hp, loadSubs, hq]

/-- not enough fuel for the chain: the model reports `circularRef` -/
theorem lfp_chain_nofuel (hd : PlainDir fs d) : ∀ (fuel : Nat) (S : List CLayer) (x : CLayer)
    (c : Option String) (ids : List String) (chain : List Comps),
    fuel ≤ S.length →
    (∀ n ∈ cnames pre (x :: S), PlainName n) → ChainOK fs d pre (x :: S) →
    loadFileAndParents fs ⟨[], cwd⟩ fuel (clPath d pre (x :: S)) c ids chain =
      .error .circularRef := by
  intro fuel
  induction fuel with
  | zero => intro S x c ids chain _ _ _; rfl
  | succ fuel ih =>
    intro S x c ids chain hlen hpl hok
    cases S with
    | nil => simp at hlen
    | cons y S =>
      have hne : cnames pre (y :: S) ≠ [] := by rw [cnames_cons]; simp
      have hp := fileParents_chain_cons (cwd := cwd) hd x y S hpl hok
      rw [loadFileAndParents_succ]
      cases hc : chain.contains (clPath d pre (x :: y :: S)) with
      | true => rfl
      | false =>
        have hq := ih S y (some (fileIdOf c (clPath d pre (x :: y :: S))))
          (docIdsOf (fileIdOf c (clPath d pre (x :: y :: S))) x.docs.length)
          (clPath d pre (x :: y :: S) :: chain) (by simpa using hlen) (plain_tail hpl) hok.2.2
        rw [loadFile_chain hd x (y :: S) hpl hok _]
        simp only [Bool.false_eq_true, if_false, hp, loadSubs, hq]
end chainN

/-! ## the shape of `chainFiles` -/

theorem chainFiles_length (d : Comps) (pre : List String) : ∀ (R : List CLayer) (c : Option String),
    (chainFiles d pre c R).length = R.length
  | [], _ => rfl
  | x :: S, c => by
    rw [chainFiles_cons, List.length_append, chainFiles_length d pre S]; rfl

theorem chainFiles_data (d : Comps) (pre : List String) : ∀ (R : List CLayer) (c : Option String),
    (chainFiles d pre c R).map (fun f => f.docs.map (·.data)) = R.reverse.map (·.docs)
  | [], _ => rfl
  | x :: S, c => by
    rw [chainFiles_cons, List.map_append, chainFiles_data d pre S, List.reverse_cons, List.map_append]
    simp only [List.map_cons, List.map_nil, plainDocs_data]

theorem chainFiles_paths (d : Comps) (pre : List String) : ∀ (R : List CLayer) (c : Option String),
    (chainFiles d pre c R).map (·.path) =
      (List.range R.length).map (fun k => clPath d pre (R.drop (R.length - (k + 1))))
  | [], _ => rfl
  | x :: S, c => by
    rw [chainFiles_cons, List.map_append, chainFiles_paths d pre S, List.length_cons,
      List.range_succ, List.map_append]
    congr 1
    · apply List.map_congr_left
      intro k hk
      have hk' : k < S.length := List.mem_range.1 hk
      have : S.length + 1 - (k + 1) = (S.length - (k + 1)) + 1 := by omega
      rw [this, List.drop_succ_cons]
    · simp

theorem chainFiles_getLast (d : Comps) (pre : List String) (c : Option String) (x : CLayer)
    (S : List CLayer) :
    (chainFiles d pre c (x :: S)).getLast? =
      some { id := fileIdOf c (clPath d pre (x :: S)), path := clPath d pre (x :: S),
             docs := plainDocs (fileIdOf c (clPath d pre (x :: S)))
               (match S with
                | [] => []
                | y :: _ => docIdsOf (fileIdOf c (clPath d pre (x :: S)) ++ "|" ++
                    pathStr (clPath d pre S)) y.docs.length) x.docs } := by
  rw [chainFiles_cons, List.getLast?_append]
  rfl

/-- consecutive files: the lower one's id extends the upper one's by its own path, and the
    upper one's documents point at exactly the lower one's documents -/
theorem chainFiles_link (d : Comps) (pre : List String) : ∀ (R : List CLayer) (c : Option String)
    (k : Nat) (f g : LFile), (chainFiles d pre c R)[k]? = some f →
      (chainFiles d pre c R)[k + 1]? = some g →
      f.id = g.id ++ "|" ++ pathStr f.path ∧ ∀ dd ∈ g.docs, dd.parents = f.docs.map (·.id)
  | [], _, k, f, g, h, _ => by cases h
  | x :: S, c, k, f, g, hf, hg => by
    rw [chainFiles_cons] at hf hg
    have hlen := chainFiles_length d pre S (some (fileIdOf c (clPath d pre (x :: S))))
    by_cases hk : k + 1 < S.length
    · rw [List.getElem?_append_left (by omega)] at hf hg
      exact chainFiles_link d pre S _ k f g hf hg
    · have hk1 : k + 1 = S.length := by
        have : k + 1 < S.length + 1 := by
          have := (List.getElem?_eq_some_iff.1 hg).1
          simpa [hlen] using this
        omega
      cases S with
      | nil => simp at hk1
      | cons y S' =>
        rw [List.getElem?_append_left (by omega)] at hf
        rw [List.getElem?_append_right (by omega)] at hg
        have hk2 : k = S'.length := by simpa using hk1
        have hlast := chainFiles_getLast d pre (some (fileIdOf c (clPath d pre (x :: y :: S')))) y S'
        rw [List.getLast?_eq_getElem?, hlen] at hlast
        have : (y :: S').length - 1 = k := by simp [hk2]
        rw [this, hf] at hlast
        have hf' := Option.some.inj hlast
        have hz : k + 1 - (chainFiles d pre (some (fileIdOf c (clPath d pre (x :: y :: S')))) (y :: S')).length = 0 := by
          rw [hlen]; omega
        rw [hz, List.getElem?_cons_zero] at hg
        have hg' := (Option.some.inj hg).symm
        subst hf' hg'
        refine ⟨rfl, ?_⟩
        intro dd hdd
        rw [plainDocs_ids]
        unfold plainDocs at hdd
        obtain ⟨⟨v, i⟩, _, rfl⟩ := List.mem_map.1 hdd
        rfl

theorem chainFiles_head_parents (d : Comps) (pre : List String) : ∀ (R : List CLayer)
    (c : Option String) (f : LFile), (chainFiles d pre c R).head? = some f →
      ∀ dd ∈ f.docs, dd.parents = []
  | [], _, f, h => by cases h
  | [x], c, f, h => by
    have : f = _ := (Option.some.inj h).symm
    subst this
    intro dd hdd
    unfold plainDocs at hdd
    obtain ⟨⟨v, i⟩, _, rfl⟩ := List.mem_map.1 hdd
    rfl
  | x :: y :: S, c, f, h => by
    rw [chainFiles_cons] at h
    have hl := chainFiles_length d pre (y :: S) (some (fileIdOf c (clPath d pre (x :: y :: S))))
    cases hA : chainFiles d pre (some (fileIdOf c (clPath d pre (x :: y :: S)))) (y :: S) with
    | nil => rw [hA] at hl; simp at hl
    | cons a A' =>
      rw [hA] at h
      have : a = f := by simpa using h
      subst this
      exact chainFiles_head_parents d pre (y :: S) _ a (by rw [hA]; rfl)

/-! ## base-first formulation -/

/-- the file that provides the layer named by the names of `pre` and `P` joined with dots
    (its extension is the one recorded in `P`'s last element) -/
def prefixPath (d : Comps) (pre : List String) (P : List CLayer) : Comps := clPath d pre P.reverse

theorem prefixPath_snoc (d : Comps) (pre : List String) (P : List CLayer) (x : CLayer) :
    prefixPath d pre (P ++ [x]) =
      d ++ [layerName (pre ++ (P ++ [x]).map (·.name)) ++ "." ++ x.ext] := by
  simp [prefixPath, clPath, cnames]

/-- base-first: every non-empty prefix `P ++ [x]` of the chain `L` (above the names `pre`) is
    provided by exactly one file, `<pre.names of P.x.name>.<x.ext>`, holding `x.docs`, none of
    which carries `$parent` -/
def ChainFilesOK (fs : FS) (d : Comps) (pre : List String) (L : List CLayer) : Prop :=
  ∀ P x, P ++ [x] <+: L →
    LayerFile fs d (layerName (pre ++ (P ++ [x]).map (·.name))) x.ext (.ok x.docs) ∧
      ∀ v ∈ x.docs, parentDirective v = .ok .absent

theorem chainOK_of_suffixes {fs : FS} {d : Comps} {pre : List String} : ∀ (R : List CLayer),
    (∀ S x, x :: S <:+ R → LayerFile fs d (layerName (cnames pre (x :: S))) x.ext (.ok x.docs) ∧
      ∀ v ∈ x.docs, parentDirective v = .ok .absent) → ChainOK fs d pre R
  | [], _ => trivial
  | x :: S, h =>
    ⟨(h S x (List.suffix_refl _)).1, (h S x (List.suffix_refl _)).2,
      chainOK_of_suffixes S (fun S' y hs => h S' y (List.suffix_cons_iff.2 (Or.inr hs)))⟩

theorem chainOK_reverse {fs : FS} {d : Comps} {pre : List String} {L : List CLayer}
    (h : ChainFilesOK fs d pre L) : ChainOK fs d pre L.reverse := by
  apply chainOK_of_suffixes
  intro S x hs
  have hp : S.reverse ++ [x] <+: L := by
    rw [← List.reverse_suffix]
    simpa using hs
  have := h S.reverse x hp
  have e : cnames pre (x :: S) = pre ++ (S.reverse ++ [x]).map (·.name) := by simp [cnames]
  rw [e]
  exact this

theorem cnames_reverse (pre : List String) (L : List CLayer) :
    cnames pre L.reverse = pre ++ L.map (·.name) := by simp [cnames]

theorem chainFiles_paths_rev (d : Comps) (pre : List String) (L : List CLayer) (c : Option String) :
    (chainFiles d pre c L.reverse).map (·.path) =
      (List.range L.length).map (fun k => prefixPath d pre (L.take (k + 1))) := by
  rw [chainFiles_paths, List.length_reverse]
  apply List.map_congr_left
  intro k hk
  have hk' : k < L.length := List.mem_range.1 hk
  rw [List.drop_reverse]
  have : L.length - (L.length - (k + 1)) = k + 1 := by omega
  rw [this]
  rfl

theorem chainFiles_data_rev (d : Comps) (pre : List String) (L : List CLayer) (c : Option String) :
    (chainFiles d pre c L.reverse).map (fun f => f.docs.map (·.data)) = L.map (·.docs) := by
  rw [chainFiles_data, List.reverse_reverse]

section baseFirst
variable {fs : FS} {d cwd : Comps} {pre : List String}

theorem plain_of_baseFirst {P : List CLayer} {x : CLayer} (hpre : ∀ n ∈ pre, PlainName n)
    (hpl : ∀ y ∈ P ++ [x], PlainName y.name) :
    ∀ n ∈ cnames pre (x :: P.reverse), PlainName n := by
  intro n hn
  have e : cnames pre (x :: P.reverse) = pre ++ (P ++ [x]).map (·.name) := by simp [cnames]
  rw [e] at hn
  rcases List.mem_append.1 hn with hn | hn
  · exact hpre n hn
  · obtain ⟨y, hy, rfl⟩ := List.mem_map.1 hn
    exact hpl y hy

/-- `loadFileAndParents` on the top of the chain `P ++ [x]` (at most `loadFuel` layers) -/
theorem load_chain (hd : PlainDir fs d) (P : List CLayer) (x : CLayer)
    (hlen : (P ++ [x]).length ≤ loadFuel) (hpl : ∀ y ∈ P ++ [x], PlainName y.name)
    (hok : ChainFilesOK fs d [] (P ++ [x])) :
    loadFileAndParents fs ⟨[], cwd⟩ loadFuel (prefixPath d [] (P ++ [x])) none [] [] =
      .ok (chainFiles d [] none (P ++ [x]).reverse,
        docIdsOf (pathStr (prefixPath d [] (P ++ [x]))) x.docs.length) := by
  have hok' := chainOK_reverse hok
  have hr : (P ++ [x]).reverse = x :: P.reverse := by simp
  have hf : loadFuel = (loadFuel - (P.length + 1)) + P.reverse.length + 1 := by
    simp only [List.length_append, List.length_cons, List.length_nil] at hlen
    rw [List.length_reverse]; omega
  unfold prefixPath
  rw [hr] at hok' ⊢
  rw [hf]
  exact lfp_chain_ok hd P.reverse x _ none [] []
    (plain_of_baseFirst (fun _ h => nomatch h) hpl) hok' (fun _ h => nomatch h)

/-- more layers than `loadFuel`: the model gives up with `circularRef` -/
theorem load_chain_nofuel (hd : PlainDir fs d) (P : List CLayer) (x : CLayer)
    (hlen : loadFuel < (P ++ [x]).length) (hpre : ∀ n ∈ pre, PlainName n)
    (hpl : ∀ y ∈ P ++ [x], PlainName y.name)
    (hok : ChainFilesOK fs d pre (P ++ [x])) :
    loadFileAndParents fs ⟨[], cwd⟩ loadFuel (prefixPath d pre (P ++ [x])) none [] [] =
      .error .circularRef := by
  have hok' := chainOK_reverse hok
  have hr : (P ++ [x]).reverse = x :: P.reverse := by simp
  unfold prefixPath
  rw [hr] at hok' ⊢
  exact lfp_chain_nofuel hd loadFuel P.reverse x none [] []
    (by simp only [List.length_append, List.length_cons, List.length_nil] at hlen
        rw [List.length_reverse]; omega)
    (plain_of_baseFirst hpre hpl) hok'

/-- the layer `pre` (non-empty) below the chain `P ++ [x]` is provided by no file -/
theorem load_chain_missing (hd : PlainDir fs d) (P : List CLayer) (x : CLayer)
    (hlen : (P ++ [x]).length ≤ loadFuel) (hne : pre ≠ []) (hpre : ∀ n ∈ pre, PlainName n)
    (hpl : ∀ y ∈ P ++ [x], PlainName y.name)
    (hok : ChainFilesOK fs d pre (P ++ [x]))
    (hm : fs.findRooted [] d (layerName pre) = none) :
    loadFileAndParents fs ⟨[], cwd⟩ loadFuel (prefixPath d pre (P ++ [x])) none [] [] =
      .error .missingFile := by
  have hok' := chainOK_reverse hok
  have hr : (P ++ [x]).reverse = x :: P.reverse := by simp
  have hf : loadFuel = (loadFuel - (P.length + 1)) + P.reverse.length + 1 := by
    simp only [List.length_append, List.length_cons, List.length_nil] at hlen
    rw [List.length_reverse]; omega
  unfold prefixPath
  rw [hr] at hok' ⊢
  rw [hf]
  exact lfp_chain_missing hd hne hm P.reverse x _ none [] []
    (plain_of_baseFirst hpre hpl) hok' (fun _ h => nomatch h)
end baseFirst
/-! ## a file system with a chain of any depth (for the fuel counterexamples) -/

def deepLayer : CLayer := ⟨"a", "yaml", [.map []]⟩

def deepName (pre : List String) (k : Nat) : String :=
  layerName (pre ++ List.replicate (k + 1) "a") ++ "." ++ "yaml"

/-- `/w/<pre>.a.yaml`, `/w/<pre>.a.a.yaml`, … (`n` files), each holding the document `{}` -/
def deepFS (pre : List String) (n : Nat) : FS :=
  ⟨(["w"], .dir) :: (List.range n).map fun k => (["w", deepName pre k], .file (.ok [.map []]))⟩

theorem find?_map_const {α : Type} (g : α → Comps) (node : FNode) (p : Comps) : ∀ (l : List α),
    ((l.map fun k => (g k, node)).find? (·.1 == p)).map (·.2) =
      if l.any (fun k => g k == p) then some node else none
  | [] => rfl
  | a :: l => by
    rw [List.map_cons, List.find?_cons, List.any_cons]
    cases h : g a == p
    · simp only [Bool.false_or]
      exact find?_map_const g node p l
    · simp

theorem deepFS_lstat (pre : List String) (n : Nat) (s : String) :
    (deepFS pre n).lstat (["w"] ++ [s]) =
      if (List.range n).any (fun k => deepName pre k == s) then some (.file (.ok [.map []]))
      else none := by
  unfold FS.lstat deepFS
  have h1 : (["w"] ++ [s] : Comps).isEmpty = false := rfl
  have h2 : ((["w"] : Comps) == ["w"] ++ [s]) = false := by
    rw [beq_eq_false_iff_ne]; intro e; cases e
  simp only [h1, Bool.false_eq_true, if_false, List.find?_cons, h2]
  have := find?_map_const (fun k => ["w", deepName pre k]) (.file (.ok [.map []])) (["w"] ++ [s])
    (List.range n)
  rw [this]
  congr 2
  congr 1
  funext k
  show (["w", deepName pre k] == ["w", s]) = (deepName pre k == s)
  by_cases e : deepName pre k = s
  · subst e; simp
  · rw [beq_eq_false_iff_ne.2 e, beq_eq_false_iff_ne]
    intro e'; apply e; simpa using e'

theorem deepFS_plain (pre : List String) (n : Nat) : PlainDir (deepFS pre n) ["w"] :=
  plainDir_single (n := .dir) (by decide) (by simp [FS.lstat, deepFS]) rfl

theorem deepName_ne_ext (pre : List String) (k : Nat) (l e : String) (he : e ∈ supportedExts)
    (hne : e ≠ "yaml") : (deepName pre k == l ++ "." ++ e) = false := by
  rw [beq_eq_false_iff_ne]
  intro h
  have := congrArg extOf h
  unfold deepName at this
  rw [extOf_snoc _ _ (by decide), extOf_snoc _ _ (supportedExt_noDot e he)] at this
  exact hne this.symm

theorem replicate_prefix {α : Type} {P : List α} {x a : α} {n : Nat}
    (h : P ++ [x] <+: List.replicate n a) :
    P = List.replicate P.length a ∧ x = a ∧ P.length < n := by
  obtain ⟨t, ht⟩ := h
  have hl : (P ++ [x] ++ t).length = n := by rw [ht]; simp
  have hm : ∀ y ∈ P ++ [x] ++ t, y = a := by
    intro y hy; rw [ht] at hy; exact (List.mem_replicate.1 hy).2
  refine ⟨?_, hm x (by simp), ?_⟩
  · exact List.eq_replicate_iff.2 ⟨rfl, fun y hy => hm y (by simp [hy])⟩
  · simp only [List.length_append, List.length_cons, List.length_nil] at hl; omega

theorem deepFS_chainOK (pre : List String) (n : Nat) :
    ChainFilesOK (deepFS pre n) ["w"] pre (List.replicate n deepLayer) := by
  intro P x hp
  obtain ⟨hP, hx, hlt⟩ := replicate_prefix hp
  subst hx
  have hn : (P ++ [deepLayer]).map (·.name) = List.replicate (P.length + 1) "a" := by
    rw [hP]
    simp only [List.map_append, List.map_replicate, List.map_cons, List.map_nil, List.length_replicate]
    rw [← List.replicate_succ']
    rfl
  rw [hn]
  refine ⟨⟨by decide, ?_, ?_⟩, ?_⟩
  · rw [deepFS_lstat]
    have : (List.range n).any (fun k => deepName pre k == layerName (pre ++ List.replicate (P.length + 1) "a") ++ "." ++ deepLayer.ext) = true := by
      rw [List.any_eq_true]
      exact ⟨P.length, List.mem_range.2 hlt, by simp [deepName, deepLayer]⟩
    rw [this]; rfl
  · intro e he hne
    rw [deepFS_lstat]
    have : (List.range n).any (fun k => deepName pre k == layerName (pre ++ List.replicate (P.length + 1) "a") ++ "." ++ e) = false := by
      rw [List.any_eq_false]
      intro k _
      rw [deepName_ne_ext pre k _ e he hne]
      simp
    rw [this]; rfl
  · intro v hv
    have : v = Val.map [] := by simpa [deepLayer] using hv
    subst this; rfl

theorem deepFS_missing (pre : List String) (n : Nat) (hne : pre ≠ [])
    (hpre : ∀ s ∈ pre, PlainName s) :
    ∀ e ∈ supportedExts, (deepFS pre n).lstat (["w"] ++ [layerName pre ++ "." ++ e]) = none := by
  intro e he
  rw [deepFS_lstat]
  have : (List.range n).any (fun k => deepName pre k == layerName pre ++ "." ++ e) = false := by
    rw [List.any_eq_false]
    intro k _
    by_cases hy : e = "yaml"
    · subst hy
      simp only [beq_iff_eq]
      intro h
      have h2 := congrArg (fun s => (String.splitOn s ".").length) h
      unfold deepName layerName at h2
      simp only [splitOn_dot_snoc _ _ (show '.' ∉ "yaml".toList by decide)] at h2
      rw [splitOn_layer _ (by simp [hne]) (by
          intro s hs
          rcases List.mem_append.1 hs with hs | hs
          · exact (hpre s hs).2
          · rw [(List.mem_replicate.1 hs).2]; decide),
        splitOn_layer _ hne (fun s hs => (hpre s hs).2)] at h2
      simp at h2
    · rw [deepName_ne_ext pre k _ e he hy]; simp
  rw [this]; rfl

theorem deepLayer_plain : PlainName deepLayer.name := ⟨by decide, by decide⟩


/-! ## a `$parent` list with a dangling entry -/

theorem fileParents_missing_entry (fs : FS) (cfg : RootCfg) (path : Comps) (docs : List Val)
    (dirs : List ParentDir)
    (n : String) (hd : docs.mapM parentDirective = .ok dirs) (hnp : hasNoParent dirs = false)
    (hn : n ∈ parentNames dirs) (hg : globName fs cfg path n = []) :
    fileParents fs cfg path docs = .error .missingFile := by
  rw [fileParents_eq, hd]
  have h1 : (parentNames dirs).isEmpty = false := by
    cases h : parentNames dirs with
    | nil => rw [h] at hn; cases hn
    | cons a l => rfl
  simp only [hnp, h1, Bool.false_eq_true, if_false, Bool.not_false, if_true]
  rw [globStep_foldlM]
  have h2 : (parentNames dirs).any (fun n => (globName fs cfg path n).isEmpty) = true := by
    rw [List.any_eq_true]
    exact ⟨n, hn, by rw [hg]; rfl⟩
  rw [h2]; rfl

theorem toStringList_strs (ns : List String) : toStringList (ns.map Val.str) = .ok ns := by
  unfold toStringList
  induction ns with
  | nil => exact mapM_R_nil _
  | cons a l ih => rw [List.map_cons, mapM_R_cons, ih]; rfl

theorem lfp_parents_error {fs : FS} {cfg : RootCfg} {fuel : Nat} {path : Comps}
    {childId : Option String} {c : List String} {chain : List Comps} {raw : List Val} {e : Err}
    (hc : chain.contains path = false)
    (hl : loadFile fs cfg path (fileIdOf childId path) = .ok raw)
    (hp : fileParents fs cfg path raw = .error e) :
    loadFileAndParents fs cfg (fuel + 1) path childId c chain = .error e := by
  rw [loadFileAndParents_succ, hc, hl]
  simp only [Bool.false_eq_true, if_false, hp]

theorem qsort_toList_eq_nil {α : Type} (lt : α → α → Bool) (as : Array α) :
    (as.qsort lt).toList = [] ↔ as.toList = [] := by
  rw [List.eq_nil_iff_forall_not_mem, List.eq_nil_iff_forall_not_mem]
  constructor
  · intro h x hx; exact h x ((mem_qsort lt as x).2 hx)
  · intro h x hx; exact h x ((mem_qsort lt as x).1 hx)

/-- `globFiles` (for a target whose directory holds no wildcard) is empty exactly when the
    directory cannot be opened beneath the root or none of its entries is selected -/
theorem globFiles_eq_nil_iff (fs : FS) (root d : Comps) (base : String)
    (hd : ∀ c ∈ d, plainComp c = true) (hm : d.any hasMeta = false) :
    fs.globFiles root (root ++ d ++ [base]) = [] ↔
      (∀ real, fs.rootOpenDir root d ≠ .ok real) ∨
        ∃ real, fs.rootOpenDir root d = .ok real ∧ globNames fs real base = [] := by
  rw [globFiles_snoc fs root d base hd hm, List.map_eq_nil_iff, rootReadDir_eq, rootOpenDir_eq]
  cases hw : fs.rootWalk root linkFuel 0 root d with
  | error e => simp
  | ok real =>
    simp only []
    have hperm := filter_qsort_perm (globSel base) (dirNames fs real)
    rw [← globNames_eq] at hperm
    generalize fs.lstat real = nd
    have hdirCase : List.filter (globSel base) ((dirNames fs real).toArray.qsort (· < ·)).toList = [] ↔
        (∀ r : Comps, (Except.ok real : R Comps) ≠ .ok r) ∨
          ∃ r, (Except.ok real : R Comps) = .ok r ∧ globNames fs r base = [] := by
      constructor
      · intro h
        rw [h] at hperm
        exact Or.inr ⟨real, rfl, hperm.symm.eq_nil⟩
      · rintro (h | ⟨r, hr, h⟩)
        · exact absurd rfl (h real)
        · cases hr
          rw [h] at hperm
          exact hperm.eq_nil
    cases nd with
    | none => simp
    | some n =>
      cases n with
      | dir => exact hdirCase
      | file _ => simp
      | link _ => simp

/-- `globFiles` looks at the target only through its directory and base name -/
theorem globFiles_congr_target (fs : FS) (root : Comps) {t t' : Comps} (hd : dirOf t = dirOf t')
    (hb : baseOf t = baseOf t') : fs.globFiles root t = fs.globFiles root t' := by
  unfold FS.globFiles
  rw [hd, hb]

/-- a pattern whose directory is not beneath the root matches nothing -/
theorem globFiles_outside (fs : FS) (root target : Comps) (h : ¬ root <+: dirOf target) :
    fs.globFiles root target = [] := by
  unfold FS.globFiles
  simp only []
  by_cases hp : root <+: dirOf target ++ [baseOf target ++ ".*"]
  · rcases List.prefix_concat_iff.1 hp with e | hp'
    · have : relTo root (dirOf target ++ [baseOf target ++ ".*"]) = [] := by
        rw [← e]
        have := relTo_append root []
        simpa using this
      rw [this]
      have hu : ¬ extOf "" ∈ supportedExts := by
        intro hmem
        have := List.contains_iff_mem.2 hmem
        rw [extOf_empty_unsupported] at this
        cases this
      simp [FS.globRev, hu]
    · exact absurd hp' h
  · have hr : root ≠ [] := by
      intro e; subst e; exact hp List.nil_prefix
    have hh := relTo_strip_outside root _ hp hr
    change (relTo root _).head? = some ".." at hh
    cases hrel : relTo root (dirOf target ++ [baseOf target ++ ".*"]) with
    | nil => rw [hrel] at hh; cases hh
    | cons a rest =>
      rw [hrel] at hh
      simp only [List.head?_cons, Option.some.injEq] at hh
      subst hh
      simp

/-- no entry of `rdir` is selected by `base.*` -/
theorem globNames_eq_nil_iff (fs : FS) (rdir : Comps) (base : String) :
    globNames fs rdir base = [] ↔
      ∀ e ∈ fs.entries, e.1 ≠ [] → e.1.dropLast = rdir →
        ¬ (globMatch (base ++ ".*").toList (baseOf e.1).toList
              ((base ++ ".*").length + (baseOf e.1).length + 1) = true ∧
            countDots (baseOf e.1) = countDots (base ++ ".*") ∧
            supportedExts.contains (extOf (baseOf e.1)) = true) := by
  unfold globNames
  rw [List.filter_eq_nil_iff]
  constructor
  · intro h e he hne hd hm
    apply h (baseOf e.1)
    · apply List.mem_map.2
      refine ⟨e, List.mem_filter.2 ⟨he, ?_⟩, rfl⟩
      simp only [Bool.and_eq_true, beq_iff_eq, Bool.not_eq_true', List.isEmpty_eq_false_iff]
      exact ⟨hd, hne⟩
    · simp only [Bool.and_eq_true, beq_iff_eq]
      exact ⟨⟨hm.1, hm.2.1⟩, hm.2.2⟩
  · intro h n hn hm
    obtain ⟨e, he, rfl⟩ := List.mem_map.1 hn
    rw [List.mem_filter] at he
    have h2 := he.2
    simp only [Bool.and_eq_true, beq_iff_eq, Bool.not_eq_true', List.isEmpty_eq_false_iff] at h2
    simp only [Bool.and_eq_true, beq_iff_eq] at hm
    exact h e he.1 h2.2 h2.1 ⟨hm.1.1, hm.1.2, hm.2⟩

/-! ## symlinked layers -/

theorem resolve_step_link {fs : FS} {fuel : Nat} {done : Comps} {c t : String}
    {rest ts : List String} (hc : plainComp c = true)
    (hl : fs.lstat (done ++ [c]) = some (.link t)) (ha : isAbsPath t = false)
    (hs : splitPath t = ts) :
    fs.resolve (fuel + 1) done (c :: rest) = fs.resolve fuel done (ts ++ rest) := by
  have hc' := (plainComp_iff c).1 hc
  rw [resolve_succ_cons, hl]
  simp [hc'.1, hc'.2.1, hc'.2.2, ha, hs]

theorem evalSymlinks_link {fs : FS} {d : Comps} {c t t' : String} {n : FNode} (hd : PlainDir fs d)
    (hlen : d.length + 3 ≤ linkFuel) (hc : plainComp c = true)
    (hl : fs.lstat (d ++ [c]) = some (.link t)) (ha : isAbsPath t = false)
    (hs : splitPath t = [t']) (ht : plainComp t' = true)
    (hl' : fs.lstat (d ++ [t']) = some n) (hn : n.isLink = false) :
    fs.evalSymlinks (d ++ [c]) = some (d ++ [t']) := by
  unfold FS.evalSymlinks
  obtain ⟨k, hk⟩ : ∃ k, linkFuel = (k + 3) + d.length := ⟨linkFuel - 3 - d.length, by omega⟩
  rw [hk, resolve_through fs d [] (k + 3) [c] hd.1]
  simp only [List.nil_append]
  rw [resolve_step_link hc hl ha hs]
  simp only [List.cons_append, List.nil_append]
  rw [resolve_step_plain ht hl' hn]
  rfl

theorem rootOpen_link {fs : FS} {d : Comps} {c t t' : String} {docs : R (List Val)}
    (hd : PlainDir fs d) (hlen : d.length + 3 ≤ linkFuel) (hc : plainComp c = true)
    (hl : fs.lstat (d ++ [c]) = some (.link t)) (ha : isAbsPath t = false)
    (hs : splitPath t = [t']) (ht : plainComp t' = true)
    (hl' : fs.lstat (d ++ [t']) = some (.file docs)) :
    fs.rootOpen [] (d ++ [c]) = docs := by
  rw [rootOpen_eq]
  obtain ⟨k, hk⟩ : ∃ k, linkFuel = (k + 3) + d.length := ⟨linkFuel - 3 - d.length, by omega⟩
  rw [hk, rootWalk_through fs [] d [] (k + 3) [c] hd.1]
  simp only [List.nil_append]
  rw [rootWalk_step_link hc hl ha hs]
  simp only [List.cons_append, List.nil_append]
  rw [rootWalk_step_plain ht hl' rfl, rootWalk_nil]
  simp only [hl']

/-- the parents of a symlink (no `$parent` inside) are those of its target's name -/
theorem fileParents_link {fs : FS} {d : Comps} {c t l e : String} {n : FNode} {docs : List Val}
    (cfg : RootCfg)
    (hd : PlainDir fs d) (hlen : d.length + 3 ≤ linkFuel) (hc : plainComp c = true)
    (hl : fs.lstat (d ++ [c]) = some (.link t)) (ha : isAbsPath t = false)
    (hs : splitPath t = [l ++ "." ++ e]) (hll : 0 < l.length) (he : e ∈ supportedExts)
    (hl' : fs.lstat (d ++ [l ++ "." ++ e]) = some n) (hn : n.isLink = false)
    (hdocs : ∀ x ∈ docs, parentDirective x = .ok .absent) :
    fileParents fs cfg (d ++ [c]) docs =
      if (l.splitOn ".").length = 1 then .ok []
      else
        match fs.findRooted cfg.root d (".".intercalate (l.splitOn ".").dropLast) with
        | some f => .ok [f]
        | none => .error .missingFile := by
  rw [fileParents_no_directive fs cfg _ docs hdocs,
    evalSymlinks_link hd hlen hc hl ha hs (plainComp_layer _ _ hll (supportedExt_length_pos e he)) hl' hn]
  exact fromName_snoc fs cfg d l e (supportedExt_noDot e he)

theorem loadFile_link {fs : FS} {d cwd : Comps} {c t l e : String} {docs : R (List Val)}
    (hd : PlainDir fs d) (hlen : d.length + 3 ≤ linkFuel) (hc : plainComp c = true)
    (hce : supportedExts.contains (extOf c) = true)
    (hl : fs.lstat (d ++ [c]) = some (.link t)) (ha : isAbsPath t = false)
    (hs : splitPath t = [l ++ "." ++ e]) (hll : 0 < l.length) (he : e ∈ supportedExts)
    (hl' : fs.lstat (d ++ [l ++ "." ++ e]) = some (.file docs)) (fid : String) :
    loadFile fs ⟨[], cwd⟩ (d ++ [c]) fid = docs := by
  rw [loadFile_eq, baseOf_snoc, hce]
  simp only [if_true, relTo_nil]
  exact rootOpen_link hd hlen hc hl ha hs (plainComp_layer _ _ hll (supportedExt_length_pos e he)) hl'



/-! ## renaming loader-made document ids (ids that do not end in `|matchnull`) -/

/-- `k` copies of the suffix the parser appends for `$match: null` -/
def mnRep : Nat → String
  | 0 => ""
  | k + 1 => mnRep k ++ "|matchnull"

/-- `s` does not end in `|matchnull` -/
def NoMN (s : String) : Prop := ∀ t, s ≠ t ++ "|matchnull"

theorem append_mnRep_succ (s : String) (k : Nat) :
    s ++ mnRep (k + 1) = (s ++ mnRep k) ++ "|matchnull" := by
  rw [mnRep, String.append_assoc]

theorem mnRep_unique {a b : String} (ha : NoMN a) (hb : NoMN b) : ∀ (k l : Nat),
    a ++ mnRep k = b ++ mnRep l → a = b ∧ k = l
  | 0, 0, h => by simpa [mnRep] using h
  | 0, l + 1, h => by
    rw [append_mnRep_succ] at h
    simp only [mnRep, String.append_empty] at h
    exact absurd h (ha _)
  | k + 1, 0, h => by
    rw [append_mnRep_succ] at h
    simp only [mnRep, String.append_empty] at h
    exact absurd h.symm (hb _)
  | k + 1, l + 1, h => by
    rw [append_mnRep_succ, append_mnRep_succ] at h
    have := mnRep_unique ha hb k l ((String.append_left_inj _).1 h)
    exact ⟨this.1, by rw [this.2]⟩

/-- a finite renaming table: both columns avoid the `|matchnull` suffix, and it is a bijection
    between its columns -/
structure PairsOK (pairs : List (String × String)) : Prop where
  left : ∀ p ∈ pairs, NoMN p.1
  right : ∀ p ∈ pairs, NoMN p.2
  func : ∀ p ∈ pairs, ∀ q ∈ pairs, p.1 = q.1 → p.2 = q.2
  inj : ∀ p ∈ pairs, ∀ q ∈ pairs, p.2 = q.2 → p.1 = q.1

def pairsS (pairs : List (String × String)) (s : String) : Prop :=
  ∃ p ∈ pairs, ∃ k, s = p.1 ++ mnRep k

open Classical in
/-- the renaming a table induces: `a ++ |matchnull^k ↦ b ++ |matchnull^k` for `(a, b)` in it -/
noncomputable def pairsRen (pairs : List (String × String)) (s : String) : String :=
  if h : ∃ p : String × String, p ∈ pairs ∧ ∃ k, s = p.1 ++ mnRep k then
    (Classical.choose h).2 ++ mnRep (Classical.choose (Classical.choose_spec h).2)
  else s

theorem pairsRen_spec {pairs : List (String × String)} (hp : PairsOK pairs) (p : String × String)
    (hm : p ∈ pairs) (k : Nat) : pairsRen pairs (p.1 ++ mnRep k) = p.2 ++ mnRep k := by
  unfold pairsRen
  have h : ∃ q : String × String, q ∈ pairs ∧ ∃ l, p.1 ++ mnRep k = q.1 ++ mnRep l := ⟨p, hm, k, rfl⟩
  rw [dif_pos h]
  have h1 := (Classical.choose_spec h).1
  have h2 := Classical.choose_spec (Classical.choose_spec h).2
  have := mnRep_unique (hp.left p hm) (hp.left _ h1) _ _ h2
  rw [← this.2, hp.func p hm _ h1 this.1]

theorem pairsRen_base {pairs : List (String × String)} (hp : PairsOK pairs) (p : String × String)
    (hm : p ∈ pairs) : pairsRen pairs p.1 = p.2 := by
  have := pairsRen_spec hp p hm 0
  simpa [mnRep] using this

theorem pairsS_base {pairs : List (String × String)} (p : String × String) (hm : p ∈ pairs) :
    pairsS pairs p.1 := ⟨p, hm, 0, by simp [mnRep]⟩

theorem renOK_pairs {pairs : List (String × String)} (hp : PairsOK pairs) :
    RenOK (pairsRen pairs) (pairsS pairs) where
  inj := by
    rintro a b ⟨p, hp1, k, rfl⟩ ⟨q, hq1, l, rfl⟩ h
    rw [pairsRen_spec hp p hp1, pairsRen_spec hp q hq1] at h
    have := mnRep_unique (hp.right p hp1) (hp.right q hq1) _ _ h
    rw [hp.inj p hp1 q hq1 this.1, this.2]
  closed := by
    rintro s ⟨p, hp1, k, rfl⟩
    exact ⟨p, hp1, k + 1, (append_mnRep_succ _ _).symm⟩
  comm := by
    rintro s ⟨p, hp1, k, rfl⟩
    rw [← append_mnRep_succ, pairsRen_spec hp p hp1, pairsRen_spec hp p hp1, append_mnRep_succ]

/-- ids made by the loader end in `|doc0`, not in `|matchnull` -/
theorem noMN_doc0 (s : String) : NoMN (s ++ "|doc" ++ toString 0) := by
  intro t h
  have h2 := congrArg (fun x => x.toList.getLast?) h
  simp only [String.toList_append] at h2
  have e1 : (toString 0 : String).toList = ['0'] := by decide
  have e2 : "|matchnull".toList = ['|', 'm', 'a', 't', 'c', 'h', 'n', 'u', 'l', 'l'] := by decide
  rw [e1, e2] at h2
  simp at h2


/-! ## chains of one-document files, whatever rule links them -/

theorem mineOf_single (fid : String) (path : Comps) (w : Val) (parents : List Comps)
    (files : List LFile) :
    mineOf fid path [w] parents files =
      { id := fid, path := path,
        docs := [oneDoc fid ((files.filter (fun f => parents.any fun p =>
          f.id == fid ++ "|" ++ pathStr p)).flatMap (fun f => f.docs.map (·.id))) (stripParent w)] } := by
  simp [mineOf, docIdsOf, oneDoc, List.range_succ]

section gen
variable {fs : FS} {cfg : RootCfg} {q₁ q₂ q₃ : Comps} {w₁ w₂ w₃ : Val}

theorem lfp_gen1 (hl₁ : ∀ fid, loadFile fs cfg q₁ fid = .ok [w₁])
    (hp₁ : fileParents fs cfg q₁ [w₁] = .ok [])
    (fuel : Nat) (c : Option String) (ids : List String) (chain : List Comps)
    (hc₁ : chain.contains q₁ = false) :
    loadFileAndParents fs cfg (fuel + 1) q₁ c ids chain =
      .ok ([{ id := fileIdOf c q₁, path := q₁, docs := [oneDoc (fileIdOf c q₁) [] (stripParent w₁)] }],
        [fileIdOf c q₁ ++ "|doc" ++ toString 0]) := by
  rw [lfp_leaf hc₁ (hl₁ _) hp₁, mineOf_single]
  simp [docIdsOf, List.range_succ]

theorem lfp_gen2 (hl₁ : ∀ fid, loadFile fs cfg q₁ fid = .ok [w₁])
    (hl₂ : ∀ fid, loadFile fs cfg q₂ fid = .ok [w₂])
    (hp₁ : fileParents fs cfg q₁ [w₁] = .ok []) (hp₂ : fileParents fs cfg q₂ [w₂] = .ok [q₁])
    (h₁₂ : q₁ ≠ q₂)
    (fuel : Nat) (c : Option String) (ids : List String) (chain : List Comps)
    (hc₂ : chain.contains q₂ = false) (hc₁ : chain.contains q₁ = false) :
    loadFileAndParents fs cfg (fuel + 2) q₂ c ids chain =
      .ok ([{ id := fileIdOf c q₂ ++ "|" ++ pathStr q₁, path := q₁,
              docs := [oneDoc (fileIdOf c q₂ ++ "|" ++ pathStr q₁) [] (stripParent w₁)] },
            { id := fileIdOf c q₂, path := q₂,
              docs := [oneDoc (fileIdOf c q₂)
                [fileIdOf c q₂ ++ "|" ++ pathStr q₁ ++ "|doc" ++ toString 0] (stripParent w₂)] }],
        [fileIdOf c q₂ ++ "|doc" ++ toString 0]) := by
  have hq := lfp_gen1 hl₁ hp₁ fuel (some (fileIdOf c q₂)) (docIdsOf (fileIdOf c q₂) [w₂].length)
    (q₂ :: chain) (contains_cons_layer _ _ _ (beq_eq_false_iff_ne.2 h₁₂) hc₁)
  rw [lfp_single hc₂ (hl₂ _) hp₂ hq, mineOf_single]
  simp [docIdsOf, List.range_succ, fileIdOf, oneDoc]

theorem lfp_gen3 (hl₁ : ∀ fid, loadFile fs cfg q₁ fid = .ok [w₁])
    (hl₂ : ∀ fid, loadFile fs cfg q₂ fid = .ok [w₂])
    (hl₃ : ∀ fid, loadFile fs cfg q₃ fid = .ok [w₃])
    (hp₁ : fileParents fs cfg q₁ [w₁] = .ok []) (hp₂ : fileParents fs cfg q₂ [w₂] = .ok [q₁])
    (hp₃ : fileParents fs cfg q₃ [w₃] = .ok [q₂])
    (h₁₂ : q₁ ≠ q₂) (h₁₃ : q₁ ≠ q₃) (h₂₃ : q₂ ≠ q₃)
    (fuel : Nat) (c : Option String) (ids : List String) (chain : List Comps)
    (hc₃ : chain.contains q₃ = false) (hc₂ : chain.contains q₂ = false)
    (hc₁ : chain.contains q₁ = false) :
    loadFileAndParents fs cfg (fuel + 3) q₃ c ids chain =
      .ok ([{ id := fileIdOf c q₃ ++ "|" ++ pathStr q₂ ++ "|" ++ pathStr q₁, path := q₁,
              docs := [oneDoc (fileIdOf c q₃ ++ "|" ++ pathStr q₂ ++ "|" ++ pathStr q₁) []
                (stripParent w₁)] },
            { id := fileIdOf c q₃ ++ "|" ++ pathStr q₂, path := q₂,
              docs := [oneDoc (fileIdOf c q₃ ++ "|" ++ pathStr q₂)
                [fileIdOf c q₃ ++ "|" ++ pathStr q₂ ++ "|" ++ pathStr q₁ ++ "|doc" ++ toString 0]
                (stripParent w₂)] },
            { id := fileIdOf c q₃, path := q₃,
              docs := [oneDoc (fileIdOf c q₃)
                [fileIdOf c q₃ ++ "|" ++ pathStr q₂ ++ "|doc" ++ toString 0] (stripParent w₃)] }],
        [fileIdOf c q₃ ++ "|doc" ++ toString 0]) := by
  have hq := lfp_gen2 hl₁ hl₂ hp₁ hp₂ h₁₂ fuel (some (fileIdOf c q₃))
    (docIdsOf (fileIdOf c q₃) [w₃].length) (q₃ :: chain)
    (contains_cons_layer _ _ _ (beq_eq_false_iff_ne.2 h₂₃) hc₂)
    (contains_cons_layer _ _ _ (beq_eq_false_iff_ne.2 h₁₃) hc₁)
  rw [lfp_single hc₃ (hl₃ _) hp₃ hq, mineOf_single]
  simp [docIdsOf, List.range_succ, fileIdOf, oneDoc, append_bar_ne_self]
end gen

/-! ## two three-file (two-file) chains with the same contents merge alike -/

/-- what loading a chain of three one-document files returns (top file `q₃`) -/
def chain3Files (q₁ q₂ q₃ : Comps) (u₁ u₂ u₃ : Val) : List LFile :=
  [{ id := pathStr q₃ ++ "|" ++ pathStr q₂ ++ "|" ++ pathStr q₁, path := q₁,
     docs := [oneDoc (pathStr q₃ ++ "|" ++ pathStr q₂ ++ "|" ++ pathStr q₁) [] u₁] },
   { id := pathStr q₃ ++ "|" ++ pathStr q₂, path := q₂,
     docs := [oneDoc (pathStr q₃ ++ "|" ++ pathStr q₂)
       [pathStr q₃ ++ "|" ++ pathStr q₂ ++ "|" ++ pathStr q₁ ++ "|doc" ++ toString 0] u₂] },
   { id := pathStr q₃, path := q₃,
     docs := [oneDoc (pathStr q₃) [pathStr q₃ ++ "|" ++ pathStr q₂ ++ "|doc" ++ toString 0] u₃] }]

def chain2Files (q₁ q₂ : Comps) (u₁ u₂ : Val) : List LFile :=
  [{ id := pathStr q₂ ++ "|" ++ pathStr q₁, path := q₁,
     docs := [oneDoc (pathStr q₂ ++ "|" ++ pathStr q₁) [] u₁] },
   { id := pathStr q₂, path := q₂,
     docs := [oneDoc (pathStr q₂) [pathStr q₂ ++ "|" ++ pathStr q₁ ++ "|doc" ++ toString 0] u₂] }]

theorem doc0_ne_of_length {a b : String} (h : a.length ≠ b.length) :
    a ++ "|doc" ++ toString 0 ≠ b ++ "|doc" ++ toString 0 := by
  intro e
  have := congrArg String.length e
  simp only [String.length_append] at this
  omega

theorem bar_length (s t : String) : (s ++ "|" ++ t).length = s.length + 1 + t.length := by
  rw [String.length_append, String.length_append]
  have : "|".length = 1 := by decide
  omega

/-- the renaming table between the document ids of two three-file chains -/
def pairs3 (a₃ a₂ a₁ b₃ b₂ b₁ : String) : List (String × String) :=
  [(a₃ ++ "|" ++ a₂ ++ "|" ++ a₁ ++ "|doc" ++ toString 0, b₃ ++ "|" ++ b₂ ++ "|" ++ b₁ ++ "|doc" ++ toString 0),
   (a₃ ++ "|" ++ a₂ ++ "|doc" ++ toString 0, b₃ ++ "|" ++ b₂ ++ "|doc" ++ toString 0),
   (a₃ ++ "|doc" ++ toString 0, b₃ ++ "|doc" ++ toString 0)]

theorem pairs3_ok (a₃ a₂ a₁ b₃ b₂ b₁ : String) : PairsOK (pairs3 a₃ a₂ a₁ b₃ b₂ b₁) := by
  have la1 := bar_length (a₃ ++ "|" ++ a₂) a₁
  have la2 := bar_length a₃ a₂
  have lb1 := bar_length (b₃ ++ "|" ++ b₂) b₁
  have lb2 := bar_length b₃ b₂
  refine ⟨?_, ?_, ?_, ?_⟩
  · intro p hp
    simp only [pairs3, List.mem_cons, List.not_mem_nil, or_false] at hp
    rcases hp with rfl | rfl | rfl <;> exact noMN_doc0 _
  · intro p hp
    simp only [pairs3, List.mem_cons, List.not_mem_nil, or_false] at hp
    rcases hp with rfl | rfl | rfl <;> exact noMN_doc0 _
  · intro p hp q hq
    simp only [pairs3, List.mem_cons, List.not_mem_nil, or_false] at hp hq
    rcases hp with rfl | rfl | rfl <;> rcases hq with rfl | rfl | rfl <;> intro h <;>
      first
        | rfl
        | exact absurd h (doc0_ne_of_length (by omega))
  · intro p hp q hq
    simp only [pairs3, List.mem_cons, List.not_mem_nil, or_false] at hp hq
    rcases hp with rfl | rfl | rfl <;> rcases hq with rfl | rfl | rfl <;> intro h <;>
      first
        | rfl
        | exact absurd h (doc0_ne_of_length (by omega))

/-- two chains of three one-document files with the same contents: merging the second gives
    the state of merging the first with its document ids renamed -/
theorem chain3_merge_equiv (q₁ q₂ q₃ r₁ r₂ r₃ : Comps) (u₁ u₂ u₃ : Val) :
    ∃ ρ S, RenOK ρ S ∧
      mergeFiles PState.empty (chain3Files r₁ r₂ r₃ u₁ u₂ u₃) =
        rmap (renState ρ) (mergeFiles PState.empty (chain3Files q₁ q₂ q₃ u₁ u₂ u₃)) := by
  have hp := pairs3_ok (pathStr q₃) (pathStr q₂) (pathStr q₁) (pathStr r₃) (pathStr r₂) (pathStr r₁)
  refine ⟨_, _, renOK_pairs hp, ?_⟩
  have m1 : (pathStr q₃ ++ "|" ++ pathStr q₂ ++ "|" ++ pathStr q₁ ++ "|doc" ++ toString 0,
      pathStr r₃ ++ "|" ++ pathStr r₂ ++ "|" ++ pathStr r₁ ++ "|doc" ++ toString 0) ∈
      pairs3 (pathStr q₃) (pathStr q₂) (pathStr q₁) (pathStr r₃) (pathStr r₂) (pathStr r₁) := by
    simp [pairs3]
  have m2 : (pathStr q₃ ++ "|" ++ pathStr q₂ ++ "|doc" ++ toString 0,
      pathStr r₃ ++ "|" ++ pathStr r₂ ++ "|doc" ++ toString 0) ∈
      pairs3 (pathStr q₃) (pathStr q₂) (pathStr q₁) (pathStr r₃) (pathStr r₂) (pathStr r₁) := by
    simp [pairs3]
  have m3 : (pathStr q₃ ++ "|doc" ++ toString 0, pathStr r₃ ++ "|doc" ++ toString 0) ∈
      pairs3 (pathStr q₃) (pathStr q₂) (pathStr q₁) (pathStr r₃) (pathStr r₂) (pathStr r₁) := by
    simp [pairs3]
  apply mergeFiles_ren (renOK_pairs hp)
  · intro f hf d hd
    simp only [chain3Files, List.mem_cons, List.not_mem_nil, or_false] at hf
    rcases hf with rfl | rfl | rfl
    · have : d = _ := List.mem_singleton.1 hd
      subst this
      exact ⟨pairsS_base _ m1, fun p h => nomatch h⟩
    · have : d = _ := List.mem_singleton.1 hd
      subst this
      refine ⟨pairsS_base _ m2, ?_⟩
      intro p h
      have : p = _ := List.mem_singleton.1 h
      subst this
      exact pairsS_base _ m1
    · have : d = _ := List.mem_singleton.1 hd
      subst this
      refine ⟨pairsS_base _ m3, ?_⟩
      intro p h
      have : p = _ := List.mem_singleton.1 h
      subst this
      exact pairsS_base _ m2
  · have e1 := pairsRen_base hp _ m1
    have e2 := pairsRen_base hp _ m2
    have e3 := pairsRen_base hp _ m3
    simp only at e1 e2 e3
    simp only [chain3Files, List.map_cons, List.map_nil, renDoc, oneDoc, e1, e2, e3]

def pairs2 (a₂ a₁ b₂ b₁ : String) : List (String × String) :=
  [(a₂ ++ "|" ++ a₁ ++ "|doc" ++ toString 0, b₂ ++ "|" ++ b₁ ++ "|doc" ++ toString 0),
   (a₂ ++ "|doc" ++ toString 0, b₂ ++ "|doc" ++ toString 0)]

theorem pairs2_ok (a₂ a₁ b₂ b₁ : String) : PairsOK (pairs2 a₂ a₁ b₂ b₁) := by
  have la2 := bar_length a₂ a₁
  have lb2 := bar_length b₂ b₁
  refine ⟨?_, ?_, ?_, ?_⟩
  · intro p hp
    simp only [pairs2, List.mem_cons, List.not_mem_nil, or_false] at hp
    rcases hp with rfl | rfl <;> exact noMN_doc0 _
  · intro p hp
    simp only [pairs2, List.mem_cons, List.not_mem_nil, or_false] at hp
    rcases hp with rfl | rfl <;> exact noMN_doc0 _
  · intro p hp q hq
    simp only [pairs2, List.mem_cons, List.not_mem_nil, or_false] at hp hq
    rcases hp with rfl | rfl <;> rcases hq with rfl | rfl <;> intro h <;>
      first
        | rfl
        | exact absurd h (doc0_ne_of_length (by omega))
  · intro p hp q hq
    simp only [pairs2, List.mem_cons, List.not_mem_nil, or_false] at hp hq
    rcases hp with rfl | rfl <;> rcases hq with rfl | rfl <;> intro h <;>
      first
        | rfl
        | exact absurd h (doc0_ne_of_length (by omega))

theorem chain2_merge_equiv (q₁ q₂ r₁ r₂ : Comps) (u₁ u₂ : Val) :
    ∃ ρ S, RenOK ρ S ∧
      mergeFiles PState.empty (chain2Files r₁ r₂ u₁ u₂) =
        rmap (renState ρ) (mergeFiles PState.empty (chain2Files q₁ q₂ u₁ u₂)) := by
  have hp := pairs2_ok (pathStr q₂) (pathStr q₁) (pathStr r₂) (pathStr r₁)
  refine ⟨_, _, renOK_pairs hp, ?_⟩
  have m1 : (pathStr q₂ ++ "|" ++ pathStr q₁ ++ "|doc" ++ toString 0,
      pathStr r₂ ++ "|" ++ pathStr r₁ ++ "|doc" ++ toString 0) ∈
      pairs2 (pathStr q₂) (pathStr q₁) (pathStr r₂) (pathStr r₁) := by
    simp [pairs2]
  have m2 : (pathStr q₂ ++ "|doc" ++ toString 0, pathStr r₂ ++ "|doc" ++ toString 0) ∈
      pairs2 (pathStr q₂) (pathStr q₁) (pathStr r₂) (pathStr r₁) := by
    simp [pairs2]
  apply mergeFiles_ren (renOK_pairs hp)
  · intro f hf d hd
    simp only [chain2Files, List.mem_cons, List.not_mem_nil, or_false] at hf
    rcases hf with rfl | rfl
    · have : d = _ := List.mem_singleton.1 hd
      subst this
      exact ⟨pairsS_base _ m1, fun p h => nomatch h⟩
    · have : d = _ := List.mem_singleton.1 hd
      subst this
      refine ⟨pairsS_base _ m2, ?_⟩
      intro p h
      have : p = _ := List.mem_singleton.1 h
      subst this
      exact pairsS_base _ m1
  · have e1 := pairsRen_base hp _ m1
    have e2 := pairsRen_base hp _ m2
    simp only at e1 e2
    simp only [chain2Files, List.map_cons, List.map_nil, renDoc, oneDoc, e1, e2]

/-! ## consequences of "same state up to a renaming of ids" -/

theorem rmap_data_ren {ρ : String → String} (r : R PState) :
    rmap (fun st => st.docs.map (·.2)) (rmap (renState ρ) r) = rmap (fun st => st.docs.map (·.2)) r := by
  cases r with
  | error e => rfl
  | ok st => simp only [rmap, renState_data]

theorem bind_output_ren {ρ : String → String} (r : R PState) (env : Vars) :
    (rmap (renState ρ) r >>= fun st => outputDocuments (st.docs.map (·.2)) env) =
      (r >>= fun st => outputDocuments (st.docs.map (·.2)) env) := by
  cases r with
  | error e => rfl
  | ok st =>
    show outputDocuments ((renState ρ st).docs.map (·.2)) env = outputDocuments (st.docs.map (·.2)) env
    rw [renState_data]

/-! ## `$parent` as a directive -/

theorem parentDirective_stripParent (w : Val) : parentDirective (stripParent w) = .ok .absent := by
  cases w with
  | map kvs =>
    unfold stripParent
    by_cases h : fhas kvs "$parent" = true
    · simp only [h, if_true]
      rw [parentDirective_map, fget_fdel_same]
    · simp only [h, Bool.false_eq_true, if_false]
      rw [parentDirective_map, fhas_eq_false_iff.1 (by simpa using h)]
  | _ => rfl

theorem stripParent_idem (w : Val) : stripParent (stripParent w) = stripParent w :=
  stripParent_of_absent _ (parentDirective_stripParent w)

/-- one document whose `$parent` is the name `n`, which stands for exactly the file `q'` -/
theorem fileParents_str_single (fs : FS) (cfg : RootCfg) (path q' : Comps) (kvs : Fields) (n : String)
    (h : fget kvs "$parent" = some (.str n)) (hg : globName fs cfg path n = [q']) :
    fileParents fs cfg path [.map kvs] = .ok [q'] := by
  have hd : [Val.map kvs].mapM parentDirective = .ok [.names [n]] := by
    rw [mapM_R_cons, mapM_R_nil, parentDirective_map, h]
  rw [fileParents_eq, hd]
  have h2 : hasNoParent [.names [n]] = false := rfl
  have h3 : parentNames [.names [n]] = [n] := rfl
  simp only [h2, h3]
  simp [globStep, hg]

theorem intercalate_splitOn_dot (s : String) : ".".intercalate (s.splitOn ".") = s := by
  apply String.toList_inj.1
  rw [String.toList_intercalate, splitOn_dot, List.map_map]
  have h1 : (String.toList ∘ String.ofList) = id := by funext l; simp
  have h2 : ".".toList = ['.'] := by decide
  rw [h1, List.map_id, h2]
  exact List.intercalate_splitOn (xs := s.toList) '.'

/-- a dotted name `l₀.b` (`b` without dots): its parent layer is `l₀` -/
theorem parent_layer_snoc (l₀ b : String) (hb : '.' ∉ b.toList) :
    ((l₀ ++ "." ++ b).splitOn ".").length ≠ 1 ∧
      ".".intercalate ((l₀ ++ "." ++ b).splitOn ".").dropLast = l₀ := by
  rw [splitOn_dot_snoc l₀ b hb, List.dropLast_concat, intercalate_splitOn_dot]
  refine ⟨?_, rfl⟩
  have := List.length_pos_iff.2 (splitOn_dot_ne_nil l₀)
  simp only [List.length_append, List.length_cons, List.length_nil]
  omega

/-! ## sample chains -/

theorem chainFilesOK_nil (fs : FS) (d : Comps) (pre : List String) : ChainFilesOK fs d pre [] := by
  intro P x h
  have := List.prefix_nil.1 h
  simp at this

theorem chainFilesOK_snoc {fs : FS} {d : Comps} {pre : List String} {L : List CLayer} {x : CLayer}
    (h : ChainFilesOK fs d pre L)
    (hx : LayerFile fs d (layerName (pre ++ (L ++ [x]).map (·.name))) x.ext (.ok x.docs))
    (hv : ∀ v ∈ x.docs, parentDirective v = .ok .absent) : ChainFilesOK fs d pre (L ++ [x]) := by
  intro P y hp
  rcases List.prefix_concat_iff.1 hp with e | hp'
  · obtain ⟨rfl, e2⟩ := List.append_inj' e rfl
    cases e2
    exact ⟨hx, hv⟩
  · exact h P y hp'

def exChain : List CLayer :=
  [⟨"a", "yaml", [.map [("x", .int 1)]]⟩, ⟨"b", "json", [.map [("y", .int 2)]]⟩,
   ⟨"c", "toml", [.map [("z", .int 3)]]⟩]

theorem exChain_ok : ChainFilesOK chainFS ["w"] [] exChain := by
  have h0 := chainFilesOK_nil chainFS ["w"] []
  have h1 := chainFilesOK_snoc (x := ⟨"a", "yaml", [.map [("x", .int 1)]]⟩) h0
    (by rw [show layerName _ = "a" by decide]; exact chainFS_a)
    (by intro v hv; have : v = _ := List.mem_singleton.1 hv
        subst this; rfl)
  have h2 := chainFilesOK_snoc (x := ⟨"b", "json", [.map [("y", .int 2)]]⟩) h1
    (by rw [show layerName _ = "a.b" by decide]; exact chainFS_ab)
    (by intro v hv; have : v = _ := List.mem_singleton.1 hv
        subst this; rfl)
  exact chainFilesOK_snoc (x := ⟨"c", "toml", [.map [("z", .int 3)]]⟩) h2
    (by rw [show layerName _ = "a.b.c" by decide]; exact chainFS_abc)
    (by intro v hv; have : v = _ := List.mem_singleton.1 hv
        subst this; rfl)

theorem exChain_plain : ∀ y ∈ exChain, PlainName y.name := by
  intro y hy
  simp only [exChain, List.mem_cons, List.not_mem_nil, or_false] at hy
  rcases hy with rfl | rfl | rfl <;> exact ⟨by decide, by decide⟩


/-! ## sample: a `$parent` list with a dangling entry -/

/-- sample: `/w/top.yaml` has `$parent: [a, nope, a]`; `/w/a.yaml` exists, no `/w/nope.*` -/
def danglingFS : FS := ⟨[
  (["w"], .dir),
  (["w", "a.yaml"], .file (.ok [.map [("x", .int 1)]])),
  (["w", "top.yaml"], .file (.ok [.map [("$parent", .list [.str "a", .str "nope", .str "a"]), ("y", .int 2)]]))]⟩

theorem danglingFS_glob_a :
    globName danglingFS ⟨[], []⟩ ["w", "top.yaml"] "a" = [["w", "a.yaml"]] := by
  unfold globName
  rw [splitPath_lit "a" ["a"] (by decide)]
  have : cleanComps (dirOf ["w", "top.yaml"] ++ ["a"]) = ["w"] ++ ["a"] := by decide
  rw [this]
  have h2 : globNames danglingFS ["w"] "a" = ["a.yaml"] := by
    simp only [globNames, extOf_eq]; decide
  exact globFiles_singleton_noroot (d := ["w"]) (real := ["w"]) (by decide) (by decide) (by decide)
    (by decide) h2

theorem danglingFS_glob_nope : globName danglingFS ⟨[], []⟩ ["w", "top.yaml"] "nope" = [] := by
  unfold globName
  rw [splitPath_lit "nope" ["nope"] (by decide)]
  have : cleanComps (dirOf ["w", "top.yaml"] ++ ["nope"]) = ["w"] ++ ["nope"] := by decide
  rw [this]
  have h2 : globNames danglingFS ["w"] "nope" = [] := by
    simp only [globNames, extOf_eq]; decide
  exact globFiles_nil_noroot (d := ["w"]) (real := ["w"]) (by decide) (by decide) (by decide)
    (by decide) h2


/-! ## sample: symlinked layers -/

/-- sample: `/w/p.q.yaml -> a.yaml` (its own name would need the missing layer `p`),
    `/w/x.y.z.yaml -> a.b.json` (its own name would need the missing layer `x.y`) -/
def symFS : FS := ⟨[
  (["w"], .dir),
  (["w", "a.yaml"], .file (.ok [.map [("x", .int 1)]])),
  (["w", "a.b.json"], .file (.ok [.map [("y", .int 2)]])),
  (["w", "p.q.yaml"], .link "a.yaml"),
  (["w", "x.y.z.yaml"], .link "a.b.json")]⟩

theorem symFS_plain : PlainDir symFS ["w"] :=
  plainDir_single (n := .dir) (by decide) (by decide) rfl

theorem symFS_a : LayerFile symFS ["w"] "a" "yaml" (.ok [.map [("x", .int 1)]]) :=
  layerFile_of_decide (by decide) (by decide) (fun _ => by decide) (fun _ => by decide)
    (fun _ => by decide) (fun _ => by decide) (fun h => absurd rfl h) (fun _ => by decide)


/-! ## helpers for the `$parent` / filename equivalence -/

theorem layerFile_path_ne {fs : FS} {d : Comps} {l l' e e' : String} {c c' : R (List Val)}
    (h : LayerFile fs d l e c) (h' : LayerFile fs d l' e' c') (hne : c ≠ c') :
    d ++ [l ++ "." ++ e] ≠ d ++ [l' ++ "." ++ e'] := by
  intro e
  have := h.file
  rw [e, h'.file] at this
  injection this with this
  injection this with this
  exact hne this.symm

theorem absent_ne_str {v : Val} {k : Fields} {n : String} (a : parentDirective v = .ok .absent)
    (p : fget k "$parent" = some (.str n)) : (Except.ok [v] : R (List Val)) ≠ .ok [.map k] := by
  intro e
  injection e with e
  injection e with e
  subst e
  rw [parentDirective_map, p] at a
  cases a

/-- what the two loads and merges of an equivalence theorem have in common -/
theorem layers_equiv_of_files {fs : FS} {cfgA cfgB : RootCfg} {pA pB : Comps}
    {filesA filesB : List LFile} {idsA idsB : List String}
    (hA : loadFileAndParents fs cfgA loadFuel pA none [] [] = .ok (filesA, idsA))
    (hB : loadFileAndParents fs cfgB loadFuel pB none [] [] = .ok (filesB, idsB))
    (hm : ∃ ρ S, RenOK ρ S ∧
      mergeFiles PState.empty filesB = rmap (renState ρ) (mergeFiles PState.empty filesA)) :
    (∃ ρ S, RenOK ρ S ∧ mergeFileLayers fs cfgB PState.empty pB =
      rmap (renState ρ) (mergeFileLayers fs cfgA PState.empty pA)) ∧
    rmap (fun st => st.docs.map (·.2)) (mergeFileLayers fs cfgB PState.empty pB) =
      rmap (fun st => st.docs.map (·.2)) (mergeFileLayers fs cfgA PState.empty pA) ∧
    ∀ env, (mergeFileLayers fs cfgB PState.empty pB >>= fun st => outputDocuments (st.docs.map (·.2)) env) =
      (mergeFileLayers fs cfgA PState.empty pA >>= fun st => outputDocuments (st.docs.map (·.2)) env) := by
  obtain ⟨ρ, S, hr, hm⟩ := hm
  have e : mergeFileLayers fs cfgB PState.empty pB =
      rmap (renState ρ) (mergeFileLayers fs cfgA PState.empty pA) := by
    rw [mergeFileLayers_eq, mergeFileLayers_eq, hA, hB]
    exact hm
  refine ⟨⟨ρ, S, hr, e⟩, ?_, ?_⟩
  · rw [e, rmap_data_ren]
  · intro env
    rw [e, bind_output_ren]

/-- sample: the filename chain `/w/a.yaml`, `/w/a.b.json`, `/w/a.b.c.toml` and the same
    documents under `/v/base.yaml`, `/v/mid.yaml` (`$parent: base`), `/v/top.json` (`$parent: mid`) -/
def dirFS : FS := ⟨[
  (["w"], .dir), (["v"], .dir),
  (["w", "a.yaml"], .file (.ok [.map [("x", .int 1)]])),
  (["w", "a.b.json"], .file (.ok [.map [("y", .int 2)]])),
  (["w", "a.b.c.toml"], .file (.ok [.map [("z", .int 3)]])),
  (["v", "base.yaml"], .file (.ok [.map [("x", .int 1)]])),
  (["v", "mid.yaml"], .file (.ok [.map [("$parent", .str "base"), ("y", .int 2)]])),
  (["v", "top.json"], .file (.ok [.map [("$parent", .str "mid"), ("z", .int 3)]]))]⟩

theorem dirFS_w : PlainDir dirFS ["w"] := plainDir_single (n := .dir) (by decide) (by decide) rfl
theorem dirFS_v : PlainDir dirFS ["v"] := plainDir_single (n := .dir) (by decide) (by decide) rfl

theorem dirFS_a : LayerFile dirFS ["w"] "a" "yaml" (.ok [.map [("x", .int 1)]]) :=
  layerFile_of_decide (by decide) (by decide) (fun _ => by decide) (fun _ => by decide)
    (fun _ => by decide) (fun _ => by decide) (fun h => absurd rfl h) (fun _ => by decide)
theorem dirFS_ab : LayerFile dirFS ["w"] "a.b" "json"
    (.ok [stripParent (.map [("$parent", .str "base"), ("y", .int 2)])]) :=
  layerFile_of_decide (by decide) (by decide) (fun h => absurd rfl h) (fun _ => by decide)
    (fun _ => by decide) (fun _ => by decide) (fun _ => by decide) (fun _ => by decide)
theorem dirFS_abc : LayerFile dirFS ["w"] "a.b.c" "toml"
    (.ok [stripParent (.map [("$parent", .str "mid"), ("z", .int 3)])]) :=
  layerFile_of_decide (by decide) (by decide) (fun _ => by decide) (fun _ => by decide)
    (fun _ => by decide) (fun h => absurd rfl h) (fun _ => by decide) (fun _ => by decide)
theorem dirFS_base : LayerFile dirFS ["v"] "base" "yaml" (.ok [.map [("x", .int 1)]]) :=
  layerFile_of_decide (by decide) (by decide) (fun _ => by decide) (fun _ => by decide)
    (fun _ => by decide) (fun _ => by decide) (fun h => absurd rfl h) (fun _ => by decide)
theorem dirFS_mid : LayerFile dirFS ["v"] "mid" "yaml"
    (.ok [.map [("$parent", .str "base"), ("y", .int 2)]]) :=
  layerFile_of_decide (by decide) (by decide) (fun _ => by decide) (fun _ => by decide)
    (fun _ => by decide) (fun _ => by decide) (fun h => absurd rfl h) (fun _ => by decide)
theorem dirFS_top : LayerFile dirFS ["v"] "top" "json"
    (.ok [.map [("$parent", .str "mid"), ("z", .int 3)]]) :=
  layerFile_of_decide (by decide) (by decide) (fun h => absurd rfl h) (fun _ => by decide)
    (fun _ => by decide) (fun _ => by decide) (fun _ => by decide) (fun _ => by decide)

theorem dirFS_glob_base :
    globName dirFS ⟨[], []⟩ (["v"] ++ ["mid" ++ "." ++ "yaml"]) "base" =
      [["v"] ++ ["base" ++ "." ++ "yaml"]] := by
  unfold globName
  rw [splitPath_lit "base" ["base"] (by decide)]
  have : cleanComps (dirOf (["v"] ++ ["mid" ++ "." ++ "yaml"]) ++ ["base"]) = ["v"] ++ ["base"] := by decide
  rw [this]
  have h2 : globNames dirFS ["v"] "base" = ["base.yaml"] := by
    simp only [globNames, extOf_eq]; decide
  exact globFiles_singleton_noroot (d := ["v"]) (real := ["v"]) (by decide) (by decide) (by decide)
    (by decide) h2

theorem dirFS_glob_mid :
    globName dirFS ⟨[], []⟩ (["v"] ++ ["top" ++ "." ++ "json"]) "mid" =
      [["v"] ++ ["mid" ++ "." ++ "yaml"]] := by
  unfold globName
  rw [splitPath_lit "mid" ["mid"] (by decide)]
  have : cleanComps (dirOf (["v"] ++ ["top" ++ "." ++ "json"]) ++ ["mid"]) = ["v"] ++ ["mid"] := by decide
  rw [this]
  have h2 : globNames dirFS ["v"] "mid" = ["mid.yaml"] := by
    simp only [globNames, extOf_eq]; decide
  exact globFiles_singleton_noroot (d := ["v"]) (real := ["v"]) (by decide) (by decide) (by decide)
    (by decide) h2


/-! ## globbing a plain name -/

theorem globMatch_nil_cons (c : Char) (s : List Char) (fuel : Nat) : globMatch [] (c :: s) fuel = false := by
  cases fuel <;> rfl

theorem globMatch_star_all : ∀ (s : List Char) (fuel : Nat), s.length + 1 ≤ fuel →
    globMatch ['*'] s fuel = true
  | [], fuel + 1, _ => by
    rw [globMatch]
    cases fuel <;> rfl
  | c :: s, fuel + 1, h => by
    rw [globMatch]
    rw [globMatch_nil_cons, Bool.false_or]
    exact globMatch_star_all s fuel (by simp at h; omega)

theorem globMatch_lit_nil (c : Char) (ps : List Char) (fuel : Nat) (h1 : c ≠ '*') :
    globMatch (c :: ps) [] fuel = false := by
  unfold globMatch
  split <;> simp_all

theorem globMatch_lit_cons (c c' : Char) (ps s : List Char) (fuel : Nat) (h1 : c ≠ '*')
    (h2 : c ≠ '?') : globMatch (c :: ps) (c' :: s) (fuel + 1) = (c == c' && globMatch ps s fuel) := by
  conv => lhs; unfold globMatch
  split <;> simp_all
  rename_i hh
  exact absurd rfl (hh c ps c' s fuel rfl rfl rfl rfl)

/-- a pattern that starts with literal characters -/
theorem globMatch_lit : ∀ (p rest s : List Char) (fuel : Nat), (∀ c ∈ p, c ≠ '*' ∧ c ≠ '?') →
    p.length ≤ fuel →
    globMatch (p ++ rest) s fuel =
      (decide (p <+: s) && globMatch rest (s.drop p.length) (fuel - p.length))
  | [], rest, s, fuel, _, _ => by simp
  | c :: p, rest, [], fuel, h, _ => by
    rw [List.cons_append, globMatch_lit_nil _ _ _ (h c List.mem_cons_self).1]
    simp
  | c :: p, rest, c' :: s, fuel + 1, h, hl => by
    have hc := h c List.mem_cons_self
    rw [List.cons_append, globMatch_lit_cons _ _ _ _ _ hc.1 hc.2,
      globMatch_lit p rest s fuel (fun x hx => h x (List.mem_cons_of_mem _ hx))
        (by simp at hl; omega)]
    simp only [List.length_cons, List.drop_succ_cons, Nat.add_sub_add_right, List.cons_prefix_cons]
    by_cases e : c = c'
    · subst e; simp
    · simp [e]

theorem globMatch_dotstar (n s : List Char) (fuel : Nat) (hw : ∀ c ∈ n, c ≠ '*' ∧ c ≠ '?')
    (hf : n.length + s.length + 3 ≤ fuel) :
    globMatch (n ++ ['.', '*']) s fuel = decide (n ++ ['.'] <+: s) := by
  have h1 : n ++ ['.', '*'] = (n ++ ['.']) ++ ['*'] := by simp
  rw [h1, globMatch_lit (n ++ ['.']) ['*'] s fuel (by
      intro c hc
      rcases List.mem_append.1 hc with hc | hc
      · exact hw c hc
      · have : c = '.' := by simpa using hc
        subst this; exact ⟨by decide, by decide⟩) (by simp; omega)]
  rw [globMatch_star_all _ _ (by simp; omega), Bool.and_true]

theorem filter_unique {α : Type} (p : α → Bool) (a : α) : ∀ (l : List α), l.Nodup → a ∈ l →
    (∀ x ∈ l, p x = true ↔ x = a) → l.filter p = [a]
  | [], _, h, _ => nomatch h
  | x :: l, hnd, ha, hp => by
    have hnd' := List.nodup_cons.1 hnd
    by_cases hx : x = a
    · subst hx
      have h1 : p x = true := (hp x List.mem_cons_self).2 rfl
      have h2 : l.filter p = [] := by
        rw [List.filter_eq_nil_iff]
        intro y hy hpy
        have := (hp y (List.mem_cons_of_mem _ hy)).1 hpy
        subst this
        exact hnd'.1 hy
      rw [List.filter_cons, h1, if_pos rfl, h2]
    · have h1 : p x = false := by
        cases hpx : p x with
        | false => rfl
        | true => exact absurd ((hp x List.mem_cons_self).1 hpx) hx
      have ha' : a ∈ l := by
        rcases List.mem_cons.1 ha with e | e
        · exact absurd e.symm hx
        · exact e
      rw [List.filter_cons, h1]
      simp only [Bool.false_eq_true, if_false]
      exact filter_unique p a l hnd'.2 ha' (fun y hy => hp y (List.mem_cons_of_mem _ hy))

theorem path_eq_of_dir {q d : Comps} (h1 : q.dropLast = d) (h2 : q ≠ []) : q = d ++ [baseOf q] := by
  have := List.dropLast_concat_getLast h2
  rw [h1] at this
  rw [← this, baseOf_snoc, this]

theorem nodup_dir_names (d : Comps) : ∀ (es : List (Comps × FNode)), (es.map (·.1)).Nodup →
    ((es.filter (fun en => en.1.dropLast == d && !en.1.isEmpty)).map (fun en => baseOf en.1)).Nodup
  | [], _ => List.nodup_nil
  | en :: es, h => by
    rw [List.map_cons] at h
    have h' := List.nodup_cons.1 h
    have ih := nodup_dir_names d es h'.2
    rw [List.filter_cons]
    split
    · rename_i hq
      rw [List.map_cons, List.nodup_cons]
      refine ⟨?_, ih⟩
      intro hm
      obtain ⟨en', hen', hb⟩ := List.mem_map.1 hm
      rw [List.mem_filter] at hen'
      simp only [Bool.and_eq_true, beq_iff_eq, Bool.not_eq_true', List.isEmpty_eq_false_iff] at hq
      have hq' := hen'.2
      simp only [Bool.and_eq_true, beq_iff_eq, Bool.not_eq_true', List.isEmpty_eq_false_iff] at hq'
      have e1 := path_eq_of_dir hq.1 hq.2
      have e2 := path_eq_of_dir hq'.1 hq'.2
      apply h'.1
      rw [e1, ← hb, ← e2]
      exact List.mem_map.2 ⟨en', hen'.1, rfl⟩
    · exact ih

theorem lstat_of_mem {fs : FS} {en : Comps × FNode} (h : en ∈ fs.entries) (hne : en.1 ≠ []) :
    fs.lstat en.1 ≠ none := by
  unfold FS.lstat
  have : en.1.isEmpty = false := by simpa using hne
  rw [this]
  simp only [Bool.false_eq_true, if_false]
  intro e
  rw [Option.map_eq_none_iff, List.find?_eq_none] at e
  exact e en h (by simp)

theorem mem_of_lstat {fs : FS} {q : Comps} {n : FNode} (h : fs.lstat q = some n) (hne : q ≠ []) :
    ∃ en ∈ fs.entries, en.1 = q := by
  unfold FS.lstat at h
  have : q.isEmpty = false := by simpa using hne
  rw [this] at h
  simp only [Bool.false_eq_true, if_false] at h
  cases hf : fs.entries.find? (·.1 == q) with
  | none => rw [hf] at h; cases h
  | some en =>
    exact ⟨en, List.mem_of_find?_eq_some hf, by simpa using List.find?_some hf⟩

theorem countDots_append (a b : String) : countDots (a ++ b) = countDots a + countDots b := by
  simp [countDots, String.toList_append]

theorem countDots_plain (a : String) (h : '.' ∉ a.toList) : countDots a = 0 := by
  unfold countDots
  rw [List.length_eq_zero_iff, List.filter_eq_nil_iff]
  intro c hc hd
  have : c = '.' := by simpa using hd
  subst this
  exact h hc

theorem countDots_zero (a : String) (h : countDots a = 0) : '.' ∉ a.toList := by
  unfold countDots at h
  rw [List.length_eq_zero_iff, List.filter_eq_nil_iff] at h
  intro hm
  exact h '.' hm (by simp)

/-- in a link-free directory with no path listed twice, the plain name `n` (no dots, wildcards
    or slashes) of a layer provided by exactly one file globs to exactly that file -/
theorem globNames_plain {fs : FS} {d : Comps} {n e : String} {content : R (List Val)}
    (hn : PlainName n) (hw : ∀ ch ∈ n.toList, ch ≠ '*' ∧ ch ≠ '?')
    (h : LayerFile fs d n e content) (hnd : (fs.entries.map (·.1)).Nodup) :
    globNames fs d n = [n ++ "." ++ e] := by
  unfold globNames
  have hpat : (n ++ ".*").toList = n.toList ++ ['.', '*'] := by
    rw [String.toList_append]; rfl
  have hplen : (n ++ ".*").length = n.toList.length + 2 := by
    rw [String.length_append, String.length_toList]
    have : ".*".length = 2 := by decide
    omega
  have hdots : countDots (n ++ ".*") = 1 := by
    rw [countDots_append, countDots_plain n hn.2]; decide
  have hed := supportedExt_noDot e h.ext
  apply filter_unique _ _ _ (nodup_dir_names d fs.entries hnd)
  · obtain ⟨en, hen, he⟩ := mem_of_lstat h.file (by simp)
    apply List.mem_map.2
    refine ⟨en, List.mem_filter.2 ⟨hen, ?_⟩, by rw [he, baseOf_snoc]⟩
    rw [he]
    simp
  · intro s hs
    obtain ⟨en, hen, rfl⟩ := List.mem_map.1 hs
    rw [List.mem_filter] at hen
    have hq := hen.2
    simp only [Bool.and_eq_true, beq_iff_eq, Bool.not_eq_true', List.isEmpty_eq_false_iff] at hq
    have hpath := path_eq_of_dir hq.1 hq.2
    rw [hpat, hplen, globMatch_dotstar _ _ _ hw (by
      have := String.length_toList (s := baseOf en.1)
      omega), hdots]
    simp only [Bool.and_eq_true, decide_eq_true_eq, beq_iff_eq]
    constructor
    · rintro ⟨⟨⟨r, hr⟩, hc⟩, hx⟩
      have hs' : baseOf en.1 = n ++ "." ++ String.ofList r := by
        apply String.toList_inj.1
        rw [← hr]
        simp [String.toList_append]
      rw [hs', countDots_append, countDots_append, countDots_plain n hn.2] at hc
      have hrd : '.' ∉ (String.ofList r).toList :=
        countDots_zero _ (by have : countDots "." = 1 := by decide
                             omega)
      rw [hs', extOf_snoc _ _ hrd] at hx
      have hmem : String.ofList r ∈ supportedExts := List.contains_iff_mem.1 hx
      by_cases he : String.ofList r = e
      · rw [hs', he]
      · have := h.unique _ hmem he
        rw [← hs', ← hpath] at this
        exact absurd this (lstat_of_mem hen.1 hq.2)
    · intro hs'
      rw [hs']
      refine ⟨⟨⟨e.toList, by simp [String.toList_append]⟩, ?_⟩, ?_⟩
      · rw [countDots_append, countDots_append, countDots_plain n hn.2, countDots_plain e hed]
        decide
      · rw [extOf_snoc _ _ hed]
        exact supportedExts_contains h.ext

theorem splitPath_plain (n : String) (hne : n ≠ "") (h : '/' ∉ n.toList) : splitPath n = [n] := by
  rw [splitPath_eq]
  have h2 : List.splitOnP (· == '/') n.toList = [n.toList] :=
    List.splitOnP_eq_singleton (fun x hx => by
      have : x ≠ '/' := fun e => h (e ▸ hx)
      simpa using this)
  rw [h2]
  simp [hne]

theorem plainComp_of_plainName {n : String} (hn : PlainName n) : plainComp n = true := by
  rw [plainComp_iff]
  refine ⟨?_, hn.1, ?_⟩
  · intro e; subst e; exact hn.2 (by decide)
  · intro e; subst e; exact hn.2 (by decide)

/-- `$parent: n` next to `d/c`, for such a name `n`, stands for exactly the file of layer `n` -/
theorem globName_plain {fs : FS} {d : Comps} {c n e : String} {content : R (List Val)}
    (cwd : Comps) (hd : PlainDir fs d) (hdir : fs.lstat d = some .dir) (hmeta : d.any hasMeta = false)
    (hn : PlainName n)
    (hw : ∀ ch ∈ n.toList, ch ≠ '*' ∧ ch ≠ '?' ∧ ch ≠ '/')
    (h : LayerFile fs d n e content) (hnd : (fs.entries.map (·.1)).Nodup) :
    globName fs ⟨[], cwd⟩ (d ++ [c]) n = [d ++ [n ++ "." ++ e]] := by
  unfold globName
  rw [dirOf_snoc, splitPath_plain n hn.1 (fun hm => (hw _ hm).2.2 rfl),
    cleanComps_of_plain (d ++ [n]) (by
      intro x hx
      rcases List.mem_append.1 hx with hx | hx
      · exact hd.1.1 x hx
      · have : x = n := by simpa using hx
        subst this; exact plainComp_of_plainName hn)]
  exact globFiles_singleton_noroot hd.1.1 hmeta (rootWalk_plainDir hd) hdir
    (globNames_plain hn (fun ch hc => ⟨(hw ch hc).1, (hw ch hc).2.1⟩) h hnd)
end Bkl
