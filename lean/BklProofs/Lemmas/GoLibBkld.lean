/-
  Lemmas for the translation-equivalence theorems of cmd/bkld/diff.go (BklProofs/Facts/TransBkld.lean):
  * generic facts about `Go.forRange` (the inner loop of a labelled `continue`; a loop that appends or returns);
  * the model's `diffFields` on a map with pairwise distinct keys is the left-to-right `ret[k] = v` loop;
  * small facts about the model's `diff`.
-/
import Bkl.GoLib
import BklProofs.Lemmas.GoLib
import BklProofs.Lemmas.GoLibUtil
import BklProofs.Lemmas.ToolsDiff
namespace Bkl
namespace Go

/-! ## loops -/

/-- a loop without state that leaves with `r` at the first element satisfying `q` (the inner loop of
    `continue outer`) -/
theorem forRange_find {α ρ : Type} (q : α → Bool) (r : ρ) (xs : List α) (body : α → Unit → G (Loop Unit ρ))
    (hb : ∀ x s, body x s = if q x then .ok (.ret r) else .ok (.next ())) :
    forRange xs () body = .ok (if xs.any q then .inr r else .inl ()) := by
  induction xs with
  | nil => simp
  | cons x xs ih =>
    by_cases hq : q x = true
    · rw [forRange_cons_ret (r := r) (by rw [hb, if_pos hq])]; simp [hq]
    · rw [forRange_cons_next (s' := ()) (by rw [hb, if_neg hq])]; simp [hq, ih]

/-- a loop that appends `f x` for the selected elements, and returns `r` at the first selected element that is
    not `ok` -/
theorem forRange_collect_or_ret {α β ρ : Type} (p ok : α → Bool) (f : α → β) (r : ρ) (xs : List α) (s : List β)
    (body : α → List β → G (Loop (List β) ρ))
    (hb : ∀ x s, body x s =
      .ok (if p x then (if ok x then .next (s ++ [f x]) else .ret r) else .next s)) :
    forRange xs s body =
      .ok (if (xs.filter p).all ok then .inl (s ++ (xs.filter p).map f) else .inr r) := by
  induction xs generalizing s with
  | nil => simp
  | cons x xs ih =>
    by_cases hp : p x = true
    · by_cases ho : ok x = true
      · rw [forRange_cons_next (s' := s ++ [f x]) (by rw [hb, if_pos hp, if_pos ho]), ih]
        simp [hp, ho]
      · rw [forRange_cons_ret (r := r) (by rw [hb, if_pos hp, if_neg ho])]
        simp [hp, ho]
    · rw [forRange_cons_next (s' := s) (by rw [hb, if_neg hp]), ih]
      simp [hp]

end Go

/-! ## the model's `diff` -/

/-- with pairwise distinct keys, the entries that the model's `diffFields` collects from the right are those
    that a left-to-right `ret[k] = v` loop stores -/
theorem diffFields_fst_distinct {dm : Fields} (hd : Fields.DistinctKeys dm) (sm : Fields) :
    (diffFields dm sm).1 = fsetAll [] (dm.filterMap (diffEntry sm)) := by
  rw [diffFields_fst]
  exact fofList_perm (distinctKeys_filterMap _ (diffEntry_key sm) hd) (List.reverse_perm _)

/-- only a nil target gives a nil patch -/
theorem diff_patch_null {d s : Val} (h : diff d s = .patch .null) : d = .null := by
  cases d with
  | map dm =>
    cases s with
    | map sm =>
      rw [diff_map_map] at h
      split at h
      · cases h
      · split at h <;> cases h
    | _ =>
      rw [diff_map_other _ _ rfl] at h
      split at h <;> cases h
  | list dl =>
    cases s with
    | list sl =>
      rw [diff_list_list] at h
      unfold diffListList replaceList at h
      split at h
      · cases h
      · split at h
        · cases h
        · split at h
          · split at h <;> cases h
          · cases h
    | _ =>
      rw [diff_list_other _ _ rfl] at h
      split at h <;> cases h
  | null => rfl
  | bool _ | int _ | flt _ | str _ =>
    rw [diff_scalar _ _ rfl rfl] at h
    split at h
    · cases h
    · split at h <;> cases h

theorem isEmpty_eq_length_beq (l : List α) : (Int.ofNat l.length == (0 : Int)) = l.isEmpty := by
  cases l with
  | nil => rfl
  | cons x xs =>
    simp only [List.length_cons, List.isEmpty_cons]
    exact beq_eq_false_iff_ne.2 (by simp; omega)

end Bkl
