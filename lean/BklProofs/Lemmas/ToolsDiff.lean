/-
  BklProofs.Lemmas.ToolsDiff — helper lemmas for C15 (bkld): the per-key content of the patch
  that `diff` emits for two maps, and the round-trip lemma for each shape of `diff`.
-/
import BklProofs.Lemmas.Tools
import Bkl.Parser
namespace Bkl

/-! ## what a result of `diff target base` promises -/

/-- `same`: nothing to do; `patch p`: layering `p` over `base` gives `target`;
    `replaceParent`: `base` is a non-empty map or a list and `target` is of another kind, so no
    patch at this position works (the enclosing map gets `$replace: true`). -/
def DiffSpec (target base : Val) : DRes → Prop
  | .same => target = base
  | .patch p => merge base p = .ok target
  | .replaceParent =>
    replaceable base = false ∧ (target.isMap && base.isMap) = false ∧
      (target.isList && base.isList) = false

/-! ## unfolding `diff` -/

/-- the `$delete` entries for the keys that only the base has -/
def diffDels (dm sm : Fields) : Fields :=
  (sm.filter fun (k, _) => !fhas dm k).map fun (k, _) => (k, Val.str "$delete")

/-- the patch map emitted when no child asks for its parent to be replaced -/
def diffAll (dm sm : Fields) : Fields := fsetAll (diffFields dm sm).1 (diffDels dm sm)

theorem diff_map_map (dm sm : Fields) :
    diff (.map dm) (.map sm) =
      if (diffFields dm sm).2 = true then .patch (.map (fset dm "$replace" (.bool true)))
      else if (diffAll dm sm).isEmpty = true then .same else .patch (.map (diffAll dm sm)) := by
  rw [diff]; rfl

theorem diff_map_other (dm : Fields) (b : Val) (h : b.isMap = false) :
    diff (.map dm) b = if replaceable b = true then .patch (.map dm) else .replaceParent := by
  cases b with
  | map sm => simp [Val.isMap] at h
  | _ => simp only [diff]

theorem diff_list_list (dl sl : List Val) : diff (.list dl) (.list sl) = diffListList dl sl := by
  rw [diff]

theorem diff_list_other (dl : List Val) (b : Val) (h : b.isList = false) :
    diff (.list dl) b = if replaceable b = true then .patch (.list dl) else .replaceParent := by
  cases b with
  | list sl => simp [Val.isList] at h
  | _ => simp only [diff]

theorem diff_scalar (t b : Val) (h1 : t.isMap = false) (h2 : t.isList = false) :
    diff t b = if (t == b) = true then .same
      else if replaceable b = true then .patch t else .replaceParent := by
  cases t with
  | map dm => simp [Val.isMap] at h1
  | list dl => simp [Val.isList] at h2
  | _ => simp only [diff]

/-! ## per-key content of the emitted patch -/

/-- the entry emitted for a target value `v`, given the base value at the same key -/
def diffAt (v : Val) : Option Val → Option Val
  | none => some v
  | some v2 => match diff v v2 with
    | .patch p => if p.isNull then none else some p
    | _ => none

theorem fget_diffFields_fst {dm : Fields} (hs : Fields.SortedKeys dm) (sm : Fields) (k : String) :
    fget (diffFields dm sm).1 k = (fget dm k).bind (fun v => diffAt v (fget sm k)) := by
  induction dm with
  | nil => simp [diffFields, fget]
  | cons hd tl ih =>
    obtain ⟨k0, v0⟩ := hd
    have ih' := ih (sorted_tail hs)
    have htl : fget tl k0 = none := fget_tail_head_none hs
    rw [diffFields_cons]
    by_cases hk : k = k0
    · subst hk
      have hr : fget (diffFields tl sm).1 k = none := by rw [ih', htl]; rfl
      simp only [fget, if_true, Option.bind_some]
      cases hg : fget sm k with
      | none => simp only [diffAt]; exact fget_fset_same _ _ _
      | some v2 =>
        simp only [diffAt]
        cases hd : diff v0 v2 with
        | same => exact hr
        | patch p =>
          simp only []
          cases hp : p.isNull with
          | true => simpa using hr
          | false => simpa using fget_fset_same _ _ _
        | replaceParent => exact hr
    · have hne : ¬ k0 = k := fun e => hk e.symm
      simp only [fget, if_neg hne]
      rw [← ih']
      cases hg : fget sm k0 with
      | none => exact fget_fset_ne _ _ _ _ hk
      | some v2 =>
        simp only []
        cases hd : diff v0 v2 with
        | same => rfl
        | patch p =>
          simp only []
          cases hp : p.isNull with
          | true => rfl
          | false => simpa using fget_fset_ne _ _ _ _ hk
        | replaceParent => rfl

theorem fget_diffDels (dm sm : Fields) (k : String) :
    fget (diffDels dm sm) k =
      if fhas dm k = true then none else (fget sm k).map (fun _ => Val.str "$delete") := by
  unfold diffDels
  induction sm with
  | nil => simp [fget]
  | cons hd tl ih =>
    obtain ⟨k0, v0⟩ := hd
    rw [List.filter_cons]
    by_cases hh : fhas dm k0 = true
    · simp only [hh, Bool.not_true, Bool.false_eq_true, if_false]
      rw [ih]
      by_cases hk : k0 = k
      · subst hk; simp [hh]
      · simp [fget, hk]
    · have hh' : fhas dm k0 = false := by simpa using hh
      simp only [hh', Bool.not_false, if_true, List.map_cons, fget]
      by_cases hk : k0 = k
      · subst hk; simp [hh']
      · simp only [if_neg hk]; exact ih

theorem diffDels_keys_sublist (dm sm : Fields) :
    ((diffDels dm sm).map (·.1)).Sublist (sm.map (·.1)) := by
  unfold diffDels
  rw [List.map_map]
  have : ((fun x : String × Val => x.1) ∘ fun x : String × Val =>
      match x with | (k, _) => (k, Val.str "$delete")) = (fun x => x.1) := by
    funext x; rfl
  rw [this]
  exact List.Sublist.map _ List.filter_sublist

theorem distinctKeys_diffDels (dm : Fields) {sm : Fields} (hs : Fields.SortedKeys sm) :
    Fields.DistinctKeys (diffDels dm sm) :=
  (diffDels_keys_sublist dm sm).nodup (distinctKeys_of_sorted hs)

theorem fget_fsetAll_distinct {d s : Fields} (hn : Fields.DistinctKeys s) (k : String) :
    fget (fsetAll d s) k = match fget s k with
      | some v => some v
      | none => fget d k := by
  cases hg : fget s k with
  | some v => exact fget_fsetAll_of_mem hn (fget_mem hg)
  | none => exact fget_fsetAll_of_not_mem (fget_none_iff.1 hg)

theorem sorted_diffAll (dm sm : Fields) : Fields.SortedKeys (diffAll dm sm) :=
  sorted_fsetAll _ (sorted_diffFields dm sm)

/-- the emitted patch, key by key -/
theorem fget_diffAll {dm sm : Fields} (hd : Fields.SortedKeys dm) (hs : Fields.SortedKeys sm)
    (k : String) :
    fget (diffAll dm sm) k = match fget dm k with
      | some v => diffAt v (fget sm k)
      | none => (fget sm k).map (fun _ => Val.str "$delete") := by
  unfold diffAll
  rw [fget_fsetAll_distinct (distinctKeys_diffDels dm hs), fget_diffDels, fget_diffFields_fst hd]
  cases hg : fget dm k with
  | some v => simp [fhas, hg]
  | none =>
    simp only [fhas, hg, Option.isSome_none, Bool.false_eq_true, if_false, Option.bind_none]
    cases fget sm k <;> rfl

/-- no child asked for its parent to be replaced -/
theorem diffFields_snd_false {dm sm : Fields} (h : (diffFields dm sm).2 = false)
    {k : String} {v v2 : Val} (hk : (k, v) ∈ dm) (hk2 : fget sm k = some v2) :
    diff v v2 ≠ .replaceParent := by
  intro hd
  rw [diffFields_snd, List.any_eq_false] at h
  have := h (k, v) hk
  simp [diffRP, hk2, hd] at this

theorem diffFields_snd_true {dm sm : Fields} (h : (diffFields dm sm).2 = true) :
    ∃ k v v2, (k, v) ∈ dm ∧ fget sm k = some v2 ∧ diff v v2 = .replaceParent := by
  rw [diffFields_snd, List.any_eq_true] at h
  obtain ⟨⟨k, v⟩, hm, hr⟩ := h
  unfold diffRP at hr
  split at hr
  · cases hr
  · rename_i v2 hg
    split at hr
    · rename_i hd; exact ⟨k, v, v2, hm, hg, hd⟩
    · cases hr

/-! ## the map case of the round trip -/

/-- a patch is never the `$delete` directive when the target is not -/
theorem diff_patch_toStr {t b p : Val} (h : diff t b = .patch p) (ht : t.toStr ≠ "$delete") :
    p.toStr ≠ "$delete" := by
  have hmap : ∀ m : Fields, (Val.map m).toStr ≠ "$delete" := fun m => by simp [Val.toStr]
  have hlist : ∀ l : List Val, (Val.list l).toStr ≠ "$delete" := fun l => by simp [Val.toStr]
  cases t with
  | map dm =>
    cases b with
    | map sm =>
      rw [diff_map_map] at h
      split at h
      · cases h; exact hmap _
      · split at h
        · cases h
        · cases h; exact hmap _
    | _ =>
      rw [diff_map_other _ _ rfl] at h
      split at h
      · cases h; exact ht
      · cases h
  | list dl =>
    cases b with
    | list sl =>
      rw [diff_list_list] at h
      unfold diffListList at h
      split at h
      · cases h
      · split at h
        · cases h; exact hlist _
        · split at h
          · split at h
            · cases h; exact hlist _
            · cases h; exact hlist _
          · cases h; exact hlist _
    | _ =>
      rw [diff_list_other _ _ rfl] at h
      split at h
      · cases h; exact ht
      · cases h
  | _ =>
    rw [diff_scalar _ _ rfl rfl] at h
    split at h
    · cases h
    · split at h
      · cases h; exact ht
      · cases h

/-- a patch is `null` only when the target is (maps and lists yield maps and lists, a scalar
    target is emitted as it is) -/
theorem diff_patch_isNull {t b p : Val} (h : diff t b = .patch p) (ht : t.isNull = false) :
    p.isNull = false := by
  cases t with
  | map dm =>
    cases b with
    | map sm =>
      rw [diff_map_map] at h
      split at h
      · cases h; rfl
      · split at h
        · cases h
        · cases h; rfl
    | _ =>
      rw [diff_map_other _ _ rfl] at h
      split at h
      · cases h; rfl
      · cases h
  | list dl =>
    cases b with
    | list sl =>
      rw [diff_list_list] at h
      unfold diffListList at h
      split at h
      · cases h
      · split at h
        · cases h; rfl
        · split at h
          · split at h
            · cases h; rfl
            · cases h; rfl
          · cases h; rfl
    | _ =>
      rw [diff_list_other _ _ rfl] at h
      split at h
      · cases h; rfl
      · cases h
  | _ =>
    rw [diff_scalar _ _ rfl rfl] at h
    split at h
    · cases h
    · split at h
      · cases h; exact ht
      · cases h

/-- for a non-null target value the emitted entry is the patch, whatever it is -/
theorem diffAt_some_of_not_null {v v2 : Val} (hv : v.isNull = false) :
    diffAt v (some v2) = match diff v v2 with
      | .patch p => some p
      | _ => none := by
  simp only [diffAt]
  cases hq : diff v v2 with
  | same => rfl
  | patch q => simp [diff_patch_isNull hq hv]
  | replaceParent => rfl

/-- No child needs its parent replaced: layering the emitted entries over the base map gives
    the target map (this also covers the empty patch: then the maps are equal). -/
theorem mergeFields_diffAll {dm sm : Fields} (hd : Fields.SortedKeys dm)
    (hs : Fields.SortedKeys sm)
    (hplain : ∀ k v, fget dm k = some v → v.toStr ≠ "$delete")
    (hnn : ∀ k v, fget dm k = some v → v.isNull = false)
    (ih : ∀ k v v2, fget dm k = some v → fget sm k = some v2 → DiffSpec v v2 (diff v v2))
    (hrp : (diffFields dm sm).2 = false) :
    mergeFields sm (diffAll dm sm) = .ok dm := by
  have hsa := sorted_diffAll dm sm
  have hdist := distinctKeys_of_sorted hsa
  -- every step, seen from the original base, produces the target's value at its key
  have hact : ∀ p ∈ diffAll dm sm, mergeAct (fget sm p.1) p.2 = .ok (fget dm p.1) := by
    rintro ⟨k, p⟩ hp
    have hg := fget_of_mem_sorted hsa hp
    rw [fget_diffAll hd hs] at hg
    simp only []
    cases hdk : fget dm k with
    | some v =>
      rw [hdk] at hg
      simp only [] at hg
      cases hsk : fget sm k with
      | none =>
        rw [hsk] at hg
        simp only [diffAt, Option.some.injEq] at hg
        subst hg
        unfold mergeAct
        rw [if_neg (hplain k v hdk)]
      | some v2 =>
        rw [hsk, diffAt_some_of_not_null (hnn k v hdk)] at hg
        split at hg
        · rename_i q hq
          cases hg
          have hsp := ih k v v2 hdk hsk
          rw [hq] at hsp
          unfold mergeAct
          rw [if_neg (diff_patch_toStr hq (hplain k v hdk))]
          simp only [DiffSpec] at hsp
          simp only [hsp]
        · cases hg
    | none =>
      rw [hdk] at hg
      simp only [] at hg
      cases hsk : fget sm k with
      | none => rw [hsk] at hg; cases hg
      | some v2 =>
        rw [hsk] at hg
        simp only [Option.map_some, Option.some.injEq] at hg
        subst hg
        simp [mergeAct, Val.toStr]
  obtain ⟨r, hr⟩ := (mergeFields_ok_iff hdist).2 (fun p hp => ⟨_, hact p hp⟩)
  rw [hr]
  congr 1
  apply sorted_ext (mergeFields_sorted hs hr) hd
  intro k
  cases hg : fget (diffAll dm sm) k with
  | some p =>
    have hm := fget_mem hg
    have h1 := mergeFields_fget_of_mem hdist hr hm
    have h2 := hact (k, p) hm
    simp only [] at h2
    rw [h1] at h2
    exact Except.ok.inj h2
  | none =>
    rw [mergeFields_frame hg hr]
    rw [fget_diffAll hd hs] at hg
    cases hdk : fget dm k with
    | some v =>
      rw [hdk] at hg
      simp only [] at hg
      cases hsk : fget sm k with
      | none => rw [hsk] at hg; simp [diffAt] at hg
      | some v2 =>
        rw [hsk] at hg
        have hsp := ih k v v2 hdk hsk
        have hnrp := diffFields_snd_false hrp (fget_mem hdk) hsk
        rw [diffAt_some_of_not_null (hnn k v hdk)] at hg
        cases hq : diff v v2 with
        | same => rw [hq] at hsp; simp only [DiffSpec] at hsp; rw [hsp]
        | patch q => rw [hq] at hg; cases hg
        | replaceParent => exact absurd hq hnrp
    | none =>
      rw [hdk] at hg
      simp only [] at hg
      cases hsk : fget sm k with
      | none => rfl
      | some v2 => rw [hsk] at hg; cases hg

/-- the emitted patch map carries no `$replace: true` (target `$`-free) -/
theorem diffAll_no_replace {dm sm : Fields} (hd : Fields.SortedKeys dm)
    (hs : Fields.SortedKeys sm) (k : String) (hk : fget dm k = none) (b : Bool) :
    fhasBool (diffAll dm sm) k b = false := by
  cases h : fhasBool (diffAll dm sm) k b with
  | false => rfl
  | true =>
    rw [fhasBool_iff, fget_diffAll hd hs, hk] at h
    cases hsk : fget sm k with
    | none => rw [hsk] at h; cases h
    | some v2 => rw [hsk] at h; cases h

/-- a key absent from a `$`-free target and from the base is absent from the patch -/
theorem diffAll_fget_none {dm sm : Fields} (hd : Fields.SortedKeys dm)
    (hs : Fields.SortedKeys sm) (k : String) (hk : fget dm k = none) (hk2 : fget sm k = none) :
    fget (diffAll dm sm) k = none := by
  rw [fget_diffAll hd hs, hk, hk2]; rfl

/-! ## lists, scalars and kind changes -/

theorem merge_replaceList (src : List Val) {dst : List Val} (h : dst.all plainEntry = true) :
    merge (.list src) (replaceList dst) = .ok (.list dst) := by
  have := C01_list_replace_marker src dst [] h rfl
  simpa [replaceList] using this

/-- list against list: correct by construction (the entry patch is verified with `merge`) -/
theorem diffListList_spec (src : List Val) {dst : List Val} (h : dst.all plainEntry = true) :
    DiffSpec (.list dst) (.list src) (diffListList dst src) := by
  unfold diffListList
  split
  · rename_i he
    simp only [DiffSpec]
    rw [eq_of_beq he]
  · split
    · exact merge_replaceList src h
    · rename_i p hp
      split
      · rename_i r hr
        split
        · rename_i he
          simp only [DiffSpec]
          rw [merge_list_list, hr, eq_of_beq he]
        · exact merge_replaceList src h
      · exact merge_replaceList src h

/-- a value of any kind can be layered over a scalar, null or empty-map base -/
theorem merge_replaceable {b t : Val} (hb : replaceable b = true) (ht : t ≠ .null)
    (hne : t ≠ b) (hk : (t.isMap && b.isMap) = false) : merge b t = .ok t := by
  cases b with
  | null => exact merge_null t
  | list l => simp [replaceable] at hb
  | map d =>
    have hd : d = [] := by simpa [replaceable] using hb
    subst hd
    have h1 : t.isMap = false := by simpa [Val.isMap] using hk
    have h2 : t.isNull = false := by cases t <;> simp_all [Val.isNull]
    exact C01_kind_mismatch_empty_map t h1 h2
  | _ =>
    rw [merge_scalar _ _ rfl]
    have : (t == _) = false := beq_eq_false_iff_ne.2 hne
    rw [this]; rfl

theorem replaceable_false_of_not {b : Val} (h : ¬ replaceable b = true) :
    replaceable b = false := by simpa using h

theorem diff_spec_scalar (t b : Val) (h1 : t.isMap = false) (h2 : t.isList = false)
    (htn : t ≠ .null) : DiffSpec t b (diff t b) := by
  rw [diff_scalar _ _ h1 h2]
  split
  · rename_i he
    exact eq_of_beq he
  · rename_i he
    have hne : t ≠ b := by simpa using he
    split
    · rename_i hr
      exact merge_replaceable hr htn hne (by rw [h1]; rfl)
    · rename_i hr
      exact ⟨replaceable_false_of_not hr, by rw [h1]; rfl, by rw [h2]; rfl⟩

/-! ## the round trip -/

/-- `diff target base` keeps its promise for every plain target and every well-formed base. -/
theorem diff_spec (t b : Val) (ht : plainVal t = true) (hb : Val.WF b) :
    DiffSpec t b (diff t b) := by
  have htn : t ≠ .null := nullFree_ne_null (plainVal_nullFree ht)
  cases t with
  | map dm =>
    cases b with
    | map sm =>
      have hd := plainVal_sorted ht
      have hs := (wf_map_iff.1 hb).1
      have ih : ∀ k v v2, fget dm k = some v → fget sm k = some v2 →
          DiffSpec v v2 (diff v v2) := fun k v v2 h1 h2 =>
        have : sizeOf v < sizeOf (Val.map dm) := sizeOf_lt_of_mem_fields (fget_mem h1)
        diff_spec v v2 (plainVal_of_fget ht h1) (wf_of_fget hb h2)
      have hplain : ∀ k v, fget dm k = some v → v.toStr ≠ "$delete" := fun k v h1 =>
        plainVal_toStr_dollar (plainVal_of_fget ht h1) (by decide)
      have hnn : ∀ k v, fget dm k = some v → v.isNull = false := fun k v h1 =>
        nullFree_isNull (plainVal_nullFree (plainVal_of_fget ht h1))
      have hrepl : fget dm "$replace" = none := plainVal_fget_dollar ht (by decide)
      rw [diff_map_map]
      split
      · -- some child needs this map replaced
        simp only [DiffSpec]
        rw [C01_replace_true _ _ (fhasBool_iff.2 (fget_fset_same _ _ _)), fdel_fset_same hd,
          fdel_of_not_mem hrepl]
      · rename_i hrp
        have hrp' : (diffFields dm sm).2 = false := by simpa using hrp
        have hm := mergeFields_diffAll hd hs hplain hnn ih hrp'
        split
        · rename_i he
          have : diffAll dm sm = [] := by simpa using he
          rw [this, mergeFields_nil] at hm
          simp only [DiffSpec]
          rw [Except.ok.inj hm]
        · simp only [DiffSpec]
          rw [merge_map_map, mergeMapMap_noreplace (diffAll_no_replace hd hs _ hrepl _), hm]
          rfl
    | _ =>
      rw [diff_map_other _ _ rfl]
      split
      · rename_i hr
        exact merge_replaceable hr htn (by simp) rfl
      · rename_i hr
        exact ⟨replaceable_false_of_not hr, rfl, rfl⟩
  | list dl =>
    cases b with
    | list sl =>
      rw [diff_list_list]
      exact diffListList_spec sl (plainList_all_plainEntry ht)
    | _ =>
      rw [diff_list_other _ _ rfl]
      split
      · rename_i hr
        exact merge_replaceable hr htn (by simp) rfl
      · rename_i hr
        exact ⟨replaceable_false_of_not hr, rfl, rfl⟩
  | _ => exact diff_spec_scalar _ b rfl rfl htn
termination_by sizeOf t

/-! ## equal data: the patch is empty -/

theorem diff_self (v : Val) (hv : Val.WF v) : diff v v = .same := by
  cases v with
  | map dm =>
    have hd := (wf_map_iff.1 hv).1
    have ih : ∀ k x, fget dm k = some x → diff x x = .same := fun k x h1 =>
      have : sizeOf x < sizeOf (Val.map dm) := sizeOf_lt_of_mem_fields (fget_mem h1)
      diff_self x (wf_of_fget hv h1)
    have h2 : (diffFields dm dm).2 = false := by
      rw [diffFields_snd, List.any_eq_false]
      rintro ⟨k, x⟩ hp
      have hg := fget_of_mem_sorted hd hp
      simp [diffRP, hg, ih k x hg]
    have h1 : diffAll dm dm = [] := by
      apply sorted_ext (sorted_diffAll dm dm) (by simp [Fields.SortedKeys])
      intro k
      rw [fget_diffAll hd hd]
      cases hg : fget dm k with
      | some x => simp [diffAt, ih k x hg, fget]
      | none => simp [fget]
    rw [diff_map_map, h2, h1]
    rfl
  | list dl =>
    rw [diff_list_list]
    unfold diffListList
    simp
  | _ =>
    rw [diff_scalar _ _ rfl rfl]
    simp
termination_by sizeOf v

/-! ## `diffDoc`: the emitted layer -/

theorem diffDoc_same {t b : Val} (h : diff t b = .same) : diffDoc t b = none := by
  unfold diffDoc; rw [h]

/-- a map against a map never asks for the parent to be replaced -/
theorem diff_map_map_cases (dm sm : Fields) :
    diff (.map dm) (.map sm) = .same ∨ ∃ m, diff (.map dm) (.map sm) = .patch (.map m) := by
  rw [diff_map_map]
  split
  · exact Or.inr ⟨_, rfl⟩
  · split
    · exact Or.inl rfl
    · exact Or.inr ⟨_, rfl⟩

/-- the patch map for a plain target over a base without a `$match` key has no `$match` key -/
theorem diff_map_map_no_match {dm sm m : Fields} (ht : plainVal (.map dm) = true)
    (hs : Fields.SortedKeys sm) (hb : fget sm "$match" = none)
    (h : diff (.map dm) (.map sm) = .patch (.map m)) : fget m "$match" = none := by
  have hd := plainVal_sorted ht
  have hk : fget dm "$match" = none := plainVal_fget_dollar ht (by decide)
  rw [diff_map_map] at h
  split at h
  · cases h
    rw [fget_fset_ne _ _ _ _ (by decide)]; exact hk
  · split at h
    · cases h
    · cases h
      exact diffAll_fget_none hd hs _ hk hb

theorem fdel_fset_of_none {m : Fields} (hs : Fields.SortedKeys m) {k : String} (v : Val)
    (h : fget m k = none) : fdel (fset m k v) k = m := by
  rw [fdel_fset_same hs, fdel_of_not_mem h]

theorem sorted_of_diff_patch {dm sm m : Fields} (hd : Fields.SortedKeys dm)
    (h : diff (.map dm) (.map sm) = .patch (.map m)) : Fields.SortedKeys m := by
  rw [diff_map_map] at h
  split at h
  · cases h; exact sorted_fset hd
  · split at h
    · cases h
    · cases h; exact sorted_diffAll dm sm

/-! ## when `replaceParent` is returned -/

theorem diff_replaceParent_iff (target base : Val) :
    diff target base = .replaceParent ↔
      (replaceable base = false ∧ (target.isMap && base.isMap) = false ∧
        (target.isList && base.isList) = false) := by
  constructor
  · intro h
    cases target with
    | map dm =>
      cases base with
      | map sm => rcases diff_map_map_cases dm sm with h' | ⟨m, h'⟩ <;> (rw [h'] at h; cases h)
      | _ =>
        rw [diff_map_other _ _ rfl] at h
        split at h
        · cases h
        · rename_i hr; exact ⟨replaceable_false_of_not hr, rfl, rfl⟩
    | list dl =>
      cases base with
      | list sl =>
        rw [diff_list_list] at h
        unfold diffListList at h
        repeat (first | cases h | split at h)
      | _ =>
        rw [diff_list_other _ _ rfl] at h
        split at h
        · cases h
        · rename_i hr; exact ⟨replaceable_false_of_not hr, rfl, rfl⟩
    | _ =>
      rw [diff_scalar _ _ rfl rfl] at h
      split at h
      · cases h
      · split at h
        · cases h
        · rename_i hr; exact ⟨replaceable_false_of_not hr, rfl, rfl⟩
  · rintro ⟨hr, h1, h2⟩
    cases target with
    | map dm =>
      cases base with
      | map sm => simp [Val.isMap] at h1
      | _ => rw [diff_map_other _ _ rfl, hr]; rfl
    | list dl =>
      cases base with
      | list sl => simp [Val.isList] at h2
      | _ => rw [diff_list_other _ _ rfl, hr]; rfl
    | _ =>
      rw [diff_scalar _ _ rfl rfl, hr]
      cases base <;> first | (simp [replaceable] at hr; done) | simp

/-! ## the parser applying a `$match: {}` layer to a one-document state -/

theorem matchV_map_empty (m : Fields) : matchV (.map m) (.map []) = !isPlaceholder m := by
  simp [matchV, matchFields, fhasBool, fget]

/-- parser state holding the single document `B = base`; the layer `L` (child of `B`) selects it
    with `$match: {}` and its body (the layer minus `$match`) is merged into it -/
theorem mergeDocument_single (b m : Fields) (r : Val)
    (hm : fget m "$match" = some (.map []))
    (hp : isPlaceholder b = false)
    (hmerge : merge (.map b) (.map (fdel m "$match")) = .ok r) :
    mergeDocument { docs := [("B", .map b)], known := [("B", [])] }
        { id := "L", parents := ["B"], data := .map m }
      = .ok { docs := [("B", r)], known := [("B", []), ("L", ["B", "B"])] } := by
  simp [mergeDocument, hm, Val.isNull, findMatches, parentsOf, allParents, lookupParents,
    addParents, mergeInto, matchV_map_empty, hp, hmerge]
  rfl

/-! ### shared non-vacuity witnesses -/

/-- a plain target: nested map, list, scalars -/
def C15_target : Val :=
  .map [("a", .int 1), ("l", .list [.str "x", .map [("n", .int 1)]]),
        ("m", .map [("p", .str "q"), ("r", .flt "1.5")]), ("new", .bool false)]
/-- a plain base differing in a scalar, an extra key, a list and a nested map -/
def C15_base : Val :=
  .map [("a", .int 2), ("gone", .bool true), ("l", .list [.str "y"]),
        ("m", .map [("p", .str "old"), ("r", .flt "1.5"), ("s", .int 0)])]
/-- a plain base where the kind of `m` changes (map over a list): the parent is replaced -/
def C15_base2 : Val :=
  .map [("a", .int 2), ("l", .list [.str "y"]), ("m", .list [.int 1])]

theorem C15_witness_plain :
    plainVal C15_target = true ∧ plainVal C15_base = true ∧ plainVal C15_base2 = true := by decide

end Bkl
