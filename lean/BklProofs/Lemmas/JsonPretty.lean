/-
  BklProofs.Lemmas.JsonPretty — helper lemmas for the INDENTED JSON writer of Bkl/Json.lean
  (`jsonPrettyChars`, bkl's `json-pretty` format): the reader on the indented text, the stream
  level, and the relation between the indented and the compact text.  Everything reuses the
  development of BklProofs/Lemmas/Json.lean (prefix `js_`); the lemmas here have the prefix `jsp_`.
-/
import BklProofs.Lemmas.Json
namespace Bkl

/-! ## the writer: scalars and empty containers are written as in the compact form -/

theorem jsp_null (jf : String → String) (lvl : Nat) :
    jsonPrettyChars jf lvl .null = jsonEncodeChars jf .null := by simp [jsonPrettyChars]
theorem jsp_bool (jf : String → String) (lvl : Nat) (b : Bool) :
    jsonPrettyChars jf lvl (.bool b) = jsonEncodeChars jf (.bool b) := by simp [jsonPrettyChars]
theorem jsp_int (jf : String → String) (lvl : Nat) (i : Int) :
    jsonPrettyChars jf lvl (.int i) = jsonEncodeChars jf (.int i) := by simp [jsonPrettyChars]
theorem jsp_flt (jf : String → String) (lvl : Nat) (r : String) :
    jsonPrettyChars jf lvl (.flt r) = jsonEncodeChars jf (.flt r) := by simp [jsonPrettyChars]
theorem jsp_str (jf : String → String) (lvl : Nat) (s : String) :
    jsonPrettyChars jf lvl (.str s) = jsonEncodeChars jf (.str s) := by simp [jsonPrettyChars]
theorem jsp_list_nil (jf : String → String) (lvl : Nat) :
    jsonPrettyChars jf lvl (.list []) = jsonEncodeChars jf (.list []) := by
  rw [jsonPrettyChars, jsonEncodeChars, jsonEncodeElems]
theorem jsp_map_nil (jf : String → String) (lvl : Nat) :
    jsonPrettyChars jf lvl (.map []) = jsonEncodeChars jf (.map []) := by
  rw [jsonPrettyChars, jsonEncodeChars, jsonEncodeMembers]

/-- the elements of a non-empty array opened at level `lvl`, after the first line break, up to
    and including the `]` -/
def jsp_elems (jf : String → String) (lvl : Nat) : List Val → List Char
  | [] => []
  | x :: xs => jsonPrettyChars jf (lvl + 1) x ++ jsonPrettyElemsTail jf lvl xs

/-- the members of a non-empty object opened at level `lvl`, after the first line break, up to
    and including the `}` -/
def jsp_members (jf : String → String) (lvl : Nat) : Fields → List Char
  | [] => []
  | (k, v) :: rest =>
    jsonQuote k.toList ++ ':' :: ' ' ::
      (jsonPrettyChars jf (lvl + 1) v ++ jsonPrettyMembersTail jf lvl rest)

theorem jsp_list_cons (jf : String → String) (lvl : Nat) (x : Val) (xs : List Val) :
    jsonPrettyChars jf lvl (.list (x :: xs)) =
      '[' :: (jsonNewline (lvl + 1) ++ jsp_elems jf lvl (x :: xs)) := by
  rw [jsonPrettyChars, jsp_elems]

theorem jsp_map_cons (jf : String → String) (lvl : Nat) (p : String × Val) (ps : Fields) :
    jsonPrettyChars jf lvl (.map (p :: ps)) =
      '{' :: (jsonNewline (lvl + 1) ++ jsp_members jf lvl (p :: ps)) := by
  obtain ⟨k, v⟩ := p
  rw [jsonPrettyChars, jsp_members]

theorem jsp_elemsTail_cons (jf : String → String) (lvl : Nat) (y : Val) (ys : List Val) :
    jsonPrettyElemsTail jf lvl (y :: ys) =
      ',' :: (jsonNewline (lvl + 1) ++ jsp_elems jf lvl (y :: ys)) := by
  rw [jsonPrettyElemsTail, jsp_elems]

theorem jsp_membersTail_cons (jf : String → String) (lvl : Nat) (p : String × Val) (ps : Fields) :
    jsonPrettyMembersTail jf lvl (p :: ps) =
      ',' :: (jsonNewline (lvl + 1) ++ jsp_members jf lvl (p :: ps)) := by
  obtain ⟨k, v⟩ := p
  rw [jsonPrettyMembersTail, jsp_members]

/-! ## whitespace -/

theorem jsp_skipWs_spaces (n : Nat) (cs : List Char) :
    jsonSkipWs (List.replicate n ' ' ++ cs) = jsonSkipWs cs := by
  induction n with
  | zero => rfl
  | succ n ih => rw [List.replicate_succ, List.cons_append, js_skipWs_ws (by decide), ih]

/-- a line break and its indentation are skipped -/
theorem jsp_skipWs_newline (lvl : Nat) (cs : List Char) :
    jsonSkipWs (jsonNewline lvl ++ cs) = jsonSkipWs cs := by
  rw [jsonNewline, List.cons_append, js_skipWs_ws (by decide), jsp_skipWs_spaces]

/-- … down to the next token, when that does not start with whitespace -/
theorem jsp_skipWs_newline_cons (lvl : Nat) {c : Char} (h : jsonIsWs c = false) (t : List Char) :
    jsonSkipWs (jsonNewline lvl ++ c :: t) = c :: t := by
  rw [jsp_skipWs_newline, js_skipWs_cons h]

theorem jsp_skipWs_idem (cs : List Char) : jsonSkipWs (jsonSkipWs cs) = jsonSkipWs cs := by
  induction cs with
  | nil => rfl
  | cons c cs ih =>
    cases h : jsonIsWs c
    · rw [js_skipWs_cons h, js_skipWs_cons h]
    · rw [js_skipWs_ws h, ih]

/-- the three parsers only look at their input after its leading whitespace -/
theorem jsp_parseValue_congr (fol : String → String) (fuel : Nat) {a b : List Char}
    (h : jsonSkipWs a = jsonSkipWs b) : jsonParseValue fol fuel a = jsonParseValue fol fuel b := by
  cases fuel with
  | zero => rw [jsonParseValue, jsonParseValue]
  | succ n => rw [jsonParseValue.eq_2, jsonParseValue.eq_2, h]

theorem jsp_parseElems_congr (fol : String → String) (fuel : Nat) {a b : List Char}
    (h : jsonSkipWs a = jsonSkipWs b) : jsonParseElems fol fuel a = jsonParseElems fol fuel b := by
  cases fuel with
  | zero => rw [jsonParseElems, jsonParseElems]
  | succ n => rw [jsonParseElems.eq_2, jsonParseElems.eq_2, jsp_parseValue_congr fol n h]

theorem jsp_parseMembers_congr (fol : String → String) (fuel : Nat) {a b : List Char}
    (h : jsonSkipWs a = jsonSkipWs b) :
    jsonParseMembers fol fuel a = jsonParseMembers fol fuel b := by
  cases fuel with
  | zero => rw [jsonParseMembers, jsonParseMembers]
  | succ n => rw [jsonParseMembers.eq_2, jsonParseMembers.eq_2, h]

theorem jsp_parseValue_skipWs (fol : String → String) (fuel : Nat) (cs : List Char) :
    jsonParseValue fol fuel (jsonSkipWs cs) = jsonParseValue fol fuel cs :=
  jsp_parseValue_congr fol fuel (jsp_skipWs_idem cs)

theorem jsp_parseValue_newline (fol : String → String) (fuel lvl : Nat) (cs : List Char) :
    jsonParseValue fol fuel (jsonNewline lvl ++ cs) = jsonParseValue fol fuel cs :=
  jsp_parseValue_congr fol fuel (jsp_skipWs_newline lvl cs)

theorem jsp_parseValue_space (fol : String → String) (fuel : Nat) (cs : List Char) :
    jsonParseValue fol fuel (' ' :: cs) = jsonParseValue fol fuel cs :=
  jsp_parseValue_congr fol fuel (js_skipWs_ws (by decide) cs)

theorem jsp_parseElems_newline (fol : String → String) (fuel lvl : Nat) (cs : List Char) :
    jsonParseElems fol fuel (jsonNewline lvl ++ cs) = jsonParseElems fol fuel cs :=
  jsp_parseElems_congr fol fuel (jsp_skipWs_newline lvl cs)

theorem jsp_parseMembers_newline (fol : String → String) (fuel lvl : Nat) (cs : List Char) :
    jsonParseMembers fol fuel (jsonNewline lvl ++ cs) = jsonParseMembers fol fuel cs :=
  jsp_parseMembers_congr fol fuel (jsp_skipWs_newline lvl cs)

/-! ## the first character of a value's text is never whitespace -/

/-- the indented text of a value is not empty and starts with a value-start character (for a
    float this needs the hypothesis: a number token starts with `-` or a digit) -/
theorem jsp_pretty_head (jf fol : String → String) (lvl : Nat) (v : Val)
    (hv : js_NumsOK jf fol v) :
    ∃ c t, jsonPrettyChars jf lvl v = c :: t ∧ js_valueStart c := by
  cases v with
  | null => rw [jsp_null]; exact js_enc_head jf fol _ hv
  | bool b => rw [jsp_bool]; exact js_enc_head jf fol _ hv
  | int i => rw [jsp_int]; exact js_enc_head jf fol _ hv
  | flt r => rw [jsp_flt]; exact js_enc_head jf fol _ hv
  | str s => rw [jsp_str]; exact js_enc_head jf fol _ hv
  | list xs =>
    cases xs with
    | nil => exact ⟨_, _, by rw [jsonPrettyChars], by simp [js_valueStart]⟩
    | cons x xs => exact ⟨_, _, jsp_list_cons jf lvl x xs, by simp [js_valueStart]⟩
  | map kvs =>
    cases kvs with
    | nil => exact ⟨_, _, by rw [jsonPrettyChars], by simp [js_valueStart]⟩
    | cons p ps => exact ⟨_, _, jsp_map_cons jf lvl p ps, by simp [js_valueStart]⟩

/-- both writers start a value with the same character -/
theorem jsp_head_eq (jf : String → String) (lvl : Nat) (v : Val) :
    (jsonPrettyChars jf lvl v).head? = (jsonEncodeChars jf v).head? := by
  cases v with
  | null => rw [jsp_null]
  | bool b => rw [jsp_bool]
  | int i => rw [jsp_int]
  | flt r => rw [jsp_flt]
  | str s => rw [jsp_str]
  | list xs =>
    cases xs with
    | nil => rw [jsp_list_nil]
    | cons x xs => rw [jsp_list_cons, jsonEncodeChars]; rfl
  | map kvs =>
    cases kvs with
    | nil => rw [jsp_map_nil]
    | cons p ps => rw [jsp_map_cons, jsonEncodeChars]; rfl

theorem jsp_pretty_head_not_ws (jf fol : String → String) (lvl : Nat) (v : Val)
    (hv : js_NumsOK jf fol v) :
    ∃ c t, jsonPrettyChars jf lvl v = c :: t ∧ jsonIsWs c = false := by
  obtain ⟨c, t, e, hc⟩ := jsp_pretty_head jf fol lvl v hv
  exact ⟨c, t, e, (js_valueStart_facts hc).1⟩

theorem jsp_enc_head_not_ws (jf fol : String → String) (v : Val) (hv : js_NumsOK jf fol v) :
    ∃ c t, jsonEncodeChars jf v = c :: t ∧ jsonIsWs c = false := by
  obtain ⟨c, t, e, hc⟩ := js_enc_head jf fol v hv
  exact ⟨c, t, e, (js_valueStart_facts hc).1⟩

/-- what follows an element / a member value does not continue a number -/
theorem jsp_stop_newline (lvl : Nat) (cs : List Char) : js_Stop (jsonNewline lvl ++ cs) :=
  js_stop_cons (by decide) _

theorem jsp_stop_elemsTail (jf : String → String) (lvl : Nat) (xs : List Val) (rest : List Char) :
    js_Stop (jsonPrettyElemsTail jf lvl xs ++ rest) := by
  cases xs with
  | nil => rw [jsonPrettyElemsTail, List.append_assoc]; exact jsp_stop_newline _ _
  | cons y ys => rw [jsonPrettyElemsTail, List.cons_append]; exact js_stop_cons (by decide) _

theorem jsp_stop_membersTail (jf : String → String) (lvl : Nat) (ps : Fields) (rest : List Char) :
    js_Stop (jsonPrettyMembersTail jf lvl ps ++ rest) := by
  cases ps with
  | nil => rw [jsonPrettyMembersTail, List.append_assoc]; exact jsp_stop_newline _ _
  | cons p ps =>
    obtain ⟨k, v⟩ := p
    rw [jsonPrettyMembersTail, List.cons_append]; exact js_stop_cons (by decide) _

/-! ## the parser on the indented text -/

mutual
/-- the parser on the indented text of a value (at any nesting level) followed by `rest` returns
    the raw form of the value, and `rest`; fuel: the length of the COMPACT text is enough -/
theorem jsp_parse_pretty (jf fol : String → String) : ∀ (v : Val) (lvl fuel : Nat)
    (rest : List Char), js_NumsOK jf fol v → js_DistinctKeys v = true →
    (jsonEncodeChars jf v).length ≤ fuel → js_Stop rest →
    jsonParseValue fol fuel (jsonPrettyChars jf lvl v ++ rest) = .ok (js_rawOf jf fol v, rest)
  | .null, lvl, fuel, rest, hv, hd, hf, hs => by
    rw [jsp_null]; exact js_parse_enc jf fol _ fuel rest hv hd hf hs
  | .bool b, lvl, fuel, rest, hv, hd, hf, hs => by
    rw [jsp_bool]; exact js_parse_enc jf fol _ fuel rest hv hd hf hs
  | .int i, lvl, fuel, rest, hv, hd, hf, hs => by
    rw [jsp_int]; exact js_parse_enc jf fol _ fuel rest hv hd hf hs
  | .flt r, lvl, fuel, rest, hv, hd, hf, hs => by
    rw [jsp_flt]; exact js_parse_enc jf fol _ fuel rest hv hd hf hs
  | .str s, lvl, fuel, rest, hv, hd, hf, hs => by
    rw [jsp_str]; exact js_parse_enc jf fol _ fuel rest hv hd hf hs
  | .list [], lvl, fuel, rest, hv, hd, hf, hs => by
    rw [jsp_list_nil]; exact js_parse_enc jf fol _ fuel rest hv hd hf hs
  | .map [], lvl, fuel, rest, hv, hd, hf, hs => by
    rw [jsp_map_nil]; exact js_parse_enc jf fol _ fuel rest hv hd hf hs
  | .list (x :: xs), lvl, fuel, rest, hv, hd, hf, _ => by
    rw [jsonEncodeChars] at hf
    obtain ⟨fuel, rfl⟩ := js_fuel_succ (fuel := fuel) (n := 0) (by simp at hf; omega)
    have hv' : js_NumsOKList jf fol (x :: xs) := by simpa [js_NumsOK] using hv
    have ih := jsp_parse_elems jf fol (x :: xs) lvl fuel rest (by simp) hv'
      (by simpa [js_DistinctKeys] using hd) (by simp at hf; simpa using hf)
    obtain ⟨c, t, e, hc⟩ := jsp_pretty_head jf fol (lvl + 1) x
      (by simp only [js_NumsOKList] at hv'; exact hv'.1)
    obtain ⟨h1, h2, _, _, _⟩ := js_valueStart_facts hc
    have e' : jsp_elems jf lvl (x :: xs) ++ rest =
        c :: (t ++ (jsonPrettyElemsTail jf lvl xs ++ rest)) := by
      rw [jsp_elems, e]; simp
    rw [jsp_list_cons, List.cons_append, List.append_assoc, jsonParseValue.eq_2,
      js_skipWs_cons (by decide)]
    rw [e'] at ih ⊢
    simp [jsp_skipWs_newline_cons _ h1, h2, ih, js_rawOf]
  | .map (p :: ps), lvl, fuel, rest, hv, hd, hf, _ => by
    rw [jsonEncodeChars] at hf
    obtain ⟨fuel, rfl⟩ := js_fuel_succ (fuel := fuel) (n := 0) (by simp at hf; omega)
    have hv' : js_NumsOKFields jf fol (p :: ps) := by simpa [js_NumsOK] using hv
    simp only [js_DistinctKeys, Bool.and_eq_true] at hd
    have ih := jsp_parse_members jf fol (p :: ps) lvl fuel rest (by simp) hv' hd.1 hd.2
      (by simp at hf; simpa using hf)
    obtain ⟨k, v⟩ := p
    have e' : jsp_members jf lvl ((k, v) :: ps) ++ rest =
        '"' :: (jsonEscape k.toList ++ '"' :: (':' :: ' ' :: (jsonPrettyChars jf (lvl + 1) v ++
          (jsonPrettyMembersTail jf lvl ps ++ rest)))) := by
      rw [jsp_members]; simp [jsonQuote]
    rw [jsp_map_cons, List.cons_append, List.append_assoc, jsonParseValue.eq_2,
      js_skipWs_cons (by decide)]
    rw [e'] at ih ⊢
    simp [jsp_skipWs_newline_cons (c := '"') _ (by decide), ih, js_rawOf]
/-- … the same for the elements of a non-empty array up to and including the `]` -/
theorem jsp_parse_elems (jf fol : String → String) : ∀ (l : List Val) (lvl fuel : Nat)
    (rest : List Char), l ≠ [] → js_NumsOKList jf fol l → js_DistinctKeysList l = true →
    (jsonEncodeElems jf l).length ≤ fuel →
    jsonParseElems fol fuel (jsp_elems jf lvl l ++ rest) = .ok (js_rawList jf fol l, rest)
  | [], _, _, _, hne, _, _, _ => absurd rfl hne
  | [x], lvl, fuel, rest, _, hv, hd, hf => by
    rw [jsonEncodeElems, jsonEncodeElemsTail] at hf
    obtain ⟨fuel, rfl⟩ := js_fuel_succ (fuel := fuel) (n := 0) (by simp at hf; omega)
    simp only [js_NumsOKList] at hv
    simp only [js_DistinctKeysList, Bool.and_eq_true] at hd
    have h1 := jsp_parse_pretty jf fol x (lvl + 1) fuel (jsonNewline lvl ++ ']' :: rest) hv.1 hd.1
      (by simp at hf; omega) (jsp_stop_newline _ _)
    rw [jsp_elems, jsonPrettyElemsTail, List.append_assoc, List.append_assoc,
      List.singleton_append, jsonParseElems.eq_2, h1]
    simp [jsp_skipWs_newline_cons (c := ']') _ (by decide), js_rawList]
  | x :: y :: ys, lvl, fuel, rest, _, hv, hd, hf => by
    rw [jsonEncodeElems, js_elemsTail_cons] at hf
    obtain ⟨fuel, rfl⟩ := js_fuel_succ (fuel := fuel) (n := 0) (by simp at hf; omega)
    simp only [js_NumsOKList] at hv
    have hd' : js_DistinctKeys x = true ∧ js_DistinctKeysList (y :: ys) = true := by
      rw [js_DistinctKeysList, Bool.and_eq_true] at hd; exact hd
    have h1 := jsp_parse_pretty jf fol x (lvl + 1) fuel
      (',' :: (jsonNewline (lvl + 1) ++ (jsp_elems jf lvl (y :: ys) ++ rest))) hv.1 hd'.1
      (by simp at hf; omega) (js_stop_cons (by decide) _)
    have h2 := jsp_parse_elems jf fol (y :: ys) lvl fuel rest (by simp)
      (by simp only [js_NumsOKList]; exact hv.2) hd'.2 (by simp at hf; omega)
    rw [jsp_elems, jsp_elemsTail_cons, List.append_assoc, List.cons_append, List.append_assoc,
      jsonParseElems.eq_2, h1]
    simp [js_skipWs_cons (c := ',') (by decide), jsp_parseElems_newline, h2, js_rawList]
/-- … and for the members of a non-empty object up to and including the `}` -/
theorem jsp_parse_members (jf fol : String → String) : ∀ (l : Fields) (lvl fuel : Nat)
    (rest : List Char), l ≠ [] → js_NumsOKFields jf fol l → js_keysDistinct l = true →
    js_DistinctKeysFields l = true → (jsonEncodeMembers jf l).length ≤ fuel →
    jsonParseMembers fol fuel (jsp_members jf lvl l ++ rest) = .ok (js_rawFields jf fol l, rest)
  | [], _, _, _, hne, _, _, _, _ => absurd rfl hne
  | [(k, v)], lvl, fuel, rest, _, hv, _, hd, hf => by
    rw [jsonEncodeMembers, jsonEncodeMembersTail] at hf
    obtain ⟨fuel, rfl⟩ := js_fuel_succ (fuel := fuel) (n := 0) (by simp [jsonQuote] at hf; omega)
    simp only [js_NumsOKFields] at hv
    simp only [js_DistinctKeysFields, Bool.and_eq_true] at hd
    have h1 := jsp_parse_pretty jf fol v (lvl + 1) fuel (jsonNewline lvl ++ '}' :: rest) hv.1 hd.1
      (by simp [jsonQuote] at hf; omega) (jsp_stop_newline _ _)
    have e' : jsp_members jf lvl [(k, v)] ++ rest =
        '"' :: (jsonEscape k.toList ++ '"' :: (':' :: ' ' :: (jsonPrettyChars jf (lvl + 1) v ++
          (jsonNewline lvl ++ '}' :: rest)))) := by
      rw [jsp_members, jsonPrettyMembersTail]; simp [jsonQuote]
    rw [e', jsonParseMembers.eq_2, js_skipWs_cons (by decide)]
    simp [js_parseStr_escape, js_skipWs_cons (c := ':') (by decide), jsp_parseValue_space, h1,
      jsp_skipWs_newline_cons (c := '}') _ (by decide), js_rawFields, String.ofList_toList]
  | (k, v) :: q :: qs, lvl, fuel, rest, _, hv, hk, hd, hf => by
    rw [jsonEncodeMembers, js_membersTail_cons] at hf
    obtain ⟨fuel, rfl⟩ := js_fuel_succ (fuel := fuel) (n := 0) (by simp [jsonQuote] at hf; omega)
    simp only [js_NumsOKFields] at hv
    have hd' : js_DistinctKeys v = true ∧ js_DistinctKeysFields (q :: qs) = true := by
      rw [js_DistinctKeysFields, Bool.and_eq_true] at hd; exact hd
    have hk' : ((q :: qs).any fun e => e.1 == k) = false ∧ js_keysDistinct (q :: qs) = true := by
      rw [js_keysDistinct, Bool.and_eq_true, Bool.not_eq_true'] at hk; exact hk
    have h1 := jsp_parse_pretty jf fol v (lvl + 1) fuel
      (',' :: (jsonNewline (lvl + 1) ++ (jsp_members jf lvl (q :: qs) ++ rest))) hv.1 hd'.1
      (by simp [jsonQuote] at hf; omega) (js_stop_cons (by decide) _)
    have h2 := jsp_parse_members jf fol (q :: qs) lvl fuel rest (by simp) hv.2 hk'.2 hd'.2
      (by simp [jsonQuote] at hf; omega)
    have hany : ((js_rawFields jf fol (q :: qs)).any fun e => e.1 == String.ofList k.toList)
        = false := by
      rw [String.ofList_toList, js_rawFields_any]; exact hk'.1
    have e' : jsp_members jf lvl ((k, v) :: q :: qs) ++ rest =
        '"' :: (jsonEscape k.toList ++ '"' :: (':' :: ' ' :: (jsonPrettyChars jf (lvl + 1) v ++
          ',' :: (jsonNewline (lvl + 1) ++ (jsp_members jf lvl (q :: qs) ++ rest))))) := by
      rw [jsp_members, jsp_membersTail_cons]; simp [jsonQuote]
    rw [e', jsonParseMembers.eq_2, js_skipWs_cons (by decide)]
    simp only [if_true, js_parseStr_escape, js_skipWs_cons (c := ':') (by decide),
      jsp_parseValue_space, h1, js_skipWs_cons (c := ',') (by decide), jsp_parseMembers_newline, h2,
      hany]
    simp [js_rawFields, String.ofList_toList]
end

/-! ## the indented text is at least as long as the compact one -/

theorem jsp_newline_length (lvl : Nat) : (jsonNewline lvl).length = 2 * lvl + 1 := by
  simp [jsonNewline]

mutual
theorem jsp_enc_le_pretty (jf : String → String) : ∀ (v : Val) (lvl : Nat),
    (jsonEncodeChars jf v).length ≤ (jsonPrettyChars jf lvl v).length
  | .null, lvl => by rw [jsp_null]; exact Nat.le_refl _
  | .bool b, lvl => by rw [jsp_bool]; exact Nat.le_refl _
  | .int i, lvl => by rw [jsp_int]; exact Nat.le_refl _
  | .flt r, lvl => by rw [jsp_flt]; exact Nat.le_refl _
  | .str s, lvl => by rw [jsp_str]; exact Nat.le_refl _
  | .list [], lvl => by rw [jsp_list_nil]; exact Nat.le_refl _
  | .map [], lvl => by rw [jsp_map_nil]; exact Nat.le_refl _
  | .list (x :: xs), lvl => by
    have h1 := jsp_enc_le_pretty jf x (lvl + 1)
    have h2 := jsp_elemsTail_le jf xs lvl
    rw [jsonPrettyChars, jsonEncodeChars, jsonEncodeElems]
    simp only [List.length_cons, List.length_append]
    omega
  | .map ((k, v) :: ps), lvl => by
    have h1 := jsp_enc_le_pretty jf v (lvl + 1)
    have h2 := jsp_membersTail_le jf ps lvl
    rw [jsonPrettyChars, jsonEncodeChars, jsonEncodeMembers]
    simp only [List.length_cons, List.length_append]
    omega
theorem jsp_elemsTail_le (jf : String → String) : ∀ (l : List Val) (lvl : Nat),
    (jsonEncodeElemsTail jf l).length ≤ (jsonPrettyElemsTail jf lvl l).length
  | [], lvl => by rw [jsonEncodeElemsTail, jsonPrettyElemsTail]; simp
  | x :: xs, lvl => by
    have h1 := jsp_enc_le_pretty jf x (lvl + 1)
    have h2 := jsp_elemsTail_le jf xs lvl
    rw [jsonEncodeElemsTail, jsonPrettyElemsTail]
    simp only [List.length_cons, List.length_append]
    omega
theorem jsp_membersTail_le (jf : String → String) : ∀ (l : Fields) (lvl : Nat),
    (jsonEncodeMembersTail jf l).length ≤ (jsonPrettyMembersTail jf lvl l).length
  | [], lvl => by rw [jsonEncodeMembersTail, jsonPrettyMembersTail]; simp
  | (k, v) :: ps, lvl => by
    have h1 := jsp_enc_le_pretty jf v (lvl + 1)
    have h2 := jsp_membersTail_le jf ps lvl
    rw [jsonEncodeMembersTail, jsonPrettyMembersTail]
    simp only [List.length_cons, List.length_append]
    omega
end

/-- the statement with the fuel measured on the indented text itself -/
theorem jsp_parse_pretty' (jf fol : String → String) (v : Val) (lvl fuel : Nat)
    (rest : List Char) (hv : js_NumsOK jf fol v) (hd : js_DistinctKeys v = true)
    (hf : (jsonPrettyChars jf lvl v).length ≤ fuel) (hs : js_Stop rest) :
    jsonParseValue fol fuel (jsonPrettyChars jf lvl v ++ rest) = .ok (js_rawOf jf fol v, rest) :=
  jsp_parse_pretty jf fol v lvl fuel rest hv hd (Nat.le_trans (jsp_enc_le_pretty jf v lvl) hf) hs

/-! ## streams -/

/-- one indented document in front of the rest of a stream -/
theorem jsp_decodeDocs_doc (jf fol : String → String) (v : Val) (hv : js_NumsOK jf fol v)
    (hd : js_DistinctKeys v = true) (lvl fuel : Nat) (rest : List Char) (hs : js_Stop rest) :
    jsonDecodeDocs fol (fuel + 1) (jsonPrettyChars jf lvl v ++ rest) =
      match jsonDecodeDocs fol fuel rest with
      | .ok xs => .ok (js_rawOf jf fol v :: xs)
      | .error e => .error e := by
  obtain ⟨c, t, e, hc⟩ := jsp_pretty_head jf fol lvl v hv
  have h1 := jsp_parse_pretty' jf fol v lvl (2 * (t ++ rest).length + 3) rest hv hd
    (by rw [e]; simp; omega) hs
  rw [e] at h1 ⊢
  rw [List.cons_append] at h1 ⊢
  rw [jsonDecodeDocs, js_skipWs_cons (js_valueStart_facts hc).1]
  simp only [h1]
  rfl

theorem jsp_decode_stream (jf fol : String → String) : ∀ (vs : List Val) (fuel : Nat),
    js_NumsOKList jf fol vs → js_DistinctKeysList vs = true → vs.length + 1 ≤ fuel →
    jsonDecodeDocs fol fuel (jsonPrettyStreamChars jf vs) = .ok (js_rawList jf fol vs) := by
  intro vs
  induction vs with
  | nil =>
    intro fuel _ _ hf
    obtain ⟨fuel, rfl⟩ := js_fuel_succ (fuel := fuel) (n := 0) (by simpa using hf)
    rw [jsonPrettyStreamChars, js_decodeDocs_nil, js_rawList]
  | cons v vs ih =>
    intro fuel hv hd hf
    simp only [js_NumsOKList] at hv
    simp only [js_DistinctKeysList, Bool.and_eq_true] at hd
    obtain ⟨fuel, rfl⟩ := js_fuel_succ (fuel := fuel) (n := 0) (by omega)
    obtain ⟨fuel, rfl⟩ := js_fuel_succ (fuel := fuel) (n := 0) (by simp at hf; omega)
    rw [jsonPrettyStreamChars,
      jsp_decodeDocs_doc jf fol v hv.1 hd.1 _ _ _ (js_stop_cons (by decide) _),
      js_decodeDocs_ws fol fuel (by decide), ih (fuel + 1) hv.2 hd.2 (by simp at hf; omega),
      js_rawList]

theorem jsp_stream_length (jf : String → String) : ∀ (vs : List Val),
    vs.length ≤ (jsonPrettyStreamChars jf vs).length
  | [] => by simp
  | v :: vs => by
    have := jsp_stream_length jf vs
    simp [jsonPrettyStreamChars]; omega

/-- the stream round trip on the `String` level -/
theorem jsp_loadStream_prettyStream (jf fol : String → String) (vs : List Val)
    (h : ∀ v ∈ vs, js_Repr jf fol v) :
    jsonLoadStream fol (jsonPrettyStream jf vs) = .ok vs := by
  have h1 := js_numsOKList_of_forall jf fol vs (fun v hv => (h v hv).2)
  have h2 := js_wfListB_of_forall vs (fun v hv => (h v hv).1)
  have := jsp_stream_length jf vs
  rw [jsonLoadStream, jsonDecodeStream, jsonPrettyStream, String.toList_ofList,
    jsp_decode_stream jf fol vs _ h1 (js_distinctList_of_wfB vs h2) (by omega)]
  exact js_normalizeList_raw jf fol vs h2 h1

/-- one value (written at any level), without the newline the stream writer adds -/
theorem jsp_load_pretty (jf fol : String → String) (v : Val) (lvl : Nat) (h : js_Repr jf fol v) :
    jsonLoad fol (String.ofList (jsonPrettyChars jf lvl v)) = .ok v := by
  have hd : jsonDecodeDocs fol ((jsonPrettyChars jf lvl v).length + 1) (jsonPrettyChars jf lvl v) =
      .ok [js_rawOf jf fol v] := by
    obtain ⟨c, t, e, _⟩ := jsp_pretty_head jf fol lvl v h.2
    obtain ⟨fuel, hfu⟩ := js_fuel_succ (fuel := (jsonPrettyChars jf lvl v).length) (n := 0)
      (by rw [e]; simp)
    have := jsp_decodeDocs_doc jf fol v h.2 (js_distinct_of_wf h.1) lvl (fuel + 1) [] js_stop_nil
    rw [List.append_nil, js_decodeDocs_nil] at this
    rw [hfu, this]
  rw [jsonLoad, jsonLoadStream, jsonDecodeStream, String.toList_ofList, hd]
  simp only [normalizeList, js_normalize_raw jf fol v h.1 h.2]
  rfl

/-- … and with it -/
theorem jsp_load_prettyStream_one (jf fol : String → String) (v : Val) (h : js_Repr jf fol v) :
    jsonLoad fol (jsonPrettyStream jf [v]) = .ok v := by
  rw [jsonLoad, jsp_loadStream_prettyStream jf fol [v] (by simpa using h)]

/-! ## the indented text minus its layout is the compact text

  `jspStrip` is a JSON "minifier" on texts: it drops every whitespace character that stands
  outside a string literal and copies everything else (inside a literal a backslash protects the
  next character, so `\"` does not end the literal). -/

/-- state: inside a string literal? / just after a backslash inside one? -/
def jspStripAux : Bool → Bool → List Char → List Char
  | _, _, [] => []
  | false, _, c :: cs =>
    if jsonIsWs c = true then jspStripAux false false cs
    else c :: jspStripAux (decide (c = '"')) false cs
  | true, true, c :: cs => c :: jspStripAux true false cs
  | true, false, c :: cs =>
    c :: (if c = '\\' then jspStripAux true true cs
          else if c = '"' then jspStripAux false false cs
          else jspStripAux true false cs)

/-- remove the whitespace between the tokens of a JSON text -/
def jspStrip (cs : List Char) : List Char := jspStripAux false false cs

theorem jsp_strip_out_ws {c : Char} (h : jsonIsWs c = true) (e : Bool) (cs : List Char) :
    jspStripAux false e (c :: cs) = jspStripAux false false cs := by
  simp [jspStripAux, h]

theorem jsp_strip_out_plain {c : Char} (h : jsonIsWs c = false) (hq : c ≠ '"') (e : Bool)
    (cs : List Char) : jspStripAux false e (c :: cs) = c :: jspStripAux false false cs := by
  simp [jspStripAux, h, hq]

theorem jsp_strip_out_quote (e : Bool) (cs : List Char) :
    jspStripAux false e ('"' :: cs) = '"' :: jspStripAux true false cs := by
  simp [jspStripAux, jsonIsWs]

theorem jsp_strip_in_plain {c : Char} (h1 : c ≠ '"') (h2 : c ≠ '\\') (cs : List Char) :
    jspStripAux true false (c :: cs) = c :: jspStripAux true false cs := by
  simp [jspStripAux, h1, h2]

theorem jsp_strip_in_esc (d : Char) (cs : List Char) :
    jspStripAux true false ('\\' :: d :: cs) = '\\' :: d :: jspStripAux true false cs := by
  simp [jspStripAux]

theorem jsp_strip_in_quote (cs : List Char) :
    jspStripAux true false ('"' :: cs) = '"' :: jspStripAux false false cs := by
  simp [jspStripAux]

theorem jsp_hexDigit_plain : ∀ n, n < 16 → jsonHexDigit n ≠ '"' ∧ jsonHexDigit n ≠ '\\' := by
  decide

/-- inside a literal, one escaped character is copied -/
theorem jsp_strip_escapeChar (c : Char) (tl : List Char) :
    jspStripAux true false (jsonEscapeChar c ++ tl) =
      jsonEscapeChar c ++ jspStripAux true false tl := by
  by_cases h1 : c = '"'
  · subst h1; simp [jsonEscapeChar, jsp_strip_in_esc]
  by_cases h2 : c = '\\'
  · subst h2; simp [jsonEscapeChar, jsp_strip_in_esc]
  by_cases e1 : c = '\n'
  · subst e1; simp [jsonEscapeChar, jsp_strip_in_esc]
  by_cases e2 : c = '\r'
  · subst e2; simp [jsonEscapeChar, jsp_strip_in_esc]
  by_cases e3 : c = '\t'
  · subst e3; simp [jsonEscapeChar, jsp_strip_in_esc]
  by_cases e4 : c = '\x08'
  · subst e4; simp [jsonEscapeChar, jsp_strip_in_esc]
  by_cases e5 : c = '\x0c'
  · subst e5; simp [jsonEscapeChar, jsp_strip_in_esc]
  by_cases h3 : c.toNat < 32
  · rw [js_escapeChar_ctl h3 e1 e2 e3 e4 e5]
    obtain ⟨a1, a2⟩ := jsp_hexDigit_plain (c.toNat / 16) (by omega)
    obtain ⟨b1, b2⟩ := jsp_hexDigit_plain (c.toNat % 16) (by omega)
    simp only [List.cons_append, List.nil_append, jsp_strip_in_esc]
    rw [jsp_strip_in_plain (by decide) (by decide), jsp_strip_in_plain (by decide) (by decide),
      jsp_strip_in_plain a1 a2, jsp_strip_in_plain b1 b2]
  by_cases h4 : c = '\u2028'
  · subst h4
    rw [show jsonEscapeChar '\u2028' = ['\\', 'u', '2', '0', '2', '8'] from by decide]
    simp only [List.cons_append, List.nil_append, jsp_strip_in_esc]
    rw [jsp_strip_in_plain (by decide) (by decide), jsp_strip_in_plain (by decide) (by decide),
      jsp_strip_in_plain (by decide) (by decide), jsp_strip_in_plain (by decide) (by decide)]
  by_cases h5 : c = '\u2029'
  · subst h5
    rw [show jsonEscapeChar '\u2029' = ['\\', 'u', '2', '0', '2', '9'] from by decide]
    simp only [List.cons_append, List.nil_append, jsp_strip_in_esc]
    rw [jsp_strip_in_plain (by decide) (by decide), jsp_strip_in_plain (by decide) (by decide),
      jsp_strip_in_plain (by decide) (by decide), jsp_strip_in_plain (by decide) (by decide)]
  · rw [js_escapeChar_plain h1 h2 h3 h4 h5, List.singleton_append, jsp_strip_in_plain h1 h2,
      List.singleton_append]

theorem jsp_strip_escape (s rest : List Char) :
    jspStripAux true false (jsonEscape s ++ '"' :: rest) =
      jsonEscape s ++ '"' :: jspStripAux false false rest := by
  induction s with
  | nil => simp [jsonEscape, jsp_strip_in_quote]
  | cons c s ih =>
    have : jsonEscape (c :: s) = jsonEscapeChar c ++ jsonEscape s := by simp [jsonEscape]
    rw [this, List.append_assoc, jsp_strip_escapeChar, ih, List.append_assoc]

/-- a string literal is copied unchanged (whatever it contains) -/
theorem jsp_strip_quote (s rest : List Char) (e : Bool) :
    jspStripAux false e (jsonQuote s ++ rest) = jsonQuote s ++ jspStripAux false false rest := by
  rw [js_quote_append, jsp_strip_out_quote, jsp_strip_escape, js_quote_append]

/-- characters that are neither whitespace nor a quote are copied -/
theorem jsp_strip_plain : ∀ (cs rest : List Char) (e : Bool),
    (∀ c ∈ cs, jsonIsWs c = false ∧ c ≠ '"') →
    jspStripAux false e (cs ++ rest) = cs ++ jspStripAux false e rest
  | [], rest, e, _ => rfl
  | c :: cs, rest, e, h => by
    obtain ⟨h1, h2⟩ := h c List.mem_cons_self
    cases cs with
    | nil =>
      cases e
      · rw [List.singleton_append, jsp_strip_out_plain h1 h2, List.singleton_append]
      · rw [List.singleton_append, jsp_strip_out_plain h1 h2, List.singleton_append]
        cases rest with
        | nil => rfl
        | cons d ds => simp [jspStripAux]
    | cons d ds =>
      rw [List.cons_append, jsp_strip_out_plain h1 h2,
        jsp_strip_plain (d :: ds) rest false (fun c hc => h c (List.mem_cons_of_mem _ hc))]
      cases rest with
      | nil => simp [jspStripAux]
      | cons r rs => simp [jspStripAux]

theorem jsp_strip_spaces (n : Nat) (cs : List Char) :
    jspStripAux false false (List.replicate n ' ' ++ cs) = jspStripAux false false cs := by
  induction n with
  | zero => rfl
  | succ n ih => rw [List.replicate_succ, List.cons_append, jsp_strip_out_ws (by decide), ih]

/-- a line break and its indentation disappear -/
theorem jsp_strip_newline (lvl : Nat) (cs : List Char) :
    jspStripAux false false (jsonNewline lvl ++ cs) = jspStripAux false false cs := by
  rw [jsonNewline, List.cons_append, jsp_strip_out_ws (by decide), jsp_strip_spaces]

theorem jsp_numChar_plain {c : Char} (h : js_numChar c = true) : jsonIsWs c = false ∧ c ≠ '"' := by
  refine ⟨?_, ?_⟩
  · cases hw : jsonIsWs c
    · rfl
    · simp only [jsonIsWs, Bool.or_eq_true, decide_eq_true_eq] at hw
      rcases hw with ((hw | hw) | hw) | hw <;> (subst hw; revert h; decide)
  · intro e; subst e; revert h; decide

theorem jsp_intChars_plain (i : Int) : ∀ c ∈ jsonIntChars i, jsonIsWs c = false ∧ c ≠ '"' := by
  obtain ⟨st, h, _⟩ := js_int_tok i
  intro c hc
  exact jsp_numChar_plain (js_tok_numChars _ _ _ h c hc)

mutual
/-- no float literal of the value contains whitespace or a quote (the hypothesis of the strip
    theorem; much weaker than `js_NumsOK`) -/
def jsp_PlainNums (jf : String → String) : Val → Prop
  | .flt r => ∀ c ∈ (jf r).toList, jsonIsWs c = false ∧ c ≠ '"'
  | .list xs => jsp_PlainNumsList jf xs
  | .map kvs => jsp_PlainNumsFields jf kvs
  | _ => True
def jsp_PlainNumsList (jf : String → String) : List Val → Prop
  | [] => True
  | x :: xs => jsp_PlainNums jf x ∧ jsp_PlainNumsList jf xs
def jsp_PlainNumsFields (jf : String → String) : Fields → Prop
  | [] => True
  | (_, v) :: rest => jsp_PlainNums jf v ∧ jsp_PlainNumsFields jf rest
end

mutual
theorem jsp_plain_of_numsOK (jf fol : String → String) : ∀ (v : Val), js_NumsOK jf fol v →
    jsp_PlainNums jf v
  | .null, _ | .bool _, _ | .int _, _ | .str _, _ => by simp [jsp_PlainNums]
  | .flt r, h => by
    simp only [js_NumsOK] at h
    obtain ⟨st, hr, _⟩ := js_float_tok h
    simp only [jsp_PlainNums]
    intro c hc
    exact jsp_numChar_plain (js_tok_numChars _ _ _ hr c hc)
  | .list xs, h => by
    simp only [js_NumsOK] at h
    simp only [jsp_PlainNums]
    exact jsp_plainList_of_numsOK jf fol xs h
  | .map kvs, h => by
    simp only [js_NumsOK] at h
    simp only [jsp_PlainNums]
    exact jsp_plainFields_of_numsOK jf fol kvs h
theorem jsp_plainList_of_numsOK (jf fol : String → String) : ∀ (l : List Val),
    js_NumsOKList jf fol l → jsp_PlainNumsList jf l
  | [], _ => by simp [jsp_PlainNumsList]
  | x :: xs, h => by
    simp only [js_NumsOKList] at h
    simp only [jsp_PlainNumsList]
    exact ⟨jsp_plain_of_numsOK jf fol x h.1, jsp_plainList_of_numsOK jf fol xs h.2⟩
theorem jsp_plainFields_of_numsOK (jf fol : String → String) : ∀ (l : Fields),
    js_NumsOKFields jf fol l → jsp_PlainNumsFields jf l
  | [], _ => by simp [jsp_PlainNumsFields]
  | (k, v) :: rest, h => by
    simp only [js_NumsOKFields] at h
    simp only [jsp_PlainNumsFields]
    exact ⟨jsp_plain_of_numsOK jf fol v h.1, jsp_plainFields_of_numsOK jf fol rest h.2⟩
end

mutual
/-- stripping the layout of the indented text of a value (written at any level) gives its compact
    text -/
theorem jsp_strip_pretty (jf : String → String) : ∀ (v : Val) (lvl : Nat) (rest : List Char),
    jsp_PlainNums jf v →
    jspStripAux false false (jsonPrettyChars jf lvl v ++ rest) =
      jsonEncodeChars jf v ++ jspStripAux false false rest
  | .null, lvl, rest, _ => by
    rw [jsp_null, jsonEncodeChars]; exact jsp_strip_plain _ _ _ (by decide)
  | .bool true, lvl, rest, _ => by
    rw [jsp_bool, jsonEncodeChars]; exact jsp_strip_plain _ _ _ (by decide)
  | .bool false, lvl, rest, _ => by
    rw [jsp_bool, jsonEncodeChars]; exact jsp_strip_plain _ _ _ (by decide)
  | .int i, lvl, rest, _ => by
    rw [jsp_int, jsonEncodeChars]; exact jsp_strip_plain _ _ _ (jsp_intChars_plain i)
  | .flt r, lvl, rest, h => by
    rw [jsp_flt, jsonEncodeChars]; exact jsp_strip_plain _ _ _ (by simpa [jsp_PlainNums] using h)
  | .str s, lvl, rest, _ => by
    rw [jsp_str, jsonEncodeChars]; exact jsp_strip_quote _ _ _
  | .list [], lvl, rest, _ => by
    rw [jsp_list_nil, jsonEncodeChars, jsonEncodeElems]; exact jsp_strip_plain _ _ _ (by decide)
  | .map [], lvl, rest, _ => by
    rw [jsp_map_nil, jsonEncodeChars, jsonEncodeMembers]; exact jsp_strip_plain _ _ _ (by decide)
  | .list (x :: xs), lvl, rest, h => by
    simp only [jsp_PlainNums, jsp_PlainNumsList] at h
    rw [jsonPrettyChars, jsonEncodeChars, jsonEncodeElems, List.cons_append,
      jsp_strip_out_plain (by decide) (by decide), List.append_assoc, jsp_strip_newline,
      List.append_assoc, jsp_strip_pretty jf x (lvl + 1) _ h.1,
      jsp_strip_elemsTail jf xs lvl rest h.2]
    simp
  | .map ((k, v) :: ps), lvl, rest, h => by
    simp only [jsp_PlainNums, jsp_PlainNumsFields] at h
    rw [jsonPrettyChars, jsonEncodeChars, jsonEncodeMembers, List.cons_append,
      jsp_strip_out_plain (by decide) (by decide), List.append_assoc, jsp_strip_newline,
      List.append_assoc, jsp_strip_quote, List.cons_append,
      jsp_strip_out_plain (by decide) (by decide), List.cons_append,
      jsp_strip_out_ws (by decide), List.append_assoc, jsp_strip_pretty jf v (lvl + 1) _ h.1,
      jsp_strip_membersTail jf ps lvl rest h.2]
    simp
theorem jsp_strip_elemsTail (jf : String → String) : ∀ (l : List Val) (lvl : Nat)
    (rest : List Char), jsp_PlainNumsList jf l →
    jspStripAux false false (jsonPrettyElemsTail jf lvl l ++ rest) =
      jsonEncodeElemsTail jf l ++ jspStripAux false false rest
  | [], lvl, rest, _ => by
    rw [jsonPrettyElemsTail, jsonEncodeElemsTail, List.append_assoc, jsp_strip_newline,
      List.singleton_append, jsp_strip_out_plain (by decide) (by decide), List.singleton_append]
  | x :: xs, lvl, rest, h => by
    simp only [jsp_PlainNumsList] at h
    rw [jsonPrettyElemsTail, jsonEncodeElemsTail, List.cons_append,
      jsp_strip_out_plain (by decide) (by decide), List.append_assoc, jsp_strip_newline,
      List.append_assoc, jsp_strip_pretty jf x (lvl + 1) _ h.1,
      jsp_strip_elemsTail jf xs lvl rest h.2]
    simp
theorem jsp_strip_membersTail (jf : String → String) : ∀ (l : Fields) (lvl : Nat)
    (rest : List Char), jsp_PlainNumsFields jf l →
    jspStripAux false false (jsonPrettyMembersTail jf lvl l ++ rest) =
      jsonEncodeMembersTail jf l ++ jspStripAux false false rest
  | [], lvl, rest, _ => by
    rw [jsonPrettyMembersTail, jsonEncodeMembersTail, List.append_assoc, jsp_strip_newline,
      List.singleton_append, jsp_strip_out_plain (by decide) (by decide), List.singleton_append]
  | (k, v) :: ps, lvl, rest, h => by
    simp only [jsp_PlainNumsFields] at h
    rw [jsonPrettyMembersTail, jsonEncodeMembersTail, List.cons_append,
      jsp_strip_out_plain (by decide) (by decide), List.append_assoc, jsp_strip_newline,
      List.append_assoc, jsp_strip_quote, List.cons_append,
      jsp_strip_out_plain (by decide) (by decide), List.cons_append,
      jsp_strip_out_ws (by decide), List.append_assoc, jsp_strip_pretty jf v (lvl + 1) _ h.1,
      jsp_strip_membersTail jf ps lvl rest h.2]
    simp
end

theorem jsp_strip_pretty_eq (jf : String → String) (v : Val) (lvl : Nat)
    (h : jsp_PlainNums jf v) : jspStrip (jsonPrettyChars jf lvl v) = jsonEncodeChars jf v := by
  have := jsp_strip_pretty jf v lvl [] h
  rw [List.append_nil] at this
  rw [jspStrip, this]
  simp [jspStripAux]

/-- the compact text is a fixed point of the stripper -/
theorem jsp_strip_newline_char (cs : List Char) :
    jspStripAux false false ('\n' :: cs) = jspStripAux false false cs :=
  jsp_strip_out_ws (by decide) false cs

/-- on streams: the indented stream minus its layout is the documents' compact texts one after
    the other (the stripper also drops the newline after each document) -/
theorem jsp_strip_stream (jf : String → String) : ∀ (vs : List Val), jsp_PlainNumsList jf vs →
    jspStrip (jsonPrettyStreamChars jf vs) = (vs.map (jsonEncodeChars jf)).flatten
  | [], _ => rfl
  | v :: vs, h => by
    simp only [jsp_PlainNumsList] at h
    have ih := jsp_strip_stream jf vs h.2
    rw [jspStrip] at ih ⊢
    rw [jsonPrettyStreamChars, jsp_strip_pretty jf v 0 _ h.1, jsp_strip_newline_char, ih]
    simp

mutual
/-- the compact text has no layout: the stripper leaves it as it is -/
theorem jsp_strip_enc (jf : String → String) : ∀ (v : Val) (rest : List Char),
    jsp_PlainNums jf v →
    jspStripAux false false (jsonEncodeChars jf v ++ rest) =
      jsonEncodeChars jf v ++ jspStripAux false false rest
  | .null, rest, _ => by rw [jsonEncodeChars]; exact jsp_strip_plain _ _ _ (by decide)
  | .bool true, rest, _ => by rw [jsonEncodeChars]; exact jsp_strip_plain _ _ _ (by decide)
  | .bool false, rest, _ => by rw [jsonEncodeChars]; exact jsp_strip_plain _ _ _ (by decide)
  | .int i, rest, _ => by rw [jsonEncodeChars]; exact jsp_strip_plain _ _ _ (jsp_intChars_plain i)
  | .flt r, rest, h => by
    rw [jsonEncodeChars]; exact jsp_strip_plain _ _ _ (by simpa [jsp_PlainNums] using h)
  | .str s, rest, _ => by rw [jsonEncodeChars]; exact jsp_strip_quote _ _ _
  | .list [], rest, _ => by
    rw [jsonEncodeChars, jsonEncodeElems]; exact jsp_strip_plain _ _ _ (by decide)
  | .map [], rest, _ => by
    rw [jsonEncodeChars, jsonEncodeMembers]; exact jsp_strip_plain _ _ _ (by decide)
  | .list (x :: xs), rest, h => by
    simp only [jsp_PlainNums, jsp_PlainNumsList] at h
    rw [jsonEncodeChars, jsonEncodeElems, List.cons_append,
      jsp_strip_out_plain (by decide) (by decide), List.append_assoc,
      jsp_strip_enc jf x _ h.1, jsp_strip_encElemsTail jf xs rest h.2]
    simp
  | .map ((k, v) :: ps), rest, h => by
    simp only [jsp_PlainNums, jsp_PlainNumsFields] at h
    rw [jsonEncodeChars, jsonEncodeMembers, List.cons_append,
      jsp_strip_out_plain (by decide) (by decide), List.append_assoc, jsp_strip_quote,
      List.cons_append, jsp_strip_out_plain (by decide) (by decide), List.append_assoc,
      jsp_strip_enc jf v _ h.1, jsp_strip_encMembersTail jf ps rest h.2]
    simp
theorem jsp_strip_encElemsTail (jf : String → String) : ∀ (l : List Val) (rest : List Char),
    jsp_PlainNumsList jf l →
    jspStripAux false false (jsonEncodeElemsTail jf l ++ rest) =
      jsonEncodeElemsTail jf l ++ jspStripAux false false rest
  | [], rest, _ => by
    rw [jsonEncodeElemsTail, List.singleton_append, jsp_strip_out_plain (by decide) (by decide)]
    rfl
  | x :: xs, rest, h => by
    simp only [jsp_PlainNumsList] at h
    rw [jsonEncodeElemsTail, List.cons_append, jsp_strip_out_plain (by decide) (by decide),
      List.append_assoc, jsp_strip_enc jf x _ h.1, jsp_strip_encElemsTail jf xs rest h.2]
    simp
theorem jsp_strip_encMembersTail (jf : String → String) : ∀ (l : Fields) (rest : List Char),
    jsp_PlainNumsFields jf l →
    jspStripAux false false (jsonEncodeMembersTail jf l ++ rest) =
      jsonEncodeMembersTail jf l ++ jspStripAux false false rest
  | [], rest, _ => by
    rw [jsonEncodeMembersTail, List.singleton_append, jsp_strip_out_plain (by decide) (by decide)]
    rfl
  | (k, v) :: ps, rest, h => by
    simp only [jsp_PlainNumsFields] at h
    rw [jsonEncodeMembersTail, List.cons_append, jsp_strip_out_plain (by decide) (by decide),
      List.append_assoc, jsp_strip_quote, List.cons_append,
      jsp_strip_out_plain (by decide) (by decide), List.append_assoc,
      jsp_strip_enc jf v _ h.1, jsp_strip_encMembersTail jf ps rest h.2]
    simp
end

theorem jsp_strip_enc_eq (jf : String → String) (v : Val) (h : jsp_PlainNums jf v) :
    jspStrip (jsonEncodeChars jf v) = jsonEncodeChars jf v := by
  have := jsp_strip_enc jf v [] h
  rw [List.append_nil] at this
  rw [jspStrip, this]
  simp [jspStripAux]

/-! ## both writers are one writer with two layouts (no hypothesis at all)

  `jsp_layout nl sp` writes a value with `nl lvl` where the indented writer breaks the line at
  level `lvl` and `sp` after the `:` of a member. -/

mutual
def jsp_layout (nl : Nat → List Char) (sp : List Char) (jf : String → String) (lvl : Nat) :
    Val → List Char
  | .list [] => ['[', ']']
  | .list (x :: xs) =>
    '[' :: (nl (lvl + 1) ++ (jsp_layout nl sp jf (lvl + 1) x ++ jsp_layoutElemsTail nl sp jf lvl xs))
  | .map [] => ['{', '}']
  | .map ((k, v) :: rest) =>
    '{' :: (nl (lvl + 1) ++ (jsonQuote k.toList ++ ':' :: (sp ++
      (jsp_layout nl sp jf (lvl + 1) v ++ jsp_layoutMembersTail nl sp jf lvl rest))))
  | v => jsonEncodeChars jf v
def jsp_layoutElemsTail (nl : Nat → List Char) (sp : List Char) (jf : String → String)
    (lvl : Nat) : List Val → List Char
  | [] => nl lvl ++ [']']
  | x :: xs =>
    ',' :: (nl (lvl + 1) ++ (jsp_layout nl sp jf (lvl + 1) x ++ jsp_layoutElemsTail nl sp jf lvl xs))
def jsp_layoutMembersTail (nl : Nat → List Char) (sp : List Char) (jf : String → String)
    (lvl : Nat) : Fields → List Char
  | [] => nl lvl ++ ['}']
  | (k, v) :: rest =>
    ',' :: (nl (lvl + 1) ++ (jsonQuote k.toList ++ ':' :: (sp ++
      (jsp_layout nl sp jf (lvl + 1) v ++ jsp_layoutMembersTail nl sp jf lvl rest))))
end

mutual
/-- line breaks with indentation and a space after `:` — the indented writer -/
theorem jsp_layout_pretty (jf : String → String) : ∀ (v : Val) (lvl : Nat),
    jsp_layout jsonNewline [' '] jf lvl v = jsonPrettyChars jf lvl v
  | .null, lvl => by rw [jsp_null]; simp [jsp_layout]
  | .bool b, lvl => by rw [jsp_bool]; simp [jsp_layout]
  | .int i, lvl => by rw [jsp_int]; simp [jsp_layout]
  | .flt r, lvl => by rw [jsp_flt]; simp [jsp_layout]
  | .str s, lvl => by rw [jsp_str]; simp [jsp_layout]
  | .list [], lvl => by rw [jsp_layout, jsonPrettyChars]
  | .map [], lvl => by rw [jsp_layout, jsonPrettyChars]
  | .list (x :: xs), lvl => by
    rw [jsp_layout, jsonPrettyChars, jsp_layout_pretty jf x (lvl + 1),
      jsp_layoutElemsTail_pretty jf xs lvl]
  | .map ((k, v) :: ps), lvl => by
    rw [jsp_layout, jsonPrettyChars, jsp_layout_pretty jf v (lvl + 1),
      jsp_layoutMembersTail_pretty jf ps lvl]
    rfl
theorem jsp_layoutElemsTail_pretty (jf : String → String) : ∀ (l : List Val) (lvl : Nat),
    jsp_layoutElemsTail jsonNewline [' '] jf lvl l = jsonPrettyElemsTail jf lvl l
  | [], lvl => by rw [jsp_layoutElemsTail, jsonPrettyElemsTail]
  | x :: xs, lvl => by
    rw [jsp_layoutElemsTail, jsonPrettyElemsTail, jsp_layout_pretty jf x (lvl + 1),
      jsp_layoutElemsTail_pretty jf xs lvl]
theorem jsp_layoutMembersTail_pretty (jf : String → String) : ∀ (l : Fields) (lvl : Nat),
    jsp_layoutMembersTail jsonNewline [' '] jf lvl l = jsonPrettyMembersTail jf lvl l
  | [], lvl => by rw [jsp_layoutMembersTail, jsonPrettyMembersTail]
  | (k, v) :: ps, lvl => by
    rw [jsp_layoutMembersTail, jsonPrettyMembersTail, jsp_layout_pretty jf v (lvl + 1),
      jsp_layoutMembersTail_pretty jf ps lvl]
    rfl
end

mutual
/-- nothing at all in both places — the compact writer -/
theorem jsp_layout_compact (jf : String → String) : ∀ (v : Val) (lvl : Nat),
    jsp_layout (fun _ => []) [] jf lvl v = jsonEncodeChars jf v
  | .null, lvl => by simp [jsp_layout]
  | .bool b, lvl => by simp [jsp_layout]
  | .int i, lvl => by simp [jsp_layout]
  | .flt r, lvl => by simp [jsp_layout]
  | .str s, lvl => by simp [jsp_layout]
  | .list [], lvl => by rw [jsp_layout, jsonEncodeChars, jsonEncodeElems]
  | .map [], lvl => by rw [jsp_layout, jsonEncodeChars, jsonEncodeMembers]
  | .list (x :: xs), lvl => by
    rw [jsp_layout, jsonEncodeChars, jsonEncodeElems, jsp_layout_compact jf x (lvl + 1),
      jsp_layoutElemsTail_compact jf xs lvl]
    rfl
  | .map ((k, v) :: ps), lvl => by
    rw [jsp_layout, jsonEncodeChars, jsonEncodeMembers, jsp_layout_compact jf v (lvl + 1),
      jsp_layoutMembersTail_compact jf ps lvl]
    rfl
theorem jsp_layoutElemsTail_compact (jf : String → String) : ∀ (l : List Val) (lvl : Nat),
    jsp_layoutElemsTail (fun _ => []) [] jf lvl l = jsonEncodeElemsTail jf l
  | [], lvl => by rw [jsp_layoutElemsTail, jsonEncodeElemsTail]; rfl
  | x :: xs, lvl => by
    rw [jsp_layoutElemsTail, jsonEncodeElemsTail, jsp_layout_compact jf x (lvl + 1),
      jsp_layoutElemsTail_compact jf xs lvl]
    rfl
theorem jsp_layoutMembersTail_compact (jf : String → String) : ∀ (l : Fields) (lvl : Nat),
    jsp_layoutMembersTail (fun _ => []) [] jf lvl l = jsonEncodeMembersTail jf l
  | [], lvl => by rw [jsp_layoutMembersTail, jsonEncodeMembersTail]; rfl
  | (k, v) :: ps, lvl => by
    rw [jsp_layoutMembersTail, jsonEncodeMembersTail, jsp_layout_compact jf v (lvl + 1),
      jsp_layoutMembersTail_compact jf ps lvl]
    rfl
end

/-! ## values for the labelled tests -/

/-- `{"a": [1, {"b": []}], "c": {}}` -/
def jsp_demoVal : Val :=
  .map [("a", .list [.int 1, .map [("b", .list [])]]), ("c", .map [])]

/-- what Go's `Encoder.SetIndent("", "  ")` writes for it (without the final newline) -/
def jsp_demoText : String :=
  "{\n  \"a\": [\n    1,\n    {\n      \"b\": []\n    }\n  ],\n  \"c\": {}\n}"

theorem jsp_demoVal_repr : js_Repr js_demoJf js_demoFol jsp_demoVal := by
  refine ⟨by decide, ?_⟩
  simp only [jsp_demoVal, js_NumsOK, js_NumsOKFields, js_NumsOKList, and_true]
  decide

/-- floats (one where `%v` and JSON differ), an escaped key, scalars two levels down -/
def jsp_demoVal2 : Val :=
  .list [.flt "1.5", .flt "1e-07", .map [("k\n", .list [.bool true, .null, .str "a b\"c"])]]

def jsp_demoText2 : String :=
  "[\n  1.5,\n  1e-7,\n  {\n    \"k\\n\": [\n      true,\n      null,\n      \"a b\\\"c\"\n    ]\n  }\n]"

theorem jsp_demoVal2_repr : js_Repr js_demoJf js_demoFol jsp_demoVal2 := by
  refine ⟨by decide, ?_⟩
  simp only [jsp_demoVal2, js_NumsOK, js_NumsOKFields, js_NumsOKList, and_true]
  exact ⟨js_demo_floatOK _ (by simp), js_demo_floatOK _ (by simp)⟩

end Bkl
