/-
  BklProofs.Lemmas.C10Nested — the "inline" statements of C10 for a host at ARBITRARY DEPTH
  inside nested maps of the document (generalising `inline_replace_safe_core` /
  `inline_merge_safe_core` of C10Inline, which treat a host that is a top-level key).

  The host sits at the key path `h :: ρ` of the document `.map kvs`.  `c10n_setKeys root π x` is
  the model's own `setPath` along the key path `π`.  `c10n_around h v ρ` says: along the path `ρ`
  below `v` every map is sorted, every key of `ρ` is a non-reference key, and the SIBLINGS of the
  path at every level are `SafeFields h` (no map-level `$merge` key; every reference in them is a
  path into the document whose first key is not `h`).
-/
import BklProofs.Lemmas.C10Inline
set_option linter.unusedVariables false
namespace Bkl

/-! ## writing a value at a key path -/

/-- the document `root` with the value at the key path `π` replaced by `x`
    (the model's `setPath`, along map keys only) -/
def c10n_setKeys (root : Val) (π : List String) (x : Val) : Val :=
  setPath root (π.map PathElem.key) x

theorem c10n_setKeys_nil (root x : Val) : c10n_setKeys root [] x = x := rfl

theorem c10n_setKeys_cons {m : Fields} {k : String} {c : Val} (ρ : List String) (x : Val)
    (hc : fget m k = some c) :
    c10n_setKeys (.map m) (k :: ρ) x = .map (fset m k (c10n_setKeys c ρ x)) := by
  simp only [c10n_setKeys, List.map_cons, setPath, hc]

theorem c10n_setKeys_cons_none {m : Fields} {k : String} (ρ : List String) (x : Val)
    (hc : fget m k = none) : c10n_setKeys (.map m) (k :: ρ) x = .map m := by
  simp only [c10n_setKeys, List.map_cons, setPath, hc]

theorem c10n_setKeys_cons_nonmap {v : Val} {k : String} (ρ : List String) (x : Val)
    (hv : v.isMap = false) : c10n_setKeys v (k :: ρ) x = v := by
  cases v <;> simp [Val.isMap] at hv <;> simp [c10n_setKeys, setPath]

theorem c10n_setLoc (root : Val) (π : List String) (x : Val) :
    setLoc root (some (π.map PathElem.key)) x = c10n_setKeys root π x := rfl

/-- the value written is the value read -/
theorem c10n_getPath_setKeys : ∀ (π : List String) (root old x : Val),
    getPath root π = .ok old → getPath (c10n_setKeys root π x) π = .ok x := by
  intro π
  induction π with
  | nil => intro root old x _; rfl
  | cons k ρ ih =>
    intro root old x hg
    cases root with
    | map m =>
      simp only [getPath] at hg
      cases hc : fget m k with
      | none => rw [hc] at hg; cases hg
      | some c =>
        rw [hc] at hg
        rw [c10n_setKeys_cons ρ x hc]
        simp only [getPath, fget_fset_same]
        exact ih c old x hg
    | _ => cases hg

/-- writing twice at the same key path: the second write wins -/
theorem c10n_setKeys_setKeys : ∀ (π : List String) (root x y : Val),
    c10n_setKeys (c10n_setKeys root π x) π y = c10n_setKeys root π y := by
  intro π
  induction π with
  | nil => intro root x y; rfl
  | cons k ρ ih =>
    intro root x y
    cases root with
    | map m =>
      cases hc : fget m k with
      | none => rw [c10n_setKeys_cons_none ρ x hc]
      | some c =>
        rw [c10n_setKeys_cons ρ x hc, c10n_setKeys_cons ρ y (fget_fset_same _ _ _),
          c10n_setKeys_cons ρ y hc, fset_fset_same, ih]
    | null => rfl
    | bool _ => rfl
    | int _ => rfl
    | flt _ => rfl
    | str _ => rfl
    | list _ => rfl

/-- a path that starts at another top-level key does not see the write -/
theorem c10n_getPath_setKeys_other {kvs : Fields} {h k : String} (ρ ks : List String) (x : Val)
    (hk : k ≠ h) :
    getPath (c10n_setKeys (.map kvs) (h :: ρ) x) (k :: ks) = getPath (.map kvs) (k :: ks) := by
  cases hc : fget kvs h with
  | none => rw [c10n_setKeys_cons_none ρ x hc]
  | some c => rw [c10n_setKeys_cons ρ x hc]; exact getPath_fset_other _ ks hk

/-! ## locations along a key path -/

def c10n_locAt (loc : Loc) (ρ : List String) : Loc := ρ.foldl childLoc loc

theorem c10n_locAt_some : ∀ (ρ : List String) (p : List PathElem),
    c10n_locAt (some p) ρ = some (p ++ ρ.map PathElem.key) := by
  intro ρ
  induction ρ with
  | nil => intro p; simp [c10n_locAt]
  | cons k ρ ih =>
    intro p
    have : c10n_locAt (some p) (k :: ρ) = c10n_locAt (some (p ++ [.key k])) ρ := rfl
    rw [this, ih]
    simp

theorem c10n_locAt_top (π : List String) :
    c10n_locAt (some []) π = some (π.map PathElem.key) := by
  rw [c10n_locAt_some]; rfl

/-! ## the siblings of the path never read the top-level entry that contains the host -/

/-- along `ρ` below `v`: sorted maps, non-reference keys, siblings `SafeFields h` -/
def c10n_around (h : String) : Val → List String → Bool
  | _, [] => true
  | .map m, k :: ρ =>
    Fields.sortedKeysB m && !refKey k && SafeFields h (fdel m k) &&
      (match fget m k with
       | some c => c10n_around h c ρ
       | none => false)
  | _, _ :: _ => false

/-- the same with reference-free siblings (decidable by `decide` on concrete documents) -/
def c10n_aroundFree : Val → List String → Bool
  | _, [] => true
  | .map m, k :: ρ =>
    Fields.sortedKeysB m && !refKey k && refFreeFields (fdel m k) &&
      (match fget m k with
       | some c => c10n_aroundFree c ρ
       | none => false)
  | _, _ :: _ => false

theorem c10n_around_nil (h : String) (v : Val) : c10n_around h v [] = true := by
  cases v <;> rfl

theorem c10n_around_cons {h k : String} {m : Fields} {ρ : List String}
    (ha : c10n_around h (.map m) (k :: ρ) = true) :
    Fields.SortedKeys m ∧ refKey k = false ∧ SafeFields h (fdel m k) = true ∧
      ∃ c, fget m k = some c ∧ c10n_around h c ρ = true := by
  simp only [c10n_around, Bool.and_eq_true, Bool.not_eq_true', sortedKeysB_iff] at ha
  obtain ⟨⟨⟨h1, h2⟩, h3⟩, h4⟩ := ha
  cases hc : fget m k with
  | none => rw [hc] at h4; cases h4
  | some c => rw [hc] at h4; exact ⟨h1, h2, h3, c, rfl, h4⟩

theorem c10n_around_nonmap {h k : String} {v : Val} {ρ : List String} (hv : v.isMap = false) :
    c10n_around h v (k :: ρ) = false := by
  cases v <;> simp [Val.isMap] at hv <;> rfl

theorem c10n_around_intro {h k : String} {m : Fields} {ρ : List String} {c : Val}
    (h1 : Fields.SortedKeys m) (h2 : refKey k = false) (h3 : SafeFields h (fdel m k) = true)
    (hc : fget m k = some c) (h4 : c10n_around h c ρ = true) :
    c10n_around h (.map m) (k :: ρ) = true := by
  simp only [c10n_around, Bool.and_eq_true, Bool.not_eq_true', sortedKeysB_iff, hc]
  exact ⟨⟨⟨h1, h2⟩, h3⟩, h4⟩

theorem c10n_around_of_free (h : String) : ∀ (ρ : List String) (v : Val),
    c10n_aroundFree v ρ = true → c10n_around h v ρ = true := by
  intro ρ
  induction ρ with
  | nil => intro v _; cases v <;> rfl
  | cons k ρ ih =>
    intro v hv
    cases v with
    | map m =>
      simp only [c10n_aroundFree, Bool.and_eq_true, Bool.not_eq_true', sortedKeysB_iff] at hv
      obtain ⟨⟨⟨h1, h2⟩, h3⟩, h4⟩ := hv
      cases hc : fget m k with
      | none => rw [hc] at h4; cases h4
      | some c =>
        rw [hc] at h4
        exact c10n_around_intro h1 h2 (refFreeFields_safe h _ h3) hc (ih c h4)
    | null => cases hv
    | bool _ => cases hv
    | int _ => cases hv
    | flt _ => cases hv
    | str _ => cases hv
    | list _ => cases hv

/-! ## the relation between the two evaluations of the entry on the path -/

/-- the two runs coincide (value, error and threaded root), or they fail alike / produce the same
    value and hand back two roots that agree outside `h` and are safe outside `h` -/
def c10n_HostRel (h : String) (X Y : R (Val × Val)) : Prop :=
  X = Y ∨ ∃ b b', SafeRoot h b ∧ AgreeOff h b b' ∧ SimRel (.map b) (.map b') X Y

theorem c10n_HostRel_fst {h : String} {X Y : R (Val × Val)} (hr : c10n_HostRel h X Y) :
    Except.map Prod.fst X = Except.map Prod.fst Y := by
  rcases hr with e | ⟨b, b', _, _, hs⟩
  · rw [e]
  · exact simRel_map_fst hs

/-- the fold step at the key on the path, at any location -/
theorem c10n_sim_host {fuel : Nat} {docs : List Val} {r0 r0' r1 r2 : Val} {loc : Loc} {k : String}
    {hv hv' : Val} (hk : refKey k = false) (acc : Fields)
    (hY : SimRel r1 r2 (process1 fuel docs r0 (childLoc loc k) hv)
      (process1 fuel docs r0' (childLoc loc k) hv')) :
    SimRel r1 r2 (mapStep fuel docs loc (acc, r0) (k, hv))
      (mapStep fuel docs loc (acc, r0') (k, hv')) := by
  rw [mapStep_host hk, mapStep_host hk]
  refine simRel_bind hY (fun v2 => ?_)
  exact simRel_bind_pure _ (fun acc2 => simRel_ok _ _ _)

theorem c10n_bind_error {α β : Type} (e : Err) (F : α → R β) :
    ((Except.error e : R α) >>= F) = .error e := rfl

/-- One level: the map `m` holds `c` at the non-reference key `k`, its other entries are safe;
    the relation between the evaluations of `c` and `c'` (in place, under two roots that agree
    outside `h`) lifts to the evaluations of `m` and `m[k := c']`. -/
theorem c10n_level {h : String} {fuel : Nat} {docs : List Val} {a a' : Fields} {loc : Loc}
    {m : Fields} {k : String} {c c' : Val}
    (hinv : SafeRoot h a) (hag : AgreeOff h a a')
    (hs : Fields.SortedKeys m) (hk : refKey k = false) (hc : fget m k = some c)
    (ho : SafeFields h (fdel m k) = true)
    (hrel : c10n_HostRel h (process1 fuel docs (.map a) (childLoc loc k) c)
      (process1 fuel docs (.map a') (childLoc loc k) c')) :
    c10n_HostRel h (process1 (fuel + 1) docs (.map a) loc (.map m))
      (process1 (fuel + 1) docs (.map a') loc (.map (fset m k c'))) := by
  obtain ⟨pre, post, e1, e2, e3⟩ := sorted_split hs hc
  rw [e3, safeFields_append] at ho
  rw [e2 c']
  subst e1
  have hkf := refKey_false hk
  have hmerge : ∀ x : Val, fget (pre ++ (k, x) :: post) "$merge" = none := by
    intro x
    apply fget_none_iff.2
    intro p hp
    rcases List.mem_append.1 hp with hp | hp
    · exact (safeFields_mem ho.1 p hp).1
    · rcases List.mem_cons.1 hp with rfl | hp
      · exact hkf.1
      · exact (safeFields_mem ho.2 p hp).1
  have hrk : ("$replace" : String) ≠ k := fun e => hkf.2.1 e.symm
  have hrep : fget (pre ++ (k, c') :: post) "$replace" = fget (pre ++ (k, c) :: post) "$replace" :=
    fget_append_host_ne pre post c' c hrk
  cases hr : fget (pre ++ (k, c) :: post) "$replace" with
  | some ref =>
    -- the map on the path is itself a `$replace` host: the path is never evaluated
    have hr' := hrep.trans hr
    have hsafe : safeRef h ref = true := by
      have hm := fget_mem hr
      rcases List.mem_append.1 hm with hm | hm
      · exact (safeFields_mem ho.1 _ hm).2.2.1 rfl
      · rcases List.mem_cons.1 hm with hm | hm
        · cases hm; exact absurd rfl hrk
        · exact (safeFields_mem ho.2 _ hm).2.2.1 rfl
    rw [process1_map_replace (hmerge c) hr, process1_map_replace (hmerge c') hr']
    exact Or.inr ⟨a, a', hinv, hag, sim_get_step (process1_sim h fuel) hinv hag hsafe⟩
  | none =>
    have hr' := hrep.trans hr
    rw [process1_map_plain (hmerge c) hr, process1_map_plain (hmerge c') hr',
      List.foldlM_append, List.foldlM_append]
    have hpre := sim_fold (fuel := fuel) (docs := docs) (loc := loc) hinv hag ho.1 []
    rcases hrel with heq | ⟨b, b', hb, hbb, hsim⟩
    · left
      rcases simRel_cases hpre with ⟨e, e1, e2⟩ | ⟨acc1, e1, e2⟩
      · rw [e1, e2]; rfl
      · rw [e1, e2]
        simp only [R_bind_ok, List.foldlM_cons]
        rw [mapStep_host hk, mapStep_host hk, heq]
    · right
      refine ⟨b, b', hb, hbb, ?_⟩
      rcases simRel_cases hpre with ⟨e, e1, e2⟩ | ⟨acc1, e1, e2⟩
      · rw [e1, e2]; exact simRel_error _ _ _
      · rw [e1, e2]
        simp only [R_bind_ok, List.foldlM_cons]
        exact simRel_bind
          (simRel_bind (c10n_sim_host hk acc1 hsim)
            (fun acc2 => sim_fold (fuel := fuel) (docs := docs) (loc := loc) hb hbb ho.2 acc2))
          (fun r => simRel_ok _ _ _)

/-- The context of the host: the relation between the evaluations of `hostv` and `hostv'` at the
    end of the path `ρ` lifts, one unit of fuel per level, to the evaluations of `v` and
    `v[ρ := hostv']`. -/
theorem c10n_context {h : String} {docs : List Val} {a a' : Fields}
    (hinv : SafeRoot h a) (hag : AgreeOff h a a') {hostv hostv' : Val} {fuel : Nat} :
    ∀ (ρ : List String) (v : Val) (loc : Loc),
      c10n_around h v ρ = true → getPath v ρ = .ok hostv →
      c10n_HostRel h (process1 fuel docs (.map a) (c10n_locAt loc ρ) hostv)
        (process1 fuel docs (.map a') (c10n_locAt loc ρ) hostv') →
      c10n_HostRel h (process1 (fuel + ρ.length) docs (.map a) loc v)
        (process1 (fuel + ρ.length) docs (.map a') loc (c10n_setKeys v ρ hostv')) := by
  intro ρ
  induction ρ with
  | nil =>
    intro v loc _ hg hrel
    have : v = hostv := by cases hg; rfl
    subst this
    exact hrel
  | cons k ρ ih =>
    intro v loc har hg hrel
    cases hvm : v.isMap with
    | false => rw [c10n_around_nonmap hvm] at har; cases har
    | true =>
      cases v with
      | map m =>
        obtain ⟨hs, hk, ho, c, hc, harc⟩ := c10n_around_cons har
        have hgc : getPath c ρ = .ok hostv := by
          simp only [getPath, hc] at hg; exact hg
        have hinner := ih c (childLoc loc k) harc hgc hrel
        rw [c10n_setKeys_cons ρ hostv' hc]
        exact c10n_level hinv hag hs hk hc ho hinner
      | null => cases hvm
      | bool _ => cases hvm
      | int _ => cases hvm
      | flt _ => cases hvm
      | str _ => cases hvm
      | list _ => cases hvm

/-! ## `$replace` at depth -/

/-- what `c10n_around` says at the top of the document -/
theorem c10n_top {h : String} {kvs : Fields} {ρ : List String}
    (har : c10n_around h (.map kvs) (h :: ρ) = true) :
    SafeRoot h kvs ∧ ∃ v1, fget kvs h = some v1 ∧
      ∀ x, c10n_setKeys (.map kvs) (h :: ρ) x = .map (fset kvs h (c10n_setKeys v1 ρ x)) := by
  obtain ⟨_, _, ho, c, hc, _⟩ := c10n_around_cons har
  exact ⟨safeRoot_of_fdel ho, c, hc, fun x => c10n_setKeys_cons ρ x hc⟩

theorem c10n_inline_replace_core {fuel : Nat} {docs : List Val} {kvs : Fields} {h : String}
    {ρ : List String} {hostv ref t : Val} {ks : List String}
    (hhost : getPath (.map kvs) (h :: ρ) = .ok hostv)
    (har : c10n_around h (.map kvs) (h :: ρ) = true)
    (hfw : Forwards hostv ref) (hp : PathRef ref ks) (ht : getPath (.map kvs) ks = .ok t)
    (htf : refFree t = true) (hfuel : process1 fuel [] .null none t ≠ .error .circularRef) :
    Except.map Prod.fst (process1 (fuel + ρ.length + 2) docs (.map kvs) (some []) (.map kvs)) =
      Except.map Prod.fst
        (process1 (fuel + ρ.length + 2) docs (c10n_setKeys (.map kvs) (h :: ρ) t) (some [])
          (c10n_setKeys (.map kvs) (h :: ρ) t)) := by
  obtain ⟨hinv, v1, hv1, hset⟩ := c10n_top har
  have hag : AgreeOff h kvs (fset kvs h (c10n_setKeys v1 ρ t)) := agreeOff_fset_right kvs _
  have hrel : c10n_HostRel h
      (process1 (fuel + 1) docs (.map kvs) (c10n_locAt (some []) (h :: ρ)) hostv)
      (process1 (fuel + 1) docs (.map (fset kvs h (c10n_setKeys v1 ρ t)))
        (c10n_locAt (some []) (h :: ρ)) t) :=
    Or.inr ⟨_, _, hinv, hag, replace_host_rel hfw hp ht htf hfuel⟩
  have := c10n_context hinv hag (h :: ρ) (.map kvs) (some []) har hhost hrel
  have hlen : fuel + 1 + (h :: ρ).length = fuel + ρ.length + 2 := by
    simp only [List.length_cons]; omega
  rw [hlen, ← hset t] at this
  exact c10n_HostRel_fst this

/-! ## `$merge` at depth -/

/-- The `$merge` host at any location `loc` of `root`; `S x` is `root` with `x` written at `loc`.
    Either the two evaluations of the host entry coincide (the merged map is evaluated in place
    in both documents), or they produce the same value and leave their roots `S local`, `S nv`
    alone (a scalar or list copied into an empty host). -/
theorem c10n_merge_host_rel {fuel : Nat} {docs : List Val} {root : Val} {loc : Loc}
    {S : Val → Val} {m : Fields} {ref t nv : Val} {ks : List String}
    (hS1 : ∀ x, setLoc root loc x = S x) (hS2 : ∀ x y, setLoc (S x) loc y = S y)
    (hS3 : ∀ x, getPath (S x) ks = getPath root ks)
    (hm : fget m "$merge" = some ref) (hp : PathRef ref ks) (ht : getPath root ks = .ok t)
    (hti : MergeInlinable t) (hn : merge (.map (fdel m "$merge")) t = .ok nv)
    (hfuel : process1 fuel docs (S nv) loc nv ≠ .error .circularRef) :
    process1 (fuel + 1) docs root loc (.map m) = process1 (fuel + 1) docs (S nv) loc nv ∨
      SimRel (S (.map (fdel m "$merge"))) (S nv)
        (process1 (fuel + 1) docs root loc (.map m))
        (process1 (fuel + 1) docs (S nv) loc nv) := by
  have hg : get (S (.map (fdel m "$merge"))) docs ref = .ok t := by
    rw [hp, hS3, ht]
  rw [process1_map_merge hm, hS1, hg, R_bind_ok]
  have hmono := (process1_mono fuel docs (S nv) loc nv).eq hfuel
  have hcopy : t.isMap = false → t.isNull = false → refFree t = true →
      SimRel (S (.map (fdel m "$merge"))) (S nv)
        (mergeCont fuel docs (S (.map (fdel m "$merge"))) loc (fdel m "$merge") t)
        (process1 (fuel + 1) docs (S nv) loc nv) := by
    intro h1 h2 htf
    rw [merge_map_other _ _ h1 h2] at hn
    cases he : (fdel m "$merge").isEmpty with
    | false => rw [he] at hn; simp at hn
    | true =>
      rw [he] at hn
      simp only [if_true, Except.ok.injEq] at hn
      subst hn
      have hX : process1 fuel [] .null none t ≠ .error .circularRef := by
        rw [process1_refFree fuel t htf] at hfuel
        exact map_root_ne_circ hfuel
      have : mergeCont fuel docs (S (.map (fdel m "$merge"))) loc (fdel m "$merge") t =
          process1 fuel docs (S (.map (fdel m "$merge"))) none t := by
        cases t <;> simp [Val.isMap, Val.isNull] at h1 h2 <;> simp [mergeCont, he]
      rw [this, process1_refFree fuel t htf, process1_refFree (fuel + 1) t htf,
        (process1_mono fuel [] .null none t).eq hX]
      exact simRel_of_map _
  have hmap : ∀ s, t = .map s → fhasBool s "$replace" true = false →
      mergeCont fuel docs (S (.map (fdel m "$merge"))) loc (fdel m "$merge") t =
      process1 (fuel + 1) docs (S nv) loc nv := by
    intro s hts hr
    subst hts
    rw [merge_map_map, mergeMapMap_noreplace hr] at hn
    cases hmf : mergeFields (fdel m "$merge") s with
    | error e => rw [hmf] at hn; cases hn
    | ok next =>
      rw [hmf] at hn
      have : nv = .map next := by cases hn; rfl
      subst this
      simp only [mergeCont, hr, Bool.false_eq_true, if_false, hmf, R_bind_ok, hS2]
      rw [hmono]
  have hnull : t = .null →
      mergeCont fuel docs (S (.map (fdel m "$merge"))) loc (fdel m "$merge") t =
      process1 (fuel + 1) docs (S nv) loc nv := by
    intro htn
    subst htn
    rw [merge_map_null] at hn
    cases hn
    simp only [mergeCont]
    rw [hmono]
  rcases hti with ⟨s, hts, hr⟩ | htn | htf
  · exact Or.inl (hmap s hts hr)
  · exact Or.inl (hnull htn)
  · cases t with
    | map s =>
      simp only [refFree] at htf
      exact Or.inl (hmap s rfl (refFreeFields_no_marker htf))
    | null => exact Or.inl (hnull rfl)
    | bool b => exact Or.inr (hcopy rfl rfl htf)
    | int i => exact Or.inr (hcopy rfl rfl htf)
    | flt r => exact Or.inr (hcopy rfl rfl htf)
    | str r => exact Or.inr (hcopy rfl rfl htf)
    | list r => exact Or.inr (hcopy rfl rfl htf)

theorem c10n_inline_merge_core {fuel : Nat} {docs : List Val} {kvs m : Fields} {h k : String}
    {ρ : List String} {ref t nv : Val} {ks : List String}
    (hhost : getPath (.map kvs) (h :: ρ) = .ok (.map m))
    (har : c10n_around h (.map kvs) (h :: ρ) = true)
    (hm : fget m "$merge" = some ref) (hp : PathRef ref (k :: ks)) (hk : k ≠ h)
    (ht : getPath (.map kvs) (k :: ks) = .ok t) (hti : MergeInlinable t)
    (hn : merge (.map (fdel m "$merge")) t = .ok nv)
    (hfuel : process1 fuel docs (c10n_setKeys (.map kvs) (h :: ρ) nv)
      (some ((h :: ρ).map PathElem.key)) nv ≠ .error .circularRef) :
    Except.map Prod.fst (process1 (fuel + ρ.length + 2) docs (.map kvs) (some []) (.map kvs)) =
      Except.map Prod.fst
        (process1 (fuel + ρ.length + 2) docs (c10n_setKeys (.map kvs) (h :: ρ) nv) (some [])
          (c10n_setKeys (.map kvs) (h :: ρ) nv)) := by
  obtain ⟨hinv, v1, hv1, hset⟩ := c10n_top har
  have hag : AgreeOff h kvs (fset kvs h (c10n_setKeys v1 ρ nv)) := agreeOff_fset_right kvs _
  have hrel0 := c10n_merge_host_rel (docs := docs) (root := .map kvs)
    (loc := some ((h :: ρ).map PathElem.key)) (S := c10n_setKeys (.map kvs) (h :: ρ))
    (fun x => c10n_setLoc _ _ x)
    (fun x y => by rw [c10n_setLoc, c10n_setKeys_setKeys])
    (fun x => c10n_getPath_setKeys_other ρ ks x hk) hm hp ht hti hn hfuel
  have hrel : c10n_HostRel h
      (process1 (fuel + 1) docs (.map kvs) (c10n_locAt (some []) (h :: ρ)) (.map m))
      (process1 (fuel + 1) docs (.map (fset kvs h (c10n_setKeys v1 ρ nv)))
        (c10n_locAt (some []) (h :: ρ)) nv) := by
    rw [c10n_locAt_top, ← hset nv]
    rcases hrel0 with e | hsim
    · exact Or.inl e
    · rw [hset, hset] at hsim
      rw [hset]
      exact Or.inr ⟨_, _, safeRoot_fset _ hinv, agreeOff_fset kvs _ _, hsim⟩
  have := c10n_context hinv hag (h :: ρ) (.map kvs) (some []) har hhost hrel
  have hlen : fuel + 1 + (h :: ρ).length = fuel + ρ.length + 2 := by
    simp only [List.length_cons]; omega
  rw [hlen, ← hset nv] at this
  exact c10n_HostRel_fst this

end Bkl
