/-
  BklProofs.Lemmas.ToolsCliProofs — helper lemmas about the tool mains (`Bkl/ToolsCli.lean`):
  `getOnlyDocument`, `processOnly`, `toolFormat`, `bkldRun`, `bkliRun`, `bklrRun` as plain
  case analyses, and the evaluation of a single-file, parent-less input.
  All helper names carry the prefix `tc_`.
-/
import Bkl.ToolsCli
import BklProofs.Lemmas.C03Chain
import BklProofs.Lemmas.ToolsIntersect
import BklProofs.Lemmas.MergeList
namespace Bkl

/-! ## `checkFormat` -/

theorem tc_checkFormat_eq (f : String) :
    checkFormat f = if supportedExts.contains f then .ok f else .error .unknownFormat := by
  unfold checkFormat
  cases supportedExts.contains f <;> rfl

theorem tc_checkFormat_ok {f g : String} (h : checkFormat f = .ok g) :
    g = f ∧ f ∈ supportedExts := by
  rw [tc_checkFormat_eq] at h
  split at h
  · rename_i hc
    cases h
    exact ⟨rfl, List.contains_iff_mem.1 hc⟩
  · cases h

theorem tc_checkFormat_of_mem {f : String} (h : f ∈ supportedExts) : checkFormat f = .ok f := by
  rw [tc_checkFormat_eq, List.contains_iff_mem.2 h]; rfl

theorem tc_checkFormat_of_not_mem {f : String} (h : f ∉ supportedExts) :
    checkFormat f = .error .unknownFormat := by
  rw [tc_checkFormat_eq]
  have : supportedExts.contains f = false := by
    cases hc : supportedExts.contains f
    · rfl
    · exact absurd (List.contains_iff_mem.1 hc) h
  rw [this]; rfl

theorem tc_empty_not_supported : "" ∉ supportedExts := by decide

/-! ## `toolFormat` -/

theorem tc_toolFormat_eq (opts : ToolOpts) (fb : String) :
    toolFormat opts fb =
      if (if (opts.format.getD "" == "") = true then (opts.outPath.map extOfPath).getD ""
          else opts.format.getD "") == "" then fb
      else (if (opts.format.getD "" == "") = true then (opts.outPath.map extOfPath).getD ""
          else opts.format.getD "") := rfl

/-- `-f x` with `x ≠ ""` wins -/
theorem tc_toolFormat_f (opts : ToolOpts) (fb f : String) (hf : opts.format = some f)
    (hne : f ≠ "") : toolFormat opts fb = f := by
  rw [tc_toolFormat_eq, hf]
  simp [hne]

/-- no (or an empty) `-f`, `-o` with an extension -/
theorem tc_toolFormat_o (opts : ToolOpts) (fb o : String)
    (hf : opts.format = none ∨ opts.format = some "") (ho : opts.outPath = some o)
    (hne : extOfPath o ≠ "") : toolFormat opts fb = extOfPath o := by
  rw [tc_toolFormat_eq, ho]
  rcases hf with hf | hf <;> rw [hf] <;> simp [hne]

/-- no (or an empty) `-f`, and no `-o` or one without an extension: the fallback -/
theorem tc_toolFormat_fb (opts : ToolOpts) (fb : String)
    (hf : opts.format = none ∨ opts.format = some "")
    (ho : opts.outPath = none ∨ ∃ o, opts.outPath = some o ∧ extOfPath o = "") :
    toolFormat opts fb = fb := by
  rw [tc_toolFormat_eq]
  rcases ho with ho | ⟨o, ho, he⟩
  · rw [ho]; rcases hf with hf | hf <;> rw [hf] <;> simp
  · rw [ho]; rcases hf with hf | hf <;> rw [hf] <;> simp [he]

/-- `extOfPath` on characters (kernel-computable) -/
theorem tc_extOfPath_eq (o : String) :
    extOfPath o =
      match ((List.splitOnP (· == '.')
          ((((List.splitOnP (· == '/') o.toList).map String.ofList).filter (· != "")).getLastD
            "").toList).map String.ofList).reverse with
      | e :: _ :: _ => e
      | _ => "" := by
  unfold extOfPath
  rw [extOf_eq, splitPath_eq]
  rfl

theorem tc_ext_out_toml : extOfPath "out.toml" = "toml" := by rw [tc_extOfPath_eq]; decide
theorem tc_ext_out : extOfPath "out" = "" := by rw [tc_extOfPath_eq]; decide
theorem tc_ext_out_json : extOfPath "out.json" = "json" := by rw [tc_extOfPath_eq]; decide
theorem tc_ext_dir_out_yaml : extOfPath "d.x/out.yaml" = "yaml" := by
  rw [tc_extOfPath_eq]; decide
theorem tc_ext_dir_out : extOfPath "d.x/out" = "" := by rw [tc_extOfPath_eq]; decide

/-! ## `getOnlyDocument` -/

theorem tc_getOnlyDocument_eq (fs : FS) (cwd : Comps) (path : String) :
    getOnlyDocument fs cwd path =
      match fileMatch fs cwd path with
      | .error e => .error e
      | .ok (real, f) =>
        match mergeFileLayers fs { root := [], cwd := cwd } PState.empty real with
        | .error e => .error e
        | .ok st =>
          match st.docs with
          | [d] => .ok (d.2, f)
          | _ => .error .other := by
  unfold getOnlyDocument
  cases fileMatch fs cwd path with
  | error e => rfl
  | ok rf =>
    obtain ⟨real, f⟩ := rf
    simp only [R_bind_ok]
    cases mergeFileLayers fs { root := [], cwd := cwd } PState.empty real with
    | error e => rfl
    | ok st =>
      simp only [R_bind_ok]
      rcases st with ⟨docs, known⟩
      rcases docs with _ | ⟨d, _ | ⟨d2, tl⟩⟩ <;> rfl

/-- `getOnlyDocument` succeeds exactly when the path resolves, its layers merge, and the merged
    state holds exactly one document -/
theorem tc_getOnlyDocument_ok_iff (fs : FS) (cwd : Comps) (path : String) (d : Val) (f : String) :
    getOnlyDocument fs cwd path = .ok (d, f) ↔
      ∃ real st id, fileMatch fs cwd path = .ok (real, f) ∧
        mergeFileLayers fs { root := [], cwd := cwd } PState.empty real = .ok st ∧
        st.docs = [(id, d)] := by
  rw [tc_getOnlyDocument_eq]
  constructor
  · intro h
    cases hm : fileMatch fs cwd path with
    | error e => rw [hm] at h; cases h
    | ok rf =>
      obtain ⟨real, f'⟩ := rf
      rw [hm] at h
      simp only at h
      cases hl : mergeFileLayers fs { root := [], cwd := cwd } PState.empty real with
      | error e => rw [hl] at h; cases h
      | ok st =>
        rw [hl] at h
        simp only at h
        split at h
        · rename_i x hd
          obtain ⟨id, v⟩ := x
          cases h
          exact ⟨real, st, id, rfl, hl, hd⟩
        · cases h
  · rintro ⟨real, st, id, hm, hl, hd⟩
    rw [hm]
    simp only
    rw [hl]
    simp only
    rw [hd]

/-- the merged state has 0 or ≥ 2 documents: `getOnlyDocument` fails (with `other`) -/
theorem tc_getOnlyDocument_not_one {fs : FS} {cwd : Comps} {path : String} {real : Comps}
    {f : String} {st : PState} (hm : fileMatch fs cwd path = .ok (real, f))
    (hl : mergeFileLayers fs { root := [], cwd := cwd } PState.empty real = .ok st)
    (hn : st.docs.length ≠ 1) : getOnlyDocument fs cwd path = .error .other := by
  rw [tc_getOnlyDocument_eq, hm]
  simp only
  rw [hl]
  simp only
  split
  · rename_i x hd
    rw [hd] at hn
    exact absurd rfl hn
  · rfl

/-! ## `processOnly` -/

theorem tc_processOnly_eq (env : Vars) (data : Val) :
    processOnly env data =
      match processDoc [data] env data with
      | .error e => .error e
      | .ok [d] => .ok d
      | .ok _ => .error .other := by
  unfold processOnly
  cases processDoc [data] env data with
  | error e => rfl
  | ok l =>
    simp only [R_bind_ok]
    rcases l with _ | ⟨d, _ | ⟨d2, tl⟩⟩ <;> rfl

theorem tc_processOnly_ok_iff (env : Vars) (data d : Val) :
    processOnly env data = .ok d ↔ processDoc [data] env data = .ok [d] := by
  rw [tc_processOnly_eq]
  constructor
  · intro h
    split at h
    · cases h
    · rename_i x hx; cases h; exact hx
    · cases h
  · intro h; rw [h]

/-! ## `bkldRun` -/

theorem tc_bkldRun_two (fs : FS) (cwd : Comps) (env : Vars) (opts : ToolOpts) (b t : String)
    (hi : opts.inputs = [b, t]) :
    bkldRun fs cwd env opts =
      match getOnlyDocument fs cwd b with
      | .error e => .error e
      | .ok (base, f) =>
        match processOnly env base with
        | .error e => .error e
        | .ok base' =>
          match getOnlyDocument fs cwd t with
          | .error e => .error e
          | .ok (target, _) =>
            match processOnly env target with
            | .error e => .error e
            | .ok target' =>
              match checkFormat (toolFormat opts f) with
              | .error e => .error e
              | .ok fmt => .ok { format := fmt, doc := diffDoc target' base' } := by
  unfold bkldRun
  rw [hi]
  simp only
  cases getOnlyDocument fs cwd b with
  | error e => rfl
  | ok bf =>
    obtain ⟨base, f⟩ := bf
    simp only [R_bind_ok]
    cases processOnly env base with
    | error e => rfl
    | ok base' =>
      simp only [R_bind_ok]
      cases getOnlyDocument fs cwd t with
      | error e => rfl
      | ok tf =>
        obtain ⟨target, ft⟩ := tf
        simp only [R_bind_ok]
        cases processOnly env target with
        | error e => rfl
        | ok target' =>
          simp only [R_bind_ok]
          cases checkFormat (toolFormat opts f) <;> rfl

theorem tc_bkldRun_not_two (fs : FS) (cwd : Comps) (env : Vars) (opts : ToolOpts)
    (hi : ∀ b t, opts.inputs ≠ [b, t]) : bkldRun fs cwd env opts = .error .other := by
  unfold bkldRun
  split
  · rename_i b t h; exact absurd h (hi b t)
  · rfl

/-! ## `mapM` in `R` -/

theorem tc_mapM_ok_iff {α β : Type} (f : α → R β) : ∀ (l : List α) (ys : List β),
    l.mapM f = .ok ys ↔ List.Forall₂ (fun a b => f a = .ok b) l ys
  | [], ys => by
    rw [mapM_R_nil]
    constructor
    · intro h; cases h; exact .nil
    · intro h; cases h; rfl
  | a :: l, ys => by
    rw [mapM_R_cons]
    constructor
    · intro h
      cases ha : f a with
      | error e => rw [ha] at h; cases h
      | ok b =>
        rw [ha] at h
        simp only at h
        cases hl : l.mapM f with
        | error e => rw [hl] at h; cases h
        | ok bs =>
          rw [hl] at h
          cases h
          exact .cons ha ((tc_mapM_ok_iff f l bs).1 hl)
    · intro h
      cases h with
      | cons ha hl =>
        rw [ha]
        simp only
        rw [(tc_mapM_ok_iff f l _).2 hl]

theorem tc_mapM_error_of_mem {α β : Type} (f : α → R β) : ∀ (l : List α) (a : α), a ∈ l →
    (∃ e, f a = .error e) → ∃ e, l.mapM f = .error e
  | [], _, h, _ => nomatch h
  | x :: l, a, h, he => by
    rw [mapM_R_cons]
    cases hx : f x with
    | error e => exact ⟨e, rfl⟩
    | ok b =>
      simp only
      rcases List.mem_cons.1 h with rfl | h'
      · obtain ⟨e, he⟩ := he; rw [hx] at he; cases he
      · obtain ⟨e, hl⟩ := tc_mapM_error_of_mem f l a h' he
        rw [hl]; exact ⟨e, rfl⟩

/-! ## `bkliRun` -/

/-- what bkli emits for the merged documents `vs` -/
def tc_bkliDoc (vs : List Val) : Option Val :=
  if (intersectAll vs).isNull then none else some (intersectAll vs)

theorem tc_bkliRun_nil (fs : FS) (cwd : Comps) (opts : ToolOpts) (hi : opts.inputs = []) :
    bkliRun fs cwd opts = .error .other := by
  unfold bkliRun; rw [hi]; rfl

theorem tc_bkliRun_one (fs : FS) (cwd : Comps) (opts : ToolOpts) (p : String)
    (hi : opts.inputs = [p]) : bkliRun fs cwd opts = .error .other := by
  unfold bkliRun; rw [hi]; rfl

theorem tc_bkliRun_many (fs : FS) (cwd : Comps) (opts : ToolOpts) (first second : String)
    (rest : List String) (hi : opts.inputs = first :: second :: rest) :
    bkliRun fs cwd opts =
      match (first :: second :: rest).mapM (getOnlyDocument fs cwd) with
      | .error e => .error e
      | .ok docs =>
        match getOnlyDocument fs cwd first with
        | .error e => .error e
        | .ok (_, f) =>
          match checkFormat (toolFormat opts f) with
          | .error e => .error e
          | .ok fmt => .ok { format := fmt, doc := tc_bkliDoc (docs.map (·.1)) } := by
  unfold bkliRun
  rw [hi]
  simp only
  have : (fun p => getOnlyDocument fs cwd p) = getOnlyDocument fs cwd := rfl
  rw [this]
  cases (first :: second :: rest).mapM (getOnlyDocument fs cwd) with
  | error e => rfl
  | ok docs =>
    simp only [R_bind_ok]
    cases getOnlyDocument fs cwd first with
    | error e => rfl
    | ok df =>
      obtain ⟨d, f⟩ := df
      simp only [R_bind_ok]
      cases checkFormat (toolFormat opts f) <;> rfl

/-! ## `bklrRun` -/

theorem tc_bklrRun_one (fs : FS) (cwd : Comps) (opts : ToolOpts) (path : String)
    (hi : opts.inputs = [path]) :
    bklrRun fs cwd opts =
      match getOnlyDocument fs cwd path with
      | .error e => .error e
      | .ok (data, f) =>
        match checkFormat
          (match opts.format with
            | some x => x
            | none => match opts.outPath with | some o => extOfPath o | none => f) with
        | .error e => .error e
        | .ok fmt => .ok { format := fmt, doc := required data } := by
  unfold bklrRun
  rw [hi]
  simp only
  cases getOnlyDocument fs cwd path with
  | error e => rfl
  | ok df =>
    obtain ⟨data, f⟩ := df
    simp only [R_bind_ok]
    cases checkFormat
      (match opts.format with
        | some x => x
        | none => match opts.outPath with | some o => extOfPath o | none => f) <;> rfl

theorem tc_bklrRun_not_one (fs : FS) (cwd : Comps) (opts : ToolOpts)
    (hi : ∀ p, opts.inputs ≠ [p]) : bklrRun fs cwd opts = .error .other := by
  unfold bklrRun
  split
  · rename_i p h; exact absurd h (hi p)
  · rfl

/-! ## a single-document, parent-less input file -/

/-- `v` is not a map carrying the key `k` at its top level -/
def tc_noKey (k : String) : Val → Bool
  | .map kvs => (fget kvs k).isNone
  | _ => true

theorem tc_parentDirective_of_noKey {v : Val} (h : tc_noKey "$parent" v = true) :
    parentDirective v = .ok .absent := by
  cases v with
  | map kvs =>
    simp only [tc_noKey, Option.isNone_iff_eq_none] at h
    simp only [parentDirective, h]
    rfl
  | _ => rfl

/-- the first document merged into an empty parser state is appended as it is, unless it is a
    map with a `$match` key -/
theorem tc_mergeDocument_first (id : String) (v : Val) (h : tc_noKey "$match" v = true) :
    mergeDocument PState.empty { id := id, parents := [], data := v } =
      .ok { docs := [(id, v)], known := [(id, [])] } := by
  cases v with
  | map kvs =>
    simp only [tc_noKey, Option.isNone_iff_eq_none] at h
    simp only [mergeDocument, h]
    rfl
  | _ => rfl

theorem tc_layers_single {fs : FS} {d cwd : Comps} {l e₀ : String} {v : Val}
    (hd : PlainDir fs d) (hl : 0 < l.length) (h : LayerFile fs d l e₀ (.ok [v]))
    (h1 : (l.splitOn ".").length = 1) (ha : parentDirective v = .ok .absent) (st : PState) :
    mergeFileLayers fs ⟨[], cwd⟩ st (d ++ [l ++ "." ++ e₀]) =
      mergeDocument st (oneDoc (pathStr (d ++ [l ++ "." ++ e₀])) [] v) := by
  have hp : fileParents fs ⟨[], cwd⟩ (d ++ [l ++ "." ++ e₀]) [v] = .ok [] := by
    rw [fileParents_layer ⟨[], cwd⟩ hd hl h (by simpa using ha), if_pos h1]
  rw [mergeFileLayers_eq, show loadFuel = 63 + 1 from rfl,
    lfp_gen1 (fun fid => loadFile_layerFile hd hl h cwd fid) hp 63 none [] [] rfl,
    stripParent_of_absent v ha]
  simp only [mergeFiles, List.foldlM_cons, List.foldlM_nil, fileIdOf]
  cases mergeDocument st (oneDoc (pathStr (d ++ [l ++ "." ++ e₀])) [] v) <;> rfl

/-- the tools' view of a single-document file without parents: its document, unchanged -/
theorem tc_getOnly_single {fs : FS} {d cwd : Comps} {arg l e e₀ : String} {v : Val}
    (habs : absPath cwd arg = d ++ [l ++ "." ++ e]) (he : e ∈ supportedExts)
    (hd : PlainDir fs d) (hl : 0 < l.length) (h : LayerFile fs d l e₀ (.ok [v]))
    (h1 : (l.splitOn ".").length = 1)
    (hp : tc_noKey "$parent" v = true) (hm : tc_noKey "$match" v = true) :
    getOnlyDocument fs cwd arg = .ok (v, e) := by
  have hstem : ".".intercalate (l.splitOn ".") = l := intercalate_splitOn_dot l
  rw [tc_getOnlyDocument_eq, fileMatch_layer habs he hstem hd hl h]
  simp only
  rw [tc_layers_single hd hl h h1 (tc_parentDirective_of_noKey hp), oneDoc,
    tc_mergeDocument_first _ _ hm]

/-- a file with several (or no) documents, none of them a layer of another: every document
    without `$parent` and `$match` is appended -/
theorem tc_layers_multi {fs : FS} {d cwd : Comps} {l e₀ : String} {raw : List Val}
    (hd : PlainDir fs d) (hl : 0 < l.length) (h : LayerFile fs d l e₀ (.ok raw))
    (h1 : (l.splitOn ".").length = 1) (ha : ∀ x ∈ raw, parentDirective x = .ok .absent)
    (st : PState) :
    mergeFileLayers fs ⟨[], cwd⟩ st (d ++ [l ++ "." ++ e₀]) =
      runMerges st (mineOf (pathStr (d ++ [l ++ "." ++ e₀])) (d ++ [l ++ "." ++ e₀]) raw [] []).docs := by
  have hp : fileParents fs ⟨[], cwd⟩ (d ++ [l ++ "." ++ e₀]) raw = .ok [] := by
    rw [fileParents_layer ⟨[], cwd⟩ hd hl h ha, if_pos h1]
  rw [mergeFileLayers_eq, show loadFuel = 63 + 1 from rfl,
    lfp_leaf (childId := none) (c := []) (chain := []) rfl
      (loadFile_layerFile hd hl h cwd _) hp]
  simp only [mergeFiles, List.foldlM_cons, List.foldlM_nil, fileIdOf, runMerges]
  cases List.foldlM mergeDocument st
    (mineOf (pathStr (d ++ [l ++ "." ++ e₀])) (d ++ [l ++ "." ++ e₀]) raw [] []).docs <;> rfl

/-! ## sample file system for the non-vacuity examples

    /w/a.yaml, /w/t.yaml, /w/c.json (one document each), /w/two.yaml (two documents),
    /w/none.yaml (no document), /w/r.yaml (a document with `$required` markers) -/

def tc_base : Val := .map [("a", .int 1), ("b", .str "x")]
def tc_target : Val := .map [("a", .int 2), ("c", .bool true)]
def tc_third : Val := .map [("a", .int 1), ("b", .str "y")]
def tc_req : Val :=
  .map [("a", .str "$required"), ("b", .int 1), ("c", .list [.str "$required", .int 2])]

def tc_toolFS : FS := ⟨[
  (["w"], .dir),
  (["w", "a.yaml"], .file (.ok [tc_base])),
  (["w", "t.yaml"], .file (.ok [tc_target])),
  (["w", "c.json"], .file (.ok [tc_third])),
  (["w", "two.yaml"], .file (.ok [tc_base, tc_target])),
  (["w", "none.yaml"], .file (.ok [])),
  (["w", "r.yaml"], .file (.ok [tc_req]))]⟩

theorem tc_toolFS_plain : PlainDir tc_toolFS ["w"] :=
  plainDir_single (n := .dir) (by decide) (by decide) rfl

theorem tc_toolFS_a : LayerFile tc_toolFS ["w"] "a" "yaml" (.ok [tc_base]) :=
  layerFile_of_decide (by decide) (by decide) (fun _ => by decide) (fun _ => by decide)
    (fun _ => by decide) (fun _ => by decide) (fun h => absurd rfl h) (fun _ => by decide)

theorem tc_toolFS_t : LayerFile tc_toolFS ["w"] "t" "yaml" (.ok [tc_target]) :=
  layerFile_of_decide (by decide) (by decide) (fun _ => by decide) (fun _ => by decide)
    (fun _ => by decide) (fun _ => by decide) (fun h => absurd rfl h) (fun _ => by decide)

theorem tc_toolFS_c : LayerFile tc_toolFS ["w"] "c" "json" (.ok [tc_third]) :=
  layerFile_of_decide (by decide) (by decide) (fun h => absurd rfl h) (fun _ => by decide)
    (fun _ => by decide) (fun _ => by decide) (fun _ => by decide) (fun _ => by decide)

theorem tc_toolFS_two : LayerFile tc_toolFS ["w"] "two" "yaml" (.ok [tc_base, tc_target]) :=
  layerFile_of_decide (by decide) (by decide) (fun _ => by decide) (fun _ => by decide)
    (fun _ => by decide) (fun _ => by decide) (fun h => absurd rfl h) (fun _ => by decide)

theorem tc_toolFS_none : LayerFile tc_toolFS ["w"] "none" "yaml" (.ok []) :=
  layerFile_of_decide (by decide) (by decide) (fun _ => by decide) (fun _ => by decide)
    (fun _ => by decide) (fun _ => by decide) (fun h => absurd rfl h) (fun _ => by decide)

theorem tc_toolFS_r : LayerFile tc_toolFS ["w"] "r" "yaml" (.ok [tc_req]) :=
  layerFile_of_decide (by decide) (by decide) (fun _ => by decide) (fun _ => by decide)
    (fun _ => by decide) (fun _ => by decide) (fun h => absurd rfl h) (fun _ => by decide)

theorem tc_parts_one (c : String) (h : '.' ∉ c.toList) : (c.splitOn ".").length = 1 := by
  rw [splitOn_dot_plain c h]; rfl

theorem tc_abs_w (arg : String) (h1 : isAbsPath arg = false)
    (h2 : ((List.splitOnP (· == '/') arg.toList).map String.ofList).filter (· != "") = [arg])
    (h3 : plainComp arg = true) : absPath ["w"] arg = ["w"] ++ [arg] := by
  rw [absPath_rel h1 (splitPath_lit arg [arg] h2)]
  exact cleanComps_of_plain _ (by
    intro c hc
    simp only [List.cons_append, List.nil_append, List.mem_cons, List.not_mem_nil, or_false] at hc
    rcases hc with rfl | rfl
    · decide
    · exact h3)

theorem tc_toolFS_get_a : getOnlyDocument tc_toolFS ["w"] "a.yaml" = .ok (tc_base, "yaml") :=
  tc_getOnly_single (d := ["w"]) (l := "a") (e := "yaml")
    (tc_abs_w "a.yaml" (by simp [isAbsPath]) (by decide) (by decide)) (by decide)
    tc_toolFS_plain (by decide) tc_toolFS_a (tc_parts_one _ (by decide)) (by decide) (by decide)

theorem tc_toolFS_get_t : getOnlyDocument tc_toolFS ["w"] "t.yaml" = .ok (tc_target, "yaml") :=
  tc_getOnly_single (d := ["w"]) (l := "t") (e := "yaml")
    (tc_abs_w "t.yaml" (by simp [isAbsPath]) (by decide) (by decide)) (by decide)
    tc_toolFS_plain (by decide) tc_toolFS_t (tc_parts_one _ (by decide)) (by decide) (by decide)

theorem tc_toolFS_get_c : getOnlyDocument tc_toolFS ["w"] "c.json" = .ok (tc_third, "json") :=
  tc_getOnly_single (d := ["w"]) (l := "c") (e := "json")
    (tc_abs_w "c.json" (by simp [isAbsPath]) (by decide) (by decide)) (by decide)
    tc_toolFS_plain (by decide) tc_toolFS_c (tc_parts_one _ (by decide)) (by decide) (by decide)

/-- the argument names `a.toml`; FileMatch finds `a.yaml` and reports the format `toml` -/
theorem tc_toolFS_get_a_toml :
    getOnlyDocument tc_toolFS ["w"] "a.toml" = .ok (tc_base, "toml") :=
  tc_getOnly_single (d := ["w"]) (l := "a") (e := "toml")
    (tc_abs_w "a.toml" (by simp [isAbsPath]) (by decide) (by decide)) (by decide)
    tc_toolFS_plain (by decide) tc_toolFS_a (tc_parts_one _ (by decide)) (by decide) (by decide)

theorem tc_toolFS_get_r : getOnlyDocument tc_toolFS ["w"] "r.yaml" = .ok (tc_req, "yaml") :=
  tc_getOnly_single (d := ["w"]) (l := "r") (e := "yaml")
    (tc_abs_w "r.yaml" (by simp [isAbsPath]) (by decide) (by decide)) (by decide)
    tc_toolFS_plain (by decide) tc_toolFS_r (tc_parts_one _ (by decide)) (by decide) (by decide)

theorem tc_toolFS_match_two :
    fileMatch tc_toolFS ["w"] "two.yaml" = .ok (["w", "two.yaml"], "yaml") :=
  fileMatch_layer (d := ["w"]) (l := "two") (e := "yaml")
    (tc_abs_w "two.yaml" (by simp [isAbsPath]) (by decide) (by decide)) (by decide)
    (intercalate_splitOn_dot _) tc_toolFS_plain (by decide) tc_toolFS_two

theorem tc_toolFS_match_none :
    fileMatch tc_toolFS ["w"] "none.yaml" = .ok (["w", "none.yaml"], "yaml") :=
  fileMatch_layer (d := ["w"]) (l := "none") (e := "yaml")
    (tc_abs_w "none.yaml" (by simp [isAbsPath]) (by decide) (by decide)) (by decide)
    (intercalate_splitOn_dot _) tc_toolFS_plain (by decide) tc_toolFS_none

theorem tc_toolFS_layers_two :
    mergeFileLayers tc_toolFS ⟨[], ["w"]⟩ PState.empty ["w", "two.yaml"] =
      .ok { docs := [("/w/two.yaml|doc0", tc_base), ("/w/two.yaml|doc1", tc_target)],
            known := [("/w/two.yaml|doc0", []), ("/w/two.yaml|doc1", [])] } := by
  have := tc_layers_multi (cwd := ["w"]) tc_toolFS_plain (by decide) tc_toolFS_two
    (tc_parts_one _ (by decide))
    (by
      intro x hx
      simp only [List.mem_cons, List.not_mem_nil, or_false] at hx
      rcases hx with rfl | rfl <;> rfl) PState.empty
  rw [show (["w", "two.yaml"] : Comps) = ["w"] ++ ["two" ++ "." ++ "yaml"] by decide, this]
  rfl

theorem tc_toolFS_layers_none :
    mergeFileLayers tc_toolFS ⟨[], ["w"]⟩ PState.empty ["w", "none.yaml"] = .ok PState.empty := by
  have := tc_layers_multi (cwd := ["w"]) tc_toolFS_plain (by decide) tc_toolFS_none
    (tc_parts_one _ (by decide)) (by intro x hx; cases hx) PState.empty
  rw [show (["w", "none.yaml"] : Comps) = ["w"] ++ ["none" ++ "." ++ "yaml"] by decide, this]
  rfl

/-! ## merged documents never carry a top-level `$parent` / `$match` key

    `$parent` is stripped from every document when its file is loaded, `$match` when the
    document is merged, and `merge` never invents a top-level key. -/

theorem tc_mergeListList_list {d s : List Val} {r : Val} (h : mergeListList d s = .ok r) :
    ∃ l, r = .list l := by
  cases hany : s.any (fun x => x == Val.str "$replace") with
  | true => rw [mergeListList_replace_string d hany] at h; cases h; exact ⟨_, rfl⟩
  | false =>
    rw [mergeListList_no_string d hany] at h
    cases hp : popListMapBool s "$replace" true with
    | error e => rw [hp] at h; cases h
    | ok p =>
      obtain ⟨rep2, s2⟩ := p
      rw [hp] at h
      simp only at h
      split at h
      · cases h; exact ⟨_, rfl⟩
      · cases he : mergeEntries (dropRequired d) s with
        | error e => rw [he] at h; cases h
        | ok x => rw [he] at h; cases h; exact ⟨_, rfl⟩

/-- `merge` never invents a top-level key -/
theorem tc_merge_noKey {k : String} {d s r : Val} (hd : tc_noKey k d = true)
    (hs : tc_noKey k s = true) (h : merge d s = .ok r) : tc_noKey k r = true := by
  rcases merge_ok_cases h with rfl | rfl | ⟨dm, sm, rfl, rfl⟩ | ⟨dl, sl, rfl, rfl⟩
  · exact hs
  · exact hd
  · simp only [tc_noKey, Option.isNone_iff_eq_none] at hd hs
    rw [merge_map_map] at h
    cases hr : fhasBool sm "$replace" true with
    | true =>
      rw [mergeMapMap_replace hr] at h
      cases h
      simp only [tc_noKey, Option.isNone_iff_eq_none, fget_fdel]
      split
      · rfl
      · exact hs
    | false =>
      rw [mergeMapMap_noreplace hr] at h
      cases hf : mergeFields dm sm with
      | error e => rw [hf] at h; cases h
      | ok rm =>
        rw [hf] at h
        cases h
        simp only [tc_noKey, Option.isNone_iff_eq_none]
        rw [mergeFields_frame hs hf]
        exact hd
  · rw [merge_list_list] at h
    obtain ⟨l, rfl⟩ := tc_mergeListList_list h
    rfl

/-- neither a top-level `$parent` nor a top-level `$match` key -/
def tc_clean (v : Val) : Bool := tc_noKey "$parent" v && tc_noKey "$match" v

theorem tc_clean_iff {v : Val} :
    tc_clean v = true ↔ tc_noKey "$parent" v = true ∧ tc_noKey "$match" v = true := by
  simp [tc_clean]

theorem tc_merge_clean {d s r : Val} (hd : tc_clean d = true) (hs : tc_clean s = true)
    (h : merge d s = .ok r) : tc_clean r = true := by
  rw [tc_clean_iff] at *
  exact ⟨tc_merge_noKey hd.1 hs.1 h, tc_merge_noKey hd.2 hs.2 h⟩

def tc_cleanState (st : PState) : Prop := ∀ p ∈ st.docs, tc_clean p.2 = true

theorem tc_cleanState_empty : tc_cleanState PState.empty := by
  intro p hp; cases hp

theorem tc_mergeInto_clean {st st' : PState} {pid : String} {targets : List String} {body : Val}
    (hst : tc_cleanState st) (hb : tc_clean body = true)
    (h : mergeInto st pid targets body = .ok st') : tc_cleanState st' := by
  unfold mergeInto at h
  cases hm : st.docs.mapM (fun (x : String × Val) =>
      if targets.contains x.1 then do pure (x.1, ← merge x.2 body) else pure (x.1, x.2)) with
  | error e =>
    have : (st.docs.mapM fun (x : String × Val) =>
      match x with
      | (id, d) => if targets.contains id then do pure (id, ← merge d body) else pure (id, d)) =
        .error e := hm
    rw [this] at h; cases h
  | ok docs =>
    have : (st.docs.mapM fun (x : String × Val) =>
      match x with
      | (id, d) => if targets.contains id then do pure (id, ← merge d body) else pure (id, d)) =
        .ok docs := hm
    rw [this] at h
    cases h
    have hf := (tc_mapM_ok_iff _ _ _).1 hm
    intro p hp
    simp only at hp
    have key : ∀ (l : List (String × Val)) (l' : List (String × Val)),
        List.Forall₂ (fun (a b : String × Val) =>
          (if targets.contains a.1 then do pure (a.1, ← merge a.2 body) else pure (a.1, a.2) :
            R (String × Val)) = .ok b) l l' →
        (∀ q ∈ l, tc_clean q.2 = true) → ∀ q ∈ l', tc_clean q.2 = true := by
      intro l l' hfa
      induction hfa with
      | nil => intro _ q hq; cases hq
      | @cons a b la lb hab _ ih =>
        intro hall q hq
        rcases List.mem_cons.1 hq with rfl | hq'
        · have ha := hall a List.mem_cons_self
          split at hab
          · cases hmg : merge a.2 body with
            | error e => rw [hmg] at hab; cases hab
            | ok r =>
              rw [hmg] at hab
              cases hab
              exact tc_merge_clean ha hb hmg
          · cases hab; exact ha
        · exact ih (fun q hq => hall q (List.mem_cons_of_mem _ hq)) q hq'
    exact key _ _ hf hst p hp

theorem tc_cleanState_append {st : PState} (hst : tc_cleanState st) (id : String) (v : Val)
    (hv : tc_clean v = true) (known : List (String × List String)) :
    tc_cleanState { docs := st.docs ++ [(id, v)], known := known } := by
  intro p hp
  simp only [List.mem_append, List.mem_cons, List.not_mem_nil, or_false] at hp
  rcases hp with hp | rfl
  · exact hst p hp
  · exact hv

/-- one `MergeDocument` step keeps the state clean, provided the patch has no `$parent` key -/
theorem tc_mergeDocument_clean {st st' : PState} {patch : Doc} (hst : tc_cleanState st)
    (hp : tc_noKey "$parent" patch.data = true) (h : mergeDocument st patch = .ok st') :
    tc_cleanState st' := by
  have hst0 : tc_cleanState { st with known := addParents st.known patch.id patch.parents } := hst
  -- the default branch
  have dflt : ∀ body, tc_clean body = true →
      (if (parentsOf { st with known := addParents st.known patch.id patch.parents }
            patch.parents).isEmpty then
          (pure { docs := st.docs ++ [(patch.id, body)],
                  known := addParents st.known patch.id patch.parents } : R PState)
        else mergeInto { st with known := addParents st.known patch.id patch.parents } patch.id
          (parentsOf { st with known := addParents st.known patch.id patch.parents } patch.parents)
          body) = .ok st' → tc_cleanState st' := by
    intro body hb hd
    split at hd
    · cases hd; exact tc_cleanState_append hst _ _ hb _
    · exact tc_mergeInto_clean hst0 hb hd
  cases hdata : patch.data with
  | map kvs =>
    rw [hdata] at hp
    simp only [tc_noKey, Option.isNone_iff_eq_none] at hp
    unfold mergeDocument at h
    rw [hdata] at h
    simp only at h
    cases hm : fget kvs "$match" with
    | none =>
      rw [hm] at h
      simp only at h
      refine dflt (.map kvs) ?_ h
      simp [tc_clean, tc_noKey, hp, hm]
    | some pat =>
      rw [hm] at h
      simp only at h
      have hb : tc_clean (.map (fdel kvs "$match")) = true := by
        simp only [tc_clean, tc_noKey, Bool.and_eq_true, Option.isNone_iff_eq_none]
        exact ⟨by rw [fget_fdel_ne _ _ _ (by decide)]; exact hp, fget_fdel_same _ _⟩
      split at h
      · cases h
        exact tc_cleanState_append hst _ _ hb _
      · split at h
        · cases h
        · exact tc_mergeInto_clean hst0 hb h
  | null | bool _ | int _ | flt _ | str _ | list _ =>
    unfold mergeDocument at h
    rw [hdata] at h
    exact dflt _ rfl h

theorem tc_runMerges_clean : ∀ (ps : List Doc) (st st' : PState), tc_cleanState st →
    (∀ p ∈ ps, tc_noKey "$parent" p.data = true) → runMerges st ps = .ok st' → tc_cleanState st'
  | [], st, st', hst, _, h => by rw [runMerges_nil] at h; cases h; exact hst
  | p :: ps, st, st', hst, hps, h => by
    rw [runMerges_cons] at h
    cases hm : mergeDocument st p with
    | error e => rw [hm] at h; cases h
    | ok st1 =>
      rw [hm] at h
      exact tc_runMerges_clean ps st1 st'
        (tc_mergeDocument_clean hst (hps p List.mem_cons_self) hm)
        (fun q hq => hps q (List.mem_cons_of_mem _ hq)) h

/-- every document of every loaded file has had its `$parent` stripped -/
def tc_filesStripped (files : List LFile) : Prop :=
  ∀ f ∈ files, ∀ p ∈ f.docs, tc_noKey "$parent" p.data = true

theorem tc_mergeFiles_clean : ∀ (files : List LFile) (st st' : PState), tc_cleanState st →
    tc_filesStripped files → mergeFiles st files = .ok st' → tc_cleanState st'
  | [], st, st', hst, _, h => by cases h; exact hst
  | f :: files, st, st', hst, hf, h => by
    unfold mergeFiles at h
    rw [List.foldlM_cons] at h
    cases hm : runMerges st f.docs with
    | error e =>
      have : List.foldlM mergeDocument st f.docs = .error e := hm
      rw [this] at h; cases h
    | ok st1 =>
      have : List.foldlM mergeDocument st f.docs = .ok st1 := hm
      rw [this] at h
      exact tc_mergeFiles_clean files st1 st'
        (tc_runMerges_clean _ _ _ hst (hf f List.mem_cons_self) hm)
        (fun g hg => hf g (List.mem_cons_of_mem _ hg)) h

theorem tc_noKey_stripParent (v : Val) : tc_noKey "$parent" (stripParent v) = true := by
  cases v with
  | map kvs =>
    simp only [stripParent]
    by_cases hh : fhas kvs "$parent" = true
    · rw [if_pos hh]
      simp only [tc_noKey, Option.isNone_iff_eq_none]; exact fget_fdel_same _ _
    · rw [if_neg hh]
      have : fget kvs "$parent" = none := fhas_eq_false_iff.1 (by simpa using hh)
      simp [tc_noKey, this]
  | _ => rfl

theorem tc_mineOf_stripped (fid : String) (path : Comps) (raw : List Val) (parents : List Comps)
    (files : List LFile) : ∀ p ∈ (mineOf fid path raw parents files).docs,
      tc_noKey "$parent" p.data = true := by
  intro p hp
  simp only [mineOf, List.mem_map] at hp
  obtain ⟨⟨d, i⟩, hmem, rfl⟩ := hp
  have := (List.of_mem_zip hmem).1
  obtain ⟨w, _, rfl⟩ := List.mem_map.1 this
  exact tc_noKey_stripParent w

theorem tc_load_stripped (fs : FS) (cfg : RootCfg) : ∀ (fuel : Nat) (path : Comps)
    (childId : Option String) (c : List String) (chain : List Comps) (files : List LFile)
    (ids : List String),
    loadFileAndParents fs cfg fuel path childId c chain = .ok (files, ids) →
      tc_filesStripped files
  | 0, path, childId, c, chain, files, ids, h => by
    rw [loadFileAndParents] at h; cases h
  | fuel + 1, path, childId, c, chain, files, ids, h => by
    rw [loadFileAndParents_succ] at h
    split at h
    · cases h
    · cases hl : loadFile fs cfg path (fileIdOf childId path) with
      | error e => rw [hl] at h; cases h
      | ok raw =>
        rw [hl] at h
        simp only at h
        cases hp : fileParents fs cfg path raw with
        | error e => rw [hp] at h; cases h
        | ok parents =>
          rw [hp] at h
          simp only at h
          -- the loop over the parents
          have subs : ∀ (ps : List Comps) (acc out : List LFile) (fid : String)
              (dids : List String) (ch : List Comps),
              tc_filesStripped acc → loadSubs fs cfg fuel fid dids ch ps acc = .ok out →
              tc_filesStripped out := by
            intro ps
            induction ps with
            | nil => intro acc out fid dids ch hacc hs; cases hs; exact hacc
            | cons q qs ih =>
              intro acc out fid dids ch hacc hs
              rw [loadSubs] at hs
              cases hq : loadFileAndParents fs cfg fuel q (some fid) dids ch with
              | error e => rw [hq] at hs; cases hs
              | ok r =>
                obtain ⟨fsub, x⟩ := r
                rw [hq] at hs
                simp only at hs
                refine ih _ _ _ _ _ ?_ hs
                intro f hf
                rcases List.mem_append.1 hf with hf | hf
                · exact hacc f hf
                · exact tc_load_stripped fs cfg fuel q (some fid) dids ch fsub x hq f hf
          cases hs : loadSubs fs cfg fuel (fileIdOf childId path)
              (docIdsOf (fileIdOf childId path) raw.length) (path :: chain) parents [] with
          | error e => rw [hs] at h; cases h
          | ok sub =>
            rw [hs] at h
            cases h
            intro f hf
            rcases List.mem_append.1 hf with hf | hf
            · exact subs parents [] sub _ _ _ (by intro f hf; cases hf) hs f hf
            · have : f = mineOf (fileIdOf childId path) path raw parents sub := by simpa using hf
              subst this
              exact tc_mineOf_stripped _ _ _ _ _

/-- `MergeFileLayers` into a clean state gives a clean state -/
theorem tc_mergeFileLayers_clean {fs : FS} {cfg : RootCfg} {st st' : PState} {path : Comps}
    (hst : tc_cleanState st) (h : mergeFileLayers fs cfg st path = .ok st') :
    tc_cleanState st' := by
  rw [mergeFileLayers_eq] at h
  cases hl : loadFileAndParents fs cfg loadFuel path none [] [] with
  | error e => rw [hl] at h; cases h
  | ok r =>
    obtain ⟨files, ids⟩ := r
    rw [hl] at h
    exact tc_mergeFiles_clean files st st' hst (tc_load_stripped fs cfg _ _ _ _ _ _ _ hl) h

/-- the document the tools work on never has a top-level `$parent` or `$match` key -/
theorem tc_getOnlyDocument_clean {fs : FS} {cwd : Comps} {path : String} {d : Val} {f : String}
    (h : getOnlyDocument fs cwd path = .ok (d, f)) : tc_clean d = true := by
  obtain ⟨real, st, id, _, hl, hd⟩ := (tc_getOnlyDocument_ok_iff fs cwd path d f).1 h
  have := tc_mergeFileLayers_clean tc_cleanState_empty hl (id, d) (by rw [hd]; exact List.mem_cons_self)
  exact this

/-! ## `required` keeps top-level keys among the original ones -/

theorem tc_fget_requiredFields_none (k : String) : ∀ (kvs : Fields), fget kvs k = none →
    fget (requiredFields kvs) k = none
  | [], _ => rfl
  | (k', v) :: rest, h => by
    simp only [fget] at h
    split at h
    · cases h
    · rename_i hne
      simp only [requiredFields]
      cases required v with
      | none => exact tc_fget_requiredFields_none k rest h
      | some v' =>
        simp only [fget, if_neg hne]
        exact tc_fget_requiredFields_none k rest h

theorem tc_required_noKey {k : String} {v r : Val} (hv : tc_noKey k v = true)
    (h : required v = some r) : tc_noKey k r = true := by
  cases v with
  | map kvs =>
    simp only [tc_noKey, Option.isNone_iff_eq_none] at hv
    simp only [required] at h
    split at h
    · cases h
    · cases h
      simp only [tc_noKey, Option.isNone_iff_eq_none]
      exact tc_fget_requiredFields_none k kvs hv
  | list xs =>
    simp only [required] at h
    split at h
    · cases h
    · cases h; rfl
  | str s =>
    simp only [required] at h
    split at h
    · cases h; rfl
    · cases h
  | null | bool _ | int _ | flt _ => simp [required] at h

theorem tc_required_clean {v r : Val} (hv : tc_clean v = true) (h : required v = some r) :
    tc_clean r = true := by
  rw [tc_clean_iff] at *
  exact ⟨tc_required_noKey hv.1 h, tc_required_noKey hv.2 h⟩

/-! ## the file system holding one tool output: `/w/out.<fmt>` -/

def tc_outFS (fmt : String) (out : Val) : FS :=
  ⟨[(["w"], .dir), (["w", "out" ++ "." ++ fmt], .file (.ok [out]))]⟩

theorem tc_outFS_plain (fmt : String) (out : Val) : PlainDir (tc_outFS fmt out) ["w"] :=
  plainDir_single (n := .dir) (by decide) rfl rfl

theorem tc_outFS_layer (fmt : String) (hf : fmt ∈ supportedExts) (out : Val) :
    LayerFile (tc_outFS fmt out) ["w"] "out" fmt (.ok [out]) := by
  simp only [supportedExts, List.mem_cons, List.not_mem_nil, or_false] at hf
  rcases hf with rfl | rfl | rfl | rfl | rfl | rfl
  · exact layerFile_of_decide (by decide) rfl (fun h => absurd rfl h) (fun _ => rfl)
      (fun _ => rfl) (fun _ => rfl) (fun _ => rfl) (fun _ => rfl)
  · exact layerFile_of_decide (by decide) rfl (fun _ => rfl) (fun h => absurd rfl h)
      (fun _ => rfl) (fun _ => rfl) (fun _ => rfl) (fun _ => rfl)
  · exact layerFile_of_decide (by decide) rfl (fun _ => rfl) (fun _ => rfl)
      (fun h => absurd rfl h) (fun _ => rfl) (fun _ => rfl) (fun _ => rfl)
  · exact layerFile_of_decide (by decide) rfl (fun _ => rfl) (fun _ => rfl)
      (fun _ => rfl) (fun h => absurd rfl h) (fun _ => rfl) (fun _ => rfl)
  · exact layerFile_of_decide (by decide) rfl (fun _ => rfl) (fun _ => rfl)
      (fun _ => rfl) (fun _ => rfl) (fun h => absurd rfl h) (fun _ => rfl)
  · exact layerFile_of_decide (by decide) rfl (fun _ => rfl) (fun _ => rfl)
      (fun _ => rfl) (fun _ => rfl) (fun _ => rfl) (fun h => absurd rfl h)

theorem tc_outFS_abs (fmt : String) (hf : fmt ∈ supportedExts) :
    absPath ["w"] ("out" ++ "." ++ fmt) = ["w"] ++ ["out" ++ "." ++ fmt] := by
  simp only [supportedExts, List.mem_cons, List.not_mem_nil, or_false] at hf
  rcases hf with rfl | rfl | rfl | rfl | rfl | rfl <;>
    exact tc_abs_w _ (by simp [isAbsPath]) (by decide) (by decide)

/-- the tools' view of `/w/out.<fmt>`: the stored document -/
theorem tc_outFS_get (fmt : String) (hf : fmt ∈ supportedExts) (out : Val)
    (hc : tc_clean out = true) :
    getOnlyDocument (tc_outFS fmt out) ["w"] ("out" ++ "." ++ fmt) = .ok (out, fmt) :=
  tc_getOnly_single (d := ["w"]) (l := "out") (e := fmt) (tc_outFS_abs fmt hf) hf
    (tc_outFS_plain fmt out) (by decide) (tc_outFS_layer fmt hf out)
    (tc_parts_one _ (by decide)) (tc_clean_iff.1 hc).1 (tc_clean_iff.1 hc).2

/-! ## success of the three mains, as equivalences -/

theorem tc_bkldRun_ok_iff (fs : FS) (cwd : Comps) (env : Vars) (opts : ToolOpts) (r : ToolResult) :
    bkldRun fs cwd env opts = .ok r ↔
      ∃ b t base target f ft base' target',
        opts.inputs = [b, t] ∧
        getOnlyDocument fs cwd b = .ok (base, f) ∧ getOnlyDocument fs cwd t = .ok (target, ft) ∧
        processOnly env base = .ok base' ∧ processOnly env target = .ok target' ∧
        toolFormat opts f ∈ supportedExts ∧
        r = { format := toolFormat opts f, doc := diffDoc target' base' } := by
  constructor
  · intro h
    by_cases hi : ∃ b t, opts.inputs = [b, t]
    · obtain ⟨b, t, hi⟩ := hi
      rw [tc_bkldRun_two fs cwd env opts b t hi] at h
      cases hb : getOnlyDocument fs cwd b with
      | error e => rw [hb] at h; cases h
      | ok bf =>
        obtain ⟨base, f⟩ := bf
        rw [hb] at h
        simp only at h
        cases hpb : processOnly env base with
        | error e => rw [hpb] at h; cases h
        | ok base' =>
          rw [hpb] at h
          simp only at h
          cases ht : getOnlyDocument fs cwd t with
          | error e => rw [ht] at h; cases h
          | ok tf =>
            obtain ⟨target, ft⟩ := tf
            rw [ht] at h
            simp only at h
            cases hpt : processOnly env target with
            | error e => rw [hpt] at h; cases h
            | ok target' =>
              rw [hpt] at h
              simp only at h
              cases hc : checkFormat (toolFormat opts f) with
              | error e => rw [hc] at h; cases h
              | ok fmt =>
                rw [hc] at h
                cases h
                obtain ⟨rfl, hmem⟩ := tc_checkFormat_ok hc
                exact ⟨b, t, base, target, f, ft, base', target', hi, hb, ht, hpb, hpt, hmem, rfl⟩
    · rw [tc_bkldRun_not_two fs cwd env opts (fun b t h => hi ⟨b, t, h⟩)] at h
      cases h
  · rintro ⟨b, t, base, target, f, ft, base', target', hi, hb, ht, hpb, hpt, hmem, rfl⟩
    rw [tc_bkldRun_two fs cwd env opts b t hi, hb]
    simp only
    rw [hpb]
    simp only
    rw [ht]
    simp only
    rw [hpt]
    simp only
    rw [tc_checkFormat_of_mem hmem]

theorem tc_bkliRun_ok_iff (fs : FS) (cwd : Comps) (opts : ToolOpts) (r : ToolResult) :
    bkliRun fs cwd opts = .ok r ↔
      ∃ first second rest d0 f0 ds,
        opts.inputs = first :: second :: rest ∧
        List.Forall₂ (fun p (d : Val × String) => getOnlyDocument fs cwd p = .ok d)
          (first :: second :: rest) ((d0, f0) :: ds) ∧
        toolFormat opts f0 ∈ supportedExts ∧
        r = { format := toolFormat opts f0,
              doc := tc_bkliDoc (d0 :: ds.map (·.1)) } := by
  constructor
  · intro h
    rcases hi : opts.inputs with _ | ⟨first, _ | ⟨second, rest⟩⟩
    · rw [tc_bkliRun_nil fs cwd opts hi] at h; cases h
    · rw [tc_bkliRun_one fs cwd opts first hi] at h; cases h
    · rw [tc_bkliRun_many fs cwd opts first second rest hi] at h
      cases hm : (first :: second :: rest).mapM (getOnlyDocument fs cwd) with
      | error e => rw [hm] at h; cases h
      | ok docs =>
        rw [hm] at h
        simp only at h
        have hf := (tc_mapM_ok_iff _ _ _).1 hm
        cases hf with
        | @cons _ d _ ds hd hrest =>
          obtain ⟨d0, f0⟩ := d
          rw [hd] at h
          simp only at h
          cases hc : checkFormat (toolFormat opts f0) with
          | error e => rw [hc] at h; cases h
          | ok fmt =>
            rw [hc] at h
            cases h
            obtain ⟨rfl, hmem⟩ := tc_checkFormat_ok hc
            exact ⟨first, second, rest, d0, f0, ds, rfl, .cons hd hrest, hmem, rfl⟩
  · rintro ⟨first, second, rest, d0, f0, ds, hi, hf, hmem, rfl⟩
    rw [tc_bkliRun_many fs cwd opts first second rest hi, (tc_mapM_ok_iff _ _ _).2 hf]
    simp only
    cases hf with
    | cons hd _ =>
      rw [hd]
      simp only
      rw [tc_checkFormat_of_mem hmem]
      rfl

/-- bklr's format: `-f`, else the extension of `-o` (even an empty one), else the input's -/
def tc_bklrFormat (opts : ToolOpts) (f : String) : String :=
  match opts.format with
  | some x => x
  | none => match opts.outPath with | some o => extOfPath o | none => f

theorem tc_bklrRun_ok_iff (fs : FS) (cwd : Comps) (opts : ToolOpts) (r : ToolResult) :
    bklrRun fs cwd opts = .ok r ↔
      ∃ path data f,
        opts.inputs = [path] ∧ getOnlyDocument fs cwd path = .ok (data, f) ∧
        tc_bklrFormat opts f ∈ supportedExts ∧
        r = { format := tc_bklrFormat opts f, doc := required data } := by
  constructor
  · intro h
    by_cases hi : ∃ p, opts.inputs = [p]
    · obtain ⟨path, hi⟩ := hi
      rw [tc_bklrRun_one fs cwd opts path hi] at h
      cases hg : getOnlyDocument fs cwd path with
      | error e => rw [hg] at h; cases h
      | ok df =>
        obtain ⟨data, f⟩ := df
        rw [hg] at h
        simp only at h
        cases hc : checkFormat (tc_bklrFormat opts f) with
        | error e =>
          unfold tc_bklrFormat at hc
          rw [hc] at h; cases h
        | ok fmt =>
          have hc' := hc
          unfold tc_bklrFormat at hc'
          rw [hc'] at h
          cases h
          obtain ⟨rfl, hmem⟩ := tc_checkFormat_ok hc
          exact ⟨path, data, f, hi, hg, hmem, rfl⟩
    · rw [tc_bklrRun_not_one fs cwd opts (fun p h => hi ⟨p, h⟩)] at h
      cases h
  · rintro ⟨path, data, f, hi, hg, hmem, rfl⟩
    rw [tc_bklrRun_one fs cwd opts path hi, hg]
    simp only
    have := tc_checkFormat_of_mem hmem
    unfold tc_bklrFormat at this
    rw [this]
    rfl

/-! ## `diffDoc` emits nothing exactly for `same` / `replaceParent` -/

theorem tc_diffDoc_none_iff (t b : Val) :
    diffDoc t b = none ↔ diff t b = .same ∨ diff t b = .replaceParent := by
  unfold diffDoc
  cases hd : diff t b with
  | same => simp
  | replaceParent => simp
  | patch v => cases v <;> simp

/-! ## small facts used by C16 -/

theorem tc_isNull_iff (v : Val) : v.isNull = true ↔ v = .null := by
  cases v <;> simp [Val.isNull]

theorem tc_forall2_mem_left {α β : Type} {R : α → β → Prop} : ∀ {l : List α} {l' : List β},
    List.Forall₂ R l l' → ∀ a ∈ l, ∃ b ∈ l', R a b
  | _, _, .nil, a, h => nomatch h
  | _, _, .cons (a := x) (b := y) hxy hrest, a, h => by
    rcases List.mem_cons.1 h with rfl | h'
    · exact ⟨y, List.mem_cons_self, hxy⟩
    · obtain ⟨b, hb, hab⟩ := tc_forall2_mem_left hrest a h'
      exact ⟨b, List.mem_cons_of_mem _ hb, hab⟩

theorem tc_forall2_mem_right {α β : Type} {R : α → β → Prop} : ∀ {l : List α} {l' : List β},
    List.Forall₂ R l l' → ∀ b ∈ l', ∃ a ∈ l, R a b
  | _, _, .nil, b, h => nomatch h
  | _, _, .cons (a := x) (b := y) hxy hrest, b, h => by
    rcases List.mem_cons.1 h with rfl | h'
    · exact ⟨x, List.mem_cons_self, hxy⟩
    · obtain ⟨a, ha, hab⟩ := tc_forall2_mem_right hrest b h'
      exact ⟨a, List.mem_cons_of_mem _ ha, hab⟩

theorem tc_forall2_length {α β : Type} {R : α → β → Prop} : ∀ {l : List α} {l' : List β},
    List.Forall₂ R l l' → l.length = l'.length
  | _, _, .nil => rfl
  | _, _, .cons _ hrest => by simp [tc_forall2_length hrest]

/-- the documents the inputs yield are determined by the inputs -/
theorem tc_forall2_getOnly_unique {fs : FS} {cwd : Comps} {ps : List String}
    {ds ds' : List (Val × String)}
    (h : List.Forall₂ (fun p (d : Val × String) => getOnlyDocument fs cwd p = .ok d) ps ds)
    (h' : List.Forall₂ (fun p (d : Val × String) => getOnlyDocument fs cwd p = .ok d) ps ds') :
    ds = ds' := by
  have h1 := (tc_mapM_ok_iff (getOnlyDocument fs cwd) ps ds).2 h
  have h2 := (tc_mapM_ok_iff (getOnlyDocument fs cwd) ps ds').2 h'
  rw [h1] at h2
  cases h2; rfl

/-! ## inheritance applies to tool inputs: /w/a.b.json of `chainFS` is layered over /w/a.yaml -/

theorem tc_chainFS_get_ab :
    getOnlyDocument chainFS ["w"] "a.b.json" =
      .ok (.map [("x", .int 1), ("y", .int 2)], "json") := by
  have hm : fileMatch chainFS ["w"] "a.b.json" = .ok (["w"] ++ ["a.b" ++ "." ++ "json"], "json") :=
    fileMatch_layer (d := ["w"]) (l := "a.b") (e := "json")
      (by rw [tc_abs_w "a.b.json" (by simp [isAbsPath]) (by decide) (by decide)]; decide)
      (by decide) (intercalate_splitOn_dot _) chainFS_plain (by decide) chainFS_ab
  have hl := chain2 (cwd := ["w"]) chainFS_plain chainFS_a chainFS_ab rfl rfl 62 none [] [] rfl rfl
  rw [tc_getOnlyDocument_eq, hm]
  simp only
  rw [mergeFileLayers_eq, show loadFuel = 62 + 2 from rfl, hl]
  simp only [mergeFiles, List.foldlM_cons, List.foldlM_nil, fileIdOf, oneDoc]
  rw [tc_mergeDocument_first _ _ (by decide)]
  simp only [R_bind_ok, R_pure_eq]
  have e1 : pathStr (["w"] ++ ["a.b" ++ "." ++ "json"]) ++ "|" ++
      pathStr (["w"] ++ ["a" ++ "." ++ "yaml"]) ++ "|doc" ++ toString 0 =
      "/w/a.b.json|/w/a.yaml|doc0" := by decide
  have e2 : pathStr (["w"] ++ ["a.b" ++ "." ++ "json"]) ++ "|doc" ++ toString 0 =
      "/w/a.b.json|doc0" := by decide
  rw [e1, e2]
  have hmg : merge (.map [("x", .int 1)]) (.map [("y", .int 2)]) =
      .ok (.map [("x", .int 1), ("y", .int 2)]) := by
    simp [merge, mergeMapMap, mergeFields, fhasBool, fget, fset, Val.toStr]
  simp [mergeDocument, fget, parentsOf, allParents, lookupParents, addParents, mergeInto, hmg]

end Bkl
