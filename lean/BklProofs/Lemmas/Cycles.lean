/-
  BklProofs.Lemmas.Cycles — helper definitions and lemmas for C08 (termination / reference
  cycles): simple keys, closed systems of forwarding references (`$merge:` / `$replace:`
  strings, `$replace` maps and lists), interpolation cycles, `$parent` cycles between files,
  and reference-free documents.
-/
import Bkl
import BklProofs.Lemmas.Process1
import BklProofs.Lemmas.Interp
import BklProofs.Lemmas.Escape
import BklProofs.Lemmas.EscapeProc
import BklProofs.C13
import Batteries.Tactic.OpenPrivate
set_option linter.unusedVariables false
open private Array.qsort.sort from Init.Data.Array.QSort.Basic
namespace Bkl

/-! ## simple keys: references that are one plain path segment -/

/-- `k` used as a reference string is a lookup of the top-level key `k` -/
structure SimpleKey (k : String) : Prop where
  parse : parseRef k = some (.str k)
  split : k.splitOn "." = [k]

theorem simpleKey_of_plain {k : String} (h1 : isPlainRef k = true) (h2 : '.' ∉ k.toList) :
    SimpleKey k :=
  ⟨by simp [parseRef, h1], splitOn_dot_none k h2⟩

theorem get_simpleKey {k : String} (hk : SimpleKey k) {kvs : Fields} {v : Val} (docs : List Val)
    (h : fget kvs k = some v) : get (.map kvs) docs (.str k) = .ok v :=
  get_plain_key docs hk.parse hk.split h

theorem toLower_single (c : Char) (h : c.toLower = c) :
    (String.singleton c).toLower = String.singleton c := by
  apply String.toList_inj.1
  simp [String.toLower, String.toList_map, h]

theorem simpleKey_a : SimpleKey "a" := ⟨parseRef_a, splitOn_a⟩
theorem simpleKey_b : SimpleKey "b" := ⟨parseRef_b, splitOn_b⟩

theorem isPlainRef_c : isPlainRef "c" = true := by
  have : "c".toLower = "c" := toLower_single 'c' (by decide)
  simp [isPlainRef, reservedWords, this]
theorem isPlainRef_d : isPlainRef "d" = true := by
  have : "d".toLower = "d" := toLower_single 'd' (by decide)
  simp [isPlainRef, reservedWords, this]
theorem isPlainRef_e : isPlainRef "e" = true := by
  have : "e".toLower = "e" := toLower_single 'e' (by decide)
  simp [isPlainRef, reservedWords, this]

theorem simpleKey_c : SimpleKey "c" := simpleKey_of_plain isPlainRef_c (by decide)
theorem simpleKey_d : SimpleKey "d" := simpleKey_of_plain isPlainRef_d (by decide)
theorem simpleKey_e : SimpleKey "e" := simpleKey_of_plain isPlainRef_e (by decide)

/-! ## prefixes, for every key -/

theorem stripPrefix_merge_append (k : String) :
    stripPrefix ("$merge:" ++ k) "$merge:" = some k := by
  simp only [stripPrefix]
  have h : ("$merge:" ++ k).startsWith "$merge:" = true := by simp [String.toList_append]
  rw [if_pos h]
  refine congrArg some ?_
  apply String.toList_inj.1
  have : "$merge:".length = 7 := by decide
  simp [this]

theorem stripPrefix_replace_append (k : String) :
    stripPrefix ("$replace:" ++ k) "$replace:" = some k := by
  simp only [stripPrefix]
  have h : ("$replace:" ++ k).startsWith "$replace:" = true := by simp [String.toList_append]
  rw [if_pos h]
  refine congrArg some ?_
  apply String.toList_inj.1
  have : "$replace:".length = 9 := by decide
  simp [this]

theorem stripPrefix_replace_append_merge (k : String) :
    stripPrefix ("$replace:" ++ k) "$merge:" = none := by
  apply e_stripPrefix_none
  simp [String.toList_append, List.isPrefixOf]

/-! ## forwarding references

  `NextRef root v k`: evaluating `v` (anywhere, with any fuel) resolves the reference `k`
  against the unchanged `root` and continues with the referenced value, one unit of fuel less.
  This is what the string forms `$merge:k`, `$replace:k`, a map carrying `$replace: k` and a
  list carrying a `{$replace: k}` entry do. -/

def NextRef (root v : Val) (k : String) : Prop :=
  ∀ (fuel : Nat) (docs : List Val) (loc : Loc),
    process1 (fuel + 1) docs root loc v =
      (get root docs (.str k) >>= fun inp => process1 fuel docs root none inp)

theorem nextRef_str_merge (root : Val) (k : String) : NextRef root (.str ("$merge:" ++ k)) k :=
  fun _ _ _ => process1_str_merge (stripPrefix_merge_append k)

theorem nextRef_str_replace (root : Val) (k : String) :
    NextRef root (.str ("$replace:" ++ k)) k :=
  fun _ _ _ => process1_str_replace (stripPrefix_replace_append_merge k)
    (stripPrefix_replace_append k)

theorem nextRef_map_replace (root : Val) {m : Fields} {k : String}
    (h0 : fget m "$merge" = none) (h : fget m "$replace" = some (.str k)) :
    NextRef root (.map m) k :=
  fun _ _ _ => process1_map_replace h0 h

/-- a closed system: every entry of the map forwards to a simple key of the same map -/
def RefClosed (kvs : Fields) : Prop :=
  ∀ p ∈ kvs, ∃ k v, NextRef (.map kvs) p.2 k ∧ SimpleKey k ∧ fget kvs k = some v

/-- In a closed system every entry evaluates to `circularRef`, for every fuel: each step
    resolves to another entry with one unit of fuel less, and the root never changes. -/
theorem refClosed_entry_error {kvs : Fields} (H : RefClosed kvs) :
    ∀ (fuel : Nat) (docs : List Val) (loc : Loc), ∀ p ∈ kvs,
      process1 fuel docs (.map kvs) loc p.2 = .error .circularRef := by
  intro fuel
  induction fuel with
  | zero => intro docs loc p _; exact process1_zero _ _ _ _
  | succ n ih =>
    intro docs loc p hp
    obtain ⟨k, v, hn, hk, hv⟩ := H p hp
    rw [hn n docs loc, get_simpleKey hk docs hv, R_bind_ok]
    exact ih docs none (k, v) (fget_mem hv)

/-- … and so does the document itself. -/
theorem refClosed_doc_error {kvs : Fields} (H : RefClosed kvs) (hne : kvs ≠ [])
    (h0 : fget kvs "$merge" = none) (h1 : fget kvs "$replace" = none)
    (fuel : Nat) (docs : List Val) (loc : Loc) :
    process1 fuel docs (.map kvs) loc (.map kvs) = .error .circularRef := by
  cases fuel with
  | zero => exact process1_zero _ _ _ _
  | succ n =>
    rw [process1_map_plain h0 h1]
    cases kvs with
    | nil => exact absurd rfl hne
    | cons p rest =>
      obtain ⟨k, v⟩ := p
      rw [foldlM_cons]
      have := refClosed_entry_error H n docs (childLoc loc k) (k, v) List.mem_cons_self
      simp only [mapStep, this]
      rfl

/-! ## the explicit n-cycle -/

/-- rotate left by one: `[k₀, k₁, …, kₙ₋₁] ↦ [k₁, …, kₙ₋₁, k₀]` -/
def rot1 {α : Type} : List α → List α
  | [] => []
  | a :: tl => tl ++ [a]

theorem mem_rot1 {α : Type} {k : α} {ks : List α} : k ∈ rot1 ks ↔ k ∈ ks := by
  cases ks with
  | nil => simp [rot1]
  | cons a tl => simp [rot1, or_comm]

theorem length_rot1 {α : Type} (ks : List α) : (rot1 ks).length = ks.length := by
  cases ks <;> simp [rot1]

/-- every element of the first list has a partner in a zip with a list of the same length -/
theorem exists_zip_of_mem {α β : Type} : ∀ (l₁ : List α) (l₂ : List β), l₁.length = l₂.length →
    ∀ a ∈ l₁, ∃ b, (a, b) ∈ l₁.zip l₂
  | [], _, _, a, h => by cases h
  | x :: xs, [], h, _, _ => by simp at h
  | x :: xs, y :: ys, h, a, ha => by
    rcases List.mem_cons.1 ha with rfl | ha
    · exact ⟨y, by simp⟩
    · obtain ⟨b, hb⟩ := exists_zip_of_mem xs ys (by simpa using h) a ha
      exact ⟨b, by simp [hb]⟩

/-- `k₀ ↦ f k₁, k₁ ↦ f k₂, …, kₙ₋₁ ↦ f k₀` -/
def cycleFields (f : String → Val) (ks : List String) : Fields :=
  (ks.zip (rot1 ks)).map fun p => (p.1, f p.2)

theorem fget_map_some (f : String → Val) :
    ∀ (l : List (String × String)) (k : String), k ∈ l.map (·.1) →
      ∃ v, fget (l.map fun p => (p.1, f p.2)) k = some v := by
  intro l
  induction l with
  | nil => intro k hk; cases hk
  | cons a tl ih =>
    intro k hk
    simp only [List.map_cons, fget]
    by_cases h : a.1 = k
    · exact ⟨_, by rw [if_pos h]⟩
    · rw [if_neg h]
      simp only [List.map_cons, List.mem_cons] at hk
      rcases hk with hk | hk
      · exact absurd hk.symm h
      · exact ih k hk

theorem fget_map_none (f : String → Val) :
    ∀ (l : List (String × String)) (k : String), k ∉ l.map (·.1) →
      fget (l.map fun p => (p.1, f p.2)) k = none := by
  intro l
  induction l with
  | nil => intro k _; rfl
  | cons a tl ih =>
    intro k hk
    simp only [List.map_cons, List.mem_cons, not_or] at hk
    simp only [List.map_cons, fget]
    rw [if_neg (fun h => hk.1 h.symm)]
    exact ih k hk.2

theorem zip_rotate_fst (ks : List String) : (ks.zip (rot1 ks)).map (·.1) = ks :=
  List.map_fst_zip (by rw [length_rot1]; exact Nat.le_refl _)

theorem cycleFields_fget_some (f : String → Val) (ks : List String) {k : String} (h : k ∈ ks) :
    ∃ v, fget (cycleFields f ks) k = some v :=
  fget_map_some f _ k (by rw [zip_rotate_fst]; exact h)

theorem cycleFields_fget_none (f : String → Val) (ks : List String) {k : String} (h : k ∉ ks) :
    fget (cycleFields f ks) k = none :=
  fget_map_none f _ k (by rw [zip_rotate_fst]; exact h)

theorem cycleFields_ne_nil (f : String → Val) {ks : List String} (h : ks ≠ []) :
    cycleFields f ks ≠ [] := by
  intro e
  have := congrArg List.length e
  simp only [cycleFields, List.length_map, List.length_zip, length_rot1, Nat.min_self,
    List.length_nil] at this
  exact h (List.eq_nil_of_length_eq_zero this)

/-- the n-cycle is a closed system as soon as each `f k` forwards to `k` -/
theorem cycleFields_refClosed (f : String → Val) (ks : List String)
    (hk : ∀ k ∈ ks, SimpleKey k)
    (hf : ∀ k ∈ ks, NextRef (.map (cycleFields f ks)) (f k) k) :
    RefClosed (cycleFields f ks) := by
  intro p hp
  simp only [cycleFields, List.mem_map] at hp
  obtain ⟨q, hq, rfl⟩ := hp
  have hq2 : q.2 ∈ ks := by
    have := (List.of_mem_zip hq).2
    exact mem_rot1.1 this
  obtain ⟨v, hv⟩ := cycleFields_fget_some f ks hq2
  exact ⟨q.2, v, hf _ hq2, hk _ hq2, hv⟩


/-! ## one map-level `$merge` step, with the intermediate roots named -/

theorem process1_merge_step {fuel : Nat} {docs : List Val} {root root1 root2 : Val} {loc : Loc}
    {kvs s next : Fields} {ref : Val} (hm : fget kvs "$merge" = some ref)
    (h1 : setLoc root loc (.map (fdel kvs "$merge")) = root1)
    (hg : get root1 docs ref = .ok (.map s))
    (hr : fhasBool s "$replace" true = false)
    (hn : mergeFields (fdel kvs "$merge") s = .ok next)
    (h2 : setLoc root1 loc (.map next) = root2) :
    process1 (fuel + 1) docs root loc (.map kvs) = process1 fuel docs root2 loc (.map next) := by
  subst h1 h2
  rw [process1_map_merge hm, hg, R_bind_ok]
  simp only [mergeCont, hr, hn, Bool.false_eq_true, if_false]
  rfl

theorem process1_merge_step_error {fuel : Nat} {docs : List Val} {root root1 : Val} {loc : Loc}
    {kvs s : Fields} {ref : Val} {e : Err} (hm : fget kvs "$merge" = some ref)
    (h1 : setLoc root loc (.map (fdel kvs "$merge")) = root1)
    (hg : get root1 docs ref = .ok (.map s))
    (hr : fhasBool s "$replace" true = false)
    (hn : mergeFields (fdel kvs "$merge") s = .error e) :
    process1 (fuel + 1) docs root loc (.map kvs) = .error e := by
  subst h1
  rw [process1_map_merge hm, hg, R_bind_ok]
  simp only [mergeCont, hr, hn, Bool.false_eq_true, if_false]
  rfl

/-- a `$merge` host at the top-level key `h` of the root whose reference is the simple key `k`,
    which currently holds the map `s` (no `$replace: true`): the host loses `$merge` (`d`),
    receives `s` (`next`), is written back (`rkvs2`) and evaluated again in place -/
theorem host_step {fuel : Nat} {docs : List Val} {rkvs rkvs1 rkvs2 host d s next : Fields}
    {h k : String} (hk : SimpleKey k) (hm : fget host "$merge" = some (.str k))
    (hd : fdel host "$merge" = d)
    (h1 : setPath (.map rkvs) [.key h] (.map d) = .map rkvs1)
    (hg : fget rkvs1 k = some (.map s))
    (hr : fhasBool s "$replace" true = false)
    (hn : mergeFields d s = .ok next)
    (h2 : setPath (.map rkvs1) [.key h] (.map next) = .map rkvs2) :
    process1 (fuel + 1) docs (.map rkvs) (some [.key h]) (.map host) =
      process1 fuel docs (.map rkvs2) (some [.key h]) (.map next) := by
  subst hd
  exact process1_merge_step hm h1 (get_simpleKey hk docs hg) hr hn h2

theorem process1_empty_map (fuel : Nat) (docs : List Val) (root : Val) (loc : Loc) :
    process1 (fuel + 1) docs root loc (.map []) = .ok (.map [], root) := by
  rw [process1_map_plain (by decide) (by decide)]; rfl

theorem process1_key_plain {k : String} (h1 : "$merge:".toList.isPrefixOf k.toList = false)
    (h2 : "$replace:".toList.isPrefixOf k.toList = false)
    (fuel : Nat) (docs : List Val) (root : Val) (loc : Loc) :
    process1 (fuel + 1) docs root loc (.str k) = .ok (.str k, root) :=
  process1_str_plain (e_stripPrefix_none h1) (e_stripPrefix_none h2)

theorem mergeFields_empty_single (k : String) (v : Val) (h : v.toStr ≠ "$delete") :
    mergeFields [] [(k, v)] = .ok [(k, v)] := by
  rw [mergeFields_cons, if_neg h]
  simp only [fget, fset, mergeFields_nil]

/-- the empty list reference `[]` denotes the whole referencing document -/
theorem get_list_nil (root : Val) (docs : List Val) : get root docs (.list []) = .ok root := by
  rw [get_list]; rfl

/-! ## interpolation: the string `$"{k}"` -/

/-- the interpolated string `$"{k}"` -/
def interpRefStr (k : String) : String :=
  String.ofList ('$' :: '"' :: '{' :: (k.toList ++ ['}', '"']))

theorem interpBody_interpRefStr (k : String) :
    interpBody (interpRefStr k) = some ('{' :: (k.toList ++ ['}'])) := by
  simp [interpBody, interpRefStr, List.reverse_append]

theorem interpSegs_ref (k : String) (h1 : '}' ∉ k.toList) (h2 : '\n' ∉ k.toList) :
    interpSegs ('{' :: (k.toList ++ ['}'])) = [.ref k.toList] := by
  have := C13_scan_spec [.ref k.toList] ⟨h1, h2, trivial⟩
  simpa [render, renderSeg] using this

/-- one step of `$"{k}"` when `k` resolves to the string `s2` -/
theorem process2String_interpRef {fuel : Nat} {docs : List Val} {root : Val} {ec : Vars}
    {k s2 : String} (h1 : '}' ∉ k.toList) (h2 : '\n' ∉ k.toList)
    (hg : getWithVar root docs ec k = .ok (.str s2)) :
    process2String (fuel + 1) docs root ec (interpRefStr k) =
      match process2String fuel docs root ec s2 with
      | .error e => .error e
      | .ok v => .ok (.str (String.join [fmtV v])) := by
  rw [C13_interp_spec fuel docs root ec _ _ (interpBody_interpRefStr k), interpSegs_ref k h1 h2]
  simp only [interpSpec, List.mapM_cons, List.mapM_nil, interpSeg, String.ofList_toList, hg]
  cases process2String fuel docs root ec s2 <;> rfl

/-- every character of a plain reference is a reference character -/
theorem isRefChar_of_plain {k : String} (h : isPlainRef k = true) : ∀ c ∈ k.toList, isRefChar c = true := by
  unfold isPlainRef at h
  cases hk : k.toList with
  | nil => intro c hc; cases hc
  | cons a cs =>
    rw [hk] at h
    simp only [Bool.and_eq_true, Bool.or_eq_true, List.all_eq_true] at h
    intro c hc
    rcases List.mem_cons.1 hc with rfl | hc
    · rcases h.1.1.1 with (ha | ha) | ha
      · simp [isRefChar, Char.isAlphanum, ha]
      · simp [isRefChar, ha]
      · simp [isRefChar, ha]
    · exact h.1.1.2 c hc

theorem plain_no_brace {k : String} (h : isPlainRef k = true) :
    '}' ∉ k.toList ∧ '\n' ∉ k.toList :=
  ⟨fun hc => absurd (isRefChar_of_plain h _ hc) (by decide),
   fun hc => absurd (isRefChar_of_plain h _ hc) (by decide)⟩

/-- a closed system of interpolations: every entry is `$"{k}"` for a plain key `k` of the map -/
def InterpClosed (kvs : Fields) : Prop :=
  ∀ p ∈ kvs, ∃ k v, p.2 = .str (interpRefStr k) ∧ isPlainRef k = true ∧ '.' ∉ k.toList ∧
    fget kvs k = some v

theorem interpClosed_entry_error {kvs : Fields} (H : InterpClosed kvs) :
    ∀ (fuel : Nat) (docs : List Val) (ec : Vars), ∀ p ∈ kvs,
      ∃ s, p.2 = .str s ∧ process2String fuel docs (.map kvs) ec s = .error .circularRef := by
  intro fuel
  induction fuel with
  | zero =>
    intro docs ec p hp
    obtain ⟨k, v, hs, _, _, _⟩ := H p hp
    exact ⟨_, hs, C13_interp_no_fuel docs _ ec _ _ (interpBody_interpRefStr k)⟩
  | succ n ih =>
    intro docs ec p hp
    obtain ⟨k, v, hs, hk1, hk2, hv⟩ := H p hp
    refine ⟨_, hs, ?_⟩
    obtain ⟨s2, hs2, herr⟩ := ih docs ec (k, v) (fget_mem hv)
    have hv' : v = .str s2 := hs2
    subst hv'
    rw [process2String_interpRef (plain_no_brace hk1).1 (plain_no_brace hk1).2
      (getWithVar_simple_key kvs docs ec k _ hk1 hk2 hv), herr]

theorem process2_str (fuel : Nat) (docs : List Val) (root : Val) (ec : Vars) (s : String) :
    process2 (fuel + 1) docs root ec (.str s) = process2String (fuel + 1) docs root ec s := by
  rw [process2]

theorem process2_zero (docs : List Val) (root : Val) (ec : Vars) (v : Val) :
    process2 0 docs root ec v = .error .circularRef := by
  rw [process2]; rfl

/-- a string entry of a closed system is an error at the `process2` level too -/
theorem interpClosed_entry_error2 {kvs : Fields} (H : InterpClosed kvs)
    (fuel : Nat) (docs : List Val) (ec : Vars) (p : String × Val) (hp : p ∈ kvs) :
    process2 fuel docs (.map kvs) ec p.2 = .error .circularRef := by
  cases fuel with
  | zero => exact process2_zero _ _ _ _
  | succ n =>
    obtain ⟨s, hs, herr⟩ := interpClosed_entry_error H (n + 1) docs ec p hp
    rw [hs, process2_str]; exact herr

/-! ## `$parent` cycles between files -/

theorem loadFileAndParents_zero (fs : FS) (cfg : RootCfg) (path : Comps) (c : Option String)
    (ids : List String) (chain : List Comps) :
    loadFileAndParents fs cfg 0 path c ids chain = .error .circularRef := by
  rw [loadFileAndParents]; rfl

theorem loadFileAndParents_chain (fs : FS) (cfg : RootCfg) (fuel : Nat) (path : Comps)
    (c : Option String) (ids : List String) (chain : List Comps) (h : path ∈ chain) :
    loadFileAndParents fs cfg (fuel + 1) path c ids chain = .error .circularRef := by
  unfold loadFileAndParents
  have : chain.contains path = true := by simpa using h
  simp only [this, if_true]
  rfl

/-- the first parent fails ⇒ the whole load fails with the same error -/
theorem loadFileAndParents_first_parent (fs : FS) (cfg : RootCfg) (fuel : Nat) (path : Comps)
    (c : Option String) (ids : List String) (chain : List Comps) (raw : List Val)
    (q : Comps) (rest : List Comps) (e : Err)
    (hc : path ∉ chain)
    (hl : ∀ fid, loadFile fs cfg path fid = .ok raw)
    (hp : fileParents fs cfg path raw = .ok (q :: rest))
    (hq : ∀ c' ids', loadFileAndParents fs cfg fuel q c' ids' (path :: chain) = .error e) :
    loadFileAndParents fs cfg (fuel + 1) path c ids chain = .error e := by
  rw [loadFileAndParents.eq_def]
  have : chain.contains path = false := by simpa using hc
  simp only [this, Bool.false_eq_true, if_false, hl, e_ok_bind, hp, List.forIn_cons, hq]
  rfl

/-- `q` is the first parent of the (loadable) file `p` -/
def ParentEdge (fs : FS) (cfg : RootCfg) (p q : Comps) : Prop :=
  ∃ raw rest, (∀ fid, loadFile fs cfg p fid = .ok raw) ∧ fileParents fs cfg p raw = .ok (q :: rest)

/-- a set of files closed under "first parent": loading never leaves it -/
def ParentClosed (fs : FS) (cfg : RootCfg) (S : Comps → Prop) : Prop :=
  ∀ p, S p → ∃ q, ParentEdge fs cfg p q ∧ S q

theorem parentClosed_error {fs : FS} {cfg : RootCfg} {S : Comps → Prop}
    (H : ParentClosed fs cfg S) :
    ∀ (fuel : Nat) (p : Comps), S p → ∀ (c : Option String) (ids : List String)
      (chain : List Comps), loadFileAndParents fs cfg fuel p c ids chain = .error .circularRef := by
  intro fuel
  induction fuel with
  | zero => intro p _ c ids chain; exact loadFileAndParents_zero _ _ _ _ _ _
  | succ n ih =>
    intro p hp c ids chain
    by_cases hc : p ∈ chain
    · exact loadFileAndParents_chain _ _ _ _ _ _ _ hc
    · obtain ⟨q, ⟨raw, rest, hl, hpar⟩, hq⟩ := H p hp
      exact loadFileAndParents_first_parent fs cfg n p c ids chain raw q rest _ hc hl hpar
        (fun c' ids' => ih q hq c' ids' (p :: chain))

/-! ## reference-free documents -/

/-- a string that `process1` treats as a reference -/
def refStr (s : String) : Bool :=
  "$merge:".toList.isPrefixOf s.toList || "$replace:".toList.isPrefixOf s.toList

/-- a map key that makes `process1` resolve a reference -/
def refKey (k : String) : Bool := k == "$merge" || k == "$replace" || refStr k

mutual
/-- no `$merge` / `$replace` key and no `$merge:` / `$replace:` string (key or leaf), anywhere;
    in particular no `{$merge: …}` / `{$replace: …}` list entries -/
def refFree : Val → Bool
  | .str s => !refStr s
  | .list xs => refFreeList xs
  | .map kvs => refFreeFields kvs
  | _ => true
def refFreeList : List Val → Bool
  | [] => true
  | x :: xs => refFree x && refFreeList xs
def refFreeFields : Fields → Bool
  | [] => true
  | (k, v) :: rest => !refKey k && refFree v && refFreeFields rest
end

theorem refFreeList_mem {xs : List Val} (h : refFreeList xs = true) :
    ∀ x ∈ xs, refFree x = true := by
  induction xs with
  | nil => intro x hx; cases hx
  | cons a t ih =>
    simp only [refFreeList, Bool.and_eq_true] at h
    intro x hx
    rcases List.mem_cons.1 hx with rfl | hx
    · exact h.1
    · exact ih h.2 x hx

theorem refFreeFields_mem {kvs : Fields} (h : refFreeFields kvs = true) :
    ∀ q ∈ kvs, refKey q.1 = false ∧ refFree q.2 = true := by
  induction kvs with
  | nil => intro x hx; cases hx
  | cons a t ih =>
    obtain ⟨k, v⟩ := a
    simp only [refFreeFields, Bool.and_eq_true, Bool.not_eq_true'] at h
    intro x hx
    rcases List.mem_cons.1 hx with rfl | hx
    · exact ⟨h.1.1, h.1.2⟩
    · exact ih h.2 x hx

theorem refKey_false {k : String} (h : refKey k = false) :
    k ≠ "$merge" ∧ k ≠ "$replace" ∧ stripPrefix k "$merge:" = none ∧
      stripPrefix k "$replace:" = none := by
  simp only [refKey, refStr, Bool.or_eq_false_iff, beq_eq_false_iff_ne] at h
  exact ⟨h.1.1, h.1.2, e_stripPrefix_none h.2.1, e_stripPrefix_none h.2.2⟩

theorem refFreeFields_fget {kvs : Fields} (h : refFreeFields kvs = true) :
    fget kvs "$merge" = none ∧ fget kvs "$replace" = none := by
  constructor
  · exact fget_none_iff.2 fun p hp => (refKey_false (refFreeFields_mem h p hp).1).1
  · exact fget_none_iff.2 fun p hp => (refKey_false (refFreeFields_mem h p hp).1).2.1

theorem refFree_notMergeEntry {v : Val} (h : refFree v = true) : notMergeEntry v = true := by
  unfold notMergeEntry
  split
  · rename_i k ref
    simp only [refFree, refFreeFields, Bool.and_eq_true, Bool.not_eq_true'] at h
    have := (refKey_false h.1.1).1
    simpa using this
  · rfl

theorem refFree_notReplaceEntry {v : Val} (h : refFree v = true) : notReplaceEntry v = true := by
  unfold notReplaceEntry
  split
  · rename_i k ref
    simp only [refFree, refFreeFields, Bool.and_eq_true, Bool.not_eq_true'] at h
    have := (refKey_false h.1.1).2.1
    simpa using this
  · rfl

/-- a fold whose steps only thread the root through -/
theorem foldlM_root_indep {α β : Type} (f f0 : α × Val → β → R (α × Val)) (r0 : Val) :
    ∀ (l : List β),
    (∀ b ∈ l, ∀ acc rt, f (acc, rt) b = Except.map (fun r => (r.1, rt)) (f0 (acc, r0) b)) →
    (∀ b ∈ l, ∀ acc s', f0 (acc, r0) b = .ok s' → s'.2 = r0) →
    ∀ acc rt, l.foldlM f (acc, rt) = Except.map (fun r => (r.1, rt)) (l.foldlM f0 (acc, r0)) := by
  intro l
  induction l with
  | nil => intro _ _ acc rt; rfl
  | cons b tl ih =>
    intro h h0 acc rt
    rw [foldlM_cons, foldlM_cons, h b List.mem_cons_self acc rt]
    cases hb : f0 (acc, r0) b with
    | error e => rfl
    | ok s' =>
      obtain ⟨a', r'⟩ := s'
      have : r' = r0 := h0 b List.mem_cons_self acc _ hb
      subst this
      simp only [Except.map]
      exact ih (fun b hb => h b (List.mem_cons_of_mem _ hb))
        (fun b hb => h0 b (List.mem_cons_of_mem _ hb)) a' rt

/-- induction hypothesis of `process1_refFree` -/
def RootIndep (fuel : Nat) : Prop :=
  ∀ v, refFree v = true → ∀ (docs : List Val) (root : Val) (loc : Loc),
    process1 fuel docs root loc v =
      Except.map (fun r => (r.1, root)) (process1 fuel [] .null none v)

theorem mapStep_indep {fuel : Nat} (ih : RootIndep fuel) (docs : List Val) (loc : Loc)
    {k : String} {v : Val} (hk : refKey k = false) (hv : refFree v = true) (acc : Fields)
    (rt : Val) :
    mapStep fuel docs loc (acc, rt) (k, v) =
      Except.map (fun r => (r.1, rt)) (mapStep fuel [] none (acc, .null) (k, v)) := by
  have hks : refFree (.str k) = true := by
    simp only [refKey, Bool.or_eq_false_iff] at hk
    simp [refFree, hk.2]
  simp only [mapStep]
  rw [ih v hv docs rt (childLoc loc k)]
  have hc : childLoc none k = none := rfl
  rw [hc]
  cases hp : process1 fuel [] .null none v with
  | error e => rfl
  | ok r =>
    obtain ⟨v2, r'⟩ := r
    have : r' = .null := process1_frame fuel _ _ _ _ _ _ hp
    subst this
    simp only [Except.map, R_bind_ok]
    cases hn : v2.isNull with
    | true => rfl
    | false =>
      simp only [Bool.false_eq_true, if_false]
      rw [ih (.str k) hks docs rt none]
      cases hq : process1 fuel [] .null none (.str k) with
      | error e => rfl
      | ok r2 =>
        obtain ⟨k2, r''⟩ := r2
        have : r'' = .null := process1_frame fuel _ _ _ _ _ _ hq
        subst this
        simp only [R_bind_ok]
        cases k2 <;> rfl

theorem entryStep_indep {fuel : Nat} (ih : RootIndep fuel) (docs : List Val) (loc : Loc)
    {v : Val} (tag : Option Nat) (hv : refFree v = true) (acc : List Val) (rt : Val) :
    entryStep fuel docs loc (acc, rt) (v, tag) =
      Except.map (fun r => (r.1, rt)) (entryStep fuel [] none (acc, .null) (v, tag)) := by
  simp only [entryStep]
  rw [ih v hv docs rt (entryLoc loc tag)]
  have hc : entryLoc none tag = none := by cases tag <;> rfl
  rw [hc]
  cases hp : process1 fuel [] .null none v with
  | error e => rfl
  | ok r =>
    obtain ⟨v2, r'⟩ := r
    have : r' = .null := process1_frame fuel _ _ _ _ _ _ hp
    subst this
    simp only [Except.map, R_bind_ok]
    cases hn : v2.isNull <;> rfl

/-- On a reference-free value `process1` never looks anything up: whatever the stream, the
    root and the location, the result is the one obtained with an empty stream and a `null`
    root, and the root is handed back unchanged. -/
theorem process1_refFree : ∀ fuel, RootIndep fuel := by
  intro fuel
  induction fuel with
  | zero => intro v _ docs root loc; rw [process1_zero, process1_zero]; rfl
  | succ fuel ih =>
    intro v hv docs root loc
    cases v with
    | null => rw [process1_null, process1_null]; rfl
    | bool b => rw [process1_bool, process1_bool]; rfl
    | int i => rw [process1_int, process1_int]; rfl
    | flt r => rw [process1_flt, process1_flt]; rfl
    | str s =>
      simp only [refFree, refStr, Bool.not_eq_true', Bool.or_eq_false_iff] at hv
      rw [process1_str_plain (e_stripPrefix_none hv.1) (e_stripPrefix_none hv.2),
        process1_str_plain (e_stripPrefix_none hv.1) (e_stripPrefix_none hv.2)]
      rfl
    | map kvs =>
      simp only [refFree] at hv
      obtain ⟨h0, h1⟩ := refFreeFields_fget hv
      rw [process1_map_plain h0 h1, process1_map_plain h0 h1,
        foldlM_root_indep (mapStep fuel docs loc) (mapStep fuel [] none) .null kvs
          (fun b hb acc rt => by
            obtain ⟨k, x⟩ := b
            have := refFreeFields_mem hv _ hb
            exact mapStep_indep ih docs loc this.1 this.2 acc rt)
          (fun b hb acc s' hs => mapStep_frame (process1_frame fuel) hs)]
      cases hf : kvs.foldlM (mapStep fuel [] none) (([] : Fields), Val.null) with
      | error e => rfl
      | ok r =>
        obtain ⟨ret, r'⟩ := r
        have : r' = .null :=
          foldlM_inv (fun st => st.2 = Val.null) _ _ _ _ rfl
            (fun s a s' _ hs hstep => by
              have := mapStep_frame (process1_frame fuel) hstep
              exact Eq.trans this hs) hf
        subst this
        rfl
    | list xs =>
      simp only [refFree] at hv
      have hm : ∀ x ∈ xs, notMergeEntry x = true :=
        fun x hx => refFree_notMergeEntry (refFreeList_mem hv x hx)
      have hr : ∀ x ∈ xs, notReplaceEntry x = true :=
        fun x hx => refFree_notReplaceEntry (refFreeList_mem hv x hx)
      have hfst : (listObj0 xs).map (·.1) = xs := by
        rw [listObj0_fst, List.filter_eq_self.2 hm]
      have hmem : ∀ q ∈ listObj0 xs, q.1 ∈ xs := by
        intro q hq
        rw [← hfst]; exact List.mem_map_of_mem hq
      have hfil : (listObj0 xs).filter (fun x => notReplaceEntry x.1) = listObj0 xs :=
        List.filter_eq_self.2 fun q hq => hr _ (hmem q hq)
      rw [process1_list, process1_list, listMerges_of_notMerge hm, foldlM_nil, foldlM_nil,
        R_bind_ok, R_bind_ok]
      unfold listFinish
      rw [hfst, popListMapValue_no_replace hr, R_bind_ok, R_bind_ok]
      simp only [Val.isNull, Bool.not_true, Bool.false_eq_true, if_false]
      rw [hfil,
        foldlM_root_indep (entryStep fuel docs loc) (entryStep fuel [] none) .null (listObj0 xs)
          (fun b hb acc rt => by
            obtain ⟨x, tag⟩ := b
            exact entryStep_indep ih docs loc tag (refFreeList_mem hv _ (hmem _ hb)) acc rt)
          (fun b hb acc s' hs => entryStep_frame (process1_frame fuel) hs)]
      cases hf : (listObj0 xs).foldlM (entryStep fuel [] none) (([] : List Val), Val.null) with
      | error e => rfl
      | ok r =>
        obtain ⟨ret, r'⟩ := r
        have : r' = .null :=
          foldlM_inv (fun st => st.2 = Val.null) _ _ _ _ rfl
            (fun s a s' _ hs hstep => by
              have := entryStep_frame (process1_frame fuel) hstep
              exact Eq.trans this hs) hf
        subst this
        rfl

/-! ## plain data (C06) is reference-free -/

theorem refKey_of_unrecognised {s : String} (h : recognisedCore s = false) : refKey s = false := by
  have h1 := e_rc_names h _ e_merge_mem
  have h2 := e_rc_names h _ e_replace_mem
  simp only [recognisedCore, recogChars, Bool.or_eq_false_iff] at h
  simp only [refKey, refStr, Bool.or_eq_false_iff, beq_eq_false_iff_ne]
  exact ⟨⟨h1, h2⟩, h.1.1.1.1.2, h.1.1.1.2⟩

mutual
theorem plain_refFree : ∀ v : Val, allStr e_P v = true → refFree v = true
  | .str s, h => by
    simp only [allStr, e_P, Bool.not_eq_true'] at h
    have := refKey_of_unrecognised h
    simp only [refKey, Bool.or_eq_false_iff] at this
    simp [refFree, this.2]
  | .list xs, h => by
    simp only [allStr] at h
    simp only [refFree]; exact plain_refFreeList xs h
  | .map kvs, h => by
    simp only [allStr] at h
    simp only [refFree]; exact plain_refFreeFields kvs h
  | .null, _ | .bool _, _ | .int _, _ | .flt _, _ => rfl
theorem plain_refFreeList : ∀ xs : List Val, allStrList e_P xs = true → refFreeList xs = true
  | [], _ => rfl
  | x :: xs, h => by
    simp only [allStrList, Bool.and_eq_true] at h
    simp only [refFreeList, Bool.and_eq_true]
    exact ⟨plain_refFree x h.1, plain_refFreeList xs h.2⟩
theorem plain_refFreeFields : ∀ kvs : Fields, allStrFields e_P kvs = true → refFreeFields kvs = true
  | [], _ => rfl
  | (k, v) :: rest, h => by
    simp only [allStrFields, Bool.and_eq_true, e_P, Bool.not_eq_true'] at h
    simp only [refFreeFields, Bool.and_eq_true, Bool.not_eq_true']
    exact ⟨⟨refKey_of_unrecognised h.1.1, plain_refFree v h.1.2⟩, plain_refFreeFields rest h.2⟩
end

/-! ## a concrete file system with a `$parent` cycle (non-vacuity of the C08 file theorems) -/

/-- decidable equality of results, so that `decide` can evaluate the file-system model -/
@[instance_reducible] def exceptDecEq {ε α : Type} [DecidableEq ε] [DecidableEq α] : DecidableEq (Except ε α) :=
  fun a b => match a, b with
    | .ok x, .ok y =>
      if h : x = y then isTrue (h ▸ rfl) else isFalse (fun e => by cases e; exact h rfl)
    | .error x, .error y =>
      if h : x = y then isTrue (h ▸ rfl) else isFalse (fun e => by cases e; exact h rfl)
    | .ok _, .error _ => isFalse (fun e => by cases e)
    | .error _, .ok _ => isFalse (fun e => by cases e)

attribute [local instance] exceptDecEq

theorem qsort_singleton_cyc {α : Type} (x : α) (lt : α → α → Bool) : (#[x].qsort lt) = #[x] := by
  unfold Array.qsort
  simp
  unfold Array.qsort.sort
  simp

/-- `extOf` with the split done on characters (kernel-computable) -/
def extOf' (base : String) : String :=
  match ((List.splitOnP (· == '.') base.toList).map String.ofList).reverse with
  | e :: _ :: _ => e
  | _ => ""

theorem extOf_eq_cyc : extOf = extOf' := by
  funext base; unfold extOf extOf'; rw [splitOn_dot]; rfl

/-- `splitPath` with the split done on characters (kernel-computable) -/
def splitPath' (p : String) : List String :=
  ((List.splitOnP (· == '/') p.toList).map String.ofList).filter (· != "")

theorem splitPath_eq_cyc : splitPath = splitPath' := by
  funext p; unfold splitPath splitPath'
  rw [show "/" = String.ofList ['/'] from rfl, splitOn_char]

/-- two files naming each other in `$parent`: `/w/p.yaml` ⇄ `/w/q.yaml` -/
def fsPQ : FS := { entries := [
  (["w"], .dir),
  (["w", "p.yaml"], .file (.ok [.map [("$parent", .str "q")]])),
  (["w", "q.yaml"], .file (.ok [.map [("$parent", .str "p")]]))] }

def cfgPQ : RootCfg := { root := [], cwd := ["w"] }

theorem fsPQ_load_p (fid : String) :
    loadFile fsPQ cfgPQ ["w", "p.yaml"] fid = .ok [.map [("$parent", .str "q")]] := by
  unfold loadFile
  rw [extOf_eq_cyc]
  decide

theorem fsPQ_load_q (fid : String) :
    loadFile fsPQ cfgPQ ["w", "q.yaml"] fid = .ok [.map [("$parent", .str "p")]] := by
  unfold loadFile
  rw [extOf_eq_cyc]
  decide

/-! ## the example documents of C08 -/

/-- `a: {$merge: b}, b: {$merge: a}` -/
def mapCycle2 : Val :=
  .map [("a", .map [("$merge", .str "b")]), ("b", .map [("$merge", .str "a")])]

/-- `a: {$merge: a}` -/
def mapSelfCycle : Val := .map [("a", .map [("$merge", .str "a")])]

/-- `a: {$merge: b, x: 1}, b: {$merge: a, y: 2}` -/
def mapCycle2Keys : Val :=
  .map [("a", .map [("$merge", .str "b"), ("x", .int 1)]),
        ("b", .map [("$merge", .str "a"), ("y", .int 2)])]

theorem interpClosed_1 : InterpClosed [("a", .str "$\"{a}\"")] := by
  intro p hp
  simp only [List.mem_cons, List.not_mem_nil, or_false] at hp
  subst hp
  exact ⟨"a", .str "$\"{a}\"", congrArg Val.str (by decide), isPlainRef_a, by decide, by decide⟩

theorem interpClosed_2 : InterpClosed [("a", .str "$\"{b}\""), ("b", .str "$\"{a}\"")] := by
  have hb : isPlainRef "b" = true := by
    have : "b".toLower = "b" := toLower_single 'b' (by decide)
    simp [isPlainRef, reservedWords, this]
  intro p hp
  simp only [List.mem_cons, List.not_mem_nil, or_false] at hp
  rcases hp with rfl | rfl
  · exact ⟨"b", .str "$\"{a}\"", congrArg Val.str (by decide), hb, by decide, by decide⟩
  · exact ⟨"a", .str "$\"{b}\"", congrArg Val.str (by decide), isPlainRef_a, by decide, by decide⟩

/-- `a: {$merge: [], x: 1}` -/
def selfMerge : Val := .map [("a", .map [("$merge", .list []), ("x", .int 1)])]

end Bkl
