/-
  BklProofs.Lemmas.C14Codec — helper definitions and lemmas for
  * C14: an abstract single-document text codec (`TextCodec`) and what process2.go does around it
    (`encodeWith` = process2Encode, `decodeWith` = process2DecodeStringMap), tied to the model's
    `process2` (which stops with `Err.unmodelled` exactly where the codec would be called);
  * C13: substituted values are not rescanned / referenced interpolations are evaluated first;
  * C09: evaluated-key collisions in `process2` of a map.
-/
import BklProofs.Lemmas.EscapeProc
import BklProofs.Lemmas.Interp
import BklProofs.Lemmas.Order
import BklProofs.Lemmas.Encode
namespace Bkl

/-! # C14 — abstract text codec -/

/-- One third-party text format (json / yaml / toml …), seen from process2.go:
    `enc v` is `string(GetFormat(name).MarshalStream([]any{v}))` (`none`: the marshaller failed),
    `decs s` is `GetFormat(name).UnmarshalStream([]byte(s))` followed by `normalize` of each
    document (`none`: the parser or `normalize` failed).
    `repr` is the class of values the format can represent, and `rt` is the only assumption made
    about the codec: a representable value is written as one document that reads back as itself. -/
structure TextCodec where
  name : String
  isCodec : isCodecFormat name = true
  enc : Val → Option String
  decs : String → Option (List Val)
  repr : Val → Prop
  rt : ∀ v, repr v → ∃ s, enc v = some s ∧ decs s = some [v]

/-- single-document decoder: exactly one document, else failure -/
def TextCodec.dec (c : TextCodec) (s : String) : Option Val :=
  match c.decs s with
  | some [d] => some d
  | _ => none

/-- the round-trip hypothesis in the form `dec (enc v) = some v` -/
theorem TextCodec.rt' (c : TextCodec) (v : Val) (h : c.repr v) : (c.enc v).bind c.dec = some v := by
  obtain ⟨s, h1, h2⟩ := c.rt v h
  simp [h1, TextCodec.dec, h2]

/-- process2.go:process2Encode as the model has it: evaluate the remaining entries, validate,
    run the transform stack; a codec format leaves the model. -/
def encodeModel (fuel : Nat) (docs : List Val) (root : Val) (ec : Vars) (rest : Fields)
    (spec : Val) : R Val := do
  let obj2 ← process2 fuel docs root ec (.map rest)
  validate obj2
  match encodeAny obj2 spec with
  | .ok v => pure v
  | .err e => throw e
  | .codec _ _ => throw Err.unmodelled

/-- process2.go:process2Encode with the `default:` case of process2EncodeString served by the
    codec `c` (`f.MarshalStream([]any{obj})`, result converted to a string). -/
def encodeWith (c : TextCodec) (fuel : Nat) (docs : List Val) (root : Val) (ec : Vars)
    (rest : Fields) (spec : Val) : R Val := do
  let obj2 ← process2 fuel docs root ec (.map rest)
  validate obj2
  match encodeAny obj2 spec with
  | .ok v => pure v
  | .err e => throw e
  | .codec f v =>
    if f = c.name then
      match c.enc v with
      | some s => pure (.str s)
      | none => throw Err.other
    else throw Err.unmodelled

/-- process2.go:process2DecodeStringMap as the model has it (`rest` = the map without `$decode`,
    `f` = the format name): the three argument checks, then the model is left. -/
def decodeModel (rest : Fields) (f : String) : R Val :=
  match fget rest "$value" with
  | none => throw Err.invalidType
  | some (.str _) =>
    if (fdel rest "$value").length != 0 then throw Err.extraKeys
    else if isCodecFormat f then throw Err.unmodelled else throw Err.unknownFormat
  | some _ => throw Err.invalidType

/-- process2.go:process2DecodeStringMap with the codec `c`: `$value` must be present, a string,
    and the only other key; the text must hold exactly one document (`ErrUnmarshal` otherwise);
    the decoded (normalised) document is then evaluated by `process2` at the same depth. -/
def decodeWith (c : TextCodec) (fuel : Nat) (docs : List Val) (root : Val) (ec : Vars)
    (rest : Fields) (f : String) : R Val :=
  match fget rest "$value" with
  | none => throw Err.invalidType
  | some (.str s) =>
    if (fdel rest "$value").length != 0 then throw Err.extraKeys
    else if f = c.name then
      match c.decs s with
      | none => throw Err.other
      | some [d] => process2 fuel docs root ec d
      | some _ => throw Err.unmarshal
    else if isCodecFormat f then throw Err.unmodelled else throw Err.unknownFormat
  | some _ => throw Err.invalidType

/-! ## tie to the model -/

/-- no entry of the map is itself a map carrying `$repeat` (so the expansion step of
    `process2` on a map is the identity) -/
def noRepeatEntries (kvs : Fields) : Prop :=
  ∀ p ∈ kvs, ∀ m, p.2 = Val.map m → fget m "$repeat" = none

/-- the last stage of `process2` on a map: entry-wise evaluation of values and keys, in list
    (= sorted key) order, null results dropped, later entries overwrite earlier ones -/
def process2Entries (fuel : Nat) (docs : List Val) (root : Val) (ec : Vars) (kvs : Fields) :
    R Val := do
  let ret ← kvs.foldlM (init := ([] : Fields)) fun acc (k, v) => do
    let v2 ← process2 fuel docs root ec v
    if v2.isNull then pure acc
    else
      match ← process2 fuel docs root ec (.str k) with
      | .str k2 => pure (fset acc k2 v2)
      | _ => throw Err.invalidType
  pure (.map ret)

/-- `process2` on a map after the `$repeat` expansion step: the three directive checks in
    order, then the entry-wise evaluation -/
def cx_process2MapTail (fuel : Nat) (docs : List Val) (root : Val) (ec : Vars) (kvs : Fields) :
    R Val :=
  match fget kvs "$encode" with
  | some spec => encodeModel fuel docs root ec (fdel kvs "$encode") spec
  | none =>
    match fget kvs "$decode" with
    | some (.str f) => decodeModel (fdel kvs "$decode") f
    | some _ => .error .invalidType
    | none =>
      match fget kvs "$value" with
      | some v =>
        if (fdel kvs "$value").length != 0 then .error .extraKeys
        else process2 fuel docs root ec v
      | none => process2Entries fuel docs root ec kvs

/-- when no entry is a `$repeat` map, the expansion step only re-inserts the entries one by one
    into a fresh map (so they end up in key order whatever order they were listed in) -/
theorem process2_map_noRepeat' (fuel : Nat) (docs : List Val) (root : Val) (ec : Vars)
    (kvs : Fields) (hr : noRepeatEntries kvs) :
    process2 (fuel + 1) docs root ec (.map kvs)
      = cx_process2MapTail fuel docs root ec (fofList kvs) := by
  rw [process2]
  rw [e_foldlM_fields_id _ kvs []]
  · rw [← fofList]
    simp only [e_ok_bind, cx_process2MapTail]
    cases fget (fofList kvs) "$encode" with
    | some spec => rfl
    | none =>
      cases fget (fofList kvs) "$decode" with
      | none => rfl
      | some d => cases d <;> rfl
  · intro acc q hq
    obtain ⟨k, v⟩ := q
    cases v with
    | map m => simp only [hr _ hq m rfl, e_pure_eq]
    | _ => rfl

theorem process2_map_noRepeat (fuel : Nat) (docs : List Val) (root : Val) (ec : Vars)
    (kvs : Fields) (hs : Fields.sortedKeysB kvs = true) (hr : noRepeatEntries kvs) :
    process2 (fuel + 1) docs root ec (.map kvs) = cx_process2MapTail fuel docs root ec kvs := by
  rw [process2_map_noRepeat' _ _ _ _ _ hr, e_fofList_sorted _ hs]

/-- `encodeWith c` extends the model conservatively: wherever the model's evaluation stays inside
    the model, the codec-aware evaluation gives the same result -/
theorem encodeWith_conservative (c : TextCodec) (fuel : Nat) (docs : List Val) (root : Val)
    (ec : Vars) (rest : Fields) (spec : Val) (r : R Val)
    (h : encodeModel fuel docs root ec rest spec = r) (hr : r ≠ .error .unmodelled) :
    encodeWith c fuel docs root ec rest spec = r := by
  subst h
  unfold encodeModel at hr ⊢
  unfold encodeWith
  cases h1 : process2 fuel docs root ec (.map rest) with
  | error e => rfl
  | ok obj2 =>
    simp only [h1, e_ok_bind] at hr ⊢
    cases h2 : validate obj2 with
    | error e => rfl
    | ok u =>
      simp only [h2, e_ok_bind] at hr ⊢
      cases h3 : encodeAny obj2 spec with
      | ok v => rfl
      | err e => rfl
      | codec f v => rw [h3] at hr; exact absurd rfl hr

theorem decodeWith_conservative (c : TextCodec) (fuel : Nat) (docs : List Val) (root : Val)
    (ec : Vars) (rest : Fields) (f : String) (r : R Val)
    (h : decodeModel rest f = r) (hr : r ≠ .error .unmodelled) :
    decodeWith c fuel docs root ec rest f = r := by
  subst h
  unfold decodeModel at hr ⊢
  unfold decodeWith
  cases h1 : fget rest "$value" with
  | none => rfl
  | some v =>
    cases v with
    | str s =>
      simp only [h1] at hr ⊢
      by_cases h2 : ((fdel rest "$value").length != 0) = true
      · simp only [h2, if_true]
      · simp only [h2, if_false, Bool.false_eq_true] at hr ⊢
        by_cases h3 : f = c.name
        · subst h3
          simp only [c.isCodec, if_true] at hr
          exact absurd rfl hr
        · simp only [h3, if_false]
    | _ => rfl

/-! ## the codec names are single-part specs -/

theorem codec_name_cases {f : String} (h : isCodecFormat f = true) :
    f = "json" ∨ f = "jsonl" ∨ f = "json-pretty" ∨ f = "toml" ∨ f = "yaml" ∨ f = "yml" := by
  simpa [isCodecFormat, or_assoc] using h

theorem encodeString_codec (obj : Val) {f : String} (h : isCodecFormat f = true) :
    encodeString obj f = .codec f obj := by
  have p1 : "json".splitOn ":" = ["json"] := by rw [splitOn_colon]; decide
  have p2 : "jsonl".splitOn ":" = ["jsonl"] := by rw [splitOn_colon]; decide
  have p3 : "json-pretty".splitOn ":" = ["json-pretty"] := by rw [splitOn_colon]; decide
  have p4 : "toml".splitOn ":" = ["toml"] := by rw [splitOn_colon]; decide
  have p5 : "yaml".splitOn ":" = ["yaml"] := by rw [splitOn_colon]; decide
  have p6 : "yml".splitOn ":" = ["yml"] := by rw [splitOn_colon]; decide
  rcases codec_name_cases h with rfl | rfl | rfl | rfl | rfl | rfl
  · unfold encodeString; rw [p1]; simp [isCodecFormat]
  · unfold encodeString; rw [p2]; simp [isCodecFormat]
  · unfold encodeString; rw [p3]; simp [isCodecFormat]
  · unfold encodeString; rw [p4]; simp [isCodecFormat]
  · unfold encodeString; rw [p5]; simp [isCodecFormat]
  · unfold encodeString; rw [p6]; simp [isCodecFormat]

/-! ## the `{$value: v}` wrapper and the two directions around the codec -/

theorem process2_value_only (fuel : Nat) (docs : List Val) (root : Val) (ec : Vars) (v : Val)
    (hv : ∀ m, v = .map m → fget m "$repeat" = none) :
    process2 (fuel + 1) docs root ec (.map [("$value", v)]) = process2 fuel docs root ec v := by
  rw [process2_map_noRepeat _ _ _ _ _ rfl
    (by intro p hp m hm; simp only [List.mem_singleton] at hp; subst hp; exact hv m hm)]
  simp [cx_process2MapTail, fget, fdel]

theorem cx_plain_noRepeat {v : Val} (hp : plain v = true) :
    ∀ m, v = .map m → fget m "$repeat" = none := by
  intro m hm
  subst hm
  rw [e_plain_def] at hp
  simp only [allStr] at hp
  exact e_plainFields_fget hp e_repeat_mem

/-- encoding: the value handed to the codec is the evaluation of `$value` -/
theorem encodeWith_of_eval (c : TextCodec) (fuel : Nat) (docs : List Val) (root : Val) (ec : Vars)
    (v w : Val) (hv : ∀ m, v = .map m → fget m "$repeat" = none)
    (he : process2 fuel docs root ec v = .ok w) (hval : validate w = .ok ()) :
    encodeWith c (fuel + 1) docs root ec [("$value", v)] (.str c.name) =
      match c.enc w with
      | some s => .ok (.str s)
      | none => .error .other := by
  unfold encodeWith
  rw [process2_value_only _ _ _ _ _ hv, he]
  simp only [e_ok_bind, hval, encodeAny, encodeString_codec w c.isCodec, if_true]
  cases c.enc w <;> rfl

/-- decoding: exactly one document, which is then evaluated -/
theorem decodeWith_of_decs (c : TextCodec) (fuel : Nat) (docs : List Val) (root : Val) (ec : Vars)
    (s : String) :
    decodeWith c fuel docs root ec [("$value", .str s)] c.name =
      match c.decs s with
      | none => .error .other
      | some [d] => process2 fuel docs root ec d
      | some _ => .error .unmarshal := by
  simp only [decodeWith, fget, fdel, if_true, List.length_nil, bne_self_eq_false,
    Bool.false_eq_true, if_false]
  rfl

/-! ## a concrete codec (non-vacuity of `TextCodec` and of the C14 theorems) -/

def c14_exVal : Val := .map [("a", .int 1), ("b", .list [.str "x", .bool true])]
def c14_exText : String := "{\"a\":1,\"b\":[\"x\",true]}\n"

/-- A toy "json": one structured value is written as its JSON text, strings are written raw
    (so that arbitrary strings, e.g. `$"{a}"`, are representable), the empty text holds no
    document.  Only the `TextCodec` interface matters. -/
def c14_toyCodec : TextCodec where
  name := "json"
  isCodec := by simp [isCodecFormat]
  enc v := if v = c14_exVal then some c14_exText else
    match v with
    | .str s => some s
    | _ => none
  decs s := if s = c14_exText then some [c14_exVal] else if s = "" then some [] else some [.str s]
  repr v := v = c14_exVal ∨ ∃ s, v = .str s ∧ s ≠ c14_exText ∧ s ≠ ""
  rt := by
    intro v h
    rcases h with rfl | ⟨s, rfl, h1, h2⟩
    · exact ⟨c14_exText, by simp, by simp⟩
    · refine ⟨s, ?_, by simp [h1, h2]⟩
      have : Val.str s ≠ c14_exVal := by simp [c14_exVal]
      simp [this]

/-! # C13 — substitution of referenced values -/

theorem cx_process2_str (fuel : Nat) (docs : List Val) (root : Val) (ec : Vars) (s : String) :
    process2 (fuel + 1) docs root ec (.str s) = process2String (fuel + 1) docs root ec s := by
  rw [process2]

/-- `process2String` on `$"…"` is `interpSpec` on the scanned body (same statement as
    `C13_interp_spec`, needed here by lemma files) -/
theorem process2String_interp (fuel : Nat) (docs : List Val) (root : Val) (ec : Vars) (s : String)
    (body : List Char) (hb : interpBody s = some body) :
    process2String (fuel + 1) docs root ec s = interpSpec fuel docs root ec (interpSegs body) := by
  rw [process2String.eq_1]
  simp only [hb, interpSpec]
  have key : ∀ (f : Seg → R String), (∀ seg, f seg = interpSeg fuel docs root ec seg) →
      (do let parts ← List.mapM f (interpSegs body); pure (Val.str (String.join parts)))
        = (match List.mapM (interpSeg fuel docs root ec) (interpSegs body) with
          | .error e => .error e
          | .ok parts => .ok (.str (String.join parts)) : R Val) := by
    intro f hf
    have : f = interpSeg fuel docs root ec := funext hf
    subst this
    cases List.mapM (interpSeg fuel docs root ec) (interpSegs body) <;> rfl
  apply key
  intro seg
  cases seg with
  | lit cs => rfl
  | ref cs =>
    simp only [interpSeg]
    cases getWithVar root docs ec (String.ofList cs) with
    | error e => rfl
    | ok v =>
      cases v <;> try rfl
      simp only [ok_bind']
      cases process2String fuel docs root ec _ <;> rfl

/-- the text put in place of one segment when reference `r` stands for the value `ev r` -/
def cx_substSeg (ev : List Char → Val) : Seg → String
  | .lit cs => String.ofList cs
  | .ref r => fmtV (ev r)

/-- the same on characters -/
def substSegChars (ev : List Char → Val) : Seg → List Char
  | .lit cs => cs
  | .ref r => (fmtV (ev r)).toList

theorem toList_join_substSeg (ev : List Char → Val) (segs : List Seg) :
    (String.join (segs.map (cx_substSeg ev))).toList = segs.flatMap (substSegChars ev) := by
  rw [String.toList_join]
  induction segs with
  | nil => rfl
  | cons a t ih =>
    simp only [List.map_cons, List.flatMap_cons, ih]
    cases a <;> simp [cx_substSeg, substSegChars]

/-- How reference `r` resolves to the value `w` that gets formatted: the looked-up value `v`
    itself when it is not a string; when it is a string `s2`, the result of one more
    `process2String` pass over `s2` (with one unit of fuel less). -/
def RefResolves (fuel : Nat) (docs : List Val) (root : Val) (ec : Vars) (r : List Char)
    (w : Val) : Prop :=
  ∃ v, getWithVar root docs ec (String.ofList r) = .ok v ∧
    (((∀ s, v ≠ .str s) ∧ w = v) ∨
      ∃ s2, v = .str s2 ∧ process2String fuel docs root ec s2 = .ok w)

theorem interpSeg_resolves (fuel : Nat) (docs : List Val) (root : Val) (ec : Vars)
    (ev : List Char → Val) (r : List Char) (h : RefResolves fuel docs root ec r (ev r)) :
    interpSeg fuel docs root ec (.ref r) = .ok (cx_substSeg ev (.ref r)) := by
  obtain ⟨v, hg, hv⟩ := h
  simp only [interpSeg, hg, cx_substSeg]
  rcases hv with ⟨hns, hw⟩ | ⟨s2, rfl, hp⟩
  · rw [hw]
    cases v <;> first | rfl | exact absurd rfl (hns _)
  · simp only [hp]

theorem interpSpec_subst (fuel : Nat) (docs : List Val) (root : Val) (ec : Vars)
    (segs : List Seg) (ev : List Char → Val)
    (h : ∀ r, Seg.ref r ∈ segs → RefResolves fuel docs root ec r (ev r)) :
    interpSpec fuel docs root ec segs = .ok (.str (String.join (segs.map (cx_substSeg ev)))) := by
  have key : segs.mapM (interpSeg fuel docs root ec) = .ok (segs.map (cx_substSeg ev)) := by
    induction segs with
    | nil => rfl
    | cons a t ih =>
      have iht := ih (fun r hr => h r (List.mem_cons_of_mem _ hr))
      rw [List.mapM_cons]
      cases a with
      | lit cs => simp only [interpSeg, iht, ok_bind', List.map_cons, cx_substSeg]; rfl
      | ref r =>
        rw [interpSeg_resolves fuel docs root ec ev r (h r (List.mem_cons_self ..))]
        simp only [iht, ok_bind', List.map_cons]; rfl
  simp only [interpSpec, key]

/-- the `$"…"` wrapper around a body is recognised, whatever the body -/
theorem interpBody_wrap (body : List Char) :
    interpBody (String.ofList ('$' :: '"' :: (body ++ ['"']))) = some body := by
  simp [interpBody]

/-- a string that `process2String` leaves alone -/
def inertStr (s : String) : Prop :=
  interpBody s = none ∧ s.startsWith "$env:" = false ∧ s ≠ "$repeat"

theorem process2String_inert (fuel : Nat) (docs : List Val) (root : Val) (ec : Vars) (s : String)
    (h : inertStr s) : process2String fuel docs root ec s = .ok (.str s) := by
  obtain ⟨h1, h2, h3⟩ := h
  rw [process2String.eq_1]
  simp [h1, h2, h3]
  rfl

theorem process2String_env (fuel : Nat) (docs : List Val) (root : Val) (ec : Vars) (name : String) :
    process2String fuel docs root ec ("$env:" ++ name) = getVar ec ("$env:" ++ name) := by
  rw [process2String.eq_1]
  simp only [interpBody_env, startsWith_env, Bool.true_or, if_true]

theorem cx_toLower_b : "b".toLower = "b" := by
  apply String.toList_inj.1
  simp [String.toLower, String.toList_map]

theorem cx_isPlainRef_b : isPlainRef "b" = true := by
  simp [isPlainRef, reservedWords, cx_toLower_b]

/-- the characters put in place of a segment when reference `r` stands for the string `sv r` -/
def substStrChars (sv : List Char → String) : Seg → List Char
  | .lit cs => cs
  | .ref r => (sv r).toList

theorem substSegChars_str (sv : List Char → String) :
    substSegChars (fun r => Val.str (sv r)) = substStrChars sv := by
  funext seg
  cases seg <;> simp [substSegChars, substStrChars, fmtV]

/-! # C09 — evaluated-key collisions in `process2` of a map -/

/-- one entry of a map under `process2`: the value is evaluated first; a null result drops the
    entry; otherwise the key is evaluated and must be a string -/
def evalEntry (fuel : Nat) (docs : List Val) (root : Val) (ec : Vars) (p : String × Val) :
    R (Option (String × Val)) := do
  let v2 ← process2 fuel docs root ec p.2
  if v2.isNull then pure none
  else
    match ← process2 fuel docs root ec (.str p.1) with
    | .str k2 => pure (some (k2, v2))
    | _ => throw Err.invalidType

/-- all entries, in list order (first error wins); the evaluated entries keep that order and may
    have colliding keys -/
def evalEntries (fuel : Nat) (docs : List Val) (root : Val) (ec : Vars) : Fields → R Fields
  | [] => pure []
  | p :: rest => do
    let o ← evalEntry fuel docs root ec p
    let r ← evalEntries fuel docs root ec rest
    pure (o.toList ++ r)

theorem process2Entries_eq (fuel : Nat) (docs : List Val) (root : Val) (ec : Vars) (kvs : Fields) :
    process2Entries fuel docs root ec kvs =
      (evalEntries fuel docs root ec kvs >>= fun es => pure (.map (fofList es))) := by
  unfold process2Entries
  have key : ∀ (kvs acc : Fields),
      (kvs.foldlM (init := acc) fun acc (p : String × Val) => do
        let v2 ← process2 fuel docs root ec p.2
        if v2.isNull then pure acc
        else
          match ← process2 fuel docs root ec (.str p.1) with
          | .str k2 => pure (fset acc k2 v2)
          | _ => throw Err.invalidType)
        = (evalEntries fuel docs root ec kvs >>= fun es => pure (fsetAll acc es)) := by
    intro kvs
    induction kvs with
    | nil => intro acc; rfl
    | cons p rest ih =>
      intro acc
      rw [List.foldlM_cons]
      simp only [ih, evalEntries, evalEntry]
      cases process2 fuel docs root ec p.2 with
      | error e => rfl
      | ok v2 =>
        simp only [e_ok_bind]
        by_cases hn : v2.isNull = true
        · simp only [hn, if_true, e_pure_eq, e_ok_bind]
          cases evalEntries fuel docs root ec rest <;> rfl
        · simp only [hn, Bool.false_eq_true, if_false]
          cases process2 fuel docs root ec (.str p.1) with
          | error e => rfl
          | ok k2 =>
            cases k2 with
            | str k2 =>
              simp only [e_ok_bind, e_pure_eq]
              cases evalEntries fuel docs root ec rest <;> rfl
            | _ => rfl
  have := key kvs []
  simp only [fofList]
  rw [this]
  cases evalEntries fuel docs root ec kvs <;> rfl

theorem evalEntries_append (fuel : Nat) (docs : List Val) (root : Val) (ec : Vars) (A B : Fields) :
    evalEntries fuel docs root ec (A ++ B) =
      (do let a ← evalEntries fuel docs root ec A
          let b ← evalEntries fuel docs root ec B
          pure (a ++ b)) := by
  induction A with
  | nil =>
    simp only [List.nil_append, evalEntries, e_pure_eq, e_ok_bind]
    cases evalEntries fuel docs root ec B <;> rfl
  | cons p rest ih =>
    simp only [List.cons_append, evalEntries, ih]
    cases evalEntry fuel docs root ec p with
    | error e => rfl
    | ok o =>
      simp only [e_ok_bind]
      cases evalEntries fuel docs root ec rest with
      | error e => rfl
      | ok r =>
        simp only [e_ok_bind]
        cases evalEntries fuel docs root ec B with
        | error e => rfl
        | ok b => simp [e_ok_bind, e_pure_eq]

/-- a successful evaluation of `P ++ x :: C` splits into the three parts -/
theorem evalEntries_split {fuel : Nat} {docs : List Val} {root : Val} {ec : Vars}
    {P C : Fields} {x : String × Val} {es : Fields}
    (h : evalEntries fuel docs root ec (P ++ x :: C) = .ok es) :
    ∃ eP o eC, evalEntries fuel docs root ec P = .ok eP ∧ evalEntry fuel docs root ec x = .ok o ∧
      evalEntries fuel docs root ec C = .ok eC ∧ es = eP ++ (o.toList ++ eC) := by
  rw [evalEntries_append] at h
  simp only [evalEntries] at h
  cases hP : evalEntries fuel docs root ec P with
  | error e => rw [hP] at h; cases h
  | ok eP =>
    cases hx : evalEntry fuel docs root ec x with
    | error e => rw [hP, hx] at h; cases h
    | ok o =>
      cases hC : evalEntries fuel docs root ec C with
      | error e => rw [hP, hx, hC] at h; cases h
      | ok eC =>
        rw [hP, hx, hC] at h
        simp only [e_ok_bind, e_pure_eq, Except.ok.injEq] at h
        exact ⟨eP, o, eC, rfl, rfl, rfl, h.symm⟩

/-- if no entry of `C` evaluates to the key `k`, the evaluated list has no key `k` -/
theorem evalEntries_no_key {fuel : Nat} {docs : List Val} {root : Val} {ec : Vars} {k : String} :
    ∀ {C eC : Fields}, evalEntries fuel docs root ec C = .ok eC →
      (∀ p ∈ C, ∀ q, evalEntry fuel docs root ec p = .ok (some q) → q.1 ≠ k) →
      ∀ q ∈ eC, q.1 ≠ k := by
  intro C
  induction C with
  | nil =>
    intro eC h _ q hq
    simp only [evalEntries, e_pure_eq, Except.ok.injEq] at h
    subst h; cases hq
  | cons p rest ih =>
    intro eC h hC q hq
    simp only [evalEntries] at h
    cases hp : evalEntry fuel docs root ec p with
    | error e => rw [hp] at h; cases h
    | ok o =>
      cases hr : evalEntries fuel docs root ec rest with
      | error e => rw [hp, hr] at h; cases h
      | ok r =>
        rw [hp, hr] at h
        simp only [e_ok_bind, e_pure_eq, Except.ok.injEq] at h
        subst h
        rcases List.mem_append.1 hq with hq | hq
        · cases o with
          | none => cases hq
          | some q' =>
            simp only [Option.toList, List.mem_singleton] at hq
            subst hq
            exact hC p (List.mem_cons_self ..) _ hp
        · exact ih hr (fun p' hp' => hC p' (List.mem_cons_of_mem _ hp')) q hq

/-- `fofList`: the LAST entry with a given key is the one kept -/
theorem fget_fofList_last (X Y : Fields) (k : String) (w : Val) (hY : ∀ q ∈ Y, q.1 ≠ k) :
    fget (fofList (X ++ (k, w) :: Y)) k = some w := by
  unfold fofList
  rw [fsetAll_append, fsetAll_cons, fget_fsetAll_of_not_mem hY]
  exact fget_fset_same _ _ _

theorem fget_fofList_none (es : Fields) (k : String) (h : ∀ q ∈ es, q.1 ≠ k) :
    fget (fofList es) k = none := by
  unfold fofList
  rw [fget_fsetAll_of_not_mem h]; rfl

/-- in a key-sorted list, the entries before / after a given entry have smaller / larger keys -/
theorem sorted_split_at {kvs : Fields} (hs : Fields.sortedKeysB kvs = true) {x : String × Val}
    (hx : x ∈ kvs) :
    ∃ P C, kvs = P ++ x :: C ∧ (∀ p ∈ P, p.1 < x.1) ∧ (∀ p ∈ C, x.1 < p.1) := by
  obtain ⟨P, C, rfl⟩ := List.append_of_mem hx
  rw [e_sortedB_iff, List.pairwise_append] at hs
  obtain ⟨_, h2, h3⟩ := hs
  rw [List.pairwise_cons] at h2
  exact ⟨P, C, rfl, fun p hp => h3 p hp x (List.mem_cons_self ..), fun p hp => h2.1 p hp⟩

theorem noRepeatEntries_perm {s s' : Fields} (hp : s'.Perm s) (h : noRepeatEntries s) :
    noRepeatEntries s' := fun p hm => h p (hp.mem_iff.1 hm)

/-- the input order of the entries is irrelevant -/
theorem process2_map_perm (fuel : Nat) (docs : List Val) (root : Val) (ec : Vars) {s s' : Fields}
    (hn : Fields.DistinctKeys s) (hr : noRepeatEntries s) (hp : s'.Perm s) :
    process2 (fuel + 1) docs root ec (.map s') = process2 (fuel + 1) docs root ec (.map s) := by
  rw [process2_map_noRepeat' _ _ _ _ _ hr, process2_map_noRepeat' _ _ _ _ _
    (noRepeatEntries_perm hp hr), fofList_perm hn hp]

theorem cx_toLower_p : "p".toLower = "p" := by
  apply String.toList_inj.1
  simp [String.toLower, String.toList_map]

theorem cx_isPlainRef_p : isPlainRef "p" = true := by
  simp [isPlainRef, reservedWords, cx_toLower_p]

theorem cx_toLower_q : "q".toLower = "q" := by
  apply String.toList_inj.1
  simp [String.toLower, String.toList_map]

theorem cx_isPlainRef_q : isPlainRef "q" = true := by
  simp [isPlainRef, reservedWords, cx_toLower_q]

/-- scalars other than strings evaluate to themselves -/
theorem cx_process2_int (fuel : Nat) (docs : List Val) (root : Val) (ec : Vars) (i : Int) :
    process2 (fuel + 1) docs root ec (.int i) = .ok (.int i) := by
  simp [process2, e_pure_eq]

/-- The document `{$"{p}": 1, $"{q}": 2, p: web, q: web}`: both interpolated keys evaluate to
    `web`; the sorted order of the original keys is `$"{p}" < $"{q}" < p < q`. -/
def C09_collide : Fields :=
  [("$\"{p}\"", .int 1), ("$\"{q}\"", .int 2), ("p", .str "web"), ("q", .str "web")]

theorem C09_collide_entries (fuel : Nat) :
    evalEntry (fuel + 2) [] (.map C09_collide) [] ("$\"{p}\"", .int 1) = .ok (some ("web", .int 1)) ∧
    evalEntry (fuel + 2) [] (.map C09_collide) [] ("$\"{q}\"", .int 2) = .ok (some ("web", .int 2)) ∧
    evalEntry (fuel + 2) [] (.map C09_collide) [] ("p", .str "web") = .ok (some ("p", .str "web")) ∧
    evalEntry (fuel + 2) [] (.map C09_collide) [] ("q", .str "web") = .ok (some ("q", .str "web")) := by
  have hweb : ∀ n, process2String n [] (.map C09_collide) [] "web" = .ok (.str "web") :=
    fun n => process2String_inert _ _ _ _ _ ⟨by decide, by simp, by decide⟩
  have hp : ∀ n, process2String n [] (.map C09_collide) [] "p" = .ok (.str "p") :=
    fun n => process2String_inert _ _ _ _ _ ⟨by decide, by simp, by decide⟩
  have hq : ∀ n, process2String n [] (.map C09_collide) [] "q" = .ok (.str "q") :=
    fun n => process2String_inert _ _ _ _ _ ⟨by decide, by simp, by decide⟩
  have hkp : process2String (fuel + 2) [] (.map C09_collide) [] "$\"{p}\"" = .ok (.str "web") := by
    rw [process2String_interp _ _ _ _ _ "{p}".toList (by decide),
      show interpSegs "{p}".toList = [.ref "p".toList] from by decide,
      interpSpec_subst _ _ _ _ _ (fun _ => .str "web")]
    · exact congrArg Except.ok (by decide)
    · intro r hr
      simp only [List.mem_singleton, Seg.ref.injEq] at hr
      subst hr
      exact ⟨.str "web", getWithVar_simple_key _ _ _ _ _ (by simpa using cx_isPlainRef_p) (by decide)
        (by decide), Or.inr ⟨"web", rfl, hweb _⟩⟩
  have hkq : process2String (fuel + 2) [] (.map C09_collide) [] "$\"{q}\"" = .ok (.str "web") := by
    rw [process2String_interp _ _ _ _ _ "{q}".toList (by decide),
      show interpSegs "{q}".toList = [.ref "q".toList] from by decide,
      interpSpec_subst _ _ _ _ _ (fun _ => .str "web")]
    · exact congrArg Except.ok (by decide)
    · intro r hr
      simp only [List.mem_singleton, Seg.ref.injEq] at hr
      subst hr
      exact ⟨.str "web", getWithVar_simple_key _ _ _ _ _ (by simpa using cx_isPlainRef_q) (by decide)
        (by decide), Or.inr ⟨"web", rfl, hweb _⟩⟩
  refine ⟨?_, ?_, ?_, ?_⟩
  · simp only [evalEntry, cx_process2_int, cx_process2_str, hkp, e_ok_bind]; rfl
  · simp only [evalEntry, cx_process2_int, cx_process2_str, hkq, e_ok_bind]; rfl
  · simp only [evalEntry, cx_process2_str, hweb, hp, e_ok_bind]; rfl
  · simp only [evalEntry, cx_process2_str, hweb, hq, e_ok_bind]; rfl

theorem cx_toLower_l : "l".toLower = "l" := by
  apply String.toList_inj.1
  simp [String.toLower, String.toList_map]

theorem cx_isPlainRef_l : isPlainRef "l" = true := by
  simp [isPlainRef, reservedWords, cx_toLower_l]

end Bkl
