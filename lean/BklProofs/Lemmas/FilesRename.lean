/-
  BklProofs.Lemmas.FilesRename — the parser's result depends on document ids only up to an
  injective renaming (that commutes with the `|matchnull` suffix the parser itself appends).
-/
import Bkl.Files
import BklProofs.Lemmas.Parser
import BklProofs.Lemmas.Merge
set_option linter.unusedVariables false
namespace Bkl

/-- `ρ` is an admissible renaming of the ids in `S`: injective on `S`, and `S`/`ρ` are compatible
    with the one id the parser invents (`id ++ "|matchnull"`) -/
structure RenOK (ρ : String → String) (S : String → Prop) : Prop where
  inj : ∀ a b, S a → S b → ρ a = ρ b → a = b
  closed : ∀ s, S s → S (s ++ "|matchnull")
  comm : ∀ s, S s → ρ (s ++ "|matchnull") = ρ s ++ "|matchnull"

def renKnown (ρ : String → String) (known : List (String × List String)) :
    List (String × List String) := known.map fun k => (ρ k.1, k.2.map ρ)

def renDocs (ρ : String → String) (docs : List (String × Val)) : List (String × Val) :=
  docs.map fun d => (ρ d.1, d.2)

def renState (ρ : String → String) (st : PState) : PState :=
  { docs := renDocs ρ st.docs, known := renKnown ρ st.known }

def renDoc (ρ : String → String) (d : Doc) : Doc :=
  { id := ρ d.id, parents := d.parents.map ρ, data := d.data }

def KnownIn (S : String → Prop) (known : List (String × List String)) : Prop :=
  ∀ k ∈ known, S k.1 ∧ ∀ p ∈ k.2, S p

def DocsIn (S : String → Prop) (docs : List (String × Val)) : Prop := ∀ d ∈ docs, S d.1

def StIn (S : String → Prop) (st : PState) : Prop := DocsIn S st.docs ∧ KnownIn S st.known

def DocIn (S : String → Prop) (d : Doc) : Prop := S d.id ∧ ∀ p ∈ d.parents, S p

def rmap {α β : Type} (f : α → β) : R α → R β
  | .ok a => .ok (f a)
  | .error e => .error e

variable {ρ : String → String} {S : String → Prop}

theorem beq_ren (h : RenOK ρ S) {a b : String} (ha : S a) (hb : S b) : (ρ a == ρ b) = (a == b) := by
  by_cases e : a = b
  · subst e; rw [beq_self_eq_true, beq_self_eq_true]
  · have : ρ a ≠ ρ b := fun e' => e (h.inj a b ha hb e')
    rw [beq_eq_false_iff_ne.2 this, beq_eq_false_iff_ne.2 e]

theorem contains_map_ren (h : RenOK ρ S) {l : List String} {a : String} (hl : ∀ x ∈ l, S x)
    (ha : S a) : (l.map ρ).contains (ρ a) = l.contains a := by
  induction l with
  | nil => rfl
  | cons x l ih =>
    rw [List.map_cons, List.contains_cons, List.contains_cons,
      beq_ren h ha (hl x List.mem_cons_self), ih (fun y hy => hl y (List.mem_cons_of_mem _ hy))]

theorem KnownIn.tail {k : String × List String} {known : List (String × List String)}
    (h : KnownIn S (k :: known)) : KnownIn S known := fun x hx => h x (List.mem_cons_of_mem _ hx)

theorem any_ren (h : RenOK ρ S) {known : List (String × List String)} {id : String}
    (hk : KnownIn S known) (hi : S id) :
    (renKnown ρ known).any (fun k => k.1 == ρ id) = known.any (fun k => k.1 == id) := by
  induction known with
  | nil => rfl
  | cons k known ih =>
    show (ρ k.1 == ρ id || (renKnown ρ known).any fun k => k.1 == ρ id) = _
    rw [List.any_cons, beq_ren h (hk k List.mem_cons_self).1 hi, ih hk.tail]

theorem addParents_ren (h : RenOK ρ S) {known : List (String × List String)} {id : String}
    {ps : List String} (hk : KnownIn S known) (hi : S id) :
    addParents (renKnown ρ known) (ρ id) (ps.map ρ) = renKnown ρ (addParents known id ps) := by
  unfold addParents
  have hany := any_ren h hk hi
  rw [hany]
  split
  · unfold renKnown
    rw [List.map_map, List.map_map]
    apply List.map_congr_left
    intro k hk'
    obtain ⟨i, old⟩ := k
    have := beq_ren h (hk _ hk').1 hi
    simp only [Function.comp] at this ⊢
    rw [this]
    split <;> simp
  · simp [renKnown]

theorem lookupParents_ren (h : RenOK ρ S) {known : List (String × List String)} {id : String}
    (hk : KnownIn S known) (hi : S id) :
    lookupParents (renKnown ρ known) (ρ id) = (lookupParents known id).map ρ := by
  induction known with
  | nil => rfl
  | cons k known ih =>
    have hb := beq_ren h (hk k List.mem_cons_self).1 hi
    have ih' := ih hk.tail
    unfold lookupParents at ih' ⊢
    show (match ((ρ k.1, k.2.map ρ) :: renKnown ρ known).find? (fun x => x.1 == ρ id) with
      | some (_, ps) => ps | none => []) = _
    rw [List.find?_cons, List.find?_cons]
    simp only [hb]
    cases k.1 == id
    · exact ih'
    · rfl

theorem lookupParents_in {known : List (String × List String)} (hk : KnownIn S known)
    (id : String) : ∀ x ∈ lookupParents known id, S x := by
  unfold lookupParents
  cases hf : known.find? (·.1 == id) with
  | none => intro x hx; cases hx
  | some k =>
    obtain ⟨i, ps⟩ := k
    intro x hx
    exact (hk _ (List.mem_of_find?_eq_some hf)).2 x hx

theorem allParents_in {known : List (String × List String)} (hk : KnownIn S known) :
    ∀ (fuel : Nat) (direct : List String), (∀ x ∈ direct, S x) →
      ∀ x ∈ allParents known fuel direct, S x := by
  intro fuel
  induction fuel with
  | zero => intro direct hd x hx; exact hd x hx
  | succ n ih =>
    intro direct hd x hx
    simp only [allParents, List.mem_append, List.mem_flatMap] at hx
    rcases hx with hx | ⟨p, hp, hx⟩
    · exact hd x hx
    · exact ih _ (lookupParents_in hk p) x hx

theorem flatMap_congr_mem {α β : Type} {f g : α → List β} : ∀ {l : List α},
    (∀ a ∈ l, f a = g a) → l.flatMap f = l.flatMap g
  | [], _ => rfl
  | a :: l, h => by
    rw [List.flatMap_cons, List.flatMap_cons, h a List.mem_cons_self,
      flatMap_congr_mem (fun b hb => h b (List.mem_cons_of_mem _ hb))]

theorem allParents_ren (h : RenOK ρ S) {known : List (String × List String)}
    (hk : KnownIn S known) : ∀ (fuel : Nat) (direct : List String), (∀ x ∈ direct, S x) →
      allParents (renKnown ρ known) fuel (direct.map ρ) = (allParents known fuel direct).map ρ := by
  intro fuel
  induction fuel with
  | zero => intro direct _; rfl
  | succ n ih =>
    intro direct hd
    simp only [allParents, List.map_append, List.flatMap_map, List.map_flatMap]
    congr 1
    apply flatMap_congr_mem
    intro p hp
    show allParents (renKnown ρ known) n (lookupParents (renKnown ρ known) (ρ p)) = _
    rw [lookupParents_ren h hk (hd p hp), ih _ (lookupParents_in hk p)]

theorem renKnown_length (known : List (String × List String)) :
    (renKnown ρ known).length = known.length := by simp [renKnown]

theorem filter_renDocs (docs : List (String × Val)) (p : String × Val → Bool) :
    (renDocs ρ docs).filter p = renDocs ρ (docs.filter fun d => p (ρ d.1, d.2)) := by
  unfold renDocs
  rw [List.filter_map]
  rfl

theorem renDocs_ids (docs : List (String × Val)) :
    (renDocs ρ docs).map (·.1) = (docs.map (·.1)).map ρ := by
  simp [renDocs]

theorem parentsOf_ren (h : RenOK ρ S) {st : PState} (hs : StIn S st) {direct : List String}
    (hd : ∀ x ∈ direct, S x) :
    parentsOf (renState ρ st) (direct.map ρ) = (parentsOf st direct).map ρ := by
  unfold parentsOf
  simp only [renState, renKnown_length, allParents_ren h hs.2 _ _ hd]
  rw [filter_renDocs, renDocs_ids]
  congr 2
  apply filter_congr_mem
  intro d hd'
  exact contains_map_ren h (allParents_in hs.2 _ _ hd) (hs.1 d hd')

theorem parentsOf_in {st : PState} (hs : StIn S st) (direct : List String) :
    ∀ x ∈ parentsOf st direct, S x := by
  intro x hx
  unfold parentsOf at hx
  obtain ⟨d, hd, rfl⟩ := List.mem_map.1 hx
  exact hs.1 d (List.mem_filter.1 hd).1

theorem findMatches_in {st : PState} (hs : StIn S st) (direct : List String) (pat : Val) :
    ∀ x ∈ findMatches st direct pat, S x := by
  intro x hx
  unfold findMatches at hx
  simp only [] at hx
  split at hx
  · obtain ⟨d, hd, rfl⟩ := List.mem_map.1 hx
    exact hs.1 d (List.mem_filter.1 hd).1
  · obtain ⟨d, hd, rfl⟩ := List.mem_map.1 hx
    exact hs.1 d (List.mem_filter.1 hd).1

theorem findMatches_ren (h : RenOK ρ S) {st : PState} (hs : StIn S st) {direct : List String}
    (hd : ∀ x ∈ direct, S x) (pat : Val) :
    findMatches (renState ρ st) (direct.map ρ) pat = (findMatches st direct pat).map ρ := by
  unfold findMatches
  simp only [parentsOf_ren h hs hd]
  have e1 : ((renState ρ st).docs.filter fun d =>
        ((parentsOf st direct).map ρ).contains d.1 && matchV d.2 pat).map (·.1) =
      ((st.docs.filter fun d => (parentsOf st direct).contains d.1 && matchV d.2 pat).map (·.1)).map ρ := by
    show ((renDocs ρ st.docs).filter _).map _ = _
    rw [filter_renDocs, renDocs_ids]
    congr 2
    apply filter_congr_mem
    intro d hd'
    simp only []
    rw [contains_map_ren h (parentsOf_in hs direct) (hs.1 d hd')]
  have e2 : ((renState ρ st).docs.filter fun d => matchV d.2 pat).map (·.1) =
      ((st.docs.filter fun d => matchV d.2 pat).map (·.1)).map ρ := by
    show ((renDocs ρ st.docs).filter _).map _ = _
    rw [filter_renDocs, renDocs_ids]
  rw [e1, e2]
  simp only [List.isEmpty_map]
  split <;> rfl

theorem mergeStep_ren (h : RenOK ρ S) {targets : List String} (ht : ∀ x ∈ targets, S x)
    (body : Val) (p : String × Val) (hp : S p.1) :
    mergeStep (targets.map ρ) body (ρ p.1, p.2) =
      rmap (fun q => (ρ q.1, q.2)) (mergeStep targets body p) := by
  unfold mergeStep
  simp only [contains_map_ren h ht hp]
  split
  · cases merge p.2 body <;> rfl
  · rfl

theorem mapM_mergeStep_ren (h : RenOK ρ S) {targets : List String} (ht : ∀ x ∈ targets, S x)
    (body : Val) : ∀ (docs : List (String × Val)), DocsIn S docs →
      (renDocs ρ docs).mapM (mergeStep (targets.map ρ) body) =
        rmap (renDocs ρ) (docs.mapM (mergeStep targets body))
  | [], _ => by
    show ([] : List (String × Val)).mapM _ = _
    rw [mapM_R_nil, mapM_R_nil]; rfl
  | p :: docs, hd => by
    show ((ρ p.1, p.2) :: renDocs ρ docs).mapM _ = _
    rw [mapM_R_cons, mapM_R_cons, mergeStep_ren h ht body p (hd p List.mem_cons_self),
      mapM_mergeStep_ren h ht body docs (fun x hx => hd x (List.mem_cons_of_mem _ hx))]
    cases mergeStep targets body p with
    | error e => rfl
    | ok q =>
      cases docs.mapM (mergeStep targets body) with
      | error e => rfl
      | ok qs => rfl

theorem mergeInto_ren (h : RenOK ρ S) {st : PState} (hs : StIn S st) {pid : String}
    (hp : S pid) {targets : List String} (ht : ∀ x ∈ targets, S x) (body : Val) :
    mergeInto (renState ρ st) (ρ pid) (targets.map ρ) body =
      rmap (renState ρ) (mergeInto st pid targets body) := by
  rw [mergeInto_eq, mergeInto_eq]
  show (match (renDocs ρ st.docs).mapM (mergeStep (targets.map ρ) body) with
    | Except.error e => Except.error e
    | Except.ok ds => (Except.ok (PState.mk ds
        (addParents (renKnown ρ st.known) (ρ pid) (targets.map ρ))) : R PState)) = _
  rw [mapM_mergeStep_ren h ht body st.docs hs.1, addParents_ren h hs.2 hp]
  cases st.docs.mapM (mergeStep targets body) with
  | error e => rfl
  | ok docs => rfl

theorem addParents_in {known : List (String × List String)} (hk : KnownIn S known) {id : String}
    (hi : S id) {ps : List String} (hps : ∀ p ∈ ps, S p) : KnownIn S (addParents known id ps) := by
  unfold addParents
  split
  · intro k hk'
    obtain ⟨k0, hk0, rfl⟩ := List.mem_map.1 hk'
    obtain ⟨i, old⟩ := k0
    have := hk _ hk0
    simp only at this ⊢
    split
    · refine ⟨this.1, ?_⟩
      intro p hp
      rcases List.mem_append.1 hp with hp | hp
      · exact this.2 p hp
      · exact hps p hp
    · exact this
  · intro k hk'
    rcases List.mem_append.1 hk' with hk' | hk'
    · exact hk k hk'
    · have : k = (id, ps) := by simpa using hk'
      subst this
      exact ⟨hi, hps⟩

theorem mergeInto_in {st st' : PState} (hs : StIn S st) {pid : String} (hp : S pid)
    {targets : List String} (ht : ∀ x ∈ targets, S x) {body : Val}
    (h : mergeInto st pid targets body = .ok st') : StIn S st' := by
  rw [mergeInto_ok_iff] at h
  refine ⟨?_, ?_⟩
  · intro d hd
    have hids := forall₂_stepRel_ids h.1
    have : d.1 ∈ st'.docs.map (·.1) := List.mem_map.2 ⟨d, hd, rfl⟩
    rw [hids] at this
    obtain ⟨d0, hd0, he⟩ := List.mem_map.1 this
    rw [← he]
    exact hs.1 d0 hd0
  · rw [h.2]
    exact addParents_in hs.2 hp ht

/-! ## `mergeDocument` under a renaming -/

theorem renDocs_append (a b : List (String × Val)) :
    renDocs ρ (a ++ b) = renDocs ρ a ++ renDocs ρ b := by simp [renDocs]

/-- the default rule of `MergeDocument` -/
def mergeDflt (st0 : PState) (id : String) (parents : List String) (body : Val) : R PState :=
  if (parentsOf st0 parents).isEmpty then .ok ⟨st0.docs ++ [(id, body)], st0.known⟩
  else mergeInto st0 id (parentsOf st0 parents) body

/-- `MergeDocument` once the patch's own parents are registered -/
def mergeDocCore (st0 : PState) (id : String) (parents : List String) (data : Val) : R PState :=
  match data with
  | .map kvs =>
    match fget kvs "$match" with
    | some pat =>
      if pat.isNull then
        .ok ⟨st0.docs ++ [(id ++ "|matchnull", Val.map (fdel kvs "$match"))],
          addParents st0.known id [id ++ "|matchnull"]⟩
      else if (findMatches st0 parents pat).isEmpty then .error .noMatchFound
      else mergeInto st0 id (findMatches st0 parents pat) (Val.map (fdel kvs "$match"))
    | none => mergeDflt st0 id parents data
  | _ => mergeDflt st0 id parents data

theorem mergeDocument_eq (st : PState) (patch : Doc) :
    mergeDocument st patch =
      mergeDocCore ⟨st.docs, addParents st.known patch.id patch.parents⟩ patch.id patch.parents
        patch.data := by
  unfold mergeDocument mergeDocCore mergeDflt
  rfl

theorem mergeDflt_ren (h : RenOK ρ S) {st0 : PState} (hs0 : StIn S st0) {id : String} (hi : S id)
    {parents : List String} (hp : ∀ p ∈ parents, S p) (body : Val) :
    mergeDflt (renState ρ st0) (ρ id) (parents.map ρ) body =
        rmap (renState ρ) (mergeDflt st0 id parents body) ∧
      ∀ st', mergeDflt st0 id parents body = .ok st' → StIn S st' := by
  unfold mergeDflt
  rw [parentsOf_ren h hs0 hp, List.isEmpty_map]
  split
  · refine ⟨?_, ?_⟩
    · show _ = Except.ok (renState ρ _)
      simp only [renState, renDocs_append]
      rfl
    · intro st' he
      cases he
      refine ⟨?_, hs0.2⟩
      intro x hx
      rcases List.mem_append.1 hx with hx | hx
      · exact hs0.1 x hx
      · have : x = (id, body) := by simpa using hx
        subst this
        exact hi
  · exact ⟨mergeInto_ren h hs0 hi (parentsOf_in hs0 _) body,
      fun st' he => mergeInto_in hs0 hi (parentsOf_in hs0 _) he⟩

theorem mergeDocCore_ren (h : RenOK ρ S) {st0 : PState} (hs0 : StIn S st0) {id : String} (hi : S id)
    {parents : List String} (hp : ∀ p ∈ parents, S p) (data : Val) :
    mergeDocCore (renState ρ st0) (ρ id) (parents.map ρ) data =
        rmap (renState ρ) (mergeDocCore st0 id parents data) ∧
      ∀ st', mergeDocCore st0 id parents data = .ok st' → StIn S st' := by
  unfold mergeDocCore
  cases data with
  | map kvs =>
    simp only []
    cases hm : fget kvs "$match" with
    | none => exact mergeDflt_ren h hs0 hi hp _
    | some pat =>
      simp only []
      by_cases hn : pat.isNull = true
      · simp only [hn, if_true]
        refine ⟨?_, ?_⟩
        · show _ = Except.ok (renState ρ _)
          congr 1
          show PState.mk _ _ = PState.mk _ _
          congr 1
          · show renDocs ρ st0.docs ++ [(ρ id ++ "|matchnull", _)] = renDocs ρ (st0.docs ++ [_])
            rw [renDocs_append, ← h.comm id hi]
            rfl
          · show addParents (renKnown ρ st0.known) (ρ id) [ρ id ++ "|matchnull"] = _
            rw [← h.comm id hi]
            exact addParents_ren (ps := [id ++ "|matchnull"]) h hs0.2 hi
        · intro st' he
          cases he
          refine ⟨?_, addParents_in hs0.2 hi ?_⟩
          · intro x hx
            rcases List.mem_append.1 hx with hx | hx
            · exact hs0.1 x hx
            · have : x = (id ++ "|matchnull", Val.map (fdel kvs "$match")) := by simpa using hx
              subst this
              exact h.closed _ hi
          · intro p hp'
            have : p = id ++ "|matchnull" := by simpa using hp'
            subst this
            exact h.closed _ hi
      · simp only [hn, Bool.false_eq_true, if_false]
        rw [findMatches_ren h hs0 hp, List.isEmpty_map]
        split
        · exact ⟨rfl, fun st' he => by cases he⟩
        · exact ⟨mergeInto_ren h hs0 hi (findMatches_in hs0 _ _) _,
            fun st' he => mergeInto_in hs0 hi (findMatches_in hs0 _ _) he⟩
  | null => exact mergeDflt_ren h hs0 hi hp _
  | bool b => exact mergeDflt_ren h hs0 hi hp _
  | int i => exact mergeDflt_ren h hs0 hi hp _
  | flt f => exact mergeDflt_ren h hs0 hi hp _
  | str s => exact mergeDflt_ren h hs0 hi hp _
  | list l => exact mergeDflt_ren h hs0 hi hp _

theorem mergeDocument_ren (h : RenOK ρ S) {st : PState} (hs : StIn S st) {d : Doc}
    (hd : DocIn S d) :
    mergeDocument (renState ρ st) (renDoc ρ d) = rmap (renState ρ) (mergeDocument st d) ∧
      ∀ st', mergeDocument st d = .ok st' → StIn S st' := by
  have hs0 : StIn S ⟨st.docs, addParents st.known d.id d.parents⟩ :=
    ⟨hs.1, addParents_in hs.2 hd.1 hd.2⟩
  have e0 : PState.mk (renState ρ st).docs
      (addParents (renState ρ st).known (renDoc ρ d).id (renDoc ρ d).parents) =
      renState ρ ⟨st.docs, addParents st.known d.id d.parents⟩ := by
    show PState.mk (renDocs ρ st.docs) (addParents (renKnown ρ st.known) (ρ d.id) (d.parents.map ρ)) = _
    rw [addParents_ren h hs.2 hd.1]
    rfl
  rw [mergeDocument_eq, mergeDocument_eq, e0]
  exact mergeDocCore_ren h hs0 hd.1 hd.2 d.data

theorem runMerges_ren (h : RenOK ρ S) : ∀ (ps : List Doc) (st : PState), StIn S st →
    (∀ d ∈ ps, DocIn S d) →
      runMerges (renState ρ st) (ps.map (renDoc ρ)) = rmap (renState ρ) (runMerges st ps)
  | [], st, _, _ => rfl
  | p :: ps, st, hs, hp => by
    rw [List.map_cons, runMerges_cons, runMerges_cons,
      (mergeDocument_ren h hs (hp p List.mem_cons_self)).1]
    cases hm : mergeDocument st p with
    | error e => rfl
    | ok st' =>
      exact runMerges_ren h ps st'
        ((mergeDocument_ren h hs (hp p List.mem_cons_self)).2 st' hm)
        (fun d hd => hp d (List.mem_cons_of_mem _ hd))

theorem renState_data (st : PState) : (renState ρ st).docs.map (·.2) = st.docs.map (·.2) := by
  simp [renState, renDocs]

theorem renState_empty : renState ρ PState.empty = PState.empty := rfl

theorem stIn_empty : StIn S PState.empty :=
  And.intro (fun d h => by cases h) (fun k h => by cases h)


/-! ## `mergeFiles` is a run of `mergeDocument` over all documents, file by file -/

theorem foldlM_runMerges : ∀ (files : List LFile) (st : PState),
    files.foldlM (fun st f => f.docs.foldlM mergeDocument st) st =
      runMerges st (files.flatMap (·.docs))
  | [], st => rfl
  | f :: files, st => by
    rw [List.foldlM_cons, List.flatMap_cons]
    unfold runMerges
    rw [List.foldlM_append]
    cases hm : f.docs.foldlM mergeDocument st with
    | error e => rfl
    | ok st' =>
      simp only [bind, Except.bind]
      exact foldlM_runMerges files st'

theorem mergeFiles_eq (st : PState) (files : List LFile) :
    mergeFiles st files = runMerges st (files.flatMap (·.docs)) :=
  foldlM_runMerges files st

variable {ρ : String → String} {S : String → Prop}

/-- renaming the document ids of a list of loaded files renames the resulting parser state -/
theorem mergeFiles_ren (h : RenOK ρ S) (files₁ files₂ : List LFile)
    (hin : ∀ f ∈ files₁, ∀ d ∈ f.docs, DocIn S d)
    (hshape : files₂.map (·.docs) = files₁.map fun f => f.docs.map (renDoc ρ)) :
    mergeFiles PState.empty files₂ = rmap (renState ρ) (mergeFiles PState.empty files₁) := by
  rw [mergeFiles_eq, mergeFiles_eq]
  have e : files₂.flatMap (·.docs) = (files₁.flatMap (·.docs)).map (renDoc ρ) := by
    rw [List.flatMap_def, hshape, List.flatMap_def, List.map_flatten, List.map_map]
    rfl
  rw [e, ← renState_empty (ρ := ρ)]
  apply runMerges_ren h _ _ stIn_empty
  intro d hd
  obtain ⟨f, hf, hd'⟩ := List.mem_flatMap.1 hd
  exact hin f hf d hd'

/-! ## prefixing every id -/

theorem string_append_left_cancel {p a b : String} (h : p ++ a = p ++ b) : a = b := by
  have := congrArg String.toList h
  rw [String.toList_append, String.toList_append] at this
  exact String.toList_inj.1 (List.append_cancel_left this)

theorem renOK_prefix (pre : String) : RenOK (fun s => pre ++ s) (fun _ => True) where
  inj := fun a b _ _ h => string_append_left_cancel h
  closed := fun _ _ => trivial
  comm := fun s _ => (String.append_assoc (s₁ := pre) (s₂ := s) (s₃ := "|matchnull")).symm

/-! ## injectivity alone is not enough: the parser's own `|matchnull` ids may collide -/

/-- swap the ids `a|matchnull` and `p` (a bijection on strings) -/
def swapId (s : String) : String :=
  if s = "a|matchnull" then "p" else if s = "p" then "a|matchnull" else s

theorem swapId_injective : ∀ a b, swapId a = swapId b → a = b := by
  intro a b h
  unfold swapId at h
  by_cases h1 : a = "a|matchnull" <;> by_cases h2 : b = "a|matchnull" <;>
    by_cases h3 : a = "p" <;> by_cases h4 : b = "p" <;> simp_all

def cexDocs : List Doc := [
  ⟨"a|matchnull", [], .int 1⟩,
  ⟨"a", [], .map [("$match", .null)]⟩,
  ⟨"c", ["a|matchnull"], .int 5⟩]

def cexA : List LFile := [⟨"f", [], cexDocs⟩]
def cexB : List LFile := [⟨"f", [], cexDocs.map (renDoc swapId)⟩]

theorem merge_emptyMap_int (n : Int) : merge (.map []) (.int n) = .ok (.int n) := by
  rw [merge]
  · rfl
  · intro s h; cases h
  · intro h; cases h

theorem cexA_run : ∃ st, mergeFiles PState.empty cexA = .ok st ∧
    st.docs.map (·.2) = [.int 5, .int 5] := by
  rw [mergeFiles_eq]
  show ∃ st, runMerges PState.empty cexDocs = .ok st ∧ _
  unfold cexDocs
  have h1 : mergeDocument PState.empty ⟨"a|matchnull", [], .int 1⟩ =
      .ok ⟨[("a|matchnull", .int 1)], [("a|matchnull", [])]⟩ := by rfl
  have h2 : mergeDocument ⟨[("a|matchnull", .int 1)], [("a|matchnull", [])]⟩
      ⟨"a", [], .map [("$match", .null)]⟩ =
      .ok ⟨[("a|matchnull", .int 1), ("a|matchnull", .map [])],
        [("a|matchnull", []), ("a", ["a|matchnull"])]⟩ := by rfl
  have h3 : mergeDocument ⟨[("a|matchnull", .int 1), ("a|matchnull", .map [])],
        [("a|matchnull", []), ("a", ["a|matchnull"])]⟩ ⟨"c", ["a|matchnull"], .int 5⟩ =
      .ok ⟨[("a|matchnull", .int 5), ("a|matchnull", .int 5)],
        [("a|matchnull", []), ("a", ["a|matchnull"]),
          ("c", ["a|matchnull", "a|matchnull", "a|matchnull"])]⟩ := by
    rw [mergeDocument_eq]
    unfold mergeDocCore mergeDflt
    simp only []
    have ht : parentsOf ⟨[("a|matchnull", .int 1), ("a|matchnull", .map [])],
        addParents [("a|matchnull", []), ("a", ["a|matchnull"])] "c" ["a|matchnull"]⟩
        ["a|matchnull"] = ["a|matchnull", "a|matchnull"] := by decide
    rw [ht, if_neg (by decide), mergeInto_ok_iff]
    refine ⟨Forall2.cons ⟨rfl, ?_⟩ (Forall2.cons ⟨rfl, ?_⟩ Forall2.nil), by decide⟩
    · rw [if_pos (by decide)]
      show Bkl.merge (.int 1) (.int 5) = .ok (.int 5)
      rw [merge_scalar _ _ rfl]; rfl
    · rw [if_pos (by decide)]
      exact merge_emptyMap_int 5
  refine ⟨⟨[("a|matchnull", .int 5), ("a|matchnull", .int 5)],
        [("a|matchnull", []), ("a", ["a|matchnull"]),
          ("c", ["a|matchnull", "a|matchnull", "a|matchnull"])]⟩, ?_, rfl⟩
  rw [runMerges_cons, h1]
  simp only []
  rw [runMerges_cons, h2]
  simp only []
  rw [runMerges_cons, h3]
  rfl

theorem cexB_run : ∃ st, mergeFiles PState.empty cexB = .ok st ∧
    st.docs.map (·.2) = [.int 5, .map []] := by
  rw [mergeFiles_eq]
  show ∃ st, runMerges PState.empty (cexDocs.map (renDoc swapId)) = .ok st ∧ _
  have hd : cexDocs.map (renDoc swapId) = [
      ⟨"p", [], .int 1⟩, ⟨"a", [], .map [("$match", .null)]⟩, ⟨"c", ["p"], .int 5⟩] := by rfl
  rw [hd]
  have h1 : mergeDocument PState.empty ⟨"p", [], .int 1⟩ =
      .ok ⟨[("p", .int 1)], [("p", [])]⟩ := by rfl
  have h2 : mergeDocument ⟨[("p", .int 1)], [("p", [])]⟩ ⟨"a", [], .map [("$match", .null)]⟩ =
      .ok ⟨[("p", .int 1), ("a|matchnull", .map [])], [("p", []), ("a", ["a|matchnull"])]⟩ := by rfl
  have h3 : mergeDocument ⟨[("p", .int 1), ("a|matchnull", .map [])],
        [("p", []), ("a", ["a|matchnull"])]⟩ ⟨"c", ["p"], .int 5⟩ =
      .ok ⟨[("p", .int 5), ("a|matchnull", .map [])],
        [("p", []), ("a", ["a|matchnull"]), ("c", ["p", "p"])]⟩ := by
    rw [mergeDocument_eq]
    unfold mergeDocCore mergeDflt
    simp only []
    have ht : parentsOf ⟨[("p", .int 1), ("a|matchnull", .map [])],
        addParents [("p", []), ("a", ["a|matchnull"])] "c" ["p"]⟩ ["p"] = ["p"] := by decide
    rw [ht, if_neg (by decide), mergeInto_ok_iff]
    refine ⟨Forall2.cons ⟨rfl, ?_⟩ (Forall2.cons ⟨rfl, ?_⟩ Forall2.nil), by decide⟩
    · rw [if_pos (by decide)]
      show Bkl.merge (.int 1) (.int 5) = .ok (.int 5)
      rw [merge_scalar _ _ rfl]; rfl
    · rw [if_neg (by decide)]
  refine ⟨⟨[("p", .int 5), ("a|matchnull", .map [])],
        [("p", []), ("a", ["a|matchnull"]), ("c", ["p", "p"])]⟩, ?_, rfl⟩
  rw [runMerges_cons, h1]
  simp only []
  rw [runMerges_cons, h2]
  simp only []
  rw [runMerges_cons, h3]
  rfl

end Bkl
