/-
  BklProofs.Lemmas.Fields — algebra of key-sorted association lists (`Fields`):
  `fget` / `fset` / `fdel` / `fhas`, sortedness, extensionality, commutation, well-formedness.
-/
import Bkl.Fields
namespace Bkl

/-! ## String order helpers -/

theorem str_lt_of_not_lt_of_ne {a b : String} (h : ¬ a < b) (h2 : a ≠ b) : b < a := by
  rcases Std.lt_trichotomy a b with h' | h' | h'
  · exact absurd h' h
  · exact absurd h' h2
  · exact h'

theorem str_ne_of_lt {a b : String} (h : a < b) : a ≠ b := by
  intro e; subst e; exact String.lt_irrefl a h

theorem str_ne_of_gt {a b : String} (h : a < b) : b ≠ a := by
  intro e; subst e; exact String.lt_irrefl b h

/-! ## Sortedness: characterisations -/

theorem sorted_cons_iff {k : String} {v : Val} {rest : Fields} :
    Fields.SortedKeys ((k, v) :: rest) ↔ (∀ p ∈ rest, k < p.1) ∧ Fields.SortedKeys rest := by
  induction rest generalizing k v with
  | nil => simp [Fields.SortedKeys]
  | cons hd tl ih =>
    obtain ⟨k2, v2⟩ := hd
    simp only [Fields.SortedKeys, List.mem_cons, forall_eq_or_imp]
    constructor
    · rintro ⟨h1, h2⟩
      refine ⟨⟨h1, ?_⟩, h2⟩
      intro p hp
      exact String.lt_trans h1 ((ih.1 h2).1 p hp)
    · rintro ⟨⟨h1, _⟩, h2⟩
      exact ⟨h1, h2⟩

theorem sorted_tail {p : String × Val} {rest : Fields}
    (h : Fields.SortedKeys (p :: rest)) : Fields.SortedKeys rest := by
  obtain ⟨k, v⟩ := p
  exact (sorted_cons_iff.1 h).2

theorem sorted_head_lt {k : String} {v : Val} {rest : Fields}
    (h : Fields.SortedKeys ((k, v) :: rest)) : ∀ p ∈ rest, k < p.1 :=
  (sorted_cons_iff.1 h).1

theorem sorted_iff_pairwise {m : Fields} :
    Fields.SortedKeys m ↔ m.Pairwise (fun a b => a.1 < b.1) := by
  induction m with
  | nil => simp [Fields.SortedKeys]
  | cons hd tl ih =>
    obtain ⟨k, v⟩ := hd
    rw [sorted_cons_iff, List.pairwise_cons, ih]

theorem sortedKeysB_iff {m : Fields} : Fields.sortedKeysB m = true ↔ Fields.SortedKeys m := by
  induction m with
  | nil => simp [Fields.sortedKeysB, Fields.SortedKeys]
  | cons hd tl ih =>
    obtain ⟨k, v⟩ := hd
    cases tl with
    | nil => simp [Fields.sortedKeysB, Fields.SortedKeys]
    | cons hd2 tl2 =>
      obtain ⟨k2, v2⟩ := hd2
      simp only [Fields.sortedKeysB, Fields.SortedKeys, Bool.and_eq_true, decide_eq_true_eq, ih]

instance (m : Fields) : Decidable (Fields.SortedKeys m) :=
  decidable_of_iff _ sortedKeysB_iff

/-! ## `fget`: membership -/

theorem fget_mem {m : Fields} {k : String} {v : Val} (h : fget m k = some v) : (k, v) ∈ m := by
  induction m with
  | nil => simp [fget] at h
  | cons hd tl ih =>
    obtain ⟨k', v'⟩ := hd
    simp only [fget] at h
    split at h
    · cases h; subst_vars; simp
    · exact List.mem_cons_of_mem _ (ih h)

theorem fget_none_iff {m : Fields} {k : String} : fget m k = none ↔ ∀ p ∈ m, p.1 ≠ k := by
  induction m with
  | nil => simp [fget]
  | cons hd tl ih =>
    obtain ⟨k', v'⟩ := hd
    simp only [fget, List.mem_cons, forall_eq_or_imp]
    split
    · simp_all
    · simp_all

/-- A key smaller than every key of the list is absent. -/
theorem fget_none_of_lt_all {m : Fields} {k : String} (h : ∀ p ∈ m, k < p.1) :
    fget m k = none :=
  fget_none_iff.2 (fun p hp => str_ne_of_gt (h p hp))

/-- A key smaller than the head key of a sorted list is absent. -/
theorem fget_none_of_lt_head {k k' : String} {v' : Val} {rest : Fields}
    (hs : Fields.SortedKeys ((k', v') :: rest)) (h : k < k') :
    fget ((k', v') :: rest) k = none := by
  apply fget_none_of_lt_all
  intro p hp
  rcases List.mem_cons.1 hp with rfl | hp
  · exact h
  · exact String.lt_trans h (sorted_head_lt hs p hp)

/-- In a sorted list, the head key does not occur in the tail. -/
theorem fget_tail_head_none {k : String} {v : Val} {rest : Fields}
    (hs : Fields.SortedKeys ((k, v) :: rest)) : fget rest k = none :=
  fget_none_of_lt_all (sorted_head_lt hs)

theorem fget_of_mem_sorted {m : Fields} {k : String} {v : Val}
    (hs : Fields.SortedKeys m) (h : (k, v) ∈ m) : fget m k = some v := by
  induction m with
  | nil => simp at h
  | cons hd tl ih =>
    obtain ⟨k', v'⟩ := hd
    rcases List.mem_cons.1 h with h | h
    · cases h; simp [fget]
    · have hlt := sorted_head_lt hs _ h
      simp only [fget]
      rw [if_neg (str_ne_of_lt hlt)]
      exact ih (sorted_tail hs) h

/-! ## `fhas` -/

theorem fhas_iff_ne_none {m : Fields} {k : String} : fhas m k = true ↔ fget m k ≠ none := by
  simp [fhas, Option.isSome_iff_ne_none]

theorem fhas_eq_false_iff {m : Fields} {k : String} : fhas m k = false ↔ fget m k = none := by
  simp [fhas]

theorem fhas_iff_exists {m : Fields} {k : String} : fhas m k = true ↔ ∃ v, fget m k = some v := by
  simp [fhas, Option.isSome_iff_exists]

/-! ## `fget` after `fset` / `fdel` -/

theorem fget_fset_same (m : Fields) (k : String) (v : Val) : fget (fset m k v) k = some v := by
  induction m with
  | nil => simp [fset, fget]
  | cons hd tl ih =>
    obtain ⟨k', v'⟩ := hd
    simp only [fset]
    split
    · simp [fget]
    · split
      · simp [fget]
      · rename_i h1 h2
        simp only [fget]
        rw [if_neg (Ne.symm h2)]
        exact ih

theorem fget_fset_ne (m : Fields) (k k' : String) (v : Val) (h : k' ≠ k) :
    fget (fset m k v) k' = fget m k' := by
  induction m with
  | nil => simp [fset, fget, Ne.symm h]
  | cons hd tl ih =>
    obtain ⟨k2, v2⟩ := hd
    simp only [fset]
    split
    · simp [fget, Ne.symm h]
    · split
      · rename_i h1 h2
        subst h2
        simp [fget, Ne.symm h]
      · simp only [fget]
        split
        · rfl
        · exact ih

theorem fget_fset (m : Fields) (k k' : String) (v : Val) :
    fget (fset m k v) k' = if k' = k then some v else fget m k' := by
  split
  · rename_i h; rw [h]; exact fget_fset_same m k v
  · rename_i h; exact fget_fset_ne m k k' v h

theorem fget_fdel_same (m : Fields) (k : String) : fget (fdel m k) k = none := by
  induction m with
  | nil => simp [fdel, fget]
  | cons hd tl ih =>
    obtain ⟨k', v'⟩ := hd
    simp only [fdel]
    split
    · exact ih
    · rename_i h
      simp only [fget]
      rw [if_neg h]; exact ih

theorem fget_fdel_ne (m : Fields) (k k' : String) (h : k' ≠ k) :
    fget (fdel m k) k' = fget m k' := by
  induction m with
  | nil => simp [fdel, fget]
  | cons hd tl ih =>
    obtain ⟨k2, v2⟩ := hd
    simp only [fdel]
    split
    · rename_i h2
      subst h2
      simp only [fget]
      rw [if_neg (Ne.symm h)]; exact ih
    · simp only [fget]
      split
      · rfl
      · exact ih

theorem fget_fdel (m : Fields) (k k' : String) :
    fget (fdel m k) k' = if k' = k then none else fget m k' := by
  split
  · rename_i h; rw [h]; exact fget_fdel_same m k
  · rename_i h; exact fget_fdel_ne m k k' h

/-! ## membership after `fset` / `fdel` -/

theorem mem_fset {m : Fields} {k : String} {v : Val} {p : String × Val}
    (h : p ∈ fset m k v) : p = (k, v) ∨ p ∈ m := by
  induction m with
  | nil => simp [fset] at h; exact Or.inl h
  | cons hd tl ih =>
    obtain ⟨k', v'⟩ := hd
    simp only [fset] at h
    split at h
    · rcases List.mem_cons.1 h with h | h
      · exact Or.inl h
      · exact Or.inr h
    · split at h
      · rcases List.mem_cons.1 h with h | h
        · exact Or.inl h
        · exact Or.inr (List.mem_cons_of_mem _ h)
      · rcases List.mem_cons.1 h with h | h
        · exact Or.inr (h ▸ List.mem_cons_self)
        · rcases ih h with h | h
          · exact Or.inl h
          · exact Or.inr (List.mem_cons_of_mem _ h)

theorem mem_fdel {m : Fields} {k : String} {p : String × Val}
    (h : p ∈ fdel m k) : p ∈ m := by
  induction m with
  | nil => simp [fdel] at h
  | cons hd tl ih =>
    obtain ⟨k', v'⟩ := hd
    simp only [fdel] at h
    split at h
    · exact List.mem_cons_of_mem _ (ih h)
    · rcases List.mem_cons.1 h with h | h
      · exact h ▸ List.mem_cons_self
      · exact List.mem_cons_of_mem _ (ih h)

/-! ## sortedness is preserved -/

theorem sorted_fset {m : Fields} {k : String} {v : Val} (hs : Fields.SortedKeys m) :
    Fields.SortedKeys (fset m k v) := by
  induction m with
  | nil => simp [fset, Fields.SortedKeys]
  | cons hd tl ih =>
    obtain ⟨k', v'⟩ := hd
    simp only [fset]
    split
    · rename_i h
      rw [sorted_cons_iff]
      exact ⟨fun p hp => by
        rcases List.mem_cons.1 hp with rfl | hp
        · exact h
        · exact String.lt_trans h (sorted_head_lt hs p hp), hs⟩
    · split
      · rename_i h1 h2
        subst h2
        rw [sorted_cons_iff]
        exact ⟨sorted_head_lt hs, sorted_tail hs⟩
      · rename_i h1 h2
        have hlt : k' < k := str_lt_of_not_lt_of_ne h1 h2
        rw [sorted_cons_iff]
        refine ⟨fun p hp => ?_, ih (sorted_tail hs)⟩
        rcases mem_fset hp with rfl | hp
        · exact hlt
        · exact sorted_head_lt hs p hp

theorem sorted_fdel {m : Fields} {k : String} (hs : Fields.SortedKeys m) :
    Fields.SortedKeys (fdel m k) := by
  induction m with
  | nil => simp [fdel, Fields.SortedKeys]
  | cons hd tl ih =>
    obtain ⟨k', v'⟩ := hd
    simp only [fdel]
    split
    · exact ih (sorted_tail hs)
    · rw [sorted_cons_iff]
      exact ⟨fun p hp => sorted_head_lt hs p (mem_fdel hp), ih (sorted_tail hs)⟩

/-! ## extensionality -/

theorem sorted_ext {a b : Fields} (ha : Fields.SortedKeys a) (hb : Fields.SortedKeys b)
    (h : ∀ k, fget a k = fget b k) : a = b := by
  induction a generalizing b with
  | nil =>
    cases b with
    | nil => rfl
    | cons hd tl =>
      obtain ⟨k, v⟩ := hd
      have := h k
      simp [fget] at this
  | cons hd tl ih =>
    obtain ⟨k, v⟩ := hd
    cases b with
    | nil =>
      have := h k
      simp [fget] at this
    | cons hd' tl' =>
      obtain ⟨k', v'⟩ := hd'
      have hk : k = k' := by
        rcases Std.lt_trichotomy k k' with hlt | heq | hgt
        · have h1 := h k
          rw [fget_none_of_lt_head hb hlt] at h1
          simp [fget] at h1
        · exact heq
        · have h1 := h k'
          rw [fget_none_of_lt_head ha hgt] at h1
          simp [fget] at h1
      subst hk
      have hv : v = v' := by
        have h1 := h k
        simpa [fget] using h1
      subst hv
      have htl : tl = tl' := by
        apply ih (sorted_tail ha) (sorted_tail hb)
        intro x
        by_cases hx : x = k
        · subst hx
          rw [fget_tail_head_none ha, fget_tail_head_none hb]
        · have h1 := h x
          simp only [fget] at h1
          rw [if_neg (Ne.symm hx), if_neg (Ne.symm hx)] at h1
          exact h1
      rw [htl]

/-! ## commutation and idempotence -/

theorem fset_fset_comm {m : Fields} (hs : Fields.SortedKeys m) {k1 k2 : String} (v1 v2 : Val)
    (hne : k1 ≠ k2) : fset (fset m k1 v1) k2 v2 = fset (fset m k2 v2) k1 v1 := by
  apply sorted_ext (sorted_fset (sorted_fset hs)) (sorted_fset (sorted_fset hs))
  intro x
  simp only [fget_fset]
  by_cases h2 : x = k2
  · subst h2; simp [Ne.symm hne]
  · simp [h2]

theorem fset_fset_same (m : Fields) (k : String) (v1 v2 : Val) :
    fset (fset m k v1) k v2 = fset m k v2 := by
  induction m with
  | nil => simp [fset, String.lt_irrefl]
  | cons hd tl ih =>
    obtain ⟨k', v'⟩ := hd
    simp only [fset]
    split
    · simp [fset, String.lt_irrefl]
    · split
      · simp [fset, String.lt_irrefl]
      · rename_i h1 h2
        simp only [fset]
        rw [if_neg h1, if_neg h2, ih]

theorem fset_fdel_comm {m : Fields} (hs : Fields.SortedKeys m) {k1 k2 : String} (v : Val)
    (hne : k1 ≠ k2) : fset (fdel m k2) k1 v = fdel (fset m k1 v) k2 := by
  apply sorted_ext (sorted_fset (sorted_fdel hs)) (sorted_fdel (sorted_fset hs))
  intro x
  simp only [fget_fset, fget_fdel]
  by_cases h1 : x = k1
  · subst h1; simp [hne]
  · simp [h1]

theorem fdel_fdel_comm (m : Fields) (k1 k2 : String) :
    fdel (fdel m k1) k2 = fdel (fdel m k2) k1 := by
  induction m with
  | nil => simp [fdel]
  | cons hd tl ih =>
    obtain ⟨k', v'⟩ := hd
    by_cases h1 : k' = k1 <;> by_cases h2 : k' = k2
    · simp only [fdel, if_pos h1, if_pos h2, ih]
    · simp only [fdel, if_pos h1, if_neg h2, ih]
    · simp only [fdel, if_neg h1, if_pos h2, ih]
    · simp only [fdel, if_neg h1, if_neg h2, ih]

theorem fdel_of_not_mem {m : Fields} {k : String} (h : fget m k = none) : fdel m k = m := by
  induction m with
  | nil => simp [fdel]
  | cons hd tl ih =>
    obtain ⟨k', v'⟩ := hd
    simp only [fget] at h
    split at h
    · cases h
    · rename_i hne
      simp only [fdel]
      rw [if_neg hne, ih h]

theorem fdel_fdel_same (m : Fields) (k : String) : fdel (fdel m k) k = fdel m k :=
  fdel_of_not_mem (fget_fdel_same m k)

theorem fset_of_get {m : Fields} {k : String} {v : Val} (hs : Fields.SortedKeys m)
    (h : fget m k = some v) : fset m k v = m := by
  apply sorted_ext (sorted_fset hs) hs
  intro x
  rw [fget_fset]
  split
  · rename_i hx; rw [hx]; exact h.symm
  · rfl

theorem fdel_fset_same {m : Fields} (hs : Fields.SortedKeys m) (k : String) (v : Val) :
    fdel (fset m k v) k = fdel m k := by
  apply sorted_ext (sorted_fdel (sorted_fset hs)) (sorted_fdel hs)
  intro x
  simp only [fget_fdel, fget_fset]
  split <;> rfl

theorem fset_fdel_same {m : Fields} (hs : Fields.SortedKeys m) (k : String) (v : Val) :
    fset (fdel m k) k v = fset m k v := by
  apply sorted_ext (sorted_fset (sorted_fdel hs)) (sorted_fset hs)
  intro x
  simp only [fget_fdel, fget_fset]
  split <;> rfl

/-! ## `fhasBool` -/

theorem fhasBool_iff {m : Fields} {k : String} {b : Bool} :
    fhasBool m k b = true ↔ fget m k = some (.bool b) := by
  unfold fhasBool
  split
  · rename_i b' h; simp [h]
  · rename_i h
    constructor
    · intro h'; cases h'
    · intro h'; exact absurd h' (h b)

/-! ## Well-formedness -/

theorem wfListB_iff {l : List Val} : Val.wfListB l = true ↔ ∀ x ∈ l, Val.WF x := by
  induction l with
  | nil => simp [Val.wfListB]
  | cons hd tl ih => simp [Val.wfListB, ih, Val.WF]

theorem wfFieldsB_iff {m : Fields} : Val.wfFieldsB m = true ↔ ∀ p ∈ m, Val.WF p.2 := by
  induction m with
  | nil => simp [Val.wfFieldsB]
  | cons hd tl ih =>
    obtain ⟨k, v⟩ := hd
    simp only [Val.wfFieldsB, Bool.and_eq_true, ih, List.mem_cons, forall_eq_or_imp, Val.WF]

theorem wf_map_iff {m : Fields} :
    Val.WF (.map m) ↔ Fields.SortedKeys m ∧ ∀ p ∈ m, Val.WF p.2 := by
  simp only [Val.WF, Val.wfB, Bool.and_eq_true, sortedKeysB_iff, wfFieldsB_iff]

theorem wf_list_iff {l : List Val} : Val.WF (.list l) ↔ ∀ x ∈ l, Val.WF x := by
  simp only [Val.WF, Val.wfB, wfListB_iff]

theorem wf_map_iff_fget {m : Fields} :
    Val.WF (.map m) ↔ Fields.SortedKeys m ∧ ∀ k v, fget m k = some v → Val.WF v := by
  rw [wf_map_iff]
  constructor
  · rintro ⟨hs, hv⟩
    exact ⟨hs, fun k v h => hv _ (fget_mem h)⟩
  · rintro ⟨hs, hv⟩
    exact ⟨hs, fun p hp => hv p.1 p.2 (fget_of_mem_sorted hs hp)⟩

theorem wf_of_fget {m : Fields} {k : String} {v : Val} (hm : Val.WF (.map m))
    (h : fget m k = some v) : Val.WF v :=
  (wf_map_iff.1 hm).2 _ (fget_mem h)

instance (v : Val) : Decidable (Val.WF v) := by unfold Val.WF; infer_instance

theorem wf_null : Val.WF .null := rfl
theorem wf_bool (b : Bool) : Val.WF (.bool b) := rfl
theorem wf_int (i : Int) : Val.WF (.int i) := rfl
theorem wf_flt (r : String) : Val.WF (.flt r) := rfl
theorem wf_str (s : String) : Val.WF (.str s) := rfl

theorem wf_fset {m : Fields} {k : String} {v : Val} (hm : Val.WF (.map m)) (hv : Val.WF v) :
    Val.WF (.map (fset m k v)) := by
  rw [wf_map_iff] at *
  refine ⟨sorted_fset hm.1, fun p hp => ?_⟩
  rcases mem_fset hp with rfl | hp
  · exact hv
  · exact hm.2 p hp

theorem wf_fdel {m : Fields} {k : String} (hm : Val.WF (.map m)) :
    Val.WF (.map (fdel m k)) := by
  rw [wf_map_iff] at *
  exact ⟨sorted_fdel hm.1, fun p hp => hm.2 p (mem_fdel hp)⟩

theorem wf_list_append {a b : List Val} :
    Val.WF (.list (a ++ b)) ↔ Val.WF (.list a) ∧ Val.WF (.list b) := by
  simp only [wf_list_iff, List.mem_append]
  constructor
  · intro h; exact ⟨fun x hx => h x (Or.inl hx), fun x hx => h x (Or.inr hx)⟩
  · rintro ⟨h1, h2⟩ x (hx | hx)
    · exact h1 x hx
    · exact h2 x hx

theorem wf_list_filter {a : List Val} (p : Val → Bool) (h : Val.WF (.list a)) :
    Val.WF (.list (a.filter p)) := by
  rw [wf_list_iff] at *
  intro x hx
  exact h x (List.mem_filter.1 hx).1

end Bkl
