/-
  Lemmas for C06 (part 1: strings).  `$`-doubling, the `$$` unescape of finalize, the
  evaluator's string recognisers, and monotonicity of doubling for the string order.
  All local helper names are prefixed `e_`.
-/
import Bkl
namespace Bkl

/-! ## doubling and unescaping -/

/-- every `$` becomes `$$` -/
def doubleChars : List Char → List Char
  | [] => []
  | c :: cs => if c = '$' then '$' :: '$' :: doubleChars cs else c :: doubleChars cs

def doubleStr (s : String) : String := String.ofList (doubleChars s.toList)

@[simp] theorem e_toList_doubleStr (s : String) : (doubleStr s).toList = doubleChars s.toList := by
  simp [doubleStr]

theorem e_unescape_double (cs : List Char) : unescapeChars (doubleChars cs) = cs := by
  induction cs with
  | nil => simp [doubleChars, unescapeChars]
  | cons c cs ih =>
    by_cases h : c = '$'
    · subst h; simp [doubleChars, unescapeChars, ih]
    · simp only [doubleChars, h, if_false]
      rw [unescapeChars.eq_2]
      · rw [ih]
      · intro r hc; exact absurd hc h

theorem e_finalize_doubleStr (s : String) : finalizeString (doubleStr s) = s := by
  simp [finalizeString, doubleStr, e_unescape_double]

/-- the string contains `$$` (at a position where the left-to-right scan sees it) -/
def hasDD : List Char → Bool
  | '$' :: '$' :: _ => true
  | _ :: rest => hasDD rest
  | [] => false

theorem e_unescape_noDD (cs : List Char) (h : hasDD cs = false) : unescapeChars cs = cs := by
  fun_induction hasDD cs with
  | case1 => simp at h
  | case2 c rest hne ih => rw [unescapeChars.eq_2 _ _ hne, ih h]
  | case3 => rfl

theorem e_finalize_noDD (s : String) (h : hasDD s.toList = false) : finalizeString s = s := by
  simp [finalizeString, e_unescape_noDD _ h]

/-! ## the evaluator's string recognisers -/

def directiveNames : List String :=
  ["$merge", "$replace", "$repeat", "$encode", "$decode", "$value", "$output", "$match",
   "$required", "$delete"]

/-- `interpBody` on characters -/
def e_interpChars (cs : List Char) : Option (List Char) :=
  match cs with
  | '$' :: '"' :: rest =>
    match rest.reverse with
    | '"' :: bodyRev => some bodyRev.reverse
    | [] => some []
    | _ => none
  | _ => none

theorem e_interpBody_eq (s : String) : interpBody s = e_interpChars s.toList := rfl

/-- recognised by some phase of the evaluator (not counting the `$$` escape): a directive name,
    a `$merge:` / `$replace:` / `$env:` prefix, an interpolation `$"…"`, or rejected by validate -/
def recogChars (cs : List Char) : Bool :=
  directiveNames.any (fun d => d.toList == cs)
  || "$merge:".toList.isPrefixOf cs
  || "$replace:".toList.isPrefixOf cs
  || "$env:".toList.isPrefixOf cs
  || (e_interpChars cs).isSome
  || !(validateChars cs).toBool

def recognisedCore (s : String) : Bool := recogChars s.toList

/-- recognised, or containing `$$` (which finalize rewrites) -/
def recognised (s : String) : Bool := recognisedCore s || hasDD s.toList

theorem e_ne_of_toList_beq {d s : String} (h : (d.toList == s.toList) = false) : s ≠ d := by
  intro e; subst e; simp at h

theorem e_rc_names {s : String} (h : recognisedCore s = false) :
    ∀ d ∈ directiveNames, s ≠ d := by
  intro d hd
  simp only [recognisedCore, recogChars, Bool.or_eq_false_iff, List.any_eq_false] at h
  exact e_ne_of_toList_beq (by simpa using h.1.1.1.1.1 d hd)

theorem e_stripPrefix_none {s pre : String} (h : pre.toList.isPrefixOf s.toList = false) :
    stripPrefix s pre = none := by
  have : ¬ (pre.toList <+: s.toList) := by
    rw [← List.isPrefixOf_iff_prefix]; simp [h]
  simp [stripPrefix, this]

theorem e_startsWith_false {s pre : String} (h : pre.toList.isPrefixOf s.toList = false) :
    s.startsWith pre = false := by
  have : ¬ (pre.toList <+: s.toList) := by
    rw [← List.isPrefixOf_iff_prefix]; simp [h]
  simp [this]

theorem e_rc_merge {s : String} (h : recognisedCore s = false) :
    stripPrefix s "$merge:" = none := by
  simp only [recognisedCore, recogChars, Bool.or_eq_false_iff] at h
  exact e_stripPrefix_none h.1.1.1.1.2

theorem e_rc_replace {s : String} (h : recognisedCore s = false) :
    stripPrefix s "$replace:" = none := by
  simp only [recognisedCore, recogChars, Bool.or_eq_false_iff] at h
  exact e_stripPrefix_none h.1.1.1.2

theorem e_rc_env {s : String} (h : recognisedCore s = false) :
    s.startsWith "$env:" = false := by
  simp only [recognisedCore, recogChars, Bool.or_eq_false_iff] at h
  exact e_startsWith_false h.1.1.2

theorem e_rc_interp {s : String} (h : recognisedCore s = false) : interpBody s = none := by
  simp only [recognisedCore, recogChars, Bool.or_eq_false_iff] at h
  rw [e_interpBody_eq]
  simpa using h.1.2

theorem e_rc_validate {s : String} (h : recognisedCore s = false) :
    validateString s = .ok () := by
  simp only [recognisedCore, recogChars, Bool.or_eq_false_iff] at h
  have := h.2
  unfold validateString
  cases hv : validateChars s.toList with
  | ok u => rfl
  | error e => simp [hv, Except.toBool] at this

/-! ## doubled strings are not recognised -/

/-- shape of a doubled string: empty, or starts with `$$`, or starts with a non-dollar -/
theorem e_double_shape (cs : List Char) :
    doubleChars cs = [] ∨ (∃ r, doubleChars cs = '$' :: '$' :: r) ∨
      (∃ c r, c ≠ '$' ∧ doubleChars cs = c :: r) := by
  cases cs with
  | nil => left; rfl
  | cons c cs =>
    by_cases h : c = '$'
    · right; left; exact ⟨doubleChars cs, by simp [doubleChars, h]⟩
    · right; right; exact ⟨c, doubleChars cs, h, by simp [doubleChars, h]⟩

theorem e_lower_dollar : isLowerModel '$' = false := by decide
theorem e_req : "$required".toList = ['$','r','e','q','u','i','r','e','d'] := by decide

theorem e_validate_nil : validateChars [] = .ok () := by
  unfold validateChars
  rw [e_req, if_neg (by simp)]
  rfl

theorem e_validate_dd (r : List Char) : validateChars ('$' :: '$' :: r) = .ok () := by
  unfold validateChars
  rw [e_req, if_neg (by simp)]
  simp only [e_lower_dollar]
  rfl

theorem e_validate_c (c : Char) (r : List Char) (h : c ≠ '$') :
    validateChars (c :: r) = .ok () := by
  unfold validateChars
  rw [e_req, if_neg (by simp [h])]
  split
  · rename_i heq; simp at heq; exact absurd heq.1 h
  · rfl

theorem e_recog_nil : recogChars [] = false := by
  simp [recogChars, directiveNames, e_interpChars, e_validate_nil, Except.toBool]

theorem e_recog_dd (r : List Char) : recogChars ('$' :: '$' :: r) = false := by
  simp [recogChars, directiveNames, e_interpChars, e_validate_dd, Except.toBool, List.isPrefixOf]

theorem e_recog_c (c : Char) (r : List Char) (h : c ≠ '$') : recogChars (c :: r) = false := by
  have h' : ¬ '$' = c := Ne.symm h
  have hi : e_interpChars (c :: r) = none := by
    unfold e_interpChars
    split
    · rename_i heq; simp at heq; exact absurd heq.1 h
    · rfl
  simp [recogChars, directiveNames, hi, e_validate_c c r h, Except.toBool, h', List.isPrefixOf]

theorem e_recog_double (cs : List Char) : recogChars (doubleChars cs) = false := by
  rcases e_double_shape cs with h | ⟨r, h⟩ | ⟨c, r, hc, h⟩
  · rw [h]; exact e_recog_nil
  · rw [h]; exact e_recog_dd r
  · rw [h]; exact e_recog_c c r hc

theorem e_rc_doubleStr (s : String) : recognisedCore (doubleStr s) = false := by
  simp [recognisedCore, e_recog_double]

/-! ## doubling is strictly monotone for the string order -/

theorem e_doubleChars_head (c : Char) (cs : List Char) :
    ∃ r, doubleChars (c :: cs) = c :: r := by
  by_cases h : c = '$'
  · exact ⟨'$' :: doubleChars cs, by simp [doubleChars, h]⟩
  · exact ⟨doubleChars cs, by simp [doubleChars, h]⟩

theorem e_doubleChars_lt : ∀ (a b : List Char), a < b → doubleChars a < doubleChars b := by
  intro a
  induction a with
  | nil =>
    intro b h
    cases b with
    | nil => exact absurd h (List.lt_irrefl _)
    | cons c cs =>
      obtain ⟨r, hr⟩ := e_doubleChars_head c cs
      rw [hr]; exact List.nil_lt_cons _ _
  | cons x xs ih =>
    intro b h
    cases b with
    | nil => simp at h
    | cons y ys =>
      rw [List.cons_lt_cons_iff] at h
      rcases h with h | ⟨rfl, h⟩
      · obtain ⟨r1, h1⟩ := e_doubleChars_head x xs
        obtain ⟨r2, h2⟩ := e_doubleChars_head y ys
        rw [h1, h2, List.cons_lt_cons_iff]; exact Or.inl h
      · have := ih ys h
        by_cases hx : x = '$'
        · simp only [doubleChars, hx, if_true, List.cons_lt_cons_iff, true_and]
          exact Or.inr (Or.inr this)
        · simp only [doubleChars, hx, if_false, List.cons_lt_cons_iff, true_and]
          exact Or.inr this

theorem e_doubleStr_lt {a b : String} (h : a < b) : doubleStr a < doubleStr b := by
  have h' : a.toList < b.toList := h
  show (doubleStr a).toList < (doubleStr b).toList
  rw [e_toList_doubleStr, e_toList_doubleStr]
  exact e_doubleChars_lt _ _ h'

end Bkl
