/-
  C03 — "The inheritance chain is resolved from filenames and `$parent`, base first".

  Model: `Bkl/Files.lean` (`fileParents`, `loadFileAndParents`, `mergeFiles`, `cliRun`).
  Helper definitions used in the statements (all in `BklProofs/Lemmas/Files.lean`):
  `PlainDir fs d` (an existing directory reached without symlinks), `LayerFile fs d layer e c`
  (layer `layer` is provided by exactly the file `layer.e` of `d`, with content `c`),
  `globName fs cfg path n` (the files one `$parent` name stands for: the rooted glob
  `fs.globFiles cfg.root …`), `fs.findRooted root dir layer` (the rooted `findFile` of
  `fileParents`: the first supported extension `e` with
  `fs.rootExists root (relTo root (dir ++ [layer.e]))`), `fromName fs cfg p` (the filename rule),
  `cliMerge` / `cliStep` (the input loop of cmd/bkl), `aloneDocs` (what `-P` merges).
-/
import BklProofs.Lemmas.Files
import BklProofs.Lemmas.FilesRename
import BklProofs.Lemmas.C03Chain
import BklProofs.Lemmas.C03Links
namespace Bkl

/-! ## the filename rule -/

/-- Without a `$parent` directive and without symlinks the parents of `p` come from its base
    name split on ".": fewer than two parts is an error, two parts (`a.yaml`) mean no parent,
    otherwise the parent is the file found for the layer "base name minus its last two parts";
    a layer that no file provides is an error (never silently skipped). -/
theorem C03_filename_parent (fs : FS) (cfg : RootCfg) (p : Comps) (docs : List Val)
    (hdocs : ∀ d ∈ docs, parentDirective d = .ok .absent)
    (hlink : fs.evalSymlinks p = some p) :
    let parts := (baseOf p).splitOn "."
    let layer := ".".intercalate (parts.take (parts.length - 2))
    (parts.length < 2 → fileParents fs cfg p docs = .error .invalidFilename) ∧
    (parts.length = 2 → fileParents fs cfg p docs = .ok []) ∧
    (3 ≤ parts.length →
      (∀ f, fs.findRooted cfg.root (dirOf p) layer = some f → fileParents fs cfg p docs = .ok [f]) ∧
      (fs.findRooted cfg.root (dirOf p) layer = none →
        fileParents fs cfg p docs = .error .missingFile)) := by
  intro parts layer
  rw [fileParents_no_directive fs cfg p docs hdocs, hlink]
  simp only [fromName]
  refine ⟨?_, ?_, ?_⟩
  · intro h
    rw [if_pos h]
  · intro h
    have h1 : ¬ parts.length < 2 := by omega
    rw [if_neg h1]
    simp [parts, h]
  · intro h
    have h1 : ¬ parts.length < 2 := by omega
    have h2 : (parts.length == 2) = false := by
      simp only [beq_eq_false_iff_ne]; omega
    rw [if_neg h1]
    simp only [parts] at h2
    simp only [h2, Bool.false_eq_true, if_false]
    refine ⟨?_, ?_⟩
    · intro f hf
      simp only [layer, parts] at hf
      rw [hf]
    · intro hf
      simp only [layer, parts] at hf
      rw [hf]

/-- non-vacuity: `/w/a.b.json` in the sample file system -/
example : (∀ d ∈ [Val.map [("y", .int 2)]], parentDirective d = .ok .absent) ∧
    chainFS.evalSymlinks ["w", "a.b.json"] = some ["w", "a.b.json"] := by
  refine ⟨?_, evalSymlinks_layerFile chainFS_plain (by decide) chainFS_ab⟩
  intro d hd
  have : d = Val.map [("y", .int 2)] := by simpa using hd
  subst this; rfl

/-- What a candidate returned by the rooted `findFile` (`FS.findRooted`, the probe `fileParents`
    uses) is: `layer.e` for a supported `e` that the rooted `Parser.stat` does not report
    missing beneath the root. -/
theorem C03_findFile_spec (fs : FS) (root dir : Comps) (layer : String) (f : Comps)
    (h : fs.findRooted root dir layer = some f) :
    ∃ e, e ∈ supportedExts ∧ f = dir ++ [layer ++ "." ++ e] ∧
      fs.rootExists root (relTo root f) = true :=
  findRooted_some fs root dir layer f h

example : chainFS.findRooted [] ["w"] "a.b" = some ["w", "a.b.json"] :=
  findRooted_layerFile chainFS_plain (by decide) chainFS_ab

/-- Concrete names: `a.b.c.yaml → a.b`, `a.b.yaml → a`, `a.yaml` has two parts (no parent),
    `Makefile` has one (invalid). -/
theorem C03_filename_layers :
    (let parts := "a.b.c.yaml".splitOn "."
     ".".intercalate (parts.take (parts.length - 2)) = "a.b") ∧
    (let parts := "a.b.yaml".splitOn "."
     ".".intercalate (parts.take (parts.length - 2)) = "a") ∧
    ("a.yaml".splitOn ".").length = 2 ∧ ("Makefile".splitOn ".").length = 1 := by
  simp only [splitOn_dot]
  decide

/-- The same for any supported extension `e` (symbolic): the parents of `d/a.b.c.e`, `d/a.b.e`
    and `d/a.e`, given by the file found for the layer. -/
theorem C03_filename_parent_ext (fs : FS) (cfg : RootCfg) (d : Comps) (e : String)
    (he : e ∈ supportedExts) :
    fromName fs cfg (d ++ ["a.b.c" ++ "." ++ e]) =
      (match fs.findRooted cfg.root d "a.b" with
        | some f => .ok [f] | none => .error .missingFile) ∧
    fromName fs cfg (d ++ ["a.b" ++ "." ++ e]) =
      (match fs.findRooted cfg.root d "a" with
        | some f => .ok [f] | none => .error .missingFile) ∧
    fromName fs cfg (d ++ ["a" ++ "." ++ e]) = .ok [] := by
  have hd := supportedExt_noDot e he
  refine ⟨?_, ?_, ?_⟩
  · rw [fromName_snoc fs cfg d _ e hd, parts_abc]
    have : ".".intercalate (["a", "b", "c"] : List String).dropLast = "a.b" := by decide
    rw [this]; rfl
  · rw [fromName_snoc fs cfg d _ e hd, parts_ab]
    have : ".".intercalate (["a", "b"] : List String).dropLast = "a" := by decide
    rw [this]; rfl
  · rw [fromName_snoc fs cfg d _ e hd, parts_a]; rfl

example : "toml" ∈ supportedExts := by decide

/-- a missing layer is an error: `/w/orphan.x.yaml` has no `orphan.*` -/
example : fileParents chainFS ⟨[], []⟩ ["w", "orphan.x.yaml"] [.map []] = .error .missingFile := by
  have hl : chainFS.evalSymlinks (["w"] ++ ["orphan.x.yaml"]) = some (["w"] ++ ["orphan.x.yaml"]) :=
    evalSymlinks_file (n := .file (.ok [.map []])) chainFS_plain (by decide) (by decide) rfl
  have hn : chainFS.findRooted [] ["w"] "orphan" = none :=
    findRooted_none_of_missing chainFS_plain (by decide) (by
      intro e he
      simp only [supportedExts, List.mem_cons, List.not_mem_nil, or_false] at he
      rcases he with rfl | rfl | rfl | rfl | rfl | rfl <;> decide)
  have h3 := C03_filename_parent chainFS ⟨[], []⟩ ["w", "orphan.x.yaml"] [.map []]
    (by intro d hd; have : d = Val.map [] := by simpa using hd
        subst this; rfl) hl
  simp only [] at h3
  have hparts : (baseOf ["w", "orphan.x.yaml"]).splitOn "." = ["orphan", "x", "yaml"] := by
    rw [splitOn_dot]; decide
  rw [hparts] at h3
  exact (h3.2.2 (by decide)).2 hn

/-! ## base first -/

/-- Depth 3, symbolic extensions and documents: if the layers `a`, `a.b`, `a.b.c` of a
    link-free directory `d` are provided by exactly one file each (`a.e₁`, `a.b.e₂`, `a.b.c.e₃`,
    any supported extensions), each holding one document without `$parent`, then loading
    `d/a.b.c.e₃` (no root restriction) returns the three files **base first**
    `[a.e₁, a.b.e₂, a.b.c.e₃]`, each document pointing at the document of the next lower layer. -/
theorem C03_chain_order (fs : FS) (d cwd : Comps) (e₁ e₂ e₃ : String) (v₁ v₂ v₃ : Val)
    (hd : PlainDir fs d)
    (h₁ : LayerFile fs d "a" e₁ (.ok [v₁])) (h₂ : LayerFile fs d "a.b" e₂ (.ok [v₂]))
    (h₃ : LayerFile fs d "a.b.c" e₃ (.ok [v₃]))
    (a₁ : parentDirective v₁ = .ok .absent) (a₂ : parentDirective v₂ = .ok .absent)
    (a₃ : parentDirective v₃ = .ok .absent) :
    let p₁ := d ++ ["a" ++ "." ++ e₁]
    let p₂ := d ++ ["a.b" ++ "." ++ e₂]
    let p₃ := d ++ ["a.b.c" ++ "." ++ e₃]
    let id₃ := pathStr p₃
    let id₂ := id₃ ++ "|" ++ pathStr p₂
    let id₁ := id₂ ++ "|" ++ pathStr p₁
    loadFileAndParents fs ⟨[], cwd⟩ loadFuel p₃ none [] [] =
      .ok ([{ id := id₁, path := p₁, docs := [oneDoc id₁ [] v₁] },
            { id := id₂, path := p₂, docs := [oneDoc id₂ [id₁ ++ "|doc" ++ toString 0] v₂] },
            { id := id₃, path := p₃, docs := [oneDoc id₃ [id₂ ++ "|doc" ++ toString 0] v₃] }],
           [id₃ ++ "|doc" ++ toString 0]) :=
  chain3 hd h₁ h₂ h₃ a₁ a₂ a₃ 61 none [] [] rfl rfl rfl

/-- Depth 2. -/
theorem C03_chain_order_2 (fs : FS) (d cwd : Comps) (e₁ e₂ : String) (v₁ v₂ : Val)
    (hd : PlainDir fs d)
    (h₁ : LayerFile fs d "a" e₁ (.ok [v₁])) (h₂ : LayerFile fs d "a.b" e₂ (.ok [v₂]))
    (a₁ : parentDirective v₁ = .ok .absent) (a₂ : parentDirective v₂ = .ok .absent) :
    let p₁ := d ++ ["a" ++ "." ++ e₁]
    let p₂ := d ++ ["a.b" ++ "." ++ e₂]
    let id₂ := pathStr p₂
    let id₁ := id₂ ++ "|" ++ pathStr p₁
    loadFileAndParents fs ⟨[], cwd⟩ loadFuel p₂ none [] [] =
      .ok ([{ id := id₁, path := p₁, docs := [oneDoc id₁ [] v₁] },
            { id := id₂, path := p₂, docs := [oneDoc id₂ [id₁ ++ "|doc" ++ toString 0] v₂] }],
           [id₂ ++ "|doc" ++ toString 0]) :=
  chain2 hd h₁ h₂ a₁ a₂ 62 none [] [] rfl rfl

/-- Hence the merge order: layering `d/a.b.c.e₃` onto a parser state merges the three documents
    base first. -/
theorem C03_chain_merge (fs : FS) (d cwd : Comps) (e₁ e₂ e₃ : String) (v₁ v₂ v₃ : Val)
    (hd : PlainDir fs d)
    (h₁ : LayerFile fs d "a" e₁ (.ok [v₁])) (h₂ : LayerFile fs d "a.b" e₂ (.ok [v₂]))
    (h₃ : LayerFile fs d "a.b.c" e₃ (.ok [v₃]))
    (a₁ : parentDirective v₁ = .ok .absent) (a₂ : parentDirective v₂ = .ok .absent)
    (a₃ : parentDirective v₃ = .ok .absent) (st : PState) :
    let p₁ := d ++ ["a" ++ "." ++ e₁]
    let p₂ := d ++ ["a.b" ++ "." ++ e₂]
    let p₃ := d ++ ["a.b.c" ++ "." ++ e₃]
    let id₃ := pathStr p₃
    let id₂ := id₃ ++ "|" ++ pathStr p₂
    let id₁ := id₂ ++ "|" ++ pathStr p₁
    mergeFileLayers fs ⟨[], cwd⟩ st p₃ =
      runMerges st [oneDoc id₁ [] v₁, oneDoc id₂ [id₁ ++ "|doc" ++ toString 0] v₂,
        oneDoc id₃ [id₂ ++ "|doc" ++ toString 0] v₃] := by
  intro p₁ p₂ p₃ id₃ id₂ id₁
  rw [mergeFileLayers_eq, C03_chain_order fs d cwd e₁ e₂ e₃ v₁ v₂ v₃ hd h₁ h₂ h₃ a₁ a₂ a₃]
  simp only []
  rw [mergeFiles_eq]
  rfl

/-- Corollary: the order of the loaded paths. -/
theorem C03_chain_paths (fs : FS) (d cwd : Comps) (e₁ e₂ e₃ : String) (v₁ v₂ v₃ : Val)
    (hd : PlainDir fs d)
    (h₁ : LayerFile fs d "a" e₁ (.ok [v₁])) (h₂ : LayerFile fs d "a.b" e₂ (.ok [v₂]))
    (h₃ : LayerFile fs d "a.b.c" e₃ (.ok [v₃]))
    (a₁ : parentDirective v₁ = .ok .absent) (a₂ : parentDirective v₂ = .ok .absent)
    (a₃ : parentDirective v₃ = .ok .absent) :
    ∃ files ids, loadFileAndParents fs ⟨[], cwd⟩ loadFuel (d ++ ["a.b.c" ++ "." ++ e₃]) none [] [] =
        .ok (files, ids) ∧
      files.map (·.path) = [d ++ ["a" ++ "." ++ e₁], d ++ ["a.b" ++ "." ++ e₂], d ++ ["a.b.c" ++ "." ++ e₃]] ∧
      files.map (fun f => f.docs.map (·.data)) = [[v₁], [v₂], [v₃]] :=
  ⟨_, _, C03_chain_order fs d cwd e₁ e₂ e₃ v₁ v₂ v₃ hd h₁ h₂ h₃ a₁ a₂ a₃, rfl, rfl⟩

/-- non-vacuity: /w/a.yaml, /w/a.b.json, /w/a.b.c.toml (mixed formats) -/
example : PlainDir chainFS ["w"] ∧
    LayerFile chainFS ["w"] "a" "yaml" (.ok [.map [("x", .int 1)]]) ∧
    LayerFile chainFS ["w"] "a.b" "json" (.ok [.map [("y", .int 2)]]) ∧
    LayerFile chainFS ["w"] "a.b.c" "toml" (.ok [.map [("z", .int 3)]]) ∧
    parentDirective (.map [("x", .int 1)]) = .ok .absent ∧
    parentDirective (.map [("y", .int 2)]) = .ok .absent ∧
    parentDirective (.map [("z", .int 3)]) = .ok .absent :=
  ⟨chainFS_plain, chainFS_a, chainFS_ab, chainFS_abc, rfl, rfl, rfl⟩

/-! ## `$parent` has priority -/

/-- If the documents carry `$parent` names (and no `$parent: false/null`), the parents are the
    glob matches of those names, relative to the file's directory, in order; a name matching
    nothing is an error.  Neither `evalSymlinks path` nor `findFile` occurs on the right-hand
    side: the symlink and filename rules are not consulted. -/
theorem C03_priority (fs : FS) (cfg : RootCfg) (path : Comps) (docs : List Val)
    (dirs : List ParentDir)
    (hd : docs.mapM parentDirective = .ok dirs) (hnp : hasNoParent dirs = false)
    (hn : parentNames dirs ≠ []) :
    fileParents fs cfg path docs =
      if (parentNames dirs).any (fun n => (globName fs cfg path n).isEmpty) then .error .missingFile
      else .ok ((parentNames dirs).flatMap (globName fs cfg path)) := by
  rw [fileParents_eq, hd]
  have : (parentNames dirs).isEmpty = false := by
    cases h : parentNames dirs with
    | nil => exact absurd h hn
    | cons a l => rfl
  simp only [hnp, this, Bool.false_eq_true, if_false, Bool.not_false, if_true]
  rw [globStep_foldlM]
  rfl

/-- One document with `$parent: "x"`: the glob of `x` next to the file. -/
theorem C03_priority_str (fs : FS) (cfg : RootCfg) (path : Comps) (kvs : Fields) (x : String)
    (h : fget kvs "$parent" = some (.str x)) :
    fileParents fs cfg path [.map kvs] =
      let target := cleanComps (dirOf path ++ splitPath x)
      let ms := fs.globFiles cfg.root target
      if ms.isEmpty then .error .missingFile else .ok ms := by
  have hd : [Val.map kvs].mapM parentDirective = .ok [.names [x]] := by
    rw [mapM_R_cons, mapM_R_nil, parentDirective_map, h]
  rw [C03_priority fs cfg path _ _ hd rfl (by simp [parentNames])]
  simp [parentNames, globName]

example : fget [("$parent", Val.str "a")] "$parent" = some (.str "a") := by decide

/-- non-vacuity of the general form -/
example : [Val.map [("$parent", .str "a")], .map [("x", .int 1)]].mapM parentDirective =
      .ok [.names ["a"], .absent] ∧
    hasNoParent [.names ["a"], .absent] = false ∧ parentNames [.names ["a"], .absent] ≠ [] := by
  refine ⟨?_, rfl, by simp [parentNames]⟩
  rw [mapM_R_cons, mapM_R_cons, mapM_R_nil]; rfl

/-- the self-parent file: `$parent: a` in `/a.yaml` resolves to `/a.yaml` itself -/
example : fileParents selfFS ⟨[], []⟩ ["a.yaml"] [.map [("$parent", .str "a")]] = .ok [["a.yaml"]] :=
  selfFS_parents

/-! ## stopping the chain -/

/-- `$parent: false` / `$parent: null` are "no parent"; `$parent: true` is invalid. -/
theorem C03_stop_directive (kvs : Fields) :
    (fget kvs "$parent" = some (.bool false) → parentDirective (.map kvs) = .ok .noParent) ∧
    (fget kvs "$parent" = some .null → parentDirective (.map kvs) = .ok .noParent) ∧
    (fget kvs "$parent" = some (.bool true) → parentDirective (.map kvs) = .error .invalidParent) := by
  refine ⟨?_, ?_, ?_⟩ <;> intro h <;> rw [parentDirective_map, h] <;> rfl

/-- With a "no parent" directive (and no name directive) the file has no parents, whatever its
    name or symlink says; together with a name directive it is a conflict; an invalid directive
    anywhere is `invalidParent`. -/
theorem C03_stop (fs : FS) (cfg : RootCfg) (path : Comps) (docs : List Val) :
    (∀ dirs, docs.mapM parentDirective = .ok dirs → hasNoParent dirs = true →
      parentNames dirs = [] → fileParents fs cfg path docs = .ok []) ∧
    (∀ dirs, docs.mapM parentDirective = .ok dirs → hasNoParent dirs = true →
      parentNames dirs ≠ [] → fileParents fs cfg path docs = .error .conflictingParent) ∧
    (∀ d e, d ∈ docs → parentDirective d = .error e →
      fileParents fs cfg path docs = .error .invalidParent) := by
  refine ⟨?_, ?_, ?_⟩
  · intro dirs hd hnp hn
    rw [fileParents_eq, hd]
    simp [hnp, hn]
  · intro dirs hd hnp hn
    rw [fileParents_eq, hd]
    have : (parentNames dirs).isEmpty = false := by
      cases h : parentNames dirs with
      | nil => exact absurd h hn
      | cons a l => rfl
    simp [hnp, this]
  · intro d e hmem he
    obtain ⟨e', he'⟩ := mapM_R_error_of_mem parentDirective docs hmem he
    have : e' = .invalidParent := by
      obtain ⟨l1, a, l2, _, _, ha⟩ := (mapM_R_error_iff _ _ _).1 he'
      exact parentDirective_error a e' ha
    subst this
    rw [fileParents_eq, he']

example : [Val.map [("$parent", .bool false)]].mapM parentDirective = .ok [.noParent] ∧
    hasNoParent [.noParent] = true ∧ parentNames [.noParent] = [] := by
  refine ⟨?_, rfl, rfl⟩
  rw [mapM_R_cons, mapM_R_nil]; rfl

example : [Val.map [("$parent", .bool false)], .map [("$parent", .str "a")]].mapM parentDirective =
      .ok [.noParent, .names ["a"]] ∧
    hasNoParent [.noParent, .names ["a"]] = true ∧ parentNames [.noParent, .names ["a"]] ≠ [] := by
  refine ⟨?_, rfl, by simp [parentNames]⟩
  rw [mapM_R_cons, mapM_R_cons, mapM_R_nil]; rfl

example : Val.map [("$parent", .bool true)] ∈ [Val.map [("x", .int 1)], .map [("$parent", .bool true)]] ∧
    parentDirective (.map [("$parent", .bool true)]) = .error .invalidParent :=
  ⟨by simp, rfl⟩

/-- single-document instances -/
theorem C03_stop_single (fs : FS) (cfg : RootCfg) (path : Comps) (kvs : Fields) :
    (fget kvs "$parent" = some (.bool false) → fileParents fs cfg path [.map kvs] = .ok []) ∧
    (fget kvs "$parent" = some .null → fileParents fs cfg path [.map kvs] = .ok []) ∧
    (fget kvs "$parent" = some (.bool true) →
      fileParents fs cfg path [.map kvs] = .error .invalidParent) ∧
    (∀ kvs' x, fget kvs "$parent" = some (.bool false) → fget kvs' "$parent" = some (.str x) →
      fileParents fs cfg path [.map kvs, .map kvs'] = .error .conflictingParent) := by
  have hs := C03_stop_directive kvs
  refine ⟨?_, ?_, ?_, ?_⟩
  · intro h
    have hd : [Val.map kvs].mapM parentDirective = .ok [.noParent] := by
      rw [mapM_R_cons, mapM_R_nil, hs.1 h]
    exact (C03_stop fs cfg path _).1 _ hd rfl rfl
  · intro h
    have hd : [Val.map kvs].mapM parentDirective = .ok [.noParent] := by
      rw [mapM_R_cons, mapM_R_nil, hs.2.1 h]
    exact (C03_stop fs cfg path _).1 _ hd rfl rfl
  · intro h
    exact (C03_stop fs cfg path _).2.2 _ _ List.mem_cons_self (hs.2.2 h)
  · intro kvs' x h h'
    have hd : [Val.map kvs, Val.map kvs'].mapM parentDirective = .ok [.noParent, .names [x]] := by
      rw [mapM_R_cons, mapM_R_cons, mapM_R_nil, hs.1 h, parentDirective_map kvs', h']
    exact (C03_stop fs cfg path _).2.1 _ hd rfl (by simp [parentNames])

example : fget [("$parent", Val.bool false), ("x", .int 1)] "$parent" = some (.bool false) ∧
    fget [("$parent", Val.null)] "$parent" = some .null ∧
    fget [("$parent", Val.bool true)] "$parent" = some (.bool true) := by decide

/-! ## wildcards do not cross dots -/

/-- Everything `globFiles root target` returns lies beneath the root and has, relative to the
    root, the shape of the pattern `target.*`: as many components, exactly as many dots in
    total as the pattern (so no `*` ever matched across a dot), a supported extension, and a
    base name that matches `base.*`.  When the directory part of the pattern holds no wildcard
    the match is `dir/n` in the target's own directory, with exactly the pattern's number of
    dots in `n`. -/
theorem C03_wildcard_no_dot (fs : FS) (root target : Comps) :
    ∀ f ∈ fs.globFiles root target,
      let pat := relTo root (dirOf target ++ [baseOf target ++ ".*"])
      root <+: f ∧
      ((relTo root f).map countDots).sum = (pat.map countDots).sum ∧
      (relTo root f).length = pat.length ∧
      supportedExts.contains (extOf (baseOf f)) = true ∧
      globMatch (baseOf target ++ ".*").toList (baseOf f).toList
        ((baseOf target ++ ".*").length + (baseOf f).length + 1) = true ∧
      ((dirOf pat).any hasMeta = false →
        dirOf f = dirOf target ∧ countDots (baseOf f) = countDots (baseOf target ++ ".*")) := by
  intro f hf
  obtain ⟨dpat, m, n, hpat, hroot, rfl, hlen, hnm, _, hmatch, hsum, hext⟩ := mem_globFiles_spec hf
  simp only []
  rw [hpat, baseOf_snoc, List.append_assoc, relTo_append, dirOf_snoc]
  refine ⟨List.prefix_append _ _, hsum, by simp [hlen], hext, hmatch, ?_⟩
  intro hm
  have := hnm hm
  subst this
  rw [← List.append_assoc, dirOf_snoc]
  refine ⟨hroot, ?_⟩
  simp only [List.map_append, List.sum_append, List.map_cons, List.map_nil, List.sum_cons,
    List.sum_nil, Nat.add_zero] at hsum
  omega

example : ["a.yaml"] ∈ selfFS.globFiles [] ([] ++ ["a"]) := by
  rw [globFiles_singleton_noroot (d := []) (real := []) (by decide) (by decide) (by decide)
    (by decide) selfFS_glob]
  exact List.mem_cons_self

/-! ## inputs left to right, `-P` -/

/-- `cliRun` is: set the root, run the input loop `cliMerge` from the empty parser state, then
    output. -/
theorem C03_cliRun_is_loop (fs : FS) (cwd : Comps) (env : Vars) (opts : CliOpts) :
    cliRun fs cwd env opts =
      match cliCfg fs cwd opts with
      | .error e => .error e
      | .ok cfg =>
        match cliMerge fs cwd cfg opts.skipParent (PState.empty, none) opts.inputs with
        | .error e => .error e
        | .ok acc => cliOutput env opts acc :=
  cliRun_eq fs cwd env opts

/-- Two inputs: the second is layered on the parser state the first produced; the output
    format defaults to the first input's. -/
theorem C03_inputs_left_to_right (fs : FS) (cwd : Comps) (cfg : RootCfg) (i₁ i₂ : String)
    (r₁ r₂ : Comps) (f₁ f₂ : String) (st₁ st₂ : PState)
    (h₁ : fileMatch fs cwd i₁ = .ok (r₁, f₁)) (h₂ : fileMatch fs cwd i₂ = .ok (r₂, f₂))
    (m₁ : mergeFileLayers fs cfg PState.empty r₁ = .ok st₁)
    (m₂ : mergeFileLayers fs cfg st₁ r₂ = .ok st₂) :
    cliMerge fs cwd cfg false (PState.empty, none) [i₁, i₂] = .ok (st₂, some f₁) := by
  simp [cliMerge, cliStep, h₁, h₂, m₁, m₂]

/-- non-vacuity: `bkl a.yaml a.json` in /w of the sample file system (both name `/w/a.yaml`) -/
example : fileMatch chainFS ["w"] "a.yaml" = .ok (["w", "a.yaml"], "yaml") ∧
    fileMatch chainFS ["w"] "a.json" = .ok (["w", "a.yaml"], "json") ∧
    mergeFileLayers chainFS ⟨[], ["w"]⟩ PState.empty ["w", "a.yaml"] =
      .ok ⟨[("/w/a.yaml|doc0", .map [("x", .int 1)])], [("/w/a.yaml|doc0", [])]⟩ ∧
    mergeFileLayers chainFS ⟨[], ["w"]⟩
        ⟨[("/w/a.yaml|doc0", .map [("x", .int 1)])], [("/w/a.yaml|doc0", [])]⟩ ["w", "a.yaml"] =
      .ok ⟨[("/w/a.yaml|doc0", .map [("x", .int 1)]), ("/w/a.yaml|doc0", .map [("x", .int 1)])],
        [("/w/a.yaml|doc0", [])]⟩ := by
  refine ⟨chainFS_match_a, chainFS_match_a_json, ?_, ?_⟩
  · rw [chainFS_layers_a]; rfl
  · rw [chainFS_layers_a]; rfl

/-- In general the loop is a left fold: running `l₁ ++ l₂` is running `l₁`, then `l₂` from
    the state reached. -/
theorem C03_inputs_append (fs : FS) (cwd : Comps) (cfg : RootCfg) (sp : Bool)
    (l₁ l₂ : List String) (acc : PState × Option String) :
    cliMerge fs cwd cfg sp acc (l₁ ++ l₂) =
      match cliMerge fs cwd cfg sp acc l₁ with
      | .error e => .error e
      | .ok acc' => cliMerge fs cwd cfg sp acc' l₂ :=
  cliMerge_append fs cwd cfg sp l₁ l₂ acc

/-- `-P`: every input is merged alone — its own documents only, `$parent` stripped, no parent
    links — so `fileParents` is never consulted: the result depends on the file system only
    through `loadFile` of that one path. -/
theorem C03_skip_parent (fs : FS) (cwd : Comps) (cfg : RootCfg) (st : PState) (p : Comps) :
    mergeFileAlone fs cfg st p =
      (match loadFile fs cfg p (pathStr p) with
        | .error e => .error e
        | .ok raw => runMerges st (aloneDocs p raw)) ∧
    (∀ raw, ∀ d ∈ aloneDocs p raw, d.parents = [] ∧ ∃ v ∈ raw, d.data = stripParent v) ∧
    (∀ fs', loadFile fs' cfg p (pathStr p) = loadFile fs cfg p (pathStr p) →
      mergeFileAlone fs' cfg st p = mergeFileAlone fs cfg st p) ∧
    (∀ (acc : PState × Option String) (inp : String) (real : Comps) (f : String),
      fileMatch fs cwd inp = .ok (real, f) →
      cliStep fs cwd cfg true acc inp =
        match mergeFileAlone fs cfg acc.1 real with
        | .error e => .error e
        | .ok st' => .ok (st', if acc.2.isNone then some f else acc.2)) := by
  refine ⟨mergeFileAlone_eq fs cfg st p, ?_, ?_, ?_⟩
  · intro raw d hd
    unfold aloneDocs at hd
    obtain ⟨⟨v, i⟩, hvi, rfl⟩ := List.mem_map.1 hd
    refine ⟨rfl, ?_⟩
    have : v ∈ raw.map stripParent := (List.mem_zipIdx hvi).2.2 ▸ List.getElem_mem _
    obtain ⟨w, hw, rfl⟩ := List.mem_map.1 this
    exact ⟨w, hw, rfl⟩
  · intro fs' h
    rw [mergeFileAlone_eq, mergeFileAlone_eq, h]
  · intro acc inp real f h
    unfold cliStep
    rw [h]
    simp only [if_true]
    cases mergeFileAlone fs cfg acc.1 real <;> rfl

example : fileMatch chainFS ["w"] "a.yaml" = .ok (["w", "a.yaml"], "yaml") := by
  rw [fileMatch_eq]
  have h1 : absPath ["w"] "a.yaml" = ["w"] ++ ["a" ++ "." ++ "yaml"] := by
    have : isAbsPath "a.yaml" = false := by simp [isAbsPath]
    simp only [absPath, this, splitPath_lit "a.yaml" ["a.yaml"] (by decide)]; decide
  rw [h1, baseOf_snoc, dirOf_snoc, extOf_snoc "a" "yaml" (by decide)]
  have h2 : stemOf ("a" ++ "." ++ "yaml") = "a" := by
    simp only [stemOf, splitOn_dot]; decide
  rw [h2, findFile_layerFile chainFS_plain (by decide) chainFS_a]
  rfl

/-! ## renaming -/

/-- **Partial** (see `C03_rename_counterexample`): content-only dependence of the merge on the
    loaded files.  If `files₂` has the documents of `files₁` with every id (document ids and
    parent links) renamed by `ρ`, where `ρ` is injective on a set `S` of ids that contains all
    ids in use and is closed under — and commutes with — the `|matchnull` suffix the parser
    appends for `$match: null`, then merging `files₂` gives the renamed state of merging
    `files₁`: same success/error, same data in the same order.  (File ids and paths may differ
    arbitrarily.) -/
theorem C03_rename_partial (ρ : String → String) (S : String → Prop) (h : RenOK ρ S)
    (files₁ files₂ : List LFile)
    (hin : ∀ f ∈ files₁, ∀ d ∈ f.docs, DocIn S d)
    (hshape : files₂.map (·.docs) = files₁.map fun f => f.docs.map (renDoc ρ)) :
    mergeFiles PState.empty files₂ = rmap (renState ρ) (mergeFiles PState.empty files₁) ∧
    (∀ st₁, mergeFiles PState.empty files₁ = .ok st₁ →
      ∃ st₂, mergeFiles PState.empty files₂ = .ok st₂ ∧
        st₂.docs.map (·.2) = st₁.docs.map (·.2)) ∧
    (∀ st₂, mergeFiles PState.empty files₂ = .ok st₂ →
      ∃ st₁, mergeFiles PState.empty files₁ = .ok st₁ ∧
        st₂.docs.map (·.2) = st₁.docs.map (·.2)) ∧
    (∀ e, mergeFiles PState.empty files₁ = .error e ↔ mergeFiles PState.empty files₂ = .error e) := by
  have key := mergeFiles_ren h files₁ files₂ hin hshape
  refine ⟨key, ?_, ?_, ?_⟩
  · intro st₁ h1
    rw [h1] at key
    exact ⟨renState ρ st₁, key, renState_data st₁⟩
  · intro st₂ h2
    cases h1 : mergeFiles PState.empty files₁ with
    | error e => rw [h1, h2] at key; cases key
    | ok st₁ =>
      rw [h1, h2] at key
      cases key
      exact ⟨st₁, rfl, renState_data st₁⟩
  · intro e
    cases h1 : mergeFiles PState.empty files₁ with
    | error e' =>
      rw [h1] at key
      rw [key]
      constructor <;> intro h' <;> cases h' <;> rfl
    | ok st₁ =>
      rw [h1] at key
      rw [key]
      constructor <;> intro h' <;> cases h'

/-- Special case: prefixing every id with a fixed string. -/
theorem C03_rename_prefix (pre : String) (files₁ files₂ : List LFile)
    (hshape : files₂.map (·.docs) = files₁.map fun f => f.docs.map (renDoc (pre ++ ·))) :
    (∀ st₁, mergeFiles PState.empty files₁ = .ok st₁ →
      ∃ st₂, mergeFiles PState.empty files₂ = .ok st₂ ∧
        st₂.docs.map (·.2) = st₁.docs.map (·.2)) ∧
    (∀ st₂, mergeFiles PState.empty files₂ = .ok st₂ →
      ∃ st₁, mergeFiles PState.empty files₁ = .ok st₁ ∧
        st₂.docs.map (·.2) = st₁.docs.map (·.2)) ∧
    (∀ e, mergeFiles PState.empty files₁ = .error e ↔ mergeFiles PState.empty files₂ = .error e) :=
  (C03_rename_partial (pre ++ ·) (fun _ => True) (renOK_prefix pre) files₁ files₂
    (fun _ _ _ _ => ⟨trivial, fun _ _ => trivial⟩) hshape).2

/-- non-vacuity of the hypotheses of `C03_rename_partial` / `C03_rename_prefix` -/
example : RenOK (fun s => "x/" ++ s) (fun _ => True) ∧
    (cexA.map fun f => ({ f with docs := f.docs.map (renDoc ("x/" ++ ·)) } : LFile)).map (·.docs) =
      cexA.map fun f => f.docs.map (renDoc ("x/" ++ ·)) :=
  ⟨renOK_prefix "x/", rfl⟩

/-- The unrestricted statement ("any injective renaming of the ids") is FALSE for the model:
    `swapId` is a bijection on strings, `cexB` is `cexA` renamed by it, both merges succeed, and
    the data differ.  The reason is the id `patch.id ++ "|matchnull"` that `mergeDocument`
    invents for `$match: null`: in `cexA` it collides with the id of an existing document (so
    a later layer targets both), after the renaming it does not.  (Ids produced by
    `loadFileAndParents` end in `|doc<n>`, so real loads do not collide like this; the
    hypothesis of `C03_rename_partial` is what makes that precise.) -/
theorem C03_rename_counterexample :
    (∀ a b, swapId a = swapId b → a = b) ∧
    cexB.map (·.docs) = cexA.map (fun f => f.docs.map (renDoc swapId)) ∧
    (∃ st₁, mergeFiles PState.empty cexA = .ok st₁ ∧ st₁.docs.map (·.2) = [.int 5, .int 5]) ∧
    (∃ st₂, mergeFiles PState.empty cexB = .ok st₂ ∧ st₂.docs.map (·.2) = [.int 5, .map []]) :=
  ⟨swapId_injective, rfl, cexA_run, cexB_run⟩

/-! ## cycles -/

/-- A path that is already on the chain of children is a circular reference. -/
theorem C03_cycle_is_error (fs : FS) (cfg : RootCfg) (fuel : Nat) (path : Comps)
    (c : Option String) (ids : List String) (chain : List Comps) (h : path ∈ chain) :
    loadFileAndParents fs cfg (fuel + 1) path c ids chain = .error .circularRef :=
  lfp_cycle fs cfg fuel path c ids chain h

example : (["a.yaml"] : Comps) ∈ [["a.yaml"]] := List.mem_cons_self

/-- A file whose `$parent` names itself is rejected: `/a.yaml` containing `$parent: a`. -/
theorem C03_self_parent_rejected :
    loadFileAndParents selfFS ⟨[], []⟩ loadFuel ["a.yaml"] none [] [] = .error .circularRef ∧
    mergeFileLayers selfFS ⟨[], []⟩ PState.empty ["a.yaml"] = .error .circularRef := by
  refine ⟨selfFS_cycle, ?_⟩
  rw [mergeFileLayers_eq, selfFS_cycle]

/-! ## chains of arbitrary depth

  Notation (definitions in `BklProofs/Lemmas/C03Chain.lean`): a chain is a base-first list of
  `CLayer`s `⟨name, ext, docs⟩` (the layer's own name component `aₖ`, the extension of the one
  file that provides the layer, that file's documents); `layerName ns = ".".intercalate ns`;
  `prefixPath d pre (P ++ [x]) = d/<pre.P-names.x.name>.<x.ext>` (`prefixPath_snoc`);
  `PlainName c` = non-empty and without dots; `chainFiles d pre c R` is the explicit list of
  loaded files for the top-first chain `R` (child id `c`), `plainDocs` its documents. -/

/-- **Partial** (`n ≤ loadFuel = 64`, see `C03_chain_order_n_false`): generalises
    `C03_chain_order` to a chain `a₁, a₁.a₂, …, a₁.….aₙ` (`L = P ++ [x]`, so `n ≥ 1`) of plain
    names in a link-free directory `d`, each layer provided by exactly one file (any supported
    extension, any number of documents, none with `$parent`).  Loading the top file returns
    exactly the `n` files **base first**: their paths are the files of `a₁`, `a₁.a₂`, … in this
    order, their documents are the layers' documents, the top file's id is its path, each lower
    file's id is the next upper file's id extended by `|<own path>`, the base documents have no
    parents and the documents of every other file point at exactly the documents of the file
    below; `mergeFileLayers` merges all documents in this order. -/
theorem C03_chain_order_n_partial (fs : FS) (d cwd : Comps) (P : List CLayer) (x : CLayer)
    (hd : PlainDir fs d) (hn : (P ++ [x]).length ≤ loadFuel)
    (hpl : ∀ y ∈ P ++ [x], PlainName y.name)
    (hok : ∀ P' y, P' ++ [y] <+: P ++ [x] →
      LayerFile fs d (layerName ([] ++ (P' ++ [y]).map (·.name))) y.ext (.ok y.docs) ∧
        ∀ v ∈ y.docs, parentDirective v = .ok .absent) :
    let L := P ++ [x]
    ∃ files ids,
      loadFileAndParents fs ⟨[], cwd⟩ loadFuel (prefixPath d [] L) none [] [] = .ok (files, ids) ∧
      files = chainFiles d [] none L.reverse ∧
      files.map (·.path) = (List.range L.length).map (fun k => prefixPath d [] (L.take (k + 1))) ∧
      files.map (fun f => f.docs.map (·.data)) = L.map (·.docs) ∧
      files.getLast?.map (·.id) = some (pathStr (prefixPath d [] L)) ∧
      (∀ k f g, files[k]? = some f → files[k + 1]? = some g →
        f.id = g.id ++ "|" ++ pathStr f.path ∧ ∀ dd ∈ g.docs, dd.parents = f.docs.map (·.id)) ∧
      (∀ f, files.head? = some f → ∀ dd ∈ f.docs, dd.parents = []) ∧
      (∀ st, mergeFileLayers fs ⟨[], cwd⟩ st (prefixPath d [] L) =
        runMerges st (files.flatMap (·.docs))) := by
  intro L
  have hload := load_chain (cwd := cwd) hd P x hn hpl hok
  refine ⟨_, _, hload, rfl, chainFiles_paths_rev d [] L none, chainFiles_data_rev d [] L none,
    ?_, chainFiles_link d [] L.reverse none, chainFiles_head_parents d [] L.reverse none, ?_⟩
  · have hr : L.reverse = x :: P.reverse := by simp [L]
    rw [hr, chainFiles_getLast]
    simp only [Option.map_some, fileIdOf, prefixPath, hr]
  · intro st
    rw [mergeFileLayers_eq, hload]
    exact mergeFiles_eq st _

/-- The unrestricted statement ("for every `n`") is FALSE for the model: `loadFileAndParents`
    carries the recursion fuel `loadFuel = 64` (Go's recursion is unbounded) and reports
    `circularRef` when it runs out.  `deepFS [] 65` holds `/w/a.yaml`, `/w/a.a.yaml`, … up to 65
    components; all hypotheses of `C03_chain_order_n_partial` except `n ≤ loadFuel` hold and
    loading the top file fails. -/
theorem C03_chain_order_n_false :
    ∃ (fs : FS) (d cwd : Comps) (P : List CLayer) (x : CLayer),
      PlainDir fs d ∧ (P ++ [x]).length = loadFuel + 1 ∧ (∀ y ∈ P ++ [x], PlainName y.name) ∧
      ChainFilesOK fs d [] (P ++ [x]) ∧
      loadFileAndParents fs ⟨[], cwd⟩ loadFuel (prefixPath d [] (P ++ [x])) none [] [] =
        .error .circularRef := by
  have hrep : List.replicate 64 deepLayer ++ [deepLayer] = List.replicate 65 deepLayer :=
    (List.replicate_succ' (n := 64) (a := deepLayer)).symm
  have hpl : ∀ y ∈ List.replicate 64 deepLayer ++ [deepLayer], PlainName y.name := by
    intro y hy
    rw [hrep] at hy
    rw [(List.mem_replicate.1 hy).2]
    exact deepLayer_plain
  have hok : ChainFilesOK (deepFS [] 65) ["w"] [] (List.replicate 64 deepLayer ++ [deepLayer]) := by
    rw [hrep]; exact deepFS_chainOK [] 65
  refine ⟨deepFS [] 65, ["w"], [], List.replicate 64 deepLayer, deepLayer, deepFS_plain [] 65,
    by simp [loadFuel], hpl, hok, ?_⟩
  exact load_chain_nofuel (deepFS_plain [] 65) _ _ (by simp [loadFuel]) (fun _ h => nomatch h) hpl hok

/-- …and this is exactly the failing class: with more than `loadFuel` layers (and otherwise
    the hypotheses of `C03_chain_order_n_partial`) the model always answers `circularRef`. -/
theorem C03_chain_order_n_fuel (fs : FS) (d cwd : Comps) (P : List CLayer) (x : CLayer)
    (hd : PlainDir fs d) (hn : loadFuel < (P ++ [x]).length)
    (hpl : ∀ y ∈ P ++ [x], PlainName y.name)
    (hok : ∀ P' y, P' ++ [y] <+: P ++ [x] →
      LayerFile fs d (layerName ([] ++ (P' ++ [y]).map (·.name))) y.ext (.ok y.docs) ∧
        ∀ v ∈ y.docs, parentDirective v = .ok .absent) :
    loadFileAndParents fs ⟨[], cwd⟩ loadFuel (prefixPath d [] (P ++ [x])) none [] [] =
      .error .circularRef :=
  load_chain_nofuel hd P x hn (fun _ h => nomatch h) hpl hok
/-- non-vacuity: `/w/a.yaml`, `/w/a.b.json`, `/w/a.b.c.toml` as the chain `exChain`; the loaded
    paths come out base first -/
example :
    exChain = [⟨"a", "yaml", [.map [("x", .int 1)]]⟩, ⟨"b", "json", [.map [("y", .int 2)]]⟩] ++
      [⟨"c", "toml", [.map [("z", .int 3)]]⟩] ∧
    PlainDir chainFS ["w"] ∧ exChain.length ≤ loadFuel ∧ (∀ y ∈ exChain, PlainName y.name) ∧
    ChainFilesOK chainFS ["w"] [] exChain ∧
    (List.range exChain.length).map (fun k => prefixPath ["w"] [] (exChain.take (k + 1))) =
      [["w", "a.yaml"], ["w", "a.b.json"], ["w", "a.b.c.toml"]] :=
  ⟨rfl, chainFS_plain, by decide, exChain_plain, exChain_ok, by decide⟩

/-- non-vacuity beyond depth 3: a chain of ten layers `a`, `a.a`, …, in `deepFS [] 10` -/
example : PlainDir (deepFS [] 10) ["w"] ∧
    (List.replicate 9 deepLayer ++ [deepLayer]).length ≤ loadFuel ∧
    (∀ y ∈ List.replicate 9 deepLayer ++ [deepLayer], PlainName y.name) ∧
    ChainFilesOK (deepFS [] 10) ["w"] [] (List.replicate 9 deepLayer ++ [deepLayer]) := by
  have hrep : List.replicate 9 deepLayer ++ [deepLayer] = List.replicate 10 deepLayer :=
    (List.replicate_succ' (n := 9) (a := deepLayer)).symm
  refine ⟨deepFS_plain _ _, by simp [loadFuel], ?_, ?_⟩
  · intro y hy
    rw [hrep] at hy
    rw [(List.mem_replicate.1 hy).2]
    exact deepLayer_plain
  · rw [hrep]; exact deepFS_chainOK [] 10

/-! ## a missing layer is an error -/

/-- **Partial** (at most `loadFuel = 64` layers above the missing one; see
    `C03_missing_layer_is_error_false`): in the chain `a₁, …, aₙ` let the middle layer
    `a₁.….aₖ` (`pre`, `1 ≤ k`) be provided by no file (the rooted `findFile` of `fileParents` finds none — `findRooted`, no root set: no supported
    extension exists — see the second example below for the `lstat` form), while the layers
    `k+1 … n` (`P ++ [x]`, so `k < n`) are provided as in `C03_chain_order_n_partial`.  Nothing is
    assumed about the layers below `k`.  Then loading the top file — and hence
    `mergeFileLayers` from any state — fails with `missingFile`. -/
theorem C03_missing_layer_is_error_partial (fs : FS) (d cwd : Comps) (pre : List String)
    (P : List CLayer) (x : CLayer)
    (hd : PlainDir fs d) (hn : (P ++ [x]).length ≤ loadFuel)
    (hne : pre ≠ []) (hpre : ∀ n ∈ pre, PlainName n) (hpl : ∀ y ∈ P ++ [x], PlainName y.name)
    (hok : ∀ P' y, P' ++ [y] <+: P ++ [x] →
      LayerFile fs d (layerName (pre ++ (P' ++ [y]).map (·.name))) y.ext (.ok y.docs) ∧
        ∀ v ∈ y.docs, parentDirective v = .ok .absent)
    (hmiss : fs.findRooted [] d (layerName pre) = none) :
    loadFileAndParents fs ⟨[], cwd⟩ loadFuel (prefixPath d pre (P ++ [x])) none [] [] =
      .error .missingFile ∧
    ∀ st, mergeFileLayers fs ⟨[], cwd⟩ st (prefixPath d pre (P ++ [x])) = .error .missingFile := by
  have h := load_chain_missing (cwd := cwd) hd P x hn hne hpre hpl hok hmiss
  refine ⟨h, ?_⟩
  intro st
  rw [mergeFileLayers_eq, h]

/-- For **every** `n` the load never succeeds: the result is `missingFile`, or — when more than
    `loadFuel` layers lie above the missing one — the model's `circularRef`. -/
theorem C03_missing_layer_never_ok (fs : FS) (d cwd : Comps) (pre : List String)
    (P : List CLayer) (x : CLayer) (hd : PlainDir fs d)
    (hne : pre ≠ []) (hpre : ∀ n ∈ pre, PlainName n) (hpl : ∀ y ∈ P ++ [x], PlainName y.name)
    (hok : ∀ P' y, P' ++ [y] <+: P ++ [x] →
      LayerFile fs d (layerName (pre ++ (P' ++ [y]).map (·.name))) y.ext (.ok y.docs) ∧
        ∀ v ∈ y.docs, parentDirective v = .ok .absent)
    (hmiss : fs.findRooted [] d (layerName pre) = none) :
    loadFileAndParents fs ⟨[], cwd⟩ loadFuel (prefixPath d pre (P ++ [x])) none [] [] =
      .error (if (P ++ [x]).length ≤ loadFuel then .missingFile else .circularRef) ∧
    (∀ st st', mergeFileLayers fs ⟨[], cwd⟩ st (prefixPath d pre (P ++ [x])) ≠ .ok st') := by
  have key : loadFileAndParents fs ⟨[], cwd⟩ loadFuel (prefixPath d pre (P ++ [x])) none [] [] =
      .error (if (P ++ [x]).length ≤ loadFuel then .missingFile else .circularRef) := by
    by_cases hn : (P ++ [x]).length ≤ loadFuel
    · rw [if_pos hn]
      exact load_chain_missing hd P x hn hne hpre hpl hok hmiss
    · rw [if_neg hn]
      exact load_chain_nofuel hd P x (by omega) hpre hpl hok
  refine ⟨key, ?_⟩
  intro st st' h
  rw [mergeFileLayers_eq, key] at h
  cases h

/-- "fails with `missingFile` for every `n`" is FALSE for the model: in `deepFS ["z"] 65`
    (`/w/z.a.yaml`, `/w/z.a.a.yaml`, … 65 files; no `/w/z.*`) the layer `z` is missing under every
    extension, 65 > `loadFuel` layers lie above it, and the error is `circularRef`. -/
theorem C03_missing_layer_is_error_false :
    ∃ (fs : FS) (d cwd : Comps) (pre : List String) (P : List CLayer) (x : CLayer),
      PlainDir fs d ∧ pre ≠ [] ∧ (∀ n ∈ pre, PlainName n) ∧ (∀ y ∈ P ++ [x], PlainName y.name) ∧
      ChainFilesOK fs d pre (P ++ [x]) ∧
      (∀ e ∈ supportedExts, fs.lstat (d ++ [layerName pre ++ "." ++ e]) = none) ∧
      fs.findRooted [] d (layerName pre) = none ∧
      loadFileAndParents fs ⟨[], cwd⟩ loadFuel (prefixPath d pre (P ++ [x])) none [] [] =
        .error .circularRef := by
  have hrep : List.replicate 64 deepLayer ++ [deepLayer] = List.replicate 65 deepLayer :=
    (List.replicate_succ' (n := 64) (a := deepLayer)).symm
  have hpl : ∀ y ∈ List.replicate 64 deepLayer ++ [deepLayer], PlainName y.name := by
    intro y hy
    rw [hrep] at hy
    rw [(List.mem_replicate.1 hy).2]
    exact deepLayer_plain
  have hpre : ∀ n ∈ ["z"], PlainName n := by
    intro n hn
    have : n = "z" := List.mem_singleton.1 hn
    subst this; exact ⟨by decide, by decide⟩
  have hok : ChainFilesOK (deepFS ["z"] 65) ["w"] ["z"] (List.replicate 64 deepLayer ++ [deepLayer]) := by
    rw [hrep]; exact deepFS_chainOK ["z"] 65
  have hm := deepFS_missing ["z"] 65 (by simp) hpre
  refine ⟨deepFS ["z"] 65, ["w"], [], ["z"], List.replicate 64 deepLayer, deepLayer,
    deepFS_plain ["z"] 65, by simp, hpre, hpl, hok, hm, ?_, ?_⟩
  · exact findRooted_none_of_missing (deepFS_plain ["z"] 65) (by decide) hm
  · exact load_chain_nofuel (deepFS_plain ["z"] 65) _ _ (by simp [loadFuel]) hpre hpl hok

/-- non-vacuity of `C03_missing_layer_is_error_partial`: ten layers `z.a`, …, `z.a.….a` above the
    missing layer `z` (and `findRooted` is `none` because no `z.<ext>` exists) -/
example : PlainDir (deepFS ["z"] 10) ["w"] ∧
    (List.replicate 9 deepLayer ++ [deepLayer]).length ≤ loadFuel ∧
    (∀ y ∈ List.replicate 9 deepLayer ++ [deepLayer], PlainName y.name) ∧
    ChainFilesOK (deepFS ["z"] 10) ["w"] ["z"] (List.replicate 9 deepLayer ++ [deepLayer]) ∧
    (deepFS ["z"] 10).findRooted [] ["w"] (layerName ["z"]) = none := by
  have hrep : List.replicate 9 deepLayer ++ [deepLayer] = List.replicate 10 deepLayer :=
    (List.replicate_succ' (n := 9) (a := deepLayer)).symm
  have hpre : ∀ n ∈ ["z"], PlainName n := by
    intro n hn
    have : n = "z" := List.mem_singleton.1 hn
    subst this; exact ⟨by decide, by decide⟩
  refine ⟨deepFS_plain _ _, by simp [loadFuel], ?_, ?_, ?_⟩
  · intro y hy
    rw [hrep] at hy
    rw [(List.mem_replicate.1 hy).2]
    exact deepLayer_plain
  · rw [hrep]; exact deepFS_chainOK ["z"] 10
  · exact findRooted_none_of_missing (deepFS_plain ["z"] 10) (by decide)
      (deepFS_missing ["z"] 10 (by simp) hpre)

/-- the `lstat` form of "no file under any supported extension" implies the `findRooted` form -/
example (fs : FS) (d : Comps) (pre : List String) (hd : PlainDir fs d) (hne : pre ≠ [])
    (hpre : ∀ n ∈ pre, PlainName n)
    (h : ∀ e ∈ supportedExts, fs.lstat (d ++ [layerName pre ++ "." ++ e]) = none) :
    fs.findRooted [] d (layerName pre) = none :=
  findRooted_none_of_missing hd (layer_length_pos _ hne (fun n hn => (hpre n hn).1)) h

/-- non-vacuity on the sample file system: `/w/orphan.x.yaml` exists, no `/w/orphan.*` does -/
example : mergeFileLayers chainFS ⟨[], []⟩ PState.empty (prefixPath ["w"] ["orphan"] ([] ++ [⟨"x", "yaml", [.map []]⟩])) =
    .error .missingFile := by
  have hpre : ∀ n ∈ ["orphan"], PlainName n := by
    intro n hn
    have : n = "orphan" := List.mem_singleton.1 hn
    subst this; exact ⟨by decide, by decide⟩
  have hx : LayerFile chainFS ["w"] (layerName (["orphan"] ++ (([] : List CLayer) ++ [CLayer.mk "x" "yaml" [.map []]]).map CLayer.name))
      "yaml" (.ok [.map []]) := by
    rw [show layerName _ = "orphan.x" by decide]
    exact layerFile_of_decide (by decide) (by decide) (fun _ => by decide) (fun _ => by decide)
      (fun _ => by decide) (fun _ => by decide) (fun h => absurd rfl h) (fun _ => by decide)
  have hok := chainFilesOK_snoc (x := ⟨"x", "yaml", [.map []]⟩) (chainFilesOK_nil chainFS ["w"] ["orphan"]) hx
    (by intro v hv; have : v = _ := List.mem_singleton.1 hv
        subst this; rfl)
  have hm : chainFS.findRooted [] ["w"] (layerName ["orphan"]) = none :=
    findRooted_none_of_missing chainFS_plain (by decide) (by
      intro e he
      simp only [supportedExts, List.mem_cons, List.not_mem_nil, or_false] at he
      rcases he with rfl | rfl | rfl | rfl | rfl | rfl <;> decide)
  exact (C03_missing_layer_is_error_partial chainFS ["w"] [] ["orphan"] [] ⟨"x", "yaml", [.map []]⟩
    chainFS_plain (by simp [loadFuel]) (by simp) hpre
    (by intro y hy
        have : y = _ := List.mem_singleton.1 hy
        subst this; exact ⟨by decide, by decide⟩) hok hm).2 _

/-! ## a `$parent` list with an entry that names nothing -/

/-- If any one of the names the `$parent` directives of a file contribute — at any position,
    next to any number of other names, whether or not those exist — stands for no file
    (`globName … = []`: it is not the name of an existing layer and not a wildcard matching
    something, see `C03_parent_entry_names_nothing_iff`), then the file's parents are a
    `missingFile` error, and so is loading the file (at any depth of a load) and layering it onto
    any parser state.  The dangling name is never skipped. -/
theorem C03_parent_missing_entry_is_error (fs : FS) (cfg : RootCfg) (path : Comps) (docs : List Val)
    (dirs : List ParentDir) (n : String)
    (hd : docs.mapM parentDirective = .ok dirs) (hnp : hasNoParent dirs = false)
    (hn : n ∈ parentNames dirs) (hg : globName fs cfg path n = []) :
    fileParents fs cfg path docs = .error .missingFile ∧
    (∀ fuel c ids chain, chain.contains path = false →
      loadFile fs cfg path (fileIdOf c path) = .ok docs →
      loadFileAndParents fs cfg (fuel + 1) path c ids chain = .error .missingFile) ∧
    (∀ st, loadFile fs cfg path (pathStr path) = .ok docs →
      mergeFileLayers fs cfg st path = .error .missingFile) := by
  have hp := fileParents_missing_entry fs cfg path docs dirs n hd hnp hn hg
  refine ⟨hp, ?_, ?_⟩
  · intro fuel c ids chain hc hl
    exact lfp_parents_error hc hl hp
  · intro st hl
    rw [mergeFileLayers_eq, show loadFuel = 63 + 1 from rfl,
      lfp_parents_error (c := []) (childId := none) (fuel := 63) (List.contains_nil) hl hp]

/-- The list form: one document whose `$parent` is a list of strings with the dangling name `n`
    anywhere in it. -/
theorem C03_parent_list_missing_entry (fs : FS) (cfg : RootCfg) (path : Comps) (kvs : Fields)
    (before after : List String) (n : String)
    (h : fget kvs "$parent" = some (.list ((before ++ n :: after).map Val.str)))
    (hg : globName fs cfg path n = []) :
    fileParents fs cfg path [.map kvs] = .error .missingFile ∧
    (∀ st, loadFile fs cfg path (pathStr path) = .ok [.map kvs] →
      mergeFileLayers fs cfg st path = .error .missingFile) := by
  have hd : [Val.map kvs].mapM parentDirective = .ok [.names (before ++ n :: after)] := by
    rw [mapM_R_cons, mapM_R_nil, parentDirective_map, h]
    simp only [toStringList_strs]
  have := C03_parent_missing_entry_is_error fs cfg path _ _ n hd rfl
    (by simp [parentNames]) hg
  exact ⟨this.1, this.2.2⟩

/-- What "`n` names nothing" means.  A pattern whose directory is not beneath the root names
    nothing.  Otherwise (the directory part, relative to the root, holding no wildcard) the
    pattern `n.*` selects no entry: the directory cannot be opened beneath the root
    (`rootOpenDir`: missing, not a directory, or the walk is refused), or none of its entries
    matches `n.*` with the same number of dots and a supported extension. -/
theorem C03_parent_entry_names_nothing_iff (fs : FS) (cfg : RootCfg) (path : Comps) (n : String) :
    let target := cleanComps (dirOf path ++ splitPath n)
    let rel := relTo cfg.root (dirOf target)
    (¬ cfg.root <+: dirOf target → globName fs cfg path n = []) ∧
    (cfg.root <+: dirOf target → rel.any hasMeta = false →
      (globName fs cfg path n = [] ↔
        (∀ rdir, fs.rootOpenDir cfg.root rel ≠ .ok rdir) ∨
        ∃ rdir, fs.rootOpenDir cfg.root rel = .ok rdir ∧
          ∀ e ∈ fs.entries, e.1 ≠ [] → e.1.dropLast = rdir →
            ¬ (globMatch (baseOf target ++ ".*").toList (baseOf e.1).toList
                  ((baseOf target ++ ".*").length + (baseOf e.1).length + 1) = true ∧
                countDots (baseOf e.1) = countDots (baseOf target ++ ".*") ∧
                supportedExts.contains (extOf (baseOf e.1)) = true))) := by
  intro target rel
  refine ⟨fun h => globFiles_outside fs cfg.root target h, ?_⟩
  intro hin hm
  unfold globName
  have hfull : cfg.root ++ rel = dirOf target := by
    obtain ⟨t, ht⟩ := hin
    simp only [rel]
    rw [← ht, relTo_append]
  have hplain : ∀ c ∈ rel, plainComp c = true := by
    intro c hc
    apply cleanComps_allPlain (dirOf path ++ splitPath n)
    apply List.dropLast_subset
    show c ∈ dirOf target
    rw [← hfull]
    exact List.mem_append_right _ hc
  rw [globFiles_congr_target fs cfg.root (t := cleanComps (dirOf path ++ splitPath n))
      (t' := cfg.root ++ rel ++ [baseOf target])
      (by rw [dirOf_snoc]; exact hfull.symm) (by rw [baseOf_snoc]),
    globFiles_eq_nil_iff fs cfg.root rel (baseOf target) hplain hm]
  constructor
  · rintro (h | ⟨r, hr, h⟩)
    · exact Or.inl h
    · exact Or.inr ⟨r, hr, (globNames_eq_nil_iff fs r _).1 h⟩
  · rintro (h | ⟨r, hr, h⟩)
    · exact Or.inl h
    · exact Or.inr ⟨r, hr, (globNames_eq_nil_iff fs r _).2 h⟩

/-- non-vacuity: the other entries exist, the middle one does not, the load fails -/
example :
    fget [("$parent", Val.list [.str "a", .str "nope", .str "a"]), ("y", .int 2)] "$parent" =
      some (.list ((["a"] ++ "nope" :: ["a"]).map Val.str)) ∧
    globName danglingFS ⟨[], []⟩ ["w", "top.yaml"] "a" = [["w", "a.yaml"]] ∧
    globName danglingFS ⟨[], []⟩ ["w", "top.yaml"] "nope" = [] ∧
    loadFile danglingFS ⟨[], []⟩ ["w", "top.yaml"] (pathStr ["w", "top.yaml"]) =
      .ok [.map [("$parent", .list [.str "a", .str "nope", .str "a"]), ("y", .int 2)]] ∧
    mergeFileLayers danglingFS ⟨[], []⟩ PState.empty ["w", "top.yaml"] = .error .missingFile := by
  have hl : loadFile danglingFS ⟨[], []⟩ ["w", "top.yaml"] (pathStr ["w", "top.yaml"]) =
      .ok [.map [("$parent", .list [.str "a", .str "nope", .str "a"]), ("y", .int 2)]] := by
    rw [loadFile_eq]
    have h1 : supportedExts.contains (extOf (baseOf ["w", "top.yaml"])) = true := by
      rw [extOf_eq]; decide
    rw [h1, if_pos rfl, rootOpen_eq]
    have h2 : danglingFS.rootWalk [] linkFuel 0 [] (relTo [] ["w", "top.yaml"]) = .ok ["w", "top.yaml"] := by
      decide
    simp only [h2]
    rfl
  refine ⟨by decide, danglingFS_glob_a, danglingFS_glob_nope, hl, ?_⟩
  exact (C03_parent_list_missing_entry danglingFS ⟨[], []⟩ ["w", "top.yaml"] _ ["a"] ["a"] "nope"
    (by decide) danglingFS_glob_nope).2 _ hl

/-! ## filenames and `$parent` are interchangeable -/

/-- Three layers.  The filename chain `d/a.e₁`, `d/a.b.e₂`, `d/a.b.c.e₃` and, anywhere else
    (`d'`), three files `x.f₁`, `y.f₂`, `z.f₃` with unrelated names (`x` plain; `y`, `z`
    arbitrary, even dotted) holding the same documents, where `y` says `$parent: n₁` and `z` says
    `$parent: n₂` with `n₁` standing for exactly `x.f₁` and `n₂` for exactly `y.f₂`
    (`globName … = […]`).  The filename files hold the documents as the loader sees them after
    stripping `$parent`.  Then both loads succeed with three files holding the same document
    contents in the same base-first order, so `mergeFileLayers` (from the empty state) gives the
    same result up to an admissible renaming of document ids (`RenOK`, the id-independence of
    `C03_rename_partial`): same success/error, same documents in the same order, and the same
    `outputDocuments` for every environment. -/
theorem C03_directive_equiv (fs : FS) (d d' cwd : Comps) (e₁ e₂ e₃ x y z f₁ f₂ f₃ n₁ n₂ : String)
    (v₁ : Val) (k₂ k₃ : Fields)
    (hd : PlainDir fs d) (hd' : PlainDir fs d')
    (h₁ : LayerFile fs d "a" e₁ (.ok [v₁]))
    (h₂ : LayerFile fs d "a.b" e₂ (.ok [stripParent (.map k₂)]))
    (h₃ : LayerFile fs d "a.b.c" e₃ (.ok [stripParent (.map k₃)]))
    (a₁ : parentDirective v₁ = .ok .absent)
    (hx : 0 < x.length) (hxd : '.' ∉ x.toList) (hy : 0 < y.length) (hz : 0 < z.length)
    (g₁ : LayerFile fs d' x f₁ (.ok [v₁])) (g₂ : LayerFile fs d' y f₂ (.ok [.map k₂]))
    (g₃ : LayerFile fs d' z f₃ (.ok [.map k₃]))
    (p₂ : fget k₂ "$parent" = some (.str n₁)) (p₃ : fget k₃ "$parent" = some (.str n₂))
    (gl₂ : globName fs ⟨[], cwd⟩ (d' ++ [y ++ "." ++ f₂]) n₁ = [d' ++ [x ++ "." ++ f₁]])
    (gl₃ : globName fs ⟨[], cwd⟩ (d' ++ [z ++ "." ++ f₃]) n₂ = [d' ++ [y ++ "." ++ f₂]]) :
    let pA := d ++ ["a.b.c" ++ "." ++ e₃]
    let pB := d' ++ [z ++ "." ++ f₃]
    (∃ filesA idsA filesB idsB,
      loadFileAndParents fs ⟨[], cwd⟩ loadFuel pA none [] [] = .ok (filesA, idsA) ∧
      loadFileAndParents fs ⟨[], cwd⟩ loadFuel pB none [] [] = .ok (filesB, idsB) ∧
      filesA.map (·.path) = [d ++ ["a" ++ "." ++ e₁], d ++ ["a.b" ++ "." ++ e₂], pA] ∧
      filesB.map (·.path) = [d' ++ [x ++ "." ++ f₁], d' ++ [y ++ "." ++ f₂], pB] ∧
      filesA.map (fun f => f.docs.map (·.data)) =
        [[v₁], [stripParent (.map k₂)], [stripParent (.map k₃)]] ∧
      filesB.map (fun f => f.docs.map (·.data)) = filesA.map (fun f => f.docs.map (·.data))) ∧
    (∃ ρ S, RenOK ρ S ∧ mergeFileLayers fs ⟨[], cwd⟩ PState.empty pB =
      rmap (renState ρ) (mergeFileLayers fs ⟨[], cwd⟩ PState.empty pA)) ∧
    rmap (fun st => st.docs.map (·.2)) (mergeFileLayers fs ⟨[], cwd⟩ PState.empty pB) =
      rmap (fun st => st.docs.map (·.2)) (mergeFileLayers fs ⟨[], cwd⟩ PState.empty pA) ∧
    ∀ env, (mergeFileLayers fs ⟨[], cwd⟩ PState.empty pB >>= fun st =>
        outputDocuments (st.docs.map (·.2)) env) =
      (mergeFileLayers fs ⟨[], cwd⟩ PState.empty pA >>= fun st =>
        outputDocuments (st.docs.map (·.2)) env) := by
  intro pA pB
  -- the filename chain
  have hA : loadFileAndParents fs ⟨[], cwd⟩ loadFuel pA none [] [] =
      .ok (chain3Files (d ++ ["a" ++ "." ++ e₁]) (d ++ ["a.b" ++ "." ++ e₂]) pA v₁
        (stripParent (.map k₂)) (stripParent (.map k₃)), [pathStr pA ++ "|doc" ++ toString 0]) :=
    chain3 hd h₁ h₂ h₃ a₁ (parentDirective_stripParent _) (parentDirective_stripParent _) 61 none
      [] [] rfl rfl rfl
  -- the `$parent` chain
  have n12 : d' ++ [x ++ "." ++ f₁] ≠ d' ++ [y ++ "." ++ f₂] :=
    layerFile_path_ne g₁ g₂ (absent_ne_str a₁ p₂)
  have n13 : d' ++ [x ++ "." ++ f₁] ≠ d' ++ [z ++ "." ++ f₃] :=
    layerFile_path_ne g₁ g₃ (absent_ne_str a₁ p₃)
  have n23 : d' ++ [y ++ "." ++ f₂] ≠ d' ++ [z ++ "." ++ f₃] := by
    intro e
    have hk := g₂.file
    rw [e, g₃.file] at hk
    injection hk with hk
    injection hk with hk
    injection hk with hk
    injection hk with hk _
    injection hk with hk
    subst hk
    rw [p₂] at p₃
    injection p₃ with p₃
    injection p₃ with p₃
    subst p₃
    rw [← e, gl₂] at gl₃
    injection gl₃ with gl₃
    exact n12 gl₃
  have hp₁ : fileParents fs ⟨[], cwd⟩ (d' ++ [x ++ "." ++ f₁]) [v₁] = .ok [] := by
    rw [fileParents_layer ⟨[], cwd⟩ hd' hx g₁ (by simpa using a₁), splitOn_dot_plain x hxd]; rfl
  have hB : loadFileAndParents fs ⟨[], cwd⟩ loadFuel pB none [] [] =
      .ok (chain3Files (d' ++ [x ++ "." ++ f₁]) (d' ++ [y ++ "." ++ f₂]) pB v₁
        (stripParent (.map k₂)) (stripParent (.map k₃)), [pathStr pB ++ "|doc" ++ toString 0]) := by
    have := lfp_gen3 (cfg := ⟨[], cwd⟩) (fun fid => loadFile_layerFile hd' hx g₁ cwd fid)
      (fun fid => loadFile_layerFile hd' hy g₂ cwd fid)
      (fun fid => loadFile_layerFile hd' hz g₃ cwd fid) hp₁
      (fileParents_str_single fs _ _ _ k₂ n₁ p₂ gl₂) (fileParents_str_single fs _ _ _ k₃ n₂ p₃ gl₃)
      n12 n13 n23 61 none [] [] rfl rfl rfl
    rw [stripParent_of_absent v₁ a₁] at this
    exact this
  refine ⟨⟨_, _, _, _, hA, hB, rfl, rfl, rfl, rfl⟩, ?_⟩
  exact layers_equiv_of_files hA hB (chain3_merge_equiv _ _ _ _ _ _ _ _ _)

/-- Two layers: `d/a.e₁`, `d/a.b.e₂` against `d'/x.f₁`, `d'/y.f₂` with `$parent: n₁` in `y`. -/
theorem C03_directive_equiv_2 (fs : FS) (d d' cwd : Comps) (e₁ e₂ x y f₁ f₂ n₁ : String)
    (v₁ : Val) (k₂ : Fields)
    (hd : PlainDir fs d) (hd' : PlainDir fs d')
    (h₁ : LayerFile fs d "a" e₁ (.ok [v₁]))
    (h₂ : LayerFile fs d "a.b" e₂ (.ok [stripParent (.map k₂)]))
    (a₁ : parentDirective v₁ = .ok .absent)
    (hx : 0 < x.length) (hxd : '.' ∉ x.toList) (hy : 0 < y.length)
    (g₁ : LayerFile fs d' x f₁ (.ok [v₁])) (g₂ : LayerFile fs d' y f₂ (.ok [.map k₂]))
    (p₂ : fget k₂ "$parent" = some (.str n₁))
    (gl₂ : globName fs ⟨[], cwd⟩ (d' ++ [y ++ "." ++ f₂]) n₁ = [d' ++ [x ++ "." ++ f₁]]) :
    let pA := d ++ ["a.b" ++ "." ++ e₂]
    let pB := d' ++ [y ++ "." ++ f₂]
    (∃ filesA idsA filesB idsB,
      loadFileAndParents fs ⟨[], cwd⟩ loadFuel pA none [] [] = .ok (filesA, idsA) ∧
      loadFileAndParents fs ⟨[], cwd⟩ loadFuel pB none [] [] = .ok (filesB, idsB) ∧
      filesA.map (·.path) = [d ++ ["a" ++ "." ++ e₁], pA] ∧
      filesB.map (·.path) = [d' ++ [x ++ "." ++ f₁], pB] ∧
      filesA.map (fun f => f.docs.map (·.data)) = [[v₁], [stripParent (.map k₂)]] ∧
      filesB.map (fun f => f.docs.map (·.data)) = filesA.map (fun f => f.docs.map (·.data))) ∧
    (∃ ρ S, RenOK ρ S ∧ mergeFileLayers fs ⟨[], cwd⟩ PState.empty pB =
      rmap (renState ρ) (mergeFileLayers fs ⟨[], cwd⟩ PState.empty pA)) ∧
    rmap (fun st => st.docs.map (·.2)) (mergeFileLayers fs ⟨[], cwd⟩ PState.empty pB) =
      rmap (fun st => st.docs.map (·.2)) (mergeFileLayers fs ⟨[], cwd⟩ PState.empty pA) ∧
    ∀ env, (mergeFileLayers fs ⟨[], cwd⟩ PState.empty pB >>= fun st =>
        outputDocuments (st.docs.map (·.2)) env) =
      (mergeFileLayers fs ⟨[], cwd⟩ PState.empty pA >>= fun st =>
        outputDocuments (st.docs.map (·.2)) env) := by
  intro pA pB
  have hA : loadFileAndParents fs ⟨[], cwd⟩ loadFuel pA none [] [] =
      .ok (chain2Files (d ++ ["a" ++ "." ++ e₁]) pA v₁ (stripParent (.map k₂)),
        [pathStr pA ++ "|doc" ++ toString 0]) :=
    chain2 hd h₁ h₂ a₁ (parentDirective_stripParent _) 62 none [] [] rfl rfl
  have n12 : d' ++ [x ++ "." ++ f₁] ≠ d' ++ [y ++ "." ++ f₂] :=
    layerFile_path_ne g₁ g₂ (absent_ne_str a₁ p₂)
  have hp₁ : fileParents fs ⟨[], cwd⟩ (d' ++ [x ++ "." ++ f₁]) [v₁] = .ok [] := by
    rw [fileParents_layer ⟨[], cwd⟩ hd' hx g₁ (by simpa using a₁), splitOn_dot_plain x hxd]; rfl
  have hB : loadFileAndParents fs ⟨[], cwd⟩ loadFuel pB none [] [] =
      .ok (chain2Files (d' ++ [x ++ "." ++ f₁]) pB v₁ (stripParent (.map k₂)),
        [pathStr pB ++ "|doc" ++ toString 0]) := by
    have := lfp_gen2 (cfg := ⟨[], cwd⟩) (fun fid => loadFile_layerFile hd' hx g₁ cwd fid)
      (fun fid => loadFile_layerFile hd' hy g₂ cwd fid) hp₁
      (fileParents_str_single fs _ _ _ k₂ n₁ p₂ gl₂) n12 62 none [] [] rfl rfl
    rw [stripParent_of_absent v₁ a₁] at this
    exact this
  refine ⟨⟨_, _, _, _, hA, hB, rfl, rfl, rfl, rfl⟩, ?_⟩
  exact layers_equiv_of_files hA hB (chain2_merge_equiv _ _ _ _ _ _)

/-- non-vacuity of `C03_directive_equiv` (and, dropping the third layer, of
    `C03_directive_equiv_2`) -/
example : PlainDir dirFS ["w"] ∧ PlainDir dirFS ["v"] ∧
    LayerFile dirFS ["w"] "a" "yaml" (.ok [.map [("x", .int 1)]]) ∧
    LayerFile dirFS ["w"] "a.b" "json" (.ok [stripParent (.map [("$parent", .str "base"), ("y", .int 2)])]) ∧
    LayerFile dirFS ["w"] "a.b.c" "toml" (.ok [stripParent (.map [("$parent", .str "mid"), ("z", .int 3)])]) ∧
    parentDirective (.map [("x", .int 1)]) = .ok .absent ∧
    0 < "base".length ∧ '.' ∉ "base".toList ∧ 0 < "mid".length ∧ 0 < "top".length ∧
    LayerFile dirFS ["v"] "base" "yaml" (.ok [.map [("x", .int 1)]]) ∧
    LayerFile dirFS ["v"] "mid" "yaml" (.ok [.map [("$parent", .str "base"), ("y", .int 2)]]) ∧
    LayerFile dirFS ["v"] "top" "json" (.ok [.map [("$parent", .str "mid"), ("z", .int 3)]]) ∧
    fget [("$parent", Val.str "base"), ("y", .int 2)] "$parent" = some (.str "base") ∧
    fget [("$parent", Val.str "mid"), ("z", .int 3)] "$parent" = some (.str "mid") ∧
    globName dirFS ⟨[], []⟩ (["v"] ++ ["mid" ++ "." ++ "yaml"]) "base" =
      [["v"] ++ ["base" ++ "." ++ "yaml"]] ∧
    globName dirFS ⟨[], []⟩ (["v"] ++ ["top" ++ "." ++ "json"]) "mid" =
      [["v"] ++ ["mid" ++ "." ++ "yaml"]] :=
  ⟨dirFS_w, dirFS_v, dirFS_a, dirFS_ab, dirFS_abc, rfl, by decide, by decide, by decide, by decide,
    dirFS_base, dirFS_mid, dirFS_top, by decide, by decide, dirFS_glob_base, dirFS_glob_mid⟩

/-- The same stated on files only: in a file system that lists no path twice, with `x`, `y`
    plain names (non-empty, no dots, wildcards or slashes), `y.f₂` saying `$parent: x` and `z.f₃`
    saying `$parent: y`, in a directory `d'` whose own path holds no glob metacharacter (the
    rooted glob expands wildcards in directory components too), the `$parent`-linked files
    evaluate exactly like the filename chain
    `a`, `a.b`, `a.b.c` holding the same (stripped) documents. -/
theorem C03_directive_equiv_files (fs : FS) (d d' cwd : Comps) (e₁ e₂ e₃ x y z f₁ f₂ f₃ : String)
    (v₁ : Val) (k₂ k₃ : Fields)
    (hnd : (fs.entries.map (·.1)).Nodup)
    (hd : PlainDir fs d) (hd' : PlainDir fs d')
    (hdir' : fs.lstat d' = some .dir) (hmeta' : d'.any hasMeta = false)
    (h₁ : LayerFile fs d "a" e₁ (.ok [v₁]))
    (h₂ : LayerFile fs d "a.b" e₂ (.ok [stripParent (.map k₂)]))
    (h₃ : LayerFile fs d "a.b.c" e₃ (.ok [stripParent (.map k₃)]))
    (a₁ : parentDirective v₁ = .ok .absent)
    (px : PlainName x) (wx : ∀ ch ∈ x.toList, ch ≠ '*' ∧ ch ≠ '?' ∧ ch ≠ '/')
    (py : PlainName y) (wy : ∀ ch ∈ y.toList, ch ≠ '*' ∧ ch ≠ '?' ∧ ch ≠ '/')
    (hz : 0 < z.length)
    (g₁ : LayerFile fs d' x f₁ (.ok [v₁])) (g₂ : LayerFile fs d' y f₂ (.ok [.map k₂]))
    (g₃ : LayerFile fs d' z f₃ (.ok [.map k₃]))
    (p₂ : fget k₂ "$parent" = some (.str x)) (p₃ : fget k₃ "$parent" = some (.str y)) :
    let pA := d ++ ["a.b.c" ++ "." ++ e₃]
    let pB := d' ++ [z ++ "." ++ f₃]
    (∃ filesA idsA filesB idsB,
      loadFileAndParents fs ⟨[], cwd⟩ loadFuel pA none [] [] = .ok (filesA, idsA) ∧
      loadFileAndParents fs ⟨[], cwd⟩ loadFuel pB none [] [] = .ok (filesB, idsB) ∧
      filesA.map (·.path) = [d ++ ["a" ++ "." ++ e₁], d ++ ["a.b" ++ "." ++ e₂], pA] ∧
      filesB.map (·.path) = [d' ++ [x ++ "." ++ f₁], d' ++ [y ++ "." ++ f₂], pB] ∧
      filesA.map (fun f => f.docs.map (·.data)) =
        [[v₁], [stripParent (.map k₂)], [stripParent (.map k₃)]] ∧
      filesB.map (fun f => f.docs.map (·.data)) = filesA.map (fun f => f.docs.map (·.data))) ∧
    (∃ ρ S, RenOK ρ S ∧ mergeFileLayers fs ⟨[], cwd⟩ PState.empty pB =
      rmap (renState ρ) (mergeFileLayers fs ⟨[], cwd⟩ PState.empty pA)) ∧
    rmap (fun st => st.docs.map (·.2)) (mergeFileLayers fs ⟨[], cwd⟩ PState.empty pB) =
      rmap (fun st => st.docs.map (·.2)) (mergeFileLayers fs ⟨[], cwd⟩ PState.empty pA) ∧
    ∀ env, (mergeFileLayers fs ⟨[], cwd⟩ PState.empty pB >>= fun st =>
        outputDocuments (st.docs.map (·.2)) env) =
      (mergeFileLayers fs ⟨[], cwd⟩ PState.empty pA >>= fun st =>
        outputDocuments (st.docs.map (·.2)) env) :=
  have lenpos : ∀ {s : String}, PlainName s → 0 < s.length := fun h =>
    Nat.pos_of_ne_zero (fun h0 => h.1 (String.length_eq_zero_iff.1 h0))
  C03_directive_equiv fs d d' cwd e₁ e₂ e₃ x y z f₁ f₂ f₃ x y v₁ k₂ k₃ hd hd' h₁ h₂ h₃ a₁
    (lenpos px) px.2 (lenpos py) hz g₁ g₂ g₃ p₂ p₃
    (globName_plain cwd hd' hdir' hmeta' px wx g₁ hnd) (globName_plain cwd hd' hdir' hmeta' py wy g₂ hnd)

/-- non-vacuity: `dirFS` lists no path twice; `/v` is a directory whose name holds no glob
    metacharacter; `base`, `mid` are plain names -/
example : (dirFS.entries.map (·.1)).Nodup ∧ dirFS.lstat ["v"] = some .dir ∧
    ["v"].any hasMeta = false ∧ PlainName "base" ∧ PlainName "mid" ∧
    (∀ ch ∈ "base".toList, ch ≠ '*' ∧ ch ≠ '?' ∧ ch ≠ '/') ∧
    (∀ ch ∈ "mid".toList, ch ≠ '*' ∧ ch ≠ '?' ∧ ch ≠ '/') :=
  ⟨by decide, by decide, by decide, ⟨by decide, by decide⟩, ⟨by decide, by decide⟩, by decide,
    by decide⟩

/-- Two layers, stated on files only. -/
theorem C03_directive_equiv_2_files (fs : FS) (d d' cwd : Comps) (e₁ e₂ x y f₁ f₂ : String)
    (v₁ : Val) (k₂ : Fields)
    (hnd : (fs.entries.map (·.1)).Nodup)
    (hd : PlainDir fs d) (hd' : PlainDir fs d')
    (hdir' : fs.lstat d' = some .dir) (hmeta' : d'.any hasMeta = false)
    (h₁ : LayerFile fs d "a" e₁ (.ok [v₁]))
    (h₂ : LayerFile fs d "a.b" e₂ (.ok [stripParent (.map k₂)]))
    (a₁ : parentDirective v₁ = .ok .absent)
    (px : PlainName x) (wx : ∀ ch ∈ x.toList, ch ≠ '*' ∧ ch ≠ '?' ∧ ch ≠ '/')
    (hy : 0 < y.length)
    (g₁ : LayerFile fs d' x f₁ (.ok [v₁])) (g₂ : LayerFile fs d' y f₂ (.ok [.map k₂]))
    (p₂ : fget k₂ "$parent" = some (.str x)) :
    let pA := d ++ ["a.b" ++ "." ++ e₂]
    let pB := d' ++ [y ++ "." ++ f₂]
    (∃ filesA idsA filesB idsB,
      loadFileAndParents fs ⟨[], cwd⟩ loadFuel pA none [] [] = .ok (filesA, idsA) ∧
      loadFileAndParents fs ⟨[], cwd⟩ loadFuel pB none [] [] = .ok (filesB, idsB) ∧
      filesA.map (·.path) = [d ++ ["a" ++ "." ++ e₁], pA] ∧
      filesB.map (·.path) = [d' ++ [x ++ "." ++ f₁], pB] ∧
      filesA.map (fun f => f.docs.map (·.data)) = [[v₁], [stripParent (.map k₂)]] ∧
      filesB.map (fun f => f.docs.map (·.data)) = filesA.map (fun f => f.docs.map (·.data))) ∧
    (∃ ρ S, RenOK ρ S ∧ mergeFileLayers fs ⟨[], cwd⟩ PState.empty pB =
      rmap (renState ρ) (mergeFileLayers fs ⟨[], cwd⟩ PState.empty pA)) ∧
    rmap (fun st => st.docs.map (·.2)) (mergeFileLayers fs ⟨[], cwd⟩ PState.empty pB) =
      rmap (fun st => st.docs.map (·.2)) (mergeFileLayers fs ⟨[], cwd⟩ PState.empty pA) ∧
    ∀ env, (mergeFileLayers fs ⟨[], cwd⟩ PState.empty pB >>= fun st =>
        outputDocuments (st.docs.map (·.2)) env) =
      (mergeFileLayers fs ⟨[], cwd⟩ PState.empty pA >>= fun st =>
        outputDocuments (st.docs.map (·.2)) env) :=
  C03_directive_equiv_2 fs d d' cwd e₁ e₂ x y f₁ f₂ x v₁ k₂ hd hd' h₁ h₂ a₁
    (Nat.pos_of_ne_zero (fun h0 => px.1 (String.length_eq_zero_iff.1 h0))) px.2 hy g₁ g₂ p₂
    (globName_plain cwd hd' hdir' hmeta' px wx g₁ hnd)

/-! ## symlinks inherit from the target's name -/

/-- A symlink `d/c -> t` (relative, one component `l.e` in the same link-free directory, `e`
    supported, the target exists and is not itself a link), whose documents carry no `$parent`:
    its parents are decided by the **target's** name `l.e`; the link's own name `c` — any plain
    component, dotted or not — is not consulted.
    * target a base layer (`l` without dots): no parents, and (with a supported extension on the
      link so that it can be decoded) loading the link returns the single file `d/c` holding the
      target's documents;
    * target name dotted, `l = l₀.b`: the parent is the file found for `l₀` (an error if there
      is none), and loading the link puts that parent's files first. -/
theorem C03_symlink_uses_target_name (fs : FS) (d cwd : Comps) (c t l e : String)
    (raw : List Val) (hd : PlainDir fs d) (hlen : d.length + 3 ≤ linkFuel)
    (hc : plainComp c = true)
    (hl : fs.lstat (d ++ [c]) = some (.link t)) (ha : isAbsPath t = false)
    (hs : splitPath t = [l ++ "." ++ e]) (hll : 0 < l.length) (he : e ∈ supportedExts)
    (hl' : fs.lstat (d ++ [l ++ "." ++ e]) = some (.file (.ok raw)))
    (hraw : ∀ v ∈ raw, parentDirective v = .ok .absent) :
    fs.evalSymlinks (d ++ [c]) = some (d ++ [l ++ "." ++ e]) ∧
    fileParents fs ⟨[], cwd⟩ (d ++ [c]) raw = fromName fs ⟨[], cwd⟩ (d ++ [l ++ "." ++ e]) ∧
    ('.' ∉ l.toList →
      fileParents fs ⟨[], cwd⟩ (d ++ [c]) raw = .ok [] ∧
      (supportedExts.contains (extOf c) = true → ∀ fuel,
        loadFileAndParents fs ⟨[], cwd⟩ (fuel + 1) (d ++ [c]) none [] [] =
          .ok ([{ id := pathStr (d ++ [c]), path := d ++ [c],
                  docs := plainDocs (pathStr (d ++ [c])) [] raw }],
            docIdsOf (pathStr (d ++ [c])) raw.length))) ∧
    (∀ l₀ b, l = l₀ ++ "." ++ b → '.' ∉ b.toList →
      fileParents fs ⟨[], cwd⟩ (d ++ [c]) raw =
        (match fs.findRooted [] d l₀ with
          | some f => .ok [f]
          | none => .error .missingFile) ∧
      (supportedExts.contains (extOf c) = true → ∀ fuel f sub ids,
        fs.findRooted [] d l₀ = some f →
        loadFileAndParents fs ⟨[], cwd⟩ fuel f (some (pathStr (d ++ [c])))
          (docIdsOf (pathStr (d ++ [c])) raw.length) [d ++ [c]] = .ok (sub, ids) →
        loadFileAndParents fs ⟨[], cwd⟩ (fuel + 1) (d ++ [c]) none [] [] =
          .ok (sub ++ [{ id := pathStr (d ++ [c]), path := d ++ [c],
                         docs := plainDocs (pathStr (d ++ [c]))
                           ((sub.filter (fun g => g.id == pathStr (d ++ [c]) ++ "|" ++ pathStr f)).flatMap
                             (fun g => g.docs.map (·.id))) raw }],
            docIdsOf (pathStr (d ++ [c])) raw.length))) := by
  have hpl := plainComp_layer l e hll (supportedExt_length_pos e he)
  have hev := evalSymlinks_link hd hlen hc hl ha hs hpl hl' rfl
  have hfp := fileParents_link (docs := raw) ⟨[], cwd⟩ hd hlen hc hl ha hs hll he hl' rfl hraw
  have hload : supportedExts.contains (extOf c) = true → ∀ fid,
      loadFile fs ⟨[], cwd⟩ (d ++ [c]) fid = .ok raw :=
    fun hce fid => loadFile_link hd hlen hc hce hl ha hs hll he hl' fid
  refine ⟨hev, ?_, ?_, ?_⟩
  · rw [fileParents_no_directive fs _ _ raw hraw, hev]
  · intro hdot
    have hp : fileParents fs ⟨[], cwd⟩ (d ++ [c]) raw = .ok [] := by
      rw [hfp, splitOn_dot_plain l hdot]; rfl
    refine ⟨hp, ?_⟩
    intro hce fuel
    rw [lfp_leaf (List.contains_nil) (hload hce _) hp, mineOf_plain _ _ _ _ _ hraw]
    rfl
  · intro l₀ b hlb hb
    have hp : fileParents fs ⟨[], cwd⟩ (d ++ [c]) raw =
        (match fs.findRooted [] d l₀ with
          | some f => .ok [f]
          | none => .error .missingFile) := by
      rw [hfp, hlb, if_neg (parent_layer_snoc l₀ b hb).1, (parent_layer_snoc l₀ b hb).2]
      rfl
    refine ⟨hp, ?_⟩
    intro hce fuel f sub ids hf hq
    rw [hf] at hp
    rw [lfp_single (List.contains_nil) (hload hce _) hp hq, mineOf_plain _ _ _ _ _ hraw]
    simp only [fileIdOf, List.any_cons, List.any_nil, Bool.or_false]

/-- non-vacuity (base target): `/w/p.q.yaml -> a.yaml`.  By its own name the link would need the
    missing layer `p`; by its target's name it has no parents and loads alone. -/
example :
    PlainDir symFS ["w"] ∧ plainComp "p.q.yaml" = true ∧
    symFS.lstat (["w"] ++ ["p.q.yaml"]) = some (.link "a.yaml") ∧ isAbsPath "a.yaml" = false ∧
    splitPath "a.yaml" = ["a" ++ "." ++ "yaml"] ∧
    symFS.lstat (["w"] ++ ["a" ++ "." ++ "yaml"]) = some (.file (.ok [.map [("x", .int 1)]])) ∧
    '.' ∉ "a".toList ∧ supportedExts.contains (extOf "p.q.yaml") = true ∧
    fromName symFS ⟨[], []⟩ (["w"] ++ ["p.q.yaml"]) = .error .missingFile ∧
    loadFileAndParents symFS ⟨[], []⟩ loadFuel (["w"] ++ ["p.q.yaml"]) none [] [] =
      .ok ([{ id := "/w/p.q.yaml", path := ["w", "p.q.yaml"],
              docs := [{ id := "/w/p.q.yaml|doc0", parents := [], data := .map [("x", .int 1)] }] }],
        ["/w/p.q.yaml|doc0"]) := by
  have hsp : splitPath "a.yaml" = ["a" ++ "." ++ "yaml"] := splitPath_lit _ _ (by decide)
  have hext : supportedExts.contains (extOf "p.q.yaml") = true := by rw [extOf_eq]; decide
  have hown : fromName symFS ⟨[], []⟩ (["w"] ++ ["p.q.yaml"]) = .error .missingFile := by
    have e : (["w"] ++ ["p.q.yaml"] : Comps) = ["w"] ++ ["p.q" ++ "." ++ "yaml"] := by decide
    rw [e, fromName_snoc symFS ⟨[], []⟩ ["w"] "p.q" "yaml" (by decide)]
    have h1 : "p.q".splitOn "." = ["p", "q"] := by rw [splitOn_dot]; decide
    rw [h1, if_neg (by decide)]
    have h2 : ".".intercalate (["p", "q"] : List String).dropLast = "p" := by decide
    rw [h2, findRooted_none_of_missing symFS_plain (by decide) (by
      intro e he
      simp only [supportedExts, List.mem_cons, List.not_mem_nil, or_false] at he
      rcases he with rfl | rfl | rfl | rfl | rfl | rfl <;> decide)]
  refine ⟨symFS_plain, by decide, by decide, by simp [isAbsPath], hsp, by decide, by decide, hext,
    hown, ?_⟩
  have h := (C03_symlink_uses_target_name symFS ["w"] [] "p.q.yaml" "a.yaml" "a" "yaml"
    [.map [("x", .int 1)]] symFS_plain (by simp [linkFuel]) (by decide) (by decide)
    (by simp [isAbsPath]) hsp (by decide) (by decide) (by decide)
    (by intro v hv; have : v = _ := List.mem_singleton.1 hv
        subst this; rfl)).2.2.1 (by decide)
  rw [show loadFuel = 63 + 1 from rfl, h.2 hext 63]
  rfl

/-- non-vacuity (dotted target): `/w/x.y.z.yaml -> a.b.json` inherits the parent `a` of its
    target's name `a.b`; its own name (`x.y`) is not consulted. -/
example :
    symFS.lstat (["w"] ++ ["x.y.z.yaml"]) = some (.link "a.b.json") ∧
    splitPath "a.b.json" = ["a.b" ++ "." ++ "json"] ∧ "a.b" = "a" ++ "." ++ "b" ∧
    symFS.findRooted [] ["w"] "a" = some (["w"] ++ ["a" ++ "." ++ "yaml"]) ∧
    fileParents symFS ⟨[], []⟩ (["w"] ++ ["x.y.z.yaml"]) [.map [("y", .int 2)]] = .ok [["w", "a.yaml"]] ∧
    loadFileAndParents symFS ⟨[], []⟩ loadFuel (["w"] ++ ["x.y.z.yaml"]) none [] [] =
      .ok ([{ id := "/w/x.y.z.yaml|/w/a.yaml", path := ["w", "a.yaml"],
              docs := [{ id := "/w/x.y.z.yaml|/w/a.yaml|doc0", parents := [],
                         data := .map [("x", .int 1)] }] },
            { id := "/w/x.y.z.yaml", path := ["w", "x.y.z.yaml"],
              docs := [{ id := "/w/x.y.z.yaml|doc0", parents := ["/w/x.y.z.yaml|/w/a.yaml|doc0"],
                         data := .map [("y", .int 2)] }] }],
        ["/w/x.y.z.yaml|doc0"]) := by
  have hsp : splitPath "a.b.json" = ["a.b" ++ "." ++ "json"] := splitPath_lit _ _ (by decide)
  have hext : supportedExts.contains (extOf "x.y.z.yaml") = true := by rw [extOf_eq]; decide
  have hfind : symFS.findRooted [] ["w"] "a" = some (["w"] ++ ["a" ++ "." ++ "yaml"]) :=
    findRooted_layerFile symFS_plain (by decide) symFS_a
  have h := (C03_symlink_uses_target_name symFS ["w"] [] "x.y.z.yaml" "a.b.json" "a.b" "json"
    [.map [("y", .int 2)]] symFS_plain (by simp [linkFuel]) (by decide) (by decide)
    (by simp [isAbsPath]) hsp (by decide) (by decide) (by decide)
    (by intro v hv; have : v = _ := List.mem_singleton.1 hv
        subst this; rfl)).2.2.2 "a" "b" (by decide) (by decide)
  refine ⟨by decide, hsp, by decide, hfind, ?_, ?_⟩
  · rw [h.1, hfind]; rfl
  · have hq := chain1 (cwd := []) symFS_plain symFS_a rfl 62
      (some (pathStr (["w"] ++ ["x.y.z.yaml"])))
      (docIdsOf (pathStr (["w"] ++ ["x.y.z.yaml"])) [Val.map [("y", .int 2)]].length)
      [["w"] ++ ["x.y.z.yaml"]] (by decide)
    rw [show loadFuel = 63 + 1 from rfl, h.2 hext 63 _ _ _ hfind hq]
    rfl

/-! ## the symbolic-link budget of `os.Root`

  `os.Root` follows at most `rootMaxSymlinks = 8` symbolic links in one operation; the ninth is
  `ELOOP`.  The rooted walk counts the links it has followed (`links`; every `rootOpen`,
  `rootOpenDir`, `rootExists`, `rootReadDir` starts at 0).  Helper definitions
  (`BklProofs/Lemmas/C03Links.lean`): `c03l_Name t` — `t` is a plain single-component name
  (`plainComp t`, `isAbsPath t = false`, `splitPath t = [t]`); `c03l_LinkChain fs d l k` — the
  names `l 0, …, l k` are such names and, in the directory `d`, `l (i+1)` is a symbolic link to
  `l i` for every `i < k` (the chain `l k → l (k-1) → … → l 1 → l 0`). -/

/-- A chain of `k` file links ending at an entry that is not a link is followed to its end as
    long as the budget allows: a walk that has already followed `links` links, with
    `links + k ≤ rootMaxSymlinks`, opens `l k` as `d/l 0` (fuel `k + 2` is enough).  From
    `links = 0` (every operation of the parser) this is any chain of at most 8 links. -/
theorem C03_symlink_limit_ok (fs : FS) (root d : Comps) (l : Nat → String) (k : Nat) (n : FNode)
    (hch : c03l_LinkChain fs d l k) (hl : fs.lstat (d ++ [l 0]) = some n)
    (hn : n.isLink = false) (fuel links : Nat) (hb : links + k ≤ rootMaxSymlinks) :
    fs.rootWalk root (fuel + k + 2) links d [l k] = .ok (d ++ [l 0]) :=
  c03l_walk_ok hch hl hn fuel links hb

/-- non-vacuity: `/r/l8 → l7 → … → l1 → f.yaml`, eight links from `links = 0` -/
example : c03l_LinkChain c03l_fs ["r"] c03l_names 8 ∧
    c03l_fs.lstat (["r"] ++ [c03l_names 0]) = some (.file (.ok [.map [("x", .int 1)]])) ∧
    (FNode.file (.ok [.map [("x", .int 1)]])).isLink = false ∧ 0 + 8 ≤ rootMaxSymlinks ∧
    c03l_fs.rootWalk ["r"] (0 + 8 + 2) 0 ["r"] ["l8"] = .ok ["r", "f.yaml"] :=
  ⟨c03l_chain_le (by decide), c03l_end, rfl, by decide,
    C03_symlink_limit_ok c03l_fs ["r"] ["r"] c03l_names 8 _ (c03l_chain_le (by decide)) c03l_end rfl
      0 0 (by decide)⟩

/-- Once `rootMaxSymlinks` links have been followed, stepping onto one more symbolic link is
    refused (whatever its target). -/
theorem C03_symlink_limit_exceeded (fs : FS) (root cur : Comps) (fuel : Nat) (c t : String)
    (rest : List String) (hc : plainComp c = true)
    (hl : fs.lstat (cur ++ [c]) = some (.link t)) :
    fs.rootWalk root (fuel + 1) rootMaxSymlinks cur (c :: rest) = .error .other :=
  rootWalk_step_link_limit hc hl (Nat.le_refl _)

example : plainComp "l1" = true ∧ c03l_fs.lstat (["r"] ++ ["l1"]) = some (.link "f.yaml") :=
  ⟨by decide, by decide⟩

/-- Hence a chain of `k + 1` links that does not fit in what is left of the budget
    (`rootMaxSymlinks < links + (k + 1)`) is refused, whatever the fuel and whatever follows:
    from `links = 0`, any chain of 9 or more links. -/
theorem C03_symlink_limit_exceeded_chain (fs : FS) (root d : Comps) (l : Nat → String) (k : Nat)
    (hch : c03l_LinkChain fs d l (k + 1)) (fuel links : Nat) (rest : List String)
    (hb : rootMaxSymlinks < links + (k + 1)) :
    fs.rootWalk root fuel links d (l (k + 1) :: rest) = .error .other :=
  c03l_walk_refused k hch fuel links rest hb

/-- non-vacuity: `/r/l9 → l8 → … → l1 → f.yaml`, nine links from `links = 0`, fails … -/
example : c03l_LinkChain c03l_fs ["r"] c03l_names (8 + 1) ∧ rootMaxSymlinks < 0 + (8 + 1) ∧
    c03l_fs.rootWalk ["r"] linkFuel 0 ["r"] ["l9"] = .error .other :=
  ⟨c03l_chain9, by decide,
    C03_symlink_limit_exceeded_chain c03l_fs ["r"] ["r"] c03l_names 8 c03l_chain9 _ 0 [] (by decide)⟩

/-- … although the unrooted `EvalSymlinks` (255 links in Go, `linkFuel` steps here) resolves it -/
example : c03l_fs.resolve 12 [] ["r", "l9"] = some ["r", "f.yaml"] := by
  have hs : ∀ i, i ≤ 9 → splitPath (c03l_names i) = [c03l_names i] :=
    fun i hi => (c03l_names_name i hi).2.2
  have ha : ∀ i, i ≤ 9 → isAbsPath (c03l_names i) = false :=
    fun i hi => (c03l_names_name i hi).2.1
  have step : ∀ i, i < 9 → ∀ fuel, c03l_fs.resolve (fuel + 1) ["r"] [c03l_names (i + 1)] =
      c03l_fs.resolve fuel ["r"] [c03l_names i] := by
    intro i hi fuel
    have hp := ((plainComp_iff _).1 (c03l_names_name (i + 1) (by omega)).1)
    rw [resolve_succ_cons, c03l_names_link i hi]
    simp [hp.1, hp.2.1, hp.2.2, ha i (by omega), hs i (by omega)]
  rw [resolve_step_plain (n := .dir) (by decide) (by decide) rfl]
  show c03l_fs.resolve (10 + 1) ["r"] [c03l_names (8 + 1)] = _
  rw [step 8 (by decide), step 7 (by decide), step 6 (by decide), step 5 (by decide),
    step 4 (by decide), step 3 (by decide), step 2 (by decide), step 1 (by decide),
    step 0 (by decide)]
  decide

/-- At the level of `p.root.Open`: the file at the end of a chain of `k` links beneath the root
    directory itself is read exactly when `k ≤ rootMaxSymlinks`. -/
theorem C03_symlink_limit_open (fs : FS) (root : Comps) (l : Nat → String) (k : Nat)
    (docs : R (List Val)) (hch : c03l_LinkChain fs root l k)
    (hl : fs.lstat (root ++ [l 0]) = some (.file docs)) :
    (k ≤ rootMaxSymlinks → fs.rootOpen root [l k] = docs) ∧
    (rootMaxSymlinks < k → fs.rootOpen root [l k] = .error .other) := by
  constructor
  · intro hk
    have hk' : k ≤ 8 := hk
    rw [rootOpen_eq, show linkFuel = (4094 - k) + k + 2 by simp only [linkFuel]; omega,
      c03l_walk_ok hch hl rfl (4094 - k) 0 (by omega)]
    simp only [hl]
  · intro hk
    obtain ⟨j, rfl⟩ : ∃ j, k = j + 1 := ⟨k - 1, by omega⟩
    rw [rootOpen_eq, c03l_walk_refused j hch linkFuel 0 [] (by omega)]

/-- non-vacuity: eight links are read, nine are not -/
example : c03l_fs.rootOpen ["r"] ["l8"] = .ok [.map [("x", .int 1)]] ∧
    c03l_fs.rootOpen ["r"] ["l9"] = .error .other :=
  ⟨(C03_symlink_limit_open c03l_fs ["r"] c03l_names 8 _ (c03l_chain_le (by decide)) c03l_end).1
      (by decide),
    (C03_symlink_limit_open c03l_fs ["r"] c03l_names 9 _ c03l_chain9 c03l_end).2 (by decide)⟩

/-! ## a `$parent` list: depth first, left to right, whatever the depth of each entry's own chain -/

/-- the loop over the parents appends each entry's own resolved layers in the order of the entries -/
theorem c03_loadSubs_flat (fs : FS) (cfg : RootCfg) (fuel : Nat) (fid : String) (docIds : List String)
    (chain : List Comps) (sub : Comps → List LFile) :
    ∀ (ps : List Comps) (acc : List LFile),
      (∀ p ∈ ps, ∃ ids, loadFileAndParents fs cfg fuel p (some fid) docIds chain = .ok (sub p, ids)) →
      loadSubs fs cfg fuel fid docIds chain ps acc = .ok (acc ++ ps.flatMap sub) := by
  intro ps
  induction ps with
  | nil => intro acc _; simp [loadSubs]
  | cons p ps ih =>
    intro acc h
    obtain ⟨ids, hp⟩ := h p (List.mem_cons_self ..)
    rw [loadSubs, hp]
    simp only []
    rw [ih (acc ++ sub p) (fun q hq => h q (List.mem_cons_of_mem _ hq))]
    simp [List.flatMap_cons, List.append_assoc]

/-- A file whose `$parent` names the entries `parents` (a list, several documents, a wildcard - whatever `fileParents`
    resolved) is loaded as: the resolved layers of the first entry, then those of the second, ..., then the file itself.
    Each entry is preceded by ITS OWN bases and nothing else decides the order - in particular not how deep an entry's
    own chain is (`sub p` may have any length). -/
theorem C03_parent_list_depth_first (fs : FS) (cfg : RootCfg) (fuel : Nat) (path : Comps)
    (childId : Option String) (c : List String) (chain : List Comps) (raw : List Val) (parents : List Comps)
    (sub : Comps → List LFile)
    (hch : chain.contains path = false)
    (hload : loadFile fs cfg path (fileIdOf childId path) = .ok raw)
    (hpar : fileParents fs cfg path raw = .ok parents)
    (hsub : ∀ p ∈ parents, ∃ ids, loadFileAndParents fs cfg fuel p (some (fileIdOf childId path))
        (docIdsOf (fileIdOf childId path) raw.length) (path :: chain) = .ok (sub p, ids)) :
    loadFileAndParents fs cfg (fuel + 1) path childId c chain =
      .ok (parents.flatMap sub ++ [mineOf (fileIdOf childId path) path raw parents (parents.flatMap sub)],
        docIdsOf (fileIdOf childId path) raw.length) := by
  rw [loadFileAndParents_succ]
  simp only [hch, Bool.false_eq_true, if_false, hload, hpar]
  rw [c03_loadSubs_flat fs cfg fuel _ _ _ sub parents [] hsub]
  simp

/-- two entries: `$parent: [p, q]` resolves to (layers of `p`) ++ (layers of `q`) ++ [the file], also when `q`'s chain is
    longer than `p`'s -/
theorem C03_parent_pair_order (fs : FS) (cfg : RootCfg) (fuel : Nat) (path p q : Comps)
    (childId : Option String) (c : List String) (chain : List Comps) (raw : List Val)
    (Fp Fq : List LFile) (ip iq : List String) (hpq : p ≠ q)
    (hch : chain.contains path = false)
    (hload : loadFile fs cfg path (fileIdOf childId path) = .ok raw)
    (hpar : fileParents fs cfg path raw = .ok [p, q])
    (hp : loadFileAndParents fs cfg fuel p (some (fileIdOf childId path))
        (docIdsOf (fileIdOf childId path) raw.length) (path :: chain) = .ok (Fp, ip))
    (hq : loadFileAndParents fs cfg fuel q (some (fileIdOf childId path))
        (docIdsOf (fileIdOf childId path) raw.length) (path :: chain) = .ok (Fq, iq)) :
    ∃ mine, mine.path = path ∧
      loadFileAndParents fs cfg (fuel + 1) path childId c chain =
        .ok (Fp ++ Fq ++ [mine], docIdsOf (fileIdOf childId path) raw.length) := by
  have hsub : ∀ x ∈ [p, q], ∃ ids, loadFileAndParents fs cfg fuel x (some (fileIdOf childId path))
      (docIdsOf (fileIdOf childId path) raw.length) (path :: chain) =
        .ok ((fun x => if x = p then Fp else Fq) x, ids) := by
    intro x hx
    simp only [List.mem_cons, List.not_mem_nil, or_false] at hx
    rcases hx with rfl | rfl
    · exact ⟨ip, by simpa using hp⟩
    · exact ⟨iq, by simp only [Ne.symm hpq, if_false]; exact hq⟩
  have h := C03_parent_list_depth_first fs cfg fuel path childId c chain raw [p, q]
    (fun x => if x = p then Fp else Fq) hch hload hpar hsub
  refine ⟨mineOf (fileIdOf childId path) path raw [p, q] (Fp ++ Fq), rfl, ?_⟩
  rw [h]
  simp [List.flatMap_cons, Ne.symm hpq]


/-- a concrete tree for the statement above: `top.yaml` with `$parent: [y, x.one]`, where the SECOND entry has the longer chain -/
def c03_plFS : FS := ⟨[(["y.yaml"], .file (.ok [.map [("y", .int 1)]])), (["x.yaml"], .file (.ok [.map [("x", .int 1)]])),
  (["x.one.yaml"], .file (.ok [.map [("one", .int 1)]])),
  (["top.yaml"], .file (.ok [.map [("$parent", .list [.str "y", .str "x.one"]), ("t", .int 1)]]))]⟩

/- a TEST, evaluated by the compiler (not a kernel proof; `decide` does not reduce the string functions): on this tree the
   hypotheses of `C03_parent_pair_order` hold with `Fp = [y]`, `Fq = [x, x.one]`, and the resolved order is y, x, x.one, top -/
#guard (loadFileAndParents c03_plFS ⟨[], []⟩ loadFuel ["top.yaml"] none [] []).toOption.map (fun r => r.1.map (·.path))
    == some [["y.yaml"], ["x.yaml"], ["x.one.yaml"], ["top.yaml"]]
#guard (fileParents c03_plFS ⟨[], []⟩ ["top.yaml"] [.map [("$parent", .list [.str "y", .str "x.one"]), ("t", .int 1)]]).toOption
    == some [["y.yaml"], ["x.one.yaml"]]


end Bkl
