/-
  C03 — "The inheritance chain is resolved from filenames and `$parent`, base first".

  Model: `Bkl/Files.lean` (`fileParents`, `loadFileAndParents`, `mergeFiles`, `cliRun`).
  Helper definitions used in the statements (all in `BklProofs/Lemmas/Files.lean`):
  `PlainDir fs d` (an existing directory reached without symlinks), `LayerFile fs d layer e c`
  (layer `layer` is provided by exactly the file `layer.e` of `d`, with content `c`),
  `globName fs path n` (the files one `$parent` name stands for), `cliMerge` / `cliStep`
  (the input loop of cmd/bkl), `aloneDocs` (what `-P` merges).
-/
import BklProofs.Lemmas.Files
import BklProofs.Lemmas.FilesRename
namespace Bkl

/-! ## the filename rule -/

/-- Without a `$parent` directive and without symlinks the parents of `p` come from its base
    name split on ".": fewer than two parts is an error, two parts (`a.yaml`) mean no parent,
    otherwise the parent is the file found for the layer "base name minus its last two parts";
    a layer that no file provides is an error (never silently skipped). -/
theorem C03_filename_parent (fs : FS) (p : Comps) (docs : List Val)
    (hdocs : ∀ d ∈ docs, parentDirective d = .ok .absent)
    (hlink : fs.evalSymlinks p = some p) :
    let parts := (baseOf p).splitOn "."
    let layer := ".".intercalate (parts.take (parts.length - 2))
    (parts.length < 2 → fileParents fs p docs = .error .invalidFilename) ∧
    (parts.length = 2 → fileParents fs p docs = .ok []) ∧
    (3 ≤ parts.length →
      (∀ f, fs.findFile (dirOf p) layer = some f → fileParents fs p docs = .ok [f]) ∧
      (fs.findFile (dirOf p) layer = none → fileParents fs p docs = .error .missingFile)) := by
  intro parts layer
  rw [fileParents_no_directive fs p docs hdocs, hlink]
  simp only [fromName]
  refine ⟨?_, ?_, ?_⟩
  · intro h
    rw [if_pos h]
  · intro h
    have h1 : ¬ parts.length < 2 := by omega
    rw [if_neg h1]
    simp [parts, h]
  · intro h
    have h1 : ¬ parts.length < 2 := by omega
    have h2 : (parts.length == 2) = false := by
      simp only [beq_eq_false_iff_ne]; omega
    rw [if_neg h1]
    simp only [parts] at h2
    simp only [h2, Bool.false_eq_true, if_false]
    refine ⟨?_, ?_⟩
    · intro f hf
      simp only [layer, parts] at hf
      rw [hf]
    · intro hf
      simp only [layer, parts] at hf
      rw [hf]

/-- non-vacuity: `/w/a.b.json` in the sample file system -/
example : (∀ d ∈ [Val.map [("y", .int 2)]], parentDirective d = .ok .absent) ∧
    chainFS.evalSymlinks ["w", "a.b.json"] = some ["w", "a.b.json"] := by
  refine ⟨?_, evalSymlinks_layerFile chainFS_plain (by decide) chainFS_ab⟩
  intro d hd
  have : d = Val.map [("y", .int 2)] := by simpa using hd
  subst this; rfl

/-- What a candidate returned by `findFile` is: `layer.e` for a supported `e`, existing. -/
theorem C03_findFile_spec (fs : FS) (dir : Comps) (layer : String) (f : Comps)
    (h : fs.findFile dir layer = some f) :
    ∃ e, e ∈ supportedExts ∧ f = dir ++ [layer ++ "." ++ e] ∧ fs.exists f = true :=
  findFile_some fs dir layer f h

example : chainFS.findFile ["w"] "a.b" = some ["w", "a.b.json"] :=
  findFile_layerFile chainFS_plain (by decide) chainFS_ab

/-- Concrete names: `a.b.c.yaml → a.b`, `a.b.yaml → a`, `a.yaml` has two parts (no parent),
    `Makefile` has one (invalid). -/
theorem C03_filename_layers :
    (let parts := "a.b.c.yaml".splitOn "."
     ".".intercalate (parts.take (parts.length - 2)) = "a.b") ∧
    (let parts := "a.b.yaml".splitOn "."
     ".".intercalate (parts.take (parts.length - 2)) = "a") ∧
    ("a.yaml".splitOn ".").length = 2 ∧ ("Makefile".splitOn ".").length = 1 := by
  simp only [splitOn_dot]
  decide

/-- The same for any supported extension `e` (symbolic): the parents of `d/a.b.c.e`, `d/a.b.e`
    and `d/a.e`, given by the file found for the layer. -/
theorem C03_filename_parent_ext (fs : FS) (d : Comps) (e : String) (he : e ∈ supportedExts) :
    fromName fs (d ++ ["a.b.c" ++ "." ++ e]) =
      (match fs.findFile d "a.b" with | some f => .ok [f] | none => .error .missingFile) ∧
    fromName fs (d ++ ["a.b" ++ "." ++ e]) =
      (match fs.findFile d "a" with | some f => .ok [f] | none => .error .missingFile) ∧
    fromName fs (d ++ ["a" ++ "." ++ e]) = .ok [] := by
  have hd := supportedExt_noDot e he
  refine ⟨?_, ?_, ?_⟩
  · rw [fromName_snoc fs d _ e hd, parts_abc]
    have : ".".intercalate (["a", "b", "c"] : List String).dropLast = "a.b" := by decide
    rw [this]; rfl
  · rw [fromName_snoc fs d _ e hd, parts_ab]
    have : ".".intercalate (["a", "b"] : List String).dropLast = "a" := by decide
    rw [this]; rfl
  · rw [fromName_snoc fs d _ e hd, parts_a]; rfl

example : "toml" ∈ supportedExts := by decide

/-- a missing layer is an error: `/w/orphan.x.yaml` has no `orphan.*` -/
example : fileParents chainFS ["w", "orphan.x.yaml"] [.map []] = .error .missingFile := by
  have hl : chainFS.evalSymlinks (["w"] ++ ["orphan.x.yaml"]) = some (["w"] ++ ["orphan.x.yaml"]) :=
    evalSymlinks_file (n := .file (.ok [.map []])) chainFS_plain (by decide) (by decide) rfl
  have hn : chainFS.findFile ["w"] "orphan" = none :=
    findFile_none_of_missing chainFS_plain (by decide) (by
      intro e he
      simp only [supportedExts, List.mem_cons, List.not_mem_nil, or_false] at he
      rcases he with rfl | rfl | rfl | rfl | rfl | rfl <;> decide)
  have h3 := C03_filename_parent chainFS ["w", "orphan.x.yaml"] [.map []]
    (by intro d hd; have : d = Val.map [] := by simpa using hd
        subst this; rfl) hl
  simp only [] at h3
  have hparts : (baseOf ["w", "orphan.x.yaml"]).splitOn "." = ["orphan", "x", "yaml"] := by
    rw [splitOn_dot]; decide
  rw [hparts] at h3
  exact (h3.2.2 (by decide)).2 hn

/-! ## base first -/

/-- Depth 3, symbolic extensions and documents: if the layers `a`, `a.b`, `a.b.c` of a
    link-free directory `d` are provided by exactly one file each (`a.e₁`, `a.b.e₂`, `a.b.c.e₃`,
    any supported extensions), each holding one document without `$parent`, then loading
    `d/a.b.c.e₃` (no root restriction) returns the three files **base first**
    `[a.e₁, a.b.e₂, a.b.c.e₃]`, each document pointing at the document of the next lower layer. -/
theorem C03_chain_order (fs : FS) (d cwd : Comps) (e₁ e₂ e₃ : String) (v₁ v₂ v₃ : Val)
    (hd : PlainDir fs d)
    (h₁ : LayerFile fs d "a" e₁ (.ok [v₁])) (h₂ : LayerFile fs d "a.b" e₂ (.ok [v₂]))
    (h₃ : LayerFile fs d "a.b.c" e₃ (.ok [v₃]))
    (a₁ : parentDirective v₁ = .ok .absent) (a₂ : parentDirective v₂ = .ok .absent)
    (a₃ : parentDirective v₃ = .ok .absent) :
    let p₁ := d ++ ["a" ++ "." ++ e₁]
    let p₂ := d ++ ["a.b" ++ "." ++ e₂]
    let p₃ := d ++ ["a.b.c" ++ "." ++ e₃]
    let id₃ := pathStr p₃
    let id₂ := id₃ ++ "|" ++ pathStr p₂
    let id₁ := id₂ ++ "|" ++ pathStr p₁
    loadFileAndParents fs ⟨[], cwd⟩ loadFuel p₃ none [] [] =
      .ok ([{ id := id₁, path := p₁, docs := [oneDoc id₁ [] v₁] },
            { id := id₂, path := p₂, docs := [oneDoc id₂ [id₁ ++ "|doc" ++ toString 0] v₂] },
            { id := id₃, path := p₃, docs := [oneDoc id₃ [id₂ ++ "|doc" ++ toString 0] v₃] }],
           [id₃ ++ "|doc" ++ toString 0]) :=
  chain3 hd h₁ h₂ h₃ a₁ a₂ a₃ 61 none [] [] rfl rfl rfl

/-- Depth 2. -/
theorem C03_chain_order_2 (fs : FS) (d cwd : Comps) (e₁ e₂ : String) (v₁ v₂ : Val)
    (hd : PlainDir fs d)
    (h₁ : LayerFile fs d "a" e₁ (.ok [v₁])) (h₂ : LayerFile fs d "a.b" e₂ (.ok [v₂]))
    (a₁ : parentDirective v₁ = .ok .absent) (a₂ : parentDirective v₂ = .ok .absent) :
    let p₁ := d ++ ["a" ++ "." ++ e₁]
    let p₂ := d ++ ["a.b" ++ "." ++ e₂]
    let id₂ := pathStr p₂
    let id₁ := id₂ ++ "|" ++ pathStr p₁
    loadFileAndParents fs ⟨[], cwd⟩ loadFuel p₂ none [] [] =
      .ok ([{ id := id₁, path := p₁, docs := [oneDoc id₁ [] v₁] },
            { id := id₂, path := p₂, docs := [oneDoc id₂ [id₁ ++ "|doc" ++ toString 0] v₂] }],
           [id₂ ++ "|doc" ++ toString 0]) :=
  chain2 hd h₁ h₂ a₁ a₂ 62 none [] [] rfl rfl

/-- Hence the merge order: layering `d/a.b.c.e₃` onto a parser state merges the three documents
    base first. -/
theorem C03_chain_merge (fs : FS) (d cwd : Comps) (e₁ e₂ e₃ : String) (v₁ v₂ v₃ : Val)
    (hd : PlainDir fs d)
    (h₁ : LayerFile fs d "a" e₁ (.ok [v₁])) (h₂ : LayerFile fs d "a.b" e₂ (.ok [v₂]))
    (h₃ : LayerFile fs d "a.b.c" e₃ (.ok [v₃]))
    (a₁ : parentDirective v₁ = .ok .absent) (a₂ : parentDirective v₂ = .ok .absent)
    (a₃ : parentDirective v₃ = .ok .absent) (st : PState) :
    let p₁ := d ++ ["a" ++ "." ++ e₁]
    let p₂ := d ++ ["a.b" ++ "." ++ e₂]
    let p₃ := d ++ ["a.b.c" ++ "." ++ e₃]
    let id₃ := pathStr p₃
    let id₂ := id₃ ++ "|" ++ pathStr p₂
    let id₁ := id₂ ++ "|" ++ pathStr p₁
    mergeFileLayers fs ⟨[], cwd⟩ st p₃ =
      runMerges st [oneDoc id₁ [] v₁, oneDoc id₂ [id₁ ++ "|doc" ++ toString 0] v₂,
        oneDoc id₃ [id₂ ++ "|doc" ++ toString 0] v₃] := by
  intro p₁ p₂ p₃ id₃ id₂ id₁
  rw [mergeFileLayers_eq, C03_chain_order fs d cwd e₁ e₂ e₃ v₁ v₂ v₃ hd h₁ h₂ h₃ a₁ a₂ a₃]
  simp only []
  rw [mergeFiles_eq]
  rfl

/-- Corollary: the order of the loaded paths. -/
theorem C03_chain_paths (fs : FS) (d cwd : Comps) (e₁ e₂ e₃ : String) (v₁ v₂ v₃ : Val)
    (hd : PlainDir fs d)
    (h₁ : LayerFile fs d "a" e₁ (.ok [v₁])) (h₂ : LayerFile fs d "a.b" e₂ (.ok [v₂]))
    (h₃ : LayerFile fs d "a.b.c" e₃ (.ok [v₃]))
    (a₁ : parentDirective v₁ = .ok .absent) (a₂ : parentDirective v₂ = .ok .absent)
    (a₃ : parentDirective v₃ = .ok .absent) :
    ∃ files ids, loadFileAndParents fs ⟨[], cwd⟩ loadFuel (d ++ ["a.b.c" ++ "." ++ e₃]) none [] [] =
        .ok (files, ids) ∧
      files.map (·.path) = [d ++ ["a" ++ "." ++ e₁], d ++ ["a.b" ++ "." ++ e₂], d ++ ["a.b.c" ++ "." ++ e₃]] ∧
      files.map (fun f => f.docs.map (·.data)) = [[v₁], [v₂], [v₃]] :=
  ⟨_, _, C03_chain_order fs d cwd e₁ e₂ e₃ v₁ v₂ v₃ hd h₁ h₂ h₃ a₁ a₂ a₃, rfl, rfl⟩

/-- non-vacuity: /w/a.yaml, /w/a.b.json, /w/a.b.c.toml (mixed formats) -/
example : PlainDir chainFS ["w"] ∧
    LayerFile chainFS ["w"] "a" "yaml" (.ok [.map [("x", .int 1)]]) ∧
    LayerFile chainFS ["w"] "a.b" "json" (.ok [.map [("y", .int 2)]]) ∧
    LayerFile chainFS ["w"] "a.b.c" "toml" (.ok [.map [("z", .int 3)]]) ∧
    parentDirective (.map [("x", .int 1)]) = .ok .absent ∧
    parentDirective (.map [("y", .int 2)]) = .ok .absent ∧
    parentDirective (.map [("z", .int 3)]) = .ok .absent :=
  ⟨chainFS_plain, chainFS_a, chainFS_ab, chainFS_abc, rfl, rfl, rfl⟩

/-! ## `$parent` has priority -/

/-- If the documents carry `$parent` names (and no `$parent: false/null`), the parents are the
    glob matches of those names, relative to the file's directory, in order; a name matching
    nothing is an error.  Neither `evalSymlinks path` nor `findFile` occurs on the right-hand
    side: the symlink and filename rules are not consulted. -/
theorem C03_priority (fs : FS) (path : Comps) (docs : List Val) (dirs : List ParentDir)
    (hd : docs.mapM parentDirective = .ok dirs) (hnp : hasNoParent dirs = false)
    (hn : parentNames dirs ≠ []) :
    fileParents fs path docs =
      if (parentNames dirs).any (fun n => (globName fs path n).isEmpty) then .error .missingFile
      else .ok ((parentNames dirs).flatMap (globName fs path)) := by
  rw [fileParents_eq, hd]
  have : (parentNames dirs).isEmpty = false := by
    cases h : parentNames dirs with
    | nil => exact absurd h hn
    | cons a l => rfl
  simp only [hnp, this, Bool.false_eq_true, if_false, Bool.not_false, if_true]
  rw [globStep_foldlM]
  rfl

/-- One document with `$parent: "x"`: the glob of `x` next to the file. -/
theorem C03_priority_str (fs : FS) (path : Comps) (kvs : Fields) (x : String)
    (h : fget kvs "$parent" = some (.str x)) :
    fileParents fs path [.map kvs] =
      let target := cleanComps (dirOf path ++ splitPath x)
      let ms := fs.globFiles (dirOf target) (baseOf target)
      if ms.isEmpty then .error .missingFile else .ok ms := by
  have hd : [Val.map kvs].mapM parentDirective = .ok [.names [x]] := by
    rw [mapM_R_cons, mapM_R_nil, parentDirective_map, h]
  rw [C03_priority fs path _ _ hd rfl (by simp [parentNames])]
  simp [parentNames, globName]

example : fget [("$parent", Val.str "a")] "$parent" = some (.str "a") := by decide

/-- non-vacuity of the general form -/
example : [Val.map [("$parent", .str "a")], .map [("x", .int 1)]].mapM parentDirective =
      .ok [.names ["a"], .absent] ∧
    hasNoParent [.names ["a"], .absent] = false ∧ parentNames [.names ["a"], .absent] ≠ [] := by
  refine ⟨?_, rfl, by simp [parentNames]⟩
  rw [mapM_R_cons, mapM_R_cons, mapM_R_nil]; rfl

/-- the self-parent file: `$parent: a` in `/a.yaml` resolves to `/a.yaml` itself -/
example : fileParents selfFS ["a.yaml"] [.map [("$parent", .str "a")]] = .ok [["a.yaml"]] :=
  selfFS_parents

/-! ## stopping the chain -/

/-- `$parent: false` / `$parent: null` are "no parent"; `$parent: true` is invalid. -/
theorem C03_stop_directive (kvs : Fields) :
    (fget kvs "$parent" = some (.bool false) → parentDirective (.map kvs) = .ok .noParent) ∧
    (fget kvs "$parent" = some .null → parentDirective (.map kvs) = .ok .noParent) ∧
    (fget kvs "$parent" = some (.bool true) → parentDirective (.map kvs) = .error .invalidParent) := by
  refine ⟨?_, ?_, ?_⟩ <;> intro h <;> rw [parentDirective_map, h] <;> rfl

/-- With a "no parent" directive (and no name directive) the file has no parents, whatever its
    name or symlink says; together with a name directive it is a conflict; an invalid directive
    anywhere is `invalidParent`. -/
theorem C03_stop (fs : FS) (path : Comps) (docs : List Val) :
    (∀ dirs, docs.mapM parentDirective = .ok dirs → hasNoParent dirs = true →
      parentNames dirs = [] → fileParents fs path docs = .ok []) ∧
    (∀ dirs, docs.mapM parentDirective = .ok dirs → hasNoParent dirs = true →
      parentNames dirs ≠ [] → fileParents fs path docs = .error .conflictingParent) ∧
    (∀ d e, d ∈ docs → parentDirective d = .error e →
      fileParents fs path docs = .error .invalidParent) := by
  refine ⟨?_, ?_, ?_⟩
  · intro dirs hd hnp hn
    rw [fileParents_eq, hd]
    simp [hnp, hn]
  · intro dirs hd hnp hn
    rw [fileParents_eq, hd]
    have : (parentNames dirs).isEmpty = false := by
      cases h : parentNames dirs with
      | nil => exact absurd h hn
      | cons a l => rfl
    simp [hnp, this]
  · intro d e hmem he
    obtain ⟨e', he'⟩ := mapM_R_error_of_mem parentDirective docs hmem he
    have : e' = .invalidParent := by
      obtain ⟨l1, a, l2, _, _, ha⟩ := (mapM_R_error_iff _ _ _).1 he'
      exact parentDirective_error a e' ha
    subst this
    rw [fileParents_eq, he']

example : [Val.map [("$parent", .bool false)]].mapM parentDirective = .ok [.noParent] ∧
    hasNoParent [.noParent] = true ∧ parentNames [.noParent] = [] := by
  refine ⟨?_, rfl, rfl⟩
  rw [mapM_R_cons, mapM_R_nil]; rfl

example : [Val.map [("$parent", .bool false)], .map [("$parent", .str "a")]].mapM parentDirective =
      .ok [.noParent, .names ["a"]] ∧
    hasNoParent [.noParent, .names ["a"]] = true ∧ parentNames [.noParent, .names ["a"]] ≠ [] := by
  refine ⟨?_, rfl, by simp [parentNames]⟩
  rw [mapM_R_cons, mapM_R_cons, mapM_R_nil]; rfl

example : Val.map [("$parent", .bool true)] ∈ [Val.map [("x", .int 1)], .map [("$parent", .bool true)]] ∧
    parentDirective (.map [("$parent", .bool true)]) = .error .invalidParent :=
  ⟨by simp, rfl⟩

/-- single-document instances -/
theorem C03_stop_single (fs : FS) (path : Comps) (kvs : Fields) :
    (fget kvs "$parent" = some (.bool false) → fileParents fs path [.map kvs] = .ok []) ∧
    (fget kvs "$parent" = some .null → fileParents fs path [.map kvs] = .ok []) ∧
    (fget kvs "$parent" = some (.bool true) →
      fileParents fs path [.map kvs] = .error .invalidParent) ∧
    (∀ kvs' x, fget kvs "$parent" = some (.bool false) → fget kvs' "$parent" = some (.str x) →
      fileParents fs path [.map kvs, .map kvs'] = .error .conflictingParent) := by
  have hs := C03_stop_directive kvs
  refine ⟨?_, ?_, ?_, ?_⟩
  · intro h
    have hd : [Val.map kvs].mapM parentDirective = .ok [.noParent] := by
      rw [mapM_R_cons, mapM_R_nil, hs.1 h]
    exact (C03_stop fs path _).1 _ hd rfl rfl
  · intro h
    have hd : [Val.map kvs].mapM parentDirective = .ok [.noParent] := by
      rw [mapM_R_cons, mapM_R_nil, hs.2.1 h]
    exact (C03_stop fs path _).1 _ hd rfl rfl
  · intro h
    exact (C03_stop fs path _).2.2 _ _ List.mem_cons_self (hs.2.2 h)
  · intro kvs' x h h'
    have hd : [Val.map kvs, Val.map kvs'].mapM parentDirective = .ok [.noParent, .names [x]] := by
      rw [mapM_R_cons, mapM_R_cons, mapM_R_nil, hs.1 h, parentDirective_map kvs', h']
    exact (C03_stop fs path _).2.1 _ hd rfl (by simp [parentNames])

example : fget [("$parent", Val.bool false), ("x", .int 1)] "$parent" = some (.bool false) ∧
    fget [("$parent", Val.null)] "$parent" = some .null ∧
    fget [("$parent", Val.bool true)] "$parent" = some (.bool true) := by decide

/-! ## wildcards do not cross dots -/

/-- Everything `globFiles dir base` returns is `dir/n` for a name `n` that matches `base.*`
    with exactly as many dots as the pattern (so `*` never matched across a dot) and a supported
    extension. -/
theorem C03_wildcard_no_dot (fs : FS) (dir : Comps) (base : String) :
    ∀ f ∈ fs.globFiles dir base,
      countDots (baseOf f) = countDots (base ++ ".*") ∧
      supportedExts.contains (extOf (baseOf f)) = true ∧
      dirOf f = dir ∧
      globMatch (base ++ ".*").toList (baseOf f).toList
        ((base ++ ".*").length + (baseOf f).length + 1) = true := by
  intro f hf
  obtain ⟨rdir, n, _, rfl, hn⟩ := mem_globFiles hf
  obtain ⟨h1, h2, h3, _⟩ := mem_globNames hn
  rw [baseOf_snoc, dirOf_snoc]
  exact ⟨h2, h3, rfl, h1⟩

example : ["a.yaml"] ∈ selfFS.globFiles [] "a" := by
  rw [globFiles_singleton (rdir := []) (by decide) selfFS_glob]
  exact List.mem_cons_self

/-! ## inputs left to right, `-P` -/

/-- `cliRun` is: set the root, run the input loop `cliMerge` from the empty parser state, then
    output. -/
theorem C03_cliRun_is_loop (fs : FS) (cwd : Comps) (env : Vars) (opts : CliOpts) :
    cliRun fs cwd env opts =
      match cliCfg fs cwd opts with
      | .error e => .error e
      | .ok cfg =>
        match cliMerge fs cwd cfg opts.skipParent (PState.empty, none) opts.inputs with
        | .error e => .error e
        | .ok acc => cliOutput env opts acc :=
  cliRun_eq fs cwd env opts

/-- Two inputs: the second is layered on the parser state the first produced; the output
    format defaults to the first input's. -/
theorem C03_inputs_left_to_right (fs : FS) (cwd : Comps) (cfg : RootCfg) (i₁ i₂ : String)
    (r₁ r₂ : Comps) (f₁ f₂ : String) (st₁ st₂ : PState)
    (h₁ : fileMatch fs cwd i₁ = .ok (r₁, f₁)) (h₂ : fileMatch fs cwd i₂ = .ok (r₂, f₂))
    (m₁ : mergeFileLayers fs cfg PState.empty r₁ = .ok st₁)
    (m₂ : mergeFileLayers fs cfg st₁ r₂ = .ok st₂) :
    cliMerge fs cwd cfg false (PState.empty, none) [i₁, i₂] = .ok (st₂, some f₁) := by
  simp [cliMerge, cliStep, h₁, h₂, m₁, m₂]

/-- non-vacuity: `bkl a.yaml a.json` in /w of the sample file system (both name `/w/a.yaml`) -/
example : fileMatch chainFS ["w"] "a.yaml" = .ok (["w", "a.yaml"], "yaml") ∧
    fileMatch chainFS ["w"] "a.json" = .ok (["w", "a.yaml"], "json") ∧
    mergeFileLayers chainFS ⟨[], ["w"]⟩ PState.empty ["w", "a.yaml"] =
      .ok ⟨[("/w/a.yaml|doc0", .map [("x", .int 1)])], [("/w/a.yaml|doc0", [])]⟩ ∧
    mergeFileLayers chainFS ⟨[], ["w"]⟩
        ⟨[("/w/a.yaml|doc0", .map [("x", .int 1)])], [("/w/a.yaml|doc0", [])]⟩ ["w", "a.yaml"] =
      .ok ⟨[("/w/a.yaml|doc0", .map [("x", .int 1)]), ("/w/a.yaml|doc0", .map [("x", .int 1)])],
        [("/w/a.yaml|doc0", [])]⟩ := by
  refine ⟨chainFS_match_a, chainFS_match_a_json, ?_, ?_⟩
  · rw [chainFS_layers_a]; rfl
  · rw [chainFS_layers_a]; rfl

/-- In general the loop is a left fold: running `l₁ ++ l₂` is running `l₁`, then `l₂` from
    the state reached. -/
theorem C03_inputs_append (fs : FS) (cwd : Comps) (cfg : RootCfg) (sp : Bool)
    (l₁ l₂ : List String) (acc : PState × Option String) :
    cliMerge fs cwd cfg sp acc (l₁ ++ l₂) =
      match cliMerge fs cwd cfg sp acc l₁ with
      | .error e => .error e
      | .ok acc' => cliMerge fs cwd cfg sp acc' l₂ :=
  cliMerge_append fs cwd cfg sp l₁ l₂ acc

/-- `-P`: every input is merged alone — its own documents only, `$parent` stripped, no parent
    links — so `fileParents` is never consulted: the result depends on the file system only
    through `loadFile` of that one path. -/
theorem C03_skip_parent (fs : FS) (cwd : Comps) (cfg : RootCfg) (st : PState) (p : Comps) :
    mergeFileAlone fs cfg st p =
      (match loadFile fs cfg p (pathStr p) with
        | .error e => .error e
        | .ok raw => runMerges st (aloneDocs p raw)) ∧
    (∀ raw, ∀ d ∈ aloneDocs p raw, d.parents = [] ∧ ∃ v ∈ raw, d.data = stripParent v) ∧
    (∀ fs', loadFile fs' cfg p (pathStr p) = loadFile fs cfg p (pathStr p) →
      mergeFileAlone fs' cfg st p = mergeFileAlone fs cfg st p) ∧
    (∀ (acc : PState × Option String) (inp : String) (real : Comps) (f : String),
      fileMatch fs cwd inp = .ok (real, f) →
      cliStep fs cwd cfg true acc inp =
        match mergeFileAlone fs cfg acc.1 real with
        | .error e => .error e
        | .ok st' => .ok (st', if acc.2.isNone then some f else acc.2)) := by
  refine ⟨mergeFileAlone_eq fs cfg st p, ?_, ?_, ?_⟩
  · intro raw d hd
    unfold aloneDocs at hd
    obtain ⟨⟨v, i⟩, hvi, rfl⟩ := List.mem_map.1 hd
    refine ⟨rfl, ?_⟩
    have : v ∈ raw.map stripParent := (List.mem_zipIdx hvi).2.2 ▸ List.getElem_mem _
    obtain ⟨w, hw, rfl⟩ := List.mem_map.1 this
    exact ⟨w, hw, rfl⟩
  · intro fs' h
    rw [mergeFileAlone_eq, mergeFileAlone_eq, h]
  · intro acc inp real f h
    unfold cliStep
    rw [h]
    simp only [if_true]
    cases mergeFileAlone fs cfg acc.1 real <;> rfl

example : fileMatch chainFS ["w"] "a.yaml" = .ok (["w", "a.yaml"], "yaml") := by
  rw [fileMatch_eq]
  have h1 : absPath ["w"] "a.yaml" = ["w"] ++ ["a" ++ "." ++ "yaml"] := by
    have : isAbsPath "a.yaml" = false := by simp [isAbsPath]
    simp only [absPath, this, splitPath_lit "a.yaml" ["a.yaml"] (by decide)]; decide
  rw [h1, baseOf_snoc, dirOf_snoc, extOf_snoc "a" "yaml" (by decide)]
  have h2 : stemOf ("a" ++ "." ++ "yaml") = "a" := by
    simp only [stemOf, splitOn_dot]; decide
  rw [h2, findFile_layerFile chainFS_plain (by decide) chainFS_a]
  rfl

/-! ## renaming -/

/-- **Partial** (see `C03_rename_counterexample`): content-only dependence of the merge on the
    loaded files.  If `files₂` has the documents of `files₁` with every id (document ids and
    parent links) renamed by `ρ`, where `ρ` is injective on a set `S` of ids that contains all
    ids in use and is closed under — and commutes with — the `|matchnull` suffix the parser
    appends for `$match: null`, then merging `files₂` gives the renamed state of merging
    `files₁`: same success/error, same data in the same order.  (File ids and paths may differ
    arbitrarily.) -/
theorem C03_rename_partial (ρ : String → String) (S : String → Prop) (h : RenOK ρ S)
    (files₁ files₂ : List LFile)
    (hin : ∀ f ∈ files₁, ∀ d ∈ f.docs, DocIn S d)
    (hshape : files₂.map (·.docs) = files₁.map fun f => f.docs.map (renDoc ρ)) :
    mergeFiles PState.empty files₂ = rmap (renState ρ) (mergeFiles PState.empty files₁) ∧
    (∀ st₁, mergeFiles PState.empty files₁ = .ok st₁ →
      ∃ st₂, mergeFiles PState.empty files₂ = .ok st₂ ∧
        st₂.docs.map (·.2) = st₁.docs.map (·.2)) ∧
    (∀ st₂, mergeFiles PState.empty files₂ = .ok st₂ →
      ∃ st₁, mergeFiles PState.empty files₁ = .ok st₁ ∧
        st₂.docs.map (·.2) = st₁.docs.map (·.2)) ∧
    (∀ e, mergeFiles PState.empty files₁ = .error e ↔ mergeFiles PState.empty files₂ = .error e) := by
  have key := mergeFiles_ren h files₁ files₂ hin hshape
  refine ⟨key, ?_, ?_, ?_⟩
  · intro st₁ h1
    rw [h1] at key
    exact ⟨renState ρ st₁, key, renState_data st₁⟩
  · intro st₂ h2
    cases h1 : mergeFiles PState.empty files₁ with
    | error e => rw [h1, h2] at key; cases key
    | ok st₁ =>
      rw [h1, h2] at key
      cases key
      exact ⟨st₁, rfl, renState_data st₁⟩
  · intro e
    cases h1 : mergeFiles PState.empty files₁ with
    | error e' =>
      rw [h1] at key
      rw [key]
      constructor <;> intro h' <;> cases h' <;> rfl
    | ok st₁ =>
      rw [h1] at key
      rw [key]
      constructor <;> intro h' <;> cases h'

/-- Special case: prefixing every id with a fixed string. -/
theorem C03_rename_prefix (pre : String) (files₁ files₂ : List LFile)
    (hshape : files₂.map (·.docs) = files₁.map fun f => f.docs.map (renDoc (pre ++ ·))) :
    (∀ st₁, mergeFiles PState.empty files₁ = .ok st₁ →
      ∃ st₂, mergeFiles PState.empty files₂ = .ok st₂ ∧
        st₂.docs.map (·.2) = st₁.docs.map (·.2)) ∧
    (∀ st₂, mergeFiles PState.empty files₂ = .ok st₂ →
      ∃ st₁, mergeFiles PState.empty files₁ = .ok st₁ ∧
        st₂.docs.map (·.2) = st₁.docs.map (·.2)) ∧
    (∀ e, mergeFiles PState.empty files₁ = .error e ↔ mergeFiles PState.empty files₂ = .error e) :=
  (C03_rename_partial (pre ++ ·) (fun _ => True) (renOK_prefix pre) files₁ files₂
    (fun _ _ _ _ => ⟨trivial, fun _ _ => trivial⟩) hshape).2

/-- non-vacuity of the hypotheses of `C03_rename_partial` / `C03_rename_prefix` -/
example : RenOK (fun s => "x/" ++ s) (fun _ => True) ∧
    (cexA.map fun f => ({ f with docs := f.docs.map (renDoc ("x/" ++ ·)) } : LFile)).map (·.docs) =
      cexA.map fun f => f.docs.map (renDoc ("x/" ++ ·)) :=
  ⟨renOK_prefix "x/", rfl⟩

/-- The unrestricted statement ("any injective renaming of the ids") is FALSE for the model:
    `swapId` is a bijection on strings, `cexB` is `cexA` renamed by it, both merges succeed, and
    the data differ.  The reason is the id `patch.id ++ "|matchnull"` that `mergeDocument`
    invents for `$match: null`: in `cexA` it collides with the id of an existing document (so
    a later layer targets both), after the renaming it does not.  (Ids produced by
    `loadFileAndParents` end in `|doc<n>`, so real loads do not collide like this; the
    hypothesis of `C03_rename_partial` is what makes that precise.) -/
theorem C03_rename_counterexample :
    (∀ a b, swapId a = swapId b → a = b) ∧
    cexB.map (·.docs) = cexA.map (fun f => f.docs.map (renDoc swapId)) ∧
    (∃ st₁, mergeFiles PState.empty cexA = .ok st₁ ∧ st₁.docs.map (·.2) = [.int 5, .int 5]) ∧
    (∃ st₂, mergeFiles PState.empty cexB = .ok st₂ ∧ st₂.docs.map (·.2) = [.int 5, .map []]) :=
  ⟨swapId_injective, rfl, cexA_run, cexB_run⟩

/-! ## cycles -/

/-- A path that is already on the chain of children is a circular reference. -/
theorem C03_cycle_is_error (fs : FS) (cfg : RootCfg) (fuel : Nat) (path : Comps)
    (c : Option String) (ids : List String) (chain : List Comps) (h : path ∈ chain) :
    loadFileAndParents fs cfg (fuel + 1) path c ids chain = .error .circularRef :=
  lfp_cycle fs cfg fuel path c ids chain h

example : (["a.yaml"] : Comps) ∈ [["a.yaml"]] := List.mem_cons_self

/-- A file whose `$parent` names itself is rejected: `/a.yaml` containing `$parent: a`. -/
theorem C03_self_parent_rejected :
    loadFileAndParents selfFS ⟨[], []⟩ loadFuel ["a.yaml"] none [] [] = .error .circularRef ∧
    mergeFileLayers selfFS ⟨[], []⟩ PState.empty ["a.yaml"] = .error .circularRef := by
  refine ⟨selfFS_cycle, ?_⟩
  rw [mergeFileLayers_eq, selfFS_cycle]

end Bkl
