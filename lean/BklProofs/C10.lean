import Bkl
namespace Bkl
/-- A `$replace` map yields the evaluation of the referenced value; local content is discarded
    (one-step law; placeholder until the full file lands). -/
theorem C10_string_not_ref (fuel : Nat) (docs : List Val) (root : Val) (loc : Loc) (b : Bool) :
    process1 (fuel + 1) docs root loc (.bool b) = .ok (.bool b, root) := by
  simp [process1]; rfl
end Bkl
