/-
  C10 — "`$merge` and `$replace` behave as if the referenced subtree were written inline."

  One-step laws for `process1` (process1.go, phase 3), the laws of reference resolution
  (`get`, `getCrossDoc`, `getPath`), the frame property of the threaded document root, and
  the cycle check.  Helper lemmas: `BklProofs/Lemmas/Process1.lean`.
-/
import Bkl.Process2
import BklProofs.Lemmas.Process1
import BklProofs.Lemmas.C10Inline
import BklProofs.Lemmas.C10Nested
import BklProofs.Lemmas.C10NestedPaths
set_option linter.unusedVariables false
namespace Bkl

/-! ## `$replace` on a map -/

/-- A map carrying `$replace: ref` (and no `$merge`) evaluates to the evaluation of the referenced
    value (as a copy: `loc = none`); the local content is discarded; the root is not touched by
    this step. -/
theorem C10_replace_map {fuel : Nat} {docs : List Val} {root : Val} {loc : Loc} {kvs : Fields}
    {ref : Val} (h0 : fget kvs "$merge" = none) (h : fget kvs "$replace" = some ref) :
    process1 (fuel + 1) docs root loc (.map kvs) =
      (get root docs ref >>= fun next => process1 fuel docs root none next) :=
  process1_map_replace h0 h

example : fget [("$replace", Val.str "a"), ("x", .int 1)] "$merge" = none ∧
    fget [("$replace", Val.str "a"), ("x", .int 1)] "$replace" = some (.str "a") := by decide

/-! ## `$merge` on a map -/

/-- `mergeFields` is exactly the loop of `merge (.map d) (.map s)` when `s` has no
    `$replace: true`. -/
theorem C10_merge_is_mergeFields {d s next : Fields} (hr : fhasBool s "$replace" true = false) :
    merge (.map d) (.map s) = .ok (.map next) ↔ mergeFields d s = .ok next := by
  rw [merge_map_map, mergeMapMap_noreplace hr]
  cases mergeFields d s with
  | error e => constructor <;> (intro h; cases h)
  | ok r =>
    constructor
    · intro h; cases h; rfl
    · intro h; cases h; rfl

example : fhasBool [("x", Val.int 1)] "$replace" true = false := by decide

/-- Map-level `$merge: ref` where the reference resolves to a map `s` without `$replace: true`:
    the host becomes `merge local s` (ordinary merge rules, the referenced value layered onto
    the local content), written back in place, and is evaluated again at the same location. -/
theorem C10_merge_map {fuel : Nat} {docs : List Val} {root : Val} {loc : Loc} {kvs s : Fields}
    {ref : Val} (hm : fget kvs "$merge" = some ref)
    (hg : get (setLoc root loc (.map (fdel kvs "$merge"))) docs ref = .ok (.map s))
    (hr : fhasBool s "$replace" true = false) :
    process1 (fuel + 1) docs root loc (.map kvs) =
      (merge (.map (fdel kvs "$merge")) (.map s) >>= fun nv =>
        process1 fuel docs (setLoc (setLoc root loc (.map (fdel kvs "$merge"))) loc nv) loc nv) := by
  rw [process1_map_merge hm, hg, R_bind_ok, merge_map_map, mergeMapMap_noreplace hr]
  simp only [mergeCont, hr, Bool.false_eq_true, if_false]
  cases mergeFields (fdel kvs "$merge") s <;> rfl

/-- Same law with the merge result named. -/
theorem C10_merge_map_ok {fuel : Nat} {docs : List Val} {root : Val} {loc : Loc}
    {kvs s next : Fields} {ref : Val} (hm : fget kvs "$merge" = some ref)
    (hg : get (setLoc root loc (.map (fdel kvs "$merge"))) docs ref = .ok (.map s))
    (hr : fhasBool s "$replace" true = false)
    (hn : merge (.map (fdel kvs "$merge")) (.map s) = .ok (.map next)) :
    process1 (fuel + 1) docs root loc (.map kvs) =
      process1 fuel docs
        (setLoc (setLoc root loc (.map (fdel kvs "$merge"))) loc (.map next)) loc (.map next) := by
  rw [C10_merge_map hm hg hr, hn]; rfl

/-- An ordinary merge conflict between the local content and the referenced map is reported. -/
theorem C10_merge_map_conflict {fuel : Nat} {docs : List Val} {root : Val} {loc : Loc}
    {kvs s : Fields} {ref : Val} {e : Err} (hm : fget kvs "$merge" = some ref)
    (hg : get (setLoc root loc (.map (fdel kvs "$merge"))) docs ref = .ok (.map s))
    (hr : fhasBool s "$replace" true = false)
    (hn : merge (.map (fdel kvs "$merge")) (.map s) = .error e) :
    process1 (fuel + 1) docs root loc (.map kvs) = .error e := by
  rw [C10_merge_map hm hg hr, hn]; rfl

-- non-vacuity: host `{$merge: [b], x: 1}` inside root `{a: host, b: {y: 2}}`
example :
    let kvs : Fields := [("$merge", .list [.str "b"]), ("x", .int 1)]
    let root : Val := .map [("a", .map kvs), ("b", .map [("y", .int 2)])]
    fget kvs "$merge" = some (.list [.str "b"]) ∧
    get (setLoc root (some [.key "a"]) (.map (fdel kvs "$merge"))) [] (.list [.str "b"])
      = .ok (.map [("y", .int 2)]) ∧
    fhasBool [("y", Val.int 2)] "$replace" true = false ∧
    merge (.map (fdel kvs "$merge")) (.map [("y", .int 2)])
      = .ok (.map [("x", .int 1), ("y", .int 2)]) := by
  exact ⟨by decide, get_list_strs _ _ "b" [], by decide, merge_x_y⟩

-- non-vacuity of the conflict law: `x: 1` merged with `x: 1` is a useless override
example :
    merge (.map [("x", .int 1)]) (.map [("x", .int 1)]) = .error .uselessOverride := merge_x_x

/-- referenced value `null`: the local content alone (evaluated again in place) -/
theorem C10_merge_map_null {fuel : Nat} {docs : List Val} {root : Val} {loc : Loc} {kvs : Fields}
    {ref : Val} (hm : fget kvs "$merge" = some ref)
    (hg : get (setLoc root loc (.map (fdel kvs "$merge"))) docs ref = .ok .null) :
    process1 (fuel + 1) docs root loc (.map kvs) =
      process1 fuel docs (setLoc root loc (.map (fdel kvs "$merge"))) loc
        (.map (fdel kvs "$merge")) := by
  rw [process1_map_merge hm, hg]; rfl

example :
    let kvs : Fields := [("$merge", .list [.str "b"]), ("x", .int 1)]
    let root : Val := .map [("a", .map kvs), ("b", .null)]
    get (setLoc root (some [.key "a"]) (.map (fdel kvs "$merge"))) [] (.list [.str "b"])
      = .ok .null := get_list_strs _ _ "b" []

/-- referenced scalar / list, empty local content: the referenced value (a copy) -/
theorem C10_merge_map_other_empty {fuel : Nat} {docs : List Val} {root : Val} {loc : Loc}
    {kvs : Fields} {ref other : Val} (hm : fget kvs "$merge" = some ref)
    (hg : get (setLoc root loc (.map (fdel kvs "$merge"))) docs ref = .ok other)
    (h1 : other.isMap = false) (h2 : other.isNull = false)
    (he : (fdel kvs "$merge").isEmpty = true) :
    process1 (fuel + 1) docs root loc (.map kvs) =
      process1 fuel docs (setLoc root loc (.map (fdel kvs "$merge"))) none other := by
  rw [process1_map_merge hm, hg, R_bind_ok]
  cases other <;> simp [Val.isMap, Val.isNull] at h1 h2 <;> simp [mergeCont, he]

example :
    let kvs : Fields := [("$merge", .list [.str "b"])]
    let root : Val := .map [("a", .map kvs), ("b", .list [.int 1])]
    get (setLoc root (some [.key "a"]) (.map (fdel kvs "$merge"))) [] (.list [.str "b"])
      = .ok (.list [.int 1]) ∧ (fdel kvs "$merge").isEmpty = true :=
  ⟨get_list_strs _ _ "b" [], by decide⟩

/-- referenced scalar / list, non-empty local content: a type error (as `merge` reports) -/
theorem C10_merge_map_other_nonempty {fuel : Nat} {docs : List Val} {root : Val} {loc : Loc}
    {kvs : Fields} {ref other : Val} (hm : fget kvs "$merge" = some ref)
    (hg : get (setLoc root loc (.map (fdel kvs "$merge"))) docs ref = .ok other)
    (h1 : other.isMap = false) (h2 : other.isNull = false)
    (he : (fdel kvs "$merge").isEmpty = false) :
    process1 (fuel + 1) docs root loc (.map kvs) = .error .invalidType := by
  rw [process1_map_merge hm, hg, R_bind_ok]
  cases other <;> simp [Val.isMap, Val.isNull] at h1 h2 <;> simp [mergeCont, he] <;> rfl

example :
    let kvs : Fields := [("$merge", .list [.str "b"]), ("x", .int 1)]
    let root : Val := .map [("a", .map kvs), ("b", .list [.int 1])]
    get (setLoc root (some [.key "a"]) (.map (fdel kvs "$merge"))) [] (.list [.str "b"])
      = .ok (.list [.int 1]) ∧ (fdel kvs "$merge").isEmpty = false :=
  ⟨get_list_strs _ _ "b" [], by decide⟩

/-- referenced map carrying `$replace: true`: that map minus the marker (a copy); the host
    keeps only the deletion of its `$merge` key -/
theorem C10_merge_map_replace_true {fuel : Nat} {docs : List Val} {root : Val} {loc : Loc}
    {kvs s : Fields} {ref : Val} (hm : fget kvs "$merge" = some ref)
    (hg : get (setLoc root loc (.map (fdel kvs "$merge"))) docs ref = .ok (.map s))
    (hr : fhasBool s "$replace" true = true) :
    process1 (fuel + 1) docs root loc (.map kvs) =
      process1 fuel docs (setLoc root loc (.map (fdel kvs "$merge"))) none
        (.map (fdel s "$replace")) := by
  rw [process1_map_merge hm, hg, R_bind_ok]
  simp [mergeCont, hr]

example :
    let kvs : Fields := [("$merge", .list [.str "b"]), ("x", .int 1)]
    let root : Val := .map [("a", .map kvs), ("b", .map [("$replace", .bool true), ("y", .int 2)])]
    get (setLoc root (some [.key "a"]) (.map (fdel kvs "$merge"))) [] (.list [.str "b"])
      = .ok (.map [("$replace", .bool true), ("y", .int 2)]) ∧
    fhasBool [("$replace", Val.bool true), ("y", .int 2)] "$replace" true = true :=
  ⟨get_list_strs _ _ "b" [], by decide⟩

/-- In every sub-case the value that is evaluated next is `merge local referenced`. -/
theorem C10_merge_map_value {fuel : Nat} {docs : List Val} {root : Val} {loc : Loc} {kvs : Fields}
    {ref inp : Val} (hm : fget kvs "$merge" = some ref)
    (hg : get (setLoc root loc (.map (fdel kvs "$merge"))) docs ref = .ok inp) :
    ∃ loc' : Loc, ∃ root' : Val → Val,
      process1 (fuel + 1) docs root loc (.map kvs) =
        (merge (.map (fdel kvs "$merge")) inp >>= fun nv => process1 fuel docs (root' nv) loc' nv) := by
  rw [process1_map_merge hm, hg, R_bind_ok]
  cases inp with
  | map s =>
    cases hr : fhasBool s "$replace" true with
    | true =>
      refine ⟨none, fun _ => setLoc root loc (.map (fdel kvs "$merge")), ?_⟩
      rw [merge_map_map, mergeMapMap_replace hr]
      simp [mergeCont, hr]; rfl
    | false =>
      refine ⟨loc, fun nv => setLoc (setLoc root loc (.map (fdel kvs "$merge"))) loc nv, ?_⟩
      rw [merge_map_map, mergeMapMap_noreplace hr]
      simp only [mergeCont, hr, Bool.false_eq_true, if_false]
      cases mergeFields (fdel kvs "$merge") s <;> rfl
  | null =>
    refine ⟨loc, fun _ => setLoc root loc (.map (fdel kvs "$merge")), ?_⟩
    rw [merge_map_null]; rfl
  | bool _ | int _ | flt _ | str _ | list _ =>
    refine ⟨none, fun _ => setLoc root loc (.map (fdel kvs "$merge")), ?_⟩
    rw [merge_map_other _ _ rfl rfl]
    cases he : (fdel kvs "$merge").isEmpty <;> simp [mergeCont, he] <;> rfl

/-! ## string forms -/

/-- `"$merge:<path>"` evaluates to the evaluation of the referenced value. -/
theorem C10_string_merge {fuel : Nat} {docs : List Val} {root : Val} {loc : Loc} {s p : String}
    (h : stripPrefix s "$merge:" = some p) :
    process1 (fuel + 1) docs root loc (.str s) =
      (get root docs (.str p) >>= process1 fuel docs root none) :=
  process1_str_merge h

example : stripPrefix "$merge:a" "$merge:" = some "a" := stripPrefix_merge_a

/-- `"$replace:<path>"` likewise. -/
theorem C10_string_replace {fuel : Nat} {docs : List Val} {root : Val} {loc : Loc} {s p : String}
    (h0 : stripPrefix s "$merge:" = none) (h : stripPrefix s "$replace:" = some p) :
    process1 (fuel + 1) docs root loc (.str s) =
      (get root docs (.str p) >>= process1 fuel docs root none) :=
  process1_str_replace h0 h

example : stripPrefix "$replace:a" "$merge:" = none ∧
    stripPrefix "$replace:a" "$replace:" = some "a" :=
  ⟨stripPrefix_replace_a_merge, stripPrefix_replace_a⟩

/-- A string with neither prefix is returned unchanged, and so is the root. -/
theorem C10_string_plain {fuel : Nat} {docs : List Val} {root : Val} {loc : Loc} {s : String}
    (h0 : stripPrefix s "$merge:" = none) (h : stripPrefix s "$replace:" = none) :
    process1 (fuel + 1) docs root loc (.str s) = .ok (.str s, root) :=
  process1_str_plain h0 h

example : stripPrefix "hello" "$merge:" = none ∧ stripPrefix "hello" "$replace:" = none :=
  ⟨stripPrefix_hello_merge, stripPrefix_hello_replace⟩

/-- Non-reference scalars are returned unchanged, and so is the root. -/
theorem C10_scalar_plain (fuel : Nat) (docs : List Val) (root : Val) (loc : Loc) :
    process1 (fuel + 1) docs root loc .null = .ok (.null, root) ∧
    (∀ b, process1 (fuel + 1) docs root loc (.bool b) = .ok (.bool b, root)) ∧
    (∀ i, process1 (fuel + 1) docs root loc (.int i) = .ok (.int i, root)) ∧
    (∀ r, process1 (fuel + 1) docs root loc (.flt r) = .ok (.flt r, root)) :=
  ⟨process1_null _ _ _ _, process1_bool _ _ _ _, process1_int _ _ _ _, process1_flt _ _ _ _⟩

/-! ## list forms -/

/-- A list whose only `{$merge: ref}` entry refers to `ref`: the remaining entries (tagged with
    their positions) are merged with the referenced list by `mergeListTagged`, then the list is
    finished as usual (`listFinish`: `{$replace: _}` entry lookup, then entry-wise evaluation). -/
theorem C10_merge_list {fuel : Nat} {docs : List Val} {root : Val} {loc : Loc} {xs : List Val}
    {ref : Val} (h : listMerges xs = [ref]) :
    process1 (fuel + 1) docs root loc (.list xs) =
      ((get root docs ref >>= fun inp =>
          match inp with
          | .list s => mergeListTagged (listObj0 xs) s
          | .null => pure (listObj0 xs)
          | _ => throw Err.invalidType) >>=
        listFinish fuel docs root loc) := by
  rw [process1_list, h, foldlM_cons]
  change _ = (mergeRefStep root docs (listObj0 xs) ref >>= listFinish fuel docs root loc)
  cases mergeRefStep root docs (listObj0 xs) ref <;> rfl

-- `pre ++ [{$merge: ref}] ++ post` without other `{$merge: _}` entries is such a list
example (ref : Val) :
    listMerges ([.int 1] ++ [.map [("$merge", ref)]] ++ [.str "x"]) = [ref] :=
  listMerges_single ref (by decide)

/-- `mergeListTagged` is `mergeListList` (the ordinary list merge) on the untagged entries:
    same result when it succeeds, same error when it fails — except that a `$match` entry in the
    referenced list is reported as `unmodelled` (it would merge into a host entry in place). -/
theorem C10_mergeListTagged_is_mergeListList (d : Tagged) (s : List Val) :
    match mergeListTagged d s with
    | .ok t => mergeListList (d.map (·.1)) s = .ok (.list (t.map (·.1)))
    | .error e => e = .unmodelled ∨ mergeListList (d.map (·.1)) s = .error e :=
  mergeListTagged_agrees d s

/-- A referenced list of plain entries (no `$delete` / `$match` / `$replace` directives) is
    appended, as copies, to the host entries (minus `$required` markers). -/
theorem C10_mergeListTagged_plain (d : Tagged) {s : List Val} (h : s.all plainEntry = true) :
    mergeListTagged d s =
      .ok (d.filter (fun x => !(x.1 == .str "$required")) ++ s.map (·, none)) :=
  mergeListTagged_plain d h

example : [Val.int 1, .map [("x", .int 2)]].all plainEntry = true := by decide

/-- Simplest instance: the list is just `[{$merge: ref}]` and the referenced list consists of
    plain entries, none of which is a `{$replace: _}` entry: the result is the evaluation of the
    entries of the referenced list in order (as copies, nulls dropped); the root is unchanged. -/
theorem C10_merge_list_single {fuel : Nat} {docs : List Val} {root : Val} {loc : Loc}
    {ref : Val} {s : List Val} (hg : get root docs ref = .ok (.list s))
    (hs : s.all plainEntry = true) (hr : ∀ v ∈ s, notReplaceEntry v = true) :
    process1 (fuel + 1) docs root loc (.list [.map [("$merge", ref)]]) =
      (evalCopies fuel docs root s >>= fun vs => pure (.list vs, root)) := by
  rw [C10_merge_list (listMerges_merge_entry ref), hg, R_bind_ok, listObj0_merge_entry]
  simp only [mergeListTagged_plain [] hs, List.filter_nil, List.nil_append, R_bind_ok]
  unfold listFinish
  have hmap : (s.map (·, (none : Option Nat))).map (·.1) = s := by
    simp [List.map_map, Function.comp_def]
  rw [hmap, popListMapValue_no_replace hr, R_bind_ok]
  simp only [Val.isNull, Bool.not_true, Bool.false_eq_true, if_false]
  have hfil : (s.map (·, (none : Option Nat))).filter (fun x => notReplaceEntry x.1) =
      s.map (·, none) := by
    rw [List.filter_eq_self]
    intro a ha
    obtain ⟨v, hv, rfl⟩ := List.mem_map.1 ha
    exact hr v hv
  rw [hfil, foldlM_entryStep_copies]
  unfold evalCopies
  cases s.mapM (fun v => process1 fuel docs root none v) <;> rfl

example :
    let root : Val := .map [("l", .list [.int 1, .str "x"])]
    get root [] (.list [.str "l"]) = .ok (.list [.int 1, .str "x"]) ∧
    [Val.int 1, .str "x"].all plainEntry = true ∧
    ∀ v ∈ [Val.int 1, .str "x"], notReplaceEntry v = true :=
  ⟨get_list_strs _ _ "l" [], by decide, by decide⟩

/-- `plainEntry` alone is not enough for `C10_merge_list_single`: a referenced list containing a
    `{$replace: ref2}` entry is replaced by the evaluation of `ref2`. -/
theorem C10_merge_list_single_needs_no_replace_entry :
    let root : Val := .map [("l", .list [.map [("$replace", .list [.str "z"])]]), ("z", .int 7)]
    [Val.map [("$replace", .list [.str "z"])]].all plainEntry = true ∧
    process1 2 [] root none (.list [.map [("$merge", .list [.str "l"])]]) = .ok (.int 7, root) := by
  intro root
  refine ⟨by decide, ?_⟩
  have hg : get root [] (.list [.str "l"]) = .ok (.list [.map [("$replace", .list [.str "z"])]]) :=
    get_list_strs _ _ "l" []
  have hz : get root [] (.list [.str "z"]) = .ok (.int 7) := get_list_strs _ _ "z" []
  rw [C10_merge_list (listMerges_merge_entry _), hg, R_bind_ok, listObj0_merge_entry]
  simp only [mergeListTagged_plain [] (by decide : [Val.map [("$replace", .list [.str "z"])]].all plainEntry = true),
    List.filter_nil, List.nil_append, R_bind_ok]
  unfold listFinish
  have := popListMapValue_one_replace (pre := []) (post := []) (.list [.str "z"]) (by simp)
  simp only [List.nil_append, List.append_nil] at this
  simp only [List.map_cons, List.map_nil, this, R_bind_ok, Val.isNull, Bool.not_false, if_true, hz]
  exact process1_int _ _ _ _ _

/-- the referenced value is `null`: nothing is merged in -/
theorem C10_merge_list_single_null {fuel : Nat} {docs : List Val} {root : Val} {loc : Loc}
    {ref : Val} (hg : get root docs ref = .ok .null) :
    process1 (fuel + 1) docs root loc (.list [.map [("$merge", ref)]]) = .ok (.list [], root) := by
  rw [C10_merge_list (listMerges_merge_entry ref), hg, R_bind_ok, listObj0_merge_entry]
  rfl

example : get (.map [("l", .null)]) [] (.list [.str "l"]) = .ok .null := get_list_strs _ _ "l" []

/-- the referenced value is neither a list nor `null`: a type error -/
theorem C10_merge_list_nonlist {fuel : Nat} {docs : List Val} {root : Val} {loc : Loc}
    {xs : List Val} {ref inp : Val} (h : listMerges xs = [ref]) (hg : get root docs ref = .ok inp)
    (h1 : inp.isList = false) (h2 : inp.isNull = false) :
    process1 (fuel + 1) docs root loc (.list xs) = .error .invalidType := by
  rw [C10_merge_list h, hg, R_bind_ok]
  cases inp <;> simp [Val.isList, Val.isNull] at h1 h2 <;> rfl

example : get (.map [("l", .int 3)]) [] (.list [.str "l"]) = .ok (.int 3) :=
  get_list_strs _ _ "l" []

/-- A list whose only directive entry is one `{$replace: ref}` (non-null `ref`) evaluates to the
    evaluation of the referenced value; all other entries are discarded. -/
theorem C10_replace_list {fuel : Nat} {docs : List Val} {root : Val} {loc : Loc}
    {pre post : List Val} {ref : Val} (h : ∀ v ∈ pre ++ post, listDirective v = false)
    (hn : ref.isNull = false) :
    process1 (fuel + 1) docs root loc (.list (pre ++ [.map [("$replace", ref)]] ++ post)) =
      (get root docs ref >>= process1 fuel docs root none) := by
  have hm : ∀ v ∈ pre ++ [.map [("$replace", ref)]] ++ post, notMergeEntry v = true := by
    intro v hv
    simp only [List.mem_append, List.mem_singleton] at hv
    rcases hv with (hv | rfl) | hv
    · exact notMergeEntry_of_not_directive (h v (List.mem_append_left _ hv))
    · simp [notMergeEntry]
    · exact notMergeEntry_of_not_directive (h v (List.mem_append_right _ hv))
  rw [process1_list, listMerges_of_notMerge hm, foldlM_nil, R_bind_ok]
  unfold listFinish
  rw [listObj0_fst, List.filter_eq_self.2 hm,
    popListMapValue_one_replace ref (fun x hx => notReplaceEntry_of_not_directive (h x hx)),
    R_bind_ok]
  simp only [hn, Bool.not_false, if_true]

example : (∀ v ∈ [Val.int 1] ++ [Val.str "x"], listDirective v = false) ∧
    (Val.str "a").isNull = false := by decide

/-- Simplest instance: `[{$replace: ref}]`. -/
theorem C10_replace_list_single {fuel : Nat} {docs : List Val} {root : Val} {loc : Loc}
    {ref : Val} (hn : ref.isNull = false) :
    process1 (fuel + 1) docs root loc (.list [.map [("$replace", ref)]]) =
      (get root docs ref >>= process1 fuel docs root none) :=
  C10_replace_list (pre := []) (post := []) (by simp) hn

/-! ## a dangling reference is an error, never silently dropped -/

theorem C10_dangling_is_error_map_merge {fuel : Nat} {docs : List Val} {root : Val} {loc : Loc}
    {kvs : Fields} {ref : Val} {e : Err} (hm : fget kvs "$merge" = some ref)
    (hg : get (setLoc root loc (.map (fdel kvs "$merge"))) docs ref = .error e) :
    process1 (fuel + 1) docs root loc (.map kvs) = .error e := by
  rw [process1_map_merge hm, hg]; rfl

theorem C10_dangling_is_error_map_replace {fuel : Nat} {docs : List Val} {root : Val} {loc : Loc}
    {kvs : Fields} {ref : Val} {e : Err} (h0 : fget kvs "$merge" = none)
    (h : fget kvs "$replace" = some ref) (hg : get root docs ref = .error e) :
    process1 (fuel + 1) docs root loc (.map kvs) = .error e := by
  rw [process1_map_replace h0 h, hg]; rfl

theorem C10_dangling_is_error_string_merge {fuel : Nat} {docs : List Val} {root : Val} {loc : Loc}
    {s p : String} {e : Err} (h : stripPrefix s "$merge:" = some p)
    (hg : get root docs (.str p) = .error e) :
    process1 (fuel + 1) docs root loc (.str s) = .error e := by
  rw [process1_str_merge h, hg]; rfl

theorem C10_dangling_is_error_string_replace {fuel : Nat} {docs : List Val} {root : Val}
    {loc : Loc} {s p : String} {e : Err} (h0 : stripPrefix s "$merge:" = none)
    (h : stripPrefix s "$replace:" = some p) (hg : get root docs (.str p) = .error e) :
    process1 (fuel + 1) docs root loc (.str s) = .error e := by
  rw [process1_str_replace h0 h, hg]; rfl

/-- list form: the first `{$merge: ref}` entry of the list dangles -/
theorem C10_dangling_is_error_list_merge {fuel : Nat} {docs : List Val} {root : Val} {loc : Loc}
    {xs : List Val} {ref : Val} {rest : List Val} {e : Err} (h : listMerges xs = ref :: rest)
    (hg : get root docs ref = .error e) :
    process1 (fuel + 1) docs root loc (.list xs) = .error e := by
  rw [process1_list, h, foldlM_cons]
  simp only [mergeRefStep, hg]; rfl

theorem C10_dangling_is_error_list_replace {fuel : Nat} {docs : List Val} {root : Val} {loc : Loc}
    {pre post : List Val} {ref : Val} {e : Err} (h : ∀ v ∈ pre ++ post, listDirective v = false)
    (hn : ref.isNull = false) (hg : get root docs ref = .error e) :
    process1 (fuel + 1) docs root loc (.list (pre ++ [.map [("$replace", ref)]] ++ post)) =
      .error e := by
  rw [C10_replace_list h hn, hg]; rfl

-- non-vacuity: a path that does not exist in the document, and a string reference to it
example : get (.map [("a", .int 1)]) [] (.list [.str "zz"]) = .error .refNotFound :=
  get_list_strs _ _ "zz" []
example : get (.map [("b", .int 1)]) [] (.str "a") = .error .refNotFound := by
  rw [get_str]; simp only [getPathFromString, parseRef_a, splitOn_a]; rfl
example (ref : Val) :
    listMerges ([.int 1] ++ [.map [("$merge", ref)]] ++ [.str "x"]) = ref :: [] :=
  listMerges_single ref (by decide)

/-! ## reference resolution: `get`, cross-document references, `getPath` -/

/-- map form of a cross-document reference -/
theorem C10_cross_doc_map (root : Val) (docs : List Val) (pat path : Val) :
    get root docs (.map [("$match", pat), ("$path", path)]) =
      (getCrossDoc docs pat >>= fun d => get d docs path) := by
  rw [get_map]
  simp [fget]

/-- map form without `$path`: the whole matched document -/
theorem C10_cross_doc_map_nopath (root : Val) (docs : List Val) (pat : Val) :
    get root docs (.map [("$match", pat)]) = getCrossDoc docs pat := by
  rw [get_map]
  simp only [fget, if_true]
  have : ("$match" = "$path") = False := by decide
  simp only [this, if_false]
  cases getCrossDoc docs pat <;> rfl

/-- list form of a cross-document reference: first entry a map or list pattern -/
theorem C10_cross_doc_list (root : Val) (docs : List Val) (pat : Val) (rest : List Val)
    (hp : pat.isMap = true ∨ pat.isList = true) :
    get root docs (.list (pat :: rest)) =
      (getCrossDoc docs pat >>= fun d => toStringList rest >>= getPath d) := by
  rw [get_list]
  cases pat <;> simp [Val.isMap, Val.isList] at hp <;> rfl

example : (Val.map [("kind", .str "x")]).isMap = true ∨ (Val.map [("kind", .str "x")]).isList = true :=
  Or.inl rfl

/-- the two forms agree for string paths -/
theorem C10_cross_doc_forms_agree (root : Val) (docs : List Val) (p : Fields) (ps : List String) :
    get root docs (.list (.map p :: ps.map .str)) =
      get root docs (.map [("$match", .map p), ("$path", .list (ps.map .str))]) := by
  rw [C10_cross_doc_map, C10_cross_doc_list _ _ _ _ (Or.inl rfl), toStringList_strs]
  congr 1
  funext d
  cases ps with
  | nil => rw [get_list]; rfl
  | cons a tl => exact (get_list_strs d docs a tl).symm

/-- exactly one document of the stream must match -/
theorem C10_cross_zero_or_many_is_error (docs : List Val) (pat : Val) :
    (docs.filter (fun d => matchV d pat) = [] → getCrossDoc docs pat = .error .noMatchFound) ∧
    (∀ d, docs.filter (fun d => matchV d pat) = [d] → getCrossDoc docs pat = .ok d) ∧
    (2 ≤ (docs.filter (fun d => matchV d pat)).length → getCrossDoc docs pat = .error .multiMatch) := by
  unfold getCrossDoc
  refine ⟨fun h => by rw [h]; rfl, fun d h => by rw [h]; rfl, fun h => ?_⟩
  match hf : docs.filter (fun d => matchV d pat), h with
  | [], h => simp at h
  | [_], h => simp at h
  | _ :: _ :: _, _ => rfl

example : [Val.map [("k", .int 1)], .map [("k", .int 2)]].filter
    (fun d => matchV d (.map [("k", .int 1)])) = [.map [("k", .int 1)]] := by decide
example : [Val.map [("k", .int 1)], .map [("k", .int 2)]].filter
    (fun d => matchV d (.map [("k", .int 3)])) = [] := by decide
example : 2 ≤ ([Val.map [("k", .int 1)], .map [("k", .int 1)]].filter
    (fun d => matchV d (.map [("k", .int 1)]))).length := by decide

/-- a map reference without `$match` is an error -/
theorem C10_missing_match_is_error (root : Val) (docs : List Val) (conf : Fields)
    (h : fget conf "$match" = none) : get root docs (.map conf) = .error .missingMatch := by
  rw [get_map, h]

example : fget [("$path", Val.str "a")] "$match" = none := by decide

/-- A single-key `{$merge|$replace|$encode: _}` map (an unexpanded placeholder) never matches a
    map pattern (without `$invert: true`). -/
theorem C10_placeholder_never_matches (k : String) (v : Val) (pat : Fields)
    (hk : k = "$merge" ∨ k = "$replace" ∨ k = "$encode")
    (hi : fhasBool pat "$invert" true = false) :
    matchV (.map [(k, v)]) (.map pat) = false := by
  have hp : isPlaceholder [(k, v)] = true := by
    rcases hk with rfl | rfl | rfl <;> simp [isPlaceholder]
  simp [matchV, hp, hi]

example : fhasBool ([] : Fields) "$invert" true = false := by decide

/-- … and with `$invert: true` the pattern therefore always matches it. -/
theorem C10_placeholder_invert_matches (k : String) (v : Val) (pat : Fields)
    (hk : k = "$merge" ∨ k = "$replace" ∨ k = "$encode")
    (hi : fhasBool pat "$invert" true = true) :
    matchV (.map [(k, v)]) (.map pat) = true := by
  have hp : isPlaceholder [(k, v)] = true := by
    rcases hk with rfl | rfl | rfl <;> simp [isPlaceholder]
  simp [matchV, hp, hi]

example : fhasBool [("$invert", Val.bool true)] "$invert" true = true := by decide

theorem C10_getPath_spec :
    (∀ obj : Val, getPath obj [] = .ok obj) ∧
    (∀ (kvs : Fields) (p : String) (ps : List String),
      getPath (.map kvs) (p :: ps) =
        (fget kvs p).elim (.error .refNotFound) (fun v => getPath v ps)) ∧
    (∀ (obj : Val) (p : String) (ps : List String), obj.isMap = false →
      getPath obj (p :: ps) = .error .refNotFound) := by
  refine ⟨fun _ => rfl, fun kvs p ps => ?_, fun obj p ps h => ?_⟩
  · simp only [getPath]
    cases fget kvs p <;> rfl
  · cases obj <;> simp [Val.isMap] at h <;> rfl

/-! ## the referenced subtree (and everything else outside the host) is left unchanged -/

/-- Copies never write to the root. -/
theorem C10_copies_never_write_root {fuel : Nat} {docs : List Val} {root obj v root' : Val}
    (h : process1 fuel docs root none obj = .ok (v, root')) : root' = root :=
  process1_frame fuel docs root none obj v root' h

/-- Frame property: evaluating the value at location `p` changes the root at most below `p`;
    every location `q` disjoint from `p` (neither a prefix of the other) keeps its content. -/
theorem C10_target_unchanged {fuel : Nat} {docs : List Val} {root obj v root' : Val}
    {p q : List PathElem} (h : process1 fuel docs root (some p) obj = .ok (v, root'))
    (h1 : ¬ p <+: q) (h2 : ¬ q <+: p) : getLoc root' q = getLoc root q :=
  process1_frame fuel docs root (some p) obj v root' h q ⟨h1, h2⟩

/-- In particular a reference path that is disjoint from the host resolves to the same value
    (or the same `refNotFound`) before and after. -/
theorem C10_target_unchanged_getPath {fuel : Nat} {docs : List Val} {root obj v root' : Val}
    {p : List PathElem} {ks : List String}
    (h : process1 fuel docs root (some p) obj = .ok (v, root'))
    (h1 : ¬ p <+: ks.map .key) (h2 : ¬ ks.map .key <+: p) : getPath root' ks = getPath root ks := by
  rw [getPath_eq_getLoc, getPath_eq_getLoc, C10_target_unchanged h h1 h2]

-- non-vacuity: host `a: {$merge: [b], x: 1}`, target `b: {y: 2}`; evaluating the host at
-- location `a` expands it in place and leaves `b` alone
example :
    process1 3 []
      (.map [("a", .map [("$merge", .list [.str "b"]), ("x", .int 1)]), ("b", .map [("y", .int 2)])])
      (some [.key "a"]) (.map [("$merge", .list [.str "b"]), ("x", .int 1)]) =
      .ok (.map [("x", .int 1), ("y", .int 2)],
           .map [("a", .map [("x", .int 1), ("y", .int 2)]), ("b", .map [("y", .int 2)])]) ∧
    ¬ [PathElem.key "a"] <+: ["b"].map .key ∧ ¬ ["b"].map PathElem.key <+: [.key "a"] := by
  refine ⟨?_, by decide, by decide⟩
  rw [C10_merge_map_ok (kvs := [("$merge", .list [.str "b"]), ("x", .int 1)])
    (s := [("y", .int 2)]) (next := [("x", .int 1), ("y", .int 2)]) (ref := .list [.str "b"])
    (by decide) (get_list_strs _ _ "b" []) (by decide)
    (show merge (.map (fdel [("$merge", .list [.str "b"]), ("x", .int 1)] "$merge"))
      (.map [("y", .int 2)]) = _ from merge_x_y)]
  have hroot : setLoc (setLoc
      (.map [("a", .map [("$merge", .list [.str "b"]), ("x", .int 1)]), ("b", .map [("y", .int 2)])])
      (some [.key "a"]) (.map (fdel [("$merge", .list [.str "b"]), ("x", .int 1)] "$merge")))
      (some [.key "a"]) (.map [("x", .int 1), ("y", .int 2)]) =
      .map [("a", .map [("x", .int 1), ("y", .int 2)]), ("b", .map [("y", .int 2)])] := by decide
  rw [hroot, process1_map_plain (by decide) (by decide)]
  have hx : stripPrefix "x" "$merge:" = none ∧ stripPrefix "x" "$replace:" = none := by
    constructor <;> (simp only [stripPrefix]; split <;> simp_all)
  have hy : stripPrefix "y" "$merge:" = none ∧ stripPrefix "y" "$replace:" = none := by
    constructor <;> (simp only [stripPrefix]; split <;> simp_all)
  have e1 : fset (fset [] "x" (Val.int 1)) "y" (.int 2) = [("x", .int 1), ("y", .int 2)] := by decide
  simp only [foldlM_cons, foldlM_nil, mapStep, process1_int, process1_str_plain hx.1 hx.2,
    process1_str_plain hy.1 hy.2, R_bind_ok, R_pure, Val.isNull, Bool.false_eq_true, if_false, e1]

/-! ## cycles -/

/-- A reference cycle of length 1 is reported, whatever the fuel. -/
theorem C10_self_reference_is_error (fuel : Nat) :
    process1 fuel [] (.map [("a", .str "$merge:a")]) (some [])
      (.map [("a", .str "$merge:a")]) = .error .circularRef := by
  have hstr : ∀ fuel loc, process1 fuel [] (.map [("a", .str "$merge:a")]) loc
      (.str "$merge:a") = .error .circularRef := by
    intro fuel
    induction fuel with
    | zero => intro loc; exact process1_zero _ _ _ _
    | succ n ih =>
      intro loc
      rw [process1_str_merge stripPrefix_merge_a,
        get_plain_key (v := .str "$merge:a") [] parseRef_a splitOn_a (by decide), R_bind_ok]
      exact ih none
  cases fuel with
  | zero => exact process1_zero _ _ _ _
  | succ n =>
    rw [process1_map_plain (by decide) (by decide), foldlM_cons]
    simp only [mapStep, hstr]; rfl

/-- A reference cycle of length 2 is reported, whatever the fuel. -/
theorem C10_two_cycle_is_error (fuel : Nat) :
    process1 fuel [] (.map [("a", .str "$merge:b"), ("b", .str "$merge:a")]) (some [])
      (.map [("a", .str "$merge:b"), ("b", .str "$merge:a")]) = .error .circularRef := by
  have hstr : ∀ fuel loc,
      process1 fuel [] (.map [("a", .str "$merge:b"), ("b", .str "$merge:a")]) loc
        (.str "$merge:b") = .error .circularRef ∧
      process1 fuel [] (.map [("a", .str "$merge:b"), ("b", .str "$merge:a")]) loc
        (.str "$merge:a") = .error .circularRef := by
    intro fuel
    induction fuel with
    | zero => intro loc; exact ⟨process1_zero _ _ _ _, process1_zero _ _ _ _⟩
    | succ n ih =>
      intro loc
      constructor
      · rw [process1_str_merge stripPrefix_merge_b,
          get_plain_key (v := .str "$merge:a") [] parseRef_b splitOn_b (by decide), R_bind_ok]
        exact (ih none).2
      · rw [process1_str_merge stripPrefix_merge_a,
          get_plain_key (v := .str "$merge:b") [] parseRef_a splitOn_a (by decide), R_bind_ok]
        exact (ih none).1
  cases fuel with
  | zero => exact process1_zero _ _ _ _
  | succ n =>
    rw [process1_map_plain (by decide) (by decide), foldlM_cons]
    simp only [mapStep, (hstr _ _).1]; rfl

/-- At the depth limit used by `processDoc`, both cycles are therefore `circularRef`. -/
theorem C10_self_reference_processDoc (env : Vars) :
    processDoc [] env (.map [("a", .str "$merge:a")]) = .error .circularRef := by
  unfold processDoc
  rw [C10_self_reference_is_error]; rfl

/-! ## end to end: "as if the referenced subtree were written inline"

  Setting.  The document root is `.map kvs` (keys strictly increasing); the host is the entry
  at the top-level key `h`; the reference denotes the key path `ks` of the document
  (`PathRef ref ks`: a dotted string `a.b.c` — `pathRef_str` —, or a list `[a, b, c]` —
  `pathRef_list`), which resolves to the subtree `t`.  "Written inline" is the document
  `.map (fset kvs h t)` (Go: `doc[h] = t`).  Only the evaluated VALUE is compared
  (`Except.map Prod.fst`; `processDoc` discards the threaded root).

  As asked — with arbitrary other entries and up to the depth limit — the statements are FALSE:
  * another entry may read the *raw* host: `a: {$merge: b, x: 1}` merges the map
    `{$replace: c}` itself into `a` (`C10_inline_replace_false`), `a: {$replace: [b, $merge]}`
    reads the `$merge` key of the host `b` (`C10_inline_merge_false`);
  * following the reference costs one level of the depth guard, so a subtree of depth
    `depthLimit - 2` evaluates when written inline and is `circularRef` when referenced
    (`C10_inline_replace_depth_false`).
  The `_partial` theorems exclude these classes:
  * the entries other than the host never read the host: `SafeFields h (fdel kvs h)` — they
    contain no map-level `$merge` key, and every reference in them (the value of a `$replace`
    key, a `$merge:` / `$replace:` string, leaf or key) is a string or list path into the
    document whose first key is not `h`; they may freely refer to each other and to the target
    (every reference-free entry is safe: `refFreeFields_safe`);
  * the inlined value evaluates with two levels of the depth guard to spare.
  Helper lemmas: `BklProofs/Lemmas/C10Inline.lean`. -/

/-- **`$replace`, general form.**  `hostv` forwards to `ref` (`Forwards`: the map form
    `{$replace: ref, …}`, the string forms `"$replace:p"` / `"$merge:p"`), `ref` denotes the path
    `ks`, which holds the reference-free subtree `t`; no other entry reads the host.
    Unless `t` needs the last two levels of the depth guard, the document evaluates to the same
    value as the document with `t` written in place of the host.  (Host and target need not even
    be disjoint: if `t` lies inside the host the statement still holds.) -/
theorem C10_inline_replace_partial {fuel : Nat} {docs : List Val} {kvs : Fields} {h : String}
    {hostv ref t : Val} {ks : List String}
    (hs : Fields.SortedKeys kvs) (hh : fget kvs h = some hostv) (hhk : refKey h = false)
    (hfw : Forwards hostv ref) (hp : PathRef ref ks) (ht : getPath (.map kvs) ks = .ok t)
    (htf : refFree t = true) (ho : SafeFields h (fdel kvs h) = true)
    (h1 : fget kvs "$replace" = none)
    (hfuel : process1 fuel [] .null none t ≠ .error .circularRef) :
    Except.map Prod.fst (process1 (fuel + 2) docs (.map kvs) (some []) (.map kvs)) =
      Except.map Prod.fst
        (process1 (fuel + 2) docs (.map (fset kvs h t)) (some []) (.map (fset kvs h t))) :=
  inline_replace_safe_core hs hh hhk hfw hp ht htf ho h1 hfuel

/-- the map form `h: {$replace: "a.b.c", …}` with a dotted path of plain keys -/
theorem C10_inline_replace_map_partial {fuel : Nat} {docs : List Val} {kvs m : Fields}
    {h p : String} {t : Val} {ks : List String}
    (hs : Fields.SortedKeys kvs) (hh : fget kvs h = some (.map m)) (hhk : refKey h = false)
    (h0 : fget m "$merge" = none) (hr : fget m "$replace" = some (.str p))
    (hp1 : parseRef p = some (.str p)) (hp2 : p.splitOn "." = ks)
    (ht : getPath (.map kvs) ks = .ok t)
    (htf : refFree t = true) (ho : SafeFields h (fdel kvs h) = true)
    (h1 : fget kvs "$replace" = none) (hd : depth t < fuel) :
    Except.map Prod.fst (process1 (fuel + 2) docs (.map kvs) (some []) (.map kvs)) =
      Except.map Prod.fst
        (process1 (fuel + 2) docs (.map (fset kvs h t)) (some []) (.map (fset kvs h t))) :=
  inline_replace_safe_core hs hh hhk (forwards_map_replace h0 hr) (pathRef_str hp1 hp2) ht htf ho
    h1 (process1_refFree_ne_circ htf hd)

/-- the string form `h: "$replace:a.b.c"` -/
theorem C10_inline_replace_string_partial {fuel : Nat} {docs : List Val} {kvs : Fields}
    {h p : String} {t : Val} {ks : List String}
    (hs : Fields.SortedKeys kvs) (hh : fget kvs h = some (.str ("$replace:" ++ p)))
    (hhk : refKey h = false)
    (hp1 : parseRef p = some (.str p)) (hp2 : p.splitOn "." = ks)
    (ht : getPath (.map kvs) ks = .ok t)
    (htf : refFree t = true) (ho : SafeFields h (fdel kvs h) = true)
    (h1 : fget kvs "$replace" = none) (hd : depth t < fuel) :
    Except.map Prod.fst (process1 (fuel + 2) docs (.map kvs) (some []) (.map kvs)) =
      Except.map Prod.fst
        (process1 (fuel + 2) docs (.map (fset kvs h t)) (some []) (.map (fset kvs h t))) :=
  inline_replace_safe_core hs hh hhk (forwards_str_replace p) (pathRef_str hp1 hp2) ht htf ho
    h1 (process1_refFree_ne_circ htf hd)

/-- the special case where the other entries are reference-free -/
theorem C10_inline_replace_refFree_partial {fuel : Nat} {docs : List Val} {kvs : Fields}
    {h : String} {hostv ref t : Val} {ks : List String}
    (hs : Fields.SortedKeys kvs) (hh : fget kvs h = some hostv) (hhk : refKey h = false)
    (hfw : Forwards hostv ref) (hp : PathRef ref ks) (ht : getPath (.map kvs) ks = .ok t)
    (htf : refFree t = true) (ho : refFreeFields (fdel kvs h) = true)
    (hfuel : process1 fuel [] .null none t ≠ .error .circularRef) :
    Except.map Prod.fst (process1 (fuel + 2) docs (.map kvs) (some []) (.map kvs)) =
      Except.map Prod.fst
        (process1 (fuel + 2) docs (.map (fset kvs h t)) (some []) (.map (fset kvs h t))) :=
  inline_replace_core hs hh hhk hfw hp ht htf ho hfuel

/-- At the level of `processDoc` / `outputDocument` (fuel = the depth guard of process1.go): the
    referencing document and the document with the subtree written inline produce the same
    output documents, or the same error. -/
theorem C10_inline_replace_output_partial {docs : List Val} {env : Vars} {kvs : Fields}
    {h : String} {hostv ref t : Val} {ks : List String}
    (hs : Fields.SortedKeys kvs) (hh : fget kvs h = some hostv) (hhk : refKey h = false)
    (hfw : Forwards hostv ref) (hp : PathRef ref ks) (ht : getPath (.map kvs) ks = .ok t)
    (htf : refFree t = true) (ho : SafeFields h (fdel kvs h) = true)
    (h1 : fget kvs "$replace" = none) (hd : depth t + 2 < depthLimit) :
    processDoc docs env (.map kvs) = processDoc docs env (.map (fset kvs h t)) ∧
    outputDocument docs env (.map kvs) = outputDocument docs env (.map (fset kvs h t)) := by
  have hfuel : process1 (depthLimit - 2) [] .null none t ≠ .error .circularRef :=
    process1_refFree_ne_circ htf (by omega)
  have hdl : depthLimit - 2 + 2 = depthLimit := rfl
  have := inline_replace_safe_core (docs := docs) hs hh hhk hfw hp ht htf ho h1 hfuel
  rw [hdl] at this
  exact ⟨processDoc_congr this, outputDocument_congr (processDoc_congr this)⟩

-- non-vacuity: `a: {x: 1}, b: {$replace: a}, c: "$replace:a", d: {$replace: a}` — the entries
-- `c` and `d` refer to the target, not to the host `b`
example :
    let kvs : Fields := [("a", .map [("x", .int 1)]), ("b", .map [("$replace", .str "a")]),
      ("c", .str ("$replace:" ++ "a")), ("d", .map [("$replace", .str "a")])]
    Fields.SortedKeys kvs ∧ fget kvs "b" = some (.map [("$replace", .str "a")]) ∧
    refKey "b" = false ∧ Forwards (.map [("$replace", .str "a")]) (.str "a") ∧
    PathRef (.str "a") ["a"] ∧ getPath (.map kvs) ["a"] = .ok (.map [("x", .int 1)]) ∧
    refFree (.map [("x", .int 1)]) = true ∧ SafeFields "b" (fdel kvs "b") = true ∧
    fget kvs "$replace" = none ∧ depth (.map [("x", .int 1)]) + 2 < depthLimit := by
  refine ⟨by decide, by decide, by decide, forwards_map_replace (by decide) (by decide),
    pathRef_simpleKey simpleKey_a, rfl, by decide, ?_, by decide, by decide⟩
  have hfd : fdel [("a", Val.map [("x", .int 1)]), ("b", .map [("$replace", .str "a")]),
      ("c", .str ("$replace:" ++ "a")), ("d", .map [("$replace", .str "a")])] "b" =
      [("a", .map [("x", .int 1)]), ("c", .str ("$replace:" ++ "a")),
       ("d", .map [("$replace", .str "a")])] := by decide
  rw [hfd]
  have hsa := safeStrRef_a "b" (by decide)
  apply safeFields_of_mem
  intro q hq
  simp only [List.mem_cons, List.not_mem_nil, or_false] at hq
  rcases hq with rfl | rfl | rfl
  · exact ⟨by decide, safeStr_of_not_refStr (by decide), fun e => absurd e (by decide),
      refFree_safe "b" _ (by decide)⟩
  · exact ⟨by decide, safeStr_of_not_refStr (by decide), fun e => absurd e (by decide),
      safe_str_replace hsa⟩
  · exact ⟨by decide, safeStr_of_not_refStr (by decide), fun e => absurd e (by decide),
      safe_map_replace hsa (by decide)⟩

-- non-vacuity of the reference-free special case: `a: {x: 1}, b: {$replace: a}`
example :
    let kvs : Fields := [("a", .map [("x", .int 1)]), ("b", .map [("$replace", .str "a")])]
    refFreeFields (fdel kvs "b") = true ∧
    fset kvs "b" (.map [("x", .int 1)]) = [("a", .map [("x", .int 1)]), ("b", .map [("x", .int 1)])] :=
  ⟨by decide, by decide⟩

-- non-vacuity of the dotted-path and string forms: `a: {c: {x: 1}}, b: {$replace: a.c}` and
-- `a: {c: {x: 1}}, b: "$replace:a.c"`
example :
    let kvs : Fields := [("a", .map [("c", .map [("x", .int 1)])]),
      ("b", .map [("$replace", .str "a.c")])]
    Fields.SortedKeys kvs ∧ fget kvs "b" = some (.map [("$replace", .str "a.c")]) ∧
    refKey "b" = false ∧ fget [("$replace", Val.str "a.c")] "$merge" = none ∧
    fget [("$replace", Val.str "a.c")] "$replace" = some (.str "a.c") ∧
    parseRef "a.c" = some (.str "a.c") ∧ "a.c".splitOn "." = ["a", "c"] ∧
    getPath (.map kvs) ["a", "c"] = .ok (.map [("x", .int 1)]) ∧
    refFree (.map [("x", .int 1)]) = true ∧ SafeFields "b" (fdel kvs "b") = true ∧
    fget kvs "$replace" = none ∧ depth (.map [("x", .int 1)]) < 5 :=
  ⟨by decide, by decide, by decide, by decide, by decide, parseRef_a_c, splitOn_a_c, rfl,
   by decide, refFreeFields_safe "b" _ (by decide), by decide, by decide⟩

example :
    let kvs : Fields := [("a", .map [("c", .map [("x", .int 1)])]),
      ("b", .str ("$replace:" ++ "a.c"))]
    Fields.SortedKeys kvs ∧ fget kvs "b" = some (.str ("$replace:" ++ "a.c")) ∧
    getPath (.map kvs) ["a", "c"] = .ok (.map [("x", .int 1)]) ∧
    SafeFields "b" (fdel kvs "b") = true ∧ fget kvs "$replace" = none ∧
    ("$replace:" ++ "a.c" : String) = "$replace:a.c" :=
  ⟨by decide, by decide, rfl, refFreeFields_safe "b" _ (by decide), by decide, by decide⟩

/-- **FALSE without the restriction on the other entries.**  In
    `a: {$merge: b, x: 1}, b: {$replace: c}, c: {x: 1}` the host `b` satisfies every hypothesis
    about host and target (the target `c` is reference-free, host and target are disjoint), but
    the entry `a` merges the raw host map `{$replace: c}` into itself and becomes a `$replace`
    host: the document evaluates to `{a: {x: 1}, b: {x: 1}, c: {x: 1}}`, whereas with `{x: 1}`
    written inline at `b` the entry `a` is the conflicting merge of `{x: 1}` with `{x: 1}`.
    (For every fuel ≥ 5, in particular the depth limit.) -/
theorem C10_inline_replace_false (fuel : Nat) (docs : List Val) :
    Fields.SortedKeys cexHostMerged ∧ Val.WF (.map cexHostMerged) ∧
    fget cexHostMerged "b" = some (.map [("$replace", .str "c")]) ∧
    PathRef (.str "c") ["c"] ∧ getPath (.map cexHostMerged) ["c"] = .ok (.map [("x", .int 1)]) ∧
    refFree (.map [("x", .int 1)]) = true ∧
    Except.map Prod.fst
      (process1 (fuel + 5) docs (.map cexHostMerged) (some []) (.map cexHostMerged)) =
      .ok (.map [("a", .map [("x", .int 1)]), ("b", .map [("x", .int 1)]),
                 ("c", .map [("x", .int 1)])]) ∧
    Except.map Prod.fst
      (process1 (fuel + 5) docs (.map (fset cexHostMerged "b" (.map [("x", .int 1)]))) (some [])
        (.map (fset cexHostMerged "b" (.map [("x", .int 1)])))) = .error .uselessOverride :=
  ⟨by decide, by decide, by decide, pathRef_simpleKey simpleKey_c, rfl, by decide,
   cexHostMerged_ref fuel docs, by rw [cexHostMerged_inline (fuel + 2) docs]; rfl⟩

/-- the same at the level of `processDoc`: the inline document is an error, the referencing
    document is not that error -/
theorem C10_inline_replace_false_processDoc (docs : List Val) (env : Vars) :
    processDoc docs env (.map (fset cexHostMerged "b" (.map [("x", .int 1)]))) =
      .error .uselessOverride ∧
    processDoc docs env (.map cexHostMerged) ≠ .error .uselessOverride := by
  constructor
  · unfold processDoc
    rw [show depthLimit = 997 + 3 from rfl, cexHostMerged_inline 997 docs]; rfl
  · intro h
    unfold processDoc at h
    obtain ⟨r', hr'⟩ := ok_of_map_fst (cexHostMerged_ref 995 docs)
    rw [show depthLimit = 995 + 5 from rfl, hr'] at h
    simp only [R_bind_ok] at h
    have hrep : repeatDoc (.map [("a", .map [("x", .int 1)]), ("b", .map [("x", .int 1)]),
        ("c", .map [("x", .int 1)])]) env =
        .ok [(.map [("a", .map [("x", .int 1)]), ("b", .map [("x", .int 1)]),
          ("c", .map [("x", .int 1)])], env)] := rfl
    rw [hrep] at h
    simp only [R_bind_ok, mapM_cons, List.mapM_nil] at h
    rw [show 995 + 5 = depthLimit from rfl,
      e_process2_plain depthLimit docs _ env _ (by decide) (by decide) (by decide)] at h
    cases h

/-- **FALSE at the depth limit.**  Following the reference costs one level of the depth guard:
    with `a: nest n` (`n` nested singleton lists) and `b: {$replace: a}`, fuel `n + 2` evaluates
    the inline document but reports `circularRef` for the referencing one.  With `n = 998` the
    fuel is the depth guard of process1.go (`depthLimit`). -/
theorem C10_inline_replace_depth_false (n : Nat) (docs : List Val) :
    refFree (nest n) = true ∧ depth (nest n) = n ∧
    getPath (.map (cexDeep n)) ["a"] = .ok (nest n) ∧
    process1 (n + 2) docs (.map (cexDeep n)) (some []) (.map (cexDeep n)) = .error .circularRef ∧
    process1 (n + 2) docs (.map (fset (cexDeep n) "b" (nest n))) (some [])
      (.map (fset (cexDeep n) "b" (nest n))) =
      .ok (.map [("a", nest n), ("b", nest n)], .map [("a", nest n), ("b", nest n)]) :=
  ⟨nest_refFree n, (e_nest_props n).2.2.1, rfl, cexDeep_ref n docs, cexDeep_inline n docs⟩

theorem C10_inline_replace_depth_false_processDoc (docs : List Val) (env : Vars) :
    processDoc docs env (.map (cexDeep 998)) = .error .circularRef ∧
    ∃ r, process1 depthLimit docs (.map (fset (cexDeep 998) "b" (nest 998))) (some [])
      (.map (fset (cexDeep 998) "b" (nest 998))) = .ok r := by
  constructor
  · unfold processDoc
    rw [show depthLimit = 998 + 2 from rfl, cexDeep_ref 998 docs]; rfl
  · exact ⟨_, cexDeep_inline 998 docs⟩

/-! ### `$merge` -/

/-- **`$merge`.**  The host is `h: {$merge: ref, …local…}`; `ref` denotes the path `k :: ks`
    (`k ≠ h`: the target does not lie inside the host) which holds the reference-free `t`; no
    other entry reads the host.  If the ordinary merge of the local content with `t`
    (`merge local t`: the referenced value layered onto the local content, the direction of
    `C10_merge_map`) succeeds with `nv`, the document evaluates to the same value as the
    document with `nv` written in place of the host — unless the evaluation of `nv` needs the
    last two levels of the depth guard.  `t` may be a map (merged key by key), `null` (the local
    content alone) or, when there is no local content, a scalar or a list. -/
theorem C10_inline_merge_partial {fuel : Nat} {docs : List Val} {kvs m : Fields} {h k : String}
    {ref t nv : Val} {ks : List String}
    (hs : Fields.SortedKeys kvs) (hh : fget kvs h = some (.map m)) (hhk : refKey h = false)
    (hm : fget m "$merge" = some ref) (hp : PathRef ref (k :: ks)) (hk : k ≠ h)
    (ht : getPath (.map kvs) (k :: ks) = .ok t) (htf : refFree t = true)
    (ho : SafeFields h (fdel kvs h) = true) (h1 : fget kvs "$replace" = none)
    (hn : merge (.map (fdel m "$merge")) t = .ok nv)
    (hfuel : process1 fuel docs (.map (fset kvs h nv)) (some [.key h]) nv ≠ .error .circularRef) :
    Except.map Prod.fst (process1 (fuel + 2) docs (.map kvs) (some []) (.map kvs)) =
      Except.map Prod.fst
        (process1 (fuel + 2) docs (.map (fset kvs h nv)) (some []) (.map (fset kvs h nv))) :=
  inline_merge_safe_core hs hh hhk hm hp hk ht (Or.inr (Or.inr htf)) ho h1 hn hfuel

/-- When the referenced value is a map (without the `$replace: true` marker) it need not be
    reference-free, and neither need the local content: the merged map is evaluated in place of
    the host in both documents. -/
theorem C10_inline_merge_map_partial {fuel : Nat} {docs : List Val} {kvs m s : Fields}
    {h k : String} {ref nv : Val} {ks : List String}
    (hs : Fields.SortedKeys kvs) (hh : fget kvs h = some (.map m)) (hhk : refKey h = false)
    (hm : fget m "$merge" = some ref) (hp : PathRef ref (k :: ks)) (hk : k ≠ h)
    (ht : getPath (.map kvs) (k :: ks) = .ok (.map s)) (hr : fhasBool s "$replace" true = false)
    (ho : SafeFields h (fdel kvs h) = true) (h1 : fget kvs "$replace" = none)
    (hn : merge (.map (fdel m "$merge")) (.map s) = .ok nv)
    (hfuel : process1 fuel docs (.map (fset kvs h nv)) (some [.key h]) nv ≠ .error .circularRef) :
    Except.map Prod.fst (process1 (fuel + 2) docs (.map kvs) (some []) (.map kvs)) =
      Except.map Prod.fst
        (process1 (fuel + 2) docs (.map (fset kvs h nv)) (some []) (.map (fset kvs h nv))) :=
  inline_merge_safe_core hs hh hhk hm hp hk ht (Or.inl ⟨s, rfl, hr⟩) ho h1 hn hfuel

/-- … and when the ordinary merge fails, the document fails (with that error, unless an entry
    before the host has failed already). -/
theorem C10_inline_merge_conflict_safe_partial {fuel : Nat} {docs : List Val} {kvs m : Fields}
    {h k : String} {ref t : Val} {ks : List String} {e : Err}
    (hs : Fields.SortedKeys kvs) (hh : fget kvs h = some (.map m)) (hhk : refKey h = false)
    (hm : fget m "$merge" = some ref) (hp : PathRef ref (k :: ks)) (hk : k ≠ h)
    (ht : getPath (.map kvs) (k :: ks) = .ok t) (htf : refFree t = true)
    (ho : SafeFields h (fdel kvs h) = true) (h1 : fget kvs "$replace" = none)
    (hn : merge (.map (fdel m "$merge")) t = .error e) :
    ∃ e', process1 (fuel + 2) docs (.map kvs) (some []) (.map kvs) = .error e' :=
  inline_merge_error_safe_core hs hh hhk hm hp hk ht (Or.inr (Or.inr htf)) ho h1 hn

/-- With reference-free other entries within the depth guard the error is exactly the error of
    the merge. -/
theorem C10_inline_merge_conflict_partial {fuel : Nat} {docs : List Val} {kvs m : Fields}
    {h k : String} {ref t : Val} {ks : List String} {e : Err}
    (hs : Fields.SortedKeys kvs) (hh : fget kvs h = some (.map m)) (hhk : refKey h = false)
    (hm : fget m "$merge" = some ref) (hp : PathRef ref (k :: ks)) (hk : k ≠ h)
    (ht : getPath (.map kvs) (k :: ks) = .ok t) (htf : refFree t = true)
    (ho : refFreeFields (fdel kvs h) = true)
    (hd : ∀ p ∈ fdel kvs h, depth p.2 < fuel + 1)
    (hn : merge (.map (fdel m "$merge")) t = .error e) :
    process1 (fuel + 2) docs (.map kvs) (some []) (.map kvs) = .error e :=
  inline_merge_error_core hs hh hhk hm hp hk ht (Or.inr (Or.inr htf)) ho hd hn

/-- the same at the level of `processDoc` / `outputDocument` -/
theorem C10_inline_merge_output_partial {docs : List Val} {env : Vars} {kvs m : Fields}
    {h k : String} {ref t nv : Val} {ks : List String}
    (hs : Fields.SortedKeys kvs) (hh : fget kvs h = some (.map m)) (hhk : refKey h = false)
    (hm : fget m "$merge" = some ref) (hp : PathRef ref (k :: ks)) (hk : k ≠ h)
    (ht : getPath (.map kvs) (k :: ks) = .ok t) (htf : refFree t = true)
    (ho : SafeFields h (fdel kvs h) = true) (h1 : fget kvs "$replace" = none)
    (hn : merge (.map (fdel m "$merge")) t = .ok nv)
    (hfuel : process1 (depthLimit - 2) docs (.map (fset kvs h nv)) (some [.key h]) nv ≠
      .error .circularRef) :
    processDoc docs env (.map kvs) = processDoc docs env (.map (fset kvs h nv)) ∧
    outputDocument docs env (.map kvs) = outputDocument docs env (.map (fset kvs h nv)) := by
  have hdl : depthLimit - 2 + 2 = depthLimit := rfl
  have := inline_merge_safe_core hs hh hhk hm hp hk ht (Or.inr (Or.inr htf)) ho h1 hn hfuel
  rw [hdl] at this
  exact ⟨processDoc_congr this, outputDocument_congr (processDoc_congr this)⟩

theorem C10_inline_merge_conflict_output_partial {docs : List Val} {env : Vars} {kvs m : Fields}
    {h k : String} {ref t : Val} {ks : List String} {e : Err}
    (hs : Fields.SortedKeys kvs) (hh : fget kvs h = some (.map m)) (hhk : refKey h = false)
    (hm : fget m "$merge" = some ref) (hp : PathRef ref (k :: ks)) (hk : k ≠ h)
    (ht : getPath (.map kvs) (k :: ks) = .ok t) (htf : refFree t = true)
    (ho : refFreeFields (fdel kvs h) = true)
    (hd : ∀ p ∈ fdel kvs h, depth p.2 + 1 < depthLimit)
    (hn : merge (.map (fdel m "$merge")) t = .error e) :
    processDoc docs env (.map kvs) = .error e ∧ outputDocument docs env (.map kvs) = .error e := by
  have hdl : depthLimit - 2 + 2 = depthLimit := rfl
  have := inline_merge_error_core (fuel := depthLimit - 2) (docs := docs) hs hh hhk hm hp hk ht
    (Or.inr (Or.inr htf)) ho (fun p hp => by have := hd p hp; omega) hn
  rw [hdl] at this
  have h1 : processDoc docs env (.map kvs) = .error e := by
    unfold processDoc; rw [this]; rfl
  exact ⟨h1, by unfold outputDocument; rw [h1]; rfl⟩

-- non-vacuity: `a: {y: 2}, b: {$merge: a, x: 1}`; inline document `a: {y: 2}, b: {x: 1, y: 2}`
example (fuel : Nat) (docs : List Val) :
    let kvs : Fields := [("a", .map [("y", .int 2)]),
      ("b", .map [("$merge", .str "a"), ("x", .int 1)])]
    let nv : Val := .map [("x", .int 1), ("y", .int 2)]
    Fields.SortedKeys kvs ∧ fget kvs "b" = some (.map [("$merge", .str "a"), ("x", .int 1)]) ∧
    refKey "b" = false ∧ fget [("$merge", Val.str "a"), ("x", .int 1)] "$merge" = some (.str "a") ∧
    PathRef (.str "a") ["a"] ∧ "a" ≠ "b" ∧ getPath (.map kvs) ["a"] = .ok (.map [("y", .int 2)]) ∧
    refFree (.map [("y", .int 2)]) = true ∧ SafeFields "b" (fdel kvs "b") = true ∧
    fget kvs "$replace" = none ∧
    merge (.map (fdel [("$merge", Val.str "a"), ("x", .int 1)] "$merge")) (.map [("y", .int 2)]) =
      .ok nv ∧
    process1 (fuel + 2) docs (.map (fset kvs "b" nv)) (some [.key "b"]) nv ≠ .error .circularRef ∧
    fset kvs "b" nv = [("a", .map [("y", .int 2)]), ("b", nv)] :=
  ⟨by decide, by decide, by decide, by decide, pathRef_simpleKey simpleKey_a, by decide, rfl,
   by decide, refFreeFields_safe "b" _ (by decide), by decide, merge_x_y,
   refFree_ne_circ (by decide) (by have : depth (.map [("x", .int 1), ("y", .int 2)]) = 1 := by decide
                                   omega) _ _ _,
   by decide⟩

-- non-vacuity of the conflict law: `a: {x: 1}, b: {$merge: a, x: 1}`
example :
    let kvs : Fields := [("a", .map [("x", .int 1)]),
      ("b", .map [("$merge", .str "a"), ("x", .int 1)])]
    Fields.SortedKeys kvs ∧ getPath (.map kvs) ["a"] = .ok (.map [("x", .int 1)]) ∧
    refFreeFields (fdel kvs "b") = true ∧ (∀ p ∈ fdel kvs "b", depth p.2 + 1 < depthLimit) ∧
    merge (.map (fdel [("$merge", Val.str "a"), ("x", .int 1)] "$merge")) (.map [("x", .int 1)]) =
      .error .uselessOverride :=
  ⟨by decide, rfl, by decide, by decide, merge_x_x⟩

/-- **FALSE without the restriction on the other entries** (the `$merge` analogue).  In
    `a: {$replace: [b, $merge]}, b: {$merge: c, x: 1}, c: {y: 2}` the entry `a` reads the raw
    `$merge` key of the host `b` and evaluates to the string `c`; with the merged map
    `{x: 1, y: 2}` written inline at `b` that path does not exist. -/
theorem C10_inline_merge_false (fuel : Nat) (docs : List Val) :
    Fields.SortedKeys cexHostRead ∧ Val.WF (.map cexHostRead) ∧
    fget cexHostRead "b" = some (.map [("$merge", .str "c"), ("x", .int 1)]) ∧
    PathRef (.str "c") ["c"] ∧ getPath (.map cexHostRead) ["c"] = .ok (.map [("y", .int 2)]) ∧
    refFree (.map [("y", .int 2)]) = true ∧
    merge (.map (fdel [("$merge", Val.str "c"), ("x", .int 1)] "$merge")) (.map [("y", .int 2)]) =
      .ok (.map [("x", .int 1), ("y", .int 2)]) ∧
    Except.map Prod.fst
      (process1 (fuel + 4) docs (.map cexHostRead) (some []) (.map cexHostRead)) =
      .ok (.map [("a", .str "c"), ("b", .map [("x", .int 1), ("y", .int 2)]),
                 ("c", .map [("y", .int 2)])]) ∧
    Except.map Prod.fst
      (process1 (fuel + 4) docs
        (.map (fset cexHostRead "b" (.map [("x", .int 1), ("y", .int 2)]))) (some [])
        (.map (fset cexHostRead "b" (.map [("x", .int 1), ("y", .int 2)])))) =
      .error .refNotFound :=
  ⟨by decide, by decide, by decide, pathRef_simpleKey simpleKey_c, rfl, by decide, merge_x_y,
   cexHostRead_ref fuel docs, by rw [cexHostRead_inline (fuel + 2) docs]; rfl⟩

/-! ### chains of references -/

/-- **Chain.**  `a₁: "$replace:a₂"`, …, `aₖ₋₁: "$replace:aₖ"`, `aₖ: t` (`chainLinks`, every `aᵢ`
    a simple key; `t` arbitrary): the reference to `aᵢ` evaluates to exactly what (a copy of) `t`
    evaluates to, each link costing one unit of fuel. -/
theorem C10_chain {kvs : Fields} {t : Val} (pre : List String) (a : String) (rest : List String)
    (hc : chainLinks kvs t (pre ++ a :: rest)) (fuel : Nat) (docs : List Val) (loc : Loc) :
    process1 (fuel + rest.length + 1) docs (.map kvs) loc (.str ("$replace:" ++ a)) =
      process1 fuel docs (.map kvs) none t :=
  chain_ref rest a (chainLinks_suffix pre hc) fuel docs loc

/-- The value stored at `aᵢ` itself (for a reference-free `t`): what `t` evaluates to, whatever
    the stream, the location and the position in the chain; the root is not touched. -/
theorem C10_chain_values {kvs : Fields} {t : Val} (pre : List String) (a : String)
    (rest : List String) (hc : chainLinks kvs t (pre ++ a :: rest)) (htf : refFree t = true) :
    ∃ v, fget kvs a = some v ∧ ∀ (fuel : Nat) (docs : List Val) (loc : Loc),
      process1 (fuel + rest.length) docs (.map kvs) loc v =
        Except.map (fun r => (r.1, Val.map kvs)) (process1 fuel [] .null none t) :=
  chain_value (chainLinks_suffix pre hc) htf

/-- At the level of the document: if the document consists of the chain and of reference-free
    entries, every `aᵢ` of the evaluated document holds the evaluation `tv` of `t` (nothing, if
    `tv` is `null`), and the document root is unchanged. -/
theorem C10_chain_document {fuel : Nat} {docs : List Val} {kvs : Fields} {t tv v r' : Val}
    {as : List String}
    (hs : Fields.SortedKeys kvs) (hc : chainLinks kvs t as) (htf : refFree t = true)
    (hkeys : ∀ p ∈ kvs, refKey p.1 = false)
    (ho : ∀ p ∈ kvs, p.1 ∉ as → refFree p.2 = true)
    (htv : process1 fuel [] .null none t = .ok (tv, .null))
    (hrun : process1 (fuel + as.length + 1) docs (.map kvs) (some []) (.map kvs) = .ok (v, r')) :
    r' = .map kvs ∧ ∀ a ∈ as,
      getPath v [a] = if tv.isNull then .error .refNotFound else .ok tv :=
  chain_document_core hs hc htf hkeys ho htv hrun

-- non-vacuity: `a: "$replace:b", b: "$replace:c", c: {x: 1}`
example :
    let kvs : Fields := [("a", .str ("$replace:" ++ "b")), ("b", .str ("$replace:" ++ "c")),
      ("c", .map [("x", .int 1)])]
    chainLinks kvs (.map [("x", .int 1)]) ([] ++ "a" :: ["b", "c"]) ∧
    chainLinks kvs (.map [("x", .int 1)]) (["a"] ++ "b" :: ["c"]) ∧
    chainLinks kvs (.map [("x", .int 1)]) (["a", "b"] ++ "c" :: []) ∧
    Fields.SortedKeys kvs ∧ refFree (.map [("x", .int 1)]) = true ∧
    (∀ p ∈ kvs, refKey p.1 = false) ∧ (∀ p ∈ kvs, p.1 ∉ ["a", "b", "c"] → refFree p.2 = true) ∧
    process1 2 [] .null none (.map [("x", .int 1)]) = .ok (.map [("x", .int 1)], .null) := by
  have hc : chainLinks [("a", .str ("$replace:" ++ "b")), ("b", .str ("$replace:" ++ "c")),
      ("c", .map [("x", .int 1)])] (.map [("x", .int 1)]) ["a", "b", "c"] :=
    ⟨simpleKey_a, by decide, simpleKey_b, by decide, simpleKey_c, by decide⟩
  exact ⟨hc, hc, hc, by decide, by decide, by decide, by decide, by rfl⟩

/-- … and such a document does evaluate (the other entries are within the depth guard): the
    complete statement, without the hypothesis that the evaluation succeeds. -/
theorem C10_chain_document_ok {fuel : Nat} {docs : List Val} {kvs : Fields} {t tv : Val}
    {as : List String}
    (hs : Fields.SortedKeys kvs) (hc : chainLinks kvs t as) (htf : refFree t = true)
    (hkeys : ∀ p ∈ kvs, refKey p.1 = false)
    (ho : ∀ p ∈ kvs, p.1 ∉ as → refFree p.2 = true ∧ depth p.2 < fuel + as.length)
    (htv : process1 fuel [] .null none t = .ok (tv, .null)) :
    ∃ v, process1 (fuel + as.length + 1) docs (.map kvs) (some []) (.map kvs) =
        .ok (v, .map kvs) ∧
      ∀ a ∈ as, getPath v [a] = if tv.isNull then .error .refNotFound else .ok tv := by
  obtain ⟨v, hv⟩ := chain_document_ok (docs := docs) hs hc htf hkeys ho htv
  exact ⟨v, hv, (chain_document_core hs hc htf hkeys (fun p hp hm => (ho p hp hm).1) htv hv).2⟩

example :
    let kvs : Fields := [("a", .str ("$replace:" ++ "b")), ("b", .str ("$replace:" ++ "c")),
      ("c", .map [("x", .int 1)]), ("d", .int 7)]
    ∀ p ∈ kvs, p.1 ∉ ["a", "b", "c"] → refFree p.2 = true ∧ depth p.2 < 2 + 3 := by decide

/-! ### the referenced subtree is left unchanged -/

/-- **`$replace`: the referenced subtree in the result.**  In the setting of
    `C10_inline_replace_refFree_partial` (reference-free other entries), with a well-formed
    document and the target outside the host (`k ≠ h`): if the document evaluates to `(v, r')`
    then the threaded root is unchanged (`r' = root`; in particular the path still holds `t`),
    and in the evaluated document both the
    path `k :: ks` and the host key `h` hold the evaluation `tv` of `t` (both are absent when `tv`
    is `null`): expansion at the host did not alter the target. -/
theorem C10_referenced_unchanged_output {fuel : Nat} {docs : List Val} {kvs : Fields}
    {h k : String} {hostv ref t v r' : Val} {ks : List String}
    (hw : Val.WF (.map kvs)) (hh : fget kvs h = some hostv) (hhk : refKey h = false)
    (hfw : Forwards hostv ref) (hp : PathRef ref (k :: ks)) (hk : k ≠ h)
    (ht : getPath (.map kvs) (k :: ks) = .ok t)
    (htf : refFree t = true) (ho : refFreeFields (fdel kvs h) = true)
    (hrun : process1 (fuel + 2) docs (.map kvs) (some []) (.map kvs) = .ok (v, r')) :
    r' = .map kvs ∧ getPath r' (k :: ks) = .ok t ∧
    ∃ tv, process1 (fuel + 1) [] .null none t = .ok (tv, .null) ∧
      getPath v (k :: ks) = (if tv.isNull then .error .refNotFound else .ok tv) ∧
      getPath v [h] = (if tv.isNull then .error .refNotFound else .ok tv) := by
  obtain ⟨h1, h2⟩ := replace_unchanged_core hw hh hhk hfw hp hk ht htf ho hrun
  exact ⟨h1, by rw [h1]; exact ht, h2⟩

/-- **`$merge`: the referenced subtree in the result.**  In the setting of
    `C10_inline_merge_partial` with reference-free other entries (whatever the host does with the
    referenced value): if the document
    evaluates to `(v, r')` then the threaded root — in which the host has been expanded in place —
    still holds `t` at the path, and the evaluated document holds the evaluation of `t` there.
    (Connects `C10_target_unchanged` to the final result.) -/
theorem C10_referenced_unchanged_output_merge {fuel : Nat} {docs : List Val} {kvs m : Fields}
    {h k : String} {t v r' : Val} {ks : List String}
    (hw : Val.WF (.map kvs)) (hh : fget kvs h = some (.map m)) (hhk : refKey h = false)
    (hk : k ≠ h) (ht : getPath (.map kvs) (k :: ks) = .ok t)
    (ho : refFreeFields (fdel kvs h) = true)
    (hrun : process1 (fuel + 2) docs (.map kvs) (some []) (.map kvs) = .ok (v, r')) :
    getPath r' (k :: ks) = .ok t ∧
    ∃ tv, process1 (fuel + 1) [] .null none t = .ok (tv, .null) ∧
      getPath v (k :: ks) = (if tv.isNull then .error .refNotFound else .ok tv) :=
  merge_unchanged_core hw hh hhk hk ht ho hrun

-- non-vacuity: the two example documents do evaluate
example (fuel : Nat) (docs : List Val) :
    let kvs : Fields := [("a", .map [("x", .int 1)]), ("b", .map [("$replace", .str "a")])]
    Val.WF (.map kvs) ∧ "a" ≠ "b" ∧
    ∃ r', process1 (fuel + 2 + 2) docs (.map kvs) (some []) (.map kvs) =
      .ok (.map [("a", .map [("x", .int 1)]), ("b", .map [("x", .int 1)])], r') := by
  refine ⟨by decide, by decide, ?_⟩
  apply ok_of_map_fst
  rw [C10_inline_replace_partial (fuel := fuel + 2) (h := "b") (t := .map [("x", .int 1)])
    (hostv := .map [("$replace", .str "a")]) (ref := .str "a")
    (by decide) (by decide) (by decide) (forwards_map_replace (by decide) (by decide))
    (pathRef_simpleKey simpleKey_a) rfl (by decide) (refFreeFields_safe "b" _ (by decide))
    (by decide)
    (process1_refFree_ne_circ (by decide)
      (by have : depth (.map [("x", .int 1)]) = 1 := by decide
          omega))]
  have hk : fset [("a", .map [("x", .int 1)]), ("b", .map [("$replace", .str "a")])] "b"
      (.map [("x", .int 1)]) = [("a", .map [("x", .int 1)]), ("b", .map [("x", .int 1)])] := by
    decide
  rw [hk, process1_plain_eval docs _ _
    (x := .map [("a", .map [("x", .int 1)]), ("b", .map [("x", .int 1)])])
    (by decide) (by decide) (d := 2) (by decide) (by omega) (by decide)]
  rfl

example (fuel : Nat) (docs : List Val) :
    let kvs : Fields := [("a", .map [("y", .int 2)]),
      ("b", .map [("$merge", .str "a"), ("x", .int 1)])]
    Val.WF (.map kvs) ∧
    ∃ r', process1 (fuel + 2 + 2) docs (.map kvs) (some []) (.map kvs) =
      .ok (.map [("a", .map [("y", .int 2)]), ("b", .map [("x", .int 1), ("y", .int 2)])], r') := by
  refine ⟨by decide, ?_⟩
  apply ok_of_map_fst
  rw [C10_inline_merge_partial (fuel := fuel + 2) (h := "b") (k := "a") (ks := [])
    (t := .map [("y", .int 2)]) (nv := .map [("x", .int 1), ("y", .int 2)])
    (m := [("$merge", .str "a"), ("x", .int 1)]) (ref := .str "a")
    (by decide) (by decide) (by decide) (by decide) (pathRef_simpleKey simpleKey_a) (by decide)
    rfl (by decide) (refFreeFields_safe "b" _ (by decide)) (by decide) merge_x_y
    (refFree_ne_circ (by decide)
      (by have : depth (.map [("x", .int 1), ("y", .int 2)]) = 1 := by decide
          omega) _ _ _)]
  have hk : fset [("a", .map [("y", .int 2)]), ("b", .map [("$merge", .str "a"), ("x", .int 1)])]
      "b" (.map [("x", .int 1), ("y", .int 2)]) =
      [("a", .map [("y", .int 2)]), ("b", .map [("x", .int 1), ("y", .int 2)])] := by decide
  rw [hk, process1_plain_eval docs _ _
    (x := .map [("a", .map [("y", .int 2)]), ("b", .map [("x", .int 1), ("y", .int 2)])])
    (by decide) (by decide) (d := 2) (by decide) (by omega) (by decide)]
  rfl

/-! ## end to end, host at ARBITRARY DEPTH inside nested maps

  Setting.  The document root is `.map kvs`; the host sits at the NON-EMPTY key path
  `π = h :: ρ` through nested maps (`getPath (.map kvs) (h :: ρ) = .ok hostv`): `h` is the
  top-level key of the entry that contains the host, `ρ` the rest of the path (`ρ = []` is the
  top-level case of the theorems above).  "Written inline" is the document
  `c10n_setKeys (.map kvs) (h :: ρ) t`, i.e. the model's own `setPath` along the keys of the path
  (`c10n_setKeys root π x = setPath root (π.map .key) x`; `c10n_getPath_setKeys`: afterwards the
  path holds `x`; at `ρ = []` it is `.map (fset kvs h t)`).

  Hypothesis on the rest of the document — `c10n_around h (.map kvs) (h :: ρ) = true`:
  at EVERY level along the path (the document itself, the entry `h`, …, the map that holds the
  host) the map is sorted, the key of the path is not a reference key (`refKey k = false`), and
  the SIBLINGS of the path are `SafeFields h`: they contain no map-level `$merge` key and every
  reference in them (value of a `$replace` key, `$merge:` / `$replace:` string, leaf or key) is a
  string or list path into the document whose FIRST key is not `h = π.head` — so no reference
  outside the host is a prefix of `π`, extends `π`, or even enters the top-level entry that
  contains the host.  Siblings may freely refer to other top-level entries and to the target.
  (`c10n_aroundFree`, reference-free siblings, is the `decide`-able special case:
  `c10n_around_of_free`.)  Maps on the way to the host may even carry a `$replace` key of their
  own (then neither document ever evaluates the host).

  Depth margin: one level of the depth guard per level of the path, plus the level that following
  the reference costs: `depth t + π.length + 1 < fuel` (tight at `π.length = 1`:
  `C10_inline_replace_depth_false`).
  Helper lemmas: `BklProofs/Lemmas/C10Nested.lean`. -/

/-- **`$replace`, host at depth.**  `hostv` — the value at the key path `h :: ρ` — forwards to
    `ref`, which denotes the path `ks` holding the reference-free subtree `t`; nothing outside the
    host reads the top-level entry `h` (`c10n_around`).  Unless `t` needs the last
    `ρ.length + 2` levels of the depth guard, the document evaluates to the same value (or the
    same error) as the document with `t` written at `h :: ρ`. -/
theorem C10_inline_replace_nested_partial {fuel : Nat} {docs : List Val} {kvs : Fields}
    {h : String} {ρ : List String} {hostv ref t : Val} {ks : List String}
    (hhost : getPath (.map kvs) (h :: ρ) = .ok hostv)
    (har : c10n_around h (.map kvs) (h :: ρ) = true)
    (hfw : Forwards hostv ref) (hp : PathRef ref ks) (ht : getPath (.map kvs) ks = .ok t)
    (htf : refFree t = true)
    (hfuel : process1 fuel [] .null none t ≠ .error .circularRef) :
    Except.map Prod.fst
        (process1 (fuel + ρ.length + 2) docs (.map kvs) (some []) (.map kvs)) =
      Except.map Prod.fst
        (process1 (fuel + ρ.length + 2) docs (c10n_setKeys (.map kvs) (h :: ρ) t) (some [])
          (c10n_setKeys (.map kvs) (h :: ρ) t)) :=
  c10n_inline_replace_core hhost har hfw hp ht htf hfuel

/-- the same for an arbitrary non-empty key path `π` (`π.head` in place of `h`), with the depth
    margin spelled out: `depth t + π.length + 1 < fuel'` -/
theorem C10_inline_replace_nested_path_partial {fuel' : Nat} {docs : List Val} {kvs : Fields}
    {π : List String} {hostv ref t : Val} {ks : List String} (hne : π ≠ [])
    (hhost : getPath (.map kvs) π = .ok hostv)
    (har : c10n_around (π.head hne) (.map kvs) π = true)
    (hfw : Forwards hostv ref) (hp : PathRef ref ks) (ht : getPath (.map kvs) ks = .ok t)
    (htf : refFree t = true) (hd : depth t + π.length + 1 < fuel') :
    Except.map Prod.fst (process1 fuel' docs (.map kvs) (some []) (.map kvs)) =
      Except.map Prod.fst
        (process1 fuel' docs (c10n_setKeys (.map kvs) π t) (some [])
          (c10n_setKeys (.map kvs) π t)) := by
  cases π with
  | nil => exact absurd rfl hne
  | cons h ρ =>
    simp only [List.head_cons] at har
    simp only [List.length_cons] at hd
    have hfuel : process1 (fuel' - ρ.length - 2) [] .null none t ≠ .error .circularRef :=
      process1_refFree_ne_circ htf (by omega)
    have hf : fuel' - ρ.length - 2 + ρ.length + 2 = fuel' := by omega
    have := c10n_inline_replace_core (docs := docs) hhost har hfw hp ht htf hfuel
    rw [hf] at this
    exact this

/-- **Sanity: the top-level theorem is the special case `π = [h]`.**  From the hypotheses of
    `C10_inline_replace_partial` (its `h1` is not even needed), by
    `C10_inline_replace_nested_partial` at `ρ = []`. -/
theorem C10_inline_replace_nested_top {fuel : Nat} {docs : List Val} {kvs : Fields} {h : String}
    {hostv ref t : Val} {ks : List String}
    (hs : Fields.SortedKeys kvs) (hh : fget kvs h = some hostv) (hhk : refKey h = false)
    (hfw : Forwards hostv ref) (hp : PathRef ref ks) (ht : getPath (.map kvs) ks = .ok t)
    (htf : refFree t = true) (ho : SafeFields h (fdel kvs h) = true)
    (hfuel : process1 fuel [] .null none t ≠ .error .circularRef) :
    Except.map Prod.fst (process1 (fuel + 2) docs (.map kvs) (some []) (.map kvs)) =
      Except.map Prod.fst
        (process1 (fuel + 2) docs (.map (fset kvs h t)) (some []) (.map (fset kvs h t))) := by
  have hhost : getPath (.map kvs) [h] = .ok hostv := by simp only [getPath, hh]; rfl
  have har : c10n_around h (.map kvs) [h] = true :=
    c10n_around_intro hs hhk ho hh (c10n_around_nil h hostv)
  have := C10_inline_replace_nested_partial (docs := docs) hhost har hfw hp ht htf hfuel
  rw [c10n_setKeys_cons [] t hh, c10n_setKeys_nil, List.length_nil, Nat.add_zero] at this
  exact this

/-- the special case where the siblings at every level are reference-free -/
theorem C10_inline_replace_nested_refFree_partial {fuel : Nat} {docs : List Val} {kvs : Fields}
    {h : String} {ρ : List String} {hostv ref t : Val} {ks : List String}
    (hhost : getPath (.map kvs) (h :: ρ) = .ok hostv)
    (har : c10n_aroundFree (.map kvs) (h :: ρ) = true)
    (hfw : Forwards hostv ref) (hp : PathRef ref ks) (ht : getPath (.map kvs) ks = .ok t)
    (htf : refFree t = true)
    (hfuel : process1 fuel [] .null none t ≠ .error .circularRef) :
    Except.map Prod.fst
        (process1 (fuel + ρ.length + 2) docs (.map kvs) (some []) (.map kvs)) =
      Except.map Prod.fst
        (process1 (fuel + ρ.length + 2) docs (c10n_setKeys (.map kvs) (h :: ρ) t) (some [])
          (c10n_setKeys (.map kvs) (h :: ρ) t)) :=
  c10n_inline_replace_core hhost (c10n_around_of_free h _ _ har) hfw hp ht htf hfuel

/-- At the level of `processDoc` / `outputDocument` (fuel = the depth guard of process1.go): the
    referencing document and the document with the subtree written at the host's path produce
    the same output documents, or the same error. -/
theorem C10_inline_replace_nested_output_partial {docs : List Val} {env : Vars} {kvs : Fields}
    {h : String} {ρ : List String} {hostv ref t : Val} {ks : List String}
    (hhost : getPath (.map kvs) (h :: ρ) = .ok hostv)
    (har : c10n_around h (.map kvs) (h :: ρ) = true)
    (hfw : Forwards hostv ref) (hp : PathRef ref ks) (ht : getPath (.map kvs) ks = .ok t)
    (htf : refFree t = true) (hd : depth t + ρ.length + 2 < depthLimit) :
    processDoc docs env (.map kvs) =
      processDoc docs env (c10n_setKeys (.map kvs) (h :: ρ) t) ∧
    outputDocument docs env (.map kvs) =
      outputDocument docs env (c10n_setKeys (.map kvs) (h :: ρ) t) := by
  have := C10_inline_replace_nested_path_partial (fuel' := depthLimit) (docs := docs)
    (π := h :: ρ) (List.cons_ne_nil h ρ) hhost har hfw hp ht htf
    (by simp only [List.length_cons]; omega)
  exact ⟨processDoc_congr this, outputDocument_congr (processDoc_congr this)⟩

-- non-vacuity: `a: {x: 1}`, `p: {q: {h: {$replace: a}, s: 2}}` — the host is three levels deep
-- (`π = [p, q, h]`); every hypothesis holds, the inline document is
-- `a: {x: 1}, p: {q: {h: {x: 1}, s: 2}}`, and both documents evaluate to it
example (fuel : Nat) (docs : List Val) :
    let kvs : Fields := [("a", .map [("x", .int 1)]),
      ("p", .map [("q", .map [("h", .map [("$replace", .str "a")]), ("s", .int 2)])])]
    let out : Val := .map [("a", .map [("x", .int 1)]),
      ("p", .map [("q", .map [("h", .map [("x", .int 1)]), ("s", .int 2)])])]
    getPath (.map kvs) ["p", "q", "h"] = .ok (.map [("$replace", .str "a")]) ∧
    c10n_aroundFree (.map kvs) ["p", "q", "h"] = true ∧
    c10n_around "p" (.map kvs) ["p", "q", "h"] = true ∧
    Forwards (.map [("$replace", .str "a")]) (.str "a") ∧ PathRef (.str "a") ["a"] ∧
    getPath (.map kvs) ["a"] = .ok (.map [("x", .int 1)]) ∧
    refFree (.map [("x", .int 1)]) = true ∧
    depth (.map [("x", .int 1)]) + ["q", "h"].length + 2 < depthLimit ∧
    c10n_setKeys (.map kvs) ["p", "q", "h"] (.map [("x", .int 1)]) = out ∧
    Except.map Prod.fst
      (process1 (fuel + 2 + 2 + 2) docs (.map kvs) (some []) (.map kvs)) = .ok out ∧
    Except.map Prod.fst (process1 (fuel + 2 + 2 + 2) docs out (some []) out) = .ok out := by
  intro kvs out
  have hfree : c10n_aroundFree (.map kvs) ["p", "q", "h"] = true := by decide
  have hset : c10n_setKeys (.map kvs) ["p", "q", "h"] (.map [("x", .int 1)]) = out := by decide
  have hout : Except.map Prod.fst (process1 (fuel + 2 + 2 + 2) docs out (some []) out) =
      .ok out := by
    rw [process1_plain_eval docs _ _ (x := out) (by decide) (by decide) (d := 4) (by decide)
      (by omega) (by decide)]
    rfl
  refine ⟨rfl, hfree, c10n_around_of_free "p" _ _ hfree,
    forwards_map_replace (by decide) (by decide), pathRef_simpleKey simpleKey_a, rfl, by decide,
    by decide, hset, ?_, hout⟩
  have hdt : depth (.map [("x", .int 1)]) < fuel + 2 := by
    have : depth (.map [("x", .int 1)]) = 1 := by decide
    omega
  have key := C10_inline_replace_nested_partial (docs := docs) (fuel := fuel + 2) (h := "p")
    (ρ := ["q", "h"]) (kvs := kvs)
    (t := .map [("x", .int 1)]) (hostv := .map [("$replace", .str "a")]) (ref := .str "a")
    rfl (c10n_around_of_free "p" _ _ hfree) (forwards_map_replace (by decide) (by decide))
    (pathRef_simpleKey simpleKey_a) rfl (by decide)
    (process1_refFree_ne_circ (by decide) hdt)
  rw [hset] at key
  exact key.trans hout

-- non-vacuity of the sibling condition beyond reference-free siblings:
-- `a: {x: 1}`, `p: {q: {h: {$replace: a}, s: "$replace:a"}}`, `r: {$replace: a}` — the sibling
-- `s` of the host and the top-level entry `r` refer to the target `a`, not into the entry `p`
example :
    let kvs : Fields := [("a", .map [("x", .int 1)]),
      ("p", .map [("q", .map [("h", .map [("$replace", .str "a")]),
                              ("s", .str ("$replace:" ++ "a"))])]),
      ("r", .map [("$replace", .str "a")])]
    getPath (.map kvs) ["p", "q", "h"] = .ok (.map [("$replace", .str "a")]) ∧
    c10n_around "p" (.map kvs) ["p", "q", "h"] = true := by
  intro kvs
  refine ⟨rfl, ?_⟩
  have hsa := safeStrRef_a "p" (by decide)
  have hnil : SafeFields "p" [] = true := rfl
  refine c10n_around_intro (c := .map [("q", .map [("h", .map [("$replace", .str "a")]),
      ("s", .str ("$replace:" ++ "a"))])]) (by decide) (by decide) ?_ (by decide) ?_
  · have hfd : fdel kvs "p" =
        [("a", .map [("x", .int 1)]), ("r", .map [("$replace", .str "a")])] := by decide
    rw [hfd]
    apply safeFields_of_mem
    intro q hq
    simp only [List.mem_cons, List.not_mem_nil, or_false] at hq
    rcases hq with rfl | rfl
    · exact ⟨by decide, safeStr_of_not_refStr (by decide), fun e => absurd e (by decide),
        refFree_safe "p" _ (by decide)⟩
    · exact ⟨by decide, safeStr_of_not_refStr (by decide), fun e => absurd e (by decide),
        safe_map_replace hsa (by decide)⟩
  · refine c10n_around_intro (c := .map [("h", .map [("$replace", .str "a")]),
        ("s", .str ("$replace:" ++ "a"))]) (by decide) (by decide) ?_ (by decide) ?_
    · have hfd : fdel [("q", Val.map [("h", .map [("$replace", .str "a")]),
          ("s", .str ("$replace:" ++ "a"))])] "q" = [] := by decide
      rw [hfd]; exact hnil
    · refine c10n_around_intro (c := .map [("$replace", .str "a")]) (by decide) (by decide) ?_
        (by decide) (c10n_around_nil _ _)
      have hfd : fdel [("h", Val.map [("$replace", .str "a")]),
          ("s", .str ("$replace:" ++ "a"))] "h" = [("s", .str ("$replace:" ++ "a"))] := by decide
      rw [hfd]
      apply safeFields_of_mem
      intro q hq
      simp only [List.mem_cons, List.not_mem_nil, or_false] at hq
      subst hq
      exact ⟨by decide, safeStr_of_not_refStr (by decide), fun e => absurd e (by decide),
        safe_str_replace hsa⟩

/-! ### `$merge`, host at depth -/

/-- **`$merge`, host at depth.**  The host at the key path `h :: ρ` is `{$merge: ref, …local…}`;
    `ref` denotes the path `k :: ks` with `k ≠ h` (the target lies outside the top-level entry
    that contains the host) holding the reference-free `t`; nothing outside the host reads the
    top-level entry `h` (`c10n_around`).  If `merge local t` succeeds with `nv`, the document
    evaluates to the same value (or error) as the document with `nv` written at `h :: ρ` — unless
    the in-place evaluation of `nv` needs the last `ρ.length + 2` levels of the depth guard. -/
theorem C10_inline_merge_nested_partial {fuel : Nat} {docs : List Val} {kvs m : Fields}
    {h k : String} {ρ : List String} {ref t nv : Val} {ks : List String}
    (hhost : getPath (.map kvs) (h :: ρ) = .ok (.map m))
    (har : c10n_around h (.map kvs) (h :: ρ) = true)
    (hm : fget m "$merge" = some ref) (hp : PathRef ref (k :: ks)) (hk : k ≠ h)
    (ht : getPath (.map kvs) (k :: ks) = .ok t) (htf : refFree t = true)
    (hn : merge (.map (fdel m "$merge")) t = .ok nv)
    (hfuel : process1 fuel docs (c10n_setKeys (.map kvs) (h :: ρ) nv)
      (some ((h :: ρ).map PathElem.key)) nv ≠ .error .circularRef) :
    Except.map Prod.fst
        (process1 (fuel + ρ.length + 2) docs (.map kvs) (some []) (.map kvs)) =
      Except.map Prod.fst
        (process1 (fuel + ρ.length + 2) docs (c10n_setKeys (.map kvs) (h :: ρ) nv) (some [])
          (c10n_setKeys (.map kvs) (h :: ρ) nv)) :=
  c10n_inline_merge_core hhost har hm hp hk ht (Or.inr (Or.inr htf)) hn hfuel

/-- When the referenced value is a map (without the `$replace: true` marker) it need not be
    reference-free, and neither need the local content: the merged map is evaluated in place of
    the host in both documents. -/
theorem C10_inline_merge_nested_map_partial {fuel : Nat} {docs : List Val} {kvs m s : Fields}
    {h k : String} {ρ : List String} {ref nv : Val} {ks : List String}
    (hhost : getPath (.map kvs) (h :: ρ) = .ok (.map m))
    (har : c10n_around h (.map kvs) (h :: ρ) = true)
    (hm : fget m "$merge" = some ref) (hp : PathRef ref (k :: ks)) (hk : k ≠ h)
    (ht : getPath (.map kvs) (k :: ks) = .ok (.map s)) (hr : fhasBool s "$replace" true = false)
    (hn : merge (.map (fdel m "$merge")) (.map s) = .ok nv)
    (hfuel : process1 fuel docs (c10n_setKeys (.map kvs) (h :: ρ) nv)
      (some ((h :: ρ).map PathElem.key)) nv ≠ .error .circularRef) :
    Except.map Prod.fst
        (process1 (fuel + ρ.length + 2) docs (.map kvs) (some []) (.map kvs)) =
      Except.map Prod.fst
        (process1 (fuel + ρ.length + 2) docs (c10n_setKeys (.map kvs) (h :: ρ) nv) (some [])
          (c10n_setKeys (.map kvs) (h :: ρ) nv)) :=
  c10n_inline_merge_core hhost har hm hp hk ht (Or.inl ⟨s, rfl, hr⟩) hn hfuel

/-- **Sanity: `C10_inline_merge_partial` is the special case `π = [h]`** (its `h1` is not
    needed). -/
theorem C10_inline_merge_nested_top {fuel : Nat} {docs : List Val} {kvs m : Fields} {h k : String}
    {ref t nv : Val} {ks : List String}
    (hs : Fields.SortedKeys kvs) (hh : fget kvs h = some (.map m)) (hhk : refKey h = false)
    (hm : fget m "$merge" = some ref) (hp : PathRef ref (k :: ks)) (hk : k ≠ h)
    (ht : getPath (.map kvs) (k :: ks) = .ok t) (htf : refFree t = true)
    (ho : SafeFields h (fdel kvs h) = true)
    (hn : merge (.map (fdel m "$merge")) t = .ok nv)
    (hfuel : process1 fuel docs (.map (fset kvs h nv)) (some [.key h]) nv ≠ .error .circularRef) :
    Except.map Prod.fst (process1 (fuel + 2) docs (.map kvs) (some []) (.map kvs)) =
      Except.map Prod.fst
        (process1 (fuel + 2) docs (.map (fset kvs h nv)) (some []) (.map (fset kvs h nv))) := by
  have hhost : getPath (.map kvs) [h] = .ok (.map m) := by simp only [getPath, hh]; rfl
  have har : c10n_around h (.map kvs) [h] = true :=
    c10n_around_intro hs hhk ho hh (c10n_around_nil h _)
  have hset : c10n_setKeys (.map kvs) [h] nv = .map (fset kvs h nv) := by
    rw [c10n_setKeys_cons [] nv hh, c10n_setKeys_nil]
  have := C10_inline_merge_nested_partial (docs := docs) (fuel := fuel) hhost har hm hp hk ht htf
    hn (by rw [hset]; exact hfuel)
  rw [hset, List.length_nil, Nat.add_zero] at this
  exact this

/-- the same at the level of `processDoc` / `outputDocument` -/
theorem C10_inline_merge_nested_output_partial {docs : List Val} {env : Vars} {kvs m : Fields}
    {h k : String} {ρ : List String} {ref t nv : Val} {ks : List String}
    (hhost : getPath (.map kvs) (h :: ρ) = .ok (.map m))
    (har : c10n_around h (.map kvs) (h :: ρ) = true)
    (hm : fget m "$merge" = some ref) (hp : PathRef ref (k :: ks)) (hk : k ≠ h)
    (ht : getPath (.map kvs) (k :: ks) = .ok t) (htf : refFree t = true)
    (hn : merge (.map (fdel m "$merge")) t = .ok nv) (hlen : ρ.length + 2 ≤ depthLimit)
    (hfuel : process1 (depthLimit - ρ.length - 2) docs (c10n_setKeys (.map kvs) (h :: ρ) nv)
      (some ((h :: ρ).map PathElem.key)) nv ≠ .error .circularRef) :
    processDoc docs env (.map kvs) =
      processDoc docs env (c10n_setKeys (.map kvs) (h :: ρ) nv) ∧
    outputDocument docs env (.map kvs) =
      outputDocument docs env (c10n_setKeys (.map kvs) (h :: ρ) nv) := by
  have hdl : depthLimit - ρ.length - 2 + ρ.length + 2 = depthLimit := by omega
  have := C10_inline_merge_nested_partial (docs := docs) hhost har hm hp hk ht htf hn hfuel
  rw [hdl] at this
  exact ⟨processDoc_congr this, outputDocument_congr (processDoc_congr this)⟩

-- non-vacuity: `a: {y: 2}`, `p: {q: {h: {$merge: a, x: 1}, s: 2}}`; inline document
-- `a: {y: 2}, p: {q: {h: {x: 1, y: 2}, s: 2}}`; both evaluate to the latter
example (fuel : Nat) (docs : List Val) :
    let kvs : Fields := [("a", .map [("y", .int 2)]),
      ("p", .map [("q", .map [("h", .map [("$merge", .str "a"), ("x", .int 1)]),
                              ("s", .int 2)])])]
    let nv : Val := .map [("x", .int 1), ("y", .int 2)]
    let out : Val := .map [("a", .map [("y", .int 2)]),
      ("p", .map [("q", .map [("h", nv), ("s", .int 2)])])]
    getPath (.map kvs) ["p", "q", "h"] = .ok (.map [("$merge", .str "a"), ("x", .int 1)]) ∧
    c10n_around "p" (.map kvs) ["p", "q", "h"] = true ∧
    fget [("$merge", Val.str "a"), ("x", .int 1)] "$merge" = some (.str "a") ∧
    PathRef (.str "a") ["a"] ∧ "a" ≠ "p" ∧ getPath (.map kvs) ["a"] = .ok (.map [("y", .int 2)]) ∧
    refFree (.map [("y", .int 2)]) = true ∧
    merge (.map (fdel [("$merge", Val.str "a"), ("x", .int 1)] "$merge")) (.map [("y", .int 2)]) =
      .ok nv ∧
    c10n_setKeys (.map kvs) ["p", "q", "h"] nv = out ∧
    process1 (fuel + 2) docs out (some (["p", "q", "h"].map PathElem.key)) nv ≠
      .error .circularRef ∧
    Except.map Prod.fst
      (process1 (fuel + 2 + 2 + 2) docs (.map kvs) (some []) (.map kvs)) = .ok out ∧
    Except.map Prod.fst (process1 (fuel + 2 + 2 + 2) docs out (some []) out) = .ok out := by
  intro kvs nv out
  have hfree : c10n_aroundFree (.map kvs) ["p", "q", "h"] = true := by decide
  have hset : c10n_setKeys (.map kvs) ["p", "q", "h"] nv = out := by decide
  have hdn : depth nv < fuel + 2 := by
    have : depth nv = 1 := by decide
    omega
  have hne : process1 (fuel + 2) docs out (some (["p", "q", "h"].map PathElem.key)) nv ≠
      .error .circularRef := refFree_ne_circ (by decide) hdn _ _ _
  have hout : Except.map Prod.fst (process1 (fuel + 2 + 2 + 2) docs out (some []) out) =
      .ok out := by
    rw [process1_plain_eval docs _ _ (x := out) (by decide) (by decide) (d := 4) (by decide)
      (by omega) (by decide)]
    rfl
  refine ⟨rfl, c10n_around_of_free "p" _ _ hfree, by decide, pathRef_simpleKey simpleKey_a,
    by decide, rfl, by decide, merge_x_y, hset, hne, ?_, hout⟩
  have key := C10_inline_merge_nested_partial (docs := docs) (fuel := fuel + 2) (h := "p")
    (k := "a") (ks := []) (kvs := kvs)
    (ρ := ["q", "h"]) (t := .map [("y", .int 2)]) (nv := nv)
    (m := [("$merge", .str "a"), ("x", .int 1)]) (ref := .str "a")
    rfl (c10n_around_of_free "p" _ _ hfree) (by decide) (pathRef_simpleKey simpleKey_a)
    (by decide) rfl (by decide) merge_x_y (by rw [hset]; exact hne)
  rw [hset] at key
  exact key.trans hout

/-! ### the weakest sibling condition: references APART from the host's path

  `c10n_paround π root π = true`: at every level along the host's path `π` the map is sorted, the
  key of the path is not a reference key, and the siblings of the path are `c10n_pSafeF π`: no
  map-level `$merge` key, and every reference in them is a string or list key path `p` into the
  document with `c10n_apart p π` — `p` and `π` differ at some common position, i.e. `p` is
  neither a prefix of `π` (which would read the host or one of its ancestors) nor an extension of
  `π` (which would read inside the host).  Unlike `c10n_around`, such a reference MAY enter the
  top-level entry that contains the host (a sibling `p.q.s` of the host `p.q.h`).
  `c10n_paround_of_around`: the first-key condition of the theorems above is a special case.
  The root may be any value and `π` may be empty (the document itself is the host).
  Helper lemmas: `BklProofs/Lemmas/C10NestedPaths.lean`. -/

/-- **`$replace`, host at depth, references apart from the host's path.** -/
theorem C10_inline_replace_nested_apart_partial {fuel : Nat} {docs : List Val} {root : Val}
    {π : List String} {hostv ref t : Val} {ks : List String}
    (hhost : getPath root π = .ok hostv)
    (har : c10n_paround π root π = true)
    (hfw : Forwards hostv ref) (hp : PathRef ref ks) (ht : getPath root ks = .ok t)
    (htf : refFree t = true)
    (hfuel : process1 fuel [] .null none t ≠ .error .circularRef) :
    Except.map Prod.fst (process1 (fuel + π.length + 1) docs root (some []) root) =
      Except.map Prod.fst
        (process1 (fuel + π.length + 1) docs (c10n_setKeys root π t) (some [])
          (c10n_setKeys root π t)) :=
  c10n_inline_replace_apart_core hhost har hfw hp ht htf hfuel

/-- … at the level of `processDoc` / `outputDocument`, depth margin
    `depth t + π.length + 1 < depthLimit` -/
theorem C10_inline_replace_nested_apart_output_partial {docs : List Val} {env : Vars}
    {root : Val} {π : List String} {hostv ref t : Val} {ks : List String}
    (hhost : getPath root π = .ok hostv)
    (har : c10n_paround π root π = true)
    (hfw : Forwards hostv ref) (hp : PathRef ref ks) (ht : getPath root ks = .ok t)
    (htf : refFree t = true) (hd : depth t + π.length + 1 < depthLimit) :
    processDoc docs env root = processDoc docs env (c10n_setKeys root π t) ∧
    outputDocument docs env root = outputDocument docs env (c10n_setKeys root π t) := by
  have hfuel : process1 (depthLimit - π.length - 1) [] .null none t ≠ .error .circularRef :=
    process1_refFree_ne_circ htf (by omega)
  have hf : depthLimit - π.length - 1 + π.length + 1 = depthLimit := by omega
  have := c10n_inline_replace_apart_core (docs := docs) hhost har hfw hp ht htf hfuel
  rw [hf] at this
  exact ⟨processDoc_congr this, outputDocument_congr (processDoc_congr this)⟩

/-- **Sanity: the first-key theorem is a special case of the apart theorem.**  The statement of
    `C10_inline_replace_nested_partial`, proved from `C10_inline_replace_nested_apart_partial`. -/
theorem C10_inline_replace_nested_apart_generalises {fuel : Nat} {docs : List Val} {kvs : Fields}
    {h : String} {ρ : List String} {hostv ref t : Val} {ks : List String}
    (hhost : getPath (.map kvs) (h :: ρ) = .ok hostv)
    (har : c10n_around h (.map kvs) (h :: ρ) = true)
    (hfw : Forwards hostv ref) (hp : PathRef ref ks) (ht : getPath (.map kvs) ks = .ok t)
    (htf : refFree t = true)
    (hfuel : process1 fuel [] .null none t ≠ .error .circularRef) :
    Except.map Prod.fst
        (process1 (fuel + ρ.length + 2) docs (.map kvs) (some []) (.map kvs)) =
      Except.map Prod.fst
        (process1 (fuel + ρ.length + 2) docs (c10n_setKeys (.map kvs) (h :: ρ) t) (some [])
          (c10n_setKeys (.map kvs) (h :: ρ) t)) :=
  C10_inline_replace_nested_apart_partial hhost (c10n_paround_of_around h ρ _ _ har) hfw hp ht
    htf hfuel

/-- **`$merge`, host at depth, references apart from the host's path.**  The target path `ks`
    itself is apart from `π` (the target lies neither above nor inside the host); `t` is
    reference-free. -/
theorem C10_inline_merge_nested_apart_partial {fuel : Nat} {docs : List Val} {root : Val}
    {m : Fields} {π : List String} {ref t nv : Val} {ks : List String}
    (hhost : getPath root π = .ok (.map m))
    (har : c10n_paround π root π = true)
    (hm : fget m "$merge" = some ref) (hp : PathRef ref ks) (hk : c10n_apart ks π = true)
    (ht : getPath root ks = .ok t) (htf : refFree t = true)
    (hn : merge (.map (fdel m "$merge")) t = .ok nv)
    (hfuel : process1 fuel docs (c10n_setKeys root π nv)
      (some (π.map PathElem.key)) nv ≠ .error .circularRef) :
    Except.map Prod.fst (process1 (fuel + π.length + 1) docs root (some []) root) =
      Except.map Prod.fst
        (process1 (fuel + π.length + 1) docs (c10n_setKeys root π nv) (some [])
          (c10n_setKeys root π nv)) :=
  c10n_inline_merge_apart_core hhost har hm hp hk ht (Or.inr (Or.inr htf)) hn hfuel

/-- … when the referenced value is a map without the `$replace: true` marker it need not be
    reference-free -/
theorem C10_inline_merge_nested_apart_map_partial {fuel : Nat} {docs : List Val} {root : Val}
    {m s : Fields} {π : List String} {ref nv : Val} {ks : List String}
    (hhost : getPath root π = .ok (.map m))
    (har : c10n_paround π root π = true)
    (hm : fget m "$merge" = some ref) (hp : PathRef ref ks) (hk : c10n_apart ks π = true)
    (ht : getPath root ks = .ok (.map s)) (hr : fhasBool s "$replace" true = false)
    (hn : merge (.map (fdel m "$merge")) (.map s) = .ok nv)
    (hfuel : process1 fuel docs (c10n_setKeys root π nv)
      (some (π.map PathElem.key)) nv ≠ .error .circularRef) :
    Except.map Prod.fst (process1 (fuel + π.length + 1) docs root (some []) root) =
      Except.map Prod.fst
        (process1 (fuel + π.length + 1) docs (c10n_setKeys root π nv) (some [])
          (c10n_setKeys root π nv)) :=
  c10n_inline_merge_apart_core hhost har hm hp hk ht (Or.inl ⟨s, rfl, hr⟩) hn hfuel

/-- … at the level of `processDoc` / `outputDocument` -/
theorem C10_inline_merge_nested_apart_output_partial {docs : List Val} {env : Vars} {root : Val}
    {m : Fields} {π : List String} {ref t nv : Val} {ks : List String}
    (hhost : getPath root π = .ok (.map m))
    (har : c10n_paround π root π = true)
    (hm : fget m "$merge" = some ref) (hp : PathRef ref ks) (hk : c10n_apart ks π = true)
    (ht : getPath root ks = .ok t) (htf : refFree t = true)
    (hn : merge (.map (fdel m "$merge")) t = .ok nv) (hlen : π.length + 1 ≤ depthLimit)
    (hfuel : process1 (depthLimit - π.length - 1) docs (c10n_setKeys root π nv)
      (some (π.map PathElem.key)) nv ≠ .error .circularRef) :
    processDoc docs env root = processDoc docs env (c10n_setKeys root π nv) ∧
    outputDocument docs env root = outputDocument docs env (c10n_setKeys root π nv) := by
  have hf : depthLimit - π.length - 1 + π.length + 1 = depthLimit := by omega
  have := c10n_inline_merge_apart_core (docs := docs) hhost har hm hp hk ht
    (Or.inr (Or.inr htf)) hn hfuel
  rw [hf] at this
  exact ⟨processDoc_congr this, outputDocument_congr (processDoc_congr this)⟩

-- non-vacuity: `a: {x: 1}`, `p: {q: {h: {$replace: a}, s: 2}, u: {$replace: [p, q, s]}}` — the
-- entry `u` INSIDE the top-level entry `p` refers to the sibling `p.q.s` of the host `p.q.h`
-- (first key `p`: excluded by `c10n_around`, admitted by `c10n_paround`)
example :
    let root : Val := .map [("a", .map [("x", .int 1)]),
      ("p", .map [("q", .map [("h", .map [("$replace", .str "a")]), ("s", .int 2)]),
                  ("u", .map [("$replace", .list [.str "p", .str "q", .str "s"])])])]
    getPath root ["p", "q", "h"] = .ok (.map [("$replace", .str "a")]) ∧
    c10n_paround ["p", "q", "h"] root ["p", "q", "h"] = true ∧
    c10n_apart ["p", "q", "s"] ["p", "q", "h"] = true ∧
    c10n_apart ["a"] ["p", "q", "h"] = true ∧
    c10n_apart ["p", "q"] ["p", "q", "h"] = false ∧
    c10n_apart ["p", "q", "h", "$replace"] ["p", "q", "h"] = false ∧
    Forwards (.map [("$replace", .str "a")]) (.str "a") ∧ PathRef (.str "a") ["a"] ∧
    getPath root ["a"] = .ok (.map [("x", .int 1)]) ∧ refFree (.map [("x", .int 1)]) = true ∧
    depth (.map [("x", .int 1)]) + ["p", "q", "h"].length + 1 < depthLimit ∧
    c10n_setKeys root ["p", "q", "h"] (.map [("x", .int 1)]) =
      .map [("a", .map [("x", .int 1)]),
        ("p", .map [("q", .map [("h", .map [("x", .int 1)]), ("s", .int 2)]),
                    ("u", .map [("$replace", .list [.str "p", .str "q", .str "s"])])])] := by
  intro root
  refine ⟨rfl, ?_, by decide, by decide, by decide, by decide,
    forwards_map_replace (by decide) (by decide), pathRef_simpleKey simpleKey_a, rfl, by decide,
    by decide, by decide⟩
  have hnil : c10n_pSafeF ["p", "q", "h"] [] = true := rfl
  refine c10n_paround_intro
    (c := .map [("q", .map [("h", .map [("$replace", .str "a")]), ("s", .int 2)]),
                ("u", .map [("$replace", .list [.str "p", .str "q", .str "s"])])])
    (by decide) (by decide) ?_ (by decide) ?_
  · exact c10n_refFreeFields_pSafe _ _ (by decide)
  · refine c10n_paround_intro
      (c := .map [("h", .map [("$replace", .str "a")]), ("s", .int 2)])
      (by decide) (by decide) ?_ (by decide) ?_
    · have hfd : fdel [("q", Val.map [("h", .map [("$replace", .str "a")]), ("s", .int 2)]),
          ("u", .map [("$replace", .list [.str "p", .str "q", .str "s"])])] "q" =
          [("u", .map [("$replace", .list [.str "p", .str "q", .str "s"])])] := by decide
      rw [hfd]
      apply c10n_pSafeF_of_mem
      intro q hq
      simp only [List.mem_cons, List.not_mem_nil, or_false] at hq
      subst hq
      exact ⟨by decide, c10n_pSafeStr_of_not_refStr (by decide), fun e => absurd e (by decide),
        c10n_pSafe_map_replace_list (k := "p") (ks := ["q", "s"]) (by decide) (by decide)⟩
    · refine c10n_paround_intro (c := .map [("$replace", .str "a")]) (by decide) (by decide) ?_
        (by decide) (c10n_paround_nil _ _)
      exact c10n_refFreeFields_pSafe _ _ (by decide)

/-- **FALSE without the condition on the siblings INSIDE the top-level entry of the host.**  In
    `a: {x: 1}`, `p: {h: {$replace: a}, u: {$replace: [p, h, $replace]}}` the host `p.h` and the
    target `a` satisfy every hypothesis about host and target, and the other top-level entry is
    reference-free; but the sibling `u` of the host reads the raw `$replace` key of the host — its
    path `p.h.$replace` extends the host's path, `c10n_apart` fails — and evaluates to the string
    `a`; with `{x: 1}` written at `p.h` that path does not exist.  (Every fuel ≥ 5.) -/
theorem C10_inline_replace_nested_false (fuel : Nat) (docs : List Val) :
    Val.WF (.map c10n_cexRead) ∧
    getPath (.map c10n_cexRead) ["p", "h"] = .ok (.map [("$replace", .str "a")]) ∧
    Forwards (.map [("$replace", .str "a")]) (.str "a") ∧ PathRef (.str "a") ["a"] ∧
    getPath (.map c10n_cexRead) ["a"] = .ok (.map [("x", .int 1)]) ∧
    refFree (.map [("x", .int 1)]) = true ∧
    c10n_apart ["p", "h", "$replace"] ["p", "h"] = false ∧
    c10n_setKeys (.map c10n_cexRead) ["p", "h"] (.map [("x", .int 1)]) =
      .map [("a", .map [("x", .int 1)]),
        ("p", .map [("h", .map [("x", .int 1)]),
                    ("u", .map [("$replace", .list [.str "p", .str "h", .str "$replace"])])])] ∧
    Except.map Prod.fst
      (process1 (fuel + 5) docs (.map c10n_cexRead) (some []) (.map c10n_cexRead)) =
      .ok (.map [("a", .map [("x", .int 1)]),
                 ("p", .map [("h", .map [("x", .int 1)]), ("u", .str "a")])]) ∧
    Except.map Prod.fst
      (process1 (fuel + 5) docs
        (c10n_setKeys (.map c10n_cexRead) ["p", "h"] (.map [("x", .int 1)])) (some [])
        (c10n_setKeys (.map c10n_cexRead) ["p", "h"] (.map [("x", .int 1)]))) =
      .error .refNotFound :=
  ⟨by decide, rfl, forwards_map_replace (by decide) (by decide), pathRef_simpleKey simpleKey_a,
   rfl, by decide, by decide, by decide, c10n_cexRead_ref fuel docs,
   by rw [c10n_cexRead_inline (fuel + 1) docs]; rfl⟩

end Bkl
