/-
  C20 — "bklb / kubectl-bkl rewrite only file arguments; all else passes through".
  `wrapArgs` is `args.mapM wrapStep` (`wrapArgs_eq`): one independent step per argument.
-/
import BklProofs.Lemmas.Files
namespace Bkl

/-- The rewritten argv has the same length, and position by position every result is either
    the argument itself or the evaluation of the file that this argument resolves to. -/
theorem C20_length_order (fs : FS) (cwd : Comps) (env : Vars) (args : List String)
    (ws : List WArg) (h : wrapArgs fs cwd env args = .ok ws) :
    ws.length = args.length ∧
    ∀ (i : Nat) (a : String), args[i]? = some a →
      ∃ w, ws[i]? = some w ∧
        (w = .verbatim a ∨
          ∃ real f outs, fileMatch fs cwd a = .ok (real, f) ∧ w = .evaluated f outs) := by
  rw [wrapArgs_eq, mapM_R_ok_iff] at h
  refine ⟨(forall₂_length h).symm, ?_⟩
  intro i a ha
  obtain ⟨w, hw, hstep⟩ := forall₂_getElem? h i ha
  refine ⟨w, hw, ?_⟩
  unfold wrapStep at hstep
  cases hm : fileMatch fs cwd a with
  | error e =>
    rw [hm] at hstep
    simp only [Except.ok.injEq] at hstep
    exact .inl hstep.symm
  | ok rf =>
    obtain ⟨real, f⟩ := rf
    rw [hm] at hstep
    simp only at hstep
    split at hstep
    · cases hstep
    · split at hstep
      · cases hstep
      · rename_i outs _
        simp only [Except.ok.injEq] at hstep
        exact .inr ⟨real, f, outs, rfl, hstep.symm⟩

/-- non-vacuity (sample file system `chainFS`, cwd /w): `apply -f a.json` -/
example : wrapArgs chainFS ["w"] [] ["apply", "-f", "a.json"] =
    .ok [.verbatim "apply", .verbatim "-f", .evaluated "json" [.map [("x", .int 1)]]] :=
  chainFS_wrap_example

/-- An argument that `FileMatch` does not resolve is passed through byte for byte. -/
theorem C20_verbatim (fs : FS) (cwd : Comps) (env : Vars) (args : List String)
    (ws : List WArg) (h : wrapArgs fs cwd env args = .ok ws)
    (i : Nat) (a : String) (ha : args[i]? = some a) (e : Err)
    (hm : fileMatch fs cwd a = .error e) : ws[i]? = some (.verbatim a) := by
  rw [wrapArgs_eq, mapM_R_ok_iff] at h
  obtain ⟨w, hw, hstep⟩ := forall₂_getElem? h i ha
  unfold wrapStep at hstep
  rw [hm] at hstep
  simp only [Except.ok.injEq] at hstep
  rw [hw, hstep]

example : wrapArgs chainFS ["w"] [] ["apply", "-f", "a.json"] =
      .ok [.verbatim "apply", .verbatim "-f", .evaluated "json" [.map [("x", .int 1)]]] ∧
    ["apply", "-f", "a.json"][1]? = some "-f" ∧
    fileMatch chainFS ["w"] "-f" = .error .invalidType :=
  ⟨chainFS_wrap_example, rfl, chainFS_nomatch_f⟩

/-- In particular every argument whose extension is not a supported format (flags, verbs,
    resource names, …) is not resolved … -/
theorem C20_unsupported_ext (fs : FS) (cwd : Comps) (a : String)
    (hx : supportedExts.contains (extOf (baseOf (absPath cwd a))) = false) :
    fileMatch fs cwd a = .error .invalidType := by
  rw [fileMatch_eq, hx]
  rfl

example : supportedExts.contains (extOf (baseOf (absPath ["w"] "apply"))) = false := by
  rw [absPath_rel (by simp [isAbsPath]) (splitPath_lit "apply" ["apply"] (by decide)), extOf_eq]
  decide

/-- … hence passed through. -/
theorem C20_verbatim_ext (fs : FS) (cwd : Comps) (env : Vars) (args : List String)
    (ws : List WArg) (h : wrapArgs fs cwd env args = .ok ws)
    (i : Nat) (a : String) (ha : args[i]? = some a)
    (hx : supportedExts.contains (extOf (baseOf (absPath cwd a))) = false) :
    ws[i]? = some (.verbatim a) :=
  C20_verbatim fs cwd env args ws h i a ha _ (C20_unsupported_ext fs cwd a hx)

/-- A resolved argument is replaced by the output documents of the layered evaluation of the
    real file, in the format named by the *argument's* extension. -/
theorem C20_file_args (fs : FS) (cwd : Comps) (env : Vars) (args : List String)
    (ws : List WArg) (h : wrapArgs fs cwd env args = .ok ws)
    (i : Nat) (a : String) (ha : args[i]? = some a) (real : Comps) (f : String)
    (hm : fileMatch fs cwd a = .ok (real, f)) :
    f = extOf (baseOf (absPath cwd a)) ∧
    ∃ st outs, mergeFileLayers fs { root := [], cwd := cwd } PState.empty real = .ok st ∧
      outputDocuments (st.docs.map (·.2)) env = .ok outs ∧
      ws[i]? = some (.evaluated f outs) := by
  constructor
  · rw [fileMatch_eq] at hm
    split at hm
    · split at hm
      · simp only [Except.ok.injEq, Prod.mk.injEq] at hm
        exact hm.2.symm
      · cases hm
    · cases hm
  · rw [wrapArgs_eq, mapM_R_ok_iff] at h
    obtain ⟨w, hw, hstep⟩ := forall₂_getElem? h i ha
    unfold wrapStep at hstep
    rw [hm] at hstep
    simp only at hstep
    cases hl : mergeFileLayers fs { root := [], cwd := cwd } PState.empty real with
    | error e => rw [hl] at hstep; cases hstep
    | ok st =>
      rw [hl] at hstep
      simp only at hstep
      cases ho : outputDocuments (st.docs.map (·.2)) env with
      | error e => rw [ho] at hstep; cases hstep
      | ok outs =>
        rw [ho] at hstep
        simp only [Except.ok.injEq] at hstep
        exact ⟨st, outs, rfl, ho, by rw [hw, hstep]⟩

/-- non-vacuity: the argument says `a.json`, the real file is `/w/a.yaml`, the format is `json` -/
example : wrapArgs chainFS ["w"] [] ["apply", "-f", "a.json"] =
      .ok [.verbatim "apply", .verbatim "-f", .evaluated "json" [.map [("x", .int 1)]]] ∧
    ["apply", "-f", "a.json"][2]? = some "a.json" ∧
    fileMatch chainFS ["w"] "a.json" = .ok (["w", "a.yaml"], "json") :=
  ⟨chainFS_wrap_example, rfl, chainFS_match_a_json⟩

/-- If an argument resolves and its evaluation fails, the rewriting fails: the result is never
    `.ok`, so the wrapped program is never reached. -/
theorem C20_fail_no_exec (fs : FS) (cwd : Comps) (env : Vars) (args : List String)
    (a : String) (ha : a ∈ args) (real : Comps) (f : String)
    (hm : fileMatch fs cwd a = .ok (real, f))
    (hfail : (∃ e, mergeFileLayers fs { root := [], cwd := cwd } PState.empty real = .error e) ∨
      (∃ st e, mergeFileLayers fs { root := [], cwd := cwd } PState.empty real = .ok st ∧
        outputDocuments (st.docs.map (·.2)) env = .error e)) :
    ∃ e', wrapArgs fs cwd env args = .error e' := by
  rw [wrapArgs_eq]
  have : ∃ e, wrapStep fs cwd env a = .error e := by
    unfold wrapStep
    rw [hm]
    rcases hfail with ⟨e, he⟩ | ⟨st, e, hst, he⟩
    · exact ⟨e, by simp only [he]⟩
    · exact ⟨e, by simp only [hst, he]⟩
  obtain ⟨e, he⟩ := this
  exact mapM_R_error_of_mem _ _ ha he

/-- non-vacuity: `/w/bad.yaml` does not decode; the later, good `a.yaml` does not rescue it -/
example : "bad.yaml" ∈ ["apply", "-f", "bad.yaml", "a.yaml"] ∧
    fileMatch chainFS ["w"] "bad.yaml" = .ok (["w", "bad.yaml"], "yaml") ∧
    mergeFileLayers chainFS ⟨[], ["w"]⟩ PState.empty ["w", "bad.yaml"] = .error .unmarshal ∧
    wrapArgs chainFS ["w"] [] ["apply", "-f", "bad.yaml", "a.yaml"] = .error .unmarshal :=
  ⟨by decide, chainFS_match_bad, chainFS_layers_bad _, chainFS_wrap_fail⟩

/-- The error reported is that of the first failing argument (all earlier ones succeeded). -/
theorem C20_first_failure (fs : FS) (cwd : Comps) (env : Vars) (args : List String) (e : Err) :
    wrapArgs fs cwd env args = .error e ↔
      ∃ l1 a l2, args = l1 ++ a :: l2 ∧ (∀ x ∈ l1, ∃ w, wrapStep fs cwd env x = .ok w) ∧
        wrapStep fs cwd env a = .error e := by
  rw [wrapArgs_eq]
  exact mapM_R_error_iff _ _ _

/-- A failing step is always a resolved file whose evaluation failed with that very error. -/
theorem C20_step_error (fs : FS) (cwd : Comps) (env : Vars) (a : String) (e : Err)
    (h : wrapStep fs cwd env a = .error e) :
    ∃ real f, fileMatch fs cwd a = .ok (real, f) ∧
      (mergeFileLayers fs { root := [], cwd := cwd } PState.empty real = .error e ∨
        ∃ st, mergeFileLayers fs { root := [], cwd := cwd } PState.empty real = .ok st ∧
          outputDocuments (st.docs.map (·.2)) env = .error e) := by
  unfold wrapStep at h
  cases hm : fileMatch fs cwd a with
  | error e' => rw [hm] at h; cases h
  | ok rf =>
    obtain ⟨real, f⟩ := rf
    rw [hm] at h
    simp only at h
    refine ⟨real, f, rfl, ?_⟩
    cases hl : mergeFileLayers fs { root := [], cwd := cwd } PState.empty real with
    | error e' =>
      rw [hl] at h
      simp only [Except.error.injEq] at h
      exact .inl (by rw [h])
    | ok st =>
      rw [hl] at h
      simp only at h
      cases ho : outputDocuments (st.docs.map (·.2)) env with
      | error e' =>
        rw [ho] at h
        simp only [Except.error.injEq] at h
        exact .inr ⟨st, rfl, by rw [ho, h]⟩
      | ok outs => rw [ho] at h; cases h

example : wrapStep chainFS ["w"] [] "bad.yaml" = .error .unmarshal := by
  unfold wrapStep
  rw [chainFS_match_bad]
  simp only [chainFS_layers_bad]

/-- The wrapped program's name: exactly one trailing `b` removed. -/
theorem C20_name :
    wrappedName "kubectlb" = some "kubectl" ∧ wrappedName "recorderb" = some "recorder" ∧
    wrappedName "bkl" = none ∧ wrappedName "abb" = some "ab" ∧
    (∀ cs : List Char, wrappedName (String.ofList (cs ++ ['b'])) = some (String.ofList cs)) ∧
    (∀ s : String, s.toList.getLast? ≠ some 'b' → wrappedName s = none) :=
  ⟨by decide, by decide, by decide, by decide, wrappedName_snoc, wrappedName_none⟩

end Bkl
