/-
  C20 — "bklb / kubectl-bkl rewrite only file arguments; all else passes through".
  `wrapArgs` is `args.mapM wrapStep` (`wrapArgs_eq`): one independent step per argument.
-/
import BklProofs.Lemmas.Files
import BklProofs.Lemmas.C20Args
namespace Bkl

/-- The rewritten argv has the same length, and position by position every result is either
    the argument itself or the evaluation of the file that this argument resolves to. -/
theorem C20_length_order (fs : FS) (cwd : Comps) (env : Vars) (args : List String)
    (ws : List WArg) (h : wrapArgs fs cwd env args = .ok ws) :
    ws.length = args.length ∧
    ∀ (i : Nat) (a : String), args[i]? = some a →
      ∃ w, ws[i]? = some w ∧
        (w = .verbatim a ∨
          ∃ real f outs, fileMatch fs cwd a = .ok (real, f) ∧ w = .evaluated f outs) := by
  rw [wrapArgs_eq, mapM_R_ok_iff] at h
  refine ⟨(forall₂_length h).symm, ?_⟩
  intro i a ha
  obtain ⟨w, hw, hstep⟩ := forall₂_getElem? h i ha
  refine ⟨w, hw, ?_⟩
  unfold wrapStep at hstep
  cases hm : fileMatch fs cwd a with
  | error e =>
    rw [hm] at hstep
    simp only [Except.ok.injEq] at hstep
    exact .inl hstep.symm
  | ok rf =>
    obtain ⟨real, f⟩ := rf
    rw [hm] at hstep
    simp only at hstep
    split at hstep
    · cases hstep
    · split at hstep
      · cases hstep
      · rename_i outs _
        simp only [Except.ok.injEq] at hstep
        exact .inr ⟨real, f, outs, rfl, hstep.symm⟩

/-- non-vacuity (sample file system `chainFS`, cwd /w): `apply -f a.json` -/
example : wrapArgs chainFS ["w"] [] ["apply", "-f", "a.json"] =
    .ok [.verbatim "apply", .verbatim "-f", .evaluated "json" [.map [("x", .int 1)]]] :=
  chainFS_wrap_example

/-- An argument that `FileMatch` does not resolve is passed through byte for byte. -/
theorem C20_verbatim (fs : FS) (cwd : Comps) (env : Vars) (args : List String)
    (ws : List WArg) (h : wrapArgs fs cwd env args = .ok ws)
    (i : Nat) (a : String) (ha : args[i]? = some a) (e : Err)
    (hm : fileMatch fs cwd a = .error e) : ws[i]? = some (.verbatim a) := by
  rw [wrapArgs_eq, mapM_R_ok_iff] at h
  obtain ⟨w, hw, hstep⟩ := forall₂_getElem? h i ha
  unfold wrapStep at hstep
  rw [hm] at hstep
  simp only [Except.ok.injEq] at hstep
  rw [hw, hstep]

example : wrapArgs chainFS ["w"] [] ["apply", "-f", "a.json"] =
      .ok [.verbatim "apply", .verbatim "-f", .evaluated "json" [.map [("x", .int 1)]]] ∧
    ["apply", "-f", "a.json"][1]? = some "-f" ∧
    fileMatch chainFS ["w"] "-f" = .error .invalidType :=
  ⟨chainFS_wrap_example, rfl, chainFS_nomatch_f⟩

/-- In particular every argument whose extension is not a supported format (flags, verbs,
    resource names, …) is not resolved … -/
theorem C20_unsupported_ext (fs : FS) (cwd : Comps) (a : String)
    (hx : supportedExts.contains (extOf (baseOf (absPath cwd a))) = false) :
    fileMatch fs cwd a = .error .invalidType := by
  rw [fileMatch_eq, hx]
  rfl

example : supportedExts.contains (extOf (baseOf (absPath ["w"] "apply"))) = false := by
  rw [absPath_rel (by simp [isAbsPath]) (splitPath_lit "apply" ["apply"] (by decide)), extOf_eq]
  decide

/-- … hence passed through. -/
theorem C20_verbatim_ext (fs : FS) (cwd : Comps) (env : Vars) (args : List String)
    (ws : List WArg) (h : wrapArgs fs cwd env args = .ok ws)
    (i : Nat) (a : String) (ha : args[i]? = some a)
    (hx : supportedExts.contains (extOf (baseOf (absPath cwd a))) = false) :
    ws[i]? = some (.verbatim a) :=
  C20_verbatim fs cwd env args ws h i a ha _ (C20_unsupported_ext fs cwd a hx)

/-- A resolved argument is replaced by the output documents of the layered evaluation of the
    real file, in the format named by the *argument's* extension. -/
theorem C20_file_args (fs : FS) (cwd : Comps) (env : Vars) (args : List String)
    (ws : List WArg) (h : wrapArgs fs cwd env args = .ok ws)
    (i : Nat) (a : String) (ha : args[i]? = some a) (real : Comps) (f : String)
    (hm : fileMatch fs cwd a = .ok (real, f)) :
    f = extOf (baseOf (absPath cwd a)) ∧
    ∃ st outs, mergeFileLayers fs { root := [], cwd := cwd } PState.empty real = .ok st ∧
      outputDocuments (st.docs.map (·.2)) env = .ok outs ∧
      ws[i]? = some (.evaluated f outs) := by
  constructor
  · rw [fileMatch_eq] at hm
    split at hm
    · split at hm
      · simp only [Except.ok.injEq, Prod.mk.injEq] at hm
        exact hm.2.symm
      · cases hm
    · cases hm
  · rw [wrapArgs_eq, mapM_R_ok_iff] at h
    obtain ⟨w, hw, hstep⟩ := forall₂_getElem? h i ha
    unfold wrapStep at hstep
    rw [hm] at hstep
    simp only at hstep
    cases hl : mergeFileLayers fs { root := [], cwd := cwd } PState.empty real with
    | error e => rw [hl] at hstep; cases hstep
    | ok st =>
      rw [hl] at hstep
      simp only at hstep
      cases ho : outputDocuments (st.docs.map (·.2)) env with
      | error e => rw [ho] at hstep; cases hstep
      | ok outs =>
        rw [ho] at hstep
        simp only [Except.ok.injEq] at hstep
        exact ⟨st, outs, rfl, ho, by rw [hw, hstep]⟩

/-- non-vacuity: the argument says `a.json`, the real file is `/w/a.yaml`, the format is `json` -/
example : wrapArgs chainFS ["w"] [] ["apply", "-f", "a.json"] =
      .ok [.verbatim "apply", .verbatim "-f", .evaluated "json" [.map [("x", .int 1)]]] ∧
    ["apply", "-f", "a.json"][2]? = some "a.json" ∧
    fileMatch chainFS ["w"] "a.json" = .ok (["w", "a.yaml"], "json") :=
  ⟨chainFS_wrap_example, rfl, chainFS_match_a_json⟩

/-- If an argument resolves and its evaluation fails, the rewriting fails: the result is never
    `.ok`, so the wrapped program is never reached. -/
theorem C20_fail_no_exec (fs : FS) (cwd : Comps) (env : Vars) (args : List String)
    (a : String) (ha : a ∈ args) (real : Comps) (f : String)
    (hm : fileMatch fs cwd a = .ok (real, f))
    (hfail : (∃ e, mergeFileLayers fs { root := [], cwd := cwd } PState.empty real = .error e) ∨
      (∃ st e, mergeFileLayers fs { root := [], cwd := cwd } PState.empty real = .ok st ∧
        outputDocuments (st.docs.map (·.2)) env = .error e)) :
    ∃ e', wrapArgs fs cwd env args = .error e' := by
  rw [wrapArgs_eq]
  have : ∃ e, wrapStep fs cwd env a = .error e := by
    unfold wrapStep
    rw [hm]
    rcases hfail with ⟨e, he⟩ | ⟨st, e, hst, he⟩
    · exact ⟨e, by simp only [he]⟩
    · exact ⟨e, by simp only [hst, he]⟩
  obtain ⟨e, he⟩ := this
  exact mapM_R_error_of_mem _ _ ha he

/-- non-vacuity: `/w/bad.yaml` does not decode; the later, good `a.yaml` does not rescue it -/
example : "bad.yaml" ∈ ["apply", "-f", "bad.yaml", "a.yaml"] ∧
    fileMatch chainFS ["w"] "bad.yaml" = .ok (["w", "bad.yaml"], "yaml") ∧
    mergeFileLayers chainFS ⟨[], ["w"]⟩ PState.empty ["w", "bad.yaml"] = .error .unmarshal ∧
    wrapArgs chainFS ["w"] [] ["apply", "-f", "bad.yaml", "a.yaml"] = .error .unmarshal :=
  ⟨by decide, chainFS_match_bad, chainFS_layers_bad _, chainFS_wrap_fail⟩

/-- The error reported is that of the first failing argument (all earlier ones succeeded). -/
theorem C20_first_failure (fs : FS) (cwd : Comps) (env : Vars) (args : List String) (e : Err) :
    wrapArgs fs cwd env args = .error e ↔
      ∃ l1 a l2, args = l1 ++ a :: l2 ∧ (∀ x ∈ l1, ∃ w, wrapStep fs cwd env x = .ok w) ∧
        wrapStep fs cwd env a = .error e := by
  rw [wrapArgs_eq]
  exact mapM_R_error_iff _ _ _

/-- A failing step is always a resolved file whose evaluation failed with that very error. -/
theorem C20_step_error (fs : FS) (cwd : Comps) (env : Vars) (a : String) (e : Err)
    (h : wrapStep fs cwd env a = .error e) :
    ∃ real f, fileMatch fs cwd a = .ok (real, f) ∧
      (mergeFileLayers fs { root := [], cwd := cwd } PState.empty real = .error e ∨
        ∃ st, mergeFileLayers fs { root := [], cwd := cwd } PState.empty real = .ok st ∧
          outputDocuments (st.docs.map (·.2)) env = .error e) := by
  unfold wrapStep at h
  cases hm : fileMatch fs cwd a with
  | error e' => rw [hm] at h; cases h
  | ok rf =>
    obtain ⟨real, f⟩ := rf
    rw [hm] at h
    simp only at h
    refine ⟨real, f, rfl, ?_⟩
    cases hl : mergeFileLayers fs { root := [], cwd := cwd } PState.empty real with
    | error e' =>
      rw [hl] at h
      simp only [Except.error.injEq] at h
      exact .inl (by rw [h])
    | ok st =>
      rw [hl] at h
      simp only at h
      cases ho : outputDocuments (st.docs.map (·.2)) env with
      | error e' =>
        rw [ho] at h
        simp only [Except.error.injEq] at h
        exact .inr ⟨st, rfl, by rw [ho, h]⟩
      | ok outs => rw [ho] at h; cases h

example : wrapStep chainFS ["w"] [] "bad.yaml" = .error .unmarshal := by
  unfold wrapStep
  rw [chainFS_match_bad]
  simp only [chainFS_layers_bad]

/-- The wrapped program's name: exactly one trailing `b` removed. -/
theorem C20_name :
    wrappedName "kubectlb" = some "kubectl" ∧ wrappedName "recorderb" = some "recorder" ∧
    wrappedName "bkl" = none ∧ wrappedName "abb" = some "ab" ∧
    (∀ cs : List Char, wrappedName (String.ofList (cs ++ ['b'])) = some (String.ofList cs)) ∧
    (∀ s : String, s.toList.getLast? ≠ some 'b' → wrappedName s = none) :=
  ⟨by decide, by decide, by decide, by decide, wrappedName_snoc, wrappedName_none⟩

/-! ## argument-wise rewriting, the named extension, the failure classes
   (helpers: BklProofs/Lemmas/C20Args.lean) -/

/-- **C20_args_independent** — the rewriting is argument-wise.  `wrapArgs` distributes over `++`
    (first conjunct), so what replaces an argument depends on that argument alone: every
    position of the result is the (only) result of wrapping that argument by itself, with a
    FRESH parser — no document of an earlier file argument leaks into a later one — and
    conversely the single results assemble to the result of the list.  In particular the same
    argument gets the same replacement wherever it occurs (`[a, a]`), the second component of
    `[a, b]` is the only component of `[b]`, and whether/how a later argument fails does not
    depend on the earlier ones. -/
theorem C20_args_independent (fs : FS) (cwd : Comps) (env : Vars) :
    (∀ as bs : List String, wrapArgs fs cwd env (as ++ bs) =
      (do let x ← wrapArgs fs cwd env as; let y ← wrapArgs fs cwd env bs; pure (x ++ y))) ∧
    (∀ (args : List String) (ws : List WArg), wrapArgs fs cwd env args = .ok ws →
      ∀ (i : Nat) (a : String), args[i]? = some a →
        ∃ w, ws[i]? = some w ∧ wrapArgs fs cwd env [a] = .ok [w]) ∧
    (∀ (args : List String) (ws : List WArg), args.length = ws.length →
      (∀ (i : Nat) (a : String) (w : WArg), args[i]? = some a → ws[i]? = some w →
        wrapArgs fs cwd env [a] = .ok [w]) → wrapArgs fs cwd env args = .ok ws) ∧
    (∀ (args : List String) (ws : List WArg), wrapArgs fs cwd env args = .ok ws →
      ∀ (i j : Nat) (a : String), args[i]? = some a → args[j]? = some a → ws[i]? = ws[j]?) ∧
    (∀ (a : String) (ws : List WArg), wrapArgs fs cwd env [a, a] = .ok ws →
      ∃ w, ws = [w, w] ∧ wrapArgs fs cwd env [a] = .ok [w]) ∧
    (∀ (a b : String) (w₁ w₂ : WArg), wrapArgs fs cwd env [a, b] = .ok [w₁, w₂] →
      wrapArgs fs cwd env [a] = .ok [w₁] ∧ wrapArgs fs cwd env [b] = .ok [w₂]) ∧
    (∀ (a b : String) (w : WArg) (e : Err), wrapArgs fs cwd env [a] = .ok [w] →
      (wrapArgs fs cwd env [a, b] = .error e ↔ wrapArgs fs cwd env [b] = .error e)) := by
  have hpt := wa_wrapArgs_pointwise fs cwd env
  have hsame : ∀ (args : List String) (ws : List WArg), wrapArgs fs cwd env args = .ok ws →
      ∀ (i j : Nat) (a : String), args[i]? = some a → args[j]? = some a → ws[i]? = ws[j]? := by
    intro args ws h i j a hi hj
    obtain ⟨w, hw, h1⟩ := hpt args ws h i a hi
    obtain ⟨w', hw', h2⟩ := hpt args ws h j a hj
    rw [h1] at h2
    cases h2
    rw [hw, hw']
  refine ⟨wa_wrapArgs_append fs cwd env, hpt, wa_wrapArgs_of_singles fs cwd env, hsame, ?_, ?_, ?_⟩
  · intro a ws h
    have hlen := (C20_length_order fs cwd env _ ws h).1
    obtain ⟨w, hw, h1⟩ := hpt _ ws h 0 a rfl
    have h01 := hsame _ ws h 0 1 a rfl rfl
    match ws, hlen, hw, h01 with
    | [x, y], _, hw, h01 =>
      simp only [List.getElem?_cons_zero, Option.some.injEq] at hw
      simp only [List.getElem?_cons_zero, List.getElem?_cons_succ, Option.some.injEq] at h01
      subst hw; subst h01
      exact ⟨x, rfl, h1⟩
  · intro a b w₁ w₂ h
    obtain ⟨w, hw, h1⟩ := hpt _ _ h 0 a rfl
    obtain ⟨w', hw', h2⟩ := hpt _ _ h 1 b rfl
    simp only [List.getElem?_cons_zero, Option.some.injEq] at hw
    simp only [List.getElem?_cons_succ, List.getElem?_cons_zero, Option.some.injEq] at hw'
    subst hw; subst hw'
    exact ⟨h1, h2⟩
  · intro a b w e h
    have := wa_wrapArgs_append fs cwd env [a] [b]
    rw [List.singleton_append] at this
    rw [this, h]
    cases wrapArgs fs cwd env [b] with
    | error e' => exact Iff.rfl
    | ok y => constructor <;> intro h' <;> cases h'

/-- non-vacuity: `a.json a.json` — the same replacement twice; `a.json a.yaml` — the second
    component is what `a.yaml` alone gives (each evaluated from scratch: one document, not two) -/
example : wrapArgs chainFS ["w"] [] ["a.json", "a.json"] =
      .ok [.evaluated "json" [.map [("x", .int 1)]], .evaluated "json" [.map [("x", .int 1)]]] ∧
    wrapArgs chainFS ["w"] [] ["a.json", "a.yaml"] =
      .ok [.evaluated "json" [.map [("x", .int 1)]], .evaluated "yaml" [.map [("x", .int 1)]]] ∧
    wrapArgs chainFS ["w"] [] ["a.yaml"] = .ok [.evaluated "yaml" [.map [("x", .int 1)]]] := by
  have hj := wa_chainFS_step_a_ext "json" (by decide)
  have hy := wa_chainFS_step_a_ext "yaml" (by decide)
  rw [show "a" ++ "." ++ "json" = "a.json" by decide] at hj
  rw [show "a" ++ "." ++ "yaml" = "a.yaml" by decide] at hy
  refine ⟨?_, ?_, ?_⟩
  · rw [wrapArgs_eq, mapM_R_cons, mapM_R_cons, mapM_R_nil, hj]
  · rw [wrapArgs_eq, mapM_R_cons, mapM_R_cons, mapM_R_nil, hj, hy]
  · rw [wrapArgs_eq, mapM_R_cons, mapM_R_nil, hy]

/-- **C20_format_is_named_extension** — for an argument `x.f` (`f` non-empty, without `.` and
    `/`: e.g. every supported extension) that `FileMatch` resolves, to a real file
    `…/stem.e` with ANY supported extension `e`, the format handed on is exactly the NAMED
    extension `f` (first conjunct), and that is the format of the `evaluated` replacement in the
    rewritten argv (second).  Two arguments that resolve to the SAME real file get each its own
    format — nothing is remembered per real path — and the same documents (third). -/
theorem C20_format_is_named_extension (fs : FS) (cwd : Comps) (env : Vars) :
    (∀ (x f : String), '.' ∉ f.toList → '/' ∉ f.toList → f ≠ "" →
      ∀ (real : Comps) (g : String), fileMatch fs cwd (x ++ "." ++ f) = .ok (real, g) →
        g = f ∧ f ∈ supportedExts ∧
        ∃ e ∈ supportedExts, ∃ (d : Comps) (t : String),
          absPath cwd (x ++ "." ++ f) = d ++ [t ++ "." ++ f] ∧
          real = d ++ [stemOf (t ++ "." ++ f) ++ "." ++ e] ∧ fs.exists real = true) ∧
    (∀ (x f : String), '.' ∉ f.toList → '/' ∉ f.toList → f ≠ "" →
      ∀ (real : Comps) (g : String), fileMatch fs cwd (x ++ "." ++ f) = .ok (real, g) →
      ∀ (args : List String) (ws : List WArg), wrapArgs fs cwd env args = .ok ws →
      ∀ (i : Nat), args[i]? = some (x ++ "." ++ f) →
        ∃ outs, ws[i]? = some (.evaluated f outs)) ∧
    (∀ (a₁ a₂ : String) (real : Comps) (f₁ f₂ : String),
      fileMatch fs cwd a₁ = .ok (real, f₁) → fileMatch fs cwd a₂ = .ok (real, f₂) →
      ∀ (ws : List WArg), wrapArgs fs cwd env [a₁, a₂] = .ok ws →
        ∃ outs, ws = [.evaluated f₁ outs, .evaluated f₂ outs]) := by
  have hfmt : ∀ (x f : String), '.' ∉ f.toList → '/' ∉ f.toList → f ≠ "" →
      ∀ (real : Comps) (g : String), fileMatch fs cwd (x ++ "." ++ f) = .ok (real, g) → g = f := by
    intro x f h1 h2 h3 real g hm
    rw [(wa_fileMatch_ok hm).1, wa_extOf_arg cwd x f h1 h2 h3]
  refine ⟨?_, ?_, ?_⟩
  · intro x f h1 h2 h3 real g hm
    have hg := hfmt x f h1 h2 h3 real g hm
    obtain ⟨-, hsup, hfind⟩ := wa_fileMatch_ok hm
    obtain ⟨d, t, habs, -, -⟩ := wa_absPath_dot cwd x f h1 h2 h3
    obtain ⟨e, he, hreal, hex⟩ := findFile_some fs _ _ real hfind
    rw [habs, baseOf_snoc, dirOf_snoc] at hreal
    exact ⟨hg, hg ▸ List.contains_iff_mem.1 hsup, e, he, d, String.ofList t, habs, hreal, hex⟩
  · intro x f h1 h2 h3 real g hm args ws h i ha
    obtain ⟨-, st, outs, -, -, hw⟩ := C20_file_args fs cwd env args ws h i _ ha real g hm
    exact ⟨outs, by rw [hw, hfmt x f h1 h2 h3 real g hm]⟩
  · intro a₁ a₂ real f₁ f₂ hm₁ hm₂ ws h
    have hlen := (C20_length_order fs cwd env _ ws h).1
    obtain ⟨-, st, outs, hst, ho, hw⟩ := C20_file_args fs cwd env _ ws h 0 a₁ rfl real f₁ hm₁
    obtain ⟨-, st', outs', hst', ho', hw'⟩ := C20_file_args fs cwd env _ ws h 1 a₂ rfl real f₂ hm₂
    rw [hst] at hst'
    cases hst'
    rw [ho] at ho'
    cases ho'
    match ws, hlen, hw, hw' with
    | [x, y], _, hw, hw' =>
      simp only [List.getElem?_cons_zero, Option.some.injEq] at hw
      simp only [List.getElem?_cons_succ, List.getElem?_cons_zero, Option.some.injEq] at hw'
      exact ⟨outs, by rw [hw, hw']⟩

/-- non-vacuity: `a.json`, `a.toml` and `a.yaml` all resolve to the real file `/w/a.yaml`; each
    is evaluated in ITS OWN named format -/
example : fileMatch chainFS ["w"] ("a" ++ "." ++ "json") = .ok (["w", "a.yaml"], "json") ∧
    fileMatch chainFS ["w"] ("a" ++ "." ++ "toml") = .ok (["w", "a.yaml"], "toml") ∧
    '.' ∉ "json".toList ∧ '/' ∉ "json".toList ∧ "json" ≠ "" ∧
    wrapArgs chainFS ["w"] [] ["a.json", "a.toml", "a.yaml"] =
      .ok [.evaluated "json" [.map [("x", .int 1)]], .evaluated "toml" [.map [("x", .int 1)]],
        .evaluated "yaml" [.map [("x", .int 1)]]] := by
  have hj := wa_chainFS_step_a_ext "json" (by decide)
  have ht := wa_chainFS_step_a_ext "toml" (by decide)
  have hy := wa_chainFS_step_a_ext "yaml" (by decide)
  rw [show "a" ++ "." ++ "json" = "a.json" by decide] at hj
  rw [show "a" ++ "." ++ "toml" = "a.toml" by decide] at ht
  rw [show "a" ++ "." ++ "yaml" = "a.yaml" by decide] at hy
  refine ⟨wa_chainFS_match_a_ext _ (by decide), wa_chainFS_match_a_ext _ (by decide),
    by decide, by decide, by decide, ?_⟩
  rw [wrapArgs_eq, mapM_R_cons, mapM_R_cons, mapM_R_cons, mapM_R_nil, hj, ht, hy]

/-- **C20_failure_classes** — once `FileMatch` has resolved the argument ITSELF, EVERY error of
    its evaluation — of layering (`mergeFileLayers`: undecodable file, missing parent layer
    `missingFile`, bad merge `invalidType`, cycle, …) or of the output phase — aborts the
    rewriting with that very error (the arguments before it having succeeded): no class of
    evaluation error is mistaken for "not a bkl file". -/
theorem C20_failure_classes (fs : FS) (cwd : Comps) (env : Vars) (pre post : List String)
    (a : String) (wpre : List WArg) (real : Comps) (f : String) (e : Err)
    (hpre : wrapArgs fs cwd env pre = .ok wpre)
    (hm : fileMatch fs cwd a = .ok (real, f))
    (hfail : mergeFileLayers fs { root := [], cwd := cwd } PState.empty real = .error e ∨
      ∃ st, mergeFileLayers fs { root := [], cwd := cwd } PState.empty real = .ok st ∧
        outputDocuments (st.docs.map (·.2)) env = .error e) :
    wrapArgs fs cwd env (pre ++ a :: post) = .error e := by
  apply wa_wrapArgs_error_at fs cwd env pre post a wpre e hpre
  rcases hfail with hl | ⟨st, hl, ho⟩
  · exact wa_wrapStep_error_of_layers hm hl
  · exact wa_wrapStep_error_of_output hm hl ho

/-- … and ONLY a failure of `FileMatch` on the argument itself makes it verbatim: a verbatim
    position of the result is the argument, unchanged, and `FileMatch` rejected it. -/
theorem C20_verbatim_only_if_nomatch (fs : FS) (cwd : Comps) (env : Vars) (args : List String)
    (ws : List WArg) (h : wrapArgs fs cwd env args = .ok ws) (i : Nat) (a s : String)
    (ha : args[i]? = some a) (hw : ws[i]? = some (.verbatim s)) :
    s = a ∧ ∃ e, fileMatch fs cwd a = .error e := by
  rw [wrapArgs_eq, mapM_R_ok_iff] at h
  obtain ⟨w, hw', hstep⟩ := forall₂_getElem? h i ha
  rw [hw] at hw'
  cases hw'
  exact (wa_wrapStep_verbatim_iff fs cwd env a s).1 hstep

/-- **C20_failure_classes_examples** — the two error classes `FileMatch` itself uses, arising
    from the EVALUATION of a resolved argument, abort (for every environment):
    * `/w/orphan.x.yaml` exists (the argument resolves) but its parent layer `orphan` does not:
      `missingFile`, `wrapArgs` is that error — not verbatim;
    * `/w/a.b.yaml` (`x: 5`) on top of `/w/a.yaml` (`x: {y: 1}`): `invalidType`, an error;
    whereas the same two classes coming from `FileMatch` on the argument (`nothere.yaml`: no
    such layer, `missingFile`; `apply`: no supported extension, `invalidType`) mean verbatim. -/
theorem C20_failure_classes_examples (env : Vars) :
    (fileMatch chainFS ["w"] "orphan.x.yaml" = .ok (["w", "orphan.x.yaml"], "yaml") ∧
      mergeFileLayers chainFS ⟨[], ["w"]⟩ PState.empty ["w", "orphan.x.yaml"] = .error .missingFile ∧
      wrapArgs chainFS ["w"] env ["apply", "-f", "orphan.x.yaml", "a.yaml"] = .error .missingFile) ∧
    (fileMatch wa_clashFS ["w"] "a.b.yaml" = .ok (["w", "a.b.yaml"], "yaml") ∧
      mergeFileLayers wa_clashFS ⟨[], ["w"]⟩ PState.empty ["w", "a.b.yaml"] = .error .invalidType ∧
      wrapArgs wa_clashFS ["w"] env ["apply", "-f", "a.b.yaml"] = .error .invalidType) ∧
    (fileMatch chainFS ["w"] "nothere.yaml" = .error .missingFile ∧
      fileMatch chainFS ["w"] "apply" = .error .invalidType ∧
      wrapArgs chainFS ["w"] env ["apply", "nothere.yaml"] =
        .ok [.verbatim "apply", .verbatim "nothere.yaml"]) := by
  refine ⟨⟨wa_chainFS_match_orphan, wa_chainFS_layers_orphan _, ?_⟩,
    ⟨wa_clashFS_match, wa_clashFS_layers, ?_⟩,
    ⟨wa_chainFS_nomatch_nothere, chainFS_nomatch_apply, ?_⟩⟩
  · exact C20_failure_classes chainFS ["w"] env ["apply", "-f"] ["a.yaml"] "orphan.x.yaml" _ _ _ _
      (wa_chainFS_pre env) wa_chainFS_match_orphan (.inl (wa_chainFS_layers_orphan _))
  · exact C20_failure_classes wa_clashFS ["w"] env ["apply", "-f"] [] "a.b.yaml" _ _ _ _
      (wa_clashFS_pre env) wa_clashFS_match (.inl wa_clashFS_layers)
  · rw [wrapArgs_eq, mapM_R_cons, mapM_R_cons, mapM_R_nil]
    have h1 : wrapStep chainFS ["w"] env "apply" = .ok (.verbatim "apply") := by
      unfold wrapStep; rw [chainFS_nomatch_apply]
    have h2 : wrapStep chainFS ["w"] env "nothere.yaml" = .ok (.verbatim "nothere.yaml") := by
      unfold wrapStep; rw [wa_chainFS_nomatch_nothere]
    rw [h1, h2]

end Bkl
