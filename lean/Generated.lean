import Generated.Facts
