import json, subprocess, sys, yaml, tomllib
BIN=sys.argv[1]
strs=["---","+++","# x","a: b","- x","1_000","0x1f","0o17","010","1:30","~","null","Null","2001-01-01","2001-01-01T00:00:00Z","=","<<","!!str","&a","*a","%","@","`","\t"," ","", "x\n---\ny","x\n---\n","---\nx","+++\nx\n+++","yes","no","on","off","y","n","true","True","1","1.0","1e3",".5",".inf",".nan","-","?","|",">","[","]","{","}",",","'",'"',"\\","a\tb","a\rb","\u2028","é","日本","😀","x #y","x: ","$x","'''",'"""',"a\nb","\n","a\n","\na"," a","a ","0.1","-0","+1","0b1","1__0","12e03","0.","_1","1,000","NaN","inf","\x7f","\x01","\u0085","\ufeff","a\u00a0b"]
def run(args, inp=None):
    p=subprocess.run(args,capture_output=True,timeout=20,input=inp)
    return p.returncode,p.stdout,p.stderr
fails=[]
for fmt in ["yaml","toml","json"]:
    for s in strs:
        for doc in ({"k":s}, {"k":[s, {s:"v"}]}, ):
            src=json.dumps(doc).encode()
            open('in.json','wb').write(src)
            rc,out,err=run([BIN+'/bkl','-f',fmt,'in.json'])
            if rc!=0:
                fails.append((fmt,s,'encode-fail',err.decode()[:80])); continue
            open('o_'+fmt+'.'+fmt,'wb').write(out)
            rc2,out2,err2=run([BIN+'/bkl','-f','json','o_'+fmt+'.'+fmt])
            try: back=json.loads(out2)
            except Exception: back=('ERR',err2.decode()[:80])
            if back!=doc: fails.append((fmt,s,'bkl-reread',doc,out.decode(),back))
            try:
                if fmt=='yaml': ind=list(yaml.load_all(out.decode(), Loader=yaml.CSafeLoader))
                elif fmt=='toml': ind=[tomllib.loads(out.decode())]
                else: ind=[json.loads(out)]
                if ind!=[doc]: fails.append((fmt,s,'indep-reread',doc,out.decode(),ind))
            except Exception as e:
                fails.append((fmt,s,'indep-error',doc,out.decode(),str(e)[:80]))
for f in fails: print(f)
print(len(fails))
