import json, random, subprocess, os, sys, copy
BIN=sys.argv[1]; N=int(sys.argv[2]); seed=int(sys.argv[3])
rnd=random.Random(seed)
KEYS=list("abcde")
def scalar():
    return rnd.choice([0,1,2,3,"x","y","",True,False,1.5,"1","true"])
def tree(d):
    r=rnd.random()
    if d<=0 or r<0.4: return scalar()
    if r<0.7: return {k:tree(d-1) for k in rnd.sample(KEYS, rnd.randint(0,3))}
    return [tree(d-1) for _ in range(rnd.randint(0,3))]
def mtree(d): return {k:tree(d-1) for k in rnd.sample(KEYS, rnd.randint(0,4))}
def edit(v,d=0):
    r=rnd.random()
    if isinstance(v,dict):
        v=dict(v)
        if r<0.1: return tree(2)
        for k in list(v):
            q=rnd.random()
            if q<0.2: del v[k]
            elif q<0.5: v[k]=edit(v[k],d+1)
        if rnd.random()<0.4: v[rnd.choice(KEYS)]=tree(2)
        return v
    if isinstance(v,list):
        v=list(v)
        if r<0.1: return tree(2)
        q=rnd.random()
        if q<0.2 and v: v.pop(rnd.randrange(len(v)))
        elif q<0.4: v.append(tree(1))
        elif q<0.5: rnd.shuffle(v)
        elif q<0.6 and v: v.append(copy.deepcopy(rnd.choice(v)))
        elif q<0.7 and v:
            i=rnd.randrange(len(v)); v[i]=edit(v[i],d+1)
        elif q<0.8: v.insert(0,tree(1))
        return v
    if r<0.5: return tree(1)
    return v
def run(args, inp=None):
    p=subprocess.run(args,capture_output=True,text=True,timeout=20)
    return p.returncode,p.stdout,p.stderr
def w(name,v): json.dump(v,open(name,'w'))
bad=0; badi=0
for i in range(N):
    base=mtree(3); tgt=edit(base)
    if not isinstance(tgt,dict): tgt=mtree(3)
    w('base.json',base); w('tgt.json',tgt)
    rc,out,err=run([BIN+'/bkld','-o','layer.json','base.json','tgt.json'])
    if rc!=0: print("bkld fail",base,tgt,err); bad+=1; continue
    rc,out,err=run([BIN+'/bkl','-P','-f','json','base.json','layer.json'])
    got=None
    try: got=json.loads(out) if out.strip() else None
    except Exception as e: pass
    if rc!=0 or got!=tgt or type(got)!=type(tgt) or json.dumps(got,sort_keys=True)!=json.dumps(tgt,sort_keys=True):
        bad+=1
        if bad<=8: print("C15 FAIL",json.dumps(base),json.dumps(tgt),open('layer.json').read().strip(),rc,out.strip(),err.strip())
    # bkli
    t2=edit(base)
    if not isinstance(t2,dict): t2=mtree(2)
    w('t2.json',t2)
    rc,out,err=run([BIN+'/bkli','-o','ib.json','tgt.json','t2.json'])
    if rc!=0: print("bkli fail",err); badi+=1; continue
    for x,name in ((tgt,'tgt.json'),(t2,'t2.json')):
        rc,out,err=run([BIN+'/bkld','-o','il.json','ib.json',name])
        rc2,out2,err2=run([BIN+'/bkl','-P','-f','json','ib.json','il.json'])
        try: got=json.loads(out2) if out2.strip() else None
        except Exception: got=None
        if rc!=0 or rc2!=0 or json.dumps(got,sort_keys=True)!=json.dumps(x,sort_keys=True):
            badi+=1
            if badi<=8: print("C16 FAIL",json.dumps(tgt),json.dumps(t2),open('ib.json').read().strip(),'|',open('il.json').read().strip() if os.path.exists('il.json') else None,rc,rc2,out2.strip(),err.strip(),err2.strip())
    # idempotence
    rc,out,err=run([BIN+'/bkli','-f','json','tgt.json','tgt.json'])
    try: got=json.loads(out)
    except Exception: got=None
    if json.dumps(got,sort_keys=True)!=json.dumps(tgt,sort_keys=True):
        badi+=1
        if badi<=8: print("C16 IDEMP FAIL",json.dumps(tgt),out.strip())
print("done",N,"C15 bad",bad,"C16 bad",badi)
