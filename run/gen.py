"""Structural, type-directed generators.  Every random choice comes from the rng passed in."""
import random

KEYS = ["a", "b", "c", "d", "e"]
SCALARS = [0, 1, 2, -1, 7, True, False, "x", "y", "", "1", "true", 0.5, 1.5, 1.0, None]
STRS = ["x", "y", "z", "", "1", "true", "null", "a.b", "x y"]


def scalar(rng, nulls=True):
    v = rng.choice(SCALARS)
    if v is None and not nulls:
        return "n"
    return v


def tree(rng, depth=3, nulls=True, keys=KEYS, wide=4):
    r = rng.random()
    if depth <= 0 or r < 0.35:
        return scalar(rng, nulls)
    if r < 0.7:
        n = rng.randint(0, wide)
        return {rng.choice(keys): tree(rng, depth - 1, nulls, keys, wide) for _ in range(n)}
    n = rng.randint(0, wide)
    return [tree(rng, depth - 1, nulls, keys, wide) for _ in range(n)]


def map_tree(rng, depth=3, nulls=True, keys=KEYS, wide=4, minkeys=1):
    n = rng.randint(minkeys, wide)
    return {rng.choice(keys): tree(rng, depth - 1, nulls, keys, wide) for _ in range(n)}


def paths(v, prefix=()):
    """All (path, value) pairs; path elements are str keys or int indices."""
    yield prefix, v
    if isinstance(v, dict):
        for k in v:
            yield from paths(v[k], prefix + (k,))
    elif isinstance(v, list):
        for i, x in enumerate(v):
            yield from paths(x, prefix + (i,))


def get_at(v, path):
    for p in path:
        v = v[p]
    return v


def set_at(v, path, new):
    """functional update"""
    if not path:
        return new
    p = path[0]
    if isinstance(v, dict):
        w = dict(v)
        w[p] = set_at(v[p], path[1:], new)
        return w
    w = list(v)
    w[p] = set_at(v[p], path[1:], new)
    return w


def deep(v):
    import copy
    return copy.deepcopy(v)


def size(v):
    if isinstance(v, dict):
        return 1 + sum(size(x) for x in v.values())
    if isinstance(v, list):
        return 1 + sum(size(x) for x in v)
    return 1


# ------------------------------------------------------------------ patches for merge (C01)

def sub_pattern(rng, v):
    """A pattern that matches v (usually): subset of a map, list of some entries, or the scalar."""
    if isinstance(v, dict) and v:
        ks = rng.sample(list(v), rng.randint(1, len(v)))
        return {k: (sub_pattern(rng, v[k]) if rng.random() < 0.5 else v[k]) for k in ks}
    if isinstance(v, list) and v and rng.random() < 0.5:
        return [rng.choice(v)]
    return v


def patch_for(rng, base, depth=3, misplace=0.08):
    """A child layer for `base`: mostly legal overrides that touch what exists, some misplaced ones."""
    r = rng.random()
    if r < misplace:
        # arbitrary junk / misplaced directives
        return rng.choice([
            "$delete", "$replace", "$required", {"$replace": True}, {"$replace": False}, {"$delete": 1},
            {"$match": {}}, {"$match": {"a": 1}, "$value": 2}, {"$value": 3}, {"$invert": True},
            ["$replace"], [{"$replace": True}], [{"$replace": True, "a": 1}], [{"$delete": {"a": 1}, "b": 2}],
            [{"$match": {"a": 1}, "$value": 2, "c": 3}], tree(rng, 2),
        ])
    if isinstance(base, dict):
        if r < 0.12:
            return scalar(rng)  # scalar over map (error unless empty)
        if r < 0.16:
            return [scalar(rng)]
        out = {}
        for k in base:
            q = rng.random()
            if q < 0.45:
                continue
            if q < 0.55:
                out[k] = "$delete"
            else:
                out[k] = patch_for(rng, base[k], depth - 1, misplace)
        for _ in range(rng.randint(0, 2)):
            k = rng.choice(KEYS)
            if k not in base:
                out[k] = rng.choice(["$delete", tree(rng, 2), tree(rng, 1)]) if rng.random() < 0.2 else tree(rng, 2)
        if rng.random() < 0.08:
            out["$replace"] = rng.choice([True, True, False, "x"])
        return out
    if isinstance(base, list):
        if r < 0.12:
            return scalar(rng)
        if r < 0.16:
            return {rng.choice(KEYS): scalar(rng)}
        out = []
        for _ in range(rng.randint(0, 3)):
            q = rng.random()
            if q < 0.3:
                out.append(tree(rng, 2))
            elif q < 0.5 and base:
                e = rng.choice(base)
                out.append({"$delete": sub_pattern(rng, e)})
            elif q < 0.6:
                out.append({"$delete": tree(rng, 1)})
            elif q < 0.85 and base:
                e = rng.choice(base)
                pat = sub_pattern(rng, e)
                if rng.random() < 0.15 and isinstance(pat, dict):
                    pat = dict(pat, **{"$invert": True})
                if rng.random() < 0.5:
                    ent = {"$match": pat, "$value": patch_for(rng, e, depth - 1, misplace)}
                else:
                    p = patch_for(rng, e, depth - 1, misplace)
                    ent = dict(p) if isinstance(p, dict) else {"$value": p}
                    ent["$match"] = pat
                if rng.random() < 0.05:
                    ent["zz"] = 1
                out.append(ent)
            elif q < 0.9:
                out.append({"$match": tree(rng, 1), "$value": scalar(rng)})
            else:
                out.append(scalar(rng))
        q = rng.random()
        if q < 0.06:
            out.append("$replace")
        elif q < 0.12:
            out.append({"$replace": True})
        elif q < 0.14:
            out.insert(0, {"$replace": True, "k": 1})
        return out
    # scalar / null base
    if r < 0.3:
        return base  # same value: useless override
    if r < 0.4:
        return tree(rng, 2)
    return scalar(rng)


def with_required(rng, v, p=0.1):
    """Sprinkle $required into a tree (map values and list entries)."""
    if isinstance(v, dict):
        return {k: ("$required" if rng.random() < p else with_required(rng, x, p)) for k, x in v.items()}
    if isinstance(v, list):
        out = [("$required" if rng.random() < p else with_required(rng, x, p)) for x in v]
        return out
    return v


# ------------------------------------------------------------------ evaluation features (C06-C14, C19, C09)

ENV = {"HOME": "/home/u", "NUM": "42", "BOOLISH": "true", "NULLISH": "null", "DIR": "$merge:a", "EMPTY": "", "SP": "a b",
       "EQ": "k=v=w", "REFTXT": "{a}"}
ENCODES = ["base64", "sha256", "join", "join:,", "join:-", "prefix:p-", "flatten", "values", "tolist:=", "tolist::",
           "flags", "flags:x", "base64:x", "prefix", "tolist", "nosuch", "values:x", "sha256:1", "join:a:b",
           "join: ", "prefix:-e ", "tolist: ", " base64", "sha256 ", " values", "join:\t", "prefix: > ", "flatten "]


def map_paths(v, prefix=()):
    """paths reachable through maps only (what a dotted reference can address)"""
    if isinstance(v, dict):
        for k, x in v.items():
            if isinstance(k, str) and k and "." not in k and not k.startswith("$"):
                yield prefix + (k,), x
                yield from map_paths(x, prefix + (k,))


def ref_forms(rng, path, kind):
    """spellings of a same-document reference to `path` for directive `kind` ($merge/$replace)"""
    dotted = ".".join(path)
    r = rng.random()
    if r < 0.35:
        return ("map", {kind: dotted})
    if r < 0.5:
        return ("map", {kind: list(path)})
    if r < 0.75:
        return ("str", f"{kind}:{dotted}")
    if r < 0.85:
        return ("str", f"{kind}:[{', '.join(path)}]")
    return ("listentry", {kind: dotted})


def inject_ref(rng, doc):
    """Insert one $merge/$replace reference at a random host position. Returns new doc."""
    targets = list(map_paths(doc))
    if not targets:
        return doc
    tpath, tval = rng.choice(targets)
    if rng.random() < 0.1:
        tpath = tpath[:-1] + ("nosuch",)  # dangling
    kind = rng.choice(["$merge", "$replace"])
    form, ref = ref_forms(rng, tpath, kind)
    hosts = [p for p, x in paths(doc) if p and not (len(p) >= len(tpath) and tuple(p[:len(tpath)]) == tuple(tpath))]
    if not hosts:
        hosts = [("zz",)]
        doc = dict(doc, zz=1) if isinstance(doc, dict) else doc
    hpath = rng.choice(hosts)
    try:
        cur = get_at(doc, hpath)
    except Exception:
        return doc
    if form == "map":
        if isinstance(cur, dict) and kind == "$merge" and rng.random() < 0.6:
            new = dict(cur)
            new.update(ref)          # $merge with local content
        else:
            new = dict(ref)
            if rng.random() < 0.2:
                new[rng.choice(KEYS)] = scalar(rng)
    elif form == "str":
        new = ref
    else:
        if isinstance(cur, list):
            new = list(cur)
            new.insert(rng.randint(0, len(new)), ref)
        else:
            new = [ref] if rng.random() < 0.5 else dict(ref)
    return set_at(doc, hpath, new)


def inject_output(rng, doc):
    cands = [p for p, x in paths(doc) if isinstance(x, (dict, list))]
    if not cands:
        return doc
    p = rng.choice(cands)
    cur = get_at(doc, p)
    val = rng.choice([True, True, False, False, "x", 1])
    if isinstance(cur, dict):
        new = dict(cur)
        new["$output"] = val
    else:
        new = list(cur)
        ent = {"$output": val}
        if rng.random() < 0.07:
            ent["k"] = 1
        new.insert(rng.randint(0, len(new)), ent)
    return set_at(doc, p, new)


def inject_repeat(rng, doc, top_ok=True):
    r = rng.random()
    count = rng.choice([0, 1, 2, 3, 2, 3, 5, -1, "x", 1.5, None, True])
    if r < 0.35 and top_ok and isinstance(doc, dict):
        new = dict(doc)
        if rng.random() < 0.4:
            names = rng.sample(["x", "y", "z"], rng.randint(1, 3))
            new["$repeat"] = {n: rng.choice([1, 2, 3, 0, 2, "q"]) for n in names}
            new["rv"] = "$\"" + "-".join("{$repeat:%s}" % n for n in names) + "\""
        else:
            new["$repeat"] = count
            new["rv"] = rng.choice(["$repeat", "$\"i{$repeat}\"", "$\"{$repeat}\""])
        return new
    cands = [p for p, x in paths(doc) if isinstance(x, dict) and p]
    if not cands:
        return doc
    p = rng.choice(cands)
    cur = dict(get_at(doc, p))
    cur["$repeat"] = count
    cur[rng.choice(KEYS)] = rng.choice(["$repeat", "$\"n{$repeat}\"", 7])
    doc2 = set_at(doc, p, cur)
    # keys containing the index when the parent is a map
    if isinstance(p[-1], str) and rng.random() < 0.6:
        parent = dict(get_at(doc2, p[:-1]))
        v = parent.pop(p[-1])
        parent[rng.choice(["$\"k{$repeat}\"", "$\"{$repeat}\"", p[-1]])] = v
        doc2 = set_at(doc2, p[:-1], parent)
    return doc2


def inject_encode(rng, doc):
    cands = [p for p, x in paths(doc) if isinstance(x, (dict, list)) and p]
    if not cands:
        return doc
    p = rng.choice(cands)
    cur = get_at(doc, p)
    spec = rng.choice(ENCODES)
    if rng.random() < 0.3:
        spec = [rng.choice(ENCODES) for _ in range(rng.randint(0, 3))]
    if rng.random() < 0.05:
        spec = rng.choice([1, None, {"a": 1}, True])
    if isinstance(cur, dict):
        if rng.random() < 0.5:
            new = dict(cur)
            new["$encode"] = spec
        else:
            new = {"$encode": spec, "$value": rng.choice([cur, scalar(rng), [scalar(rng), scalar(rng)], {"k": [1, 2], "e": "", "s": "v"}])}
            if rng.random() < 0.05:
                new["extra"] = 1
    else:
        new = list(cur) + [{"$encode": spec}]
    return set_at(doc, p, new)


def interp_string(rng, doc):
    refs = [".".join(p) for p, x in map_paths(doc) if not isinstance(x, (dict, list))]
    refs += ["$env:HOME", "$env:NUM", "$env:NOSUCH", "nosuch", "$repeat", "$env:EQ", "$env:REFTXT"]
    lits = ["", "a", " ", "-", "}", ":", "x}y", "é", "{", "{ ", "a\nb", "$", "$$", "\""]
    parts = []
    for _ in range(rng.randint(0, 4)):
        if rng.random() < 0.5:
            parts.append(rng.choice(lits))
        else:
            parts.append("{" + rng.choice(refs) + "}")
    return "$\"" + "".join(parts) + "\""


def inject_interp(rng, doc):
    cands = [p for p, x in paths(doc) if p and not isinstance(x, (dict, list))]
    if not cands:
        return doc
    p = rng.choice(cands)
    r = rng.random()
    if r < 0.6:
        new = interp_string(rng, doc)
    elif r < 0.9:
        new = rng.choice(["$env:HOME", "$env:NUM", "$env:BOOLISH", "$env:NOSUCH", "$env:DIR", "$env:EMPTY", "$env:"])
    else:
        new = rng.choice(["$repeat", "$\"", "$\"\"", "$\"{a}", "$env", "$FOO", "${X}", "$(cmd)"])
    doc2 = set_at(doc, p, new)
    if isinstance(p[-1], str) and rng.random() < 0.15:
        parent = dict(get_at(doc2, p[:-1]))
        v = parent.pop(p[-1])
        parent[rng.choice(["$env:HOME", "$env:NOSUCH", interp_string(rng, doc)])] = v
        doc2 = set_at(doc2, p[:-1], parent)
    return doc2


def nested_encode_doc(rng):
    """an `$encode` subtree that itself contains an `$encode` subtree (map form, `$value` form, list form), the inner one
    sometimes holding an unresolved marker or a stray directive: what the inner transform turns into a string can no longer
    be seen by any later validation"""
    mark = rng.choice(["$required", "$required", "$delete", "$nosuch", "$match", "v", 1, "$$x"])
    inner_spec = rng.choice(["flags", "json", "base64", "tolist:=", "values", "join:,", "yaml", ["tolist:=", "join:,"]])
    outer_spec = rng.choice(["json", "flatten", "yaml", "values", "tolist:=", "base64", "join: ", ["json", "base64"]])
    r = rng.random()
    if r < 0.35:
        inner = {"image": mark, "n": 1, "$encode": inner_spec}
    elif r < 0.6:
        inner = {"$encode": inner_spec, "$value": rng.choice([mark, {"k": mark}, [mark, "w"]])}
    elif r < 0.8:
        inner = [mark, "w", {"$encode": inner_spec}] if isinstance(inner_spec, str) and inner_spec.startswith(("join", "base64", "json", "yaml")) else [{"k": mark}, {"$encode": inner_spec}]
    else:
        inner = {"k": {"deep": mark}, "$encode": inner_spec}
    q = rng.random()
    if q < 0.4:
        outer = {"x": inner, "y": rng.choice([1, "s"]), "$encode": outer_spec}
    elif q < 0.7:
        outer = [inner, {"$encode": outer_spec}]
    else:
        outer = {"$encode": outer_spec, "$value": rng.choice([inner, [inner], {"p": inner}])}
    doc = {rng.choice(KEYS): outer, "other": rng.choice([1, "s", mark if rng.random() < 0.1 else 2])}
    if rng.random() < 0.2:
        doc = {"wrap": doc, "$output": rng.choice([True, False])} if rng.random() < 0.5 else {"l": [doc]}
    return doc


def nested_repeat_same_template(rng):
    """two levels of `$repeat` whose bodies use the SAME template text: the inner copies must be bound to the inner index
    (a value computed for the outer scope must not be reused)"""
    tmpl = rng.choice(["$\"i{$repeat}\"", "$\"{$repeat}\"", "$\"n-{$repeat}-x\"", "$repeat"])
    n_in = rng.choice([2, 3])
    inner_map = {"$repeat": n_in, "v": tmpl, "w": rng.choice([1, tmpl])}
    r = rng.random()
    if r < 0.4:
        # document-level outer repeat; the outer use sorts before the key holding the nested repeat
        doc = {"$repeat": rng.choice([1, 2, 3]), "a": tmpl, "z": [inner_map] if rng.random() < 0.6 else {"$\"k{$repeat}\"": inner_map}}
    elif r < 0.7:
        doc = {"items": [{"$repeat": rng.choice([2, 3]), "a": tmpl, "sub": [inner_map]}]}
    else:
        doc = {"m": {"$\"o{$repeat}\"": {"$repeat": 2, "a": tmpl, "z": [inner_map]}}}
    if rng.random() < 0.3:
        doc["zz"] = tmpl if "$repeat" in doc else 1
    return doc


def named_outer_nested_inner(rng):
    """a document-level `$repeat` with NAMED counts whose body holds a nested `$repeat` (map or list form) that uses the outer
    index: every generated document evaluates the nested template under ITS OWN binding"""
    names = rng.sample(["x", "y"], rng.randint(1, 2))
    outer = "-".join("{$repeat:%s}" % n for n in names)
    inner_body = {"$repeat": rng.choice([1, 2, 3]), "id": "$\"%s-{$repeat}\"" % outer}
    if rng.random() < 0.3:
        inner_body["plain"] = "$repeat"
    if rng.random() < 0.6:
        nested = {rng.choice(["$\"s{$repeat}\"", "$\"s%s-{$repeat}\"" % outer]): inner_body}
    else:
        nested = [inner_body, {"fixed": "$\"%s\"" % outer}]
    doc = {"$repeat": {n: rng.choice([2, 3]) for n in names}, "shards": nested}
    if rng.random() < 0.4:
        doc["top"] = "$\"%s\"" % outer
    return doc


def lookalike_encodes(rng):
    """several `$encode`s of ONE format in one document over values that print alike but are different values
    (1 / "1" / 1.0, true / "true", ["p q", "r"] / ["p", "q r"]): each must get its own encoding"""
    fmt = rng.choice(["json", "json", "json-pretty", "base64", "join:,", "sha256", "yaml", "toml"])
    groups = [[1, "1", 1.0], [True, "true"], [["p q", "r"], ["p", "q r"]], [None, "<nil>", "null"], [[1, 2], ["1", "2"], ["1 2"]],
              [{"x": 1}, {"x": "1"}, {"x": 1.0}], [0.5, "0.5"], ["", [], {}]]
    g = rng.choice(groups)
    vals = rng.sample(g, min(len(g), rng.randint(2, 3)))
    doc = {}
    for i, v in enumerate(vals):
        val = v
        if fmt == "toml" and not isinstance(v, dict):
            val = {"x": v}
        if fmt.startswith("join") and not isinstance(v, list):
            val = [v, "t"]
        doc["e%d" % i] = {"$encode": fmt, "$value": val}
    if rng.random() < 0.3:
        doc = {"l": [doc[k] for k in sorted(doc)]}
    if rng.random() < 0.3:
        doc["$repeat"] = 2
    return doc


FEATURES = {"ref": inject_ref, "output": inject_output, "repeat": inject_repeat, "encode": inject_encode, "interp": inject_interp}


def eval_doc(rng, weights, depth=3, nfeat=(0, 3)):
    doc = map_tree(rng, depth=depth, nulls=(rng.random() < 0.3))
    names = list(weights)
    for _ in range(rng.randint(*nfeat)):
        f = rng.choices(names, [weights[n] for n in names])[0]
        try:
            doc = FEATURES[f](rng, doc)
        except Exception:
            pass
    return doc


# ------------------------------------------------------------------ small-scope exhaustive enumeration (thorough tier)

def enum_trees(budget, atoms, keys, max_list=2, _memo=None):
    """Every tree with at most `budget` nodes: atoms, lists of up to `max_list` entries, maps over `keys`
    (each key absent or present).  Deterministic order.  Used as ADDITIONAL correspondence, never as the proof."""
    memo = {} if _memo is None else _memo
    key = (budget, tuple(map(repr, atoms)), tuple(keys), max_list)
    if key in memo:
        return memo[key]
    out = []
    if budget >= 1:
        out += list(atoms)
        # lists
        out.append([])
        if budget >= 2:
            for n in range(1, max_list + 1):
                for combo in _enum_seq(budget - 1, n, atoms, keys, max_list, memo):
                    out.append(list(combo))
            # maps
            out.append({})
            for r in range(1, len(keys) + 1):
                from itertools import combinations
                for ks in combinations(keys, r):
                    for combo in _enum_seq(budget - 1, r, atoms, keys, max_list, memo):
                        out.append(dict(zip(ks, combo)))
        else:
            out.append({})
    memo[key] = out
    return out


def _enum_seq(budget, n, atoms, keys, max_list, memo):
    """all n-tuples of trees whose node counts sum to at most `budget`"""
    if n == 0:
        return [()]
    if budget < n:
        return []
    res = []
    for first_budget in range(1, budget - (n - 1) + 1):
        firsts = [t for t in enum_trees(first_budget, atoms, keys, max_list, memo) if size(t) == first_budget]
        if not firsts:
            continue
        rests = _enum_seq(budget - first_budget, n - 1, atoms, keys, max_list, memo)
        for f in firsts:
            for r in rests:
                res.append((f,) + r)
    return res
