"""Structural, type-directed generators.  Every random choice comes from the rng passed in."""
import random

KEYS = ["a", "b", "c", "d", "e"]
SCALARS = [0, 1, 2, -1, 7, True, False, "x", "y", "", "1", "true", 0.5, 1.5, 1.0, None]
STRS = ["x", "y", "z", "", "1", "true", "null", "a.b", "x y"]


def scalar(rng, nulls=True):
    v = rng.choice(SCALARS)
    if v is None and not nulls:
        return "n"
    return v


def tree(rng, depth=3, nulls=True, keys=KEYS, wide=4):
    r = rng.random()
    if depth <= 0 or r < 0.35:
        return scalar(rng, nulls)
    if r < 0.7:
        n = rng.randint(0, wide)
        return {rng.choice(keys): tree(rng, depth - 1, nulls, keys, wide) for _ in range(n)}
    n = rng.randint(0, wide)
    return [tree(rng, depth - 1, nulls, keys, wide) for _ in range(n)]


def map_tree(rng, depth=3, nulls=True, keys=KEYS, wide=4, minkeys=1):
    n = rng.randint(minkeys, wide)
    return {rng.choice(keys): tree(rng, depth - 1, nulls, keys, wide) for _ in range(n)}


def paths(v, prefix=()):
    """All (path, value) pairs; path elements are str keys or int indices."""
    yield prefix, v
    if isinstance(v, dict):
        for k in v:
            yield from paths(v[k], prefix + (k,))
    elif isinstance(v, list):
        for i, x in enumerate(v):
            yield from paths(x, prefix + (i,))


def get_at(v, path):
    for p in path:
        v = v[p]
    return v


def set_at(v, path, new):
    """functional update"""
    if not path:
        return new
    p = path[0]
    if isinstance(v, dict):
        w = dict(v)
        w[p] = set_at(v[p], path[1:], new)
        return w
    w = list(v)
    w[p] = set_at(v[p], path[1:], new)
    return w


def deep(v):
    import copy
    return copy.deepcopy(v)


def size(v):
    if isinstance(v, dict):
        return 1 + sum(size(x) for x in v.values())
    if isinstance(v, list):
        return 1 + sum(size(x) for x in v)
    return 1


# ------------------------------------------------------------------ patches for merge (C01)

def sub_pattern(rng, v):
    """A pattern that matches v (usually): subset of a map, list of some entries, or the scalar."""
    if isinstance(v, dict) and v:
        ks = rng.sample(list(v), rng.randint(1, len(v)))
        return {k: (sub_pattern(rng, v[k]) if rng.random() < 0.5 else v[k]) for k in ks}
    if isinstance(v, list) and v and rng.random() < 0.5:
        return [rng.choice(v)]
    return v


def patch_for(rng, base, depth=3, misplace=0.08):
    """A child layer for `base`: mostly legal overrides that touch what exists, some misplaced ones."""
    r = rng.random()
    if r < misplace:
        # arbitrary junk / misplaced directives
        return rng.choice([
            "$delete", "$replace", "$required", {"$replace": True}, {"$replace": False}, {"$delete": 1},
            {"$match": {}}, {"$match": {"a": 1}, "$value": 2}, {"$value": 3}, {"$invert": True},
            ["$replace"], [{"$replace": True}], [{"$replace": True, "a": 1}], [{"$delete": {"a": 1}, "b": 2}],
            [{"$match": {"a": 1}, "$value": 2, "c": 3}], tree(rng, 2),
        ])
    if isinstance(base, dict):
        if r < 0.12:
            return scalar(rng)  # scalar over map (error unless empty)
        if r < 0.16:
            return [scalar(rng)]
        out = {}
        for k in base:
            q = rng.random()
            if q < 0.45:
                continue
            if q < 0.55:
                out[k] = "$delete"
            else:
                out[k] = patch_for(rng, base[k], depth - 1, misplace)
        for _ in range(rng.randint(0, 2)):
            k = rng.choice(KEYS)
            if k not in base:
                out[k] = rng.choice(["$delete", tree(rng, 2), tree(rng, 1)]) if rng.random() < 0.2 else tree(rng, 2)
        if rng.random() < 0.08:
            out["$replace"] = rng.choice([True, True, False, "x"])
        return out
    if isinstance(base, list):
        if r < 0.12:
            return scalar(rng)
        if r < 0.16:
            return {rng.choice(KEYS): scalar(rng)}
        out = []
        for _ in range(rng.randint(0, 3)):
            q = rng.random()
            if q < 0.3:
                out.append(tree(rng, 2))
            elif q < 0.5 and base:
                e = rng.choice(base)
                out.append({"$delete": sub_pattern(rng, e)})
            elif q < 0.6:
                out.append({"$delete": tree(rng, 1)})
            elif q < 0.85 and base:
                e = rng.choice(base)
                pat = sub_pattern(rng, e)
                if rng.random() < 0.15 and isinstance(pat, dict):
                    pat = dict(pat, **{"$invert": True})
                if rng.random() < 0.5:
                    ent = {"$match": pat, "$value": patch_for(rng, e, depth - 1, misplace)}
                else:
                    p = patch_for(rng, e, depth - 1, misplace)
                    ent = dict(p) if isinstance(p, dict) else {"$value": p}
                    ent["$match"] = pat
                if rng.random() < 0.05:
                    ent["zz"] = 1
                out.append(ent)
            elif q < 0.9:
                out.append({"$match": tree(rng, 1), "$value": scalar(rng)})
            else:
                out.append(scalar(rng))
        q = rng.random()
        if q < 0.06:
            out.append("$replace")
        elif q < 0.12:
            out.append({"$replace": True})
        elif q < 0.14:
            out.insert(0, {"$replace": True, "k": 1})
        return out
    # scalar / null base
    if r < 0.3:
        return base  # same value: useless override
    if r < 0.4:
        return tree(rng, 2)
    return scalar(rng)


def with_required(rng, v, p=0.1):
    """Sprinkle $required into a tree (map values and list entries)."""
    if isinstance(v, dict):
        return {k: ("$required" if rng.random() < p else with_required(rng, x, p)) for k, x in v.items()}
    if isinstance(v, list):
        out = [("$required" if rng.random() < p else with_required(rng, x, p)) for x in v]
        return out
    return v
