"""C13 — interpolation and $env substitute exactly the referenced values."""
import gen
from histcheck import chain_case
from props.evalcommon import standard_run, standard_replay, small_scope
from wire import go_float_str, from_wire

PID = "C13"
LITS = ["", "a", " ", "-", "}", ":", "x}y", "é", "日本", "}}", ": ", ".", ",", "'", "\\", "#", "a b"]
ENVV = {"HOME": "/home/u", "NUM": "42", "BOOLISH": "true", "NULLISH": "null", "FLT": "1.5", "SP": "a b", "EMPTY": "",
        "BRACE": "{x}", "DOLLAR": "$5", "UNI": "é", "EQ": "host=db port=5432", "B64": "dGVzdA==", "EQLEAD": "=x", "REFTXT": "{a}|{$env:HOME}",
        # values with white space at the edges: exact substitution keeps it, in values and in keys
        "LEAD": " lead", "TRAIL": "trail ", "WS": "\t both \n", "NL": "line\n"}


def fmt(v):
    if isinstance(v, bool):
        return "true" if v else "false"
    if isinstance(v, float):
        return go_float_str(v)
    return str(v)


def gen_case(rng):
    doc = {}
    scal = {}
    for k in rng.sample(gen.KEYS, rng.randint(1, 4)):
        v = rng.choice([0, 1, -7, 123456789, True, False, 0.5, 1.5, 2.0, 1e21, "x", "y z", "", "1", "é",
                        # text that looks like a later reference: substitution must not rescan substituted values
                        "<{a}>", "{b}", "{c}{d}", "{m.n}", "{$env:NUM}", "{e"])
        doc[k] = v
        scal[k] = v
    nested = {"n": rng.choice([3, "deep", 2.25])}
    doc["m"] = nested
    scal["m.n"] = nested["n"]
    dotted = None
    if rng.random() < 0.12:
        # a key that CONTAINS dots is one key: `{svc.port}` walks svc -> port, finds no `svc`, and is an error
        dotted = rng.choice(["svc.port", "x.y.z", "q.r", "svc.port.name"])
        doc[dotted] = rng.choice([8080, "dotted"])
        if rng.random() < 0.3:
            doc[dotted.split(".")[0] + "x"] = {dotted.split(".", 1)[1]: "sibling"}
    r = rng.random()
    if r < 0.6:
        segs, expect, ok = [], "", True
        if dotted:
            segs.append("{" + dotted + "}")
            ok = False
        for _ in range(rng.randint(0, 4)):
            if rng.random() < 0.5:
                l = rng.choice(LITS)
                segs.append(l)
                expect += l
            else:
                q = rng.random()
                if q < 0.6:
                    name = rng.choice(list(scal))
                    segs.append("{" + name + "}")
                    expect += fmt(scal[name])
                elif q < 0.85:
                    name = rng.choice(list(ENVV))
                    segs.append("{$env:" + name + "}")
                    expect += ENVV[name]
                else:
                    segs.append("{" + rng.choice(["nosuch", "$env:UNSET", "m.zz", "$repeat", "svc.port", "m.n.x"]) + "}")
                    ok = False
        tmpl = "$\"" + "".join(segs) + "\""
        if rng.random() < 0.25 and tmpl not in doc:
            # the template in KEY position: the key of the output is the substituted text, exactly
            doc2 = dict(doc)
            doc2[tmpl] = 1
            c = chain_case([doc2], env=ENVV, tail=("outdocs",))
            if not ok:
                c["expect"] = ("err", None)
            elif expect in doc or expect.startswith("$"):
                c["expect"] = None
            else:
                c["expect"] = ("ok", dict(doc, **{expect: 1}))
            c["noshrink"] = True
            return c
        doc["t"] = tmpl
        c = chain_case([doc], env=ENVV, tail=("outdocs",))
        c["expect"] = ("ok", dict(doc, t=expect)) if ok else ("err", None)
        c["noshrink"] = True      # the expectation belongs to this exact document
        return c
    if r < 0.8:
        name = rng.choice(list(ENVV) + ["UNSET", "NOPE"])
        inkey = rng.random() < 0.4
        if inkey:
            doc2 = dict(doc)
            doc2["$env:" + name] = 1
            exp = dict(doc)
            if name in ENVV:
                exp[ENVV[name]] = 1
        else:
            doc2 = dict(doc, t="$env:" + name)
            exp = dict(doc, t=ENVV.get(name))
        c = chain_case([doc2], env=ENVV, tail=("outdocs",))
        c["noshrink"] = True
        if name not in ENVV:
            c["expect"] = ("err", None)
        elif ENVV[name] in ("$5",):
            c["expect"] = None   # value is directive-shaped: validation decides
        elif inkey and ENVV[name] in doc:
            c["expect"] = None
        else:
            c["expect"] = ("ok", exp)
        return c
    if r < 0.88:
        # documents whose ROOT is a list or a scalar: variables ($env:, $repeat) are still found by interpolation
        items = [rng.choice(["$\"{$env:HOME}/x\"", "$\"n{$env:NUM}\"", "$env:HOME", "$\"{$env:NOSUCH}\"", "$\"{0}\"", "plain", 1,
                             {"k": "$\"{$env:SP}\""}, ["$\"{$env:EQ}\""], "$\"i{$repeat}\"", "$\"{nosuch}\""]) for _ in range(rng.randint(1, 4))]
        root = rng.choice([items, items, "$\"{$env:HOME}\"", "$\"{$env:NOSUCH}\"", [{"$repeat": 2}] + items])
        docs = [root] if rng.random() < 0.6 else [{"first": 1}, root]
        steps = [{"merge": {"id": f"D{i}", "parents": [], "data": d}} for i, d in enumerate(docs)] + [{"outdocs": True}]
        return {"steps": steps, "env": gen.ENV}
    d = gen.eval_doc(rng, {"interp": 5, "ref": 1, "repeat": 0.5}, depth=3, nfeat=(1, 3))
    return chain_case([d], env=gen.ENV, tail=("outdocs",))


def oracle(case, go, mo):
    exp = case.get("expect")
    if not exp or not go or "res" not in go:
        return None
    last = go["res"][-1]
    if exp[0] == "err":
        return None if "err" in last else "a missing reference / unset variable did not produce an error"
    if "ok" not in last:
        return f"valid template rejected: {last.get('err')} {last.get('msg', '')[:80]}"
    got = [from_wire(x) for x in last["ok"]]
    if got != [exp[1]]:
        return f"substitution differs: got {got!r:.200} want {exp[1]!r:.200}"
    return None


def nontrivial(case, go, mo):
    s = str(case["steps"])
    return "{" in s or "$env:" in s


def run(rep):
    standard_run(rep, PID, gen_case, nontrivial, "interpolation/$env result differs", 4000, 150000,
                 "templates of 0-4 literal segments (punctuation, unicode, closing braces, colons) and 0-4 references to scalar "
                 "paths / $env variables / missing names, $env:NAME in values and keys (values that look like numbers, booleans, "
                 "null, directives), unset names; judged by the model and by an independent Python rendering; "
                 "non-trivial = contains a reference", oracle=oracle, extra_gens=[small_scope(PID)])


def replay(rep, payload):
    return standard_replay(payload, oracle=oracle)
