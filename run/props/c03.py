"""C03 — the inheritance chain is resolved from filenames and $parent, base first."""
import random
import gen
import formats
from cli import pmap
from common import proof_step, load_corpus, run_model
from fscheck import run_case, compare_with_model
from props.toolscommon import pmap_tree, ptree, KEYS, fix_floats

PID = "C03"
EXTS = ["yaml", "json", "toml", "yml", "jsonl"]
NAMES = ["a", "b", "svc", "x1"]


def layer_docs(rng, base, multi=False):
    p = gen.patch_for(rng, base, misplace=0.0)
    if not isinstance(p, dict) or not formats.toml_ok(p):
        p = {rng.choice(KEYS): rng.choice([1, "v", 2.5])}
    return [fix_floats(p)]


def clean_tree(rng):
    t = pmap_tree(rng, depth=3)
    return t


def gen_case(rng):
    depth = rng.randint(1, 4)
    stem = rng.choice(NAMES)
    names = [stem]
    for i in range(1, depth):
        names.append(names[-1] + "." + rng.choice(["dev", "prod", "l%d" % i, "eu"]))
    layout = {}
    base = clean_tree(rng)
    contents = {}
    for i, n in enumerate(names):
        ext = rng.choice(EXTS)
        docs = [base] if i == 0 else layer_docs(rng, base)
        contents[n] = (ext, docs)
    opts = {"inputs": [], "format": "json"}
    kind = rng.random()
    top = names[-1]
    meta = {"kind": "chain"}
    if kind < 0.3:
        if depth >= 2 and rng.random() < 0.25:
            # a layer whose whole document is null (JSON `null`, YAML `~`): it changes nothing, and the layers above it still inherit
            # from the layers below it
            i = rng.randrange(1, depth - 1) if depth >= 3 and rng.random() < 0.8 else rng.randrange(0, depth)
            contents[names[i]] = (rng.choice(["json", "yaml", "yml", "jsonl"]), [None])
            meta["null_layer"] = i
    elif kind < 0.35:
        # wildcards in a DIRECTORY component of $parent (io/fs.Glob beneath the root): every matching directory is
        # listed, in order; a directory whose name adds a dot is skipped by the dot-count rule; a link to a directory counts
        ext, docs = contents[top]
        d0 = dict(docs[0])
        d0["$parent"] = rng.choice(["d*/w", "*/w", "d?/w", "d1/../d*/w", "d*/w*", "./d*/w", "nosuch*/w", "d*/nosuch", "d1/w", "dl/w", "*/*"])
        contents[top] = (ext if ext != "toml" else "yaml", [d0])
        extra_layout = {"d1/w.yaml": {"fmt": "yaml", "docs": [{"w": 1, "a": {"z": 1}}]}, "d2/w.json": {"fmt": "json", "docs": [{"w2": 2}]},
                        "d.x/w.yaml": {"fmt": "yaml", "docs": [{"dotted_dir": True}]}, "d3/other.yaml": {"fmt": "yaml", "docs": [{"o": 3}]},
                        "d1/w.sub.yaml": {"fmt": "yaml", "docs": [{"never": True}]}}
        if rng.random() < 0.4:
            extra_layout["dl"] = {"link": "d1"}
        if rng.random() < 0.3:
            extra_layout["d4/w.txt"] = {"fmt": "yaml", "docs": [{"unsupported": 1}]}
        meta["kind"] = "parent-dir-wildcard"
        meta["extra_layout"] = extra_layout
    elif kind < 0.45 and depth >= 3:
        # a missing middle layer must be an error
        del contents[names[1]]
        meta["kind"] = "missing"
    elif kind < 0.5:
        # a $parent list (or $parent in several documents of one file) with an entry that names no layer / a wildcard that
        # matches nothing, next to entries that do exist: still an error, never silently skipped
        contents["other"] = (rng.choice(EXTS), [{"o": 1}])
        ext, docs = contents[top]
        d0 = dict(docs[0])
        missing = rng.choice(["nosuch", "gone.layer", "nos*", "other.nosuch"])
        if rng.random() < 0.5:
            # a file whose name merely STARTS with the missing layer's name (one more dot component) is not that layer
            deeper = missing.replace("*", "X") + "." + rng.choice(["extra", "u.v"])
            contents[deeper] = (rng.choice(["yaml", "toml", "json"]), [{"lookalike": True}])
        how = rng.random()
        if how < 0.6:
            ps = ["other", missing]
            rng.shuffle(ps)
            if depth > 1 and rng.random() < 0.4:
                ps.insert(rng.randint(0, 2), names[0])
            d0["$parent"] = ps
            contents[top] = (ext if ext != "toml" else "yaml", [d0])
        else:
            d0["$parent"] = "other"
            d1 = {"$parent": missing, "$match": None, "extra": 1}
            contents[top] = ("yaml", [d0, d1] if rng.random() < 0.5 else [dict(d1, **{"$parent": "other"}), dict(d0, **{"$parent": missing})])
        meta["kind"] = "parent-missing-entry"
    elif kind < 0.6:
        # $parent overrides the filename rule: the top layer names another file
        other = "other"
        contents[other] = (rng.choice(EXTS), [{"o": 1, "a": {"z": 1}}])
        ext, docs = contents[top]
        d0 = dict(docs[0])
        d0["$parent"] = rng.choice([other, [other], [other, names[0]] if depth > 1 else [other]])
        meta["kind"] = "parent-directive"
        if rng.random() < 0.4:
            # a $parent LIST whose entries have chains of their own, of different depths, in every order: each entry is preceded by
            # its own bases (depth first, left to right) - the order of the entries decides, not how deep their chains are
            contents["y"] = (rng.choice(EXTS), [{"y": 1}])
            contents["x"] = (rng.choice(EXTS), [{"x": 1, "a": {"z": 2}}])
            contents["x.one"] = (rng.choice(EXTS), [{"one": 1}])
            contents["x.one.two"] = (rng.choice(EXTS), [{"two": 2}])
            ps = rng.sample(["y", "x.one", "x.one.two", "other", names[0]], rng.randint(2, 3))
            d0["$parent"] = ps
            meta["kind"] = "parent-list-chains"
        contents[top] = (ext, [d0])
    elif kind < 0.7:
        ext, docs = contents[top]
        d0 = dict(docs[0])
        d0["$parent"] = rng.choice([False, None])
        contents[top] = (ext, [d0])
        meta["kind"] = "parent-stop"
        if rng.random() < 0.35 and ext != "toml":
            # "no parent" in one document and a named parent (one name, or two) in ANOTHER document of the same file:
            # a conflict, reported whatever the number of names
            contents["cp1"] = ("yaml", [{"cp": 1}])
            contents["cp2"] = ("json", [{"cp": 2}])
            d1 = {"$match": None, "extra": 1, "$parent": rng.choice(["cp1", ["cp1"], ["cp1", "cp2"], "cp*"])}
            contents[top] = (ext if ext in ("yaml", "yml") else "yaml", [d0, d1] if rng.random() < 0.5 else [d1, d0])
            meta["kind"] = "parent-stop-conflict"
    elif kind < 0.78:
        # wildcard parent: matches base-level files only, never across dots
        contents["w1"] = ("yaml", [{"w": 1}])
        contents["w2"] = ("json", [{"w2": 2}])
        contents["w1.sub"] = ("yaml", [{"never": True}])
        ext, docs = contents[top]
        d0 = dict(docs[0])
        d0["$parent"] = "w*"
        contents[top] = (ext, [d0])
        meta["kind"] = "parent-wildcard"
    elif kind < 0.88:
        # a symlink inherits from its target's name
        meta["kind"] = "symlink"
    elif kind < 0.94:
        meta["kind"] = "skip-parent"
        opts["skipParent"] = True
        if rng.random() < 0.5:
            # ... also when the top layer carries a $parent that names no layer at all (or a wildcard matching nothing)
            ext, docs = contents[top]
            d0 = dict(docs[0])
            d0["$parent"] = rng.choice(["nosuch", ["nosuch", "gone"], "nos*", names[0], "defaults"])
            contents[top] = (ext if ext != "toml" else "yaml", [d0] + list(docs[1:]))
            meta["kind"] = "skip-parent-dangling"
    else:
        meta["kind"] = "multi-input"
    for n, (ext, docs) in contents.items():
        if ext == "toml" and not all(formats.toml_ok(d) for d in docs):
            ext = "yaml"
        layout[f"{n}.{ext}"] = {"fmt": ext, "docs": docs}
    layout.update(meta.pop("extra_layout", {}))
    topfile = next((f for f in layout if f.rsplit(".", 1)[0] == top), None)
    if meta["kind"] == "symlink" and topfile:
        # the link inherits from its TARGET's name; its own name (plain or dotted, with or without an existing
        # layer of that name) plays no role.  Targets: the top of the chain, or the base layer (no parent at all).
        target = topfile if rng.random() < 0.6 else next(f for f in layout if f.rsplit(".", 1)[0] == names[0])
        lstem = rng.choice(["link", "link", "c.d", "other.dev", "p.q.r"])
        if lstem != "link" and rng.random() < 0.5:
            layout[lstem.split(".")[0] + ".yaml"] = {"fmt": "yaml", "docs": [{"decoy_parent_of_link_name": True}]}
        lname = lstem + "." + target.rsplit(".", 1)[1]
        if rng.random() < 0.2:
            # a LONG chain of links: os.Root follows at most 8 symbolic links in one open (rootMaxSymlinks); the 9th is an error
            n = rng.choice([6, 7, 8, 9, 10])
            prev = target
            for k in range(1, n):
                nm = "ch%d.%s" % (k, target.rsplit(".", 1)[1])
                layout[nm] = {"link": prev}
                prev = nm
            layout[lname] = {"link": prev}
            meta["kind"] = "symlink-chain-%d" % n
        elif rng.random() < 0.35:
            # link -> link -> file: the chain comes from the FINAL target's name, not from the middle link's
            mid = rng.choice(["mid", "m.n", "zz.yy.xx"]) + "." + target.rsplit(".", 1)[1]
            layout[mid] = {"link": target}
            layout[lname] = {"link": mid}
        else:
            layout[lname] = {"link": target}
        opts["inputs"] = [lname]
        opts["format"] = "json"
        if rng.random() < 0.3:
            # the link as a middle layer: a further layer on top of the link's name
            up = lstem + ".top.yaml"
            layout[up] = {"fmt": "yaml", "docs": [{"uptop": 1}]}
            opts["inputs"] = [up]
    elif meta["kind"] == "multi-input":
        extra = "second"
        layout[extra + ".yaml"] = {"fmt": "yaml", "docs": [{"second": True, "$match": None}] if rng.random() < 0.5 else [{"second": True}]}
        opts["inputs"] = [topfile, extra + ".yaml"] if rng.random() < 0.5 else [extra + ".yaml", topfile]
    else:
        # virtual extension: name the top layer with another supported extension
        if rng.random() < 0.3 and topfile:
            opts["inputs"] = [top + "." + rng.choice(["json", "yaml", "toml"])]
            opts["format"] = None
        else:
            opts["inputs"] = [topfile]
    return {"layout": layout, "opts": opts, "meta": meta, "names": names}


def rename_case(case, rng):
    """metamorphic twin: an injective renaming of the chain's stem"""
    stem = case["names"][0]
    new = "zz" + stem
    lay = {}
    for f, node in case["layout"].items():
        nf = new + f[len(stem):] if f == stem or f.startswith(stem + ".") else f
        if "link" in node:
            t = node["link"]
            nt = new + t[len(stem):] if t.startswith(stem + ".") else t
            lay[nf] = {"link": nt}
        else:
            lay[nf] = node
    opts = dict(case["opts"])
    opts["inputs"] = [new + i[len(stem):] if i.startswith(stem + ".") else i for i in opts["inputs"]]
    return {"layout": lay, "opts": opts, "meta": case["meta"]}


def directive_case(case):
    """metamorphic twin: the same chain expressed with $parent instead of filenames (flat unrelated names)"""
    names = case["names"]
    files = {f.rsplit(".", 1)[0]: f for f in case["layout"] if "link" not in case["layout"][f]}
    if not all(n in files for n in names):
        return None
    if not isinstance(case["layout"][files[names[-1]]]["docs"][0], dict):
        return None     # a null top layer has nowhere to put a $parent
    lay = {}
    newname = {n: "flat%d" % i for i, n in enumerate(names)}
    for n in names:
        f = files[n]
        node = case["layout"][f]
        docs = [dict(d) if isinstance(d, dict) else d for d in node["docs"]]
        i = names.index(n)
        if i > 0 and isinstance(docs[0], dict):
            # a null layer cannot carry a $parent (and changes nothing): the twin inherits from the layer below it
            j = i - 1
            while j > 0 and not isinstance(case["layout"][files[names[j]]]["docs"][0], dict):
                j -= 1
            docs[0]["$parent"] = newname[names[j]]
        lay[newname[n] + "." + node["fmt"]] = {"fmt": node["fmt"], "docs": docs}
    for f, node in case["layout"].items():
        if f.rsplit(".", 1)[0] not in names and "link" not in node:
            lay[f] = node
    opts = dict(case["opts"])
    top = names[-1]
    opts["inputs"] = [lay_name for lay_name in lay if lay_name.startswith(newname[top] + ".")]
    opts["format"] = "json"
    return {"layout": lay, "opts": opts, "meta": case["meta"]}


def evaluate(rep, cases, rng):
    res = pmap(run_case, cases)
    ops = []
    for i, (obs, op) in enumerate(res):
        op["id"] = i
        ops.append(op)
    mres = run_model(ops)
    bad = 0
    twins, twin_idx = [], []
    for i, (c, (obs, op)) in enumerate(zip(cases, res)):
        kind = c["meta"]["kind"]
        rep.case({"layout": c["layout"], "opts": c["opts"]}, len(c["layout"]) >= 2,
                 sample={"files": sorted(c["layout"]), "opts": c["opts"], "kind": kind, "rc": obs["rc"]})
        rep.count(f"kind:{kind}:rc{obs['rc']}")
        rep.traces += 1
        d = compare_with_model(obs, mres.get(i))
        if d is None and kind in ("missing", "parent-missing-entry") and obs["rc"] == 0:
            d = "a missing layer was silently skipped"
        if d:
            bad += 1
            if len(rep.violations) < 4:
                rep.disagreements_checked += 1
                rep.violation(d, {"case": c, "observed": obs, "model": mres.get(i)})
            continue
        if kind in ("chain", "symlink") and "names" in c and c["opts"].get("format") == "json":
            twins.append(rename_case(c, rng))
            twin_idx.append((i, "rename"))
            if kind == "chain":
                t = directive_case(c)
                if t:
                    twins.append(t)
                    twin_idx.append((i, "directive"))
    tres = pmap(run_case, twins)
    for (i, how), t, (tobs, _) in zip(twin_idx, twins, tres):
        obs = res[i][0]
        rep.count("metamorphic:" + how)
        if (obs["rc"] == 0) != (tobs["rc"] == 0) or (obs["rc"] == 0 and obs["out"] != tobs["out"]):
            bad += 1
            if len(rep.violations) < 4:
                rep.violation(f"output changes when the chain is {'renamed' if how == 'rename' else 'expressed with $parent'}",
                              {"case": cases[i], "twin": t, "observed": obs, "twin_observed": tobs})
    return bad


def run(rep):
    rep.rule = ("directory layouts of 1-6 layer files, chain depth 1-4, mixed extensions (yaml, yml, json, jsonl, toml), $parent as string / "
                "list / wildcard / false / null, a symlinked layer, several CLI inputs, -P, a missing middle layer, virtual input "
                "extensions; real `bkl` on the real directory vs the model on the abstract layout; metamorphic twins (renamed chain, "
                "chain rewritten with $parent) must give byte-identical output; non-trivial = >= 2 files")
    rep.proof, rep.broken = proof_step(PID)
    rng = random.Random(rep.seed)
    n = 800 if rep.tier == "quick" else 30000
    cases = [c for _, c in load_corpus(PID)] + [gen_case(rng) for _ in range(n)]
    bad = evaluate(rep, cases, rng)
    if rep.broken and not rep.violations:
        if evaluate(rep, [gen_case(rng) for _ in range(1500)], rng) == 0:
            rep.violation("proof obligation no longer checks: " + "; ".join(b["obligation"] for b in rep.broken), {"broken": rep.broken}, no_input=True)
    rep.assumptions.append("os.Stat, filepath.Glob and EvalSymlinks are modelled (Bkl.Files); one file per layer name")


def replay(rep, payload):
    obs, op = run_case(payload["case"])
    op["id"] = 0
    m = run_model([op]).get(0)
    d = compare_with_model(obs, m)
    print(obs, m, d)
    return 1 if d else 0
