"""C17 — bklr keeps exactly the $required skeleton and agrees with bkl on what is missing."""
import random
import gen
import formats
from cli import run_cli, write_files, Workdir, pmap, bad_shape
from common import proof_step, load_corpus, run_model, run_go
from props.toolscommon import pmap_tree, ptree, KEYS
from wire import to_wire, from_wire

PID = "C17"
REQ = "$required"


def skeleton(v):
    """independent specification: only the markers and the containers leading to them"""
    if v == REQ:
        return REQ
    if isinstance(v, dict):
        out = {k: s for k, s in ((k, skeleton(x)) for k, x in v.items()) if s is not None}
        return out or None
    if isinstance(v, list):
        out = [s for s in (skeleton(x) for x in v) if s is not None]
        return out or None
    return None


def upper_layer(rng, base):
    """a plain layer that satisfies some markers: maps only add/override keys, lists are replaced by plain values"""
    out = {}
    for k, x in base.items():
        q = rng.random()
        if q < 0.5:
            continue
        if x == REQ:
            out[k] = ptree(rng, 1) if rng.random() < 0.8 else {"n": 1}
            if rng.random() < 0.12:
                out[k] = None        # an explicit null is a value: it replaces the marker (and is dropped from the output)
        elif isinstance(x, dict) and x:
            sub = upper_layer(rng, x)
            if sub:
                out[k] = sub
        elif isinstance(x, list) and rng.random() < 0.3:
            out[k] = ["extra"] if rng.random() < 0.7 else [REQ, "extra"]
        elif not isinstance(x, (dict, list)) and x is not None and rng.random() < 0.25:
            # the marker imposed AGAIN by an upper layer, over a value a lower layer supplies: the topmost word counts
            out[k] = REQ
    if rng.random() < 0.2:
        k = rng.choice(KEYS)
        if k not in base:
            out[k] = REQ if rng.random() < 0.3 else ptree(rng, 1)
    return out


def merge_key_case(rng):
    """a YAML base written with an anchor, plain aliases and MERGE KEYS (`<<: *d`, with and without own keys overriding the
    merged ones): every place denotes its own copy - a key overridden at one place stays `$required` at the others"""
    import yaml
    sub = rng.choice([{"name": REQ, "port": 1}, {"name": REQ}, {"name": REQ, "in": {"k": REQ}}, {"name": "n", "in": {"k": REQ, "j": 2}}])
    flow = yaml.safe_dump(sub, default_flow_style=True, width=1000).strip()
    over = rng.choice(["name", "port", "in"])
    places = rng.sample(["one", "two", "three", "four"], rng.randint(2, 4))
    lines, tree = ["defaults: &d " + flow], {"defaults": gen.deep(sub)}
    for pl in places:
        how = rng.choice(["alias", "merge", "merge-own", "merge-list"])
        if how == "alias":
            lines.append(f"{pl}: *d")
            tree[pl] = gen.deep(sub)
        elif how == "merge":
            lines.append(f"{pl}: {{<<: *d}}")
            tree[pl] = gen.deep(sub)
        elif how == "merge-list":
            lines.append(f"{pl}: {{<<: [*d], extra: 1}}")
            tree[pl] = dict(gen.deep(sub), extra=1)
        else:
            lines.append(f"{pl}: {{<<: *d, {over}: first}}")
            tree[pl] = dict(gen.deep(sub), **{over: "first"})
    layers = [tree]
    for _ in range(rng.randint(0, 2)):
        layers.append(upper_layer(rng, layers[0]))
    fmts = ["yaml"] + [rng.choice(["yaml", "json"]) for _ in layers[1:]]
    return {"layers": layers, "fmts": fmts, "raw": {"0": "\n".join(lines) + "\n"}}


def gen_case(rng):
    if rng.random() < 0.08:
        return merge_key_case(rng)
    base = gen.with_required(rng, pmap_tree(rng, depth=rng.randint(2, 4)), rng.choice([0.0, 0.1, 0.2, 0.35]))
    layers = [base]
    for _ in range(rng.randint(0, 2)):
        layers.append(upper_layer(rng, layers[0]))
    fmts = [rng.choice(["yaml", "json", "toml"] if "None" not in repr(l) else ["yaml", "json"]) for l in layers]
    return {"layers": layers, "fmts": fmts}


def names(case):
    out, stem = [], "a"
    for i, f in enumerate(case["fmts"]):
        if i:
            stem += ".l%d" % i
        out.append(f"{stem}.{f}")
    return out


def run_one(case):
    obs = {}
    nm = names(case)
    with Workdir() as d:
        for i, (n, l, f) in enumerate(zip(nm, case["layers"], case["fmts"])):
            write_files(d, {n: (case.get("raw") or {}).get(str(i)) or formats.dump(f, [l])})
        top, f = nm[-1], case["fmts"][-1]
        r = run_cli("bklr", [top], d)
        obs["bklr"] = {k: r[k] for k in ("rc", "out", "err")}
        shape = bad_shape(r)
        if shape or r["rc"] != 0:
            obs["fail"] = f"bklr failed: {shape or r['err'][:200]}"
            return obs
        try:
            docs = formats.load_all(f, r["out"])
        except Exception as e:
            obs["fail"] = f"bklr output is not valid {f}: {e}"
            return obs
        docs = [x for x in docs if x is not None]
        if f == "toml" and docs == [{}]:
            docs = []
        obs["skeleton"] = docs[0] if docs else None
        r2 = run_cli("bkl", ["-f", "json", top], d)
        obs["bkl"] = {k: r2[k] for k in ("rc", "out", "err")}
        if bad_shape(r2):
            obs["fail"] = "bkl: " + bad_shape(r2)
            return obs
        # idempotence: bklr on its own output
        if docs:
            write_files(d, {"sk." + f: r["out"]})
            r3 = run_cli("bklr", ["sk." + f], d)
            if r3["rc"] != 0 or r3["out"] != r["out"]:
                obs["fail"] = "bklr on its own output changes it"
                return obs
    return obs


def evaluate(rep, cases):
    obs = pmap(run_one, cases)
    # merged input according to the implementation's library and to the model
    ops = []
    for i, c in enumerate(cases):
        steps = [{"merge": {"id": f"L{j}", "parents": [f"L{j-1}"] if j else [], "data": to_wire(l)}} for j, l in enumerate(c["layers"])]
        ops.append({"op": "hist", "id": i, "steps": steps + [{"docs": True}], "env": {}})
    merged = run_model(ops)
    mreq_ops = []
    for i, c in enumerate(cases):
        m = merged.get(i, {})
        if "res" in m and "ok" in m["res"][-1] and len(m["res"][-1]["ok"]) == 1:
            mreq_ops.append({"op": "required", "id": i, "v": m["res"][-1]["ok"][0]})
    mreq = run_model(mreq_ops)
    nbad = mismatch = 0
    for i, (c, o) in enumerate(zip(cases, obs)):
        has = REQ in str(c["layers"])
        rep.case(c, has, sample={"layers": c["layers"], "fmts": c["fmts"], "skeleton": o.get("skeleton")})
        rep.traces += 1
        fail = o.get("fail")
        m = merged.get(i, {})
        if "res" in m and any("err" in x for x in m["res"]):
            # the chain itself is not a valid layering (model): every tool must refuse it
            rep.count("chain_rejected_by_merge")
            if o["bklr"]["rc"] == 0:
                fail = "bklr accepts a layer chain that the merge rules reject"
            else:
                fail = None
            if fail and len(rep.violations) < 4:
                rep.violation(fail, {"case": c, "observed": o})
            nbad += 1 if fail else 0
            continue
        if not fail and "res" in m and "ok" in m["res"][-1]:
            doc = from_wire(m["res"][-1]["ok"][0])
            want = skeleton(doc)
            got = o.get("skeleton")
            if not ((want is None and got is None) or (want is not None and got is not None and formats.same(want, got, True))):
                fail = "bklr output is not exactly the $required skeleton of the layered input"
            else:
                refused = o["bkl"]["rc"] != 0
                if refused != (want is not None):
                    fail = ("bkl evaluates an input whose bklr skeleton is non-empty" if not refused
                            else "bkl refuses an input although bklr reports nothing required: " + o["bkl"]["err"][:120])
                elif refused and "required field not set" not in o["bkl"]["err"]:
                    fail = "bkl refuses with a different error than required-field: " + o["bkl"]["err"][:120]
            mr = mreq.get(i)
            if not fail and mr is not None:
                mw = None if "none" in mr else from_wire(mr["ok"])
                if not ((mw is None and got is None) or (mw is not None and got is not None and formats.same(mw, got, True))):
                    mismatch += 1
                    rep.count("skeleton_differs_from_model")
        rep.count("bkl_rc:%s" % (o.get("bkl") or {}).get("rc"))
        if fail:
            nbad += 1
            if len(rep.violations) < 4:
                rep.disagreements_checked += 1
                rep.violation(fail, {"case": c, "observed": o})
    return nbad, mismatch


def run(rep):
    rep.rule = ("single-document chains of 1-3 layers (filename inheritance, any format mix) over trees with $required at any subset of "
                "map values and list entries, some satisfied by plain upper layers; real bklr (skeleton, idempotence) and real bkl "
                "(exit status and required-field diagnostic); judged by an independent Python skeleton function over the merged "
                "document and by the model's `required`; non-trivial = some layer contains $required")
    rep.proof, rep.broken = proof_step(PID)
    rng = random.Random(rep.seed)
    n = 1200 if rep.tier == "quick" else 40000
    cases = [c for _, c in load_corpus(PID)] + [gen_case(rng) for _ in range(n)]
    # small scope: every lower layer of at most 3 nodes with markers anywhere, under every upper layer of at most 3 nodes
    # (markers, plain values, explicit nulls, lists) - quick: a sample of the pairs
    lows = [t for t in gen.enum_trees(3, [REQ, 1], ["a", "b"], 2) if isinstance(t, dict) and REQ in repr(t)]
    ups = [t for t in gen.enum_trees(3, [REQ, "v", None], ["a", "b"], 2) if isinstance(t, dict) and t]
    pairs = [(lo, up) for lo in lows for up in ups]
    if rep.tier == "quick":
        pairs = random.Random(rep.seed + 31).sample(pairs, 500)
    for lo, up in pairs:
        cases.append({"layers": [gen.deep(lo), gen.deep(up)], "fmts": [rng.choice(["yaml", "json"]), rng.choice(["yaml", "json"])], "small_scope": True})
    rep.extra["small_scope_pairs"] = len(pairs)
    nbad, mismatch = evaluate(rep, cases)
    from props.toolscommon import tool_cli_stage
    tool_cli_stage(rep, "bklr", random.Random(rep.seed + 909), 150 if rep.tier == "quick" else 5000)
    if (mismatch or rep.broken) and not rep.violations:
        nbad2, _ = evaluate(rep, [gen_case(rng) for _ in range(2000)])
        if nbad2 == 0:
            what = ([f"bklr output differs from the model's `required` on {mismatch} cases"] if mismatch else []) + [b["obligation"] for b in rep.broken]
            rep.violation("; ".join(what), {"broken": rep.broken}, no_input=True)


def replay_toolcli(rep, payload):
    import fscheck
    from props.toolscommon import model_ops
    c = payload["case"]["toolcli"]
    obs, op = fscheck.run_case(c, tool="bklr")
    m = model_ops([{"op": "toolcli", "id": 0, "tool": "bklr", "entries": op["entries"], "cwd": op["cwd"], "env": {}, "opts": op["opts"]}]).get(0)
    print(obs)
    print(m)
    return 1


def replay_toolcli(rep, payload):
    import fscheck
    from props.toolscommon import model_ops
    c = payload["case"]["toolcli"]
    obs, op = fscheck.run_case(c, tool="bklr")
    m = model_ops([{"op": "toolcli", "id": 0, "tool": "bklr", "entries": op["entries"], "cwd": op["cwd"], "env": {}, "opts": op["opts"]}]).get(0)
    print(obs)
    print(m)
    return 1


def replay(rep, payload):
    if "toolcli" in payload.get("case", {}):
        return replay_toolcli(rep, payload)
    if "toolcli" in payload.get("case", {}):
        return replay_toolcli(rep, payload)
    o = run_one(payload["case"])
    print(o)
    return 1 if o.get("fail") else 0
