"""Shared runner for the evaluation-level (hist op) determined properties."""
import random
import gen
from common import proof_step, load_corpus
from histcheck import run_cases, shrink_case, step_summary, alias_search, alias_verdict


def evaluate(rep, cases, nontrivial, what, shrink_budget=100, compare_class=False, oracle=None, batch_aux=None):
    results = run_cases(cases, compare_class)
    if batch_aux is not None:
        batch_aux(cases, results)
    bad = []
    for case, go, mo, d, unm in results:
        nt = nontrivial(case, go, mo)
        rep.case(case["steps"], nt, sample={"docs": [s["merge"]["data"] for s in case["steps"] if "merge" in s], "impl": step_summary(go)})
        rep.count("impl:" + step_summary(go)[:70])
        rep.traces += 1
        if unm:
            rep.count("unmodelled_steps", unm)
        if d is None and oracle is not None:
            d = oracle(case, go, mo)
        if d and ("implementation oom" in d or "implementation timeout" in d):
            # resource exhaustion is C08's subject; its recorded finding KF-C08-1 (branching self-reference) is not
            # reported again under every property whose generator happens to build such a document
            from props import c08
            if c08.sig_branching_self_reference(case):
                rep.count("skipped:KF-C08-1 (branching self-reference, see C08)")
                d = None
            elif c08.sig_huge_repeat(case):
                rep.count("skipped: huge $repeat count")
                d = None
        if d:
            bad.append((case, go, mo, d))
    for c, g, m, d in alias_search(rep, results, compare_class):
        bad.append((dict(c, noshrink=True), g, m, d))
    for case, go, mo, d in bad[:4]:
        rep.disagreements_checked += 1
        if "rebuild" in case:
            # the case is derived from a source tree: shrink the source and rebuild
            from common import shrink
            rb = case["rebuild"]

            def fails(src):
                c = rb(src)
                r = run_cases([c], compare_class)[0]
                return (r[3] or (oracle(r[0], r[1], r[2]) if oracle else None)) is not None
            try:
                small = rb(shrink(case["src"], fails, shrink_budget))
            except Exception:
                small = case
        elif case.get("noshrink"):
            small = case
        elif oracle is None:
            small = shrink_case(case, compare_class, budget=shrink_budget)
        else:
            def pred(c):
                r = run_cases([c], compare_class)[0]
                return (r[3] or oracle(r[0], r[1], r[2])) is not None
            small = shrink_case(case, compare_class, budget=shrink_budget, pred=pred)
        r = run_cases([small], compare_class)[0]
        desc = r[3] or (oracle(r[0], r[1], r[2]) if oracle else None) or d
        strip = lambda c: {k: v for k, v in c.items() if k != "rebuild"}
        rep.violation(f"{what}: {desc}", {"case": strip(small), "impl": r[1], "model": r[2], "original_case": strip(case)})
    if len(bad) > 4:
        rep.count("further_disagreements_not_shrunk", len(bad) - 4)
    return len(bad)


def standard_run(rep, pid, gen_case, nontrivial, what, n_quick, n_thorough, rule, compare_class=False, oracle=None, extra_gens=(), batch_aux=None):
    rep.rule = rule
    rep.proof, rep.broken = proof_step(pid)
    rng = random.Random(rep.seed)
    n = n_quick if rep.tier == "quick" else n_thorough
    cases = [c for _, c in load_corpus(pid)]
    rep.extra["corpus_cases"] = len(cases)
    for g in extra_gens:
        cases += g(rng, rep.tier)
    chunk = 15000
    done = 0
    nbad = 0
    first = True
    while (done < n and nbad == 0) or first:
        cs = (cases if first else []) + [gen_case(rng) for _ in range(min(chunk, n - done))]
        first = False
        done += min(chunk, n - done)
        nbad += evaluate(rep, cs, nontrivial, what, compare_class=compare_class, oracle=oracle, batch_aux=batch_aux)
        if done >= n:
            break
    if nbad == 0:
        nbad += file_twin_stage(rep, gen_case, random.Random(rep.seed + 4242), 150 if rep.tier == "quick" else 4000)
    alias_verdict(rep)
    if rep.broken and not rep.violations:
        extra = [gen_case(rng) for _ in range(5000)]
        if evaluate(rep, extra, nontrivial, what, compare_class=compare_class, oracle=oracle, batch_aux=batch_aux) == 0:
            rep.violation("proof obligation no longer checks: " + "; ".join(b["obligation"] for b in rep.broken),
                          {"broken": rep.broken}, no_input=True)


def file_twin_stage(rep, gen_case, rng, n):
    """the property's own cases once more as layer FILES (json / yaml / yml / jsonl / toml where the layer is a TOML table; YAML
    layers partly with anchors and aliases for equal subtrees), evaluated by the command line and compared with the model of
    loader + inheritance + evaluation: the reader of each format and the loader are the glue between the text on disk and the
    evaluator the property speaks about"""
    import fscheck
    from props.toolscommon import fix_floats
    cases, tries = [], 0
    while len(cases) < n and tries < 20 * n:
        tries += 1
        c = gen_case(rng)
        ms = [s["merge"] for s in c["steps"] if "merge" in s]
        if not ms or any(m["parents"] != ([ms[i - 1]["id"]] if i else []) for i, m in enumerate(ms)):
            continue        # only file-style chains have a spelling as files
        layers = [fix_floats(m["data"]) for m in ms]
        share = rng.random() < 0.3
        layout, top = fscheck.chain_layout(rng, layers, exts=("json", "yaml", "toml", "toml", "yml", "jsonl"), share=share)
        kinds = "+".join(sorted({f.rsplit(".", 1)[1] for f in layout}))
        # the output format varies too (the model's writer decides what a format can hold)
        cases.append({"layout": layout, "opts": {"inputs": [top], "format": rng.choice(["json", "json", "json", "yaml", "toml", "json-pretty"])},
                      "env": c.get("env") or {},
                      "meta": {"kind": kinds + ("+anchors" if share else "")}})
    return fscheck.file_chain_stage(rep, cases, "the same layers as files, evaluated by the command line")


def standard_replay(payload, compare_class=False, oracle=None):
    if "filechain" in payload.get("case", {}):
        import fscheck
        return fscheck.file_chain_replay(payload["case"]["filechain"])
    r = run_cases([payload["case"]], compare_class)[0]
    print("impl :", r[1])
    print("model:", r[2])
    d = r[3] or (oracle(r[0], r[1], r[2]) if oracle else None)
    print("disagreement:", d)
    return 1 if d else 0


# ---------------------------------------------------------------- small-scope exhaustive enumeration
# Every document of at most N nodes over the property's OWN alphabet (directive keys, the scalar kinds that matter,
# the shortest strings of each recogniser), evaluated like any other case.  Additional correspondence - never the proof:
# the theorems are about all sizes, this stage is about all SHAPES up to a size, which is where boundary, kind and
# ordering mistakes live.
def small_scope(pid):
    from histcheck import chain_case

    def gen_(rng, tier):
        deep = tier != "quick"
        env = dict(gen.ENV, V="val")
        docs, two = [], []
        if pid == "C11":
            docs = gen.enum_trees(6 if deep else 5, [1, True, False], ["a", "$output"])
        elif pid == "C12":
            docs = gen.enum_trees(5 if deep else 4, [0, 1, 2, "$repeat", 1.5, "2", "$\"{$repeat}\""], ["a", "$repeat"])
            counts = [0, 1, 2, 1.5, "2"] + ([3, -1, True] if deep else [])
            names = ["i", "j", "k"]
            from itertools import product
            for n in (1, 2, 3):
                for cs in product(counts, repeat=n):
                    m = dict(zip(names, cs))
                    body = "$\"" + "-".join("{$repeat.%s}" % x for x in names[:n]) + "\""
                    docs.append({"$repeat": m, "v": body})
                    docs.append([{"$repeat": m}, body]) if n < 3 else None
        elif pid == "C10":
            docs = gen.enum_trees(4, ["a", "b", "a.b", 1], ["a", "b", "$merge", "$replace"])
            if deep:
                docs += gen.enum_trees(3, ["a", "b", "a.b", 1, "$merge:a", "$replace:b", ["a"], None], ["a", "b", "$merge", "$replace", "$match", "$path"])
        elif pid == "C07":
            atoms = ["$required", "$delete", "$match", "x", 1, None]
            keys = ["a", "$required", "$match", "$delete", "$value"]
            docs = gen.enum_trees(3, atoms, keys)
            two = [({"a": "$required", "l": ["$required"]}, d) for d in gen.enum_trees(3, ["$required", "x", None], ["a", "l"]) if isinstance(d, dict)]
        elif pid == "C13":
            segs = ["x", "}", "{a}", "{m.n}", "{nosuch}", "{$env:V}", "{$env:UNSET}", "", "{", "é"]
            from itertools import product
            base = {"a": 1, "m": {"n": "s"}}
            for n in (0, 1, 2, 3):
                for t in product(segs, repeat=n):
                    tmpl = "$\"" + "".join(t) + "\""
                    docs.append(dict(base, t=tmpl))
                    if n <= 2:
                        docs.append(dict(base, **{tmpl: 1}))
            for s in ["$\"", "$env:", "$env:V", "$env:UNSET", "$\"{a}", "$\"\"", "$\"{}\"", "$\"{a}{a}\"", "$\"{t}\""]:
                docs.append(dict(base, t=s))
                docs.append(dict(base, **{s: 1}))
        elif pid == "C14":
            from props import c14
            for v in c14.VALUES:
                for sp in c14.SPECS:
                    for node in ({"$encode": sp, "$value": v}, dict(v, **{"$encode": sp}) if isinstance(v, dict) else None,
                                 list(v) + [{"$encode": sp}] if isinstance(v, list) else None):
                        if node is not None:
                            docs.append({"out": node, "other": 1})
        cases = [chain_case([d], env=env, tail=("outdocs",)) for d in docs if isinstance(d, (dict, list))]
        cases += [chain_case([p, c], env=env, tail=("outdocs",)) for p, c in two]
        for c in cases:
            c["small_scope"] = True
        return cases
    return gen_
