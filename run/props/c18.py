"""C18 — with a root directory set, nothing outside it is ever read."""
import os
import random
import shutil
import subprocess
import gen
import formats
from cli import pmap, run_cli, bad_shape
from common import proof_step, load_corpus, run_model, mktemp_dir, BIN, run_go
from fscheck import run_case, compare_with_model, materialise, cli_args, model_entries
from props.toolscommon import pmap_tree, fix_floats

PID = "C18"
DECOY_A = {"secret": "AAA", "a": {"leak": 1}}
DECOY_B = {"secret": "BBB", "b": [1, 2]}


def gen_case(rng):
    base = fix_floats(pmap_tree(rng, depth=2))
    over = {"top": rng.choice([1, "v", 2.5])}
    layout = {
        "root/a.yaml": {"fmt": "yaml", "docs": [base]},
        "root/a.b.yaml": {"fmt": "yaml", "docs": [over]},
        "root/sub/c.yaml": {"fmt": "yaml", "docs": [{"c": 1}]},
        "outside/decoy.yaml": {"fmt": "yaml", "docs": [DECOY_A]},
        "outside/decoy.x.yaml": {"fmt": "yaml", "docs": [{"x": 1}]},
        "secret.yaml": {"fmt": "yaml", "docs": [DECOY_A]},
        # siblings whose path merely EXTENDS the root's path as a string
        "root-secrets/decoy.yaml": {"fmt": "yaml", "docs": [DECOY_A]},
        "root.bak/decoy.yaml": {"fmt": "yaml", "docs": [DECOY_A]},
        "rootx/decoy.yaml": {"fmt": "yaml", "docs": [DECOY_A]},
    }
    decoys = ["outside/decoy.yaml", "secret.yaml", "outside/decoy.x.yaml", "root-secrets/decoy.yaml", "root.bak/decoy.yaml", "rootx/decoy.yaml"]
    cwd, root, inputs = "root", ".", ["a.b.yaml"]
    kind = rng.choice(["benign", "parent-dotdot", "parent-abs", "link-rel", "link-abs", "link-dir", "link-chain",
                       "input-outside", "root-sub", "root-dotdot", "parent-glob", "filename-chain-link", "benign-link-inside",
                       "link-dotdot-inside", "sibling-parent", "sibling-link", "sibling-link-dir", "sibling-link-abs",
                       "glob-dir-link", "glob-dir-link", "glob-dir-inside", "parent-candidate-link", "link-abs-inside-chain", "link-abs-inside-dir", "parent-glob-link-match"])
    sib = rng.choice(["root-secrets", "root.bak", "rootx"])
    if kind == "sibling-parent":
        layout["root/a.b.yaml"]["docs"] = [dict(over, **{"$parent": rng.choice([f"../{sib}/decoy", "{W}/" + sib + "/decoy"])})]
    elif kind == "sibling-link":
        layout["root/l.yaml"] = {"link": f"../{sib}/decoy.yaml"}
        inputs = ["l.yaml"]
    elif kind == "sibling-link-abs":
        layout["root/l.yaml"] = {"link": "{W}/" + sib + "/decoy.yaml"}
        inputs = ["l.yaml"]
    elif kind == "sibling-link-dir":
        layout["root/ld"] = {"link": rng.choice([f"../{sib}", "{W}/" + sib])}
        inputs = ["ld/decoy.yaml"]
    if kind == "parent-dotdot":
        layout["root/a.b.yaml"]["docs"] = [dict(over, **{"$parent": rng.choice(["../outside/decoy", "../secret", "sub/../../secret", ["a", "../outside/decoy"]])})]
    elif kind == "parent-abs":
        layout["root/a.b.yaml"]["docs"] = [dict(over, **{"$parent": "{W}/outside/decoy"})]
    elif kind == "parent-glob":
        layout["root/a.b.yaml"]["docs"] = [dict(over, **{"$parent": "../outside/dec*"})]
    elif kind == "link-rel":
        layout["root/l.yaml"] = {"link": "../outside/decoy.yaml"}
        inputs = ["l.yaml"]
    elif kind == "link-abs":
        layout["root/l.yaml"] = {"link": "{W}/outside/decoy.yaml"}
        inputs = ["l.yaml"]
    elif kind == "link-dir":
        layout["root/ld"] = {"link": "../outside"}
        inputs = ["ld/decoy.yaml"]
    elif kind == "link-chain":
        layout["root/l1.yaml"] = {"link": "l2.yaml"}
        layout["root/l2.yaml"] = {"link": "../outside/decoy.yaml"}
        inputs = ["l1.yaml"]
    elif kind == "filename-chain-link":
        # a link whose *target name* has a parent outside the root
        layout["root/k.yaml"] = {"link": "../outside/decoy.x.yaml"}
        inputs = ["k.yaml"]
    elif kind == "input-outside":
        inputs = [rng.choice(["../outside/decoy.yaml", "../secret.yaml", "{W}/secret.yaml"])]
    elif kind == "root-sub":
        root = "sub"
        inputs = [rng.choice(["sub/c.yaml", "a.b.yaml", "sub/../a.yaml"])]
    elif kind == "root-dotdot":
        cwd, root = "root/sub", ".."
        inputs = [rng.choice(["../a.b.yaml", "c.yaml", "../../secret.yaml"])]
    elif kind == "benign-link-inside":
        layout["root/in.yaml"] = {"link": "a.b.yaml"}
        inputs = ["in.yaml"]
    elif kind == "link-dotdot-inside":
        layout["root/sub/up.yaml"] = {"link": "../a.yaml"}
        inputs = ["sub/up.yaml"]
    if kind == "link-abs-inside-chain":
        # an ABSOLUTE link whose target is lexically inside the root, and that target leaves the root on a second hop
        layout["root/l.yaml"] = {"link": "{W}/root/hop.yaml"}
        layout["root/hop.yaml"] = {"link": rng.choice(["../outside/decoy.yaml", "../secret.yaml", "{W}/outside/decoy.yaml"])}
        inputs = ["l.yaml"]
    elif kind == "link-abs-inside-dir":
        # ... or goes through a directory link that leaves the root
        layout["root/l.yaml"] = {"link": "{W}/root/ld/decoy.yaml"}
        layout["root/ld"] = {"link": rng.choice(["../outside", "{W}/outside"])}
        inputs = [rng.choice(["l.yaml", "a.c.yaml"])]
        if inputs == ["a.c.yaml"]:
            layout["root/a.c.yaml"] = {"fmt": "yaml", "docs": [{"$parent": "l", "top": 2}]}
    if kind == "parent-glob-link-match":
        # `$parent: base` expands to base.*: one match is a regular file, another a link that leaves the root (to a decoy
        # that may or may not exist).  Every match is loaded, so this fails - whatever is outside.
        layout["root/base.yaml"] = {"fmt": "yaml", "docs": [{"from_base": 1}]}
        layout["outside/base.json"] = {"fmt": "json", "docs": [DECOY_A]}
        decoys = decoys + ["outside/base.json"]
        layout["root/" + rng.choice(["base.json", "base.toml", "base.yml"])] = {"link": rng.choice(["../outside/base.json", "{W}/outside/base.json"])}
        layout["root/a.b.yaml"]["docs"] = [dict(over, **{"$parent": rng.choice(["base", "bas*", ["base"], "./base"])})]
    if kind in ("glob-dir-link", "glob-dir-inside"):
        # a $parent pattern with a wildcard DIRECTORY: one of the directories it can match is a link that leaves the
        # root; whether a decoy exists behind it must not decide anything
        layout["root/sub/decoy.yaml"] = {"fmt": "yaml", "docs": [{"inside": 1}]}
        layout["root/sab/decoy.yaml"] = {"fmt": "yaml", "docs": [{"inside": 2}]}
        if kind == "glob-dir-link":
            layout["root/" + rng.choice(["ld", "sld", "t"])] = {"link": rng.choice(["../outside", "{W}/outside", "../" + sib])}
        pat = rng.choice(["*/decoy", "s*/decoy", "?ub/decoy", "*/dec*", "sub/../*/decoy", "*b/decoy", "./*/decoy"])
        layout["root/a.b.yaml"]["docs"] = [dict(over, **{"$parent": pat})]
    elif kind == "parent-candidate-link":
        # the only candidate for the parent layer `a` is a link that leaves the root (to a decoy that may or may not exist)
        del layout["root/a.yaml"]
        layout["outside/a.json"] = {"fmt": "json", "docs": [DECOY_A]}
        decoys = decoys + ["outside/a.json"]
        layout["root/a.json"] = {"link": rng.choice(["../outside/a.json", "{W}/outside/a.json"])}
    opts = {"inputs": inputs, "format": "json", "root": root}
    return {"layout": layout, "cwd": cwd, "opts": opts, "meta": {"kind": kind}, "decoys": decoys}


def with_real_paths(case, W):
    """{W} placeholders in inputs / $parent values refer to the materialised directory"""
    import json
    s = json.dumps(case["layout"]).replace("{W}", W)
    c = dict(case, layout=json.loads(s))
    c["opts"] = dict(case["opts"], inputs=[i.replace("{W}", W) for i in case["opts"]["inputs"]])
    return c


def run_variants(case, strace=False):
    """Run the same invocation with decoys = A, B, removed. Returns observations and the model op for variant A."""
    W = mktemp_dir("verif-c18-")
    try:
        c = with_real_paths(case, W)
        out = []
        op = None
        for variant in ("A", "B", "gone"):
            for f in os.listdir(W):
                p = os.path.join(W, f)
                shutil.rmtree(p) if os.path.isdir(p) and not os.path.islink(p) else os.unlink(p)
            lay = dict(c["layout"])
            for dname in case["decoys"]:
                if variant == "B":
                    lay[dname] = {"fmt": "yaml", "docs": [DECOY_B]}
                elif variant == "gone":
                    lay.pop(dname, None)
            materialise(W, lay)
            cwd = os.path.join(W, c["cwd"])
            os.makedirs(cwd, exist_ok=True)
            args = cli_args(c["opts"])
            if strace and variant == "A":
                tr = os.path.join(W, "strace.out")
                p = subprocess.run(["strace", "-f", "-y", "-e", "trace=openat,open", "-o", tr, os.path.join(BIN, "bkl")] + args,
                                   cwd=cwd, capture_output=True, env={"PATH": "/usr/bin:/bin", "HOME": cwd}, timeout=60)
                r = {"rc": p.returncode, "out": p.stdout.decode(), "err": p.stderr.decode()}
                opened = []
                if os.path.exists(tr):
                    import re
                    decoy_paths = {os.path.realpath(os.path.join(W, dname)) for dname in case["decoys"]}
                    for line in open(tr, errors="replace"):
                        if "ENOENT" in line or "= -1" in line:
                            continue
                        # strace -y annotates the returned descriptor with the path it refers to: `= 8</abs/path>`
                        m = re.search(r"= \d+<([^>]+)>\s*$", line)
                        if m and os.path.realpath(m.group(1)) in decoy_paths and "O_RDONLY" in line and "O_DIRECTORY" not in line and "O_PATH" not in line:
                            opened.append(line.strip()[:240])
                    os.unlink(tr)
                r["decoy_opens"] = opened
            else:
                r = run_cli("bkl", args, cwd)
            obs = {"rc": r["rc"], "out": r["out"], "err": r["err"], "shape": bad_shape(r) if "out_bytes" in r else None, "variant": variant}
            if "decoy_opens" in r:
                obs["decoy_opens"] = r["decoy_opens"]
            out.append(obs)
            if variant == "A":
                op = {"op": "fs", "entries": model_entries(W, lay), "cwd": cwd, "env": {},
                      "opts": {k: v for k, v in c["opts"].items() if v not in (None, False)}}
        return out, op
    finally:
        shutil.rmtree(W, ignore_errors=True)


def evaluate(rep, cases, strace=False):
    res = pmap(lambda c: run_variants(c, strace), cases)
    ops = []
    for i, (obs, op) in enumerate(res):
        op["id"] = i
        ops.append(op)
    mres = run_model(ops)
    bad = 0
    for i, (c, (obs, op)) in enumerate(zip(cases, res)):
        kind = c["meta"]["kind"]
        a, b, g = obs
        rep.case({"layout": c["layout"], "opts": c["opts"], "cwd": c["cwd"]}, kind not in ("benign",),
                 sample={"kind": kind, "cwd": c["cwd"], "opts": c["opts"], "rc": a["rc"]})
        rep.count(f"kind:{kind}:rc{a['rc']}")
        rep.traces += 1
        d = None
        if a["shape"]:
            d = "implementation " + a["shape"]
        elif not (a["rc"] == b["rc"] == g["rc"] and a["out"] == b["out"] == g["out"]):
            d = "output or status depends on a file outside the root"
        elif "AAA" in a["out"] or "leak" in a["out"]:
            d = "content of a file outside the root reached the output"
        elif a.get("decoy_opens"):
            d = "a file outside the root was opened for reading: " + a["decoy_opens"][0]
        else:
            d = compare_with_model(a, mres.get(i))
        if d:
            bad += 1
            if len(rep.violations) < 4:
                rep.disagreements_checked += 1
                rep.violation(d, {"case": c, "observed": obs, "model": mres.get(i)})
    return bad


# ---------------------------------------------------------------- library: SetRoot called several times
ROOT_SEQS = [["."], ["sub"], [".", "sub"], ["sub", ".."], ["sub", "../.."], [".", ".."], [".", "{W}"], [".", "/"], ["sub", "../../outside"],
             [".", "../outside"], ["sub", "."], [".", "sub", ".."], ["sub", "{W}/root"], [".", "{W}/root/sub"], ["sub", "{W}/outside"],
             [".", "ldout"], ["sub", "../ldout"], [".", "{W}/root-secrets"]]


def lib_case(rng):
    c = gen_case(rng)
    while c["cwd"] != "root":
        c = gen_case(rng)
    c["layout"]["root/ldout"] = {"link": "../outside"}
    roots = rng.choice(ROOT_SEQS)
    if rng.random() < 0.4:
        # sequences that only narrow: evaluation inside the final root must work as usual
        roots = rng.choice([["."], ["sub"], [".", "sub"], [".", "{W}/root/sub"], [".", "."], ["sub", "sub"], [".", "./sub/../sub"]])
        while c["meta"]["kind"] not in ("benign", "benign-link-inside", "root-sub"):
            c = gen_case(rng)
        c["layout"]["root/ldout"] = {"link": "../outside"}
    # after a second SetRoot the interesting inputs are the decoys and the files of the first root
    inputs = [rng.choice(["a.b.yaml", "sub/c.yaml", "../outside/decoy.yaml", "../secret.yaml", "{W}/secret.yaml", "{W}/outside/decoy.yaml",
                          "../root-secrets/decoy.yaml", "ldout/decoy.yaml", "a.yaml"])]
    r = rng.random()
    if any("ldout" in x or "outside" in x or x in ("..", "/", "{W}") for x in roots[1:]) and rng.random() < 0.7:
        # the last SetRoot tries to leave the first root: afterwards ask for what only a widened root could serve
        inputs = [rng.choice(["ldout/decoy.yaml", "{W}/outside/decoy.yaml", "../outside/decoy.yaml", "{W}/secret.yaml", "../secret.yaml"])]
    elif r < 0.3:
        inputs = c["opts"]["inputs"]
    elif r < 0.7:
        inputs = [rng.choice(["a.b.yaml", "sub/c.yaml", "a.yaml", "./sub/../a.b.yaml"])]
    if rng.random() < 0.15:
        # a second SetRoot THROUGH a directory symlink that leaves the first root, then a file below that link
        roots = rng.choice([[".", "ldout"], [".", "{W}/root/ldout"], [".", "./sub/../ldout"], [".", "ldchain"]])
        c["layout"]["root/ldchain"] = {"link": "ldout"}
        inputs = [rng.choice(["ldout/decoy.yaml", "ldchain/decoy.yaml", "{W}/root/ldout/decoy.yaml"])]
    lib = {"roots": roots, "inputs": inputs}
    kind = "lib:" + "+".join(roots)
    if rng.random() < 0.25:
        # a file is merged BEFORE the root is narrowed; afterwards the same path (directly, or through $parent of an
        # in-root file) must be refused like any other path outside the root
        outside = rng.choice(["../outside/decoy.yaml", "../secret.yaml", "{W}/outside/decoy.yaml"])
        c["layout"]["root/uses.yaml"] = {"fmt": "yaml", "docs": [{"$parent": "../outside/decoy", "u": 1}]}
        again = rng.choice([outside, "uses.yaml", "a.yaml", outside])
        lib = {"actions": [{"input": outside}, {"root": rng.choice([".", "sub"])}, {"input": again}]}
        kind = "lib:merge-then-root"
    if rng.random() < 0.15:
        # a SetRoot that is REFUSED (it would widen or leave the root) and a caller that carries on: the root set before
        # still confines what follows (links leaving the root, decoys by path)
        c["layout"]["root/lnk.yaml"] = {"link": "../outside/decoy.yaml"}
        c["layout"]["root/labs.yaml"] = {"link": "{W}/outside/decoy.yaml"}
        bad_root = rng.choice(["/", "..", "{W}", "../outside", "{W}/outside", "ldout", "nosuchdir"])
        first = rng.choice([".", "sub", "{W}/root"])
        follow = rng.choice(["lnk.yaml", "labs.yaml", "../outside/decoy.yaml", "{W}/outside/decoy.yaml", "a.yaml", "ldout/decoy.yaml", "{W}/root/lnk.yaml"])
        lib = {"actions": [{"root": first}, {"tryroot": bad_root}, {"input": follow}]}
        kind = "lib:refused-root-then-input"
    return dict(c, lib=lib, meta={"kind": kind})


def run_lib_variants(case):
    W = mktemp_dir("verif-c18l-")
    try:
        c = with_real_paths(case, W)
        if "actions" in case["lib"]:
            lib = {"actions": [{k: v.replace("{W}", W) for k, v in a.items()} for a in case["lib"]["actions"]]}
        else:
            lib = {"roots": [r.replace("{W}", W) for r in case["lib"]["roots"]], "inputs": [i.replace("{W}", W) for i in case["lib"]["inputs"]]}
        out, mop = [], None
        for variant in ("A", "B", "gone"):
            for f in os.listdir(W):
                p = os.path.join(W, f)
                shutil.rmtree(p) if os.path.isdir(p) and not os.path.islink(p) else os.unlink(p)
            lay = dict(c["layout"])
            for dname in case["decoys"]:
                if variant == "B":
                    lay[dname] = {"fmt": "yaml", "docs": [DECOY_B]}
                elif variant == "gone":
                    lay.pop(dname, None)
            materialise(W, lay)
            cwd = os.path.join(W, "root")
            g = run_go([dict({"op": "files", "id": 0, "dir": cwd}, **lib)]).get(0) or {}
            out.append({"variant": variant, "res": g})
            if variant == "A":
                mop = dict({"op": "libfs", "entries": model_entries(W, lay), "cwd": cwd, "env": {}}, **lib)
        return out, mop
    finally:
        shutil.rmtree(W, ignore_errors=True)


def lib_status(g):
    if any(k in g for k in ("panic", "crash", "timeout", "oom", "protocol_error")) or not g:
        return ("bad", str(g)[:150])
    if "stage" in g:
        return ("err", g["stage"])
    if "out" in g and "err" in g["out"]:
        return ("err", "output")
    return ("ok", (g.get("docs"), (g.get("out") or {}).get("ok")))


def evaluate_lib(rep, cases):
    res = pmap(run_lib_variants, cases)
    ops = []
    for i, (obs, op) in enumerate(res):
        op["id"] = i
        ops.append(op)
    mres = run_model(ops)
    bad = 0
    for i, (c, (obs, op)) in enumerate(zip(cases, res)):
        a, b, g = [lib_status(o["res"]) for o in obs]
        rep.case({"layout": c["layout"], "lib": c["lib"]}, True, sample={"kind": c["meta"]["kind"], "lib": c["lib"], "status": a[0]} if i < 3 else None)
        rep.count(f"{c['meta']['kind']}:{a[0]}")
        rep.traces += 1
        m = mres.get(i) or {}
        d = None
        if a[0] == "bad":
            d = "implementation " + a[1]
        elif ("actions" not in c["lib"] or c["meta"]["kind"] == "lib:refused-root-then-input") and not (a == b == g) and not (a[0] == b[0] == g[0] == "err"):
            # (when a file was legitimately read before any root was set, the result may depend on it: the model decides)
            d = "library result depends on a file outside the root(s) set with SetRoot"
        elif "actions" not in c["lib"] and a[0] == "ok" and ("AAA" in str(a[1]) or "leak" in str(a[1])):
            d = "content of a file outside the root reached the documents"
        elif "unmodelled" in m:
            d = None
        elif "err" in m and a[0] == "ok":
            d = f"implementation succeeds where the model of SetRoot/os.Root reports {m['err']}"
        elif "ok" in m and a[0] == "err":
            d = f"implementation fails ({obs[0]['res'].get('stage')}: {obs[0]['res'].get('msg', '')[:100]}) where the model succeeds"
        elif "ok" in m and a[0] == "ok" and (m["ok"]["merged"] != a[1][0] or m["ok"]["docs"] != a[1][1]):
            d = "documents differ from the model"
        elif "ok" not in m and "err" not in m:
            d = f"MODEL-PROBLEM {str(m)[:150]}"
        if d:
            bad += 1
            if len(rep.violations) < 4:
                rep.disagreements_checked += 1
                rep.violation(d, {"case": {k: v for k, v in c.items()}, "observed": obs, "model": m})
    return bad


def run(rep):
    rep.rule = ("directory trees with a designated root and decoy layer files outside it; inputs inside the root whose $parent values "
                "(.., absolute, globs), filename chains and symlinks (relative, absolute, chained, directory symlinks, links whose "
                "target name has an outside parent) aim at the decoys; root spellings ., sub, ..; every invocation is run with decoy "
                "content A, content B and decoys removed: exit status and stdout must be identical, no decoy content may appear; "
                "variant A is compared with the model of os.Root; thorough tier runs under strace and requires that no decoy is "
                "opened for reading; sibling directories whose path extends the root's path; library stage: sequences of SetRoot "
                "calls (narrowing, widening, through links) and merges before a SetRoot, compared with the model of SetRoot/os.Root; "
                "non-trivial = the case aims at a decoy or uses a non-trivial root spelling")
    rep.proof, rep.broken = proof_step(PID)
    rng = random.Random(rep.seed)
    n = 500 if rep.tier == "quick" else 8000
    cases = [c for _, c in load_corpus(PID)] + [gen_case(rng) for _ in range(n)]
    bad = evaluate(rep, cases, strace=False)
    bad += evaluate_lib(rep, [lib_case(rng) for _ in range(250 if rep.tier == "quick" else 6000)])
    if rep.tier == "thorough":
        bad += evaluate(rep, cases[:1500], strace=True)
        rep.extra["strace_cases"] = min(1500, len(cases))
    if rep.broken and not rep.violations:
        if evaluate(rep, [gen_case(rng) for _ in range(800)]) == 0:
            rep.violation("proof obligation no longer checks: " + "; ".join(b["obligation"] for b in rep.broken), {"broken": rep.broken}, no_input=True)
    rep.assumptions.append("os.Root, os.Stat, filepath.Glob, EvalSymlinks are modelled (Bkl.Files); the real behaviour is what the decoy-variation and strace runs observe")


def replay(rep, payload):
    if "lib" in payload["case"]:
        return 1 if evaluate_lib(rep, [payload["case"]]) else 0
    obs, op = run_variants(payload["case"], strace=True)
    op["id"] = 0
    m = run_model([op]).get(0)
    print(obs)
    print(m)
    a, b, g = obs
    bad = not (a["rc"] == b["rc"] == g["rc"] and a["out"] == b["out"] == g["out"]) or compare_with_model(a, m) or a.get("decoy_opens")
    return 1 if bad else 0
