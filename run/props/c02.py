"""C02 — stream layering targets the right documents and treats each independently."""
import gen
from props.evalcommon import standard_run, standard_replay

PID = "C02"


def small_doc(rng, tag=None):
    d = gen.map_tree(rng, depth=2, nulls=False, wide=3)
    if tag is not None:
        d["kind"] = tag
    return d


def gen_case(rng):
    nbase = rng.randint(1, 4)
    kinds = ["A", "B", "C"]
    steps = []
    layers = []
    base_ids = []
    base_docs = []
    for i in range(nbase):
        did = f"F0|doc{i}"
        d = small_doc(rng, rng.choice(kinds))
        if rng.random() < 0.2:
            d = gen.with_required(rng, d, 0.2)
        steps.append({"merge": {"id": did, "parents": [], "data": d}})
        base_ids.append(did)
        base_docs.append(d)
    layers.append(base_ids)
    all_docs = list(base_docs)
    for li in range(1, rng.randint(2, 4)):
        ids = []
        parent_ids = layers[rng.randrange(len(layers))] if rng.random() < 0.15 else layers[-1]
        for di in range(rng.randint(1, 3)):
            did = f"F{li}|doc{di}"
            target = rng.choice(all_docs)
            patch = gen.patch_for(rng, target, misplace=0.03)
            if not isinstance(patch, dict):
                patch = {"n%d" % li: di}
            patch.pop("kind", None) if rng.random() < 0.7 else None
            r = rng.random()
            if r < 0.45:
                pass                                     # default: all documents of the parent layer
            elif r < 0.7:
                patch["$match"] = {"kind": target.get("kind", "A")}
            elif r < 0.78:
                patch["$match"] = {"kind": "nosuch"}      # matches nothing
            elif r < 0.86:
                patch["$match"] = {"kind": target.get("kind", "A"), "$invert": True}
            elif r < 0.94:
                patch["$match"] = None                    # explicit append
                patch["kind"] = rng.choice(kinds)
            else:
                patch["$match"] = gen.sub_pattern(rng, target)
            steps.append({"merge": {"id": did, "parents": list(parent_ids), "data": patch}})
            ids.append(did)
            all_docs.append(patch)
        layers.append(ids)
        if rng.random() < 0.3:
            steps.append({"docs": True})
    steps += [{"docs": True}, {"alias": True}, {"outdocs": True}]
    return {"steps": steps, "env": {}}


def nontrivial(case, go, mo):
    n = sum(1 for s in case["steps"] if "merge" in s)
    return n >= 3


def oracle(case, go, mo):
    return None


def run(rep):
    standard_run(rep, PID, gen_case, nontrivial, "document targeting / per-document result differs", 3000, 150000,
                 "base streams of 1-4 documents + 1-3 further layers of 1-3 documents (file-style parent links, occasionally a "
                 "non-adjacent parent layer), document-level $match hitting / missing / $invert / null / structural sub-patterns; "
                 "every MergeDocument result, intermediate Documents() snapshots and final outputs are compared with the model; "
                 "the separation monitor (`alias` step) counts containers shared between documents; non-trivial = >= 3 documents merged")
    # separation monitor summary
    rep.assumptions.append("value-semantic model is a faithful abstraction of the Go heap only while no container is shared between documents; the `alias` step measures this")


def replay(rep, payload):
    return standard_replay(payload)
