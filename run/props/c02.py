"""C02 — stream layering targets the right documents and treats each independently."""
import gen
from props.evalcommon import standard_run, standard_replay

PID = "C02"


def small_doc(rng, tag=None):
    d = gen.map_tree(rng, depth=2, nulls=False, wide=3)
    if tag is not None:
        d["kind"] = tag
    return d


def fallback_case(rng):
    """a patch whose $match hits none of its parent documents: the search falls back to every document of the
    parser, including documents that stand BEFORE the parents in the stream (multi-root inputs, several command-line
    files)"""
    kinds = ["A", "B", "C", "D"]
    n = rng.randint(2, 5)
    docs = [dict(small_doc(rng, kinds[i % 4]), kind=kinds[i % 4]) for i in range(n)]
    steps = [{"merge": {"id": f"F0|doc{i}", "parents": [], "data": d}} for i, d in enumerate(docs)]
    # parents: a non-prefix subset (the last document, or a middle one)
    par = rng.choice([[n - 1], [n - 1, n - 2] if n > 2 else [n - 1], [rng.randrange(1, n)]])
    outside = [i for i in range(n) if i not in par]
    tgt = rng.choice(outside)
    patch = {"$match": {"kind": docs[tgt]["kind"]}, "patched": rng.choice([1, "x"])}
    if rng.random() < 0.3:
        patch["$match"] = {"kind": "nosuch"}
    steps.append({"merge": {"id": "F1|doc0", "parents": [f"F0|doc{i}" for i in par], "data": patch}})
    if rng.random() < 0.5:
        steps.append({"merge": {"id": "F1|doc1", "parents": [f"F0|doc{i}" for i in par], "data": {"plain": 1}}})
    steps += [{"docs": True}, {"outdocs": True}]
    return {"steps": steps, "env": {}}


def entry_match_case(rng):
    """the patch's document-level $match selects a PARENT document; inside the patch a list-entry $match finds no entry in
    that parent.  That is an error of this patch - not a reason to go looking for other documents, although a document
    OUTSIDE the parent layer would match both"""
    kind = rng.choice(["A", "B"])
    outside = {"kind": kind, "l": [{"n": 2, "v": "out"}], "tag": "outside"}
    parent = {"kind": kind, "l": [{"n": 1, "v": "in"}], "tag": "parent"}
    steps = [{"merge": {"id": "F0|doc0", "parents": [], "data": outside}}, {"merge": {"id": "G0|doc0", "parents": [], "data": parent}}]
    want = rng.choice([2, 2, 1, 3])
    patch = {"$match": {"kind": kind}, "l": [{"$match": {"n": want}, "v": "patched"}]}
    if rng.random() < 0.3:
        patch["l"][0] = {"$match": {"n": want}, "$value": {"n": want, "v": "replaced"}}
    steps.append({"merge": {"id": "G1|doc0", "parents": ["G0|doc0"], "data": patch}})
    steps += [{"docs": True}, {"outdocs": True}]
    return {"steps": steps, "env": {}}


def gen_case(rng):
    if rng.random() < 0.06:
        return fallback_case(rng)
    if rng.random() < 0.04:
        return entry_match_case(rng)
    nbase = rng.randint(1, 4)
    kinds = ["A", "B", "C"]
    steps = []
    layers = []
    base_ids = []
    base_docs = []
    for i in range(nbase):
        did = f"F0|doc{i}"
        d = small_doc(rng, rng.choice(kinds))
        if rng.random() < 0.2:
            d = gen.with_required(rng, d, 0.2)
        steps.append({"merge": {"id": did, "parents": [], "data": d}})
        base_ids.append(did)
        base_docs.append(d)
    layers.append(base_ids)
    all_docs = list(base_docs)
    for li in range(1, rng.randint(2, 4)):
        ids = []
        parent_ids = layers[rng.randrange(len(layers))] if rng.random() < 0.15 else layers[-1]
        for di in range(rng.randint(1, 3)):
            did = f"F{li}|doc{di}"
            target = rng.choice(all_docs)
            patch = gen.patch_for(rng, target, misplace=0.03)
            if not isinstance(patch, dict):
                patch = {"n%d" % li: di}
            patch.pop("kind", None) if rng.random() < 0.7 else None
            r = rng.random()
            if r < 0.45:
                pass                                     # default: all documents of the parent layer
            elif r < 0.7:
                patch["$match"] = {"kind": target.get("kind", "A")}
            elif r < 0.78:
                patch["$match"] = {"kind": "nosuch"}      # matches nothing
            elif r < 0.86:
                patch["$match"] = {"kind": target.get("kind", "A"), "$invert": True}
            elif r < 0.94:
                patch["$match"] = None                    # explicit append
                patch["kind"] = rng.choice(kinds)
            else:
                patch["$match"] = gen.sub_pattern(rng, target)
            steps.append({"merge": {"id": did, "parents": list(parent_ids), "data": patch}})
            ids.append(did)
            all_docs.append(patch)
        layers.append(ids)
        if rng.random() < 0.3:
            steps.append({"docs": True})
    steps += [{"docs": True}, {"alias": True}, {"outdocs": True}]
    return {"steps": steps, "env": {}}


def nontrivial(case, go, mo):
    n = sum(1 for s in case["steps"] if "merge" in s)
    return n >= 3


def oracle(case, go, mo):
    return None


# ---------------------------------------------------------------- the same through real files (file.go: ids, setParents)
def files_case(rng):
    """a filename chain of 2-3 stream files; every document of a child file has ALL documents of its parent file as
    parents (file.go:setParents), ids are assigned by the loader"""
    import formats
    kinds = ["A", "B", "C"]
    nb = rng.randint(1, 4)
    base = []
    for i in range(nb):
        d = small_doc(rng, rng.choice(kinds))
        base.append(d)
    layout = {}
    names = ["s"]
    exts = [rng.choice(["yaml", "json", "yml"])]
    layout[f"s.{exts[0]}"] = {"fmt": exts[0], "docs": base}
    all_docs = list(base)
    for li in range(1, rng.randint(2, 3)):
        docs = []
        for di in range(rng.randint(1, 3)):
            target = rng.choice(all_docs)
            if rng.random() < 0.6:
                # additive: applies to every document it is merged into
                patch = {"n%d_%d" % (li, di): rng.choice([di, "v", {"deep": [li]}]), "lst": [li * 10 + di]}
            else:
                patch = gen.patch_for(rng, target, misplace=0.0)
                if not isinstance(patch, dict):
                    patch = {"n%d" % li: di}
            patch.pop("kind", None)
            r = rng.random()
            if r < 0.45:
                pass
            elif r < 0.7:
                patch["$match"] = {"kind": target.get("kind", "A")}
            elif r < 0.8:
                patch["$match"] = {"kind": "nosuch"}
            elif r < 0.92:
                patch["$match"] = None
                patch["kind"] = rng.choice(kinds)
            else:
                patch["$match"] = {"kind": target.get("kind", "A"), "$invert": True}
            docs.append(patch)
            all_docs.append(patch)
        names.append(names[-1] + ".l%d" % li)
        e = rng.choice(["yaml", "json"])
        exts.append(e)
        layout[f"{names[-1]}.{e}"] = {"fmt": e, "docs": docs}
    return {"layout": layout, "opts": {"inputs": [f"{names[-1]}.{exts[-1]}"], "format": "json"}, "meta": {"kind": "stream-files"}}


def files_stage(rep, rng, n):
    from cli import pmap
    from common import run_model
    from fscheck import run_case, compare_with_model
    cases = [files_case(rng) for _ in range(n)]
    res = pmap(run_case, cases)
    ops = []
    for i, (obs, op) in enumerate(res):
        op["id"] = i
        ops.append(op)
    mres = run_model(ops)
    for i, (c, (obs, op)) in enumerate(zip(cases, res)):
        rep.case(["files", c["layout"]], len(c["layout"]) >= 2, sample={"files": sorted(c["layout"]), "rc": obs["rc"]} if i < 2 else None)
        rep.count(f"files:rc{obs['rc']}")
        rep.traces += 1
        d = compare_with_model(obs, mres.get(i))
        if d and len(rep.violations) < 5:
            rep.disagreements_checked += 1
            rep.violation("stream files: " + d, {"case": {"files": c}, "observed": obs, "model": mres.get(i)})


def stream_file_cases(rng, n):
    """multi-document layer FILES in mixed formats: the documents carry a numeric id of any integer width, the layers above select
    their targets by `$match` on that number (plain and inverted) - pattern and target come from different readers"""
    import fscheck
    out = []
    for _ in range(n):
        pool = rng.sample([5, 6, 7, 2**31 - 1, 2**31, 5000000000, 6000000000, -2**31 - 1, 2**53 + 1, 2**63 - 1], 3)
        base = [{"kind": rng.choice(["A", "B"]), "num": pool[i], "v": i} for i in range(rng.randint(2, 3))]
        layers = [base]
        for li in range(1, rng.randint(2, 3)):
            docs = []
            for di in range(rng.randint(1, 2)):
                target = rng.choice(base)
                d = {"w%d%d" % (li, di): rng.choice([1, "x", 2**40])}
                r = rng.random()
                if r < 0.5:
                    d["$match"] = {"num": target["num"]}
                elif r < 0.7:
                    d["$match"] = {"num": target["num"], "$invert": True}
                elif r < 0.8:
                    d["$match"] = {"num": 424242424242}      # matches nothing
                docs.append(d)
            layers.append(docs)
        name, layout, top = "s", {}, None
        for i, docs in enumerate(layers):
            if i:
                name += ".l%d" % i
            ext = rng.choice(["json", "jsonl", "yaml", "yml", "toml"])
            layout[f"{name}.{ext}"] = {"fmt": ext, "docs": docs}
            top = f"{name}.{ext}"
        out.append({"layout": layout, "opts": {"inputs": [top], "format": "json"},
                    "meta": {"kind": "stream:" + "+".join(sorted({f.rsplit(".", 1)[1] for f in layout}))}})
    return out


def run(rep):
    standard_run(rep, PID, gen_case, nontrivial, "document targeting / per-document result differs", 3000, 150000,
                 "base streams of 1-4 documents + 1-3 further layers of 1-3 documents (file-style parent links, occasionally a "
                 "non-adjacent parent layer), document-level $match hitting / missing / $invert / null / structural sub-patterns; "
                 "every MergeDocument result, intermediate Documents() snapshots and final outputs are compared with the model; "
                 "the separation monitor (`alias` step) counts containers shared between documents; non-trivial = >= 3 documents merged")
    import random
    files_stage(rep, random.Random(rep.seed + 31), 300 if rep.tier == "quick" else 12000)
    if len(rep.violations) < 5:
        import fscheck
        fscheck.file_chain_stage(rep, stream_file_cases(random.Random(rep.seed + 57), 150 if rep.tier == "quick" else 4000),
                                 "multi-document layer files in mixed formats")
    # separation monitor summary
    rep.assumptions.append("value-semantic model is a faithful abstraction of the Go heap only while no container is shared between documents; the `alias` step measures this")


def replay(rep, payload):
    if "files" in payload.get("case", {}):
        from common import run_model
        from fscheck import run_case, compare_with_model
        obs, op = run_case(payload["case"]["files"])
        op["id"] = 0
        m = run_model([op]).get(0)
        d = compare_with_model(obs, m)
        print(obs, m, d)
        return 1 if d else 0
    return standard_replay(payload)
