"""C12 — $repeat expands to exactly n indexed copies (cartesian product for named counts)."""
import itertools
import re
import gen
from histcheck import chain_case, run_cases
from props.evalcommon import standard_run, standard_replay, small_scope

PID = "C12"
W = {"repeat": 6, "interp": 1, "output": 0.5, "ref": 0.5, "encode": 0.3}


def body(rng, names):
    """a repeat body using the index in values, interpolations and keys"""
    vals = ["$repeat", "$\"i{$repeat}\"", "$\"{$repeat}-x\"", 1, "s"]
    for n in names:
        vals += ["$\"{$repeat:%s}\"" % n, "$\"{$repeat:%s}/{$repeat:%s}\"" % (n, names[0])]
    d = {}
    for k in rng.sample(gen.KEYS, rng.randint(1, 3)):
        d[k] = rng.choice(vals) if rng.random() < 0.7 else [rng.choice(vals), {"q": rng.choice(vals)}]
    return d


def subst(v, binding):
    """the hand-expanded document: every use of the repeat variables replaced by the index"""
    if isinstance(v, str):
        if v in binding:
            return binding[v]
        if v.startswith('$"') and v.endswith('"') and len(v) >= 3:
            out = v
            for name, i in binding.items():
                out = out.replace("{" + name + "}", str(i))
            if "{" not in out:
                return out[2:-1]
            return out
        return v
    if isinstance(v, dict):
        return {subst(k, binding): subst(x, binding) for k, x in v.items()}
    if isinstance(v, list):
        return [subst(x, binding) for x in v]
    return v


def gen_case1(rng):
    r = rng.random()
    if r < 0.55:
        # document-level repeat with an independent expectation
        named = rng.random() < 0.45
        if named:
            names = rng.sample(["x", "y", "z"], rng.randint(1, 3))
            counts = {n: rng.choice([0, 1, 2, 3, 2]) for n in names}
            b = body(rng, names)
            doc = dict(b)
            doc["$repeat"] = dict(counts)
            exp = []
            for combo in itertools.product(*[range(counts[n]) for n in sorted(names)]):
                binding = {"$repeat:%s" % n: i for n, i in zip(sorted(names), combo)}
                exp.append(subst(b, binding))
        else:
            n = rng.choice([0, 1, 2, 3, 4, 5])
            b = body(rng, [])
            doc = dict(b)
            doc["$repeat"] = n
            exp = [subst(b, {"$repeat": i}) for i in range(n)]
        layers = [doc]
        if rng.random() < 0.25:
            # an upper layer overrides the count
            if named:
                nm = rng.choice(sorted(counts))
                new = rng.choice([c for c in (0, 1, 2, 3) if c != counts[nm]])
                layers.append({"$repeat": {nm: new}})
                counts2 = dict(counts, **{nm: new})
                exp = []
                for combo in itertools.product(*[range(counts2[n]) for n in sorted(counts2)]):
                    binding = {"$repeat:%s" % n: i for n, i in zip(sorted(counts2), combo)}
                    exp.append(subst(b, binding))
            else:
                new = rng.choice([c for c in (0, 1, 2, 3) if c != n])
                layers.append({"$repeat": new})
                exp = [subst(b, {"$repeat": i}) for i in range(new)]
        c = chain_case(layers, env={}, tail=("outdocs",))
        c["expect_docs"] = exp
        c["noshrink"] = True
        return c
    if r < 0.62:
        # the index stored in a field (`idx: $repeat`) and reached THROUGH A REFERENCE from a template, in a value and in a
        # key; also under a named count and with the count overridden by an upper layer.  The model is the judge.
        named = rng.random() < 0.4
        idx = "$repeat:n" if named else "$repeat"
        doc = {"idx": idx, "name": "$\"svc-{idx}\"", "$repeat": ({"n": rng.choice([1, 2, 3])} if named else rng.choice([1, 2, 3]))}
        if rng.random() < 0.5:
            doc["$\"port-{idx}\""] = rng.choice([1, "$\"{idx}{idx}\""])
        if rng.random() < 0.4:
            doc["deep"] = {"i": idx, "l": ["$\"<{deep.i}>\"", idx]}
        layers = [doc]
        if rng.random() < 0.3:
            layers.append({"$repeat": ({"n": 4} if named else 4)})
        return chain_case(layers, env={}, tail=("outdocs",))
    if r < 0.7:
        # nested repeats sharing one template text (the model is the judge)
        layers = [gen.nested_repeat_same_template(rng) if rng.random() < 0.5 else gen.named_outer_nested_inner(rng)]
        if rng.random() < 0.25 and "$repeat" in layers[0]:
            layers.append({"$repeat": rng.choice([1, 2, 4])})
        return chain_case(layers, env={}, tail=("outdocs",))
    doc = gen.eval_doc(rng, W, depth=rng.randint(2, 3), nfeat=(1, 3))
    return chain_case([doc], env=gen.ENV, tail=("outdocs",))


def gen_case(rng):
    c = gen_case1(rng)
    if rng.random() < 0.25:
        # the same parser asked for its output a second time: the expansion is the same again (the first evaluation works on a copy)
        c["steps"] = c["steps"] + [{"outdocs": True}]
    return c


def oracle(case, go, mo):
    """Metamorphic on the implementation: evaluating the document equals evaluating its hand expansion."""
    if "expect_docs" not in case or not go or "res" not in go:
        return None
    last = go["res"][-1]
    exp_cases = [chain_case([d], env={}, tail=("outdocs",)) for d in case["expect_docs"]]
    exp_out = []
    for r in (case.get("_exp_res") if "_exp_res" in case else (run_cases(exp_cases) if exp_cases else [])):
        l = r[1]["res"][-1] if r[1] and "res" in r[1] else {}
        if "ok" not in l:
            return None  # the hand expansion itself is rejected: not a usable expectation
        exp_out += l["ok"]
    if "ok" not in last:
        return f"$repeat document rejected ({last.get('err')}) although its hand expansion evaluates"
    if last["ok"] != exp_out:
        return f"{len(last['ok'])} outputs, hand expansion gives {len(exp_out)}" if len(last["ok"]) != len(exp_out) else "a copy differs from its hand expansion"
    return None


def batch_aux(cases, results):
    flat, idx = [], []
    for i, c in enumerate(cases):
        if "expect_docs" in c:
            for d in c["expect_docs"]:
                flat.append(chain_case([d], env={}, tail=("outdocs",)))
                idx.append(i)
    res = run_cases(flat) if flat else []
    for c in cases:
        if "expect_docs" in c:
            c["_exp_res"] = []
    for i, r in zip(idx, res):
        cases[i]["_exp_res"].append(r)


def nontrivial(case, go, mo):
    return "$repeat" in str(case["steps"])


def run(rep):
    standard_run(rep, PID, gen_case, nontrivial, "$repeat expansion differs", 3000, 120000,
                 "document-level $repeat (count 0-5, 1-3 named counts, bodies using $repeat / {$repeat} / {$repeat:name} in values, "
                 "interpolations, lists, nested maps; optional upper layer overriding the count) judged by the model and by "
                 "evaluating the hand-expanded documents on the implementation; plus nested list/map repeats and malformed counts "
                 "judged by the model; non-trivial = contains $repeat", oracle=oracle, batch_aux=batch_aux, extra_gens=[small_scope(PID)])


def replay(rep, payload):
    return standard_replay(payload, oracle=oracle)
