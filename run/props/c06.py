"""C06 — plain data passes through unchanged; $$ escapes any literal dollar."""
import gen
from histcheck import chain_case, run_cases
from props.evalcommon import standard_run, standard_replay
from wire import from_wire

PID = "C06"
ALPHA = ["$", "$$", "\"", "{", "}", ":", ".", "a", "b", "$merge:x", "$\"{a}\"", "$required", "$delete", "$match", "$output",
         "$env:HOME", "$repeat", "$replace", "$value", "$encode", "$decode", "$merge", "$FOO", "${X}", "$(cmd)", "$invert",
         "$parent", "x", "", "$\"", "$a", "$A", "$1", "a$b", "$$a", "$replace:a.b", "$\"{$env:HOME}\"", "$é", "é$",
         # lower-case letters beyond Latin-1 after the dollar (directive-shaped for validate.go), and non-letters
         "$оutput", "$αbc", "$ŕequired", "$ԁelete", "$日本", "$€5"]
PLAIN = ["$FOO", "${X}", "$(cmd)", "$A", "$1", "a$b", "x", "a", "", "$", "é$", "a.b", "{a}", "\"q\"", "$ x", "$_", "$-",
         # upper/mixed-case spellings of directives are plain data like any other $NAME
         "$ENV:HOME", "$Env:HOME", "$ENV:NOSUCH", "$Env:", "$MERGE:a", "$Merge", "$Required", "$REQUIRED", "$Output", "$REPEAT", "$Delete",
         "$Replace:a", "$Encode", "$Value", "$Match", "$Parent",
         # characters of 2, 3 and 4 bytes after the dollar that are NOT lower-case letters: plain data
         "$€5", "$日本", "$😀x", "$…", "$“q”", "$É", "$Ω", "$١", "$ x"]


def rand_string(rng, pool):
    if rng.random() < 0.7:
        return rng.choice(pool)
    return "".join(rng.choice(pool) for _ in range(rng.randint(2, 3)))


def alpha_tree(rng, pool, depth=3):
    r = rng.random()
    if depth <= 0 or r < 0.4:
        q = rng.random()
        if q < 0.7:
            return rand_string(rng, pool)
        return rng.choice([1, 0, True, False, 1.5, None, 2])
    if r < 0.75:
        return {rand_string(rng, pool): alpha_tree(rng, pool, depth - 1) for _ in range(rng.randint(0, 4))}
    return [alpha_tree(rng, pool, depth - 1) for _ in range(rng.randint(0, 4))]


def double(v):
    if isinstance(v, str):
        return v.replace("$", "$$")
    if isinstance(v, dict):
        return {double(k): double(x) for k, x in v.items()}
    if isinstance(v, list):
        return [double(x) for x in v]
    return v


def drop_nulls(v):
    if isinstance(v, dict):
        return {k: drop_nulls(x) for k, x in v.items() if x is not None}
    if isinstance(v, list):
        return [drop_nulls(x) for x in v if x is not None]
    return v


def build_doubled(t):
    c = chain_case([double(t)], env=gen.ENV)
    c["expect"] = [drop_nulls(t)]
    c["src"], c["rebuild"] = t, build_doubled
    return c


def is_plain_string(s):
    import unicodedata
    if "$$" in s:
        return False
    if len(s) >= 2 and s[0] == "$":
        return not (s[1] == '"' or unicodedata.category(s[1]) == "Ll")
    return True


def is_plain(v):
    if isinstance(v, str):
        return is_plain_string(v)
    if isinstance(v, dict):
        return all(is_plain_string(k) and is_plain(x) for k, x in v.items())
    if isinstance(v, list):
        return all(is_plain(x) for x in v)
    return True


def build_plain(t):
    if not isinstance(t, dict) or not is_plain(t):
        t = {}
    c = chain_case([t], env=gen.ENV)
    c["expect"] = [drop_nulls(t)]
    c["src"], c["rebuild"] = t, build_plain
    return c


class Rejected(Exception):
    pass


def same_scalar(a, b):
    return type(a) is type(b) and a == b


def plain_merge(d, s):
    """The merge rules with every directive switched off (what layering means for pure data; Lean: `plainMerge`,
    BklProofs/Lemmas/C06Layered.lean).  Raises Rejected where the rules reject the child."""
    if d is None:
        return s
    if s is None:
        return d if isinstance(d, (dict, list)) else None     # a null child keeps a container, replaces a scalar
    if isinstance(d, dict):
        if isinstance(s, dict):
            out = dict(d)
            for k, v in s.items():
                out[k] = plain_merge(d[k], v) if k in d else v
            return out
        if not d:
            return s
        raise Rejected()
    if isinstance(d, list):
        if isinstance(s, list):
            return d + s
        raise Rejected()
    if not isinstance(s, (dict, list)) and same_scalar(d, s):
        raise Rejected()
    return s


def escape_collision(p, v):
    """Known-finding signature KF-C06-2: at some shared map position parent and (undoubled) child both use a key that
    contains `$`, or both hold the same `$`-containing string: the doubled spelling is a different key / value for
    merge, so the override (or its rejection as useless) is lost."""
    if isinstance(p, dict) and isinstance(v, dict):
        for k in v:
            if k in p:
                if "$" in k:
                    return True
                if escape_collision(p[k], v[k]):
                    return True
        return False
    if isinstance(p, str) and isinstance(v, str):
        return p == v and "$" in p
    return False


KF_HITS = []


def build_layered_plain(pair):
    parent, t = pair
    c = chain_case([parent, double(t)], env=gen.ENV)
    try:
        c["expect"] = [drop_nulls(plain_merge(parent, t))]
    except Rejected:
        c["expect"] = "reject"
    c["kf_sig"] = escape_collision(parent, t)
    c["noshrink"] = True
    return c


NEAR = ["$\"HOME/bin", "$\"{a}.{b}", "$\"label", "$\"", "$\"\"", "$\"x\"y", "x$\"{a}\"", " $\"{a}\"", "$env", "$env:", "$merge", "$replace", "$repeat:",
        "$Merge:a", "$MERGE:a", "$ merge:a", "$\"{a}\" ", "$'{a}'", "${a}", "$\"{a", "{a}", "$$", "$", "$output:true", "$delete ", " $delete", "$required "]


def near_case(rng):
    """undoubled strings one character away from a directive, as values and as keys: the model is the judge"""
    d = {"a": "A", "b": 2}
    for _ in range(rng.randint(1, 4)):
        s_ = rng.choice(NEAR)
        if rng.random() < 0.6:
            d[rng.choice(["v1", "v2", "v3"])] = s_ if rng.random() < 0.7 else [s_, {"k": s_}]
        else:
            d[s_] = rng.choice([1, "x", {"n": 1}])
    c = chain_case([d] if rng.random() < 0.7 else [{"z": 1}, d], env=gen.ENV)
    c["noshrink"] = False
    return c


def gen_case(rng):
    r = rng.random()
    if r < 0.08:
        return near_case(rng)
    if r < 0.2:
        # (d) doubled child over a parent of PLAIN data that may itself contain single dollars ($FOO, ${X}, a$b)
        parent = {rand_string(rng, PLAIN): alpha_tree(rng, PLAIN, 2) for _ in range(rng.randint(1, 4))}
        if not is_plain(parent):
            parent = {"a": 1}
        t = {}
        for _ in range(rng.randint(1, 3)):
            k = rng.choice(list(parent) + [rand_string(rng, ALPHA)])
            t[k] = alpha_tree(rng, ALPHA, 2) if rng.random() < 0.7 else alpha_tree(rng, PLAIN, 1)
        return build_layered_plain((parent, t))
    if r < 0.5:
        t = {rand_string(rng, ALPHA): alpha_tree(rng, ALPHA, 3) for _ in range(rng.randint(1, 4))}
        return build_doubled(t)
    if r < 0.7:
        t = {rand_string(rng, PLAIN): alpha_tree(rng, PLAIN, 3) for _ in range(rng.randint(1, 4))}
        return build_plain(t)
    # layered: $-free parent, doubled child (the model is the judge for the merge itself)
    parent = gen.map_tree(rng, depth=3)
    t = {rng.choice(gen.KEYS + [rand_string(rng, ALPHA)]): alpha_tree(rng, ALPHA, 2) for _ in range(rng.randint(1, 3))}
    return chain_case([parent, double(t)], env=gen.ENV)


def oracle(case, go, mo):
    """Independent expectation: the output is exactly the original data minus nulls."""
    if "expect" not in case or not go or "res" not in go:
        return None
    last = go["res"][-1]
    d = None
    if case["expect"] == "reject":
        if not any("err" in x for x in go["res"]):
            d = "a doubled child that the merge rules reject as data (same value / kind mismatch) was accepted"
    elif "ok" not in last:
        d = f"plain/escaped data was rejected: {last.get('err')} {last.get('msg','')[:80]}"
    else:
        got = [from_wire(x) for x in last["ok"]]
        want = [x for x in case["expect"] if x is not None]
        if got != want:
            d = "output differs from the original data"
    if d and case.get("kf_sig"):
        KF_HITS.append(d)
        return None
    return d


def nontrivial(case, go, mo):
    return "$" in str(case["steps"][0]["merge"]["data"]) or len(case["steps"]) > 3


def known_findings(rep):
    """KF-C06-1: the depth guard rejects plain data nested deeper than 1000 levels (replayed on every run)."""
    from common import load_known
    for k in load_known().get("open", []):
        if k.get("property") == PID and k.get("signature") == "c06.deeper_than_depth_guard":
            n = k["witness"]["nest"]
            v = 1
            for _ in range(n):
                v = [v]
            r = run_cases([chain_case([{"a": v}], tail=("outdocs",))])[0]
            last = (r[1] or {}).get("res", [{}])[-1]
            still = "err" in last
            rep.known_finding(k["id"], k["what_fails"] + ("" if still else " (witness no longer fails)"))


def exhaustive_strings(rng, tier):
    """every string of length <= 3 (thorough: <= 4) over {$ " { } : a}, doubled, as a value and as a key"""
    import itertools
    sym = ["$", "\"", "{", "}", ":", "a"]
    out = []
    for n in range(1, 5 if tier == "thorough" else 4):
        for tup in itertools.product(sym, repeat=n):
            w = "".join(tup)
            out.append(build_doubled({"v": w, "l": [w]}))
            out.append(build_doubled({w: 1}))
    return out


def run(rep):
    known_findings(rep)
    del KF_HITS[:]
    standard_run(rep, PID, gen_case, nontrivial, "escaped/plain data not preserved", 4000, 200000,
                 "trees whose keys and strings come from an alphabet of $, quotes, braces, colons, dots and every directive "
                 "name/form; (a) every $ doubled, expected output = original minus nulls; (b) directive-free plain data "
                 "($FOO, ${X}, $(cmd)); (c) doubled tree layered over a $-free parent; (d) doubled tree layered over plain data "
                 "that itself contains single dollars, judged by an independent directive-free merge; non-trivial = contains a $ or is layered",
                 oracle=oracle, extra_gens=(exhaustive_strings,))
    from common import load_known
    for k in load_known().get("open", []):
        if k.get("property") == PID and k.get("signature") == "c06.escape_collision_across_layers":
            w = k["witness"]
            r = run_cases([chain_case([w["parent"], w["child"]], tail=("outdocs",))])[0]
            last = (r[1] or {}).get("res", [{}])[-1]
            still = "ok" in last and [from_wire(x) for x in last["ok"]] == [w["observed"]]
            if KF_HITS or still:
                rep.known_finding(k["id"], k["what_fails"] + ("" if still else " (witness no longer fails)"))
            KF_HITS_handled = True
            break
    else:
        if KF_HITS:
            rep.violation("escaped data layered over data with single dollars: " + KF_HITS[0], {"hits": KF_HITS[:5]}, no_input=True)
    rep.extra["kf_c06_2_hits"] = len(KF_HITS)


def replay(rep, payload):
    return standard_replay(payload, oracle=oracle)
