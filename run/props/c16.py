"""C16 — bkli yields the maximal common base, and the migrate workflow is lossless."""
import random
import gen
import formats
from cli import run_cli, write_files, Workdir, pmap, bad_shape
from common import proof_step, load_corpus, run_model
from props.toolscommon import pmap_tree, edit, FMTS, KEYS, ptree
from wire import to_wire, from_wire

PID = "C16"
REQ = "$required"


def gen_case(rng):
    n = rng.randint(2, 4)
    r = rng.random()
    if r < 0.12:
        t = pmap_tree(rng)
        trees = [gen.deep(t) for _ in range(n)]          # identical inputs (idempotence)
    elif r < 0.25:
        trees = [pmap_tree(rng) for _ in range(n)]       # unrelated
    else:
        anc = pmap_tree(rng, depth=rng.randint(2, 4))
        trees = []
        for _ in range(n):
            t = {}
            for k, x in anc.items():
                if rng.random() < 0.1:
                    continue
                t[k] = edit(rng, x) if rng.random() < 0.5 else gen.deep(x)
            if rng.random() < 0.3:
                t.setdefault(rng.choice(KEYS), ptree(rng, 2))
            trees.append(t or {"a": 1})
    if rng.random() < 0.15:
        # several lists with the same entries in mirrored / shuffled orders across the inputs (the migration must keep
        # every input's own order in every list)
        ents = rng.sample(["p", "q", "r", "s", {"n": 1}, {"n": 2}], rng.randint(2, 4))
        names = rng.sample(["readOrder", "writeOrder", "thirdOrder", "zOrder"], rng.randint(2, 4))
        for t in trees:
            for name in names:
                a = list(ents)
                rng.shuffle(a)
                t[name] = gen.deep(a)
    if rng.random() < 0.12:
        # list entries (maps, lists) that differ ONLY by the kind of a value nested inside them, or by where a string is
        # cut: {port: 8080} / {port: "8080"}, ["--level", "3"] / ["--level", 3], {cmd: "run env:prod"} / {cmd: run, env: prod}
        variants = [({"port": 8080}, {"port": "8080"}), (["--level", "3"], ["--level", 3]), ({"cmd": "run env:prod"}, {"cmd": "run", "env": "prod"}),
                    ({"on": True}, {"on": "true"}), ({"n": 1}, {"n": 1.5}), ([1, [2]], [1, ["2"]]), ({"a": {"b": 1}}, {"a": {"b": "1"}})]
        va, vb = rng.choice(variants)
        shared = rng.choice([[], ["same"], [{"k": "v"}]])
        nm = rng.choice(["args", "ports"])
        for i, t in enumerate(trees):
            t[nm] = gen.deep(shared + [va if i % 2 == 0 else vb])
    return {"inputs": trees, "fmts": [rng.choice(FMTS) for _ in trees]}


def common_to(r, v):
    """every value r contains occurs in v ($required stands for any present value)"""
    if r == REQ:
        return True
    if isinstance(r, dict):
        return isinstance(v, dict) and all(k in v and common_to(x, v[k]) for k, x in r.items())
    if isinstance(r, list):
        if r == [REQ]:
            return isinstance(v, list)
        return isinstance(v, list) and all(any(formats.same(x, y, True) for y in v) for x in r)
    return formats.same(r, v, True)


def maximal(r, inputs):
    """a key present in all inputs with equal values must be in r with that value; present in all with
    differing values must be present (marked or recursively intersected)"""
    if not isinstance(r, dict) or not all(isinstance(v, dict) for v in inputs):
        return None
    for k in inputs[0]:
        if all(k in v for v in inputs):
            vals = [v[k] for v in inputs]
            if k not in r:
                return f"key {k!r} is present in every input but missing from the result"
            if all(formats.same(vals[0], x, True) for x in vals[1:]):
                if not formats.same(r[k], vals[0], True):
                    return f"key {k!r} has the same value in every input but the result differs"
            else:
                m = maximal(r[k], vals)
                if m:
                    return m
    return None


def run_one(case):
    inputs, fmts = case["inputs"], case["fmts"]
    obs = {}
    with Workdir() as d:
        names = []
        for i, (t, f) in enumerate(zip(inputs, fmts)):
            names.append(f"in{i}.{f}")
            write_files(d, {names[-1]: formats.dump(f, [t])})
        r = run_cli("bkli", names, d)
        obs["bkli"] = {k: r[k] for k in ("rc", "out", "err")}
        shape = bad_shape(r)
        if shape or r["rc"] != 0:
            obs["fail"] = f"bkli failed: {shape or r['err'][:200]}"
            return obs
        f0 = fmts[0]
        try:
            docs = formats.load_all(f0, r["out"])
        except Exception as e:
            obs["fail"] = f"bkli output is not valid {f0}: {e}"
            return obs
        if len(docs) != 1:
            obs["fail"] = f"bkli emitted {len(docs)} documents"
            return obs
        res = docs[0]
        obs["result"] = res
        for i, t in enumerate(inputs):
            if not common_to(res, t):
                obs["fail"] = f"result contains a value that does not occur in input {i}"
                return obs
        m = maximal(res, inputs)
        if m:
            obs["fail"] = m
            return obs
        if all(formats.same(inputs[0], t, True) for t in inputs[1:]) and not formats.same(res, inputs[0], True):
            obs["fail"] = "intersecting a document with itself does not return that document"
            return obs
        # migration: for each input, base + bkld(base, input) = input
        write_files(d, {"base." + f0: r["out"]})
        for i, (t, nm) in enumerate(zip(inputs, names)):
            r2 = run_cli("bkld", ["base." + f0, nm], d)
            if bad_shape(r2) or r2["rc"] != 0:
                obs["fail"] = f"bkld base input{i} failed: {r2['err'][:200]}"
                return obs
            write_files(d, {f"base.m{i}.{f0}": r2["out"]})
            r3 = run_cli("bkl", ["-f", "json", f"base.m{i}.{f0}"], d)
            if r3["rc"] != 0:
                obs["fail"] = f"bkl rejects base + diff for input {i}: {r3['err'][:200]}"
                obs["diff"] = r2["out"]
                return obs
            got = formats.json_load_all(r3["out"])
            if len(got) != 1 or not formats.same(got[0], t, True):
                obs["fail"] = f"migration is lossy for input {i}"
                obs["diff"] = r2["out"]
                obs["got"] = got
                return obs
    return obs


def evaluate(rep, cases):
    obs = pmap(run_one, cases)
    ops = [{"op": "intersect", "id": i, "vs": [to_wire(t) for t in c["inputs"]]} for i, c in enumerate(cases)]
    mres = run_model(ops)
    nbad = mismatch = 0
    for i, (c, o) in enumerate(zip(cases, obs)):
        nt = not all(formats.same(c["inputs"][0], t) for t in c["inputs"][1:])
        rep.case(c, nt, sample={"inputs": c["inputs"], "fmts": c["fmts"], "result": o.get("result")})
        rep.count("bkli_rc:%s" % o["bkli"]["rc"])
        rep.traces += 1
        if o.get("fail"):
            nbad += 1
            if len(rep.violations) < 4:
                rep.disagreements_checked += 1
                rep.violation(o["fail"], {"case": c, "observed": o})
            continue
        m = mres.get(i)
        if m and "ok" in m and "result" in o:
            if not formats.same(from_wire(m["ok"]), o["result"], True):
                mismatch += 1
                rep.count("result_differs_from_model_intersect")
                if mismatch <= 3:
                    rep.extra.setdefault("model_mismatch_samples", []).append({"case": c, "impl": o["result"], "model": from_wire(m["ok"])})
    return nbad, mismatch


def run(rep):
    rep.rule = ("2-4 map-rooted, null-free, $-free trees derived from a common ancestor by arbitrary edits (incl. list reordering / "
                "duplication and kind changes), identical inputs, and unrelated trees, in any format mix; real bkli, then per input real "
                "bkld + bkl; direct checks: common to all inputs, $required on conflicts, nothing shared dropped, idempotent, lossless "
                "migration; result compared with the model's intersectAll; non-trivial = inputs not all equal")
    rep.proof, rep.broken = proof_step(PID)
    rng = random.Random(rep.seed)
    n = 700 if rep.tier == "quick" else 25000
    cases = [c for _, c in load_corpus(PID)] + [gen_case(rng) for _ in range(n)]
    # small scope: every PAIR of map-rooted trees of at most 3 nodes (int / string / float atoms, lists, maps) as the two
    # inputs - every kind clash, every shared / unshared key, every list relation at that size (quick: a sample)
    small = [t for t in gen.enum_trees(3, [1, "x", 1.5], ["a", "b"], 2) if isinstance(t, dict) and t]
    pairs = [(a, b) for a in small for b in small]
    if rep.tier == "quick":
        pairs = random.Random(rep.seed + 31).sample(pairs, 400)
    cases += [{"inputs": [gen.deep(a), gen.deep(b)], "fmts": [rng.choice(FMTS), rng.choice(FMTS)], "small_scope": True} for a, b in pairs]
    rep.extra["small_scope_pairs"] = len(pairs)
    nbad, mismatch = evaluate(rep, cases)
    from props.toolscommon import tool_cli_stage
    tool_cli_stage(rep, "bkli", random.Random(rep.seed + 909), 150 if rep.tier == "quick" else 5000)
    if (mismatch or rep.broken) and not rep.violations:
        nbad2, _ = evaluate(rep, [gen_case(rng) for _ in range(1500)])
        if nbad2 == 0:
            what = []
            if mismatch:
                what.append(f"bkli result differs from the model's intersect on {mismatch} cases (the C16 theorems no longer cover the code)")
            what += [b["obligation"] for b in rep.broken]
            rep.violation("; ".join(what), {"broken": rep.broken, "samples": rep.extra.get("model_mismatch_samples")}, no_input=True)


def replay_toolcli(rep, payload):
    import fscheck
    from props.toolscommon import model_ops
    c = payload["case"]["toolcli"]
    obs, op = fscheck.run_case(c, tool="bkli")
    m = model_ops([{"op": "toolcli", "id": 0, "tool": "bkli", "entries": op["entries"], "cwd": op["cwd"], "env": {}, "opts": op["opts"]}]).get(0)
    print(obs)
    print(m)
    return 1


def replay_toolcli(rep, payload):
    import fscheck
    from props.toolscommon import model_ops
    c = payload["case"]["toolcli"]
    obs, op = fscheck.run_case(c, tool="bkli")
    m = model_ops([{"op": "toolcli", "id": 0, "tool": "bkli", "entries": op["entries"], "cwd": op["cwd"], "env": {}, "opts": op["opts"]}]).get(0)
    print(obs)
    print(m)
    return 1


def replay(rep, payload):
    if "toolcli" in payload.get("case", {}):
        return replay_toolcli(rep, payload)
    if "toolcli" in payload.get("case", {}):
        return replay_toolcli(rep, payload)
    o = run_one(payload["case"])
    print(o)
    return 1 if o.get("fail") else 0
