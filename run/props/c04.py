"""C04 — results do not depend on which format (JSON/YAML/TOML) a layer is written in."""
import itertools
import random
import gen
import formats
from cli import run_cli, write_files, Workdir, pmap, bad_shape
from common import proof_step, load_corpus, run_model
from wire import to_wire, from_wire

PID = "C04"
FMTS = ["json", "yaml", "toml"]
KEYS = ["a", "b", "c", "d"]
INTS = [0, 1, 2, 3, -1, 7, 2**31 - 1, 2**31, 2**53 + 1, 2**63 - 1, -2**63, 10**15]
FLTS = [0.1, 0.5, 1.5, 2.25, 1e21, 1e-7, 123456789.12345679, 0.30000000000000004, 5e-324]
STRS = ["x", "y", "", "1", "true", "a b", "é"]


def scalar(rng):
    r = rng.random()
    if r < 0.35:
        return rng.choice(INTS)
    if r < 0.6:
        return rng.choice(FLTS)
    if r < 0.85:
        return rng.choice(STRS)
    return rng.choice([True, False])


def tree(rng, depth):
    r = rng.random()
    if depth <= 0 or r < 0.4:
        return scalar(rng)
    if r < 0.75:
        return {rng.choice(KEYS): tree(rng, depth - 1) for _ in range(rng.randint(1, 3))}
    return [tree(rng, depth - 1) for _ in range(rng.randint(0, 3))]


def base_doc(rng):
    d = {rng.choice(KEYS): tree(rng, 2) for _ in range(rng.randint(1, 4))}
    d["n"] = rng.choice(INTS)
    d["f"] = rng.choice(FLTS)
    d["items"] = [{"id": rng.choice(INTS[:6]), "w": rng.choice(FLTS)} for _ in range(rng.randint(1, 3))]
    return d


def comparing_layer(rng, base):
    """a child layer whose meaning depends on comparisons between values of the two layers"""
    out = {}
    r = rng.random()
    it = rng.choice(base["items"])
    if r < 0.2:
        out["n"] = base["n"]                                   # useless override (same int)
    elif r < 0.35:
        out["f"] = base["f"]                                   # useless override (same float)
    elif r < 0.55:
        out["items"] = [{"$match": {"id": it["id"]}, "$value": {"hit": True}}]
    elif r < 0.7:
        out["items"] = [{"$delete": {"id": it["id"], "w": it["w"]}}]
    elif r < 0.8:
        out["items"] = [{"$match": {"w": it["w"]}, "note": "float-match"}]
    elif r < 0.9:
        out["$repeat"] = rng.choice([1, 2, 3])
        out["idx"] = "$repeat"
    else:
        out[rng.choice(KEYS)] = tree(rng, 2)
    if rng.random() < 0.3:
        out["n2"] = rng.choice(INTS)
    return out


def alias_case(rng):
    """the SAME subtree under two keys: the YAML writer emits it once with an anchor and an alias, JSON and TOML
    write it out twice; an upper layer then patches only one of the two places"""
    base = base_doc(rng)
    sub = {"cpu": rng.choice(INTS[:6]), "labels": {"tier": "x"}, "ports": [80, 443]}
    base["web"] = sub
    base["worker"] = sub            # same object: aliased in YAML
    if rng.random() < 0.5:
        base["jobs"] = [sub, {"other": 1}]
    patch = {rng.choice(["web", "worker"]): rng.choice([{"cpu": 99}, {"labels": {"extra": True}}, {"ports": [8080]}, {"labels": {"tier": "$delete"}}])}
    layers = [[base], [patch]]
    if rng.random() < 0.3:
        layers.append([{"worker": {"added_later": 1}}])
    return {"layers": layers}


def gen_case(rng):
    if rng.random() < 0.15:
        return alias_case(rng)
    nl = rng.randint(1, 3)
    base = base_doc(rng)
    layers = [[base]]
    if rng.random() < 0.25:
        layers[0].append(dict(base_doc(rng), kind="second"))
    for _ in range(nl - 1):
        l = comparing_layer(rng, base)
        if len(layers[0]) > 1:
            l["$match"] = {"n": base["n"]} if rng.random() < 0.7 else {"kind": "second"}
        layers.append([l])
    return {"layers": layers}


def run_one(case):
    """all 3^n assignments; returns {assignment: (rc, stdout)}"""
    layers = case["layers"]
    names = ["a"]
    for i in range(1, len(layers)):
        names.append(names[-1] + ".l%d" % i)
    out = {}
    for assign in itertools.product(FMTS, repeat=len(layers)):
        with Workdir() as d:
            for nm, docs, f in zip(names, layers, assign):
                write_files(d, {f"{nm}.{f}": formats.dump(f, docs, **({"tables": True} if f == "toml" and hash(nm) % 2 else {}))})
            r = run_cli("bkl", ["-f", "json", f"{names[-1]}.{assign[-1]}"], d)
            out["/".join(assign)] = {"rc": r["rc"], "out": r["out"], "err": r["err"][:200], "shape": bad_shape(r)}
    return out


SPECIAL = [
    # YAML anchors / merge keys vs. their expanded JSON form
    {"name": "yaml-merge-key", "files": {"a.yaml": "base: &b {x: 1, y: 2}\nd:\n  <<: *b\n  y: 3\n"},
     "json": {"base": {"x": 1, "y": 2}, "d": {"x": 1, "y": 3}}},
    {"name": "yaml-merge-list", "files": {"a.yaml": "m1: &m1 {x: 1}\nm2: &m2 {x: 2, z: 9}\nd:\n  <<: [*m1, *m2]\n  k: v\n"},
     "json": {"m1": {"x": 1}, "m2": {"x": 2, "z": 9}, "d": {"x": 1, "z": 9, "k": "v"}}},
    {"name": "yaml-alias", "files": {"a.yaml": "a: &l [1, 2.5, x]\nb: *l\n"}, "json": {"a": [1, 2.5, "x"], "b": [1, 2.5, "x"]}},
    {"name": "toml-dotted", "files": {"a.toml": "a.b.c = 1\na.b.d = 2.5\n[t]\nx = \"y\"\n[[arr]]\nn = 1\n[[arr]]\nn = 2\n"},
     "json": {"a": {"b": {"c": 1, "d": 2.5}}, "t": {"x": "y"}, "arr": [{"n": 1}, {"n": 2}]}},
    {"name": "yaml-bigint", "files": {"a.yaml": "n: 9223372036854775807\nm: -9223372036854775808\nk: 2147483648\n"},
     "json": {"n": 2**63 - 1, "m": -2**63, "k": 2**31}},
    {"name": "toml-match-yaml", "files": {"a.yaml": "items:\n  - id: 7\n    v: 1\n", "a.l1.toml": "[[items]]\n\"$match\" = {id = 7}\nhit = true\n"},
     "json": {"items": [{"id": 7, "v": 1, "hit": True}]}, "input": "a.l1.toml"},
    {"name": "toml-repeat", "files": {"a.toml": "\"$repeat\" = 2\nx = \"$repeat\"\n"}, "json_docs": [{"x": 0}, {"x": 1}]},
]


def run_special(sp):
    with Workdir() as d:
        write_files(d, sp["files"])
        inp = sp.get("input") or sorted(sp["files"])[0]
        r = run_cli("bkl", ["-f", "json", inp], d)
        return {"rc": r["rc"], "out": r["out"], "err": r["err"][:200]}


def evaluate(rep, cases):
    res = pmap(run_one, cases)
    # model: the logical layers as a hist chain
    ops = []
    for i, c in enumerate(cases):
        steps = []
        prev = []
        for li, docs in enumerate(c["layers"]):
            ids = []
            for di, dct in enumerate(docs):
                did = f"L{li}|doc{di}"
                steps.append({"merge": {"id": did, "parents": prev, "data": to_wire(dct)}})
                ids.append(did)
            prev = ids
        steps.append({"outdocs": True})
        ops.append({"op": "hist", "id": i, "steps": steps, "env": {}})
    mres = run_model(ops)
    bad = 0
    for i, (c, outs) in enumerate(zip(cases, res)):
        rep.case(c["layers"], len(c["layers"]) > 1, sample={"layers": c["layers"]} if i < 3 else None)
        rep.traces += len(outs)
        rep.count(f"layers:{len(c['layers'])}")
        vals = list(outs.items())
        first_k, first = vals[0]
        d = None
        for k, o in vals:
            if o["shape"]:
                d = f"{k}: {o['shape']}"
                break
            if o["rc"] != first["rc"] or o["out"] != first["out"]:
                d = f"format assignment {k} gives a different result than {first_k}"
                break
        if d is None:
            m = mres.get(i)
            if m and "res" in m:
                last = m["res"][-1]
                merr = any("err" in x for x in m["res"])
                if any("unmodelled" in x for x in m["res"]):
                    pass
                elif merr != (first["rc"] != 0):
                    d = f"status differs from the model of the logical layers (model {'rejects' if merr else 'accepts'})"
                elif not merr:
                    got = formats.json_load_all(first["out"])
                    want = [from_wire(x) for x in last["ok"]]
                    if len(got) != len(want) or not all(formats.same(a, b) for a, b in zip(got, want)):
                        d = "output differs from the model's evaluation of the logical layers"
                rep.count("model:" + ("err" if merr else "ok"))
        if d:
            bad += 1
            if len(rep.violations) < 4:
                rep.disagreements_checked += 1
                rep.violation(d, {"case": c, "observed": outs, "model": mres.get(i)})
    return bad


def run(rep):
    rep.rule = ("layer sets of 1-3 layers (1-2 documents) over map-rooted trees of strings, 64-bit boundary integers, doubles with 17 "
                "significant digits, bools, nested maps/lists, where upper layers compare against lower ones ($match / $delete patterns on "
                "ints and floats, same-value overrides, $repeat counts); each set written by independent Python writers under all 3^n "
                "assignments of JSON/YAML/TOML (TOML alternately as inline and [table] form): exit status and -f json bytes must be "
                "identical across assignments and equal the model's evaluation of the logical layers; plus fixed YAML anchor/merge-key "
                "and TOML dotted-key/table inputs against their expanded JSON form; aliased subtrees (YAML anchors) patched in one "
                "place by an upper layer; decode tie: generated YAML (anchors, aliases, chained/list merge keys, every scalar spelling, "
                "cyclic anchors), JSON (number literals at every boundary) and TOML texts - the third-party decoder's output is mapped by "
                "the model to what bkl's loader returns; YAML stream-syntax variants vs libyaml; framing tie on line soups; "
                "non-trivial = >= 2 layers / every decode, stream and framing case")
    rep.proof, rep.broken = proof_step(PID)
    rng = random.Random(rep.seed)
    n = 250 if rep.tier == "quick" else 8000
    corpus = [c for _, c in load_corpus(PID)]
    cases = [c for c in corpus if "layers" in c] + [gen_case(rng) for _ in range(n)]
    evaluate(rep, cases)
    import decodecheck
    decodecheck.evaluate_streams(rep, [c["ystream"] for c in corpus if "ystream" in c])
    decodecheck.evaluate(rep, [c["decode"] for c in corpus if "decode" in c])
    for sp in SPECIAL:
        o = run_special(sp)
        rep.case(sp["name"], True)
        rep.count("special")
        want = sp.get("json_docs") or [sp["json"]]
        ok = o["rc"] == 0
        if ok:
            got = formats.json_load_all(o["out"])
            ok = len(got) == len(want) and all(formats.same(a, b) for a, b in zip(got, want))
        if not ok:
            rep.violation(f"{sp['name']}: result differs from the expanded JSON form", {"case": sp, "observed": o})
    import decodecheck
    decodecheck.run(rep, 2500 if rep.tier == "quick" else 80000)
    if rep.broken and not rep.violations:
        rep.violation("proof obligation no longer checks: " + "; ".join(b["obligation"] for b in rep.broken), {"broken": rep.broken}, no_input=True)
    rep.assumptions.append("the decoders are parameters of the theorems (Bkl.Stream.normalize / yamlTranslate); their agreement is what the 3^n runs measure")


def replay(rep, payload):
    c = payload["case"]
    if "decode" in c:
        import decodecheck
        return 1 if decodecheck.evaluate(rep, [c["decode"]]) else 0
    if "frame" in c:
        import decodecheck
        return 1 if decodecheck.evaluate_frames(rep, [c["frame"]]) else 0
    if "ystream" in c:
        import decodecheck
        return 1 if decodecheck.evaluate_streams(rep, [c["ystream"]]) else 0
    if "layers" in c:
        return 1 if evaluate(rep, [c]) else 0
    o = run_special(c)
    print(o)
    return 0
