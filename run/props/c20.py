"""C20 — bklb / kubectl-bkl rewrite only file arguments; everything else passes through."""
import base64
import json
import os
import random
import shutil
import subprocess
import formats
from cli import pmap
from common import proof_step, load_corpus, run_model, mktemp_dir, BIN
from fscheck import materialise, model_entries
from props.toolscommon import pmap_tree, fix_floats
from wire import from_wire

PID = "C20"
WORDS = ["apply", "get", "-v", "--dry-run", "--opt=value", "-f", "--filename", "--", "", "a.b", "plain word", "--opt=a.yaml",
         "x.ini", "notes.txt", "missing.yaml", "-", "--format=json", "é", "a.b.c.d", "./", ".."]


def gen_case(rng):
    base = fix_floats(pmap_tree(rng, depth=2))
    layout = {
        "a.yaml": {"fmt": "yaml", "docs": [base]},
        "a.b.yaml": {"fmt": "yaml", "docs": [{"over": 1}]},
        "svc.json": {"fmt": "json", "docs": [{"svc": True, "n": 2}, {"second": "doc"}]},
        "t.toml": {"fmt": "toml", "docs": [{"k": "v", "n": 1.5}]},
        "bad.yaml": {"fmt": "yaml", "docs": [{"need": "$required"}]},
        "broken.json": {"raw": "{not json"},
        # resolvable files whose evaluation fails with the SAME error classes FileMatch uses for "not a bkl file"
        "orphan.prod.yaml": {"fmt": "yaml", "docs": [{"o": 1}]},                       # missing parent layer `orphan`
        "np.yaml": {"fmt": "yaml", "docs": [{"$parent": "nosuchbase", "x": 1}]},       # $parent names no layer
        "tm.yaml": {"fmt": "yaml", "docs": [{"l": [1, 2]}]},
        "tm.up.yaml": {"fmt": "yaml", "docs": [{"l": {"k": 1}}]},                      # map over list: invalid type
        "enc.yaml": {"fmt": "yaml", "docs": [{"e": {"$encode": "join", "$value": {"not": "a list"}}}]},
        "cyc.yaml": {"fmt": "yaml", "docs": [{"a": "$merge:a"}]},
        "rep.yaml": {"fmt": "yaml", "docs": [{"$repeat": "two", "a": 1}]},
        # the SAME base name in different directories (and under another extension): each argument gets its own file
        "x/svc.yaml": {"fmt": "yaml", "docs": [{"from": "x", "n": 1}]},
        "y/svc.yaml": {"fmt": "yaml", "docs": [{"from": "y", "n": 2}]},
        "y/svc.prod.yaml": {"fmt": "yaml", "docs": [{"prod": True}]},
        # integral floats, and the same real file named several times under different extensions (one evaluation per
        # argument: what one writer does to its input must not reach the next argument's file)
        "fl.yaml": {"fmt": "yaml", "docs": [{"cpu": 4.0, "w": [1.0, 2.5, {"d": 2.0}], "n": 1, "s": "1.0"}]},
        # every `$` written as an escape (no `$` byte in the file): plain data that still needs its `$$` undoubled, and a marker
        "esc.json": {"fmt": "json", "docs": [{"price": "5$$", "$$key": "$$v", "n": 1}], "kw": {"escape_dollar": True}},
        "esc2.toml": {"fmt": "toml", "docs": [{"price": "$$5"}], "kw": {"escape_dollar": True}},
        "escbad.json": {"fmt": "json", "docs": [{"need": "$required"}], "kw": {"escape_dollar": True}},
        "escbad2.yaml": {"fmt": "yaml", "docs": [{"need": "$required"}], "kw": {"escape_dollar": True}},
        "notes.txt": {"raw": "hello\n"},
        "x.ini": {"raw": "[s]\nk=v\n"},
    }
    fileargs = ["a.yaml", "a.b.yaml", "svc.json", "t.toml", "a.b.json", "svc.yaml", "t.json", "a.toml", "./a.b.yaml", "a.b.yml", "esc.json", "esc.json", "esc2.toml", "esc.yaml"]
    failing = ["bad.yaml", "broken.json", "bad.json", "orphan.prod.yaml", "orphan.prod.json", "np.yaml", "np.toml", "tm.up.yaml", "tm.up.json",
               "enc.yaml", "enc.json", "cyc.yaml", "rep.yaml", "escbad.json", "escbad2.yaml", "escbad.json"]
    fileargs += ["tm.yaml", "tm.json"]
    samebase = ["x/svc.yaml", "y/svc.yaml", "x/svc.json", "y/svc.json", "y/svc.prod.yaml", "./x/svc.yaml", "y/../x/svc.yaml", "svc.yaml"]
    n = rng.randint(0, 8)
    args = []
    if rng.random() < 0.12:
        same = rng.choice([["fl.json", "fl.yaml"], ["fl.json-pretty", "fl.toml"], ["fl.jsonl", "fl.yml", "fl.json"], ["fl.yaml", "fl.json", "fl.toml"],
                           ["t.json", "t.toml", "t.yaml"], ["svc.json", "svc.yaml", "svc.json"]])
        args = list(same)
        n = rng.randint(0, 3)
    for _ in range(n):
        r = rng.random()
        if r < 0.45:
            args.insert(rng.randint(0, len(args)), rng.choice(WORDS))
        elif r < 0.7:
            args.append(rng.choice(fileargs))
        elif r < 0.85:
            args.append(rng.choice(samebase))
        else:
            args.append(rng.choice(failing))
    return {"layout": layout, "args": args}


def run_one(case):
    W = mktemp_dir("verif-c20-")
    try:
        work = os.path.join(W, "work")
        bindir = os.path.join(W, "bin")
        tmpd = os.path.join(W, "tmp")
        for d in (work, bindir, tmpd):
            os.makedirs(d)
        materialise(work, case["layout"])
        # a symlink, not a copy: copying and exec'ing from several threads races on ETXTBSY ("text file busy")
        os.symlink(os.path.join(BIN, "recorder"), os.path.join(bindir, "recorder"))
        os.symlink(os.path.join(BIN, "bklb"), os.path.join(bindir, "recorderb"))
        rec = os.path.join(W, "record.json")
        env = {"PATH": bindir + ":/usr/bin:/bin", "RECORD_OUT": rec, "TMPDIR": tmpd, "HOME": W}
        try:
            p = subprocess.run([os.path.join(bindir, "recorderb")] + case["args"], cwd=work, env=env, capture_output=True, timeout=60)
            obs = {"rc": p.returncode, "err": p.stderr.decode("utf-8", "replace")[:500], "out": p.stdout.decode("utf-8", "replace")[:200]}
        except subprocess.TimeoutExpired:
            obs = {"rc": None, "err": "TIMEOUT", "out": ""}
        obs["record"] = json.load(open(rec)) if os.path.exists(rec) else None
        op = {"op": "wrap", "entries": model_entries(work, case["layout"]), "cwd": work, "env": {}, "args": case["args"]}
        return obs, op
    finally:
        shutil.rmtree(W, ignore_errors=True)


def judge(case, obs, m):
    if obs["rc"] is None or "panic:" in obs["err"] or "fatal error" in obs["err"]:
        return "wrapper crashed or hung: " + obs["err"][:150]
    if m is None or "ok" not in m and "err" not in m:
        return f"MODEL-PROBLEM {m}"
    rec = obs["record"]
    if "err" in m:
        if rec is not None:
            return "the wrapped program was run although evaluating a file argument fails"
        if obs["rc"] == 0:
            return "failing evaluation but exit status 0"
        return None
    if rec is None:
        return "the wrapped program was not run: " + obs["err"][:150]
    got = rec["args"]
    want = m["ok"]
    if len(got) != len(want):
        return f"argument count changed: {len(case['args'])} -> {len(got)}"
    if os.path.basename(rec["argv0"]) != "recorder":
        return "wrapped program name is not the invoked name minus the trailing b"
    for i, (g, w, orig) in enumerate(zip(got, want, case["args"])):
        if "verbatim" in w:
            if g != orig:
                return f"argument {i} ({orig!r}) was not passed byte-for-byte"
        else:
            if g == orig:
                return f"file argument {i} ({orig!r}) was not replaced"
            content = rec["files"].get(g)
            if content is None:
                return f"replacement for argument {i} is not a readable file"
            text = base64.b64decode(content).decode("utf-8", "replace")
            fmt = w["format"]
            try:
                docs = formats.load_all(fmt, text)
            except Exception as e:
                return f"replacement file for {orig!r} is not valid {fmt}: {e}"
            exp = [from_wire(x) for x in w["docs"]]
            if fmt in ("yaml", "yml") and exp == [] and docs in ([], [None]):
                continue
            if len(docs) != len(exp) or not all(formats.same(a, b, True) for a, b in zip(docs, exp)):
                return f"replacement file for {orig!r} does not hold its evaluated layers in {fmt}"
            if not g.endswith(os.path.basename(orig)):
                return f"replacement path for {orig!r} lost the original name/extension"
    return None


def evaluate(rep, cases):
    res = pmap(run_one, cases)
    ops = []
    for i, (obs, op) in enumerate(res):
        op["id"] = i
        ops.append(op)
    mres = run_model(ops)
    bad = 0
    for i, (c, (obs, op)) in enumerate(zip(cases, res)):
        m = mres.get(i)
        nfile = sum(1 for w in (m or {}).get("ok", []) if "docs" in w) if m and "ok" in m else -1
        rep.case(c["args"], len(c["args"]) > 0, sample={"args": c["args"], "rc": obs["rc"], "recorded": (obs["record"] or {}).get("args")})
        rep.count(f"rc:{obs['rc']}:{'run' if obs['record'] else 'notrun'}")
        rep.count(f"file_args:{nfile}")
        rep.traces += 1
        d = judge(c, obs, m)
        if d:
            bad += 1
            if len(rep.violations) < 4:
                rep.disagreements_checked += 1
                rep.violation(d, {"case": c, "observed": obs, "model": m})
    return bad


def run(rep):
    rep.rule = ("argument vectors of 0-8 arguments mixing flags, --opt=value, plain words, non-bkl files, existing layer files, virtual "
                "names resolving to a layer of another format, unsupported extensions, missing files and layer files whose evaluation "
                "fails; bklb symlinked as `recorderb`, a recorder stand-in first on PATH dumps argv and file contents; judged against "
                "the model's wrapArgs (argument by argument) and the independent parsers; distinct = distinct argument vectors; "
                "non-trivial = at least one argument")
    rep.proof, rep.broken = proof_step(PID)
    rng = random.Random(rep.seed)
    n = 500 if rep.tier == "quick" else 12000
    cases = [c for _, c in load_corpus(PID)] + [gen_case(rng) for _ in range(n)]
    evaluate(rep, cases)
    if rep.broken and not rep.violations:
        if evaluate(rep, [gen_case(rng) for _ in range(800)]) == 0:
            rep.violation("proof obligation no longer checks: " + "; ".join(b["obligation"] for b in rep.broken), {"broken": rep.broken}, no_input=True)
    rep.assumptions.append("exec, temp-file creation and PATH lookup are runtime behaviour observed through the recorder, not modelled")


def replay(rep, payload):
    obs, op = run_one(payload["case"])
    op["id"] = 0
    m = run_model([op]).get(0)
    d = judge(payload["case"], obs, m)
    print(obs, m, d)
    return 1 if d else 0
