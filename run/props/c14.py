"""C14 — $encode produces the named standard encodings and $decode inverts them."""
import base64
import hashlib
import json
import gen
from histcheck import chain_case, run_cases
from props.evalcommon import standard_run, standard_replay, small_scope
from wire import go_float_str, from_wire, to_wire

PID = "C14"


def gofmt(v):
    if v is None:
        return "<nil>"
    if isinstance(v, bool):
        return "true" if v else "false"
    if isinstance(v, float):
        return go_float_str(v)
    if isinstance(v, (int, str)):
        return str(v)
    if isinstance(v, list):
        return "[" + " ".join(gofmt(x) for x in v) + "]"
    return "map[" + " ".join(f"{k}:{gofmt(v[k])}" for k in sorted(v)) + "]"


class Bad(Exception):
    pass


def tolist_map(m, delim):
    if not isinstance(m, dict):
        raise Bad()
    out = []
    for k in sorted(m):
        vs = m[k] if isinstance(m[k], list) else [m[k]]
        for x in vs:
            out.append(k if x == "" and isinstance(x, str) else f"{k}{delim}{gofmt(x)}")
    return out


def apply(v, spec):
    """independent implementation of one transform; raises Bad for malformed use; returns NotImplemented for codecs"""
    if isinstance(spec, list):
        for s in spec:
            v = apply(v, s)
            if v is NotImplemented:
                return v
        return v
    if not isinstance(spec, str):
        raise Bad()
    parts = spec.split(":")
    cmd = parts[0]
    n = len(parts)
    if cmd == "base64":
        if n != 1: raise Bad()
        return base64.b64encode(gofmt(v).encode()).decode()
    if cmd == "sha256":
        if n != 1: raise Bad()
        return hashlib.sha256(gofmt(v).encode()).hexdigest()
    if cmd == "join":
        if n > 2 or not isinstance(v, list): raise Bad()
        return (parts[1] if n == 2 else "").join(gofmt(x) for x in v)
    if cmd == "prefix":
        if n != 2 or not isinstance(v, list): raise Bad()
        return [parts[1] + gofmt(x) for x in v]
    if cmd == "flatten":
        if n != 1 or not isinstance(v, list): raise Bad()
        out = []
        for x in v:
            out += x if isinstance(x, list) else [x]
        return out
    if cmd == "values":
        if n != 1 or not isinstance(v, dict): raise Bad()
        return [v[k] for k in sorted(v)]
    if cmd == "tolist":
        if n != 2: raise Bad()
        if isinstance(v, list):
            out = []
            for x in v:
                out += tolist_map(x, parts[1])
            return out
        return tolist_map(v, parts[1])
    if cmd == "flags":
        if n != 1: raise Bad()
        return apply(apply(v, "tolist:="), "prefix:--")
    if cmd in ("json", "yaml", "toml", "yml", "jsonl", "json-pretty"):
        if n != 1: raise Bad()
        return NotImplemented
    raise Bad()


VALUES = [0, 7, -3, True, False, 1.5, "x", "", "a b", "é", ["a", "b"], ["a", 1, True, 1.5], [["a", "b"], "c", ["d"]], [],
          {"k": "v", "n": 1}, {"k": ["a", "b"], "e": "", "s": "v"}, {"b": 2, "a": 1}, {}, [{"a": 1}, {"b": ""}], {"m": {"x": 1}}, [None, 1],
          # numbers of every magnitude and kind: each transform prints a number the way interpolation does (%v)
          [1000000, 2500000.0, "x"], [1e-5, 0.0001, 1e21, 123456789.0], {"big": 2500000.0, "tiny": 1e-7, "i": 10 ** 12}, 2500000.0, 1e-5,
          [2 ** 53 + 1, -0.5, 1e6, 999999.5], {"a": 1e6, "b": 100000.0},
          # lists of maps (flags / tolist over several maps), maps whose keys look like numbers
          [{"a": 1, "b": "x"}, {"c": True}], [{"v": 1.5}, {"w": 2500000.0}], {"10": "t", "9": "n", "1a": "m", "07": "z"}]
SPECS = gen.ENCODES + ["json", "yaml", "toml"]


def gen_case(rng):
    r0 = rng.random()
    if r0 < 0.06:
        # several $encodes of one format over look-alike values in ONE document (the model is the judge)
        d = gen.lookalike_encodes(rng)
        c = chain_case([d], env={}, tail=("outdocs",))
        if "l" not in d and "$repeat" not in d:
            c["together"] = d           # oracle: each entry evaluates as it does alone
            c["noshrink"] = True
        return c
    if r0 < 0.1:
        return chain_case([gen.nested_encode_doc(rng)], env={}, tail=("outdocs",))
    v = rng.choice(VALUES)
    k = rng.randint(1, 3)
    spec = rng.choice(SPECS) if rng.random() < 0.5 else [rng.choice(SPECS) for _ in range(k)]
    if rng.random() < 0.05:
        spec = rng.choice([1, {"a": 1}, None, [1], ["join", 2]])
    r = rng.random()
    if r < 0.5 or not isinstance(v, (dict, list)):
        node = {"$encode": spec, "$value": v}
    elif isinstance(v, dict):
        node = dict(v, **{"$encode": spec})
    else:
        node = list(v) + [{"$encode": spec}]
    doc = {"out": node, "other": 1}
    c = chain_case([doc], env={}, tail=("outdocs",))
    c["val"], c["spec"] = v, spec
    return c


def oracle_together(case, go):
    """several $encodes in one document: each entry must come out exactly as it does in a document of its own"""
    last = go["res"][-1]
    d = case["together"]
    singles = run_cases([chain_case([{k: v}], env={}, tail=("outdocs",)) for k, v in sorted(d.items())])
    want, bad = {}, False
    for (k, _), r in zip(sorted(d.items()), singles):
        l = r[1]["res"][-1] if r[1] and "res" in r[1] else {}
        if "ok" not in l:
            bad = True
            continue
        for doc in l["ok"]:
            want.update(from_wire(doc))
    if bad:
        return None if "err" in last else "a document is accepted although one of its $encode entries is rejected on its own"
    if "ok" not in last:
        return f"every $encode entry evaluates on its own, the document holding them together is rejected: {last.get('err')}"
    got = {}
    for doc in last["ok"]:
        got.update(from_wire(doc))
    if got != want:
        ks = [k for k in want if got.get(k) != want[k]]
        return f"$encode entries {ks} come out differently next to their look-alike siblings than alone"
    return None


def oracle(case, go, mo):
    if "together" in case and go and "res" in go:
        return oracle_together(case, go)
    if "spec" not in case or not go or "res" not in go:
        return None
    last = go["res"][-1]
    v, spec = case["val"], case["spec"]
    if spec is None:
        return None  # `$encode: null` is a null entry, dropped before evaluation
    from props.c06 import drop_nulls
    v = drop_nulls(v)
    try:
        exp = apply(v, spec)
    except Bad:
        return None if "err" in last else "malformed $encode arguments were accepted"
    if exp is NotImplemented:
        return None
    if "ok" not in last:
        # validation of the encoded result may legitimately fail (e.g. value begins with $ + lowercase)
        return None if last.get("err") in ("invalidDirective", "requiredField") else f"valid $encode rejected: {last.get('err')} {last.get('msg','')[:80]}"
    got = [from_wire(x) for x in last["ok"]]
    want = {"other": 1}
    if exp is not None:
        want["out"] = exp
    if got != [want]:
        return f"encoding differs: got {got!r:.200} want {want!r:.200}"
    return None


def nontrivial(case, go, mo):
    return True


# ---------------------------------------------------------------- codec transforms: $encode json|yaml|toml and $decode
# The json/yaml/toml text codecs are parameters of the model (theorem C14_decode_encode takes the codec's
# round trip as a hypothesis).  What the hypothesis says about the real libraries is measured here:
#   (1) `$encode: f` of v parses, with an independent parser of f, to v      ("the standard encoding it names")
#   (2) `$decode: f` of that text evaluates to v                             ("$decode inverts $encode")
CODECS = ["json", "yaml", "toml", "yml", "jsonl", "json-pretty"]
CSTR = ["x", "", "a b", "é", "123", "true", "null", "~", "1.0", "2001-12-14", "# c", ": ", "- x", "a: b", "---", "+++", "=", "k = 1",
        "line1\nline2", "line1\nline2\n", "x\n", "q\n\n", "#!/bin/sh\necho hi\n", " lead", "trail ", "\ttab", "'", "\"", "\\", "[a]", "{a: b}", "日本"]


def codec_value(rng, depth=2):
    r = rng.random()
    if depth <= 0 or r < 0.45:
        q = rng.random()
        if q < 0.6:
            return rng.choice(CSTR)
        if q < 0.8:
            return rng.choice([0, 1, -7, 2**31, 2**53 + 1, -2**63, 2**63 - 1])
        if q < 0.93:
            # integral floats on both sides of 2^53, 2^63, 2^64 and of the 1e21 switch to exponent form
            return rng.choice([0.5, 1.5, 0.1, 1e21, 2.0, -0.25, 3.0, 1e15, 9007199254740992.0, 4e18, 9.223372036854775808e18, 1e19, -1e19,
                               18446744073709551616.0, 1e20, 9.99e20, -9.99e20, 1e22])
        return rng.choice([True, False])
    if r < 0.75:
        return {rng.choice(["a", "b", "c", "k 1", "z"]): codec_value(rng, depth - 1) for _ in range(rng.randint(0, 3))}
    return [codec_value(rng, depth - 1) for _ in range(rng.randint(0, 3))]


def codec_roundtrip(rep, rng, n):
    import formats
    from common import run_go, load_known
    from histcheck import to_op
    from props.c05 import sig_yaml_merge_key, sig_yaml_leading_newline
    known = {k["signature"]: k for k in load_known().get("open", []) if k.get("property") == "C05"}
    vals = []
    for _ in range(n):
        v = {rng.choice(["a", "b", "c", "script"]): codec_value(rng, rng.randint(0, 2)) for _ in range(rng.randint(1, 3))}
        vals.append((v, rng.choice(CODECS)))
    # a codec at the END of a stack: what the earlier transforms produced (an EMPTY list included) is what the text must denote
    PRE = [({}, ["values"]), ({}, ["tolist:="]), ({"a": []}, ["tolist:="]), ([{}, {}], ["tolist:="]), ([[], []], ["flatten"]),
           ({"a": [], "b": []}, ["values", "flatten"]), ([], ["flatten"]), ({"a": 1, "b": "x"}, ["values"]), ([[1, 2], [3]], ["flatten"]),
           ({"k": ["a", "b"], "e": ""}, ["tolist:="]), ({"a": [1], "b": []}, ["values", "flatten"])]
    src = {}
    for j in range(len(vals)):
        if rng.random() < 0.2:
            vin, stack = rng.choice(PRE)
            f = rng.choice(["json", "jsonl", "json-pretty", "yaml", "yml"])
            vals[j] = (apply(vin, stack), f)
            src[j] = (vin, stack + [f])
    enc_cases = [chain_case([{"wrap": {"$value": src[j][0], "$encode": src[j][1]} if j in src else {"$value": v, "$encode": f}}], env={}, tail=("outdocs",))
                 for j, (v, f) in enumerate(vals)]
    enc = run_go([to_op(c, i) for i, c in enumerate(enc_cases)])
    dec_cases, idx, json_texts = [], [], []
    for i, (v, f) in enumerate(vals):
        rep.case(["codec", v, f], True, sample={"codec": f, "value": v} if i < 2 else None)
        rep.count("codec:" + f)
        last = ((enc.get(i) or {}).get("res") or [{}])[-1]
        toml_able = formats.toml_ok(v)
        yamlish = f in ("yaml", "yml")
        kf = None
        if yamlish and sig_yaml_merge_key([v]) and "c05.yaml_merge_key_string" in known:
            kf = known["c05.yaml_merge_key_string"]
        if yamlish and sig_yaml_leading_newline([v]) and "c05.yaml_leading_newline_string" in known:
            kf = known["c05.yaml_leading_newline_string"]
        if "ok" not in last:
            if f == "toml" and not toml_able:
                continue
            if len(rep.violations) < 6:
                rep.violation(f"$encode: {f} of a representable value failed: {last.get('err')} {last.get('msg', '')[:100]}", {"value": v, "format": f, "impl": last})
            continue
        out = from_wire(last["ok"][0]) if last["ok"] else None
        text = out.get("wrap") if isinstance(out, dict) else None
        if not isinstance(text, str):
            rep.violation(f"$encode: {f} did not produce a string", {"value": v, "format": f, "impl": last})
            continue
        try:
            indep = formats.load_all(f, text)
            good = len(indep) == 1 and formats.same(indep[0], v)
        except Exception as e:
            good = False
        if not good:
            if kf:
                rep.known_finding(kf["id"], kf["what_fails"])
            elif len(rep.violations) < 6:
                rep.violation(f"$encode: {f} is not the standard {f} encoding of the value (independent parser disagrees)", {"value": v, "format": f, "text": text})
            continue
        dec_cases.append(chain_case([{"wrap": {"$value": text, "$decode": f}}], env={}, tail=("outdocs",)))
        idx.append((i, text, kf))
        if f in ("json", "jsonl"):
            json_texts.append((v, f, text))
    # `$encode: json` is INSIDE the model (theorem C14_json_encode_text): the text is the model writer's, byte for byte
    import jsoncheck
    from common import run_model
    from wire import go_float_str
    mops = []
    for j, (v, f, text) in enumerate(json_texts):
        fl = {}
        jsoncheck.floats_of(v, fl)
        mops.append({"op": "jsonenc", "id": j, "docs": [to_wire(v)], "jf": {k: jsoncheck.go_json_float(x) for k, x in fl.items()}})
    mres = run_model(mops)
    for j, (v, f, text) in enumerate(json_texts):
        m = mres.get(j) or {}
        rep.count("codec:json-text-vs-model")
        if m.get("ok") != text and len(rep.violations) < 6:
            rep.violation(f"$encode: {f} text differs from the model's JSON writer: impl={text!r:.120} model={str(m.get('ok'))!r:.120}",
                          {"value": v, "format": f, "text": text, "model": m})
    # transcode: one map carrying `$value` (text), `$decode: f` and `$encode: g` decodes first and encodes the result
    tr_cases, tr_idx = [], []
    for (i, text, kf) in idx:
        if kf or rng.random() > 0.4 or i in src:
            continue
        v, f = vals[i]
        g = rng.choice(CODECS + ["values", "base64"])
        tr_cases.append(chain_case([{"wrap": {"$value": text, "$decode": f, "$encode": g}}], env={}, tail=("outdocs",)))
        tr_idx.append((i, g, text))
    tr = run_go([to_op(c, j) for j, c in enumerate(tr_cases)])
    for j, (i, g, text) in enumerate(tr_idx):
        v, f = vals[i]
        last = ((tr.get(j) or {}).get("res") or [{}])[-1]
        rep.count("transcode:" + ("ok" if "ok" in last else "err"))
        rep.traces += 1
        if g == "toml" and not formats.toml_ok(v):
            continue
        want_fail = False
        out = None
        if "ok" in last and last["ok"]:
            o = from_wire(last["ok"][0])
            out = o.get("wrap") if isinstance(o, dict) else None
        good = False
        try:
            if g in CODECS:
                parsed = formats.load_all(g, out) if isinstance(out, str) else None
                good = parsed is not None and len(parsed) == 1 and formats.same(parsed[0], v)
            elif g == "values":
                good = "ok" in last and formats.same(out, [v[k] for k in sorted(v)])
            else:
                good = isinstance(out, str) and out == base64.b64encode(gofmt(v).encode()).decode()
        except Exception:
            good = False
        if not good and last.get("err") in ("invalidDirective", "requiredField"):
            continue
        if not good and len(rep.violations) < 6:
            rep.violation(f"$decode: {f} + $encode: {g} in one map does not decode, then encode", {"value": v, "format": f, "text": text, "encode": g, "impl": last})
    dec = run_go([to_op(c, j) for j, c in enumerate(dec_cases)])
    for j, (i, text, kf) in enumerate(idx):
        v, f = vals[i]
        last = ((dec.get(j) or {}).get("res") or [{}])[-1]
        rep.traces += 1
        got = None
        if "ok" in last and last["ok"]:
            o = from_wire(last["ok"][0])
            got = o.get("wrap") if isinstance(o, dict) else None
        # a decoded string that is directive-shaped is evaluated / rejected by design: skip those
        if "ok" not in last and last.get("err") in ("invalidDirective", "requiredField"):
            continue
        want = v
        if not ("ok" in last and formats.same(got, want)) and not (want == {} and got is None):
            if kf:
                rep.known_finding(kf["id"], kf["what_fails"])
            elif len(rep.violations) < 6:
                rep.violation(f"$decode: {f} does not invert $encode: {f}", {"value": v, "format": f, "text": text, "decoded": got, "impl": last})


def run(rep):
    standard_run(rep, PID, gen_case, nontrivial, "$encode result differs", 4000, 150000,
                 "scalars, flat and nested maps/lists (list-valued and empty-string entries) x every transform and stacks of up "
                 "to 3, valid and invalid arguments; judged by the model (Lean base64/SHA-256) and by independent Python "
                 "implementations (hashlib, base64); codec stage: values with look-alike and newline-terminated strings through "
                 "$encode json/yaml/toml (parsed by independent parsers), $decode of that text, and $decode+$encode in one map",
                 oracle=oracle, extra_gens=[small_scope(PID)])
    import random
    codec_roundtrip(rep, random.Random(rep.seed + 77), 1500 if rep.tier == "quick" else 40000)
    rep.assumptions.append("json/yaml/toml text codecs are parameters of the model; their standard-ness and the $decode inverse are measured "
                           "by the codec stage (independent Python parsers), not proved")


def replay(rep, payload):
    if "text" in payload or ("format" in payload and "value" in payload):
        import random
        from common import run_go
        from histcheck import to_op
        v, f = payload["value"], payload["format"]
        e = run_go([to_op(chain_case([{"wrap": {"$value": v, "$encode": f}}], env={}, tail=("outdocs",)), 0)])
        print("encode:", e.get(0))
        if "text" in payload:
            d = run_go([to_op(chain_case([{"wrap": {"$value": payload["text"], "$decode": f}}], env={}, tail=("outdocs",)), 0)])
            print("decode:", d.get(0))
        return 1
    return standard_replay(payload, oracle=oracle)
