"""C14 — $encode produces the named standard encodings and $decode inverts them."""
import base64
import hashlib
import json
import gen
from histcheck import chain_case
from props.evalcommon import standard_run, standard_replay
from wire import go_float_str, from_wire

PID = "C14"


def gofmt(v):
    if v is None:
        return "<nil>"
    if isinstance(v, bool):
        return "true" if v else "false"
    if isinstance(v, float):
        return go_float_str(v)
    if isinstance(v, (int, str)):
        return str(v)
    if isinstance(v, list):
        return "[" + " ".join(gofmt(x) for x in v) + "]"
    return "map[" + " ".join(f"{k}:{gofmt(v[k])}" for k in sorted(v)) + "]"


class Bad(Exception):
    pass


def tolist_map(m, delim):
    if not isinstance(m, dict):
        raise Bad()
    out = []
    for k in sorted(m):
        vs = m[k] if isinstance(m[k], list) else [m[k]]
        for x in vs:
            out.append(k if x == "" and isinstance(x, str) else f"{k}{delim}{gofmt(x)}")
    return out


def apply(v, spec):
    """independent implementation of one transform; raises Bad for malformed use; returns NotImplemented for codecs"""
    if isinstance(spec, list):
        for s in spec:
            v = apply(v, s)
            if v is NotImplemented:
                return v
        return v
    if not isinstance(spec, str):
        raise Bad()
    parts = spec.split(":")
    cmd = parts[0]
    n = len(parts)
    if cmd == "base64":
        if n != 1: raise Bad()
        return base64.b64encode(gofmt(v).encode()).decode()
    if cmd == "sha256":
        if n != 1: raise Bad()
        return hashlib.sha256(gofmt(v).encode()).hexdigest()
    if cmd == "join":
        if n > 2 or not isinstance(v, list): raise Bad()
        return (parts[1] if n == 2 else "").join(gofmt(x) for x in v)
    if cmd == "prefix":
        if n != 2 or not isinstance(v, list): raise Bad()
        return [parts[1] + gofmt(x) for x in v]
    if cmd == "flatten":
        if n != 1 or not isinstance(v, list): raise Bad()
        out = []
        for x in v:
            out += x if isinstance(x, list) else [x]
        return out
    if cmd == "values":
        if n != 1 or not isinstance(v, dict): raise Bad()
        return [v[k] for k in sorted(v)]
    if cmd == "tolist":
        if n != 2: raise Bad()
        if isinstance(v, list):
            out = []
            for x in v:
                out += tolist_map(x, parts[1])
            return out
        return tolist_map(v, parts[1])
    if cmd == "flags":
        if n != 1: raise Bad()
        return apply(apply(v, "tolist:="), "prefix:--")
    if cmd in ("json", "yaml", "toml", "yml", "jsonl", "json-pretty"):
        if n != 1: raise Bad()
        return NotImplemented
    raise Bad()


VALUES = [0, 7, -3, True, False, 1.5, "x", "", "a b", "é", ["a", "b"], ["a", 1, True, 1.5], [["a", "b"], "c", ["d"]], [],
          {"k": "v", "n": 1}, {"k": ["a", "b"], "e": "", "s": "v"}, {"b": 2, "a": 1}, {}, [{"a": 1}, {"b": ""}], {"m": {"x": 1}}, [None, 1]]
SPECS = gen.ENCODES + ["json", "yaml", "toml"]


def gen_case(rng):
    v = rng.choice(VALUES)
    k = rng.randint(1, 3)
    spec = rng.choice(SPECS) if rng.random() < 0.5 else [rng.choice(SPECS) for _ in range(k)]
    if rng.random() < 0.05:
        spec = rng.choice([1, {"a": 1}, None, [1], ["join", 2]])
    r = rng.random()
    if r < 0.5 or not isinstance(v, (dict, list)):
        node = {"$encode": spec, "$value": v}
    elif isinstance(v, dict):
        node = dict(v, **{"$encode": spec})
    else:
        node = list(v) + [{"$encode": spec}]
    doc = {"out": node, "other": 1}
    c = chain_case([doc], env={}, tail=("outdocs",))
    c["val"], c["spec"] = v, spec
    return c


def oracle(case, go, mo):
    if "spec" not in case or not go or "res" not in go:
        return None
    last = go["res"][-1]
    v, spec = case["val"], case["spec"]
    if spec is None:
        return None  # `$encode: null` is a null entry, dropped before evaluation
    from props.c06 import drop_nulls
    v = drop_nulls(v)
    try:
        exp = apply(v, spec)
    except Bad:
        return None if "err" in last else "malformed $encode arguments were accepted"
    if exp is NotImplemented:
        return None
    if "ok" not in last:
        # validation of the encoded result may legitimately fail (e.g. value begins with $ + lowercase)
        return None if last.get("err") in ("invalidDirective", "requiredField") else f"valid $encode rejected: {last.get('err')} {last.get('msg','')[:80]}"
    got = [from_wire(x) for x in last["ok"]]
    want = {"other": 1}
    if exp is not None:
        want["out"] = exp
    if got != [want]:
        return f"encoding differs: got {got!r:.200} want {want!r:.200}"
    return None


def nontrivial(case, go, mo):
    return True


def run(rep):
    standard_run(rep, PID, gen_case, nontrivial, "$encode result differs", 4000, 150000,
                 "scalars, flat and nested maps/lists (list-valued and empty-string entries) x every transform and stacks of up "
                 "to 3, valid and invalid arguments; judged by the model (Lean base64/SHA-256) and by independent Python "
                 "implementations (hashlib, base64); codec formats (json/yaml/toml text) are compared in C05/C04",
                 oracle=oracle)


def replay(rep, payload):
    return standard_replay(payload, oracle=oracle)
