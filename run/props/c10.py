"""C10 — $merge / $replace behave as if the referenced subtree were written inline."""
import json
import gen
from histcheck import chain_case
from props.evalcommon import standard_run, standard_replay, small_scope

PID = "C10"
W = {"ref": 6, "output": 1, "repeat": 0.3, "encode": 0.3, "interp": 0.5}


def stream_case(rng):
    """2-3 document stream with cross-document references ($match/$path map form and [pattern, path...] form)."""
    docs = [gen.map_tree(rng, depth=3, nulls=False) for _ in range(rng.randint(2, 3))]
    textual = rng.random() < 0.15
    for i, d in enumerate(docs):
        d["kind"] = rng.choice(["A", "B", "C"]) if rng.random() < 0.3 else "K%d" % i
        if textual:
            # scalars that print alike but are different values: 1 / "1" / 1.0 / true / "true" never match one another
            d["kind"] = [1, "1", 1.0, True, "true", "1.0"][(i * 2 + rng.randint(0, 1)) % 6]
    src = rng.randrange(len(docs))
    tgt = rng.randrange(len(docs))
    pat = {"kind": docs[tgt]["kind"]}
    if rng.random() < 0.1:
        pat = {"kind": "nosuch"}
    tp = [list(p) for p, _ in gen.map_paths(docs[tgt])]
    path = rng.choice(tp) if tp and rng.random() < 0.7 else []
    if rng.random() < 0.35:
        # the TARGET document evaluates references of its own (map-form $merge nested somewhere): whoever reads it
        # as a whole must not disturb it, whether it is emitted before or after the host
        try:
            docs[tgt] = gen.inject_ref(rng, docs[tgt])
            if isinstance(docs[tgt], dict):
                docs[tgt].setdefault("kind", "K%d" % tgt)
        except Exception:
            pass
        if rng.random() < 0.5:
            path = []
    kind = rng.choice(["$merge", "$replace"])
    r = rng.random()
    if r < 0.4:
        ref = {"$match": pat}
        if path or rng.random() < 0.5:
            ref["$path"] = ".".join(path) if rng.random() < 0.5 else path
    elif r < 0.8:
        ref = [pat] + path
    else:
        ref = {"$path": "a"}  # missing $match
    host = rng.choice(gen.KEYS)
    if rng.random() < 0.5:
        docs[src][host] = {kind: ref}
    else:
        docs[src][host] = {kind: ref, "local": 1}
    if rng.random() < 0.25:
        # candidate documents (the host itself included) that carry a ROOT-level map-form reference beside ordinary
        # keys: they are still candidates for a cross-document pattern (only placeholder-ONLY maps never match)
        for i in rng.sample(range(len(docs)), rng.randint(1, len(docs))):
            # (a root-level $merge of the document's own child would be the branching self-reference of KF-C08-1)
            j = rng.choice([x for x in range(len(docs)) if x != i] or [i])
            mp = [k for k, v in docs[j].items() if isinstance(v, dict) and not k.startswith("$")]
            if mp and j != i:
                docs[i]["$merge"] = {"$match": {"kind": docs[j]["kind"]}, "$path": rng.choice(mp)}
            else:
                own = [k for k, v in docs[i].items() if isinstance(v, dict) and not k.startswith("$")]
                if own:
                    docs[i]["$replace"] = rng.choice(own)
        if rng.random() < 0.5:
            for d in docs:
                d["kind"] = "same"            # ambiguous on purpose: an error, whatever else the documents carry
    steps = [{"merge": {"id": f"D{i}", "parents": [], "data": d}} for i, d in enumerate(docs)]
    steps += [{"docs": True}, {"outdocs": True}]
    return {"steps": steps, "env": gen.ENV}


def list_merge_multi_case(rng):
    """several `- $merge: ref` entries in one list: each is resolved, in order, and ANY failing entry (dangling path, pattern
    matching no document / several documents, a target that is not a list) fails the evaluation - first, middle or last"""
    good = [["a"], "a", "b.l", [{"kind": "T"}, "l"]]
    bad = ["nosuch", "a.zz", [{"kind": "nosuch"}, "l"], "s", [{"kind": "T"}, "nosuch"], "b"]
    n = rng.randint(2, 4)
    entries = [{"$merge": rng.choice(good)} for _ in range(n)]
    if rng.random() < 0.7:
        entries[rng.randrange(n)] = {"$merge": rng.choice(bad)}
    lst = entries + rng.choice([[], ["own"], [{"o": 1}]])
    rng.shuffle(lst) if rng.random() < 0.3 else None
    doc = {"a": [1, {"x": 1}], "b": {"l": ["p", "q"]}, "s": "scalar", "zig": lst}
    other = {"kind": "T", "l": [{"t": 1}]}
    docs = [doc, other] if rng.random() < 0.5 else [other, doc]
    steps = [{"merge": {"id": f"D{i}", "parents": [], "data": d}} for i, d in enumerate(docs)] + [{"docs": True}, {"outdocs": True}]
    return {"steps": steps, "env": gen.ENV}


def whole_doc_case(rng):
    """a WHOLE other document as the referenced subtree ({$match: pat} without $path), where that document evaluates
    references of its own: inside the host they resolve against the HOST's document, inside the target against the
    target's - and the target document is emitted exactly as if nobody had referenced it, wherever it stands"""
    k1, k2 = rng.sample(["b", "c", "d", "e"], 2)
    tmpl = {"id": "tmpl", k1: {"x": 1, "$merge": k2}, k2: {"y": 2}}
    if rng.random() < 0.4:
        tmpl["deep"] = {"n": {"$merge": k2, "z": 0}}
    if rng.random() < 0.3:
        tmpl[k1] = {"$replace": k2}
    kind = rng.choice(["$replace", "$replace", "$merge"])
    ref = {"$match": {"id": "tmpl"}}
    if kind == "$merge":
        hostv = rng.choice([[{"$merge": ref}, "own"], {"$merge": ref, "own": 1}])
    else:
        hostv = rng.choice([{"$replace": ref}, {"$replace": ref, "ignored": 1}])
    host = {"h": hostv, k2: {"y": 5}}
    if rng.random() < 0.3:
        host[k1] = "host-side"
    docs = [host, tmpl] if rng.random() < 0.6 else [tmpl, host]
    if rng.random() < 0.3:
        docs.append({"again": {"$replace": {"$match": {"id": "tmpl"}}}, k2: {"y": 9}})
    steps = [{"merge": {"id": f"D{i}", "parents": [], "data": d}} for i, d in enumerate(docs)] + [{"docs": True}, {"outdocs": True}, {"docs": True}]
    return {"steps": steps, "env": gen.ENV}


def dotted_key_case(rng):
    """a map holding BOTH a nested path and a key whose text is that path joined with dots (or only one of the two):
    a reference walks segments, a dotted key is reachable only as one list element"""
    segs = rng.sample(["db", "internal", "a", "b", "example", "com", "v1"], rng.randint(2, 3))
    nested, cur = {}, None
    leaf = rng.choice([{"n": 1}, [1, 2], {"deep": {"x": "nested"}}])
    t = leaf
    for sgm in reversed(segs):
        t = {sgm: t}
    holder = dict(t)
    shape = rng.choice(["both", "both", "dotted-only", "nested-only", "partial"])
    if shape == "dotted-only":
        holder = {}
    if shape != "nested-only":
        holder[".".join(segs)] = rng.choice([{"d": "dotted"}, ["dotted"], {"n": 2}])
    if shape == "partial":
        # the dotted key spells only the TAIL of the path
        holder = dict(t)
        holder[segs[0]] = dict(holder[segs[0]], **{".".join(segs[1:]): {"d": "dotted-tail"}})
    doc = {"hosts": holder, "other": 1}
    kind = rng.choice(["$merge", "$replace"])
    form = rng.choice(["str", "list", "list-one", "directive-str", "cross"])
    path = ["hosts"] + segs
    if form == "str":
        ref = ".".join(path)
    elif form == "list":
        ref = path
    elif form == "list-one":
        ref = ["hosts", ".".join(segs)]
    elif form == "directive-str":
        doc["ref"] = rng.choice([kind + ":" + ".".join(path), {"x": kind + ":" + ".".join(path), "local": 1}])
        return chain_case([doc], env=gen.ENV, tail=("docs", "outdocs"))
    else:
        doc["kind"] = "T"
        other = {"kind": "H", "ref": {kind: rng.choice([[{"kind": "T"}] + path, {"$match": {"kind": "T"}, "$path": rng.choice([".".join(path), path])}])}}
        steps = [{"merge": {"id": f"D{i}", "parents": [], "data": d}} for i, d in enumerate([doc, other])] + [{"docs": True}, {"outdocs": True}]
        return {"steps": steps, "env": gen.ENV}
    doc["ref"] = {kind: ref} if rng.random() < 0.5 else {kind: ref, "local": 1}
    return chain_case([doc], env=gen.ENV, tail=("docs", "outdocs"))


def gen_case(rng):
    if rng.random() < 0.08:
        return dotted_key_case(rng)
    if rng.random() < 0.06:
        return whole_doc_case(rng)
    if rng.random() < 0.05:
        return list_merge_multi_case(rng)
    if rng.random() < 0.3:
        return stream_case(rng)
    doc = gen.eval_doc(rng, W, depth=rng.randint(2, 4), nfeat=(1, 3))
    layers = [doc]
    if rng.random() < 0.2:
        layers.append(gen.patch_for(rng, doc))
    c = chain_case(layers, env=gen.ENV)
    return c


def nontrivial(case, go, mo):
    s = str(case["steps"])
    return "$merge" in s or "$replace" in s


def cross_file_cases(rng, n):
    """a stream FILE (json / jsonl / yaml / yml / toml) whose second document reaches into the first through a cross-document
    reference in every form - list, `$match`/`$path` map, and the STRING forms that are parsed on their own - with pattern values of
    every integer width: the pattern and the document it selects come from different decoders"""
    out = []
    for _ in range(n):
        N = rng.choice([5, 0, -7, 2**31 - 1, 2**31, 5000000000, -2**31 - 1, 2**53 + 1, 2**63 - 1, "x", "5", True, 1.5])
        lit = json.dumps(N)
        kind = rng.choice(["$merge", "$replace"])
        form = rng.choice(["list", "map", "str-list", "directive-str", "str-inline"])
        if form == "list":
            ref = {kind: [{"id": N}, "spec"]}
        elif form == "map":
            ref = {kind: {"$match": {"id": N}, "$path": "spec"}}
        elif form == "str-list":
            ref = {kind: "[{id: %s}, spec]" % lit}
        elif form == "directive-str":
            ref = "%s:[{id: %s}, spec]" % (kind, lit)
        else:
            ref = {kind: "[{id: %s}, spec, l]" % lit}
        doc0 = {"id": N, "kind": "T", "spec": {"replicas": rng.choice([3, 2**40]), "l": [1, 2**33]}}
        decoy = {"id": rng.choice([6, 2**31 + 1, "y"]), "kind": "T", "spec": {"replicas": 0, "l": []}}
        doc1 = {"kind": "H", "ref": ref}
        with_decoy = rng.random() < 0.5
        docs = [doc0, decoy, doc1] if with_decoy else [doc0, doc1]
        ext = rng.choice(["json", "jsonl", "yaml", "yml", "toml"])
        # the same reference in LIST form (the pattern then comes from the file's own decoder): must behave the same
        tref = {kind: [{"id": N}, "spec"] + (["l"] if form == "str-inline" else [])}
        tdocs = [doc0] + ([decoy] if with_decoy else []) + [{"kind": "H", "ref": tref}]
        out.append({"layout": {"s." + ext: {"fmt": ext, "docs": docs}}, "opts": {"inputs": ["s." + ext], "format": "json"},
                    "twin": {"layout": {"s." + ext: {"fmt": ext, "docs": tdocs}}, "opts": {"inputs": ["s." + ext], "format": "json"}},
                    "meta": {"kind": f"cross:{form}:{ext}:{'wide' if isinstance(N, int) and not isinstance(N, bool) and abs(N) >= 2**31 else 'other'}"}})
    return out


def run(rep):
    standard_run(rep, PID, gen_case, nontrivial, "reference evaluation differs from the model of inline semantics",
                 3000, 150000,
                 "random tree + 1-3 injected references (map/list/string form, dotted/list paths, dangling, chains, "
                 "under $output) and 2-3 document streams with cross-document $match/$path and [pattern, path] forms; "
                 "non-trivial = contains a reference", extra_gens=[small_scope(PID)])
    if len(rep.violations) < 5:
        import random
        import fscheck
        from cli import pmap
        cs = cross_file_cases(random.Random(rep.seed + 99), 200 if rep.tier == "quick" else 5000)
        fscheck.file_chain_stage(rep, cs, "cross-document reference in a stream file")
        # the string forms are parsed by a decoder of their own (unmodelled in the file-level model): judged against their list-form twin
        a = pmap(fscheck.run_case, cs)
        b = pmap(fscheck.run_case, [c["twin"] for c in cs])
        for c, (oa, _), (ob, _) in zip(cs, a, b):
            rep.count("cross-twin:" + c["meta"]["kind"].split(":")[1])
            if ((oa["rc"] == 0) != (ob["rc"] == 0) or (oa["rc"] == 0 and oa["out"] != ob["out"])) and len(rep.violations) < 6:
                rep.violation("a cross-document reference written as a string behaves differently from the same reference written as a list",
                              {"case": {"crosstwin": {k: c[k] for k in ("layout", "opts", "twin")}}, "observed": oa, "twin_observed": ob})


def replay(rep, payload):
    if "crosstwin" in payload.get("case", {}):
        import fscheck
        c = payload["case"]["crosstwin"]
        oa, _ = fscheck.run_case(c)
        ob, _ = fscheck.run_case(c["twin"])
        print("string form:", oa)
        print("list form  :", ob)
        return 1 if ((oa["rc"] == 0) != (ob["rc"] == 0) or (oa["rc"] == 0 and oa["out"] != ob["out"])) else 0
    return standard_replay(payload)
