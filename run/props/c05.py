"""C05 — output round-trips in every format: what bkl writes reads back unchanged."""
import base64
import os
import random
import re
import formats
from cli import run_cli, write_files, Workdir, pmap, bad_shape
from common import proof_step, load_corpus, load_known, run_go, run_model
from histcheck import to_op
from props.c06 import drop_nulls
from wire import from_wire, to_wire

PID = "C05"
FMTS = ["json", "jsonl", "json-pretty", "yaml", "yml", "toml"]
KF_STRINGS = ["<<", "\n", "\nlead", "\t\n", "\ttab\n x", "\n\n"]
LOOK = ["123", "1e3", "0x1F", "0o17", ".5", "1_000", "+1", "-0", "1.0", "0.1", "true", "True", "yes", "on", "y", "n", "NO", "off",
        "null", "~", "", "Null", "2001-12-14", "2001-12-14t21:59:43.10-05:00", "12:30:45", "---", "+++", "...", "# c", " #c", "a #c",
        ": ", "a: b", "- x", "-", "[a]", "{a: b}", "'", "\"", "'q'", "\"q\"", "< <", "=", "a=b", "a = 1", " lead", "trail ", "\ttab",
        "multi\nline", "trail\n", "a\n\nb", "é", "日本語", " x", "😀", "\\", "\\n", "&a", "*a", "!tag", "%d", "@x", "`x`",
        "|", ">", "?", "k: v\n- 1", "x", "plain", "a.b", ".inf", ".nan", "0.1e+3", "1e+21", "[1, 2]", "key = \"v\""]
INTS = [0, 1, -1, 2**31 - 1, 2**31, -2**31 - 1, 2**53 + 1, 2**63 - 1, -2**63, 10**15]
FLTS = [0.1, 1.5, -2.25, 1e21, 1e-7, 1.7976931348623157e308, 5e-324, 123456789.12345679, 1.0, 100.0, 0.30000000000000004]


def leaf(rng):
    r = rng.random()
    if r < 0.55:
        return rng.choice(LOOK)
    if r < 0.7:
        return rng.choice(INTS)
    if r < 0.85:
        return rng.choice(FLTS)
    return rng.choice([True, False])


def tree(rng, depth):
    r = rng.random()
    if depth <= 0 or r < 0.4:
        return leaf(rng)
    if r < 0.7:
        return {key(rng): tree(rng, depth - 1) for _ in range(rng.randint(0, 3))}
    return [tree(rng, depth - 1) for _ in range(rng.randint(0, 3))]


def key(rng):
    return rng.choice(LOOK) if rng.random() < 0.5 else rng.choice(["a", "b", "c", "k1"])


def clean_key(k):
    # keys that the evaluator would interpret are not "plain data": avoid $ (none in LOOK) — kept for clarity
    return k


def gen_case(rng):
    n = rng.randint(1, 4)
    docs = []
    for _ in range(n):
        d = {key(rng): tree(rng, rng.randint(1, 3)) for _ in range(rng.randint(1, 4))}
        docs.append(d)
    if rng.random() < 0.2:
        # empty documents ({} encodes to zero bytes of TOML): leading, inner, trailing, all
        for i in ([0] if rng.random() < 0.5 else rng.sample(range(n), rng.randint(1, n))):
            docs[i] = {}
    if rng.random() < 0.1:
        # strings of the recorded third-party emitter findings, kept rare so that YAML stays tested
        docs[0][rng.choice(["kf", rng.choice(KF_STRINGS)])] = rng.choice(KF_STRINGS)
    return {"docs": docs}


def has_str(v, pred):
    if isinstance(v, str):
        return pred(v)
    if isinstance(v, dict):
        return any(pred(k) or has_str(x, pred) for k, x in v.items())
    if isinstance(v, list):
        return any(has_str(x, pred) for x in v)
    return False


# known-finding signatures (third-party YAML emitter)
def sig_yaml_merge_key(docs):
    return any(has_str(d, lambda s: s == "<<") for d in docs)


def sig_yaml_leading_newline(docs):
    return any(has_str(d, lambda s: "\n" in s and s[0] in "\n\t") for d in docs)


def observe(case):
    """library: Output(fmt) for each format; then re-read each output with bkl and with the independent parser"""
    docs = case["docs"]
    steps = [{"merge": {"id": f"D{i}", "parents": [], "data": d}} for i, d in enumerate(docs)]
    steps += [{"out": f} for f in FMTS]
    return {"steps": steps, "env": {}}


def reread(item):
    fmt, raw = item
    with Workdir() as d:
        write_files(d, {"o." + fmt: raw})
        r = run_cli("bkl", ["-f", "json", "-P", "o." + fmt], d)
        return r


def evaluate(rep, cases, known_sigs):
    ops = [to_op(observe(c), i) for i, c in enumerate(cases)]
    go = run_go(ops)
    jobs, index = [], []
    results = []
    for i, c in enumerate(cases):
        g = go.get(i) or {}
        res = g.get("res", [])
        outs = res[len(c["docs"]):]
        for f, o in zip(FMTS, outs):
            if "bytes" in o:
                raw = base64.b64decode(o["bytes"])
                jobs.append((f, raw))
                index.append((i, f))
    rr = pmap(reread, jobs)
    by_case = {}
    for (i, f), (fmt, raw), r in zip(index, jobs, rr):
        by_case.setdefault(i, {})[f] = (raw, r)
    nbad = 0
    for i, c in enumerate(cases):
        expect = [drop_nulls(d) for d in c["docs"]]
        g = go.get(i) or {}
        res = g.get("res", [])
        outs = res[len(c["docs"]):]
        rep.case(c["docs"], True, sample={"docs": c["docs"]} if i < 3 else None)
        rep.traces += 1
        fails = []
        for f, o in zip(FMTS, outs):
            toml_able = all(formats.toml_ok(d) for d in expect)
            if "bytes" not in o:
                if f == "toml" and not toml_able:
                    continue
                fails.append((f, f"Output({f}) failed: {o.get('err')} {o.get('msg', '')[:100]}"))
                continue
            raw, r = by_case[i][f]
            text = raw.decode("utf-8", "replace")
            rep.count("encoded:" + f)
            # independent parser
            try:
                indep = formats.load_all(f, text)
                if f in ("yaml", "yml"):
                    indep = [x for x in indep]
                if len(indep) != len(expect) or not all(formats.same(a, b, True) for a, b in zip(indep, expect)):
                    fails.append((f, f"independent {f} parser reads different documents"))
            except Exception as e:
                fails.append((f, f"independent {f} parser rejects the output: {str(e)[:100]}"))
            # bkl itself
            if r["rc"] != 0:
                fails.append((f, f"bkl cannot read back its own {f} output: {r['err'][:120]}"))
            else:
                try:
                    back = formats.json_load_all(r["out"])
                    if len(back) != len(expect) or not all(formats.same(a, b, True) for a, b in zip(back, expect)):
                        fails.append((f, f"bkl reads back different documents from its own {f} output"))
                except Exception as e:
                    fails.append((f, f"re-read output unparsable: {e}"))
        for f, why in fails:
            kf = None
            if f in ("yaml", "yml") and "c05.yaml_merge_key_string" in known_sigs and sig_yaml_merge_key(c["docs"]):
                kf = known_sigs["c05.yaml_merge_key_string"]
            elif f in ("yaml", "yml") and "c05.yaml_leading_newline_string" in known_sigs and sig_yaml_leading_newline(c["docs"]):
                kf = known_sigs["c05.yaml_leading_newline_string"]
            if kf:
                rep.known_finding(kf["id"], kf["what_fails"])
                continue
            nbad += 1
            if len(rep.violations) < 5:
                rep.disagreements_checked += 1
                rep.violation(f"{f}: {why}", {"case": c, "format": f, "output": by_case.get(i, {}).get(f, (b"",))[0].decode("utf-8", "replace")})
    return nbad


# ---------------------------------------------------------------- format selection through the CLI
PROBE = {"k": {"n": 1}, "s": "v"}


def classify(text):
    if text.startswith("{\n  "):
        return "json-pretty"
    if text.startswith("{"):
        return "json"
    if re.search(r"^\[k\]$|^s = ", text, re.M):
        return "toml"
    if re.search(r"^k:$", text, re.M):
        return "yaml"
    return "?"


def selection_cases(rng, n):
    out = []
    for _ in range(n):
        real = rng.choice(["yaml", "json", "toml"])
        f = rng.choice([None, None, "json", "json-pretty", "yaml", "toml"])
        o = rng.choice([None, None, "out.json", "out.yaml", "out.toml", "out.yml", "out.jsonl", "out.json-pretty", "sub.dir/out.toml", "out.txt"])
        virt = rng.choice([None, None, "json", "yaml", "toml", "yml", "jsonl"])
        out.append({"real": real, "f": f, "o": o, "virt": virt})
    return out


def run_selection(c):
    with Workdir() as d:
        write_files(d, {"in." + c["real"]: formats.dump(c["real"], [PROBE])})
        if c["o"] and "/" in c["o"]:
            os.makedirs(os.path.join(d, os.path.dirname(c["o"])), exist_ok=True)
        args = []
        if c["f"]:
            args += ["-f", c["f"]]
        if c["o"]:
            args += ["-o", c["o"]]
        inp = "in." + (c["virt"] or c["real"])
        args.append(inp)
        r = run_cli("bkl", args, d)
        text = r["out"]
        if c["o"] and os.path.exists(os.path.join(d, c["o"])):
            text = open(os.path.join(d, c["o"])).read()
        return {"rc": r["rc"], "text": text, "err": r["err"][:200], "stdout": r["out"]}


def run_rewrite(c):
    """`bkl -o out` over an existing longer file: what is on disk afterwards is exactly the new output"""
    with Workdir() as d:
        long_doc = {"a": list(range(40)), "text": "x" * 300, "k": {"n": 1}}
        write_files(d, {"long.yaml": formats.dump("yaml", [long_doc, long_doc]), "short.yaml": formats.dump("yaml", [PROBE])})
        out = "out." + c["ext"]
        if c["preexisting"] == "long":
            run_cli("bkl", ["-o", out, "long.yaml"], d)
        elif c["preexisting"] == "garbage":
            write_files(d, {out: "#" * 2000 + "\n"})
        r = run_cli("bkl", ["-o", out, "short.yaml"], d)
        ref = run_cli("bkl", ["-f", {"yml": "yaml", "jsonl": "json"}.get(c["ext"], c["ext"]), "short.yaml"], d)
        text = open(os.path.join(d, out)).read() if os.path.exists(os.path.join(d, out)) else None
        return {"rc": r["rc"], "file": text, "ref": ref["out"], "err": r["err"][:200]}


def run_cli_stream(job):
    """the documents through the command line: `bkl -o out.<ext> in.jsonl` or `bkl in.<ext>` (virtual extension, stdout)"""
    src, ext, way = job
    with Workdir() as d:
        write_files(d, {"in.jsonl": src})
        if way == "-o":
            r = run_cli("bkl", ["-o", "out." + ext, "in.jsonl"], d)
            p = os.path.join(d, "out." + ext)
            data = open(p, "rb").read() if os.path.isfile(p) else None
        else:
            r = run_cli("bkl", ["in." + ext], d)
            data = r["out_bytes"]
        return {"rc": r["rc"], "data": data, "err": r["err"][:200]}


def cli_stream_stage(rep, cases):
    """what the command line writes (OutputToFile / OutputToWriter) is byte for byte what Output(format) returns for the same
    documents, in every format, for streams of several documents too"""
    ops = [to_op(observe(c), i) for i, c in enumerate(cases)]
    go = run_go(ops)
    jobs, meta = [], []
    for i, c in enumerate(cases):
        res = (go.get(i) or {}).get("res", [])
        outs = dict(zip(FMTS, res[len(c["docs"]):]))
        if "bytes" not in outs.get("jsonl", {}):
            continue
        src = base64.b64decode(outs["jsonl"]["bytes"]).decode("utf-8")
        for k, f in enumerate(FMTS):
            way = "-o" if (i + k) % 2 == 0 else "virt"
            jobs.append((src, f, way))
            meta.append((c, f, way, base64.b64decode(outs[f]["bytes"]) if "bytes" in outs.get(f, {}) else None))
    for (c, f, way, lib), o in zip(meta, pmap(run_cli_stream, jobs)):
        rep.case(["cli-stream", c["docs"], f, way], True)
        rep.count(f"cli-stream:{f}:{way}:{min(len(c['docs']), 3)}doc")
        if lib is None:
            if o["rc"] == 0 and len(rep.violations) < 6:
                rep.violation(f"the command line wrote {f} output for documents Output({f}) rejects", {"case": {"clistream": {"docs": c["docs"], "format": f, "way": way}}, "observed": str(o)[:400]})
            continue
        if (o["rc"] != 0 or o["data"] != lib) and len(rep.violations) < 6:
            rep.violation(f"the command line ({'-o out.' + f if way == '-o' else 'input extension ' + f}) does not write what Output({f}) returns for the same {len(c['docs'])} document(s)",
                          {"case": {"clistream": {"docs": c["docs"], "format": f, "way": way}},
                           "observed": {"rc": o["rc"], "err": o["err"], "cli": (o["data"] or b"").decode("utf-8", "replace")[:400], "library": lib.decode("utf-8", "replace")[:400]}})



def expected_format(c):
    alias = {"yml": "yaml", "jsonl": "json"}
    if c["f"]:
        f = c["f"]
    elif c["o"]:
        base = c["o"].split("/")[-1]
        f = base.rsplit(".", 1)[1] if "." in base else ""
    else:
        f = c["virt"] or c["real"]
    if f not in FMTS:
        return None
    return alias.get(f, f)


def run(rep):
    rep.rule = ("streams of 1-4 map-rooted documents over trees of look-alike strings (numbers, booleans, null spellings, dates, separators, "
                "comment/indicator characters, quotes, <<, =, leading/trailing whitespace and newlines, unicode) as keys and values, 64-bit "
                "boundary integers, doubles, empty maps/lists; every format json/jsonl/json-pretty/yaml/yml/toml through the library; each "
                "output is re-read by bkl itself and by an independent parser (json, libyaml with a YAML 1.2 core schema, tomllib), numbers "
                "compared by exact value; plus format selection through -f / -o extension / virtual input extension in all combinations; "
                "-o over an existing longer / garbage file; the command line's output (-o file, stdout by input extension) against Output(format) "
                "byte for byte for multi-document streams in every format; numbers compared by exact value AND kind; every case is non-trivial")
    rep.proof, rep.broken = proof_step(PID)
    rng = random.Random(rep.seed)
    known_sigs = {k["signature"]: k for k in load_known().get("open", []) if k.get("property") == PID}
    n = 500 if rep.tier == "quick" else 15000
    cases = [c for _, c in load_corpus(PID)] + [gen_case(rng) for _ in range(n)]
    evaluate(rep, cases, known_sigs)
    # replay stored witnesses of the open findings
    for sig, k in known_sigs.items():
        w = k.get("witness")
        if w:
            before = len(rep.known)
            evaluate(rep, [w], known_sigs)
            if len(rep.known) == before:
                rep.known_finding(k["id"], k["what_fails"] + " (witness no longer fails)")
    sel = selection_cases(rng, 150 if rep.tier == "quick" else 3000)
    sres = pmap(run_selection, sel)
    for c, o in zip(sel, sres):
        want = expected_format(c)
        rep.case(c, True)
        rep.count(f"select:{want}")
        if want is None:
            if o["rc"] == 0:
                rep.violation("an unknown output format was accepted", {"case": c, "observed": o})
            continue
        if o["rc"] != 0:
            rep.violation(f"format selection: bkl failed ({o['err']}) where {want} was selected", {"case": c, "observed": o})
            continue
        got = classify(o["text"])
        if got != want:
            if len(rep.violations) < 6:
                rep.violation(f"format selection: wrote {got}, expected {want} (-f {c['f']}, -o {c['o']}, input extension {c['virt'] or c['real']})",
                              {"case": c, "observed": o})
        if c["o"] and o["stdout"]:
            rep.violation("output went to stdout although -o was given", {"case": c, "observed": o})
    # the same value tree through several writers in sequence: each output must equal a fresh encode
    seq_cases = [gen_case(rng) for _ in range(150 if rep.tier == "quick" else 4000)]
    sops = []
    for i, c in enumerate(seq_cases):
        fs = [rng.choice(FMTS) for _ in range(rng.randint(2, 4))]
        c["seq_formats"] = fs
        docs = [to_wire(drop_nulls(d)) for d in c["docs"]]
        sops.append({"op": "format", "id": i, "format": "json", "marshalseq": fs, "docs": docs})
        for j, f in enumerate(fs):
            sops.append({"op": "format", "id": f"{i}:{j}", "format": f, "encode": docs})
    sres = run_go(sops)
    for i, c in enumerate(seq_cases):
        rep.case(["marshalseq", c["docs"], c["seq_formats"]], True)
        rep.count("marshalseq")
        seq = (sres.get(i) or {}).get("seq") or []
        for j, f in enumerate(c["seq_formats"]):
            fresh = sres.get(f"{i}:{j}") or {}
            got = seq[j] if j < len(seq) else {}
            if ("bytes" in fresh) != ("bytes" in got) or fresh.get("bytes") != got.get("bytes"):
                if len(rep.violations) < 6:
                    rep.violation(f"MarshalStream({f}) of a tree that was written as {c['seq_formats'][:j]} before differs from a fresh encode (a writer modified its argument)",
                                  {"case": {"marshalseq": {"docs": c["docs"], "formats": c["seq_formats"]}}, "position": j})
                break
    rw = [{"ext": e, "preexisting": p} for e in ("json", "yaml", "toml", "yml", "jsonl", "json-pretty") for p in ("long", "garbage", "none")]
    for c, o in zip(rw, pmap(run_rewrite, rw)):
        rep.case(["rewrite", c], True)
        rep.count("rewrite:" + c["preexisting"])
        if o["rc"] != 0 or o["file"] != o["ref"]:
            rep.violation(f"-o {c['ext']} over an existing file ({c['preexisting']}): the file does not hold exactly the new output",
                          {"case": {"rewrite": c}, "observed": {k: (v[:300] if isinstance(v, str) else v) for k, v in o.items()}})
    cli_stream_stage(rep, [gen_case(rng) for _ in range(60 if rep.tier == "quick" else 1500)])
    # the JSON codec is INSIDE the model (Bkl.Json, theorems C05_json_*): writer and reader compared on text
    import jsoncheck
    jsoncheck.run(rep, rng, 400 if rep.tier == "quick" else 12000, 600 if rep.tier == "quick" else 20000)
    if rep.broken and not rep.violations:
        rep.violation("proof obligation no longer checks: " + "; ".join(b["obligation"] for b in rep.broken), {"broken": rep.broken}, no_input=True)
    rep.assumptions.append("the YAML and TOML per-document codecs (yaml.v3, go-toml/v2) are parameters of the theorems; their round-trip behaviour is what this run "
                           "measures.  The JSON codec is modelled (Bkl.Json) and compared byte for byte; strconv's float parsing/printing stays a parameter (tables jf/fol)")


def replay(rep, payload):
    known_sigs = {}
    c = payload["case"]
    if "clistream" in c:
        before = len(rep.violations)
        cli_stream_stage(rep, [{"docs": c["clistream"]["docs"]}])
        for v in rep.violations[before:]:
            print("disagreement:", v.get("what") if isinstance(v, dict) else v)
        return 1 if len(rep.violations) > before else 0
    if "rewrite" in c:
        o = run_rewrite(c["rewrite"])
        print(o)
        return 1 if (o["rc"] != 0 or o["file"] != o["ref"]) else 0
    if "jsonenc" in c or "jsondec" in c:
        import jsoncheck
        return 1 if (jsoncheck.evaluate_enc(rep, [c["jsonenc"]]) if "jsonenc" in c else jsoncheck.evaluate_dec(rep, [c["jsondec"]])) else 0
    if "docs" in c:
        return 1 if evaluate(rep, [c], known_sigs) else 0
    o = run_selection(c)
    print(o, expected_format(c), classify(o["text"]))
    return 1 if expected_format(c) != classify(o["text"]) else 0
