"""C08 — every invocation terminates with complete output or a reported error."""
import json
import os
import random
import gen
import formats
from cli import pmap, run_cli, bad_shape, write_files, Workdir
from common import proof_step, load_corpus, load_known, run_go, run_model, log
from histcheck import to_op, step_summary, chain_case
from props import c01, c06, c07, c10, c11, c12, c13, c14, c19, c02, c09

PID = "C08"
GENS = [c01.gen_case, c07.gen_case, c10.gen_case, c11.gen_case, c12.gen_case, c13.gen_case, c14.gen_case, c19.gen_case, c02.gen_case, c09.collide_case]
DIRECTIVES = ["$merge", "$replace", "$match", "$value", "$delete", "$output", "$repeat", "$encode", "$decode", "$invert", "$required",
              "$parent", "$path", "$env:HOME", "$\"{a}\"", "$merge:a", "$replace:a.b", "$\"{t}\"",
              # the SHORTEST strings each recogniser accepts (prefix and suffix overlapping, empty arguments)
              "$\"", "$\"\"", "$env:", "$merge:", "$replace:", "$", "$$", "$\"{", "$\"{}\"", "$\"}\"", "$\"{a\"", "$\"é\"", "$\"{é}\""]
ARGS = [None, True, False, 0, 1, -1, 3, 1.5, "", "a", "a.b", "c", [], ["a"], ["a", "b"], {}, {"a": 1}, {"$match": {}}, [[]], [{}],
        "$merge:a", "$\"{a}\"", {"$match": {"a": 1}, "$path": "a"}, [{"a": 1}, "a"], "json", "yaml", "base64", ["join", 1]]


def wild_tree(rng, depth=3):
    r = rng.random()
    if depth <= 0 or r < 0.3:
        return rng.choice(ARGS + DIRECTIVES)
    if r < 0.7:
        out = {}
        for _ in range(rng.randint(0, 4)):
            k = rng.choice(gen.KEYS + DIRECTIVES) if rng.random() < 0.5 else rng.choice(gen.KEYS)
            out[k] = wild_tree(rng, depth - 1) if rng.random() < 0.6 else rng.choice(ARGS)
        return out
    return [wild_tree(rng, depth - 1) for _ in range(rng.randint(0, 3))]


def mutate(rng, v):
    """replace / wrap a random subtree by a directive with an arbitrary argument"""
    ps = list(gen.paths(v))
    p, cur = rng.choice(ps)
    d = rng.choice(DIRECTIVES)
    r = rng.random()
    if r < 0.4:
        new = {d: rng.choice(ARGS)}
    elif r < 0.6 and isinstance(cur, dict):
        new = dict(cur)
        new[d] = rng.choice(ARGS)
    elif r < 0.8:
        new = d
    else:
        new = [cur, {d: rng.choice(ARGS)}]
    if not p:
        return new if isinstance(new, dict) else v
    return gen.set_at(v, p, new)


def cyc_case(rng):
    """reference cycles of every kind"""
    k = rng.randint(1, 4)
    names = gen.KEYS[:k]
    kind = rng.choice(["str-merge", "str-replace", "map-merge", "map-replace", "interp", "self-sub", "mixed", "list-merge"])
    d = {}
    # rho-shaped: a tail of entries that LEADS INTO the cycle without being on it (the walk never comes back to where it started)
    tail = rng.randint(1, 2) if k >= 2 and rng.random() < 0.4 else 0
    if tail:
        # (keys are visited in sorted order and a visited ring is left expanded in place: the tail is reached FIRST only when it
        # sorts before the ring - and last when it sorts after it; both are generated)
        names = [("A%d" if rng.random() < 0.7 else "t%d") % j for j in range(tail)] + list(names)
    bare = rng.random() < 0.5
    for i, n in enumerate(names):
        nxt = names[i + 1] if i + 1 < len(names) else names[tail]
        if kind == "map-merge" and bare:
            d[n] = {"$merge": nxt}
        elif kind == "str-merge":
            d[n] = "$merge:" + nxt
        elif kind == "str-replace":
            d[n] = "$replace:" + nxt
        elif kind == "map-merge":
            d[n] = {"$merge": nxt, "x": i}
        elif kind == "map-replace":
            d[n] = {"$replace": nxt}
        elif kind == "interp":
            d[n] = "$\"<{" + nxt + "}>\""
        elif kind == "list-merge":
            d[n] = [{"$merge": nxt}, i]
        elif kind == "self-sub":
            d[n] = {"$merge": rng.choice(["", n, names[0]]) if rng.random() < 0.7 else [], n: {"q": 1}}
        else:
            d[n] = rng.choice(["$merge:" + nxt, {"$merge": nxt}, {"$replace": nxt}, "$\"{" + nxt + "}\"", [{"$replace": nxt}]])
    if kind == "self-sub" and rng.random() < 0.5:
        d["$merge"] = rng.choice(names)
    return chain_case([d], env=gen.ENV, tail=("outdocs",))


EDGE_COUNTS = [-1, -3, 0, 1, 2, -2**63, -2**31, 1.0, -1.5, "2", "", None, True, [], [2], {}, {"x": -1}, {"x": 0, "y": 2}, {"x": 2, "y": -2},
               {"x": "a"}, {"": 1}, {"x": None}, {"x": 1.0}]


def repeat_edge_case(rng):
    """$repeat with edge counts (negative, zero, wrong type, empty / negative named maps) at document level,
    on a list element and on a map value; references to the index before and after the expansion"""
    body = {"v": rng.choice(["$repeat", "$\"{$repeat}\"", "$\"{$repeat:x}-{$repeat:y}\"", 1]), "$repeat": rng.choice(EDGE_COUNTS)}
    where = rng.choice(["doc", "list", "map", "list-in-list", "both"])
    if where == "doc":
        d = dict(body, z="$\"{v}\"")
    elif where == "list":
        d = {"l": [0, body, "x"], "z": rng.choice([1, "$\"{l}\""])}
    elif where == "map":
        d = {"m": {"k": body, "j": 1}, "z": 1}
    elif where == "list-in-list":
        d = {"l": [[body], [dict(body)]]}
    else:
        d = {"$repeat": rng.choice([2, 0, -1]), "a": [dict(body)], "z": "$repeat"}
    layers = [d]
    if rng.random() < 0.3:
        # an upper layer patches the count
        layers.append({"l": [{"$match": {"v": body["v"]}, "$repeat": rng.choice(EDGE_COUNTS)}]} if where == "list" else {"zz": 1})
    return chain_case(layers, env=gen.ENV)


def multi_interp_case(rng):
    """several placeholders in one string where some fail (cycle / missing) and others resolve, in every order"""
    names = gen.KEYS[:rng.randint(2, 4)]
    d = {}
    for n in names:
        refs = [rng.choice(names + ["nosuch", "$env:HOME", "$env:NOSUCH", "k"]) for _ in range(rng.randint(1, 3))]
        d[n] = "$\"" + "".join(rng.choice(["", "-", "<"]) + "{" + r + "}" for r in refs) + "\""
    d["k"] = rng.choice(["x", 1, "$\"{k}\"", "$merge:k"])
    return chain_case([d], env=gen.ENV, tail=("outdocs",))


def decode_edge_case(rng):
    """$decode with edge texts in every format (no document, several documents, blank, invalid, a bare scalar)"""
    f = rng.choice(["json", "jsonl", "json-pretty", "yaml", "yml", "toml", "nosuch", ""])
    t = rng.choice(["", " ", "\n", "null", "[]", "{}", "1 2", "{} {}", "---", "---\n---", "a: 1\n---\nb: 2", "a = 1\n---\n", "{", "]", "\t", "# c", "~",
                    "a: &x [*x]", 5, None, ["{}"], {"a": 1}])
    node = {"$decode": f, "$value": t}
    if rng.random() < 0.2:
        node["extra"] = 1
    d = {"d": node} if rng.random() < 0.7 else {"d": [node, {"$decode": f}]}
    return chain_case([d], env=gen.ENV, tail=("outdocs",))


def gen_case(rng):
    r = rng.random()
    if r < 0.04:
        return decode_edge_case(rng)
    if r < 0.08:
        return repeat_edge_case(rng)
    if r < 0.16:
        return multi_interp_case(rng)
    if r < 0.3:
        return cyc_case(rng)
    if r < 0.5:
        layers = [wild_tree(rng, rng.randint(2, 4)) for _ in range(rng.randint(1, 3))]
        layers = [l if isinstance(l, dict) else {"w": l} for l in layers]
        return chain_case(layers, env=gen.ENV)
    c = rng.choice(GENS)(rng)
    steps = []
    for s in c["steps"]:
        if "merge" in s and rng.random() < 0.6:
            m = dict(s["merge"])
            for _ in range(rng.randint(1, 2)):
                try:
                    m["data"] = mutate(rng, m["data"])
                except Exception:
                    pass
            steps.append({"merge": m})
        else:
            steps.append(s)
    return {"steps": steps, "env": c.get("env") or {}}


# known-finding signature (= negation of the hypothesis of C08_no_branching_partial)
def _ref_path(ref):
    if isinstance(ref, str):
        if ref == "":
            return ("",)
        if ref.startswith("["):
            inner = ref.strip("[] ")
            return tuple(x.strip() for x in inner.split(",")) if inner else ()
        return tuple(ref.split("."))
    if isinstance(ref, list) and all(isinstance(x, str) for x in ref):
        return tuple(ref)
    return None


def self_containing_hosts(doc):
    """number of map $merge hosts that lie on a reference CYCLE: the host's target contains the host itself, directly
    (`a: {x: {$merge: a}}`) or through further hosts (`b: {$merge: c}`, `c: {p: {$merge: b}, q: {$merge: b}}`)"""
    hosts = []
    for p, x in gen.paths(doc):
        if isinstance(x, dict) and "$merge" in x and all(isinstance(k, str) for k in p):
            t = _ref_path(x["$merge"])
            if t is not None:
                hosts.append((tuple(p), t))
    # edge h -> h' when h' lies inside the subtree h refers to; STRICT when h' lies properly inside it (the expansion then carries
    # a copy of h' along with its surroundings - that is what makes the work grow; a plain ring `a: {$merge: b}`, `b: {$merge: a}`,
    # where every target IS the next host, only goes round and is stopped by the depth guard)
    succ = {i: [(j, len(pj) > len(t)) for j, (pj, _) in enumerate(hosts) if pj[:len(t)] == t] for i, (_, t) in enumerate(hosts)}
    n = 0
    for i in succ:
        # a cycle through i that uses at least one strict edge: search over (host, strict edge seen)
        seen, todo, hit = set(), [(j, st) for j, st in succ[i]], False
        while todo and not hit:
            j, st = todo.pop()
            if j == i and st:
                hit = True
                break
            if (j, st) not in seen:
                seen.add((j, st))
                todo.extend((k, st or st2) for k, st2 in succ[j])
        if hit:
            n += 1
    return n


def count_refs(doc):
    s = json.dumps(doc)
    return s.count('"$merge') + s.count('"$replace')


def sig_branching_self_reference(case):
    """>= 1 map $merge host whose target contains the host itself, and >= 2 references in the document
    (copies of the other hosts arrive inside every expansion, so the work branches)"""
    return any(self_containing_hosts(st["merge"]["data"]) >= 1 and count_refs(st["merge"]["data"]) >= 2
               for st in case["steps"] if "merge" in st)


def sig_huge_repeat(case):
    """a `$repeat` somewhere and an integer >= 100000 somewhere (possibly reached through a reference): the requested
    work is simply large; running out of the time budget on it is not a hang"""
    def big(v):
        if isinstance(v, bool):
            return False
        if isinstance(v, int):
            return abs(v) >= 100000
        if isinstance(v, dict):
            return any(big(x) for x in v.values())
        if isinstance(v, list):
            return any(big(x) for x in v)
        return False
    return any("$repeat" in json.dumps(st["merge"]["data"]) and big(st["merge"]["data"]) for st in case["steps"] if "merge" in st)


def library_run(rep, cases, known):
    ops = [to_op(c, i) for i, c in enumerate(cases)]
    go = run_go(ops, timeout_ms=10000, mem_mb=1500)
    # the model is total by construction; only the implementation can crash.  The model is also the judge of
    # "cycles of every kind are reported as errors": ok/err status and values are compared like in every other check.
    mo = run_model(ops)
    bad = []
    for i, c in enumerate(cases):
        g = go.get(i)
        summ = step_summary(g)
        rep.case(c["steps"], "$" in json.dumps(c["steps"]), sample={"docs": [s["merge"]["data"] for s in c["steps"] if "merge" in s], "impl": summ})
        rep.count("lib:" + summ[:40])
        rep.traces += 1
        kind = None
        for k in ("panic", "stack_overflow", "oom", "timeout", "crash"):
            if g is None or k in (g or {}):
                kind = k if g is not None else "missing"
                break
        if kind:
            bad.append((c, g, mo.get(i), kind))
        else:
            from common import compare_hist
            d, unm = compare_hist(g, mo.get(i))
            if unm:
                rep.count("unmodelled_steps", unm)
            if d:
                bad.append((c, g, mo.get(i), "DIFF " + d))
    return bad


def file_cases(rng, n):
    """byte strings as .json/.toml/.yaml files and $parent graphs, through the real CLIs"""
    out = []
    seeds = ['{"a": 1}', '{"a": {"$merge": "b"}, "b": {"c": [1,2]}}', 'a = 1\n[b]\nc = "x"\n', 'a: 1\nb: [1, 2]\n', '[1, {"$output": true}]',
             '{"$repeat": 3, "a": "$repeat"}', 'a: &x [*x]\n', '&m {k: *m}\n', 'a: &m {<<: *m, b: 1}\nc: *m\n', '{"a": "$\\"{a}\\""}', 'a: &x {b: 1}\nc: *x\n', 'a: !!binary aGk=\n', '---\n---\n', 'null', '"s"', '1e400']
    FAILING = [{"b": "$required"}, {"a": "$\"{a}\""}, {"x": {"$encode": "nosuch", "$value": 1}}, {"x": {"$merge": "nosuch"}}, {"e": "$env:BKL_UNSET_VAR"},
               {"a": "$\"{b}\"", "b": "$\"{a}\""}, {"x": {"$decode": "json", "$value": "{"}}, {"l": [{"$repeat": "x"}]}, {"$output": 5, "k": 1},
               {"x": {"$merge": "x"}}]
    # the tools on inputs that evaluate to NO document or to SEVERAL: every tool x every odd document x every argument position
    ODD = [{"$repeat": 0, "a": 1}, {"$repeat": 2, "a": "$repeat"}, {"$output": False, "a": 1},
           {"x": {"$output": True, "v": 1}, "y": {"$output": True, "v": 2}}, {"$repeat": {"i": 0}, "a": 1}]
    for tool in ("bkld", "bkli", "bklr"):
        for odd in ODD:
            files = {"f.yaml": formats.dump_yaml([odd]), "g.yaml": formats.dump_yaml([{"a": 1, "l": [1, 2]}])}
            for args in ([["f.yaml", "g.yaml"], ["g.yaml", "f.yaml"], ["f.yaml", "f.yaml"]] if tool != "bklr" else [["f.yaml"]]):
                out.append({"kind": "tool-document-count", "files": files, "tool": tool, "args": args})
    for _ in range(n):
        r = rng.random()
        if rng.random() < 0.06:
            # a good document and an output destination whose format cannot be determined or written: a diagnostic, not a crash
            tool = rng.choice(["bkl", "bkl", "bkld", "bkli", "bklr"])
            dest = rng.choice(["out.txt", "out", "out.", "out.JSON", "out.yaml.bak", ".json", "nosuchdir/out.json", "out.ini", "."])
            files = {"f.yaml": formats.dump_yaml([{"a": 1, "l": [1, 2]}]), "g.yaml": formats.dump_yaml([{"a": 2}])}
            args = ["-o", dest] + (["f.yaml", "g.yaml"] if tool in ("bkld", "bkli") else ["f.yaml"])
            if rng.random() < 0.3:
                args = ["-f", rng.choice(["json", "yaml", "toml"])] + args
            out.append({"kind": "output-destination", "files": files, "tool": tool, "args": args})
            continue
        if rng.random() < 0.05:
            # the tools on inputs that evaluate to NO document or to SEVERAL ($repeat: 0 / 2, several $output selections, a
            # hidden root): they work on exactly one document per file - a diagnostic, never an index out of range
            tool = rng.choice(["bkld", "bkli", "bklr", "bkld"])
            odd = rng.choice([{"$repeat": 0, "a": 1}, {"$repeat": 2, "a": "$repeat"}, {"$output": False, "a": 1},
                              {"x": {"$output": True, "v": 1}, "y": {"$output": True, "v": 2}}, {"$repeat": {"i": 0}, "a": 1}])
            plain = {"a": 1, "l": [1, 2]}
            files = {"f.yaml": formats.dump_yaml([odd]), "g.yaml": formats.dump_yaml([plain]), "h.yaml": formats.dump_yaml([odd, plain])}
            first = rng.choice(["f.yaml", "g.yaml", "h.yaml"])
            second = rng.choice(["f.yaml", "g.yaml", "h.yaml"])
            args = [first, second] if tool in ("bkld", "bkli") else [first]
            out.append({"kind": "tool-document-count", "files": files, "tool": tool, "args": args})
            continue
        if r < 0.12:
            # a stream whose EARLIER documents evaluate fine and a LATER one fails in the output phase: all or nothing
            k = rng.randint(2, 4)
            docs = [{"ok%d" % i: rng.choice([1, "v", [1, 2], {"n": i}])} for i in range(k)]
            bad_at = rng.randrange(1, k) if rng.random() < 0.85 else 0
            docs[bad_at] = dict(rng.choice(FAILING), **({"tag": bad_at} if rng.random() < 0.5 else {}))
            if rng.random() < 0.2:
                docs[rng.randrange(k)]["rep"] = {"$repeat": 2, "i": "$repeat"}
            ext = rng.choice(["yaml", "json", "toml", "yaml"])
            if ext == "toml" and not all(formats.toml_ok(d) for d in docs):
                ext = "yaml"
            args = ["f." + ext]
            if rng.random() < 0.4:
                args = ["-f", rng.choice(["json", "yaml", "toml", "json-pretty", "jsonl"])] + args
            if rng.random() < 0.25:
                args = ["-o", "out." + rng.choice(["json", "yaml", "toml"])] + args
            out.append({"kind": "stream-late-failure", "files": {"f." + ext: formats.dump(ext, docs)}, "tool": "bkl", "args": args})
            continue
        if r < 0.7:
            s = rng.choice(seeds)
            b = bytearray(s.encode())
            for _ in range(rng.randint(0, 4)):
                q = rng.random()
                if q < 0.3 and b:
                    b[rng.randrange(len(b))] = rng.randrange(256)
                elif q < 0.5 and b:
                    del b[rng.randrange(len(b))]
                elif q < 0.8:
                    b.insert(rng.randint(0, len(b)), rng.choice(b'{}[]":,$\\\n\t -+.eE0123456789#&*!|>%@`\x00\xff'))
                else:
                    i = rng.randint(0, len(b))
                    b[i:i] = rng.choice([b'{"a":', b'[', b'"$merge":"a"', b'---\n', b'\xef\xbb\xbf', b'9' * 30, b'[' * 50, b'{"a":' * 30])
            ext = rng.choice(["json", "toml", "yaml"])
            tool = rng.choice(["bkl", "bkl", "bklr", "bkld", "bkli"])
            out.append({"kind": "bytes", "files": {"f." + ext: bytes(b)}, "tool": tool,
                        "args": ["f." + ext] + (["f." + ext] if tool in ("bkld", "bkli") else [])})
        else:
            # small digraph of files related by $parent
            k = rng.randint(1, 4)
            files = {}
            for i in range(k):
                ps = [f"g{rng.randrange(k)}" for _ in range(rng.randint(0, 2))]
                doc = {"n%d" % i: i}
                if ps:
                    doc["$parent"] = ps[0] if len(ps) == 1 and rng.random() < 0.5 else ps
                files[f"g{i}.yaml"] = formats.dump_yaml([doc])
            out.append({"kind": "parent-graph", "files": files, "tool": "bkl", "args": ["g0.yaml"]})
    return out


def run_file_case(c):
    with Workdir() as d:
        write_files(d, c["files"])
        r = run_cli(c["tool"], c["args"], d, timeout=20)
        shape = bad_shape(r)
        if not shape and r["rc"] not in (0, None) and "-o" in c["args"]:
            # a failed run leaves nothing in the file it was asked to write
            op = os.path.join(d, c["args"][c["args"].index("-o") + 1])
            if os.path.isfile(op) and os.path.getsize(op) > 0:
                shape = "non-zero exit with partial output left in the -o file"
        return {"rc": r["rc"], "out": r["out"][:300], "err": r["err"][:400], "shape": shape}


def run(rep):
    rep.rule = ("library level: inputs of the other generators mutated by inserting directives with arbitrary argument types at arbitrary "
                "positions, wild trees of directives, reference cycles of every kind ($merge/$replace strings and maps, interpolation, "
                "subtree merged into itself, list forms), 1-3 layers, evaluated to output in-process with panic recovery, stack, memory "
                "and time limits; CLI level: mutated byte strings as .json/.toml/.yaml files through bkl/bkld/bkli/bklr and small "
                "$parent digraphs (exit status, stdout, stderr, wall time); the Lean model is total, so any crash/hang of the "
                "implementation is a disagreement; non-trivial = contains a directive (library) / every CLI case")
    rep.proof, rep.broken = proof_step(PID)
    rng = random.Random(rep.seed)
    known = load_known()
    n = 5000 if rep.tier == "quick" else 150000
    nf = 1200 if rep.tier == "quick" else 40000
    cases = [c for _, c in load_corpus(PID) if "steps" in c] + [gen_case(rng) for _ in range(n)]
    bad = library_run(rep, cases, known)
    open_sigs = {k["signature"]: k for k in known.get("open", []) if k.get("property") == PID}
    for c, g, m, kind in bad:
        if kind in ("oom", "timeout") and sig_huge_repeat(c) and (m or {}).get("model_budget"):
            rep.count("skipped: huge $repeat count (model exceeds its budget too)")
            continue
        if "c08.branching_self_reference" in open_sigs and kind in ("oom", "timeout") and sig_branching_self_reference(c):
            rep.known_finding("KF-C08-1", f"{kind} instead of a circular-reference error (branching self-reference)")
            continue
        if len(rep.violations) < 4:
            rep.disagreements_checked += 1
            if kind.startswith("DIFF "):
                rep.violation(f"result differs from the (total) model: {kind[5:]}", {"case": c, "impl": g, "model": m})
            else:
                rep.violation(f"implementation {kind} (the model terminates with {step_summary(m)})", {"case": c, "impl": g, "model": m})
    fcs = [dict(c, files={k: v.encode("latin1") for k, v in c["files"].items()}) for _, c in load_corpus(PID) if "files" in c]
    fcs += file_cases(rng, nf)
    res = pmap(run_file_case, fcs)
    for c, o in zip(fcs, res):
        rep.case({"files": {k: (v.decode("latin1") if isinstance(v, bytes) else v) for k, v in c["files"].items()}, "tool": c["tool"]}, True,
                 sample=None)
        rep.count(f"cli:{c['tool']}:{c['kind']}:rc{o['rc']}")
        if o["shape"]:
            if len(rep.violations) < 6:
                rep.violation(f"{c['tool']}: {o['shape']}", {"case": {"files": {k: (v.decode('latin1') if isinstance(v, bytes) else v) for k, v in c["files"].items()},
                                                                          "tool": c["tool"], "args": c["args"], "kind": c["kind"], "latin1": True}, "observed": o})
    # replay the stored witness of every open finding
    for sig, k in open_sigs.items():
        w = k.get("witness")
        if w and "steps" in w:
            g = run_go([to_op(w, 0)], timeout_ms=10000, mem_mb=1500).get(0)
            still = g is None or any(x in (g or {}) for x in ("oom", "timeout", "crash", "stack_overflow", "panic"))
            rep.known_finding(k["id"], k["what_fails"] + ("" if still else " (witness no longer fails)"))
    if rep.broken and not rep.violations:
        rep.violation("proof obligation no longer checks: " + "; ".join(b["obligation"] for b in rep.broken), {"broken": rep.broken}, no_input=True)
    rep.assumptions.append("stack exhaustion, memory exhaustion and hangs are runtime behaviour the Lean model cannot exhibit; they are found by running")


def replay(rep, payload):
    c = payload["case"]
    if "steps" in c:
        g = run_go([to_op(c, 0)], timeout_ms=10000, mem_mb=1500).get(0)
        m = run_model([to_op(c, 0)]).get(0)
        print("impl :", g)
        print("model:", m)
        if g is None or any(x in g for x in ("oom", "timeout", "crash", "stack_overflow", "panic")):
            return 1
        from common import compare_hist
        d, _ = compare_hist(g, m)
        print("disagreement:", d)
        return 1 if d else 0
    files = {k: (v.encode("latin1") if c.get("latin1") else v) for k, v in c["files"].items()}
    o = run_file_case({"files": files, "tool": c["tool"], "args": c["args"]})
    print(o)
    return 1 if o["shape"] else 0
