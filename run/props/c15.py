"""C15 — bkld round trip: base + bkld(base, target) evaluates to target."""
import random
import formats
from cli import run_cli, write_files, Workdir, pmap, bad_shape
from common import proof_step, load_corpus, run_model, log
from props.toolscommon import edit_pair, FMTS
from wire import to_wire, from_wire

PID = "C15"


def run_one(case):
    """Materialise, run bkld then bkl. Returns dict with everything observed."""
    base, target, f1, f2 = case["base"], case["target"], case["f1"], case["f2"]
    with Workdir() as d:
        write_files(d, {"a." + f1: formats.dump(f1, [base]), "t." + f2: formats.dump(f2, [target])})
        r = run_cli("bkld", ["a." + f1, "t." + f2], d)
        obs = {"bkld": {k: r[k] for k in ("rc", "out", "err")}}
        shape = bad_shape(r)
        if shape or r["rc"] != 0:
            obs["fail"] = f"bkld failed: {shape or r['err'][:200]}"
            return obs
        try:
            layer = formats.load_all(f1, r["out"])
        except Exception as e:
            obs["fail"] = f"bkld output is not valid {f1}: {e}"
            return obs
        obs["layer"] = layer
        write_files(d, {"a.b." + f1: r["out"]})
        r2 = run_cli("bkl", ["-f", "json", "a.b." + f1], d)
        obs["bkl"] = {k: r2[k] for k in ("rc", "out", "err")}
        if r2["rc"] != 0:
            obs["fail"] = f"bkl rejects the emitted layer: {r2['err'][:200]}"
            return obs
        got = formats.json_load_all(r2["out"])
        obs["got"] = got
        if len(got) != 1 or not formats.same(got[0], target, kinds=True):
            obs["fail"] = "base + bkld(base, target) does not evaluate to target"
        elif formats.same(base, target, kinds=True):
            nonempty = [x for x in layer if x not in (None, {})]
            if nonempty:
                obs["fail"] = "base and target are equal but the emitted layer is not empty"
        return obs


def gen_case(rng):
    base, target = edit_pair(rng)
    f1, f2 = rng.choice(FMTS), rng.choice(FMTS)
    return {"base": base, "target": target, "f1": f1, "f2": f2}


def model_check(cases, obs):
    """exact correspondence of the emitted layer with the model's diffDoc, and the model applying the real layer"""
    ops = []
    for i, c in enumerate(cases):
        ops.append({"op": "diff", "id": f"d{i}", "target": to_wire(c["target"]), "base": to_wire(c["base"])})
        o = obs[i]
        if "layer" in o and len(o["layer"]) == 1:
            ops.append({"op": "hist", "id": f"a{i}", "steps": [
                {"merge": {"id": "B", "parents": [], "data": to_wire(c["base"])}},
                {"merge": {"id": "L", "parents": ["B"], "data": to_wire(o["layer"][0])}},
                {"outdocs": True}]})
    return run_model(ops)


def evaluate(rep, cases):
    obs = pmap(run_one, cases)
    mres = model_check(cases, obs)
    nbad = 0
    mismatch = 0
    for i, (c, o) in enumerate(zip(cases, obs)):
        nontrivial = not formats.same(c["base"], c["target"])
        rep.case(c, nontrivial, sample={"base": c["base"], "target": c["target"], "formats": [c["f1"], c["f2"]], "layer": o.get("layer")})
        rep.count("bkld_rc:%s" % o["bkld"]["rc"])
        rep.traces += 1
        fail = o.get("fail")
        # the model's own merge applies the real layer (relation check, DESIGN §3.2)
        a = mres.get(f"a{i}")
        if not fail and a and "res" in a:
            last = a["res"][-1]
            if "ok" not in last or [from_wire(x) for x in last["ok"]] != [c["target"]]:
                if not ("ok" in last and len(last["ok"]) == 1 and formats.same(from_wire(last["ok"][0]), c["target"], kinds=True)):
                    fail = "the model's merge applied to the real layer does not give target (model/implementation merge disagree)"
        if fail:
            nbad += 1
            if len(rep.violations) < 4:
                rep.disagreements_checked += 1
                rep.violation(fail, {"case": c, "observed": o})
            continue
        m = mres.get(f"d{i}")
        if m is not None and "layer" in o:
            want = None if "none" in m else from_wire(m["ok"]) if "ok" in m else "?"
            got = o["layer"][0] if len(o["layer"]) == 1 else o["layer"]
            if got in ({}, []) and want is None:
                got = None
            if not (want is None and got is None) and not (want is not None and got is not None and formats.same(want, got, kinds=True)):
                mismatch += 1
                rep.count("layer_differs_from_model_diff")
                if mismatch <= 3:
                    rep.extra.setdefault("model_diff_mismatch_samples", []).append({"case": c, "impl_layer": got, "model_layer": want})
    return nbad, mismatch


def run(rep):
    rep.rule = ("pairs (base, edit(base)) of map-rooted, null-free, $-free trees: keys added/removed/changed at any depth, list entries "
                "added/removed/reordered/duplicated, removed entries that are partial matches of kept ones, containers changing kind; "
                "base and target written by independent Python writers in any mix of YAML/JSON/TOML; real bkld then real bkl; the model "
                "applies the real layer and the real layer is compared with the model's diffDoc; non-trivial = base != target")
    rep.proof, rep.broken = proof_step(PID)
    rng = random.Random(rep.seed)
    n = 1200 if rep.tier == "quick" else 40000
    cases = [c for _, c in load_corpus(PID)] + [gen_case(rng) for _ in range(n)]
    # small scope: (base, target) over ALL map-rooted trees of at most 3 nodes with int / string / float atoms, lists and
    # maps - every kind change, every add/remove, every list edit at that size (quick: a sample of the 4356 pairs)
    import gen as _g
    small = [t for t in _g.enum_trees(3, [1, "x", 1.5], ["a", "b"], 2) if isinstance(t, dict)]
    pairs = [(b, t) for b in small for t in small]
    if rep.tier == "quick":
        pairs = random.Random(rep.seed + 31).sample(pairs, 700)
    cases += [{"base": b, "target": t, "f1": rng.choice(FMTS), "f2": rng.choice(FMTS), "small_scope": True} for b, t in pairs]
    rep.extra["small_scope_pairs"] = len(pairs)
    nbad, mismatch = evaluate(rep, cases)
    from props.toolscommon import tool_cli_stage
    tool_cli_stage(rep, "bkld", random.Random(rep.seed + 909), 150 if rep.tier == "quick" else 5000)
    if (mismatch or rep.broken) and not rep.violations:
        # correspondence with the proved model broke (or a proof did): search harder for a failing round trip
        extra = [gen_case(rng) for _ in range(3000)]
        nbad2, _ = evaluate(rep, extra)
        if nbad2 == 0:
            what = []
            if mismatch:
                what.append(f"emitted layer differs from the model's diffDoc on {mismatch} cases (theorem C15_roundtrip no longer covers the code)")
            what += [b["obligation"] for b in rep.broken]
            rep.violation("; ".join(what), {"broken": rep.broken, "samples": rep.extra.get("model_diff_mismatch_samples")}, no_input=True)


def replay_toolcli(rep, payload):
    import fscheck
    from props.toolscommon import model_ops
    c = payload["case"]["toolcli"]
    obs, op = fscheck.run_case(c, tool="bkld")
    m = model_ops([{"op": "toolcli", "id": 0, "tool": "bkld", "entries": op["entries"], "cwd": op["cwd"], "env": {}, "opts": op["opts"]}]).get(0)
    print(obs)
    print(m)
    return 1


def replay_toolcli(rep, payload):
    import fscheck
    from props.toolscommon import model_ops
    c = payload["case"]["toolcli"]
    obs, op = fscheck.run_case(c, tool="bkld")
    m = model_ops([{"op": "toolcli", "id": 0, "tool": "bkld", "entries": op["entries"], "cwd": op["cwd"], "env": {}, "opts": op["opts"]}]).get(0)
    print(obs)
    print(m)
    return 1


def replay(rep, payload):
    if "toolcli" in payload.get("case", {}):
        return replay_toolcli(rep, payload)
    if "toolcli" in payload.get("case", {}):
        return replay_toolcli(rep, payload)
    o = run_one(payload["case"])
    print(o)
    return 1 if o.get("fail") else 0
