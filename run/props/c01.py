"""C01 — layer merge follows the documented merge rules (determined property: the model is the judge)."""
import os
import random
import gen
from common import proof_step, load_corpus, log
from histcheck import chain_case, run_cases, shrink_case, step_summary, alias_search, alias_verdict

PID = "C01"


def multi_hit_then_appends(rng):
    """one list `$match` hits SEVERAL entries and hands each a container (a flat list of 3, 5, 6 or 7 scalars: room for one
    more entry in its backing array; or a map); later layers then edit that container in two different entries.  Every entry
    must keep what only IT was given."""
    names = ["x", "x", rng.choice(["x", "y"])]
    base = {"l": [{"name": n, "k": i} for i, n in enumerate(names)], "other": 1}
    flat = [rng.choice(["a", "b", 1, 2.5, True]) for _ in range(rng.choice([3, 5, 6, 7, 2, 4]))]
    payload = rng.choice([{"tags": flat}, {"tags": flat, "m": {"q": 1}}, {"m": {"q": [1, 2, 3]}}])
    first = {"l": [dict({"$match": {"name": "x"}}, **gen.deep(payload))]} if rng.random() < 0.6 else \
            {"l": [{"$match": {"name": "x"}, "$value": gen.deep(payload)}]}
    key = "tags" if "tags" in payload else "m"
    def edit(i, mark):
        v = [mark] if key == "tags" else {"q": [mark]} if isinstance(payload["m"]["q"], list) else {"z": mark}
        return {"l": [{"$match": {"k": i}, key: v}]}
    layers = [base, first, edit(0, "p")]
    if rng.random() < 0.8:
        layers.append(edit(1, "q"))
    return chain_case(layers, tail=("docs", "alias", "outdocs"))


def gen_case(rng):
    if rng.random() < 0.03:
        return multi_hit_then_appends(rng)
    base = gen.map_tree(rng, depth=rng.randint(2, 4))
    if rng.random() < 0.3:
        base = gen.with_required(rng, base, 0.15)
    layers = [base]
    cur = base
    for _ in range(rng.randint(1, 3)):
        p = gen.patch_for(rng, cur, depth=3)
        if not isinstance(p, dict) and rng.random() < 0.9:
            p = {k: gen.patch_for(rng, v) for k, v in list(cur.items())[:2]} if isinstance(cur, dict) else p
        layers.append(p)
        # next patch is written against the base again or against the previous patch
        if isinstance(p, dict) and rng.random() < 0.3:
            cur = p
    return chain_case(layers, tail=("docs", "alias", "outdocs"))


def nontrivial(case, go):
    ls = [s["merge"]["data"] for s in case["steps"] if "merge" in s]
    if go and "res" in go and any("err" in s for s in go["res"]):
        return True
    a, b = ls[0], ls[1]
    return isinstance(a, dict) and isinstance(b, dict) and bool(set(a) & set(b))


def evaluate(rep, cases, shrink_budget=120):
    results = run_cases(cases)
    bad = []
    for case, go, mo, d, unm in results:
        rep.case(case["steps"], nontrivial(case, go), sample={"layers": [s["merge"]["data"] for s in case["steps"] if "merge" in s], "impl": step_summary(go)})
        rep.count("impl:" + step_summary(go)[:60])
        rep.traces += 1
        if unm:
            rep.count("unmodelled_steps", unm)
        if d:
            bad.append((case, go, mo, d))
    for c, g, m, d in alias_search(rep, results):
        bad.append((dict(c, noshrink=True), g, m, d))
    for case, go, mo, d in bad[:5]:
        rep.disagreements_checked += 1
        small = case if case.get("noshrink") else shrink_case(case, budget=shrink_budget)
        r = run_cases([small])[0]
        rep.violation(f"merge result differs from the documented rules: {r[3] or d}",
                      {"case": small, "impl": r[1], "model": r[2], "original_case": case})
    if len(bad) > 5:
        rep.count("further_disagreements_not_shrunk", len(bad) - 5)
    return len(bad)


def file_chain_cases(rng, n):
    """the same layer chains as files (`a.json` <- `a.l1.yaml` <- ...), evaluated by the command line: the loader and the filename
    inheritance are the glue between the layers on disk and the merge rules; a layer whose whole document is null changes nothing"""
    import fscheck
    from props.toolscommon import fix_floats
    out = []
    while len(out) < n:
        c = gen_case(rng)
        layers = [fix_floats(s["merge"]["data"]) for s in c["steps"] if "merge" in s]
        if rng.random() < 0.35:
            layers.insert(rng.randrange(1, len(layers)) if rng.random() < 0.8 else rng.randrange(0, len(layers) + 1), None)
        if rng.random() < 0.3:
            # every integer of the chain moved beyond 32 bits by ONE injective map (equalities between the layers are preserved):
            # the readers of the formats hand such integers over as different Go kinds before normalisation
            def widen(v):
                if isinstance(v, bool):
                    return v
                if isinstance(v, int) and abs(v) < 2**31:
                    return v + 5000000000 if v >= 0 else v - 5000000000
                if isinstance(v, dict):
                    return {k: widen(x) for k, x in v.items()}
                if isinstance(v, list):
                    return [widen(x) for x in v]
                return v
            layers = [widen(l) for l in layers]
        share = rng.random() < 0.5
        if share and isinstance(layers[0], dict) and len(layers[0]) >= 1:
            # the base repeats one of its subtrees under further keys (written with a YAML anchor and aliases)
            k0 = rng.choice(sorted(layers[0]))
            layers[0] = dict(layers[0], zz1=layers[0][k0], zz2={"in": layers[0][k0]})
            # ... and the upper layers edit the subtree at ONE of its places (the anchor's or an alias's): the others keep their value
            for i in range(1, len(layers)):
                if isinstance(layers[i], dict) and k0 in layers[i]:
                    r = rng.random()
                    if r < 0.4:
                        layers[i] = {("zz1" if k == k0 else k): v for k, v in layers[i].items()}
                    elif r < 0.7:
                        layers[i] = {("zz2" if k == k0 else k): ({"in": v} if k == k0 else v) for k, v in layers[i].items()}
        layout, top = fscheck.chain_layout(rng, layers, exts=("json", "yaml", "jsonl", "yml", "toml", "json"), share=share)
        out.append({"layout": layout, "opts": {"inputs": [top], "format": "json"}, "meta": {"kind": ("null-layer" if None in layers else "plain") + ("+anchors" if share else "")}})
    return out


def file_chain_stage(rep, rng, n):
    import fscheck
    return fscheck.file_chain_stage(rep, file_chain_cases(rng, n))


def run(rep):
    rep.rule = ("chains of 2-4 single-document layers (file-style parent links) over a 5-key alphabet with every "
                "override directive at legal and misplaced positions; non-trivial = parent and first child are maps "
                "sharing a key, or some step is rejected; distinct = distinct canonical step lists; the same chains as layer FILES "
                "(json/yaml/yml/jsonl, a null-rooted layer at any position) evaluated by the command line against the model of loader + merge")
    rep.proof, rep.broken = proof_step(PID)
    rng = random.Random(rep.seed)
    n = 4000 if rep.tier == "quick" else 120000
    cases = [c for _, c in load_corpus(PID)]
    ncorp = len(cases)
    nbad = 0
    chunk = 20000
    cases += [gen_case(rng) for _ in range(min(n, chunk))]
    nbad += evaluate(rep, cases)
    done = min(n, chunk)
    while done < n and nbad == 0:
        cs = [gen_case(rng) for _ in range(min(chunk, n - done))]
        done += len(cs)
        nbad += evaluate(rep, cs)
    rep.extra["corpus_cases"] = ncorp
    if rep.tier == "quick" and nbad == 0:
        # the thorough tier's small-scope enumeration, sampled: parent values of <= 3 nodes under key `a` against child values
        # of <= 3 nodes over atoms of every kind and ALL override directives as keys
        D = gen.enum_trees(3, [1, "x", 1.0, "1"], ["b"])
        P3 = gen.enum_trees(3, [1, "x", 1.0, "1", "$delete", "$replace", True, None], ["b", "$match", "$delete", "$value", "$replace", "$invert"])
        pairs = random.Random(rep.seed + 5).sample([(d, s_) for d in D for s_ in P3], 3000)
        rep.extra["small_scope_pairs_sampled"] = len(pairs)
        nbad += evaluate(rep, [chain_case([{"a": d, "k": 1}, {"a": s_}], tail=("docs", "alias", "outdocs")) for d, s_ in pairs], shrink_budget=40)
    if rep.tier == "thorough" and nbad == 0:
        # small-scope exhaustive enumeration (additional correspondence, not the proof): every parent value of <= 3 nodes
        # under key `a` against every child value of <= 3 nodes over atoms and ALL override directives as keys,
        # plus a random tenth of the <= 4 node children
        D = gen.enum_trees(3, [1, "x"], ["b"])
        atoms = [1, "x", "$delete", "$replace", True, None]
        keys = ["b", "$match", "$delete", "$value", "$replace"]
        P3 = gen.enum_trees(3, atoms, keys)
        P4 = [t for t in gen.enum_trees(4, atoms, keys) if gen.size(t) == 4]
        rng2 = random.Random(rep.seed + 5)
        P4 = rng2.sample(P4, min(len(P4), 4000))
        pairs = [(d, s) for d in D for s in P3] + [(d, s) for d in D for s in P4]
        rep.extra["exhaustive_pairs"] = len(D) * len(P3)
        rep.extra["sampled_4node_pairs"] = len(D) * len(P4)
        for i in range(0, len(pairs), 40000):
            cs = [chain_case([{"a": d, "k": 1}, {"a": s}], tail=("docs", "alias", "outdocs")) for d, s in pairs[i:i + 40000]]
            nbad += evaluate(rep, cs, shrink_budget=40)
            if nbad:
                break
    if nbad == 0:
        nbad += file_chain_stage(rep, rng, 300 if rep.tier == "quick" else 6000)
    alias_verdict(rep)
    if rep.broken and not rep.violations:
        # a proof obligation broke but no failing input was found: extra targeted budget, then report
        extra = [gen_case(rng) for _ in range(6000)]
        if evaluate(rep, extra) == 0:
            rep.violation("proof obligation no longer checks: " + "; ".join(b["obligation"] for b in rep.broken),
                          {"broken": rep.broken}, no_input=True)


def replay(rep, payload):
    case = payload["case"]
    if "filechain" in case:
        import fscheck
        return fscheck.file_chain_replay(case["filechain"])
    r = run_cases([case])[0]
    print("impl :", r[1])
    print("model:", r[2])
    print("disagreement:", r[3])
    return 1 if r[3] else 0
