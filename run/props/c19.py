"""C19 — producing output is a pure observation of parser state."""
import os
import gen
from histcheck import run_cases, step_summary
from props.evalcommon import standard_run, standard_replay

PID = "C19"
W = {"ref": 3, "output": 1.5, "repeat": 2, "encode": 1.5, "interp": 2}
FMTS = ["json", "yaml", "json-pretty", "jsonl", "yml", "toml"]


def crossdoc_case(rng):
    """documents that depend on one another through cross-document references; output; then a layer that patches
    only the REFERENCED document; output again.  (An output call must neither evaluate in place inside another
    document nor remember anything about the state it saw.)"""
    from props import c10
    base = c10.stream_case(rng)
    merges = [s for s in base["steps"] if "merge" in s]
    docs = [m["merge"]["data"] for m in merges]
    # nested same-document references inside the documents (they are expanded in place during evaluation)
    for i in range(len(docs)):
        if rng.random() < 0.6:
            try:
                docs[i] = gen.inject_ref(rng, docs[i])
            except Exception:
                pass
    # hidden / selected TEMPLATE documents (top-level $output) referenced as a WHOLE (no path) or by path
    for d in docs:
        if isinstance(d, dict) and rng.random() < 0.35:
            d["$output"] = rng.choice([False, False, True])
        for k, v in list(d.items()) if isinstance(d, dict) else []:
            if isinstance(v, dict):
                for kind in ("$merge", "$replace"):
                    ref = v.get(kind)
                    if isinstance(ref, list) and ref and isinstance(ref[0], dict) and rng.random() < 0.35:
                        v[kind] = ref[:1]
                    elif isinstance(ref, dict) and "$match" in ref and rng.random() < 0.35:
                        ref.pop("$path", None)
    steps = [{"merge": {"id": f"D{i}", "parents": [], "data": d}} for i, d in enumerate(docs)]
    steps += [rng.choice([{"outdocs": True}, {"out": rng.choice(FMTS)}]), {"docs": True}]
    # patch one document through $match on its kind: change a scalar somewhere below a map path
    for _ in range(rng.randint(1, 2)):
        ti = rng.randrange(len(docs))
        scal = [(p, v) for p, v in gen.map_paths(docs[ti]) if not isinstance(v, (dict, list)) and p[0] != "kind"]
        patch = {"$match": {"kind": docs[ti].get("kind")}}
        if scal:
            pth, old = rng.choice(scal)
            cur = patch
            for k in pth[:-1]:
                cur = cur.setdefault(k, {})
            cur[pth[-1]] = "patched" if old != "patched" else "patched2"
        else:
            patch["added"] = 1
        steps.append({"merge": {"id": f"P{len(steps)}", "parents": [], "data": patch}})
        if rng.random() < 0.5:
            steps.append({"outdocs": True})
    steps += [{"docs": True}, {"outdocs": True}, {"outdocs": True}, {"docs": True}]
    return {"steps": steps, "env": gen.ENV}


def list_merge_patch_case(rng):
    """`- $merge: ref` pulls a list of MAPS out of another document; a second `- $merge` in the same list brings $match
    patches that edit those entries (or an entry carries a map-form $merge of its own).  The edits belong to the evaluation,
    not to the stored documents."""
    tmpl = {"kind": "T", "items": [{"n": 1, "v": "a"}, {"n": 2, "v": "b", "sub": {"k": 1}}]}
    if rng.random() < 0.4:
        tmpl["items"][1]["sub"] = {"$merge": "extra"}
        tmpl["extra"] = {"e": 1}
    patches = [{"$match": {"n": rng.choice([1, 2])}, "v": "patched"}]
    if rng.random() < 0.4:
        patches.append({"$match": {"n": 2}, "sub": {"more": 1}})
    user = {"kind": "U", "patches": patches,
            "out": [{"$merge": rng.choice([[{"kind": "T"}, "items"], {"$match": {"kind": "T"}, "$path": "items"}])}, {"$merge": "patches"}]}
    docs = [tmpl, user] if rng.random() < 0.6 else [user, tmpl]
    steps = [{"merge": {"id": f"D{i}", "parents": [], "data": d}} for i, d in enumerate(docs)]
    steps += [rng.choice([{"outdocs": True}, {"out": rng.choice(FMTS)}]), {"docs": True}]
    if rng.random() < 0.5:
        steps.append({"merge": {"id": "P9", "parents": [], "data": {"$match": {"kind": "T"}, "added": 1}}})
    steps += [{"docs": True}, {"outdocs": True}, {"outdocs": True}, {"docs": True}]
    return {"steps": steps, "env": gen.ENV}


def placeholder_case(rng):
    """empty maps / lists as placeholders next to a map-form $merge (evaluation merges INTO them): an output call must
    not fill the stored document's placeholders"""
    tmpl = {"labels": {"app": rng.choice(["web", "db"])}, "ports": [80], "meta": {"deep": {"x": 1}}}
    svc = {"$merge": rng.choice(["tmpl", ["tmpl"]]), "labels": rng.choice([{}, {"own": 1}]), "ports": rng.choice([[], [443]]),
           "meta": rng.choice([{}, {"deep": {}}])}
    doc = {"tmpl": tmpl, "svc": svc}
    if rng.random() < 0.4:
        doc["other"] = {"e": {}, "l": []}
    steps = [{"merge": {"id": "D0", "parents": [], "data": doc}}]
    steps += [rng.choice([{"outdocs": True}, {"out": rng.choice(FMTS)}]) for _ in range(rng.randint(1, 2))]
    steps += [{"docs": True}]
    if rng.random() < 0.7:
        steps.append({"merge": {"id": "P1", "parents": ["D0"], "data": {"svc": {"labels": {"tier": "db"}}}}})
    steps += [{"docs": True}, {"outdocs": True}, {"outdocs": True}, {"docs": True}]
    return {"steps": steps, "env": gen.ENV}


def gen_case(rng):
    r0 = rng.random()
    if r0 < 0.05:
        return list_merge_patch_case(rng)
    if r0 < 0.1:
        return placeholder_case(rng)
    if r0 < 0.3:
        return crossdoc_case(rng)
    steps = []
    ids = []
    ncalls = rng.randint(3, 8)
    docs = []
    for c in range(ncalls):
        r = rng.random()
        if r < 0.45 or not ids:
            did = f"D{len(ids)}"
            if ids and rng.random() < 0.5:
                par = [rng.choice(ids)]
                data = gen.patch_for(rng, rng.choice(docs), misplace=0.02)
                if not isinstance(data, dict):
                    data = {"z": c}
            else:
                par = []
                data = gen.eval_doc(rng, W, depth=rng.randint(2, 3), nfeat=(0, 3))
            steps.append({"merge": {"id": did, "parents": par, "data": data}})
            ids.append(did)
            docs.append(data)
        elif r < 0.6:
            steps.append({"docs": True})
        elif r < 0.8:
            steps.append({"outdocs": True})
        else:
            f = rng.choice(FMTS)
            steps.append({"out": f})
            q = rng.random()
            if q < 0.15:
                # the same bytes through the other output methods: OutputToWriter (format given / defaulted), OutputToFile
                steps.append({"out": f, "via": "writer"})
            elif q < 0.3:
                steps.append({"out": f, "via": "file-ext"})
            elif q < 0.4:
                steps += [{"out": "json-pretty"}, {"out": "json-pretty", "via": "writer-default"}]
    steps += [{"docs": True}, {"outdocs": True}, {"outdocs": True}, {"docs": True}]
    return {"steps": steps, "env": gen.ENV}


def is_output(s):
    return "outdocs" in s or "out" in s


def oracle(case, go, mo):
    """Direct on the implementation: (1) repeated outputs agree; (2) Documents() before/after an output op agree;
    (3) the same history without the intermediate output ops ends in the same documents and outputs."""
    if not go or "res" not in go:
        return None
    steps = case["steps"]
    # error text and error class may depend on map iteration order (which bad key is met first);
    # the property speaks of bytes and success/failure status only
    res = [({"err": True} if "err" in x else x) for x in go["res"]]
    # (1)+(2)
    last_docs = None
    since_merge_out = {}
    for s, r in zip(steps, res):
        if "merge" in s:
            last_docs = None
            since_merge_out = {}
            if "err" in r:
                break
        elif "docs" in s:
            if last_docs is not None and r != last_docs:
                return "Documents() changed although only output methods were called in between"
            last_docs = r
        elif is_output(s):
            key = "outdocs" if "outdocs" in s else "out:" + s["out"]
            if key in since_merge_out and since_merge_out[key] != r:
                return f"two {key} calls on the same state returned different results"
            since_merge_out[key] = r
    # (3)
    twin = twin_of(case)
    tw = case.get("_twin_res") or run_cases([twin])[0][1]
    if tw and "res" in tw:
        a = [r for s, r in zip(steps, res) if not is_output(s)][-2:] + res[-3:-1]
        b = [r for s, r in zip(twin["steps"], tw["res"]) if not is_output(s)][-2:] + tw["res"][-3:-1]
        strip = lambda l: [({"err": True} if "err" in x else x) for x in l]
        if strip(a) != strip(b):
            return "history with intermediate output calls ends differently from the same history without them"
    return None


def twin_of(case):
    steps = case["steps"]
    return {"steps": [s for i, s in enumerate(steps) if not is_output(s) or i >= len(steps) - 3], "env": case.get("env")}


def batch_aux(cases, results):
    tw = run_cases([twin_of(c) for c in cases])
    for c, r in zip(cases, tw):
        c["_twin_res"] = r[1]


def nontrivial(case, go, mo):
    return any(is_output(s) for s in case["steps"][:-4])


def run(rep):
    standard_run(rep, PID, gen_case, nontrivial, "output is not a pure observation", 2000, 100000,
                 "interleavings of 3-8 MergeDocument / Documents / OutputDocuments / Output(format) calls over documents using "
                 "$merge, $replace, $repeat, $encode, $output and interpolation, then Documents+OutputDocuments twice; judged "
                 "by the model (pure function of the merge history) and directly on the implementation: repeated outputs equal, "
                 "Documents() unchanged across output calls, and the twin history without intermediate output calls ends "
                 "identically; non-trivial = an output call happens before a later merge or snapshot", oracle=oracle, batch_aux=batch_aux)
    if len(rep.violations) < 5:
        import random
        file_history_stage(rep, random.Random(rep.seed + 7), 80 if rep.tier == "quick" else 2000)


def file_history_stage(rep, rng, n):
    """histories over FILES: inputs loaded one after the other with output requests in between (every spelling of a format name,
    unknown names included) against the same history without them - what a later MergeFileLayers finds and produces is the same"""
    import shutil
    import fscheck
    from common import run_go, mktemp_dir
    root = mktemp_dir("verif-c19-files-")
    try:
        ops, cases = [], []
        for i in range(n):
            ext2 = rng.choice(["YAML", "Yaml", "JSON", "Json", "TOML", "yaml", "json"])
            layout = {"a." + ext2: {"fmt": ext2.lower(), "docs": [{"base": 1, "l": [1]}]},
                      "a.b.yaml": {"fmt": "yaml", "docs": [{"top": 1}]},
                      "c.json": {"fmt": "json", "docs": [{"c": 1, "e": {"$encode": rng.choice(["json", "Json", "YAML", "base64"]), "$value": {"k": 1}}}]},
                      "d.yaml": {"fmt": "yaml", "docs": [{"d": 1}]}}
            d = os.path.join(root, "c%d" % i)
            os.makedirs(d)
            fscheck.materialise(d, layout)
            inputs = rng.sample(["c.json", "d.yaml", "a.b.yaml"], rng.randint(2, 3))
            if "a.b.yaml" not in inputs:
                inputs.append("a.b.yaml")
            acts_plain = [{"input": os.path.join(d, x)} for x in inputs]
            acts_out = []
            for a in acts_plain:
                if rng.random() < 0.7:
                    acts_out.append({"out": rng.choice(["yaml", "YAML", "Yaml", "json", "JSON", "Json", "TOML", "toml", "nosuch", "json-pretty"])})
                acts_out.append(a)
            ops.append({"op": "files", "id": 2 * i, "dir": d, "actions": acts_plain})
            ops.append({"op": "files", "id": 2 * i + 1, "dir": d, "actions": acts_out})
            cases.append({"layout": layout, "plain": [a.get("input", "").replace(d + "/", "") for a in acts_plain],
                          "with_out": [(a.get("input", "").replace(d + "/", "") or {"out": a.get("out")}) for a in acts_out]})
        go = run_go(ops, timeout_ms=60000)
        for i, c in enumerate(cases):
            a, b = go.get(2 * i) or {}, go.get(2 * i + 1) or {}
            rep.case(["file-history", c], True)
            rep.count("file-history:" + ("err" if "err" in a else "ok"))
            strip = lambda r: {k: v for k, v in r.items() if k not in ("id", "msg", "runs")}
            if strip(a) != strip(b) and len(rep.violations) < 5:
                rep.violation("output is not a pure observation: inputs loaded with output requests in between end differently from the same inputs without them",
                              {"case": {"filehistory": c}, "without": str(a)[:600], "with": str(b)[:600]})
    finally:
        shutil.rmtree(root, ignore_errors=True)


def replay(rep, payload):
    if "filehistory" in payload.get("case", {}):
        import shutil
        import fscheck
        from common import run_go, mktemp_dir
        c = payload["case"]["filehistory"]
        d = mktemp_dir("verif-c19-files-")
        try:
            fscheck.materialise(d, c["layout"])
            act = lambda x: {"input": os.path.join(d, x)} if isinstance(x, str) else x
            go = run_go([{"op": "files", "id": 0, "dir": d, "actions": [act(x) for x in c["plain"]]},
                         {"op": "files", "id": 1, "dir": d, "actions": [act(x) for x in c["with_out"]]}], timeout_ms=60000)
            strip = lambda r: {k: v for k, v in (r or {}).items() if k not in ("id", "msg", "runs")}
            print("without:", str(go.get(0))[:500])
            print("with   :", str(go.get(1))[:500])
            return 1 if strip(go.get(0)) != strip(go.get(1)) else 0
        finally:
            shutil.rmtree(d, ignore_errors=True)
    return standard_replay(payload, oracle=oracle)
