"""C11 — $output selects exactly the marked subtrees and hides exactly the excluded ones."""
import gen
from histcheck import chain_case
from props.evalcommon import standard_run, standard_replay, small_scope
from wire import from_wire

PID = "C11"


def mark(rng, v, p_true=0.2, p_false=0.15, depth=0):
    if isinstance(v, dict):
        out = {k: mark(rng, x, p_true, p_false, depth + 1) for k, x in v.items()}
        r = rng.random()
        if r < p_true:
            out["$output"] = True
        elif r < p_true + p_false:
            out["$output"] = False
        elif r < p_true + p_false + 0.02:
            out["$output"] = rng.choice(["yes", 1, None])
        return out
    if isinstance(v, list):
        out = [mark(rng, x, p_true, p_false, depth + 1) for x in v]
        r = rng.random()
        if r < p_true:
            out.insert(rng.randint(0, len(out)), {"$output": True})
        elif r < p_true + p_false:
            out.insert(rng.randint(0, len(out)), {"$output": False})
        elif r < p_true + p_false + 0.02:
            out.append({"$output": True, "x": 1})
        return out
    return v


def crossref_case(rng):
    """markers that ARRIVE through references: a hidden ($output: false) document, or a plain one, pulls a subtree
    marked $output: true / false out of another document (or out of its own template section); selection happens
    after the references are resolved.  The model is the judge."""
    body = mark(rng, gen.map_tree(rng, depth=2, nulls=False), 0.1, 0.1)
    body["$output"] = rng.choice([True, True, False])
    tmpl = {"kind": "tmpl", "body": body, "other": {"v": 1}}
    if rng.random() < 0.5:
        tmpl["$output"] = False
    kind = rng.choice(["$merge", "$replace"])
    ref = rng.choice([[{"kind": "tmpl"}, "body"], {"$match": {"kind": "tmpl"}, "$path": "body"}, {"$match": {"kind": "tmpl"}, "$path": ["body"]}])
    user = {"kind": "user", "x": {kind: ref}, "keep": rng.choice([1, {"n": 2}])}
    if kind == "$merge" and rng.random() < 0.5:
        user["x"]["own"] = 1
    r = rng.random()
    if r < 0.5:
        user["$output"] = False
    elif r < 0.6:
        user = [{"$output": False}, {"x": {kind: ref}}, "s"]
    if rng.random() < 0.2:
        # same-document variant: the marked subtree lives in the document's own hidden section
        user = {"$output": False, "tpl": dict(body), "x": {kind: "tpl"}} if rng.random() < 0.5 else {"tpl": dict(body, **{"$output": False}), "x": {"$merge": "tpl", "$output": True}}
    docs = [tmpl, user] if rng.random() < 0.7 else [user, tmpl]
    steps = [{"merge": {"id": f"D{i}", "parents": [], "data": d}} for i, d in enumerate(docs)] + [{"outdocs": True}]
    return {"steps": steps, "env": {}, "no_oracle": True}


def gen_case(rng):
    if rng.random() < 0.12:
        return crossref_case(rng)
    n = 1 if rng.random() < 0.7 else rng.randint(2, 3)
    docs = [mark(rng, gen.map_tree(rng, depth=rng.randint(2, 4), nulls=False)) for _ in range(n)]
    steps = [{"merge": {"id": f"D{i}", "parents": [], "data": d}} for i, d in enumerate(docs)]
    steps += [{"outdocs": True}]
    return {"steps": steps, "env": {}}


# independent specification (written from the documentation, not from the code)
class Reject(Exception):
    pass


def spec_select(v):
    """returns (tree without $output:true markers, [selected subtrees in document order])"""
    if isinstance(v, dict):
        sel = v.get("$output") is True
        out, outs = {}, []
        for k in sorted(v):
            if sel and k == "$output":
                continue
            t, o = spec_select(v[k])
            out[k] = t
            outs += o
        return out, ([out] + outs if sel else outs)
    if isinstance(v, list):
        sel = any(isinstance(x, dict) and x.get("$output") is True for x in v)
        out, outs = [], []
        for x in v:
            if sel and isinstance(x, dict) and x.get("$output") is True:
                if len(x) > 1:
                    raise Reject()
                continue
            t, o = spec_select(x)
            out.append(t)
            outs += o
        return out, (outs + [out] if sel else outs)
    return v, []


def spec_hide(v):
    """returns the visible part or HIDDEN"""
    if isinstance(v, dict):
        if v.get("$output") is False:
            return HIDDEN
        out = {}
        for k in sorted(v):
            t = spec_hide(v[k])
            if t is not HIDDEN:
                out[k] = t
        return out
    if isinstance(v, list):
        marker = [x for x in v if isinstance(x, dict) and x.get("$output") is False]
        if marker:
            if any(len(x) > 1 for x in marker):
                raise Reject()
            return HIDDEN
        return [t for t in (spec_hide(x) for x in v) if t is not HIDDEN]
    return v


HIDDEN = object()


def has_marker(v):
    if isinstance(v, dict):
        return "$output" in v or any(has_marker(x) for x in v.values())
    if isinstance(v, list):
        return any(has_marker(x) for x in v)
    return False


def oracle(case, go, mo):
    if not go or "res" not in go or case.get("no_oracle"):
        return None
    last = go["res"][-1]
    from props.c06 import drop_nulls
    docs = [drop_nulls(s["merge"]["data"]) for s in case["steps"] if "merge" in s]
    try:
        expect = []
        for d in docs:
            t, outs = spec_select(d)
            for o in (outs or [t]):
                h = spec_hide(o)
                if h is not HIDDEN:
                    if has_marker(h):
                        raise Reject()   # a non-boolean $output survives -> must be rejected
                    expect.append(h)
    except Reject:
        return None if "err" in last else "a malformed $output marker was accepted"
    if "err" in last:
        return f"well-formed $output document rejected: {last['err']}"
    got = [from_wire(x) for x in last["ok"]]
    if got != expect:
        return "selected/hidden output differs from the documented selection"
    return None


def nontrivial(case, go, mo):
    return "$output" in str(case["steps"])


def run(rep):
    standard_run(rep, PID, gen_case, nontrivial, "output selection differs", 4000, 200000,
                 "random trees (1-3 document streams) with $output true/false/non-boolean markers on any subset of maps (key) and "
                 "lists (marker entry, some with extra keys), nested to any depth; judged by the model and by an independently "
                 "written Python selection/hiding function; non-trivial = carries a marker", oracle=oracle, extra_gens=[small_scope(PID)])
    if len(rep.violations) < 5:
        import random
        import fscheck
        fscheck.file_chain_stage(rep, empty_output_cases(random.Random(rep.seed + 13), 120 if rep.tier == "quick" else 3000),
                                 "empty marked subtrees in the output stream")


def empty_output_cases(rng, n):
    """marked subtrees that are EMPTY maps (or become empty once their marker is removed) at the front, in the middle and at the end of
    the output stream, written in every output format: each marked subtree is one output document, also when a format writes an empty
    document as no text at all"""
    out = []
    for _ in range(n):
        doc, order = {}, rng.sample(["a", "b", "c", "d"], rng.randint(2, 4))
        for k in order:
            r = rng.random()
            doc[k] = {"$output": True} if r < 0.45 else {"$output": True, "x": rng.choice([1, "s"])} if r < 0.8 else {"y": 1}
        if rng.random() < 0.3:
            doc = {"w": doc, "$output": rng.choice([True, False])}
        ext = rng.choice(["json", "yaml", "toml"])
        out.append({"layout": {"a." + ext: {"fmt": ext, "docs": [doc]}},
                    "opts": {"inputs": ["a." + ext], "format": rng.choice(["toml", "toml", "yaml", "json", "json-pretty"])},
                    "meta": {"kind": "empty-outputs"}})
    return out


def replay(rep, payload):
    return standard_replay(payload, oracle=oracle)
