"""Generators and helpers shared by the CLI-level tool properties (C15 bkld, C16 bkli, C17 bklr)."""
import json
import gen
import formats
from wire import to_wire, from_wire

KEYS = ["a", "b", "c", "d", "e"]
SCAL = [0, 1, 2, 7, -3, True, False, "x", "y", "z", "", "1", "true", 0.5, 1.5, 2.25, "a b", 1.0, 2.0, -3.0,
        # beyond 32 bits: the YAML reader hands these over as another Go type than the JSON and TOML readers
        2 ** 31, 2 ** 32, -2 ** 31 - 1, 4294967296000, 2 ** 53 + 1, 2 ** 62,
        # neighbours beyond 2^53: equal as float64, different as integers
        2 ** 53, 2 ** 53 + 2, 2 ** 63 - 1, 2 ** 63 - 2, -2 ** 63, -2 ** 63 + 1,
        # integral floats between 2^53 and 2^63 and beyond (a writer that prints them without a fraction turns them into integers)
        1e16, 4e18, -1e17, 1e19, 2.0 ** 53,
        # strings ending in one, two, three newlines (YAML block scalars with clip / keep chomping: the trailing blank lines ARE the value,
        # also at the very end of the emitted text)
        "x\n", "x\n\n", "l1\nl2\n\n\n", "two\n\nparas\n\n"]
FMTS = ["yaml", "json", "toml"]


def ptree(rng, depth=3, wide=4):
    """null-free, $-free tree"""
    r = rng.random()
    if depth == 2 and r < 0.12:
        # list entries with nested containers (tags / labels): partial matches through nested values
        return [{"name": rng.choice(["a", "b"]), "tags": rng.sample(["x", "y", "z"], rng.randint(1, 3)), "meta": {"k": rng.choice(SCAL), "j": 1}}
                for _ in range(rng.randint(1, 3))]
    if depth >= 1 and r < 0.04:
        # a long list of scalars from a small pool (repeated values, more than 16 entries: size thresholds of
        # "fast paths" over lists sit at powers of two)
        pool = rng.sample(["--v=1", "--v=2", "x", "y", 1, 2, 3, 1.5, True, "1", "2"], rng.randint(3, 6))
        return [rng.choice(pool) for _ in range(rng.choice([9, 17, 18, 20, 24, 33, 40]))]
    if depth <= 0 or r < 0.35:
        return rng.choice(SCAL)
    if r < 0.7:
        return {rng.choice(KEYS): ptree(rng, depth - 1, wide) for _ in range(rng.randint(0, wide))}
    return [ptree(rng, depth - 1, wide) for _ in range(rng.randint(0, wide))]


def pmap_tree(rng, depth=3, wide=4):
    return {rng.choice(KEYS): ptree(rng, depth - 1, wide) for _ in range(rng.randint(1, wide))}


def edit(rng, v, depth=3):
    """an arbitrary edit of v (same or different kind)"""
    r = rng.random()
    if r < 0.25:
        return gen.deep(v)
    if isinstance(v, dict):
        if r < 0.33:
            return rng.choice([rng.choice(SCAL), [rng.choice(SCAL)], []])   # kind change
        out = {}
        for k, x in v.items():
            q = rng.random()
            if q < 0.15:
                continue
            out[k] = edit(rng, x, depth - 1) if q < 0.6 else gen.deep(x)
        for _ in range(rng.randint(0, 2)):
            out.setdefault(rng.choice(KEYS), ptree(rng, 2))
        return out
    if isinstance(v, list):
        if r < 0.33:
            return rng.choice([rng.choice(SCAL), {"k": 1}, {}])
        out = [gen.deep(x) for x in v]
        for _ in range(rng.randint(0, 3)):
            q = rng.random()
            if q < 0.25 and out:
                out.pop(rng.randrange(len(out)))
            elif q < 0.45:
                out.insert(rng.randint(0, len(out)), ptree(rng, 2))
            elif q < 0.6 and len(out) > 1:
                rng.shuffle(out)
            elif q < 0.75 and out:
                out.append(gen.deep(rng.choice(out)))          # duplicate
            elif q < 0.9 and out:
                i = rng.randrange(len(out))
                out[i] = edit(rng, out[i], depth - 1)
        return out
    if r < 0.4:
        return rng.choice([{"k": rng.choice(SCAL)}, [rng.choice(SCAL)], {}])
    if r < 0.6 and isinstance(v, int) and not isinstance(v, bool) and -2 ** 63 < v < 2 ** 63 - 1:
        return v + rng.choice([1, -1])                 # the nearest other integer (beyond 2^53: the same float64)
    if r < 0.65 and isinstance(v, str):
        return v + rng.choice([" ", "x", "0"])
    return rng.choice(SCAL)


def nested_partial(rng, m):
    """An entry that bkl's pattern matching (recursive: nested maps by key subset, nested lists by element
    subset) regards as a partial match of `m` although no top-level value is equal: shrink one nested container."""
    cands = [k for k, v in m.items() if isinstance(v, (dict, list)) and len(v) >= 1]
    if not cands:
        return None
    k = rng.choice(cands)
    sub = {kk: gen.deep(vv) for kk, vv in m.items()}
    v = sub[k]
    if isinstance(v, dict):
        v.pop(rng.choice(list(v)))
    else:
        v.pop(rng.randrange(len(v)))
    others = [kk for kk in sub if kk != k]
    if others and rng.random() < 0.4:
        sub.pop(rng.choice(others))
    return sub


def edit_pair(rng):
    """(base, target): target is an arbitrary edit of base; both map-rooted"""
    base = pmap_tree(rng, depth=rng.randint(2, 4))
    target = {}
    for k, x in base.items():
        q = rng.random()
        if q < 0.12:
            continue
        e = edit(rng, x)
        maps = [m for m in x if isinstance(m, dict) and len(m) >= 2] if isinstance(x, list) else []
        if maps and isinstance(e, list) and rng.random() < 0.4:
            # a removed entry that is a partial match of a kept one: base has it, target does not
            m = rng.choice(maps)
            drop = rng.choice(list(m))
            sub = {kk: gen.deep(vv) for kk, vv in m.items() if kk != drop}
            if rng.random() < 0.5:
                sub = nested_partial(rng, m) or sub
            base = dict(base)
            base[k] = list(x) + [sub]
            if m not in e:
                e = e + [gen.deep(m)]
            e = [y for y in e if y != sub]
        target[k] = e
    for _ in range(rng.randint(0, 2)):
        target.setdefault(rng.choice(KEYS), ptree(rng, 2))
    if rng.random() < 0.12:
        # several lists holding the same entries in different orders, some swapped between base and target:
        # every changed list is decided on its own
        ents = rng.sample(["p", "q", "r", "s", {"n": 1}, {"n": 2}], rng.randint(2, 4))
        for name in rng.sample(["readOrder", "writeOrder", "thirdOrder", "zOrder"], rng.randint(2, 4)):
            a = list(ents)
            rng.shuffle(a)
            b = list(ents)
            rng.shuffle(b)
            base = dict(base)
            base[name] = gen.deep(a)
            target[name] = gen.deep(b if rng.random() < 0.7 else a)
    if rng.random() < 0.1:
        # SEVERAL entries removed from one list, an earlier one a partial match of (or equal to) a later one: a list
        # `$delete` for the earlier pattern already takes the later entry away, and the second `$delete` then finds nothing
        a = {"port": rng.choice([80, 8080]), "name": rng.choice(["web", "db"])}
        chain = [dict((k, a[k]) for k in list(a)[:1]), gen.deep(a), dict(a, proto="tcp")]
        rng.shuffle(chain) if rng.random() < 0.4 else None
        if rng.random() < 0.3:
            chain.append(gen.deep(chain[0]))             # a duplicated entry, every copy removed
        keep = [{"port": 443}, "plain"][:rng.randint(0, 2)]
        base = dict(base)
        nm = rng.choice(["ports", "rules"])
        base[nm] = gen.deep(chain + keep) if rng.random() < 0.6 else gen.deep(keep[:1] + chain + keep[1:])
        target[nm] = gen.deep(keep + ([chain[-1]] if rng.random() < 0.3 else []))
    if rng.random() < 0.08:
        target = gen.deep(base)
    return base, target


def has_integral_float(v):
    if isinstance(v, float):
        return v == int(v)
    if isinstance(v, dict):
        return any(has_integral_float(x) for x in v.values())
    if isinstance(v, list):
        return any(has_integral_float(x) for x in v)
    return False


def parse_json_out(text):
    docs = formats.json_load_all(text)
    return docs


def model_ops(ops):
    from common import run_model
    return run_model(ops)


def fix_floats(v):
    """integral floats print as integers in JSON/YAML output; keep number kinds observable"""
    if isinstance(v, float) and v == int(v):
        return v + 0.5
    if isinstance(v, dict):
        return {k: fix_floats(x) for k, x in v.items()}
    if isinstance(v, list):
        return [fix_floats(x) for x in v]
    return v


# ---------------------------------------------------------------- the tool mains (cmd/bkld, cmd/bkli, cmd/bklr)
# FileMatch, inheritance of tool inputs, "exactly one document", evaluation (bkld), format choice (-f, -o, input):
# real tool on a materialised directory vs the model (Bkl.ToolsCli) on the abstract one.

def _tool_doc(rng, tool):
    d = pmap_tree(rng, depth=2)
    if tool == "bklr" or rng.random() < 0.2:
        d = gen.with_required(rng, d, 0.25)
    return d


def tool_cli_case(rng, tool):
    layout = {}
    nin = {"bkld": 2, "bkli": rng.randint(1, 3), "bklr": 1}[tool]
    inputs = []
    for i in range(nin):
        stem = "in%d" % i
        ext = rng.choice(["yaml", "json", "toml", "yml"])
        doc = _tool_doc(rng, tool)
        r = rng.random()
        docs = [doc]
        if r < 0.1:
            docs = [doc, {"second": 1}]                      # more than one document: refused
        if ext == "toml" and not all(formats.toml_ok(x) for x in docs):
            ext = "yaml"
        layout[f"{stem}.{ext}"] = {"fmt": ext, "docs": docs}
        name = stem
        if rng.random() < 0.35:
            # the input is the top of a filename chain: inheritance applies to tool inputs
            up = {rng.choice(KEYS): rng.choice(SCAL), "upper": True}
            if tool == "bkld" and rng.random() < 0.4 and isinstance(doc, dict) and doc:
                k0 = sorted(doc)[0]
                up["ref"] = {"$merge": k0} if isinstance(doc[k0], dict) else "$merge:" + k0    # bkld evaluates both sides
            e2 = rng.choice(["yaml", "json"])
            layout[f"{stem}.up.{e2}"] = {"fmt": e2, "docs": [up]}
            name = stem + ".up"
            ext = e2
        r = rng.random()
        if r < 0.15:
            arg = name + "." + rng.choice(["json", "yaml", "toml"])     # virtual extension
        elif r < 0.2:
            arg = name + ".txt"
        elif r < 0.24:
            arg = "nosuch.yaml"
        else:
            arg = name + "." + ext
        inputs.append(arg)
    opts = {"inputs": inputs,
            "format": rng.choice([None, None, None, "json", "yaml", "toml", "json-pretty"]),
            "out": rng.choice([None, None, None, "out.json", "out.yaml", "out.toml", "out", "o.yml", "out.txt", "sub.d/out.json"])}
    if opts["out"] and "/" in opts["out"]:
        layout["sub.d/keep.txt"] = {"raw": "x"}
    elif opts["out"] and rng.random() < 0.4:
        # the output file exists already and is LONGER than what will be written: afterwards it holds exactly the new output
        layout[opts["out"]] = {"raw": "".join("stale_key_%d: [1, 2, 3]\n" % i for i in range(300))}
    return {"layout": layout, "opts": opts, "tool": tool}


def tool_cli_stage(rep, tool, rng, n):
    import fscheck
    from cli import pmap
    cases = [tool_cli_case(rng, tool) for _ in range(n)]
    res = pmap(lambda c: fscheck.run_case(c, tool=tool), cases)
    ops = []
    for i, (obs, op) in enumerate(res):
        ops.append({"op": "toolcli", "id": i, "tool": tool, "entries": op["entries"], "cwd": op["cwd"], "env": {}, "opts": op["opts"]})
    mres = model_ops(ops)
    bad = 0
    for i, (c, (obs, _)) in enumerate(zip(cases, res)):
        m = mres.get(i) or {}
        rep.case(["toolcli", c], True, sample={"toolcli": c["opts"], "files": sorted(c["layout"])} if i < 2 else None)
        rep.traces += 1
        d = None
        if obs["shape"]:
            d = "implementation " + obs["shape"]
        elif "unmodelled" in m:
            rep.count(f"toolcli:{tool}:unmodelled")
        elif "err" in m:
            rep.count(f"toolcli:{tool}:err")
            if obs["rc"] == 0:
                d = f"{tool} succeeds where the model of its main reports {m['err']}"
        elif "ok" not in m:
            d = f"MODEL-PROBLEM {str(m)[:150]}"
        else:
            rep.count(f"toolcli:{tool}:ok:{m['ok']['format']}")
            if obs["rc"] != 0:
                d = f"{tool} fails ({obs['err'][:120]}) where the model of its main succeeds"
            else:
                text = obs["outfile"] if c["opts"].get("out") else obs["out"]
                fmt = m["ok"]["format"]
                if text is None:
                    d = "-o was given but no file was written"
                elif c["opts"].get("out") and obs["out"]:
                    d = "output went to stdout although -o was given"
                else:
                    try:
                        got = formats.load_all(fmt, text)
                    except Exception as e:
                        got = None
                        d = f"output is not valid {fmt} (the format the model selects): {str(e)[:80]}"
                    if got is not None:
                        if m["ok"]["nil"]:
                            if got not in ([], [None], [{}]):
                                d = "the model emits an empty document, the tool something else"
                        else:
                            want = from_wire(m["ok"]["doc"])
                            if len(got) != 1 or not formats.same(got[0], want, True):
                                d = f"{tool} output differs from the model (format {fmt})"
        if d:
            bad += 1
            if len(rep.violations) < 5:
                rep.disagreements_checked += 1
                rep.violation(f"{tool} main: {d}", {"case": {"toolcli": c}, "observed": obs, "model": m})
    return bad
