"""C09 — evaluation is deterministic (same bytes, same status; any map order, any process, concurrent evaluations)."""
import json
import os
import random
import subprocess
import gen
from common import proof_step, load_corpus, run_go, run_model, BIN, log, compare_hist
from histcheck import to_op, step_summary, shrink_case
from props import c01, c06, c07, c10, c11, c12, c13, c14, c19

PID = "C09"
NEEDS_RACE = True
GENS = [c01.gen_case, c06.gen_case, c07.gen_case, c10.gen_case, c11.gen_case, c12.gen_case, c13.gen_case, c14.gen_case, c19.gen_case]


def manykey_case(rng):
    """maps with many keys, $-key collisions after unescaping, several outputs, references into the host"""
    d = {}
    for i in range(rng.randint(8, 24)):
        d["k%02d" % rng.randint(0, 40)] = gen.tree(rng, 1)
    r = rng.random()
    if r < 0.3:
        d["$$A"] = 1
        d["$A"] = 2
        d["$$$$B"] = 3
        d["$$B"] = 4
    elif r < 0.6:
        d["c"] = {"c": 1, "x%d" % rng.randint(0, 9): 2}
        d["$merge"] = "c"
    elif r < 0.8:
        for k in list(d)[:4]:
            d[k] = {"$output": True, "v": d[k]}
    steps = [{"merge": {"id": "D0", "parents": [], "data": d}}, {"docs": True}, {"outdocs": True}, {"out": "yaml"}, {"out": "json"}]
    return {"steps": steps, "env": gen.ENV}


def collide_case(rng):
    """keys that only collide AFTER evaluation (interpolated / $env keys, repeat-generated keys next to literal ones):
    which entry wins must not depend on the order a Go map is walked in"""
    d = {"p": "web", "q": "web", "r": "db"}
    r = rng.random()
    if r < 0.4:
        d["m"] = {"$\"{p}\"": rng.randint(1, 9), "$\"{q}\"": rng.randint(10, 19), "$\"{r}\"": 3}
        if rng.random() < 0.5:
            d["m"]["web"] = 0
    elif r < 0.7:
        d["m"] = {"$env:HOME": 1, "$\"{$env:HOME}\"": 2, "/home/u": 3}
    else:
        d["m"] = {"$\"srv{$repeat}\"": {"$repeat": 3, "port": "$repeat"}, "srv1": {"port": 8080}, "srv2": {"port": 9090}}
    for i in range(rng.randint(0, 6)):
        d["k%02d" % rng.randint(0, 40)] = gen.tree(rng, 1)
    steps = [{"merge": {"id": "D0", "parents": [], "data": d}}, {"outdocs": True}, {"out": "json"}]
    return {"steps": steps, "env": gen.ENV}


def pending_merge_case(rng):
    """a sibling reference that reaches THROUGH a map whose own map-form $merge is expanded in place: whether the
    sibling sees the expanded map depends on the order the entries are walked in (sorted in the real code)"""
    names = rng.sample(["alpha", "base", "mid", "probe", "zeta", "k1", "k2"], 3)
    b, m, p = names
    d = {b: {"z": 2, "y": {"w": 1}}, m: {"$merge": b, "q": 1}}
    d[p] = rng.choice(["$merge:%s.z" % m, "$replace:%s.y" % m, {"$merge": "%s.y" % m}, "$\"{%s.z}\"" % m])
    if rng.random() < 0.4:
        d["other"] = {"$merge": m}
    steps = [{"merge": {"id": "D0", "parents": [], "data": d}}, {"outdocs": True}, {"out": "json"}]
    return {"steps": steps, "env": gen.ENV}


def retained_case(rng):
    """several Output calls of different content (and formats) in one process: bytes handed out earlier must not
    change (a writer that recycles its buffer breaks byte-identity for a caller who kept the result).  The content GROWS in
    some cases and SHRINKS in others: a recycled buffer is overwritten in place only when the later text fits into it."""
    from props.toolscommon import pmap_tree
    steps = []
    # one format throughout (the same writer, and whatever buffer it keeps, serves every call) or a mix
    one = rng.choice([None, "json", "yaml", "toml", "json-pretty", "jsonl", "yml"])
    fmt = lambda: one or rng.choice(["json", "json", "yaml", "toml", "json-pretty", "jsonl"])
    if rng.random() < 0.5:
        big = {"big": {"k%02d" % j: "v" * rng.randint(5, 40) for j in range(rng.randint(5, 30))}, "n": 0, "keep": pmap_tree(rng, 2)}
        steps.append({"merge": {"id": "D0", "parents": [], "data": big}})
        steps.append({"out": fmt()})
        for i in range(1, rng.randint(2, 4)):
            patch = {"big": "$delete", "k": i} if i == 1 else {"k": i + 10, "extra%d" % i: rng.choice([1, "x", True])}
            steps.append({"merge": {"id": f"L{i}", "parents": ["D0" if i == 1 else f"L{i-1}"], "data": patch}})
            steps.append({"out": fmt()})
        return {"steps": steps, "env": gen.ENV}
    for i in range(rng.randint(2, 4)):
        body = pmap_tree(rng, 2) if one in ("toml", None) else gen.tree(rng, 2)       # null-free: every format can write it
        steps.append({"merge": {"id": f"D{i}", "parents": [], "data": {"svc%d" % i: body, "n": i}}})
        steps.append({"out": fmt()})
    return {"steps": steps, "env": gen.ENV}


def numkey_case(rng):
    """maps whose keys look like numbers ("7" and "07", "2" < "10" < "1a" as text or as integers?) turned into LISTS by
    $encode: values / tolist / flags: the order of the result must be one order, every time"""
    pools = [["7", "07", "007"], ["0", "-0", "+0", "00"], ["2", "10", "1a", "1", "9"], ["10", "9", "8a", "08", "8"], ["1", "01", "a", "1a", "a1"]]
    keys = rng.sample(rng.choice(pools) + rng.choice(pools), rng.randint(3, 6))
    m = {k: rng.choice([i, "v%d" % i, True]) for i, k in enumerate(keys)}
    enc = rng.choice(["values", "tolist:=", "flags", ["tolist:=", "join:,"], ["values", "join:-"], "tolist::"])
    doc = {"x": dict(m, **{"$encode": enc}), "keep": m}
    return {"steps": [{"merge": {"id": "D0", "parents": [], "data": doc}}, {"outdocs": True}, {"out": "json"}], "env": {}}


def validate_order_case(rng):
    """a map that must be rejected for TWO reasons of different kinds (an unset $required and a stray directive) under
    different keys, plain or under $encode: rejected every time, whichever the validator meets first"""
    bads = ["$required", "$nosuch", "$delete", "$merg:x", "$match"]
    m = {}
    for i, b in enumerate(rng.sample(bads, rng.randint(2, 3))):
        if rng.random() < 0.7:
            m["k%d" % i] = b
        else:
            m[b] = i
    m["ok"] = 1
    if rng.random() < 0.6:
        m["$encode"] = rng.choice(["json", "yaml", "base64", "values", ["values", "join:,"]])
    doc = {"x": m, "y": 1} if rng.random() < 0.7 else {"l": [m, 1]}
    return {"steps": [{"merge": {"id": "D0", "parents": [], "data": doc}}, {"outdocs": True}, {"out": "json"}], "env": {}}


def casefold_case(rng):
    """keys that differ only by letter case, and references spelled in yet another case: which key a reference finds
    (none: an error) must not depend on map iteration order"""
    names = rng.choice([["CPU", "cpu", "Cpu"], ["Content-Type", "content-type", "CONTENT-TYPE"], ["Path", "PATH", "path"], ["Name", "name", "NAME"]])
    present = rng.sample(names, rng.randint(2, 3))
    doc = {k: {"n": i, "deep": {"v": k}} if rng.random() < 0.7 else i for i, k in enumerate(present)}
    refs = [n for n in names + [names[0].swapcase(), names[0].title()]]
    for j in range(rng.randint(1, 3)):
        r = rng.choice(refs)
        doc["r%d" % j] = rng.choice(["$\"{%s.n}\"" % r, "$\"{%s}\"" % r, {"$merge": r}, {"$replace": r + ".deep"}, "$merge:" + r])
    return {"steps": [{"merge": {"id": "D0", "parents": [], "data": doc}}, {"outdocs": True}, {"out": "json"}], "env": {}}


ENV_FLIPS = [({"BKL_V": "one"}, {"BKL_V": "two"}), ({"BKL_V": "x"}, {}), ({}, {"BKL_V": "late"}), ({"BKL_V": "1", "BKL_W": "a"}, {"BKL_V": "1", "BKL_W": "b"}),
             ({"BKL_V": ""}, {"BKL_V": " "})]


def env_flip_group(doc, envs):
    """one process evaluates doc under envs[0], envs[1], ...; each result is compared with a fresh process's"""
    fixed = [to_op({"steps": [{"merge": {"id": "D0", "parents": [], "data": doc}}, {"outdocs": True}], "env": e}, i) for i, e in enumerate(envs)]
    same = run_go(fixed)                                  # fewer than 50 ops: ONE process, in order
    envp = dict(os.environ, BKLGO_TIMEOUT_MS="60000")
    out = []
    for op in fixed:
        p = subprocess.run([os.path.join(BIN, "bklgo")], input=json.dumps(op) + "\n", capture_output=True, text=True, env=envp, timeout=120)
        try:
            fresh = json.loads(p.stdout.strip().split("\n")[-1])
        except Exception:
            continue
        a_, b_ = strip_err({"res": (same.get(op["id"]) or {}).get("res", [])}), strip_err({"res": fresh.get("res", [])})
        out.append((op["id"], a_ == b_, same.get(op["id"]), fresh))
    return out


def env_flip_stage(rep, rng, groups):
    """the environment is an INPUT: the same document evaluated in ONE process under environment A, then B, then A
    again gives, each time, what a fresh process gives under that environment"""
    bad = []
    for g in range(groups):
        a, b = rng.choice(ENV_FLIPS)
        doc = {"k": 1}
        for j in range(rng.randint(1, 3)):
            w = rng.choice(["BKL_V", "BKL_V", "BKL_W"])
            doc["e%d" % j] = rng.choice(["$env:" + w, "$\"<{$env:%s}>\"" % w, {"$encode": "base64", "$value": "$env:" + w}, ["$env:" + w]])
        if rng.random() < 0.3:
            doc["$env:BKL_V"] = "as-key"
        envs = [a, b, a]
        for idx, ok, same, fresh in env_flip_group(doc, envs):
            rep.case(["envflip", doc, envs[idx]], True)
            rep.count("envflip:compared")
            if not ok and not any(c.get("envflip") for c, _, _ in bad):
                bad.append(({"envflip": {"doc": doc, "envs": envs}, "steps": []}, {"position": idx, "same_process": same, "fresh_process": fresh},
                            "the environment changed between two evaluations in one process: the later evaluation differs from a fresh process with the same environment"))
    return bad


def seq_group(docs, env):
    """one process evaluates the documents in order (separate parsers); each result is compared with a fresh process's"""
    fixed = [to_op({"steps": [{"merge": {"id": "D0", "parents": [], "data": d}}, {"outdocs": True}], "env": env}, i) for i, d in enumerate(docs)]
    same = run_go(fixed)                                  # fewer than 50 ops: ONE process, in order
    envp = dict(os.environ, BKLGO_TIMEOUT_MS="60000")
    out = []
    for op in fixed:
        p = subprocess.run([os.path.join(BIN, "bklgo")], input=json.dumps(op) + "\n", capture_output=True, text=True, env=envp, timeout=120)
        try:
            fresh = json.loads(p.stdout.strip().split("\n")[-1])
        except Exception:
            continue
        a_, b_ = strip_err({"res": (same.get(op["id"]) or {}).get("res", [])}), strip_err({"res": fresh.get("res", [])})
        out.append((op["id"], a_ == b_, same.get(op["id"]), fresh))
    return out


def leak_stage(rep, rng, groups):
    """evaluation state must not outlive an evaluation: a document that BINDS something (named or plain repeat indices,
    environment lookups, encoded blobs, interpolated strings) is evaluated first, then, in the same process, documents that
    USE such names without binding them, or that look like the first one; each must give what a fresh process gives"""
    bad = []
    for g in range(groups):
        nm = rng.choice(["x", "y", "name"])
        binders = [{"$repeat": {nm: rng.choice([2, 3])}, "v": "$\"{$repeat:%s}\"" % nm},
                   {"$repeat": rng.choice([2, 3]), "v": "$\"i{$repeat}\"", "w": "$repeat"},
                   {"l": [{"$repeat": 2, "v": "$\"n{$repeat}\""}]},
                   {"a": 1, "t": "$\"<{a}>\"", "e": {"$encode": "json", "$value": {"a": 1}}},
                   {"h": "$env:HOME", "t": "$\"{$env:HOME}/x\""}]
        users = [{"v": "$\"{$repeat:%s}\"" % nm}, {"v": "$\"i{$repeat}\""}, {"w": "$repeat"}, {"v": "$\"{$repeat.%s}\"" % nm},
                 {"a": 2, "t": "$\"<{a}>\"", "e": {"$encode": "json", "$value": {"a": "1"}}},
                 {"t": "$\"{$env:HOME}/x\""}, {"v": "$\"{%s}\"" % nm}]
        # every binder in turn, followed by every user
        docs = [binders[g % len(binders)]] + (users if g < len(binders) else rng.sample(users, rng.randint(1, 3)))
        env = rng.choice([gen.ENV, {}])
        for idx, ok, same, fresh in seq_group(docs, env):
            rep.case(["leak", docs, idx], True)
            rep.count("leak:compared")
            if not ok and not any(c.get("leak") for c, _, _ in bad):
                bad.append(({"leak": {"docs": docs, "env": env}, "steps": []}, {"position": idx, "same_process": same, "fresh_process": fresh},
                            "an evaluation depends on what was evaluated before it in the same process: its result differs from a fresh process's"))
    return bad


def gen_case(rng):
    r0 = rng.random()
    if r0 < 0.04:
        return casefold_case(rng)
    if r0 < 0.08:
        return numkey_case(rng)
    if r0 < 0.1:
        return validate_order_case(rng)
    if r0 < 0.125:
        return retained_case(rng)
    if r0 < 0.145:
        return pending_merge_case(rng)
    if r0 < 0.16:
        c = collide_case(rng)
    elif r0 < 0.3:
        c = manykey_case(rng)
    else:
        c = rng.choice(GENS)(rng)
        c = {"steps": list(c["steps"]) + [{"out": rng.choice(["yaml", "json", "toml", "json-pretty"])}], "env": c.get("env") or {}}
    return c


def strip_err(r):
    """status only for failures: the error text may name whichever bad key was met first"""
    if isinstance(r, dict) and "res" in r:
        return {"res": [({"err": True} if "err" in x else x) for x in r["res"]]}
    return r


def run_batch(rep, cases, rep_n, par_n, binary="bklgo", fresh=0):
    ops = []
    for i, c in enumerate(cases):
        op = to_op(c, i)
        op["rep"], op["par"] = rep_n, par_n
        op["status_only_errors"] = True
        ops.append(op)
    go = run_go(ops, binary=binary, timeout_ms=60000)
    # independent fresh processes for a sample
    bad = []
    for i, c in enumerate(cases):
        r = go.get(i)
        rep.case(c["steps"], True, sample={"steps": [list(s)[0] for s in c["steps"]], "runs": (r or {}).get("runs"), "impl": step_summary(r)})
        rep.count("impl:" + step_summary(r)[:50])
        if r is not None and "race" in r:
            bad.append((c, r, "the race detector reports a data race while the input is evaluated from several goroutines at once"))
            continue
        if r is None or any(k in r for k in ("crash", "panic", "timeout", "oom")):
            rep.count("crash_or_timeout")  # C08's business; not a determinism verdict
            continue
        if "nondet" in r:
            bad.append((c, r, f"{r.get('mode')} runs of the same input differ"))
        elif "retained_changed" in r:
            bad.append((c, r, "bytes returned by an earlier Output call changed after a later Output call"))
    if fresh:
        sample = list(range(0, len(cases), max(1, len(cases) // fresh)))[:fresh]
        for k in range(2):
            ops2 = [to_op(cases[i], i) for i in sample]
            env = dict(os.environ, BKLGO_TIMEOUT_MS="60000")
            # one fresh process per op
            for op in ops2:
                p = subprocess.run([os.path.join(BIN, binary)], input=json.dumps(op) + "\n", capture_output=True, text=True, env=env, timeout=120)
                try:
                    r2 = json.loads(p.stdout.strip().split("\n")[-1])
                except Exception:
                    continue
                r1 = go.get(op["id"])
                a = strip_err({"res": (r1 or {}).get("res", [])})
                b = strip_err({"res": r2.get("res", [])})
                rep.count("fresh_process_runs")
                if "res" in (r1 or {}) and a != b:
                    bad.append((cases[op["id"]], {"nondet": [r1, r2]}, "a fresh process produced a different result"))
    return bad


def files_stage(rep, rng, n, binary="bklgo", rep_n=3, par_n=16):
    """layer FILES through the readers of every format (YAML with anchors and aliases, some of them alias-heavy), loaded and
    evaluated by several parsers at once in one process: the readers and the loader are part of "evaluation" too"""
    import shutil
    import fscheck
    import formats
    from common import mktemp_dir
    from props import c01
    root = mktemp_dir("verif-c09-files-")
    try:
        ops, metas = [], []
        cs = c01.file_chain_cases(rng, n)
        # alias-heavy YAML: one anchored list aliased a few hundred times (tens of thousands of nodes once expanded)
        for k in range(3):
            big = [rng.choice(["x", 1, True, "v%d" % j]) for j in range(300)]
            huge = {"k%03d" % j: big for j in range(200 + 25 * k)}
            doc = {"a_huge": huge, "x": huge, "y": {"in": huge}}       # ONE alias (`x: *id`) stands for all of it
            cs.append({"layout": {"heavy.yaml": {"fmt": "yaml", "docs": [formats.share_equal(doc)]}}, "opts": {"inputs": ["heavy.yaml"]},
                       "meta": {"kind": "alias-heavy"}})
        for i, c in enumerate(cs):
            d = os.path.join(root, "c%d" % i)
            os.makedirs(d)
            fscheck.materialise(d, c["layout"])
            ops.append({"op": "files", "id": i, "dir": d, "inputs": [os.path.join(d, c["opts"]["inputs"][0])],
                        "rep": rep_n, "par": par_n, "status_only_errors": True})
        go = run_go(ops, binary=binary, timeout_ms=120000)
        bad = []
        for i, c in enumerate(cs):
            r = go.get(i)
            rep.case(["files", c["layout"]], True)
            rep.count(f"files:{c['meta']['kind']}:{'nondet' if r and 'nondet' in r else 'race' if r and 'race' in r else 'same'}")
            case = {"files": {"layout": c["layout"], "input": c["opts"]["inputs"][0]}}
            if r is not None and "race" in r:
                bad.append((case, r, "the race detector reports a data race while layer files are loaded and evaluated by several parsers at once"))
            elif r is not None and "nondet" in r:
                bad.append((case, {"mode": r.get("mode"), "nondet": str(r["nondet"])[:1500]}, f"{r.get('mode')} loads of the same layer files differ"))
        return bad
    finally:
        shutil.rmtree(root, ignore_errors=True)


def run(rep):
    rep.rule = ("inputs of the generators of C01/C06/C07/C10/C11/C12/C13/C14/C19 plus many-key maps with unescape collisions, "
                "host-internal references and multiple outputs; each evaluated (MergeDocument, Documents, OutputDocuments, Output bytes) "
                "20x sequentially and from 32 goroutines at once in one process (results must serialise identically; failures are "
                "compared by status), a sample again in fresh processes; layer FILES in every format (YAML with anchors / aliases, some alias-heavy) "
                "loaded and evaluated by 16 parsers at once; thorough tier repeats both under a -race build and READS THE RACE DETECTOR'S VERDICT; "
                "every case is non-trivial (all are multi-run comparisons)")
    rep.proof, rep.broken = proof_step(PID)
    rng = random.Random(rep.seed)
    n = 1500 if rep.tier == "quick" else 30000
    cases = [c for _, c in load_corpus(PID)] + [gen_case(rng) for _ in range(n)]
    bad = run_batch(rep, cases, 20, 32, fresh=40 if rep.tier == "quick" else 400)
    bad += env_flip_stage(rep, rng, 30 if rep.tier == "quick" else 600)
    bad += leak_stage(rep, rng, 25 if rep.tier == "quick" else 500)
    bad += files_stage(rep, random.Random(rep.seed + 31), 60 if rep.tier == "quick" else 1500)
    if rep.tier == "thorough" and os.path.exists(os.path.join(BIN, "bklgo-race")):
        sub = cases[: 4000]
        bad += run_batch(rep, sub, 3, 16, binary="bklgo-race")
        bad += files_stage(rep, random.Random(rep.seed + 32), 300, binary="bklgo-race")
        rep.extra["race_build_cases"] = len(sub)
    for c, r, d in bad[:4]:
        rep.disagreements_checked += 1
        rep.violation(d, {"case": {k: v for k, v in c.items() if not k.startswith("_") and k != "rebuild"}, "impl": r})
    # facts: the list of unordered `range` sites is checked in the proof step (Generated/Facts.lean) once the extractor exists
    if rep.broken and not rep.violations:
        rep.violation("proof obligation no longer checks: " + "; ".join(b["obligation"] for b in rep.broken), {"broken": rep.broken}, no_input=True)
    rep.assumptions.append("goroutine scheduling and the Go memory model are outside the Lean model; concurrency is explored by running, the race detector run is supporting evidence")


def replay(rep, payload):
    c = payload["case"]
    if "files" in c:
        import shutil
        import fscheck
        from common import mktemp_dir
        root = mktemp_dir("verif-c09-files-")
        try:
            fscheck.materialise(root, c["files"]["layout"])
            bad = 0
            for binary in ["bklgo"] + (["bklgo-race"] if os.path.exists(os.path.join(BIN, "bklgo-race")) else []):
                r = run_go([{"op": "files", "id": 0, "dir": root, "inputs": [os.path.join(root, c["files"]["input"])],
                             "rep": 5, "par": 32, "status_only_errors": True}], binary=binary, timeout_ms=120000).get(0) or {}
                print(binary, {k: str(v)[:400] for k, v in r.items() if k in ("nondet", "mode", "race", "stderr", "runs")})
                bad += 1 if ("nondet" in r or "race" in r) else 0
            return 1 if bad else 0
        finally:
            shutil.rmtree(root, ignore_errors=True)
    if "envflip" in c:
        res = env_flip_group(c["envflip"]["doc"], c["envflip"]["envs"])
        for r in res:
            print(r)
        return 1 if any(not ok for _, ok, _, _ in res) else 0
    if "leak" in c:
        res = seq_group(c["leak"]["docs"], c["leak"]["env"])
        for r in res:
            print(r)
        return 1 if any(not ok for _, ok, _, _ in res) else 0
    bad = run_batch(rep, [c], 50, 64, fresh=5)
    for _, r, d in bad:
        print(d)
    return 1 if bad else 0
