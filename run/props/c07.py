"""C07 — no unresolved $required or stray directive ever reaches the output."""
import re
import gen
from histcheck import chain_case
from props.evalcommon import standard_run, standard_replay, small_scope
from wire import from_wire

PID = "C07"
STRAY = ["$required", "$delete", "$match", "$replace", "$value", "$invert", "$output", "$merge", "$encode", "$decode",
         "$repeat", "$parent", "$nosuch", "$mergee", "$deleet", "$replace:", "$merge:", "$x", "$env", "$requiredd", "$Required",
         # look-alikes whose first letter is a lower-case letter outside ASCII (still directive-shaped: rejected), and
         # non-letters / upper case of 2-4 bytes (plain data: pass)
         "$оutput", "$мatch", "$ԁelete", "$ŕequired", "$αbc", "$é", "$ßx", "$日本", "$€5", "$😀", "$Ωmega", "$réquired"]
W = {"ref": 1, "output": 2, "repeat": 0.5, "encode": 1.5, "interp": 1}


def inject_stray(rng, doc):
    ps = [p for p, x in gen.paths(doc) if p]
    if not ps:
        return doc
    p = rng.choice(ps)
    s = rng.choice(STRAY)
    r = rng.random()
    if r < 0.5:
        return gen.set_at(doc, p, s)
    if r < 0.8 and isinstance(p[-1], str):
        parent = dict(gen.get_at(doc, p[:-1]))
        parent[s] = rng.choice([1, True, "x", {"a": 1}, None, [1], s])
        return gen.set_at(doc, p[:-1], parent)
    cur = gen.get_at(doc, p)
    if isinstance(cur, list):
        return gen.set_at(doc, p, cur + [rng.choice([s, {s: 1}, {s: True}])])
    return gen.set_at(doc, p, {s: rng.choice([1, True, {"a": 1}])})


def stream_case(rng):
    """multi-document streams: a $required arriving through a layer that fans out to several documents must be
    satisfied per document (an override in one document says nothing about the others)"""
    from props import c02
    c = c02.gen_case(rng)
    steps = []
    for s in c["steps"]:
        if "merge" in s and rng.random() < 0.5:
            m = dict(s["merge"])
            m["data"] = gen.with_required(rng, m["data"], 0.15)
            if isinstance(m["data"], dict) and rng.random() < 0.5:
                m["data"] = dict(m["data"], lst=[{"name": rng.choice(["x", "y"]), "port": "$required"}])
            steps.append({"merge": m})
        else:
            steps.append(s)
    return dict(c, steps=steps)


def list_placeholder_case(rng):
    """a `$required` list entry in a lower layer and every kind of upper-layer value for that key: only an upper
    layer that actually supplies list entries satisfies it"""
    base = {"args": ["$required"] + ([rng.choice(["x", 1])] if rng.random() < 0.3 else []), "name": "n"}
    if rng.random() < 0.3:
        base = {"svc": base}
    upper_val = rng.choice([None, None, [], ["v"], "s", {"k": 1}, ["$required"], [None], "$delete", [{"$match": "$required", "$value": "v"}]])
    upper = {"args": upper_val}
    if "svc" in base:
        upper = {"svc": upper}
    layers = [base, upper]
    if rng.random() < 0.3:
        layers.insert(1, {"other": 1})
    return chain_case(layers, env=gen.ENV)


def gen_case(rng):
    r0 = rng.random()
    if r0 < 0.05:
        # markers below TWO levels of $encode (the inner transform hides them from every later check)
        layers = [gen.nested_encode_doc(rng)]
        if rng.random() < 0.3:
            layers.append({"other": 3})
        return chain_case(layers, env=gen.ENV)
    if r0 < 0.1:
        return list_placeholder_case(rng)
    if r0 < 0.24:
        return stream_case(rng)
    base = gen.eval_doc(rng, W, depth=rng.randint(2, 3), nfeat=(0, 2))
    base = gen.with_required(rng, base, 0.12)
    layers = [base]
    for _ in range(rng.randint(0, 2)):
        p = gen.patch_for(rng, layers[0], misplace=0.02)
        if isinstance(p, dict):
            layers.append(p)
    for _ in range(rng.randint(0, 2)):
        i = rng.randrange(len(layers))
        layers[i] = inject_stray(rng, layers[i])
    return chain_case(layers, env=gen.ENV)


BAD = re.compile(r"^\$[a-zß-öø-ÿµ]")


def scan(v):
    if isinstance(v, str):
        return v == "$required" or bool(BAD.match(v))
    if isinstance(v, dict):
        return any(scan(k) or scan(x) for k, x in v.items())
    if isinstance(v, list):
        return any(scan(x) for x in v)
    return False


def oracle(case, go, mo):
    """Direct: when the input contains no `$$`, a successful output must be marker-free."""
    if "$$" in str([s["merge"]["data"] for s in case["steps"] if "merge" in s]):
        return None
    if not go or "res" not in go:
        return None
    last = go["res"][-1]
    if "ok" in last and any(scan(from_wire(x)) for x in last["ok"]):
        return "an unresolved $required / directive reached the output"
    return None


def nontrivial(case, go, mo):
    return "$" in str(case["steps"])


def anchored_required_cases(rng, n):
    """layer FILES: a YAML base whose `$required`-carrying container sits under an anchor and is aliased at further places, and an
    upper layer that supplies the value at some of the places only - every other place still demands it"""
    import fscheck
    out = []
    for _ in range(n):
        sub = rng.choice([{"x": "$required", "y": 1}, {"x": "$required"}, [{"name": "n", "v": "$required"}], {"in": {"x": "$required"}, "k": "v"},
                          {"x": "$required", "l": [1, 2]}])
        sites = rng.sample(["a", "b", "c", "d"], rng.randint(2, 3))
        base = {k: sub for k in sites}
        base["other"] = rng.choice([1, "s", {"q": 1}])
        if rng.random() < 0.3:
            base["deep"] = {"w": sub}
            sites = sites + ["deep"]

        def fill(v):
            if isinstance(v, dict):
                return {k: (5 if x == "$required" else fill(x)) for k, x in v.items() if x == "$required" or isinstance(x, (dict, list))}
            if isinstance(v, list):
                return [{"$match": {"name": "n"}, "v": 5}]
            return v
        how = rng.random()
        chosen = sites if how < 0.15 else [] if how < 0.25 else rng.sample(sites, rng.randint(1, len(sites) - 1))
        upper = {k: ({"w": fill(sub)} if k == "deep" else fill(sub)) for k in chosen}
        layers = [base] + ([{"mid": 1}] if rng.random() < 0.3 else []) + [upper or {"other": 2}]
        layout, top = fscheck.chain_layout(rng, layers, exts=("yaml", "yml"), share=True)
        out.append({"layout": layout, "opts": {"inputs": [top], "format": "json"},
                    "meta": {"kind": "anchored-required:" + ("all" if len(chosen) == len(sites) else "none" if not chosen else "some")}})
    return out


YAML_SPELLINGS = [
    "p: !vault {M}\n", "p: !env {M}\nq: 1\n", "l:\n- !vault {M}\n- x\n", "p: !Ref {M}\n", "p: !!str {M}\n", "p: \"{M}\"\n", "p: '{M}'\n",
    "a: &x {M}\nb: *x\n", "a: &x !vault {M}\nb: *x\n", "d: &d {{k: !vault {M}}}\ne: {{<<: *d}}\n", "{M}: 1\n", "? {M}\n: 1\n", "? !vault {M}\n: 1\n",
    "p: !!binary JHJlcXVpcmVk\n", "p: !<tag:example.com,2000:x> {M}\n", "p: ! {M}\n", "p: !!python/name {M}\n", "--- !vault {M}\n",
    "m: !vault\n  k: {M}\n", "l: !seq\n- {M}\n"]


def yaml_spelling_stage(rep):
    """every lexical way YAML has to write a scalar (tags of all kinds, quoting, anchors, merge keys, key position) around a marker:
    whatever the reader makes of it, a SUCCESSFUL evaluation never prints a marker (direct oracle; no model involved)"""
    import formats
    from cli import run_cli, write_files, Workdir, pmap
    jobs = [(t.replace("{M}", m), layered) for t in YAML_SPELLINGS for m in ("$required", "$delete", "$bogus", "$merge:nosuch")
            for layered in (False, True)]

    def one(job):
        text, layered = job
        with Workdir() as d:
            write_files(d, {"a.yaml": text, "a.b.yaml": "other: 1\n"})
            outs = []
            for f in ("json", "yaml", "toml"):
                r = run_cli("bkl", ["-f", f, "a.b.yaml" if layered else "a.yaml"], d)
                outs.append((f, r["rc"], r["out"], r["err"][:160]))
            return outs
    for (text, layered), outs in zip(jobs, pmap(one, jobs)):
        rep.case(["yaml-spelling", text, layered], True)
        for f, rc, out, err in outs:
            rep.count(f"yaml-spelling:rc{rc}")
            if rc != 0:
                continue
            try:
                docs = formats.load_all(f, out)
            except Exception:
                docs = [out]
            if any(scan(x) for x in docs) and len(rep.violations) < 6:
                rep.violation("an unresolved $required / directive reached the output (YAML spelling of the marker)",
                              {"case": {"yamlspelling": {"text": text, "layered": layered, "format": f}}, "output": out[:300]})


def run(rep):
    standard_run(rep, PID, gen_case, nontrivial, "marker handling differs", 4000, 200000,
                 "1-3 layer chains with $required sprinkled over map values/list entries and directive-shaped keys/strings "
                 "(known, unknown, misspelt, misplaced) injected anywhere, incl. under $output:false and inside $encode subtrees; "
                 "non-trivial = contains a $ string", oracle=oracle, extra_gens=[small_scope(PID)])
    if len(rep.violations) < 5:
        yaml_spelling_stage(rep)
    if len(rep.violations) < 5:
        import random
        import fscheck
        fscheck.file_chain_stage(rep, anchored_required_cases(random.Random(rep.seed + 77), 120 if rep.tier == "quick" else 3000),
                                 "layer files with anchored $required containers")


def replay(rep, payload):
    if "yamlspelling" in payload.get("case", {}):
        from cli import run_cli, write_files, Workdir
        import formats
        c = payload["case"]["yamlspelling"]
        with Workdir() as d:
            write_files(d, {"a.yaml": c["text"], "a.b.yaml": "other: 1\n"})
            r = run_cli("bkl", ["-f", c["format"], "a.b.yaml" if c["layered"] else "a.yaml"], d)
        print(r["rc"], r["out"], r["err"])
        try:
            bad = r["rc"] == 0 and any(scan(x) for x in formats.load_all(c["format"], r["out"]))
        except Exception:
            bad = r["rc"] == 0 and scan(r["out"])
        return 1 if bad else 0
    if "filechain" in payload.get("case", {}):
        import fscheck
        return fscheck.file_chain_replay(payload["case"]["filechain"])
    return standard_replay(payload, oracle=oracle)
